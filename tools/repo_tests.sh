#!/bin/sh
# usage: repo_tests.sh <repo working tree>   -- builds it (cmake/ninja, same options as the shipped _build) in <tree>/_build
# and runs the test suite; prints the tests that fail although the baseline (/root/.vp/BASELINE.json stable_pass) passes them.
# exit 0 iff no baseline-passing test fails.
d=$(realpath "$1")
b=${2:-$d/_build_verif}
cmake -G Ninja -S "$d" -B "$b" -DCMAKE_BUILD_TYPE=RelWithDebInfo -DCMAKE_C_FLAGS=-Wno-error -DNOSTDERR=ON -DUSESYSLOG=ON >/dev/null || exit 2
cmake --build "$b" >/dev/null 2>"$b/build.err" || { tail -20 "$b/build.err"; exit 2; }
ctest --test-dir "$b" -j16 --timeout 900 > "$b/ctest.out" 2>&1
python3 - "$b/ctest.out" <<'PY'
import json, re, sys
base = json.load(open('/root/.vp/BASELINE.json'))
stable = {t.split('::')[0] for t in base['stable_pass']}
out = open(sys.argv[1]).read()
failed = set(re.findall(r'^\s*\d+ - (\S+) \(', out, flags=re.M))
passed = set(re.findall(r'Test\s+#\d+:\s+(\S+)\s+\.+\s+Passed', out))
bad = sorted(failed & stable)
missing = sorted(stable - passed - failed)
print('passed %d, failed %d; baseline-stable tests failing: %s; baseline-stable tests not run: %s' % (len(passed), len(failed), bad, missing))
sys.exit(1 if bad or missing else 0)
PY

#!/usr/bin/env python3
"""seed_recheck.py [ids...]: run the registered check of every recorded seeded change (seeded/<ID>/patch.diff) against it again.
The change is applied to /repo (git apply), ./check <ID> quick runs (evidence written to build/seed-evidence, not evidence/),
and the change is undone (git checkout -- .).  Updates seeded/<ID>/meta.json (recheck_* keys) and prints one line per change."""
import json, os, shutil, subprocess, sys, time
def sh(cmd, cwd=None, timeout=3000):
    p = subprocess.run(cmd, shell=True, cwd=cwd, stdout=subprocess.PIPE, stderr=subprocess.STDOUT, timeout=timeout)
    return p.returncode, p.stdout.decode('latin-1')
ids = [x[:3].upper() + x[3:] for x in sys.argv[1:]] or sorted(os.listdir('/verif/seeded'))
rc, o = sh('git -C /repo status --porcelain --untracked-files=no')
if o.strip():
    sys.exit('/repo has local modifications; not touching it')
missed = 0
for DIR in ids:
    PID = DIR[:3]
    dst = '/verif/seeded/%s' % DIR
    meta = json.load(open(dst + '/meta.json'))
    rc, o = sh('git -C /repo apply --check %s/patch.diff' % dst)
    if rc != 0 and sh('git -C /repo apply --check -C1 %s/patch.diff' % dst)[0] == 0:
        # context moved by a later fix: apply with reduced context and store the refreshed patch
        sh('git -C /repo apply -C1 %s/patch.diff' % dst); _, d = sh('git -C /repo diff'); sh('git -C /repo checkout -- .')
        shutil.copy(dst + '/patch.diff', dst + '/patch.orig.diff'); open(dst + '/patch.diff', 'w').write(d); rc = 0
    if rc != 0:
        print(DIR, 'patch no longer applies to /repo HEAD:', o.strip()[:200]); meta['recheck'] = 'patch does not apply'; missed += 1
    else:
        sh('git -C /repo apply %s/patch.diff' % dst)
        others = [c for c in meta.get('check_verdicts', {}) if c != PID]      # checks of other properties that caught it before
        other_caught = []
        try:
            t = time.time()
            rcc, oc = sh('VERIF_EVIDENCE_DIR=/verif/build/seed-evidence ./check %s quick' % PID, cwd='/verif')
            for c in others:
                rco, oco = sh('VERIF_EVIDENCE_DIR=/verif/build/seed-evidence ./check %s quick' % c, cwd='/verif')
                if rco == 1 and any(l.startswith('VIOLATION') for l in oco.split('\n')):
                    other_caught.append(c)
        finally:
            sh('git -C /repo checkout -- .')
        v = [l for l in oc.split('\n') if l.startswith('VIOLATION')]
        last = [l for l in oc.split('\n') if l.strip() and not l.startswith('KNOWN')][-1:]
        if v and 'replay=' in v[0]:
            rp = v[0].split('replay=')[1].split()[0]
            if os.path.exists(rp):
                shutil.copy(rp, os.path.join(dst, 'replay-%s.txt' % PID))
        caught = (rcc == 1 and bool(v)) or bool(other_caught)
        concrete = bool(v) and rcc == 1 and 'no-failing-input-found' not in v[0]
        meta['recheck'] = dict(head=sh('git -C /repo rev-parse --short HEAD')[1].strip(), exit=rcc, violation_line=v[0] if v else None,
                               summary=last[0] if last else '', wall_s=round(time.time() - t), concrete_input=concrete, caught_by_other_checks=other_caught)
        meta['caught'] = caught
        missed += 0 if caught else 1
        print(DIR, 'caught' if caught else 'MISSED', 'concrete-input' if concrete else (('by ' + ','.join(other_caught)) if other_caught else ('no-failing-input-found' if caught else '')), (last[0] if last else '')[:160])
    json.dump(meta, open(dst + '/meta.json', 'w'), indent=1)
sys.exit(1 if missed else 0)

"""Shared machinery of ./check: translate, prove, build, correspond, decide, evidence.

Layout assumed (all under /verif): coq/, ocaml/, harness/, props/, build/ (scratch), evidence/, replays/.
Every external command runs under a timeout.  Nothing here writes to /repo.
"""
import fcntl, glob, hashlib, json, os, random, re, shutil, subprocess, sys, time

VERIF = os.path.dirname(os.path.dirname(os.path.abspath(__file__)))
REPO = os.environ.get('VERIF_REPO', '/repo')
COQ = os.path.join(VERIF, 'coq')
BUILD = os.path.join(VERIF, 'build')
NPROC = str(os.cpu_count() or 4)

CFLAGS = ['-std=gnu99', '-O1', '-g', '-fsanitize=address,undefined', '-fno-sanitize-recover=all',
          '-fno-omit-frame-pointer', '-D_GNU_SOURCE', '-D_FILE_OFFSET_BITS=64', '-DHAS_PIPE2', '-DNOSTDERR',
          '-DNDEBUG', '-w', '-I' + os.path.join(VERIF, 'harness', 'inc'), '-I' + os.path.join(REPO, 'include'), '-I' + REPO]
RUNENV = dict(os.environ, ASAN_OPTIONS='detect_leaks=0:abort_on_error=0:allocator_may_return_null=1',
              UBSAN_OPTIONS='print_stacktrace=0')

HYGIENE_RE = re.compile(r'\b(Admitted|admit|Axiom|Axioms|Parameter|Parameters|Conjecture|Hypothesis|Hypotheses|'
                        r'Unset\s+Guard|bypass_check|Admit\s+Obligations|type-in-type|impredicative-set|'
                        r'Unset\s+Universe\s+Checking|Unset\s+Positivity)\b')


def log(msg):
    sys.stderr.write(msg + '\n')
    sys.stderr.flush()


def sh(cmd, timeout=600, cwd=None, env=None, input=None):
    """run; returns (rc, stdout+stderr as str). rc=124 on timeout."""
    try:
        p = subprocess.run(cmd, cwd=cwd, env=env, input=input, stdout=subprocess.PIPE, stderr=subprocess.STDOUT,
                           timeout=timeout)
        return p.returncode, p.stdout.decode('latin-1')
    except subprocess.TimeoutExpired as e:
        return 124, (e.stdout or b'').decode('latin-1') + '\nTIMEOUT after %ss' % timeout


class Lock:
    """serialises the shared Coq build tree between concurrently running checks"""
    def __init__(self, name='coq'):
        os.makedirs(BUILD, exist_ok=True)
        self.path = os.path.join(BUILD, '.%s.lock' % name)
    def __enter__(self):
        self.f = open(self.path, 'w')
        fcntl.flock(self.f, fcntl.LOCK_EX)
    def __exit__(self, *a):
        fcntl.flock(self.f, fcntl.LOCK_UN)
        self.f.close()


# ------------------------------------------------------------------ translate
def translate():
    """regenerate coq/Gen from REPO. returns (ok, message)"""
    rc, out = sh([sys.executable, os.path.join(VERIF, 'tools', 'translate.py'), REPO, os.path.join(COQ, 'Gen')], timeout=120)
    return rc == 0, out.strip()


def coq_deps(files):
    """transitive closure of the Qv modules imported by the given .v files (paths relative to coq/): set of 'Dir/Name.v'"""
    seen, todo = set(), list(files)
    while todo:
        f = todo.pop()
        if f in seen:
            continue
        seen.add(f)
        path = os.path.join(COQ, f)
        if not os.path.exists(path):
            continue
        txt = open(path, encoding='latin-1').read()
        for m in re.finditer(r'Require\s+(?:Import|Export)\s+(.*?)\.\s', txt, flags=re.S):
            for mod in m.group(1).split():
                mod = mod.replace('Qv.', '')
                if '.' in mod:
                    todo.append(mod.replace('.', '/') + '.v')
    return seen


# ------------------------------------------------------------------ coq
def coq_project():
    files = []
    for d in ('Common', 'Gen', 'Model', 'Spec', 'Proofs', 'Props'):
        files += sorted(glob.glob(os.path.join(COQ, d, '*.v')))
    rel = [os.path.relpath(f, COQ) for f in files]
    text = '-Q . Qv\n-arg -w -arg -notation-overridden,-deprecated-hint-without-locality,-deprecated-instance-without-locality\n' + '\n'.join(rel) + '\n'
    path = os.path.join(COQ, '_CoqProject')
    old = open(path).read() if os.path.exists(path) else None
    if old != text or not os.path.exists(os.path.join(COQ, 'Makefile')):
        open(path, 'w').write(text)
        rc, out = sh(['coq_makefile', '-f', '_CoqProject', '-o', 'Makefile'], cwd=COQ, timeout=120)
        if rc != 0:
            raise RuntimeError('coq_makefile failed: ' + out)


def coq_make(targets, timeout=1500, clean=False):
    """full .vo build of the given targets (relative to coq/, e.g. Props/Properties_C10.vo).
    returns (ok, log)"""
    with Lock('coq'):
        coq_project()
        if clean:
            sh(['make', 'clean'], cwd=COQ, timeout=300)
        # definitions first (Common/Gen/Model/Spec: needed by the extraction even when a proof is broken); failures here
        # surface again below if the property depends on them
        defs = []
        for d in ('Common', 'Gen', 'Model', 'Spec'):
            defs += [os.path.relpath(f, COQ)[:-2] + '.vo' for f in sorted(glob.glob(os.path.join(COQ, d, '*.v')))]
        sh(['make', '-k', '-j' + NPROC] + defs, cwd=COQ, timeout=timeout)
        rc, out = sh(['make', '-k', '-j' + NPROC] + targets, cwd=COQ, timeout=timeout)
    return rc == 0, out


def print_assumptions(props_file):
    """re-run coqc on a Props file (cheap: dependencies are compiled) and parse Print Assumptions output.
    returns list of (theorem, 'closed' | [axioms])"""
    rc, out = sh(['coqc', '-Q', '.', 'Qv', '-w', '-notation-overridden', props_file], cwd=COQ, timeout=600)
    res = []
    if rc != 0:
        return None, out
    src = open(os.path.join(COQ, props_file)).read()
    names = re.findall(r'Print\s+Assumptions\s+([\w\.]+)\s*\.', src)
    blocks = re.split(r'(?=Closed under the global context|Axioms:)', out)
    blocks = [b for b in blocks if b.startswith('Closed under') or b.startswith('Axioms:')]
    for i, n in enumerate(names):
        if i < len(blocks):
            b = blocks[i]
            if b.startswith('Closed'):
                res.append((n, 'closed'))
            else:
                ax = re.findall(r'^([\w\.]+)\s*:', b[len('Axioms:'):], flags=re.M)
                res.append((n, ax))
        else:
            res.append((n, ['<no output>']))
    return res, out


def hygiene(files=None):
    """forbidden vernacular anywhere in the development. returns list of 'file:line: text'"""
    bad = []
    if files is None:
        files = glob.glob(os.path.join(COQ, '**', '*.v'), recursive=True)
    for f in files:
        txt = open(f, encoding='latin-1').read()
        # strip comments (nested)
        out, depth, i = [], 0, 0
        while i < len(txt):
            if txt.startswith('(*', i):
                depth += 1; i += 2; continue
            if txt.startswith('*)', i) and depth:
                depth -= 1; i += 2; continue
            if not depth:
                out.append(txt[i])
            elif txt[i] == '\n':
                out.append('\n')
            i += 1
        for n, line in enumerate(''.join(out).split('\n'), 1):
            if HYGIENE_RE.search(line):
                bad.append('%s:%d: %s' % (os.path.relpath(f, VERIF), n, line.strip()))
        # Variable/Hypothesis outside a section would be an axiom: covered by the regex for Hypothesis;
        # 'Variable' is allowed only inside Section ... End
        depth = 0
        for n, line in enumerate(''.join(out).split('\n'), 1):
            if re.match(r'\s*Section\s+\w+', line): depth += 1
            if re.match(r'\s*End\s+\w+', line) and depth: depth -= 1
            if re.match(r'\s*(Variable|Variables|Context)\b', line) and depth == 0:
                bad.append('%s:%d: %s (outside a section)' % (os.path.relpath(f, VERIF), n, line.strip()))
    return bad


# ------------------------------------------------------------------ builds
def build_c(engine, sources, extra=(), libs=('-lssl', '-lcrypto'), out=None):
    """compile a harness from /verif/harness sources (which #include files of REPO's working tree)"""
    d = os.path.join(BUILD, engine)
    os.makedirs(d, exist_ok=True)
    out = out or os.path.join(d, engine + '_h')
    cmd = ['gcc'] + CFLAGS + list(extra) + ['-DVERIF_REPO="%s"' % REPO] + sources + ['-o', out] + list(libs)
    rc, log_ = sh(cmd, timeout=600, cwd=d)
    return (out if rc == 0 else None), log_


def build_ocaml(engine, extract_v, driver_ml, glue=('glue.ml',)):
    """extract the model (coqc on Extract/<x>.v, writes m.ml into build/<engine>) and link the driver"""
    d = os.path.join(BUILD, engine)
    os.makedirs(d, exist_ok=True)
    with Lock('coq'):
        rc, out = sh(['coqc', '-Q', COQ, 'Qv', '-w', '-notation-overridden,-extraction', os.path.join(COQ, extract_v)], cwd=d, timeout=900)
    if rc != 0:
        return None, out
    with open(os.path.join(d, 'main.ml'), 'w') as f:
        for g in glue:
            f.write(open(os.path.join(VERIF, 'ocaml', g)).read() + '\n')
        f.write(open(os.path.join(VERIF, 'ocaml', driver_ml)).read())
    exe = os.path.join(d, engine + '_m')
    rc, out2 = sh(['ocamlfind', 'ocamlopt', '-O3', '-w', '-a', 'm.mli', 'm.ml', 'main.ml', '-o', exe], cwd=d, timeout=600)
    if rc != 0:
        rc, out2 = sh(['ocamlfind', 'ocamlopt', '-w', '-a', 'm.mli', 'm.ml', 'main.ml', '-o', exe], cwd=d, timeout=600)
    return (exe if rc == 0 else None), out + out2


def run_lines(exe, args, lines, timeout=900, env=None):
    """feed case lines, get result lines (same count expected)"""
    data = ('\n'.join(lines) + '\n').encode('latin-1') if lines else b''
    e = dict(RUNENV)
    e['OCAMLRUNPARAM'] = 'l=8G'
    if env: e.update(env)
    try:
        p = subprocess.run([exe] + list(args), input=data, stdout=subprocess.PIPE, stderr=subprocess.PIPE, timeout=timeout, env=e,
                           preexec_fn=lambda: __import__('resource').setrlimit(__import__('resource').RLIMIT_STACK, (-1, -1)))
    except subprocess.TimeoutExpired:
        return None, 'timeout'
    out = p.stdout.decode('latin-1').split('\n')
    if out and out[-1] == '':
        out.pop()
    out = [' '.join(l.split()) for l in out]
    return out, p.stderr.decode('latin-1')[-2000:]


def run_parallel(exe, args, lines, shards=16, timeout=900, env=None):
    """split the case list over several processes"""
    from concurrent.futures import ThreadPoolExecutor
    if len(lines) < 64:
        return run_lines(exe, args, lines, timeout, env)
    n = min(shards, max(1, len(lines) // 32))
    chunks = [lines[i * len(lines) // n:(i + 1) * len(lines) // n] for i in range(n)]
    with ThreadPoolExecutor(n) as ex:
        rs = list(ex.map(lambda c: run_lines(exe, args, c, timeout, env), chunks))
    out, err = [], ''
    for (o, e), c in zip(rs, chunks):
        if o is None or len(o) != len(c):
            return None, 'shard failed: %s (got %s lines for %d cases)' % (e, None if o is None else len(o), len(c))
        out += o
        err += e
    return out, err


# ------------------------------------------------------------------ helpers for generators
def hx(b):
    if isinstance(b, str):
        b = b.encode('latin-1')
    return b.hex() if b else '-'


def unhx(s):
    return b'' if s == '-' else bytes.fromhex(s)


def read_corpus(prop):
    d = os.path.join(VERIF, 'corpus', prop)
    lines = []
    for f in sorted(glob.glob(os.path.join(d, '*.cases'))):
        for l in open(f):
            l = l.rstrip('\n')
            if l and not l.startswith('#'):
                lines.append(l)
    return lines


# ------------------------------------------------------------------ known findings
def known_findings(prop):
    """entries of /verif/known_findings.txt for this property.
    format:  known: property=Cxx id=<fid> class=<predicate name> replay=<path> :: <what fails>
             fixed: property=Cxx <commit> <what failed>"""
    res = []
    p = os.path.join(VERIF, 'known_findings.txt')
    if not os.path.exists(p):
        return res
    for l in open(p):
        l = l.strip()
        if not l.startswith('known:'):
            continue
        m = re.match(r'known:\s+property=(\w+)\s+id=(\S+)\s+class=(\S+)\s+replay=(\S+)\s+::\s+(.*)', l)
        if m and m.group(1) == prop:
            res.append(dict(id=m.group(2), cls=m.group(3), replay=m.group(4), what=m.group(5)))
    return res


# ------------------------------------------------------------------ evidence / verdict
def write_evidence(prop, tier, seed, coverage, assumptions, wall, violations):
    evdir = os.environ.get('VERIF_EVIDENCE_DIR') or os.path.join(VERIF, 'evidence')   # seed evaluation writes elsewhere
    os.makedirs(evdir, exist_ok=True)
    ev = dict(property_id=prop, tier=tier, seed=seed, level='proof', coverage=coverage,
              assumptions=assumptions, wall_s=round(wall, 2), violations=violations)
    tmp = os.path.join(evdir, prop + '.json.tmp')
    with open(tmp, 'w') as f:
        json.dump(ev, f, indent=1, sort_keys=True)
        f.write('\n')
    os.replace(tmp, os.path.join(evdir, prop + '.json'))


def write_replay(prop, seed, n, content):
    d = os.path.join(VERIF, 'replays')
    os.makedirs(d, exist_ok=True)
    path = os.path.join(d, '%s-%s-%d.replay' % (prop, seed, n))
    with open(path, 'w') as f:
        f.write(content)
    return path

#!/usr/bin/env python3
"""regenerates the generated parts of DESIGN.md (between <!-- BEGIN x --> / <!-- END x --> markers):
   findings table from known_findings.txt, seeded-change table from seeded/*/meta.json, theorem inventory from coq/Props."""
import glob, json, os, re
V = os.path.dirname(os.path.dirname(os.path.abspath(__file__)))
def findings():
    out = ['| property | status | commit / class | what failed |', '|---|---|---|---|']
    for l in open(os.path.join(V, 'known_findings.txt')):
        l = l.strip()
        m = re.match(r'fixed:\s+property=(\w+)\s+(\S+)\s+(.*)', l)
        if m:
            out.append('| %s | fixed | `%s` | %s |' % (m.group(1), m.group(2), m.group(3).replace('|', '\\|')[:400]))
        m = re.match(r'known:\s+property=(\w+)\s+id=(\S+)\s+class=(\S+)\s+replay=(\S+)\s+::\s+(.*)', l)
        if m:
            out.append('| %s | known %s | class `%s` | %s |' % (m.group(1), m.group(2), m.group(3), m.group(5).replace('|', '\\|')[:400]))
    return '\n'.join(out)
def seeds():
    out = ['| property | seeded change (summary) | needs | caught by `./check` | first verdict line |', '|---|---|---|---|---|']
    for f in sorted(glob.glob(os.path.join(V, 'seeded', '*', 'meta.json'))):
        m = json.load(open(f))
        pid = os.path.basename(os.path.dirname(f))
        v = m.get('check_verdicts', {})
        rc = m.get('recheck') if isinstance(m.get('recheck'), dict) else None
        if rc:          # the latest run of the registered check against the change (tools/seed_recheck.py)
            line = '%s: %s' % (pid[:3], (rc.get('violation_line') or 'no VIOLATION').replace('/verif/replays/', ''))
        else:
            line = '; '.join('%s: %s' % (k, (x.get('violation_line') or 'no VIOLATION').replace('/verif/replays/', '')) for k, x in v.items())
        how = 'NO'
        if m.get('caught'):
            how = 'yes, no-failing-input-found' if 'no-failing-input-found' in line and 'replay=' in line and line.count('VIOLATION') == line.count('no-failing-input-found') else 'yes, concrete input'
        out.append('| %s | %s | %s | %s | %s |' % (pid, str(m.get('summary', ''))[:300].replace('|', '\\|'), str(m.get('needs', ''))[:200].replace('|', '\\|'),
                                                  how, line[:160]))
    return '\n'.join(out)
def theorems():
    out = ['| property | theorems in coq/Props (all re-checked on every run, `Print Assumptions` = closed) |', '|---|---|']
    for f in sorted(glob.glob(os.path.join(V, 'coq', 'Props', 'Properties_C*.v'))):
        names = re.findall(r'^Theorem\s+(\w+)', open(f).read(), flags=re.M)
        out.append('| %s | %s |' % (os.path.basename(f)[11:14], ', '.join('`%s`' % n for n in names)))
    return '\n'.join(out)
s = open(os.path.join(V, 'DESIGN.md')).read()
for key, fn in (('FINDINGS', findings), ('SEEDS', seeds), ('THEOREMS', theorems)):
    b, e = '<!-- BEGIN %s -->' % key, '<!-- END %s -->' % key
    if b in s:
        s = s[:s.index(b) + len(b)] + '\n' + fn() + '\n' + s[s.index(e):]
open(os.path.join(V, 'DESIGN.md'), 'w').write(s)

"""lib/cdb.c + vget_dir() of qsmtpd/backends/user_vpopm/vpop.c -> Gen/GenCdb.v

Constants of the cdb reader (hash start value and shift, header size, slot size, table count mask, hash shift) and of
the record parser in vget_dir() (number of NUL-terminated fields, the stripped character), plus presence tests for every
bounds check the memory-safety theorem C13_cdb_safe relies on.  EINVAL comes from the system headers.
"""
import re
from trlib import *
from vpop import sysconsts, chr_lit

REL = 'lib/cdb.c'


def need(pat, text, what, flags=0):
    if not re.search(pat, text, flags):
        raise TranslateError('%s: not found' % what)


def body(src, name):
    m = re.search(r'^' + re.escape(name) + r'\([^)]*\)\s*\{.*?\n\}', src, flags=re.M | re.S)
    if not m:
        raise TranslateError('%s: function %s not found' % (REL, name))
    return m.group(0)


def gen_cdb(repo):
    src = strip_comments(read(repo, REL))
    sysc = sysconsts()
    import subprocess
    p = subprocess.run(['gcc', '-E', '-dM', '-'], input=b'#include <errno.h>\n', stdout=subprocess.PIPE, stderr=subprocess.PIPE, timeout=60)
    m = re.search(r'^#define EINVAL (\d+)\s*$', p.stdout.decode('latin-1'), flags=re.M)
    if not m:
        raise TranslateError('EINVAL not found')
    einval = int(m.group(1))
    start = int(one(r'#define\s+CDB_HASHSTART\s+(\d+)', src, 'CDB_HASHSTART'))
    hf = body(src, 'cdb_hash')
    need(r'uint32_t\s+h\s*=\s*CDB_HASHSTART\s*;', hf, 'cdb_hash start')
    shift = int(one(r'h\s*\+=\s*\(\s*h\s*<<\s*(\d+)\s*\)\s*;', hf, 'cdb_hash shift'))
    need(r'h\s*\^=\s*\(uint32_t\)\s*\*buf\+\+\s*;', hf, 'cdb_hash xor (char, sign-extended)')
    need(r'cdb_hash\(const\s+char\s*\*buf', hf, 'cdb_hash takes plain char')
    up = body(src, 'cdb_unpack')
    need(r'buf\[3\]\)\)\s*<<\s*24\)\s*\+.*buf\[2\]\)\)\s*<<\s*16\)\s*\+.*buf\[1\]\)\)\s*<<\s*8\)\s*\+.*buf\[0\]\)\)', up, 'cdb_unpack little endian', re.S)
    sk = body(src, 'cdb_seekmm')
    need(r'if\s*\(\s*!st->st_size\s*\)\s*\{\s*errno\s*=\s*0\s*;', sk, 'empty file = not found')
    ntab, slot = one(r'if\s*\(\s*size\s*<\s*(\d+)\s*\*\s*(\d+)\s*\)\s*goto\s+corrupt\s*;', sk, 'header size check')
    mask = int(one(r'uint32_t\s+pos\s*=\s*8\s*\*\s*\(\s*h\s*&\s*(\d+)\s*\)\s*;', sk, 'table selection'))
    if int(ntab) != mask + 1 or int(slot) != 8:
        raise TranslateError('header size %s*%s does not match the table mask %d' % (ntab, slot, mask))
    need(r'uint32_t\s+lenhash\s*=\s*cdb_unpack\(\s*\*mm\s*\+\s*pos\s*\+\s*4\s*\)\s*;', sk, 'lenhash read')
    hshift = int(one(r'uint32_t\s+h2\s*=\s*\(\s*h\s*>>\s*(\d+)\s*\)\s*%\s*lenhash\s*;', sk, 'start slot'))
    need(r'pos\s*=\s*cdb_unpack\(\s*\*mm\s*\+\s*pos\s*\)\s*;\s*if\s*\(\s*\(\s*pos\s*>\s*size\s*\)\s*\|\|\s*\(\s*lenhash\s*>\s*\(\s*size\s*-\s*pos\s*\)\s*/\s*8\s*\)\s*\)\s*goto\s+corrupt\s*;', sk, 'table bounds check')
    need(r'for\s*\(\s*uint32_t\s+loop\s*=\s*0\s*;\s*loop\s*<\s*lenhash\s*;\s*\+\+loop\s*\)', sk, 'loop bound lenhash')
    need(r'char\s*\*cur\s*=\s*\*mm\s*\+\s*pos\s*\+\s*8\s*\*\s*\(uint64_t\)\s*h2\s*;\s*uint32_t\s+poskd\s*=\s*cdb_unpack\(\s*cur\s*\+\s*4\s*\)\s*;\s*if\s*\(\s*!poskd\s*\)\s*break\s*;', sk, 'slot read')
    need(r'if\s*\(\s*cdb_unpack\(cur\)\s*==\s*h\s*\)\s*\{\s*if\s*\(\s*\(\s*poskd\s*>\s*size\s*\)\s*\|\|\s*\(\s*size\s*-\s*poskd\s*<\s*8\s*\)\s*\)\s*goto\s+corrupt\s*;\s*cur\s*=\s*\*mm\s*\+\s*poskd\s*;', sk, 'record header bounds check')
    need(r'if\s*\(\s*cdb_unpack\(cur\)\s*==\s*len\s*\)\s*\{\s*const\s+uint32_t\s+dlen\s*=\s*cdb_unpack\(\s*cur\s*\+\s*4\s*\)\s*;\s*if\s*\(\s*\(\s*size\s*-\s*poskd\s*-\s*8\s*<\s*len\s*\)\s*\|\|\s*\(\s*size\s*-\s*poskd\s*-\s*8\s*-\s*len\s*<\s*dlen\s*\)\s*\)\s*goto\s+corrupt\s*;', sk, 'key/data bounds check')
    need(r'if\s*\(\s*!strncmp\(\s*cur\s*\+\s*8\s*,\s*key\s*,\s*len\s*\)\s*\)\s*return\s+cur\s*\+\s*8\s*\+\s*len\s*;', sk, 'key comparison / result')
    need(r'if\s*\(\s*\+\+h2\s*==\s*lenhash\s*\)\s*h2\s*=\s*0\s*;', sk, 'slot wrap')
    need(r'corrupt\s*:\s*munmap\(\s*\*mm\s*,\s*st->st_size\s*\)\s*;\s*errno\s*=\s*EINVAL\s*;\s*return\s+NULL\s*;', sk, 'corrupt exit')
    # vget_dir record parser
    vsrc = strip_comments(read(repo, 'qsmtpd/backends/user_vpopm/vpop.c'))
    vg = func_body(vsrc, 'vget_dir', 'vpop.c')
    need(r'const\s+char\s*\*\s*const\s+cdb_end\s*=\s*cdb_mmap\s*\+\s*st\.st_size\s*;', vg, 'cdb_end')
    nfields = int(one(r'for\s*\(\s*int\s+i\s*=\s*(\d+)\s*;\s*i\s*>\s*0\s*;\s*i--\s*\)\s*\{\s*const\s+char\s*\*fieldend\s*=\s*memchr\(\s*cdb_buf\s*,\s*\'\\0\'\s*,\s*cdb_end\s*-\s*cdb_buf\s*\)\s*;', vg, 'field loop'))
    need(r'if\s*\(\s*fieldend\s*==\s*NULL\s*\)\s*\{\s*munmap\(cdb_mmap,\s*st\.st_size\)\s*;\s*err_control\("users/cdb"\)\s*;\s*return\s+-EDONE\s*;\s*\}\s*if\s*\(\s*i\s*>\s*1\s*\)\s*cdb_buf\s*=\s*fieldend\s*\+\s*1\s*;', vg, 'field loop body')
    need(r'if\s*\(\s*ds->userdirfd\s*>=\s*0\s*\)\s*\{\s*close\(ds->userdirfd\)\s*;\s*ds->userdirfd\s*=\s*-1\s*;\s*\}\s*if\s*\(\s*ds->domaindirfd\s*>=\s*0\s*\)\s*\{\s*close\(ds->domaindirfd\)\s*;\s*ds->domaindirfd\s*=\s*-1\s*;\s*\}', vg, 'both descriptors closed when the domain path is kept')
    need(r'if\s*\(\s*\(\s*len\s*\+\s*1\s*!=\s*ds->domainpath\.len\s*\)\s*\|\|\s*\(\s*memcmp\(\s*ds->domainpath\.s\s*,\s*cdb_buf\s*,\s*len\s*\)\s*!=\s*0\s*\)\s*\)', vg, 'comparison with the stored domain path')
    strip = chr_lit(one(r"len\s*=\s*strlen\(cdb_buf\)\s*;\s*while\s*\(\s*\*\(\s*cdb_buf\s*\+\s*len\s*-\s*1\s*\)\s*==\s*'([^']+)'\s*\)\s*--len\s*;", vg, 'trailing slash strip'), 'strip char')
    addc = chr_lit(one(r"ds->domainpath\.s\[len\]\s*=\s*'([^']+)'\s*;\s*ds->domainpath\.s\[len\s*\+\s*1\]\s*=\s*'\\0'\s*;", vg, 'appended slash'), 'appended char')
    need(r'case\s+0\s*:\s*return\s+0\s*;\s*case\s+EMFILE\s*:\s*case\s+ENFILE\s*:\s*case\s+ENOMEM\s*:\s*return\s+-ENOMEM\s*;\s*default\s*:\s*err_control\("users/cdb"\)\s*;\s*return\s+-EDONE\s*;', vg, 'errno switch after cdb_seekmm')
    out = HEADER % (REL + ', vpop.c:vget_dir')
    def n(k, v): return 'Definition %s : N := %d%%N.\n' % (k, v)
    def nat(k, v): return 'Definition %s : nat := %d.\n' % (k, v)
    out += n('CDB_HASHSTART', start) + n('CDB_SHIFT', shift) + n('CDB_TABMASK', mask) + n('CDB_HDR', int(ntab) * int(slot))
    out += n('CDB_HSHIFT', hshift) + n('CDB_EINVAL', einval)
    out += nat('CDB_NFIELDS', nfields) + n('CDB_STRIP', strip) + n('CDB_APPEND', addc)
    out += 'Definition CDB_NOMEM_SET : list N := %s.\n' % coq_bytes([sysc['EMFILE'], sysc['ENFILE'], sysc['ENOMEM']])
    return out


GENERATORS = {'GenCdb.v': gen_cdb}

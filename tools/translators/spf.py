"""qsmtpd/spf.c, include/qsmtpd/antispam.h -> Gen/GenSpf.v

Constants and tables of the SPF evaluator that the C11 theorems hinge on:
result codes, the DNS term limit and the places where it is tested, the
mechanism chain (names, delimiters, order), the sanitiser thresholds of
record_bad_token() and of the exp= text, the literal pieces of the
Received-SPF header."""
import re
from trlib import *


def cchar(lit):
    """value of a C character literal body like  a  \\t  \\\\  \\'  """
    bs = c_unescape(lit)
    if len(bs) != 1:
        raise TranslateError('bad char literal %r' % lit)
    return bs[0]


def gen_spf(repo):
    rel = 'qsmtpd/spf.c'
    src = strip_comments(read(repo, rel))
    hdr = strip_comments(read(repo, 'include/qsmtpd/antispam.h'))
    out = HEADER % (rel + ', include/qsmtpd/antispam.h')
    out += 'From Coq Require Import ZArith.\n'
    # ---- result codes
    enum = one(r'enum\s+spf_eval_result\s*\{(.*?)\}', hdr, 'enum spf_eval_result', re.S)
    codes = dict(re.findall(r'(SPF_[A-Z_]+)\s*=\s*(\d+)', enum))
    for k in ['SPF_NONE', 'SPF_PASS', 'SPF_NEUTRAL', 'SPF_SOFTFAIL', 'SPF_FAIL', 'SPF_PERMERROR', 'SPF_TEMPERROR', 'SPF_DNS_HARD_ERROR', 'SPF_IGNORE']:
        if k not in codes:
            raise TranslateError('antispam.h: %s not found' % k)
        out += 'Definition %s : Z := %s%%Z.\n' % (k, codes[k])
    # ---- DNS term limit
    lim = func_body(src, 'spf_dnsterm_limit', rel)
    if not re.search(r'\*queries\s*\+=\s*1\s*;', lim):
        raise TranslateError('spf_dnsterm_limit: counter increment not found')
    out += 'Definition SPF_TERM_LIMIT : nat := %s.\n' % one(r'return\s*\(\s*\*queries\s*>\s*(\d+)\s*\)\s*;', lim, 'spf_dnsterm_limit threshold')
    look = func_body(src, 'spflookup', rel)
    # every evaluation of a DNS querying term must be guarded by the limit test
    guards = [
        (r'if\s*\(\s*spf_dnsterm_limit\(queries\)\s*\)\s*result\s*=\s*SPF_FAIL\s*;\s*else\s*result\s*=\s*spfmx\(domain,\s*token\)\s*;', 'mx'),
        (r'if\s*\(\s*spf_dnsterm_limit\(queries\)\s*\)\s*result\s*=\s*SPF_FAIL\s*;\s*else\s*result\s*=\s*spfptr\(domain,\s*token\)\s*;', 'ptr'),
        (r'if\s*\(\s*spf_dnsterm_limit\(queries\)\s*\)\s*result\s*=\s*SPF_FAIL\s*;\s*else\s*result\s*=\s*spfexists\(domain,\s*\+\+token\)\s*;', 'exists'),
        (r'if\s*\(\s*spf_dnsterm_limit\(queries\)\s*\)\s*result\s*=\s*SPF_FAIL\s*;\s*else\s*result\s*=\s*spfa\(domain,\s*token\)\s*;', 'a'),
        (r'\}\s*else\s+if\s*\(\s*spf_dnsterm_limit\(queries\)\s*\)\s*\{\s*result\s*=\s*SPF_FAIL\s*;\s*\}\s*else\s*\{\s*result\s*=\s*spflookup\(n,\s*queries\)\s*;', 'include'),
        (r'\}\s*else\s+if\s*\(\s*spf_dnsterm_limit\(queries\)\s*\)\s*\{\s*result\s*=\s*SPF_FAIL\s*;\s*\}\s*else\s*\{[^{}]*result\s*=\s*spflookup\(domspec,\s*queries\)\s*;', 'redirect'),
    ]
    for pat, what in guards:
        if len(re.findall(pat, look)) != 1:
            raise TranslateError('spflookup: evaluation of "%s" is not guarded by spf_dnsterm_limit() in the expected form' % what)
    for fn, n in [('spfmx', 1), ('spfptr', 1), ('spfexists', 1), ('spfa', 1), ('spflookup', 3)]:
        if len(re.findall(r'\b' + fn + r'\(', look)) != n:
            raise TranslateError('spflookup: unexpected number of calls of %s' % fn)
    if len(re.findall(r'queries', look)) != 11:
        raise TranslateError('spflookup: the counter is used in %d places, expected 11 (signature, first-call test, six limit tests, two recursive calls, include result test)' % len(re.findall(r'queries', look)))
    out += 'Definition SPF_INCLUDE_KEEP_FAIL : nat := %s.\n' % one(r'case\s+SPF_FAIL\s*:\s*if\s*\(\s*\*queries\s*>\s*(\d+)\s*\)\s*break\s*;', look, 'include: keep FAIL test')
    # ---- mechanism chain
    chain = re.findall(r'match_mechanism\(token,\s*"([a-z0-9]+)",\s*"([^"]*)"\)', look)
    if [c[0] for c in chain] != ['mx', 'ptr', 'exists', 'all', 'a', 'ip4', 'ip6', 'include']:
        raise TranslateError('spflookup: mechanism chain changed: %r' % chain)
    for name, delims in chain:
        out += 'Definition MECH_%s : list N * list N := (%s, %s).\n' % (name, coq_bytes(c_unescape(name)), coq_bytes(c_unescape(delims)))
    out += 'Definition SPF_VERSION : list N := %s.\n' % coq_bytes(c_unescape(allsame(r'"(v=spf1)"', look, 'version tag')))
    for mod in ['redirect=', 'exp=']:
        if not re.search(r'find_modifier\(token,\s*"%s"\)' % mod, look):
            raise TranslateError('spflookup: find_modifier(token, "%s") not found' % mod)
    out += 'Definition MOD_REDIRECT : list N := %s.\nDefinition MOD_EXP : list N := %s.\n' % (coq_bytes(c_unescape('redirect=')), coq_bytes(c_unescape('exp=')))
    # ---- other limits
    mx = func_body(src, 'spfmx', rel)
    out += 'Definition SPF_MX_LIMIT : nat := %s.\n' % one(r'if\s*\(\s*i\s*>\s*(\d+)\s*\)\s*\{\s*freeips\(mx\);\s*return\s+SPF_FAIL;', mx, 'spfmx limit')
    vd = func_body(src, 'validate_domain', rel)
    a, b = one(r'if\s*\(\s*r\s*>\s*(\d+)\s*\)\s*r\s*=\s*(\d+)\s*;', vd, 'validate_domain limit')
    if a != b:
        raise TranslateError('validate_domain: limit %s/%s' % (a, b))
    out += 'Definition SPF_PTR_LIMIT : nat := %s.\n' % a
    tl = func_body(src, 'txtlookup', rel)
    out += 'Definition SPF_TXT_MAXLEN : Z := %s%%Z.\n' % one(r'while\s*\(\s*len\s*-\s*offs\s*>\s*(\d+)\s*\)', tl, 'txtlookup length')
    i4 = func_body(src, 'spfip4', rel)
    lo, hi = one(r'\(u\s*<\s*(\d+)\)\s*\|\|\s*\(u\s*>\s*(\d+)\)', i4, 'spfip4 prefix range')
    out += 'Definition IP4_PREFIX_MIN : N := %s.\nDefinition IP4_PREFIX_MAX : N := %s.\n' % (lo, hi)
    out += 'Definition IP4_MINLEN : nat := %s.\n' % one(r'\(ip4len\s*<\s*(\d+)\)', i4, 'spfip4 min length')
    i6 = func_body(src, 'spfip6', rel)
    lo, hi = one(r'\(u\s*<\s*(\d+)\)\s*\|\|\s*\(u\s*>\s*(\d+)\)', i6, 'spfip6 prefix range')
    out += 'Definition IP6_PREFIX_MIN : N := %s.\nDefinition IP6_PREFIX_MAX : N := %s.\n' % (lo, hi)
    out += 'Definition IP6_MINLEN : nat := %s.\n' % one(r'\(ip6len\s*<\s*(\d+)\)', i6, 'spfip6 min length')
    ds = func_body(src, 'spf_domainspec', rel)
    out += 'Definition CIDR4_MAX : Z := %s%%Z.\n' % one(r'\(\*ip4cidr\s*<\s*0\)\s*\|\|\s*\(\*ip4cidr\s*>\s*(\d+)\)', ds, 'spf_domainspec ip4 cidr range')
    out += 'Definition CIDR6_MAX : Z := %s%%Z.\n' % one(r'\(\*ip6cidr\s*<\s*0\)\s*\|\|\s*\(\*ip6cidr\s*>\s*(\d+)\)', ds, 'spf_domainspec ip6 cidr range')
    # ---- sanitisers
    bt = func_body(src, 'record_bad_token', rel)
    m = re.search(r"if\s*\(\(\(token\[tpos\]\s*!=\s*'(\\?.)'\)\s*&&\s*\(token\[tpos\]\s*<\s*'(\\?.)'\)\)\s*\|\|\s*"
                  r"\(token\[tpos\]\s*>=\s*(\d+)\)\s*\|\|\s*"
                  r"\(token\[tpos\]\s*==\s*'(\\?.)'\)\s*\|\|\s*\(token\[tpos\]\s*==\s*'(\\?.)'\)\s*\|\|\s*"
                  r"\(token\[tpos\]\s*==\s*'(\\?.)'\)\)\s*xmitstat\.spfexp\[tpos\]\s*=\s*'(\\?.)'\s*;\s*else\s*xmitstat\.spfexp\[tpos\]\s*=\s*token\[tpos\]\s*;", bt)
    if not m:
        raise TranslateError('record_bad_token: filter expression not recognised')
    out += 'Definition BT_KEEP_CTL : N := %d.\nDefinition BT_LOW : N := %d.\nDefinition BT_HIGH : N := %s.\n' % (cchar(m.group(1)), cchar(m.group(2)), m.group(3))
    out += 'Definition BT_DROP : list N := %s.\nDefinition BT_REPL : N := %d.\n' % (coq_bytes([cchar(m.group(4)), cchar(m.group(5)), cchar(m.group(6))]), cchar(m.group(7)))
    m = re.search(r"if\s*\(\(unsigned char\)\(xmitstat\.spfexp\[pos\]\)\s*<\s*'(\\?.)'\)\s*\{\s*xmitstat\.spfexp\[pos\]\s*=\s*'(\\?.)'\s*;\s*\}\s*"
                  r"else\s+if\s*\(\(\(signed char\)xmitstat\.spfexp\[pos\]\)\s*<\s*0\)\s*\{\s*free\(xmitstat\.spfexp\);\s*xmitstat\.spfexp\s*=\s*NULL;\s*break;", look)
    if not m:
        raise TranslateError('spflookup: exp sanitiser not recognised')
    out += 'Definition EXP_LOW : N := %d.\nDefinition EXP_REPL : N := %d.\n' % (cchar(m.group(1)), cchar(m.group(2)))
    # ---- Received-SPF
    rc = func_body(src, 'spfreceived', rel)
    names = one(r'const\s+char\s*\*result\[\]\s*=\s*\{(.*?)\}\s*;', rc, 'spfreceived result[]', re.S)
    names = re.findall(r'"([^"]*)"', names)
    if len(names) != 9:
        raise TranslateError('spfreceived: result[] has %d entries' % len(names))
    out += 'Definition RCV_RESULT : list (list N) := [%s].\n' % '; '.join(coq_bytes(c_unescape(n)) for n in names)
    lits = re.findall(r'WRITE\(fd,\s*"((?:[^"\\]|\\.)*)"\)', rc)
    expect = ['Received-SPF: ', ' (', ': ', 'domain of\\n\\t', ' has malformed SPF record', ", unsafe characters may have been replaced by '%': ", ': ', ')\\n',
              'error in processing during lookup of ', ': DNS problem)\\n', 'domain of ', ' does not designate permitted sender hosts)\\n',
              'domain of ', ' does not designate ', ' as permitted sender)\\n', ' is neither permitted nor denied by domain of ', ')\\n',
              'domain of ', ' designates ', ' as permitted sender)\\n', '\\treceiver=', '; client-ip=', '; mechanism=', ';\\n\\thelo=', '; envelope-from=\\"', '\\"\\n']
    if len(lits) != len(expect):
        raise TranslateError('spfreceived: %d literal pieces, expected %d' % (len(lits), len(expect)))
    out += 'Definition RCV_LIT : list (list N) := [\n  %s].\n' % ';\n  '.join(coq_bytes(c_unescape(l)) for l in lits)
    return out


GENERATORS = {'GenSpf.v': gen_spf}

"""qsmtpd/starttls.c (tls_verify, tls_check_cert, tls_out), qsmtpd/commands.c (is_authenticated),
include/qsmtpd/qsmtpd.h (is_authenticated_client, EDONE), the OpenSSL and errno headers -> Gen/GenTlsVerify.v

What the C01 theorems about the TLS client certificate hinge on: the order of the tests in tls_verify()
(TLS active, ssl_verified, already authenticated; ssl_verified set before anything can fail; tlsclients; CA file),
the order of the tests in tls_check_cert() (session id context, rehandshake, verify result, peer certificate), the order
in which the subject name is searched (emailAddress, then commonName, the second only when the first is absent), the
`strlen(clients[i]) != email.len` guard in front of strcmp, what is returned on a match, the stage of is_authenticated()
that consumes the result, what freedata() does to the state, and the values X509_V_OK, ETIMEDOUT, EPROTO, ENOMEM, EDONE.
Emitted: the numbers and the NID order; the structure is only checked (changed structure = translator error)."""
import errno, os, re
from trlib import *

NIDS = {'NID_pkcs9_emailAddress': 1, 'NID_commonName': 2}

def _z(name, v):
    return 'Definition %s : Z := (%d)%%Z.\n' % (name, int(str(v), 0))

def _need(pat, text, what, flags=re.S):
    if not re.search(pat, text, flags):
        raise TranslateError('%s changed' % what)

def gen_tlsverify(repo):
    out = HEADER % 'qsmtpd/starttls.c, qsmtpd/commands.c, include/qsmtpd/qsmtpd.h, <openssl/x509_vfy.h>, <errno.h>'
    out += 'From Coq Require Import ZArith.\n\n'
    sc = strip_comments(read(repo, 'qsmtpd/starttls.c'))

    # ---------------------------------------------------------------- tls_verify
    tv = func_body(sc, 'tls_verify', 'qsmtpd/starttls.c')
    _need(r'\{\s*char\s*\*\*clients;\s*'
          r'if\s*\(!xmitstat\.ssl\s*\|\|\s*ssl_verified\s*\|\|\s*is_authenticated_client\(\)\)\s*return\s+0;\s*'
          r'ssl_verified\s*=\s*1;\s*'
          r'if\s*\(loadlistfd\(openat\(controldir_fd,\s*"tlsclients",\s*O_RDONLY\s*\|\s*O_CLOEXEC\),\s*&clients,\s*checkaddr\)\s*<\s*0\)\s*return\s+-errno;\s*'
          r'if\s*\(clients\s*==\s*NULL\)\s*return\s+0;\s*'
          r'STACK_OF\(X509_NAME\)\s*\*sk\s*=\s*SSL_load_client_CA_file\(CLIENTCA\);\s*'
          r'if\s*\(sk\s*==\s*NULL\)\s*\{\s*free\(clients\);\s*return\s+0;\s*\}\s*'
          r'SSL_set_client_CA_list\(xmitstat\.ssl,\s*sk\);\s*'
          r'SSL_set_verify\(xmitstat\.ssl,\s*SSL_VERIFY_PEER\s*\|\s*SSL_VERIFY_CLIENT_ONCE,\s*verify_callback\);\s*'
          r'int\s+tlsrelay\s*=\s*tls_check_cert\(clients\);\s*'
          r'free\(clients\);\s*SSL_set_client_CA_list\(xmitstat\.ssl,\s*NULL\);\s*SSL_set_verify\(xmitstat\.ssl,\s*SSL_VERIFY_NONE,\s*NULL\);\s*'
          r'return\s+tlsrelay;\s*\}\s*$', tv, 'tls_verify')
    if len(re.findall(r'\bssl_verified\b', sc)) != 3 or not re.search(r'static\s+int\s+ssl_verified;', sc):
        raise TranslateError('ssl_verified: expected the definition, one test and one assignment')
    _need(r'#define\s+CLIENTCA\s+"control/clientca\.pem"', sc, 'CLIENTCA')

    # ---------------------------------------------------------------- tls_out
    to = one(r'\ntls_out\(const char \*s1, const char \*s2, const int def_return\)\s*\{(.*?)\n\}', sc, 'tls_out', re.S)
    _need(r'int\s+r\s*=\s*net_writen\(msg\);\s*return\s+r\s*\?\s*r\s*:\s*def_return;', to, 'tls_out')

    # ---------------------------------------------------------------- tls_check_cert
    cc = func_body(sc, 'tls_check_cert', 'qsmtpd/starttls.c')
    _need(r'\{\s*cstring\s+email\s*=\s*\{\s*\.len\s*=\s*0,\s*\.s\s*=\s*NULL\s*\};\s*int\s+ret\s*=\s*0;\s*'
          r'if\s*\(SSL_set_session_id_context\(xmitstat\.ssl,\s*VERSIONSTRING,\s*strlen\(VERSIONSTRING\)\)\s*!=\s*(\d+)\)\s*\{\s*'
          r'const\s+char\s*\*err\s*=\s*ssl_strerror\(\);\s*return\s+tls_out\("[^"]*",\s*err,\s*-EPROTO\);\s*\}\s*'
          r'int\s+n\s*=\s*ssl_timeoutrehandshake\(xmitstat\.ssl,\s*timeout\);\s*'
          r'if\s*\(n\s*==\s*-ETIMEDOUT\)\s*\{\s*dieerror\(ETIMEDOUT\);\s*\}\s*else\s+if\s*\(n\s*<\s*0\)\s*\{\s*'
          r'const\s+char\s*\*err\s*=\s*ssl_strerror\(\);\s*return\s+tls_out\("[^"]*",\s*err,\s*n\);\s*\}\s*'
          r'if\s*\(SSL_get_verify_result\(xmitstat\.ssl\)\s*!=\s*X509_V_OK\)\s*return\s+0;\s*'
          r'X509\s*\*peercert\s*=\s*SSL_get_peer_certificate\(xmitstat\.ssl\);\s*if\s*\(!peercert\)\s*return\s+0;\s*'
          r'X509_NAME\s*\*subj\s*=\s*X509_get_subject_name\(peercert\);', cc, 'tls_check_cert: tests before the subject name')
    sid_ok = one(r'SSL_set_session_id_context\([^;]*?\)\s*!=\s*(\d+)\)', cc, 'session id context success value')
    m = re.search(r'n\s*=\s*X509_NAME_get_index_by_NID\(subj,\s*(\w+),\s*-1\);\s*if\s*\(n\s*<\s*0\)\s*'
                  r'n\s*=\s*X509_NAME_get_index_by_NID\(subj,\s*(\w+),\s*-1\);\s*'
                  r'if\s*\(n\s*>=\s*0\)\s*\{\s*const\s+ASN1_STRING\s*\*s\s*=\s*X509_NAME_ENTRY_get_data\(X509_NAME_get_entry\(subj,\s*n\)\);\s*'
                  r'if\s*\(s\)\s*\{\s*int\s+l\s*=\s*ASN1_STRING_length\(s\);\s*email\.len\s*=\s*\(l\s*>\s*0\)\s*\?\s*l\s*:\s*0;\s*'
                  r'email\.s\s*=\s*ASN1_STRING_get0_data\(s\);\s*\}\s*\}', cc, flags=re.S)
    if not m or len(re.findall(r'X509_NAME_get_index_by_NID', cc)) != 2:
        raise TranslateError('tls_check_cert: selection of the subject name entry changed')
    for nid in m.groups():
        if nid not in NIDS:
            raise TranslateError('tls_check_cert: unknown NID %s' % nid)
    _need(r'if\s*\(email\.len\s*!=\s*0\)\s*\{\s*unsigned\s+int\s+i;\s*'
          r'for\s*\(i\s*=\s*0;\s*clients\[i\]\s*!=\s*NULL;\s*i\+\+\)\s*\{\s*'
          r'if\s*\(strlen\(clients\[i\]\)\s*!=\s*email\.len\)\s*continue;\s*'
          r'if\s*\(strcmp\(email\.s,\s*clients\[i\]\)\s*==\s*0\)\s*\{\s*'
          r'xmitstat\.tlsclient\s*=\s*strdup\(email\.s\);\s*'
          r'if\s*\(xmitstat\.tlsclient\s*==\s*NULL\)\s*ret\s*=\s*-ENOMEM;\s*else\s+ret\s*=\s*1;\s*break;\s*\}\s*\}\s*\}\s*'
          r'X509_free\(peercert\);\s*return\s+ret;\s*\}\s*$', cc, 'tls_check_cert: comparison with the tlsclients entries')
    if len(re.findall(r'xmitstat\.tlsclient\s*=[^=]', sc)) != 1:
        raise TranslateError('starttls.c: xmitstat.tlsclient is assigned at more than one place')

    # ---------------------------------------------------------------- is_authenticated
    cm = strip_comments(read(repo, 'qsmtpd/commands.c'))
    ia = func_body(cm, 'is_authenticated', 'qsmtpd/commands.c')
    _need(r'\{\s*if\s*\(is_authenticated_client\(\)\)\s*return\s+1;\s*'
          r'if\s*\(!relayclient\)\s*\{\s*const\s+int\s+ipbl\s*=\s*lookupipbl_name\(connection_is_ipv4\(\)\s*\?\s*"relayclients"\s*:\s*"relayclients6"\);\s*'
          r'relayclient\s*=\s*2;\s*if\s*\(ipbl\s*<\s*0\)\s*return\s+ipbl;\s*else\s+if\s*\(ipbl\s*>\s*0\)\s*relayclient\s*=\s*1;\s*\}\s*'
          r'if\s*\(!\(relayclient\s*&\s*1\)\)\s*\{\s*int\s+i\s*=\s*tls_verify\(\);\s*if\s*\(i\s*<\s*0\)\s*return\s+i;\s*'
          r'relayclient\s*=\s*i\s*\?\s*1\s*:\s*relayclient;\s*\}\s*'
          r'return\s*\(relayclient\s*==\s*1\)\s*\?\s*1\s*:\s*0;\s*\}\s*$', ia, 'is_authenticated')
    # ---------------------------------------------------------------- freedata (what the end of a transaction does to this state)
    qc = strip_comments(read(repo, 'qsmtpd/qsmtpd.c'))
    fd = func_body(qc, 'freedata', 'qsmtpd/qsmtpd.c')
    _need(r'free\(xmitstat\.tlsclient\);\s*xmitstat\.tlsclient\s*=\s*NULL;', fd, 'freedata: release of xmitstat.tlsclient')
    if len(re.findall(r'tlsclient', fd)) != 2 or 'relayclient' in fd or 'tls_verify' in fd:
        raise TranslateError('freedata: touches more of the relay state than xmitstat.tlsclient')
    if len(re.findall(r'xmitstat\.tlsclient\s*=[^=]', qc)) != 1:
        raise TranslateError('qsmtpd.c: xmitstat.tlsclient is assigned outside freedata()')
    if len(re.findall(r'\brelayclient\s*=[^=]', qc)) != 1 or not re.search(r'\brelayclient\s*=\s*0;', qc):
        raise TranslateError('qsmtpd.c: relayclient is assigned at an unexpected place')
    # nothing else in Qsmtpd writes relayclient or xmitstat.tlsclient: the model's events are the only ones
    if len(re.findall(r'\brelayclient\s*=[^=]', cm)) != 3 or len(re.findall(r'\brelayclient\s*=[^=]', ia)) != 3:
        raise TranslateError('commands.c: relayclient is assigned outside is_authenticated()')
    for root, _dirs, files in os.walk(os.path.join(repo, 'qsmtpd')):
        for fn in files:
            rel = os.path.relpath(os.path.join(root, fn), repo)
            if not fn.endswith('.c') or rel in ('qsmtpd/starttls.c', 'qsmtpd/commands.c', 'qsmtpd/qsmtpd.c'):
                continue
            txt = strip_comments(read(repo, rel))
            if re.search(r'\brelayclient\s*(=[^=]|\+\+|--|[-+|&^]=)', txt) or re.search(r'\.tlsclient\s*=[^=]', txt) or re.search(r'&\s*relayclient\b', txt):
                raise TranslateError('%s writes relayclient or xmitstat.tlsclient' % rel)
    qh = strip_comments(read(repo, 'include/qsmtpd/qsmtpd.h'))
    _need(r'is_authenticated_client\(void\)\s*\{\s*return\s*\(xmitstat\.authname\.len\s*!=\s*0\)\s*\|\|\s*\(xmitstat\.tlsclient\s*!=\s*NULL\);\s*\}', qh,
          'is_authenticated_client')
    out += _z('TV_EDONE', one(r'#define\s+EDONE\s+(\d+)', qh, 'qsmtpd.h EDONE'))

    # ---------------------------------------------------------------- numbers of the platform the harness is built on
    out += _z('TV_ETIMEDOUT', errno.ETIMEDOUT) + _z('TV_EPROTO', errno.EPROTO) + _z('TV_ENOMEM', errno.ENOMEM)
    vfy = None
    for p in ('/usr/include/openssl/x509_vfy.h', '/usr/local/include/openssl/x509_vfy.h'):
        if os.path.exists(p):
            vfy = open(p, encoding='latin-1').read()
            break
    if vfy is None:
        raise TranslateError('openssl/x509_vfy.h not found')
    out += _z('TV_X509_V_OK', one(r'#\s*define\s+X509_V_OK\s+(\d+)', vfy, 'X509_V_OK'))
    out += _z('TV_SID_OK', sid_ok)
    out += '(* tags of the subject name entries in the order tls_check_cert() looks for them: 1 emailAddress, 2 commonName *)\n'
    out += 'Definition TV_NID_FIRST : N := %d%%N.\nDefinition TV_NID_SECOND : N := %d%%N.\n' % (NIDS[m.group(1)], NIDS[m.group(2)])
    return out

GENERATORS = {'GenTlsVerify.v': gen_tlsverify}

"""qsmtpd/**/*.c, lib/*.c  ->  Gen/GenReplies.v : every place where Qsmtpd builds a reply to the SMTP client.

Data only:
  netwrite_literals    every netwrite(...) call whose argument is a string literal or a variable that is only ever
                       assigned literals; consecutive calls of one function are joined while the text so far ends in a
                       continuation line ("NNN-..."), so that one entry is one complete reply
  writen_templates     every net_writen(arr) call: one template (list of Lit bytes | Hole class) per shape the array can
                       have when the call is reached
  multiline_templates  the same for net_write_multiline(arr), with the capacity of the array
  hole_sources         for every Hole: site, C expression, source class (table HOLES below; an expression that is not in
                       the table is a translator error)
  TXT_SAN_* / NOMAIL_* the constants of the two sanitising loops (lib/libowfatconn.c:dnstxt, qsmtpd/filters/nomail.c) and of the
                       reply code test of cb_nomail
  NWM_*                facts about net_write_multiline() the model relies on

How the shapes of an array are found (sound over-approximation, see analyse_array): the initialiser gives the start
value; every later assignment `arr[k] = v` / `arr[next++] = v` before the call is put into a group (assignments of one
block that are separated by straight-line code only run together); a group is `always` (its block encloses the call,
the function has no goto), one of an if/else pair of which exactly one runs, or optional.  All selections of optional
groups are enumerated, the arrays are cut at the first NULL and duplicates dropped.  Unreachable extra shapes only make
the theorem stronger.  Anything that cannot be parsed raises TranslateError."""
import glob, itertools, os, re
from trlib import TranslateError, read, c_unescape, write_if_changed

# ------------------------------------------------------------------------------------------------ source classes
# class -> (Coq constructor, meaning)
CLASSES = {
    'Addr':       ('HAddr', 'mail address (or part of one) accepted by addrsyntax()/addrparse(): C14 - 7 bit, no NUL/CR/LF'),
    'Domain':     ('HDomain', 'domain name that passed domainvalid()/domainvalid_or_inherit(): letters, digits, "-", ".", at most 255 octets'),
    'SpfExp':     ('HSpfExp', 'SPF explanation after macro expansion, restricted to 32..126 by qsmtpd/spf.c (C11_exp_text_clean)'),
    'DnsTxt':     ('HDnsTxt', 'TXT record returned by dnstxt(): octets below 32 (except HT) and 127 replaced by "?" in dnstxt()'),
    'ConfText':   ('HConfText', 'one-line configuration text (loadonelinerfd: no LF, no NUL), control octets replaced by "?" in cb_nomail'),
    'CodePrefix': ('HCodePrefix', 'the first 10 octets of the nomail text after cb_nomail found "[45]dd [45].d.d " there'),
    'LineArg':    ('HLineArg', 'rest of the command line read by net_read(): no CR/LF (C05), 7 bit, no NUL (line_valid), below 1000 octets'),
    'HdrName':    ('HHdrName', 'header field name out of the fixed table of check_rfc822_headers()'),
    'B64':        ('HB64', 'output of b64encode(): base64 alphabet and "=" only (C09)'),
    'LibErr':     ('HLibErr', 'fixed text / OpenSSL error string (ERR_error_string, printable ASCII; trusted, not verified)'),
    'AuthList':   ('HAuthList', 'result of smtp_authstring(): " MECH"... followed by CRLF'),
    'NumCRLF':    ('HNumCRLF', 'decimal number written by ultostr() followed by CRLF'),
}

# (file, function, C expression) -> class.  The reason is the class meaning plus, where needed, a remark.
HOLES = {
    ('qsmtpd/addrparse.c', 'addrparse', 'addr->s'): 'Addr',
    ('qsmtpd/starttls.c', 'tls_out', 's1'): 'LibErr',        # all callers pass a literal (checked below)
    ('qsmtpd/starttls.c', 'tls_out', 's2'): 'LibErr',
    ('qsmtpd/filters/nomail.c', 'cb_nomail', 'rejmsg'): 'ConfText',
    ('qsmtpd/filters/nomail.c', 'cb_nomail', 'rejmsg + 10'): 'ConfText',
    ('qsmtpd/filters/nomail.c', 'cb_nomail', 'code'): 'CodePrefix',
    ('qsmtpd/filters/spf.c', 'cb_spf', 'exps'): 'SpfExp',
    ('qsmtpd/filters/namebl.c', 'cb_namebl', 'a[i]'): 'Domain',
    ('qsmtpd/filters/namebl.c', 'cb_namebl', 'txt'): 'DnsTxt',
    ('qsmtpd/filters/dnsbl.c', 'cb_dnsbl', 'a[i]'): 'Domain',
    ('qsmtpd/filters/dnsbl.c', 'cb_dnsbl', 'txt'): 'DnsTxt',
    ('qsmtpd/commands.c', 'smtp_ehlo', 'authtypes'): 'AuthList',
    ('qsmtpd/commands.c', 'smtp_ehlo', 'sizebuf'): 'NumCRLF',
    ('qsmtpd/commands.c', 'smtp_rcpt', 'todomain'): 'Addr',
    ('qsmtpd/commands.c', 'smtp_rcpt', 'r->to.s'): 'Addr',
    ('qsmtpd/data.c', 'smtp_data', 'hdrname'): 'HdrName',
    ('qsmtpd/data.c', 'smtp_bdat', 'linein.s + 5'): 'LineArg',
    ('qsmtpd/auth.c', 'auth_cram', 'slop.s'): 'B64',
}

# expressions that denote the same global object wherever they are used: expression -> class
#   heloname.s  control/me read by loadoneliner() (C16_loadoneliner: one line, comment cut, blanks kept) and refused at start-up
#               unless domainvalid() accepts it (qsmtpd.c:setup; checked by heloname_validated() below); never assigned elsewhere
#   MAILFROM    xmitstat.mailfrom.s as set by addrparse() in smtp_from_inner(), or ""
HOLES_GLOBAL = {
    'heloname.s': 'Domain',
    'MAILFROM': 'Addr',
}


def hole_class(rel, func, expr):
    return HOLES.get((rel, func, expr)) or HOLES_GLOBAL.get(expr)


# calls that are not replies built by a call site (file, function) -> reason
WHITELIST = {
    ('lib/netio.c', 'net_write_multiline'): 'fallback of net_write_multiline() itself when malloc() fails: writes the same strings one by one (part of its model)',
}

CONTROL_RE = re.compile(r'\b(if|else|for|while|do|switch|case|default|goto|break|continue|return)\b|[{}#]|\b\w+\s*:(?!:)')


# ------------------------------------------------------------------------------------------------ lexing
def clean(src):
    """comments blanked (newlines kept), string and character literals untouched"""
    out = []
    i, n = 0, len(src)
    while i < n:
        c = src[i]
        if c == '"' or c == "'":
            j = i + 1
            while j < n and src[j] != c:
                if src[j] == '\\':
                    j += 1
                j += 1
            out.append(src[i:j + 1])
            i = j + 1
        elif src.startswith('/*', i):
            j = src.find('*/', i + 2)
            if j < 0:
                raise TranslateError('unterminated comment')
            out.append(re.sub(r'[^\n]', ' ', src[i:j + 2]))
            i = j + 2
        elif src.startswith('//', i):
            j = src.find('\n', i)
            j = n if j < 0 else j
            out.append(' ' * (j - i))
            i = j
        else:
            out.append(c)
            i += 1
    return ''.join(out)


def mask(txt):
    """same length; the inside of string / character literals replaced by blanks"""
    out = list(txt)
    i, n = 0, len(txt)
    while i < n:
        c = txt[i]
        if c == '"' or c == "'":
            j = i + 1
            while j < n and txt[j] != c:
                if txt[j] == '\\':
                    out[j] = ' '
                    j += 1
                out[j] = ' '
                j += 1
            i = j + 1
        else:
            i += 1
    return ''.join(out)


def lineno(txt, pos):
    return txt.count('\n', 0, pos) + 1


def balanced(m, i, open_='(', close=')'):
    """m[i] == open_: index of the matching close in the masked text"""
    depth = 0
    for j in range(i, len(m)):
        if m[j] == open_:
            depth += 1
        elif m[j] == close:
            depth -= 1
            if depth == 0:
                return j
    raise TranslateError('unbalanced %s' % open_)


class Func:
    def __init__(self, name, start, end):
        self.name, self.start, self.end = name, start, end     # start = position of '{', end = position of the matching '}'


def functions(m, rel):
    """top-level function bodies: '{' in column 0 up to the next '}' in column 0"""
    fs = []
    for mo in re.finditer(r'^\{', m, flags=re.M):
        s = mo.start()
        e = m.find('\n}', s)
        if e < 0:
            raise TranslateError('%s: function body without end' % rel)
        e += 1
        # header: back to the previous top-level terminator
        h0 = max(m.rfind('\n}', 0, s), m.rfind(';\n', 0, s), 0)
        hdr = m[h0:s]
        if re.search(r'=\s*$', hdr):
            continue            # an initialiser of a global in column 0
        # the identifier in front of the parameter list that ends right before the body
        j = s - 1
        while j > 0 and m[j] in ' \t\n':
            j -= 1
        if m[j] != ')':
            continue            # not a function body (macro body, initialiser)
        depth, k = 0, j
        while k > 0:
            if m[k] == ')': depth += 1
            elif m[k] == '(':
                depth -= 1
                if depth == 0:
                    break
            k -= 1
        mo = re.search(r'(\w+)\s*$', m[max(0, k - 80):k])
        if not mo or mo.group(1) in ('if', 'while', 'for', 'switch', '__attribute__'):
            raise TranslateError('%s: cannot find the name of the function whose body starts in line %d' % (rel, lineno(m, s)))
        names = [mo.group(1)]
        fs.append(Func(names[0], s, e))
    return fs


class Block:
    def __init__(self, start, end, header, kind, parent, pseudo=False):
        self.start, self.end, self.header, self.kind, self.parent, self.pseudo = start, end, header, kind, parent, pseudo


def header_kind(h):
    h = h.strip()
    if h.endswith('=') or re.search(r'=\s*(\(\s*[\w\s\*]+\))?$', h):
        return 'init'
    if re.match(r'else\s+if\b', h): return 'elseif'
    if re.match(r'else\b', h): return 'else'
    if re.match(r'if\b', h): return 'if'
    if re.match(r'switch\b', h): return 'switch'
    if re.match(r'(for|while|do)\b', h): return 'loop'
    return 'plain'


def blocks_of(m, f):
    """the brace blocks of function f (masked text), innermost-first lookup via chain()"""
    blocks = []
    stack = []
    root = None
    i = f.start
    while i <= f.end:
        c = m[i]
        if c == '{':
            # header: text since the previous ; { } (or a label's colon is kept inside the header)
            j = i - 1
            depth = 0
            while j > f.start:
                ch = m[j]
                if ch == ')': depth += 1
                elif ch == '(': depth -= 1
                elif depth == 0 and ch in ';{}':
                    break
                j -= 1
            hdr = m[j + 1:i]
            parent = stack[-1] if stack else None
            kind = header_kind(hdr) if parent is not None else 'plain'
            if parent is not None and parent.kind == 'init':
                kind = 'init'
            b = Block(i, None, hdr.strip(), kind, parent)
            b.hdr_start = j + 1
            blocks.append(b)
            stack.append(b)
            if root is None:
                root = b
        elif c == '}':
            b = stack.pop()
            b.end = i
        i += 1
    if stack:
        raise TranslateError('unbalanced braces in %s' % f.name)
    return [b for b in blocks if b.kind != 'init'], root


def stmt_start(m, pos, lo):
    """start of the statement containing pos: behind the previous ; { } or label colon (outside parentheses)"""
    j = pos - 1
    depth = 0
    while j > lo:
        ch = m[j]
        if ch == ')': depth += 1
        elif ch == '(': depth -= 1
        elif depth == 0 and ch in ';{}':
            break
        elif depth == 0 and ch == ':' and m[j - 1] != '?' and re.search(r'(\bcase\b[^;{}]*|\bdefault\s*|^\s*\w+\s*)$', m[max(lo, j - 80):j].split('\n')[-1]):
            break
        j -= 1
    return j + 1


def innermost(blocks, pos):
    best = None
    for b in blocks:
        if b.start < pos < b.end and (best is None or b.start > best.start):
            best = b
    return best


def chain(b):
    out = []
    while b is not None:
        out.append(b)
        b = b.parent
    return out


# ------------------------------------------------------------------------------------------------ C expressions
class Ctx:
    """one source file"""
    def __init__(self, repo, rel, macros, globals_):
        self.rel = rel
        self.txt = clean(read(repo, rel))
        self.m = mask(self.txt)
        # preprocessor lines are not code
        self.m = re.sub(r'^[ \t]*#[^\n]*', lambda mo: ' ' * len(mo.group(0)), self.m, flags=re.M)
        self.funcs = functions(self.m, rel)
        self.macros, self.globals = macros, globals_
        # regions under #if/#ifdef: (start, end)
        self.ppregions = []
        st = []
        for mo in re.finditer(r'^[ \t]*#[ \t]*(if|ifdef|ifndef|else|elif|endif)\b[^\n]*', self.txt, flags=re.M):
            k = mo.group(1)
            if k in ('if', 'ifdef', 'ifndef'):
                st.append(mo.end())
            elif k in ('else', 'elif'):
                if st:
                    self.ppregions.append((st.pop(), mo.start()))
                st.append(mo.end())
            else:
                if st:
                    self.ppregions.append((st.pop(), mo.start()))

    def func_at(self, pos):
        for f in self.funcs:
            if f.start < pos < f.end:
                return f
        return None

    def pp_region(self, pos):
        best = None
        for r in self.ppregions:
            if r[0] <= pos < r[1] and (best is None or r[0] > best[0]):
                best = r
        return best


def parse_string_expr(ctx, expr):
    """expr consisting only of string literals and known string macros -> bytes, else None"""
    toks = re.findall(r'"(?:[^"\\]|\\.)*"|\w+|\S', expr)
    if not toks:
        return None
    out = []
    for t in toks:
        if t.startswith('"'):
            out += c_unescape(t[1:-1])
        elif t in ctx.macros:
            out += ctx.macros[t]
        else:
            return None
    return out


def resolve_value(ctx, f, expr):
    """element of an array / argument: ('L', bytes) | ('N',) | ('H', expression text)"""
    e = ' '.join(expr.split())
    if e == 'NULL':
        return ('N',)
    b = parse_string_expr(ctx, e)
    if b is not None:
        return ('L', tuple(b))
    if re.fullmatch(r'\w+', e):
        g = ctx.globals.get(e)
        if g is not None and not local_declares(ctx, f, e):
            return ('L', tuple(g))
    return ('H', e)


def local_declares(ctx, f, name):
    return re.search(r'\bchar\s*\*\s*(const\s+)?' + re.escape(name) + r'\b', ctx.m[f.start:f.end]) is not None


def split_top(m, txt, lo, hi):
    """split txt[lo:hi] at top-level commas (nesting judged on the masked text)"""
    parts, depth, s = [], 0, lo
    for i in range(lo, hi):
        ch = m[i]
        if ch in '([{': depth += 1
        elif ch in ')]}': depth -= 1
        elif ch == ',' and depth == 0:
            parts.append(txt[s:i]); s = i + 1
    parts.append(txt[s:hi])
    return [p.strip() for p in parts if p.strip()]


# ------------------------------------------------------------------------------------------------ arrays
def analyse_array(ctx, f, blocks, name, callpos, where):
    """all shapes the array `name` can have at callpos: list of tuples of elements (cut at the first NULL);
    also returns the capacity of the array"""
    m, txt = ctx.m, ctx.txt
    decls = [mo for mo in re.finditer(r'\bconst\s+char\s*\*\s*(?:const\s+)?' + re.escape(name) + r'\s*\[\s*\]\s*=\s*\{', m[f.start:callpos])]
    if not decls:
        raise TranslateError('%s: no declaration `const char *%s[] = {...}` before the call' % (where, name))
    d = decls[-1]
    dpos = f.start + d.start()
    ob = f.start + d.end() - 1
    cb = balanced(m, ob, '{', '}')
    init = [resolve_value(ctx, f, p) for p in split_top(m, txt, ob + 1, cb)]
    capacity = len(init)
    dblock = innermost(blocks, dpos)
    if dblock not in chain(innermost(blocks, callpos)):
        raise TranslateError('%s: declaration of %s is not in a block enclosing the call' % (where, name))
    body = m[f.start:f.end]
    has_goto = re.search(r'\bgoto\b', body) is not None
    # dynamic index variable
    nxt0 = None
    assigns = []
    for mo in re.finditer(r'\b' + re.escape(name) + r'\s*\[\s*([^\]]*?)\s*\]\s*=(?!=)', m[cb:callpos]):
        apos = cb + mo.start()
        idx = mo.group(1)
        vstart = cb + mo.end()
        vend = vstart
        depth = 0
        while not (m[vend] == ';' and depth == 0):
            if m[vend] in '([': depth += 1
            elif m[vend] in ')]': depth -= 1
            vend += 1
        val = resolve_value(ctx, f, txt[vstart:vend])
        if re.fullmatch(r'\d+', idx):
            op = ('set', int(idx))
        elif re.fullmatch(r'(\w+)\+\+', idx.replace(' ', '')):
            op = ('append', idx.replace(' ', '')[:-2])
        elif re.fullmatch(r'\w+', idx):
            op = ('setnext', idx)
        else:
            raise TranslateError('%s: cannot resolve the index in `%s[%s] = ...` (line %d)' % (where, name, idx, lineno(txt, apos)))
        if op[0] != 'set':
            mm = re.findall(r'\bunsigned\s+int\s+' + op[1] + r'\s*=\s*(\d+)\s*;', m[f.start:apos])
            if len(mm) != 1:
                raise TranslateError('%s: index variable %s of %s[] has no unique constant initialisation' % (where, op[1], name))
            # no other modification of the index variable
            others = re.findall(r'\b' + op[1] + r'\s*(\+\+|--|[-+*/]?=(?!=))', m[f.start:callpos])
            n_inc = len(re.findall(r'\b' + re.escape(name) + r'\s*\[\s*' + op[1] + r'\s*\+\+\s*\]', m[f.start:callpos]))
            if len(others) != n_inc + 1:
                raise TranslateError('%s: index variable %s is modified outside `%s[%s++] = ...`' % (where, op[1], name, op[1]))
            nxt0 = int(mm[0])
        # the guard of this assignment
        ss = stmt_start(m, apos, f.start)
        prefix = m[ss:apos].strip()
        blk = innermost(blocks, apos)
        if prefix:
            k = header_kind(prefix)
            if k not in ('if', 'else', 'elseif', 'loop'):
                raise TranslateError('%s: assignment to %s[] inside an expression (line %d: %r)' % (where, name, lineno(txt, apos), prefix))
            pb = Block(ss, vend, prefix, k, blk, pseudo=True)
            pb.hdr_start = ss
            blk = pb
        pp = ctx.pp_region(apos)
        if pp is not None and pp[0] > dpos:
            pb = Block(pp[0], pp[1], '#if', 'if', blk, pseudo=True)
            pb.hdr_start = pp[0]
            blk = pb
        assigns.append(dict(pos=apos, end=vend, op=op, val=val, blk=blk))
    # any other use that could modify the array (passing it to a function other than the writers / log)?
    for mo in re.finditer(r'\b' + re.escape(name) + r'\b', m[cb:callpos]):
        p = cb + mo.start()
        after = m[p + len(name):p + len(name) + 40].lstrip()
        before = m[max(0, p - 40):p].rstrip()
        if after.startswith('['):
            continue
        if re.search(r'\b(net_writen|net_write_multiline|log_writen)\s*\(\s*(LOG_\w+\s*,\s*)?$', before) or before.endswith('sizeof(') or before.endswith('if ('):
            continue
        raise TranslateError('%s: array %s is used in a way the translator does not follow (line %d)' % (where, name, lineno(txt, p)))
    # groups: assignments of the same block separated by straight-line code
    groups = []
    for a in assigns:
        g = groups[-1] if groups else None
        if g is not None and g['blk'] is a['blk'] and not a['blk'].pseudo and not CONTROL_RE.search(m[g['end']:a['pos']]):
            g['items'].append(a); g['end'] = a['end']
        elif g is not None and a['blk'].pseudo and g['blk'].pseudo and a['blk'].header == '#if' and g['blk'].header == '#if' \
                and a['blk'].start == g['blk'].start and a['blk'].parent is g['blk'].parent and not CONTROL_RE.search(m[g['end']:a['pos']].replace('#', ' ')):
            g['items'].append(a); g['end'] = a['end']
        else:
            groups.append(dict(blk=a['blk'], items=[a], pos=a['pos'], end=a['end']))
    cchain = chain(innermost(blocks, callpos))

    def encloses_call(b):
        return (not b.pseudo) and b in cchain and b.kind != 'switch'

    # classify
    for g in groups:
        b = g['blk']
        g['mode'] = 'optional'
        if not has_goto and encloses_call(b):
            g['mode'] = 'always'
    # if/else pairs of which exactly one branch runs
    pairs = []
    for g in groups:
        b = g['blk']
        if b.kind != 'else' or g['mode'] != 'optional':
            continue
        # the `if` partner: the block / statement that ends right in front of this else
        partner = None
        for h in groups:
            hb = h['blk']
            if hb is b or hb.kind != 'if' or hb.parent is not b.parent:
                continue
            if hb.pseudo != b.pseudo and not (hb.pseudo or b.pseudo):
                continue
            between = m[hb.end + 1:b.hdr_start] if not hb.pseudo else m[hb.end + 1:b.hdr_start]
            if between.strip() == '':
                partner = h
        if partner is not None and partner['mode'] == 'optional' and not has_goto and b.parent is not None and encloses_call(b.parent) \
                and not any(partner is p or partner is q for p, q in pairs):
            pairs.append((partner, g))
    paired = {id(x) for p in pairs for x in p}
    optional = [g for g in groups if g['mode'] == 'optional' and id(g) not in paired]
    if len(optional) + len(pairs) > 14:
        raise TranslateError('%s: too many conditional assignments to %s[] (%d)' % (where, name, len(optional) + len(pairs)))
    shapes = set()
    for sel in itertools.product([0, 1], repeat=len(optional) + len(pairs)):
        chosen = {id(g) for g in groups if g['mode'] == 'always'}
        for bit, g in zip(sel, optional):
            if bit: chosen.add(id(g))
        for bit, (p, q) in zip(sel[len(optional):], pairs):
            chosen.add(id(q) if bit else id(p))
        arr = list(init)
        nxt = nxt0
        ok = True
        for g in groups:
            if id(g) not in chosen:
                continue
            for a in g['items']:
                if a['op'][0] == 'set':
                    k = a['op'][1]
                else:
                    k = nxt
                    if a['op'][0] == 'append':
                        nxt += 1
                if k >= capacity:
                    raise TranslateError('%s: %s[%d] is written but the array has %d elements' % (where, name, k, capacity))
                arr[k] = a['val']
        # the array must stay NULL terminated inside its capacity
        if ('N',) not in arr:
            raise TranslateError('%s: a shape of %s[] fills all %d elements, no terminating NULL' % (where, name, capacity))
        shapes.add(tuple(arr))
    return sorted(shapes), capacity


def cut(arr):
    out = []
    for e in arr:
        if e == ('N',):
            break
        out.append(e)
    return tuple(out)


# ------------------------------------------------------------------------------------------------ the analysis
def load_macros(repo):
    cm = read(repo, 'CMakeLists.txt')
    ver = re.search(r'project\s*\(\s*Qsmtp\s+VERSION\s+([\d.]+)', cm)
    suf = re.search(r'set\s*\(\s*QSMTP_VERSION\s+"\$\{Qsmtp_VERSION\}(\w*)"\s*\)', cm)
    tmpl = read(repo, 'include/version.h.tmpl')
    if not ver or not suf or not re.search(r'#define\s+QSMTPVERSION\s+"@QSMTP_VERSION@"', tmpl) \
            or not re.search(r'#define\s+VERSIONSTRING\s+"Qsmtpd "\s+QSMTPVERSION', tmpl):
        raise TranslateError('VERSIONSTRING: cannot derive the version string from CMakeLists.txt / include/version.h.tmpl')
    v = (ver.group(1) + suf.group(1)).encode()
    return {'QSMTPVERSION': list(v), 'VERSIONSTRING': list(b'Qsmtpd ' + v)}


def source_files(repo):
    fs = sorted(glob.glob(os.path.join(repo, 'qsmtpd', '**', '*.c'), recursive=True)) + sorted(glob.glob(os.path.join(repo, 'lib', '*.c')))
    return [os.path.relpath(f, repo) for f in fs]


def load_globals(repo, files):
    """file-scope `[static] const char *name = "literal";` that is never assigned again anywhere -> bytes"""
    cand, texts = {}, {}
    for rel in files:
        t = clean(read(repo, rel))
        texts[rel] = mask(t)
        for mo in re.finditer(r'^(?:static\s+)?const\s+char\s*\*\s*(?:const\s+)?(\w+)\s*=\s*((?:"(?:[^"\\]|\\.)*"\s*)+);', t, flags=re.M):
            b = []
            for lit in re.findall(r'"((?:[^"\\]|\\.)*)"', mo.group(2)):
                b += c_unescape(lit)
            if mo.group(1) in cand:
                raise TranslateError('global string %s is defined twice' % mo.group(1))
            cand[mo.group(1)] = (rel, b)
    out = {}
    for name, (rel, b) in cand.items():
        n_assign = 0
        for r2, m in texts.items():
            n_assign += len(re.findall(r'\b' + name + r'\s*=(?!=)', m))
        if n_assign == 1:            # the definition itself
            out[name] = b
    return out


def analyse(repo):
    """returns dict(literals=[(where, function, bytes)], writen=[(key, file, func, line, [elements])], multiline=[...], capacity={key: n},
    holes=[(key, expr, class)], notes=[...])"""
    macros = load_macros(repo)
    files = source_files(repo)
    globals_ = load_globals(repo, files)
    literals, writen, multiline, holes, notes, sequences = [], [], [], [], [], []
    writers = writer_functions(repo, files)
    ml_capacity = {}
    for rel in files:
        ctx = Ctx(repo, rel, macros, globals_)
        m, txt = ctx.m, ctx.txt
        calls = []
        for mo in re.finditer(r'\b(netwrite|net_writen|net_write_multiline|netnwrite)\s*\(', m):
            f = ctx.func_at(mo.start())
            if f is None:
                ls = m.rfind('\n', 0, mo.start()) + 1
                if re.fullmatch(r'((extern|static|inline)\s+)*(int\s*)?', m[ls:mo.start()]):
                    continue                               # prototype / definition header
                raise TranslateError('%s:%d: %s() call outside of a function body the translator recognises' % (rel, lineno(txt, mo.start()), mo.group(1)))
            if f.name == mo.group(1):
                continue
            if rel == 'lib/netio.c' and f.name in ('net_writen', 'netwrite') and mo.group(1) == 'netnwrite':
                continue                                   # the writers themselves
            calls.append((mo.start(), mo.group(1), f))
        per_func = {}            # function name -> [dict(pos, where, kind, ...)] every reply-writing call, in source order
        for pos, fn, f in calls:
            where = '%s:%d' % (rel, lineno(txt, pos))
            if (rel, f.name) in WHITELIST:
                notes.append('%s (%s): %s' % (where, f.name, WHITELIST[(rel, f.name)]))
                continue
            op = m.index('(', pos)
            cp = balanced(m, op)
            arg = txt[op + 1:cp].strip()
            if fn == 'netnwrite':
                raise TranslateError('%s: direct netnwrite() call in %s(): not followed by the translator' % (where, f.name))
            if fn == 'netwrite':
                v = resolve_value(ctx, f, arg)
                alts = []
                if v[0] == 'L':
                    alts = [v[1]]
                elif v[0] == 'H' and re.fullmatch(r'\w+', v[1]):
                    # a local variable that is only ever assigned literals
                    name = v[1]
                    body_m, body_t = m[f.start:f.end], txt[f.start:f.end]
                    if not re.search(r'\bconst\s+char\s*\*\s*' + name + r'\s*(;|=)', body_m):
                        raise TranslateError('%s: netwrite(%s): %s is not a local `const char *`' % (where, name, name))
                    for am in re.finditer(r'\b' + name + r'\s*=(?!=)\s*', body_m):
                        e = body_m.index(';', am.end())
                        val = resolve_value(ctx, f, body_t[am.end():e])
                        if val[0] != 'L':
                            raise TranslateError('%s: netwrite(%s): %s is assigned something that is not a string literal' % (where, name, name))
                        alts.append(val[1])
                    if re.search(r'[&]\s*' + name + r'\b', body_m) or not alts:
                        raise TranslateError('%s: netwrite(%s): cannot follow the variable' % (where, name))
                else:
                    raise TranslateError('%s: netwrite(%s): argument is not a string literal' % (where, arg))
                per_func.setdefault(f.name, []).append(dict(pos=pos, end=cp, where=where, kind='L', alts=alts, f=f))
                continue
            # net_writen / net_write_multiline
            am = re.fullmatch(r'(\w+)(?:\s*\+\s*!!\s*(\w+))?', arg)
            if not am:
                raise TranslateError('%s: %s(%s): argument is not `array` or `array + !!flag`' % (where, fn, arg))
            blocks, root = blocks_of(m, f)
            shapes, capacity = analyse_array(ctx, f, blocks, am.group(1), pos, where)
            offs = [0, 1] if am.group(2) else [0]
            ss = stmt_start(m, pos, f.start)
            guarded = re.fullmatch(r'if\s*\(\s*' + am.group(1) + r'\s*\[\s*0\s*\]\s*\)', m[ss:pos].strip().split('return')[0].strip() or 'x') is not None
            if not guarded:
                guarded = re.search(r'if\s*\(\s*' + am.group(1) + r'\s*\[\s*0\s*\]\s*\)\s*(return\b)?[^;{}]*$', m[max(f.start, ss - 80):pos]) is not None
            final = set()
            for sh in shapes:
                for o in offs:
                    c = cut(sh[o:])
                    if not c:
                        if guarded:
                            continue
                        raise TranslateError('%s: %s(%s) can be reached with an empty array' % (where, fn, arg))
                    final.add(c)
            call_shapes = []
            for n, sh in enumerate(sorted(final)):
                key = '%s#%d' % (where, n)
                els = []
                for e in sh:
                    if e[0] == 'L':
                        els.append(('L', list(e[1])))
                    else:
                        cls = hole_class(rel, f.name, e[1])
                        if cls is None:
                            raise TranslateError('%s: %s(): embedded string `%s` has no source class (add it to HOLES in tools/translators/replies.py '
                                                 'after finding out where the string comes from)' % (where, f.name, e[1]))
                        els.append(('H', cls, e[1]))
                        holes.append((key, e[1], cls))
                (writen if fn == 'net_writen' else multiline).append((key, rel, f.name, lineno(txt, pos), els))
                call_shapes.append((key, els))
                if fn == 'net_write_multiline':
                    ml_capacity[key] = capacity
            per_func.setdefault(f.name, []).append(dict(pos=pos, end=cp, where=where, kind='W' if fn == 'net_writen' else 'M', shapes=call_shapes, f=f))
        # replies assembled from several calls: a literal that ends in a continuation line ("NNN-...") must be followed, on
        # every path, by the call that goes on with the reply.  Accepted: straight-line code in between (simple statements
        # that call no function which writes to the client); everything else is an error (see follow_open).
        for fname, lst in per_func.items():
            lst.sort(key=lambda c: c['pos'])
            used = set()
            for i, c in enumerate(lst):
                if i in used:
                    continue
                if c['kind'] != 'L':
                    continue
                if len(c['alts']) == 1 and incomplete(c['alts'][0]):
                    pieces, names, cur, j = [('L', list(c['alts'][0]))], [c['where']], c, i
                    while True:
                        nxt = follow_open(ctx, cur, lst, writers)
                        j = lst.index(nxt)
                        used.add(j)
                        names.append(nxt['where'].split(':')[-1])
                        if nxt['kind'] == 'L':
                            if len(nxt['alts']) != 1:
                                raise TranslateError('%s: the reply opened here is continued by a netwrite() of a variable' % c['where'])
                            pieces.append(('L', list(nxt['alts'][0])))
                            if incomplete(nxt['alts'][0]):
                                cur = nxt
                                continue
                        else:
                            pieces.append((nxt['kind'], nxt['shapes']))
                        break
                    key = '+'.join(names)
                    if all(p[0] == 'L' for p in pieces):
                        literals.append((key, fname, [b for p in pieces for b in p[1]]))
                        sequences.append((key, fname, pieces))
                    else:
                        for n, (skey, els) in enumerate(pieces[-1][1]):
                            sequences.append(('%s#%d' % (key, n), fname, pieces[:-1] + [(pieces[-1][0], els)]))
                else:
                    for k, a in enumerate(c['alts']):
                        if incomplete(a):
                            raise TranslateError('%s: one of the literals written here ends in a continuation line' % c['where'])
                        literals.append((c['where'] if len(c['alts']) == 1 else '%s/%d' % (c['where'], k), fname, list(a)))
    # tls_out: s1 is a literal at every call
    st = mask(clean(read(repo, 'qsmtpd/starttls.c')))
    stt = clean(read(repo, 'qsmtpd/starttls.c'))
    ncall = len(re.findall(r'\btls_out\s*\(', st)) - 1
    nlit = len(re.findall(r'\btls_out\s*\(\s*"', stt))
    if ncall < 1 or ncall != nlit:
        raise TranslateError('qsmtpd/starttls.c: tls_out() is called with a first argument that is not a literal')
    heloname_validated(repo)
    return dict(literals=literals, writen=writen, multiline=multiline, capacity=ml_capacity, holes=holes, notes=notes, sequences=sequences)


WRITE_RE = re.compile(r'\b(netwrite|net_writen|net_write_multiline|netnwrite)\s*\(')


def writer_functions(repo, files):
    """names of the functions that (directly or through calls) write to the client"""
    direct, calls = set(), {}
    for rel in files:
        t = mask(clean(read(repo, rel)))
        t = re.sub(r'^[ \t]*#[^\n]*', '', t, flags=re.M)
        for f in functions(t, rel):
            body = t[f.start:f.end]
            if WRITE_RE.search(body):
                direct.add(f.name)
            calls.setdefault(f.name, set()).update(re.findall(r'\b(\w+)\s*\(', body))
    w = set(direct) | {'netwrite', 'net_writen', 'net_write_multiline', 'netnwrite'}
    changed = True
    while changed:
        changed = False
        for fn, cs in calls.items():
            if fn not in w and cs & w:
                w.add(fn); changed = True
    return w


def follow_open(ctx, c, lst, writers):
    """c: a call that leaves a reply open.  Returns the call of the same function that continues it, provided the code in
    between is straight-line: the opening call is a statement of its own, then simple statements (no braces, no control
    keyword, no label, no call of a function that writes to the client), then a simple statement with exactly one writing call."""
    m = ctx.m
    f = c['f']
    ss = stmt_start(m, c['pos'], f.start)
    if not re.fullmatch(r'(\(\s*void\s*\))?', m[ss:c['pos']].strip()) or not re.match(r'\s*;', m[c['end'] + 1:]):
        raise TranslateError('%s: a reply is left open by a call that is part of an expression or condition' % c['where'])
    pos = m.index(';', c['end']) + 1
    while True:
        e = pos
        depth = 0
        while e < f.end and not (m[e] == ';' and depth == 0):
            if m[e] in '([': depth += 1
            elif m[e] in ')]': depth -= 1
            elif m[e] in '{}' and depth == 0:
                raise TranslateError('%s: the reply opened here is not continued by straight-line code (a block starts or ends in line %d)' %
                                     (c['where'], lineno(ctx.txt, e)))
            e += 1
        st = m[pos:e]
        if re.search(r'\b(if|else|for|while|do|switch|case|default|goto|break|continue|return)\b', st) or re.match(r'\s*\w+\s*:(?!:)', st):
            raise TranslateError('%s: the reply opened here is not continued on every path (control statement in line %d)' %
                                 (c['where'], lineno(ctx.txt, pos + len(st) - len(st.lstrip()))))
        ws = [x for x in lst if pos <= x['pos'] < e]
        called = set(re.findall(r'\b(\w+)\s*\(', st))
        if ws:
            if len(ws) != 1 or (called & writers) - {'netwrite', 'net_writen', 'net_write_multiline'}:
                raise TranslateError('%s: cannot tell what continues the reply opened here (line %d)' % (c['where'], lineno(ctx.txt, ws[0]['pos'])))
            return ws[0]
        if called & writers:
            raise TranslateError('%s: %s() is called while the reply opened here is not finished; it writes to the client' %
                                 (c['where'], sorted(called & writers)[0]))
        pos = e + 1


def heloname_validated(repo):
    """qsmtpd.c: heloname is control/me, refused at start-up unless domainvalid() accepts it, and assigned nowhere else"""
    t = clean(read(repo, 'qsmtpd/qsmtpd.c'))
    if not re.search(r'int\s+j\s*=\s*loadoneliner\s*\(\s*controldir_fd\s*,\s*"me"\s*,\s*&heloname\.s\s*,\s*0\s*\)\s*;\s*if\s*\(\s*j\s*<\s*0\s*\)\s*return\s+errno\s*;\s*'
                     r'heloname\.len\s*=\s*j\s*;\s*if\s*\(\s*domainvalid\s*\(\s*heloname\.s\s*\)\s*\)\s*\{[^}]*return\s+EINVAL\s*;\s*\}', t):
        raise TranslateError('qsmtpd/qsmtpd.c: heloname is no longer loaded from control/me and checked with domainvalid() at start-up; '
                             'the class Domain of the hole heloname.s is not justified')
    for rel in source_files(repo):
        mm = mask(clean(read(repo, rel)))
        for mo in re.finditer(r'\bheloname\s*(\.\s*s\s*)?=(?!=)|&\s*heloname\b', mm):
            ln = lineno(mm, mo.start())
            line = mm.split('\n')[ln - 1]
            if rel == 'qsmtpd/qsmtpd.c' and ('loadoneliner' in line or 'heloname.len = j' in line):
                continue
            raise TranslateError('%s:%d: heloname is assigned outside of the start-up code' % (rel, ln))


def incomplete(b):
    """the text ends with a complete line whose 4th octet is '-' (more lines must follow)"""
    b = list(b)
    if len(b) < 2 or b[-2:] != [13, 10]:
        return False
    body = b[:-2]
    # last line = after the last CRLF
    k = len(body)
    while k >= 2 and body[k - 2:k] != [13, 10]:
        k -= 1
    last = body[k:] if k >= 2 else body
    return len(last) >= 4 and last[3] == 45


# ------------------------------------------------------------------------------------------------ sanitiser constants
def sanitiser_consts(repo):
    out = {}
    rel = 'lib/libowfatconn.c'
    t = clean(read(repo, rel))
    mo = re.search(r'\ndnstxt\s*\([^)]*\)\s*\{(.*?)\n\}', t, flags=re.S)
    if not mo:
        raise TranslateError('%s: dnstxt() not found' % rel)
    body = mo.group(1)
    out['TXT'] = san_loop(body, rel + ':dnstxt', r'sa\.len', r'sa\.s')
    rel = 'qsmtpd/filters/nomail.c'
    t = clean(read(repo, rel))
    mo = re.search(r'\ncb_nomail\s*\([^)]*\)\s*\{(.*?)\n\}', t, flags=re.S)
    if not mo:
        raise TranslateError('%s: cb_nomail() not found' % rel)
    body = mo.group(1)
    out['NOMAIL'] = san_loop(body, rel + ':cb_nomail', r'len', r'rejmsg')
    # the sanitising loop comes before the code test and before the reply
    if not (body.index('for (size_t k') < body.index('codebeg = (len') < body.index('net_writen')):
        raise TranslateError('%s: order of sanitising loop / code test / net_writen changed' % rel)
    minlen = re.search(r'codebeg\s*=\s*\(\s*len\s*>\s*(\d+)\s*\)\s*;', body)
    loop = re.search(r'for\s*\(\s*i\s*=\s*0\s*;\s*\(\s*i\s*<\s*(\d+)\s*\)\s*&&\s*codebeg\s*;\s*i\+\+\s*\)', body)
    cpy = re.search(r'memcpy\s*\(\s*code\s*,\s*rejmsg\s*,\s*(\d+)\s*\)\s*;\s*code\s*\[\s*(\d+)\s*\]\s*=\s*\'\\0\'\s*;', body)
    decl = re.search(r'char\s+code\s*\[\s*(\d+)\s*\]\s*;', body)
    rest = re.search(r'netmsg\s*\[\s*1\s*\]\s*=\s*rejmsg\s*\+\s*(\d+)\s*;', body)
    if not (minlen and loop and cpy and decl and rest):
        raise TranslateError('%s: cb_nomail: code test / code[] copy not found in the expected form' % rel)
    out['NOMAIL_MINLEN'] = int(minlen.group(1))
    out['NOMAIL_CODELEN'] = int(loop.group(1))
    out['NOMAIL_COPY'] = int(cpy.group(1))
    out['NOMAIL_TERM'] = int(cpy.group(2))
    out['NOMAIL_BUF'] = int(decl.group(1))
    out['NOMAIL_REST'] = int(rest.group(1))
    # the switch of the code test: which positions must be what
    sw = re.search(r'switch\s*\(\s*i\s*\)\s*\{(.*?)\n\t\t\}', body, flags=re.S)
    if not sw:
        raise TranslateError('%s: cb_nomail: switch (i) not found' % rel)
    s = re.sub(r'\s+', ' ', sw.group(1))
    want = ("case 0: codebeg = ((rejmsg[0] == '4') || (rejmsg[0] == '5')); break; case 3: case 9: codebeg = (rejmsg[i] == ' '); break; "
            "case 4: codebeg = (rejmsg[4] == rejmsg[0]); break; case 5: case 7: codebeg = (rejmsg[i] == '.'); break; "
            "default: codebeg = isdigit(rejmsg[i]); break;")
    if s.strip() != want:
        raise TranslateError('%s: cb_nomail: the reply code test changed; the model (Model/ReplySites.v:nomail_codebeg) must be adapted:\n%s' % (rel, s))
    return out


def cchar(s):
    s = s.strip()
    if re.fullmatch(r'\d+', s): return int(s)
    if re.fullmatch(r'0x[0-9a-fA-F]+', s): return int(s, 16)
    mo = re.fullmatch(r"'((?:[^'\\]|\\.)+)'", s)
    if mo:
        b = c_unescape(mo.group(1))
        if len(b) == 1: return b[0]
    raise TranslateError('cannot read character constant %r' % s)


def san_loop(body, where, lenre, bufre):
    """for (size_t k = 0; k < LEN; k++) { const unsigned char c = BUF[k]; if (((c < LOW) && (c != KEEP)) || (c == DEL)) BUF[k] = REPL; }"""
    mo = re.search(r'for\s*\(\s*size_t\s+k\s*=\s*0\s*;\s*k\s*<\s*' + lenre + r'\s*;\s*k\+\+\s*\)\s*\{\s*const\s+unsigned\s+char\s+c\s*=\s*' + bufre +
                   r'\s*\[\s*k\s*\]\s*;\s*if\s*\(\s*\(\s*\(\s*c\s*<\s*([^)]+?)\s*\)\s*&&\s*\(\s*c\s*!=\s*([^)]+?)\s*\)\s*\)\s*\|\|\s*\(\s*c\s*==\s*([^)]+?)\s*\)\s*\)\s*' +
                   bufre + r'\s*\[\s*k\s*\]\s*=\s*([^;]+?)\s*;\s*\}', body)
    if not mo:
        raise TranslateError('%s: the loop that replaces control octets in the text was not found' % where)
    return tuple(cchar(x) for x in mo.groups())


def multiline_facts(repo):
    rel = 'lib/netio.c'
    t = clean(read(repo, rel))
    mo = re.search(r'\nnet_write_multiline\s*\([^)]*\)\s*\{(.*?)\n\}', t, flags=re.S)
    if not mo:
        raise TranslateError('%s: net_write_multiline() not found' % rel)
    b = mo.group(1)
    facts = {}
    mm = re.search(r'assert\s*\(\s*len\s*>\s*(\d+)\s*\)\s*;', b)
    ma = re.search(r'malloc\s*\(\s*len\s*\+\s*(\d+)\s*\)', b)
    for pat, what in [
        (r'for\s*\(\s*i\s*=\s*0\s*;\s*s\[i\]\s*;\s*i\+\+\s*\)\s*len\s*\+=\s*strlen\s*\(\s*s\[i\]\s*\)\s*;', 'length loop'),
        (r'assert\s*\(\s*i\s*>\s*0\s*\)\s*;', 'assert(i > 0)'),
        (r'buf\[0\]\s*=\s*\'\\0\'\s*;\s*for\s*\(\s*i\s*=\s*0\s*;\s*s\[i\]\s*;\s*i\+\+\s*\)\s*strcat\s*\(\s*buf\s*,\s*s\[i\]\s*\)\s*;', 'strcat loop'),
        (r'assert\s*\(\s*buf\[len\s*-\s*1\]\s*==\s*\'\\n\'\s*\)\s*;\s*assert\s*\(\s*buf\[len\s*-\s*2\]\s*==\s*\'\\r\'\s*\)\s*;', 'asserts on the trailing CRLF'),
        (r'i\s*=\s*netnwrite\s*\(\s*buf\s*,\s*len\s*\)\s*;', 'netnwrite(buf, len)'),
        (r'int\s+j\s*=\s*netwrite\s*\(\s*s\[i\]\s*\)\s*;', 'fallback netwrite(s[i])'),
    ]:
        if not re.search(pat, b):
            raise TranslateError('net_write_multiline: %s not found' % what)
    if not mm or not ma:
        raise TranslateError('net_write_multiline: assert(len > N) / malloc(len + N) not found')
    facts['NWM_MIN_LEN'] = int(mm.group(1))
    facts['NWM_ALLOC_EXTRA'] = int(ma.group(1))
    return facts


# ------------------------------------------------------------------------------------------------ rendering
def coq_str(s):
    """a name as octets (a Coq string type in the tables would shadow OCaml's string in the extracted module)"""
    return coq_bytes(list(s.encode()))


def coq_bytes(bs):
    return '[' + '; '.join(str(b) for b in bs) + ']%N'


def show(bs):
    return ''.join(chr(b) if 32 <= b < 127 and chr(b) not in '*()' else '.' for b in bs)


def render_elems(els):
    out = []
    for e in els:
        if e[0] == 'L':
            out.append('Lit %s' % coq_bytes(e[1]))
        else:
            out.append('Hole %s' % CLASSES[e[1]][0])
    return '[' + '; '.join(out) + ']'


def gen_replies(repo):
    a = analyse(repo)
    out = ('(* GENERATED by tools/translate.py (translators/replies.py) from qsmtpd/**/*.c, lib/*.c -- do not edit; rewritten on every check run *)\n'
           'From Coq Require Import List NArith.\nFrom Qv Require Import Common.ReplyTpl.\nImport ListNotations.\n\n'
           '(* names (file:line#shape, function, C expression) are given as octets, with the text in the comment above *)\n\n')
    out += '(* every netwrite() of a literal; continuation pieces joined into one reply *)\n'
    out += 'Definition netwrite_literals : list (list N * list N * list N) := [\n'
    rows = []
    for where, fn, b in a['literals']:
        rows.append('  (* %s %s(): %s *)\n  (%s, %s, %s)' % (where, fn, show(b), coq_str(where), coq_str(fn), coq_bytes(b)))
    out += ';\n'.join(rows) + '\n].\n\n'
    for name, lst in (('writen_templates', a['writen']), ('multiline_templates', a['multiline'])):
        out += 'Definition %s : list (list N * list N * list elem) := [\n' % name
        rows = []
        for key, rel, fn, line, els in lst:
            desc = ' '.join(('"%s"' % show(e[1])) if e[0] == 'L' else '<%s:%s>' % (e[2], e[1]) for e in els)
            rows.append('  (* %s %s(): %s *)\n  (%s, %s, %s)' % (key, fn, desc, coq_str(key), coq_str(fn), render_elems(els)))
        out += ';\n'.join(rows) + '\n].\n\n'
    out += '(* replies assembled from several calls: a netwrite() of a literal that ends in a continuation line and the calls that\n'
    out += '   follow it on every path (straight-line code) up to the call that ends the reply; one entry per shape of that call.\n'
    out += '   Every literal that is NOT in netwrite_literals on its own is the opening piece of exactly one entry here. *)\n'
    out += 'Definition reply_sequences : list (list N * list N * list piece) := [\n'
    rows = []
    for key, fn, pieces in a['sequences']:
        ps = []
        for pc in pieces:
            if pc[0] == 'L':
                ps.append('PLit %s' % coq_bytes(pc[1]))
            else:
                ps.append('%s %s' % ('PWriten' if pc[0] == 'W' else 'PMulti', render_elems(pc[1])))
        desc = ' | '.join(show(pc[1]) if pc[0] == 'L' else ' '.join(('"%s"' % show(e[1])) if e[0] == 'L' else '<%s>' % e[2] for e in pc[1]) for pc in pieces)
        rows.append('  (* %s %s(): %s *)\n  (%s, %s, [%s])' % (key, fn, desc, coq_str(key), coq_str(fn), '; '.join(ps)))
    out += ';\n'.join(rows) + '\n].\n\n'
    caps = sorted(set(a['capacity'].values()))
    if len(caps) > 1:
        raise TranslateError('net_write_multiline sites with different array sizes: extend the generator')
    out += '(* number of elements of the array handed to net_write_multiline (the shapes need a terminating NULL inside it) *)\n'
    out += 'Definition ML_CAPACITY : nat := %d.\n\n' % (caps[0] if caps else 0)
    out += '(* where every embedded string comes from *)\n'
    out += 'Definition hole_sources : list (list N * list N * hclass) := [\n'
    out += ';\n'.join('  (* %s: %s *)\n  (%s, %s, %s)' % (k, e, coq_str(k), coq_str(e), CLASSES[c][0]) for k, e, c in a['holes']) + '\n].\n\n'
    out += '(* the function whose two branches Model/ReplySites.v:nomail_args follows *)\nDefinition NOMAIL_FUNC : list N := %s.\n\n' % coq_str('cb_nomail')
    for c, (ctor, why) in CLASSES.items():
        out += '(* %s: %s *)\n' % (ctor, why)
    out += '\n'
    sc = sanitiser_consts(repo)
    for tag in ('TXT', 'NOMAIL'):
        low, keep, dele, repl = sc[tag]
        out += 'Definition %s_SAN_LOW : N := %d%%N.\nDefinition %s_SAN_KEEP : N := %d%%N.\nDefinition %s_SAN_DEL : N := %d%%N.\nDefinition %s_SAN_REPL : N := %d%%N.\n' % (
            tag, low, tag, keep, tag, dele, tag, repl)
    for k in ('NOMAIL_MINLEN', 'NOMAIL_CODELEN', 'NOMAIL_COPY', 'NOMAIL_TERM', 'NOMAIL_BUF', 'NOMAIL_REST'):
        out += 'Definition %s : nat := %d.\n' % (k, sc[k])
    # names of the functions whose tables the session-level models look up, and the limit of check_max_bad_commands()
    for fn in ('smtp_quit', 'check_max_bad_commands', 'wait_for_quit', 'smtploop', 'tls_out', 'tls_err', 'smtp_data'):
        out += 'Definition FN_%s : list N := %s.\n' % (fn, coq_str(fn))
    sy = clean(read(repo, 'qsmtpd/syntax.c'))
    mb = re.findall(r'#define\s+MAXBADCMDS\s+(\d+)', sy)
    if len(mb) != 1 or not re.search(r'if\s*\(\s*badcmds\+\+\s*<=\s*MAXBADCMDS\s*\)\s*return\s*;', sy):
        raise TranslateError('qsmtpd/syntax.c: MAXBADCMDS / the test `if (badcmds++ <= MAXBADCMDS) return;` not found')
    wq = re.search(r'\nwait_for_quit\s*\(void\)\s*\{(.*?)\n\}', sy, flags=re.S)
    if not wq or not re.search(r'\(void\)\s*net_read\(1\)\s*;\s*if\s*\(\s*!strncasecmp\(linein\.s,\s*quitcmd,\s*strlen\(quitcmd\)\)\)\s*\{\s*if\s*\(\s*!linein\.s\[strlen\(quitcmd\)\]\s*\)\s*'
                               r'smtp_quit\(\)\s*;\s*\}\s*check_max_bad_commands\(\)\s*;\s*\(void\)\s*netwrite\(', wq.group(1)):
        raise TranslateError('qsmtpd/syntax.c: wait_for_quit() no longer has the form the model Model/ReplySites.v:wait_for_quit was written from')
    out += 'Definition MAXBADCMDS : nat := %s.\n' % mb[0]
    for k, v in multiline_facts(repo).items():
        out += 'Definition %s : nat := %d.\n' % (k, v)
    if a['notes']:
        out += '\n(* not call sites:\n' + '\n'.join('   ' + n for n in a['notes']) + ' *)\n'
    return out


def gen_names(repo):
    """the names of the table entries as Coq strings, in table order: only used to name the entry in the message of a failing proof
    (a string type inside the tables themselves would shadow OCaml's string in the extracted module)"""
    a = analyse(repo)
    def lst(name, items):
        return 'Definition %s : list string := [\n%s\n].\n\n' % (name, ';\n'.join('  "%s"' % x.replace('"', '""') for x in items))
    out = ('(* GENERATED by tools/translate.py (translators/replies.py) -- do not edit; rewritten on every check run *)\n'
           'From Coq Require Import List String.\nImport ListNotations.\nOpen Scope string_scope.\n\n')
    out += lst('netwrite_literal_names', ['%s %s' % (w, fn) for w, fn, b in a['literals']])
    out += lst('writen_template_names', ['%s %s' % (k, fn) for k, rel, fn, line, els in a['writen']])
    out += lst('multiline_template_names', ['%s %s' % (k, fn) for k, rel, fn, line, els in a['multiline']])
    out += lst('reply_sequence_names', ['%s %s' % (k, fn) for k, fn, ps in a['sequences']])
    return out


GENERATORS = {'GenReplies.v': gen_replies, 'GenReplyNames.v': gen_names}

if __name__ == '__main__':
    import sys, pprint
    a = analyse(sys.argv[1])
    for w, fn, b in a['literals']:
        print('LIT', w, fn, repr(bytes(b)))
    for lst in (a['writen'], a['multiline']):
        for key, rel, fn, line, els in lst:
            print('TPL', key, fn, [bytes(e[1]) if e[0] == 'L' else e[1:] for e in els])
    print(a['notes'])

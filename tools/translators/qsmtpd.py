"""qsmtpd/qsmtpd.c commands[] table, limits from syntax.c / data.c / commands.h -> Gen/GenSession.v"""
import re
from trlib import *

HANDLERS = ['smtp_noop', 'smtp_quit', 'smtp_rset', 'smtp_helo', 'smtp_ehlo', 'smtp_from', 'smtp_rcpt', 'smtp_data',
            'smtp_starttls', 'smtp_auth', 'smtp_vrfy', 'smtp_bdat', 'http_post']

def gen_session(repo):
    src = strip_comments(read(repo, 'qsmtpd/qsmtpd.c'))
    m = re.search(r'struct\s+smtpcomm\s+commands\[\]\s*=\s*\{(.*?)\n\};', src, flags=re.S)
    if not m:
        raise TranslateError('qsmtpd.c: commands[] not found')
    body = m.group(1)
    # the default build has CHUNKING off: drop what is inside #ifdef CHUNKING
    body = re.sub(r'#ifdef\s+CHUNKING.*?#endif', '', body, flags=re.S)
    rows = re.findall(r'_C\(\s*"([^"]*)"\s*,\s*(0x[0-9a-fA-F]+|\d+)\s*,\s*(\w+)\s*,\s*(-?\s*(?:0x[0-9a-fA-F]+|\d+))\s*,\s*(\d+)\s*\)', body)
    if len(rows) < 10 or len(rows) != body.count('_C('):
        raise TranslateError('qsmtpd.c: could not parse every _C() row of commands[] (%d of %d)' % (len(rows), body.count('_C(')))
    out = HEADER % 'qsmtpd/qsmtpd.c, qsmtpd/syntax.c, qsmtpd/data.c, include/qsmtpd/*.h'
    out += 'From Coq Require Import ZArith.\n\n'
    out += '(* name, mask, handler (index into %s), state, flags -- in table order *)\n' % ' '.join(HANDLERS)
    out += 'Definition commands : list (list N * N * nat * Z * N) := [\n'
    lines = []
    for name, mask, func, state, flags in rows:
        if func not in HANDLERS:
            raise TranslateError('commands[]: unknown handler %s' % func)
        st = int(state.replace(' ', ''), 0)
        lines.append('  (%s, %d%%N, %d, (%d)%%Z, %d%%N)' % (coq_bytes(c_unescape(name)), int(mask, 0), HANDLERS.index(func), st, int(flags)))
    out += ';\n'.join(lines) + '\n].\n\n'
    syn = strip_comments(read(repo, 'qsmtpd/syntax.c'))
    out += 'Definition MAXBADCMDS : nat := %s.\n' % one(r'#define\s+MAXBADCMDS\s+(\d+)', syn, 'MAXBADCMDS')
    if not re.search(r'if\s*\(\s*badcmds\+\+\s*<=\s*MAXBADCMDS\s*\)\s*return', syn):
        raise TranslateError('syntax.c: check_max_bad_commands test `badcmds++ <= MAXBADCMDS` not found')
    data = strip_comments(read(repo, 'qsmtpd/data.c'))
    out += 'Definition MAXHOPS : nat := %s.\n' % one(r'#define\s+MAXHOPS\s+(\d+)', data, 'MAXHOPS')
    hdrs = ''
    import glob, os
    for f in sorted(glob.glob(os.path.join(repo, 'include', 'qsmtpd', '*.h'))):
        hdrs += open(f, encoding='latin-1').read()
    out += 'Definition MAXRCPT : nat := %s.\n' % one(r'#define\s+MAXRCPT\s+(\d+)', hdrs, 'MAXRCPT')
    cm = strip_comments(read(repo, 'qsmtpd/commands.c'))
    if not re.search(r'if\s*\(\s*rcptcount\s*>=\s*MAXRCPT\s*\)', cm):
        raise TranslateError('commands.c: test `rcptcount >= MAXRCPT` not found')
    q = strip_comments(read(repo, 'qsmtpd/queue.c'))
    lo, hi = one(r'\(exitcode\s*>=\s*(\d+)\)\s*&&\s*\(exitcode\s*<=\s*(\d+)\)', q, 'queue_result permanent exit code range')
    out += 'Definition QQ_PERM_LO : nat := %s.\nDefinition QQ_PERM_HI : nat := %s.\n' % (lo, hi)
    out += 'Definition CMD_LINE_MAX : nat := %s.\n' % one(r'linein\.len\s*>\s*(\d+)\)\)\s*\{', src, 'command line limit 510')
    out += gen_submission(src, data)
    return out


def gen_submission(qsrc, data):
    """submission mode (port 587): the port string, the header names looked for by check_rfc822_headers() with their flag bits,
    and the literal pieces of the Date / From / Message-Id fields smtp_data() appends to the header block, in the order written"""
    out = '\n(* submission mode: qsmtpd.c (submission_mode), data.c (check_rfc822_headers, smtp_data) *)\n'
    port = one(r'submission_mode\s*=\s*\(localport\s*!=\s*NULL\)\s*&&\s*\(strcmp\(localport\s*,\s*"([^"]*)"\)\s*==\s*0\)', qsrc, 'qsmtpd.c: submission_mode = localport is "587"')
    out += 'Definition SUBM_PORT : list N := %s.\n' % coq_bytes(c_unescape(port))
    pats = one(r'const\s+char\s*\*\s*searchpattern\[\]\s*=\s*\{([^}]*)\}', data, 'data.c: searchpattern[] of check_rfc822_headers')
    names = re.findall(r'"([^"]*)"', pats)
    if len(names) != 3 or not re.search(r',\s*NULL\s*$', pats.strip()):
        raise TranslateError('data.c: searchpattern[] is not three names and NULL: %r' % pats)
    if not re.search(r'\(\*headerflags\)\s*&\s*\(1\s*<<\s*j\)', data) or not re.search(r'\*headerflags\s*\|=\s*\(1\s*<<\s*j\)', data):
        raise TranslateError('data.c: check_rfc822_headers does not use bit (1 << j) for searchpattern[j]')
    out += '(* header names of check_rfc822_headers(): searchpattern[j] has flag bit 1 << j *)\n'
    out += 'Definition HDR_PATTERNS : list (list N) := [%s].\n' % '; '.join(coq_bytes(c_unescape(n)) for n in names)
    flags = {}
    for nm in ('DATE', 'FROM', 'MSGID'):
        flags[nm] = int(one(r'HEADER_HAS_%s\s*=\s*(0x[0-9a-fA-F]+|\d+)' % nm, data, 'data.c: HEADER_HAS_' + nm), 0)
    if [flags['DATE'], flags['FROM'], flags['MSGID']] != [1, 2, 4]:
        raise TranslateError('data.c: HEADER_HAS_DATE/FROM/MSGID are not 1, 2, 4: %r' % flags)
    # the block that writes the additions: the first `if (... submission_mode ...) {` of smtp_data behind the header loop, up to
    # its `} else if`.  Which condition guards which field is NOT taken from here (the model is a hand transcription, the
    # whole-program comparison judges it); only the literal pieces are, in the order of the three inner blocks.
    m = re.search(r'\n\tif\s*\([^\n{]*submission_mode[^\n{]*\)\s*\{(.*?)\n\t\}\s*else\s+if\s*\(', data, flags=re.S)
    if not m:
        raise TranslateError('data.c: block `if (submission_mode) { ... } else if (` not found in smtp_data')
    blk = m.group(1)
    parts = re.split(r'\n\t\tif\s*\(([^\n{]*)\)\s*\{', blk)
    if len(parts) != 7:
        raise TranslateError('data.c: expected three inner blocks (Date, From, Message-Id) in the submission block, found %d' % (len(parts) // 2))
    order = ['DATE', 'FROM', 'MSGID']
    lits = {}
    for nm, body in zip(order, parts[2::2]):
        # the pieces of this field: up to the closing brace of the if block (tab-indented by two)
        body = body.split('\n\t\t}')[0]
        lits[nm] = [c_unescape(x) for x in re.findall(r'iov_base\s*=\s*"((?:[^"\\]|\\.)*)"\s*;', body)]
        lits[nm + '_n'] = len(re.findall(r'iov_base\s*=', body))
    if len(lits['DATE']) != 1 or lits['DATE_n'] != 2 or len(lits['FROM']) != 2 or lits['FROM_n'] != 3 or len(lits['MSGID']) != 3 or lits['MSGID_n'] != 5:
        raise TranslateError('data.c: unexpected shape of the submission additions (literal / variable pieces): %r' % lits)
    out += '(* literal pieces of the fields appended in submission mode, in the order written: Date, From, Message-Id *)\n'
    out += 'Definition SUBM_DATE_PFX : list N := %s.\n' % coq_bytes(lits['DATE'][0])
    out += 'Definition SUBM_FROM_PFX : list N := %s.\n' % coq_bytes(lits['FROM'][0])
    out += 'Definition SUBM_FROM_END : list N := %s.\n' % coq_bytes(lits['FROM'][1])
    out += 'Definition SUBM_MSGID_PFX : list N := %s.\n' % coq_bytes(lits['MSGID'][0])
    out += 'Definition SUBM_MSGID_AT : list N := %s.\n' % coq_bytes(lits['MSGID'][1])
    out += 'Definition SUBM_MSGID_END : list N := %s.\n' % coq_bytes(lits['MSGID'][2])
    return out

GENERATORS = {'GenSession.v': gen_session}

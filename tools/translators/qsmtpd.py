"""qsmtpd/qsmtpd.c commands[] table, limits from syntax.c / data.c / commands.h -> Gen/GenSession.v"""
import re
from trlib import *

HANDLERS = ['smtp_noop', 'smtp_quit', 'smtp_rset', 'smtp_helo', 'smtp_ehlo', 'smtp_from', 'smtp_rcpt', 'smtp_data',
            'smtp_starttls', 'smtp_auth', 'smtp_vrfy', 'smtp_bdat', 'http_post']

def gen_session(repo):
    src = strip_comments(read(repo, 'qsmtpd/qsmtpd.c'))
    m = re.search(r'struct\s+smtpcomm\s+commands\[\]\s*=\s*\{(.*?)\n\};', src, flags=re.S)
    if not m:
        raise TranslateError('qsmtpd.c: commands[] not found')
    body = m.group(1)
    # the default build has CHUNKING off: drop what is inside #ifdef CHUNKING
    body = re.sub(r'#ifdef\s+CHUNKING.*?#endif', '', body, flags=re.S)
    rows = re.findall(r'_C\(\s*"([^"]*)"\s*,\s*(0x[0-9a-fA-F]+|\d+)\s*,\s*(\w+)\s*,\s*(-?\s*(?:0x[0-9a-fA-F]+|\d+))\s*,\s*(\d+)\s*\)', body)
    if len(rows) < 10 or len(rows) != body.count('_C('):
        raise TranslateError('qsmtpd.c: could not parse every _C() row of commands[] (%d of %d)' % (len(rows), body.count('_C(')))
    out = HEADER % 'qsmtpd/qsmtpd.c, qsmtpd/syntax.c, qsmtpd/data.c, include/qsmtpd/*.h'
    out += 'From Coq Require Import ZArith.\n\n'
    out += '(* name, mask, handler (index into %s), state, flags -- in table order *)\n' % ' '.join(HANDLERS)
    out += 'Definition commands : list (list N * N * nat * Z * N) := [\n'
    lines = []
    for name, mask, func, state, flags in rows:
        if func not in HANDLERS:
            raise TranslateError('commands[]: unknown handler %s' % func)
        st = int(state.replace(' ', ''), 0)
        lines.append('  (%s, %d%%N, %d, (%d)%%Z, %d%%N)' % (coq_bytes(c_unescape(name)), int(mask, 0), HANDLERS.index(func), st, int(flags)))
    out += ';\n'.join(lines) + '\n].\n\n'
    syn = strip_comments(read(repo, 'qsmtpd/syntax.c'))
    out += 'Definition MAXBADCMDS : nat := %s.\n' % one(r'#define\s+MAXBADCMDS\s+(\d+)', syn, 'MAXBADCMDS')
    if not re.search(r'if\s*\(\s*badcmds\+\+\s*<=\s*MAXBADCMDS\s*\)\s*return', syn):
        raise TranslateError('syntax.c: check_max_bad_commands test `badcmds++ <= MAXBADCMDS` not found')
    data = strip_comments(read(repo, 'qsmtpd/data.c'))
    out += 'Definition MAXHOPS : nat := %s.\n' % one(r'#define\s+MAXHOPS\s+(\d+)', data, 'MAXHOPS')
    hdrs = ''
    import glob, os
    for f in sorted(glob.glob(os.path.join(repo, 'include', 'qsmtpd', '*.h'))):
        hdrs += open(f, encoding='latin-1').read()
    out += 'Definition MAXRCPT : nat := %s.\n' % one(r'#define\s+MAXRCPT\s+(\d+)', hdrs, 'MAXRCPT')
    cm = strip_comments(read(repo, 'qsmtpd/commands.c'))
    if not re.search(r'if\s*\(\s*rcptcount\s*>=\s*MAXRCPT\s*\)', cm):
        raise TranslateError('commands.c: test `rcptcount >= MAXRCPT` not found')
    q = strip_comments(read(repo, 'qsmtpd/queue.c'))
    lo, hi = one(r'\(exitcode\s*>=\s*(\d+)\)\s*&&\s*\(exitcode\s*<=\s*(\d+)\)', q, 'queue_result permanent exit code range')
    out += 'Definition QQ_PERM_LO : nat := %s.\nDefinition QQ_PERM_HI : nat := %s.\n' % (lo, hi)
    out += 'Definition CMD_LINE_MAX : nat := %s.\n' % one(r'linein\.len\s*>\s*(\d+)\)\)\s*\{', src, 'command line limit 510')
    return out

GENERATORS = {'GenSession.v': gen_session}

"""lib/dns_helpers.c, qsmtpd/addrsyntax.c, qsmtpd/xtext.c -> Gen/GenAddr.v

Emits, for the address parsers, the numeric limits and -- as 256-entry boolean
tables -- every character class the C tests with a boolean expression over one
`char`.  The expression text is cut out of the C source, converted token by
token and evaluated for all 256 values of a char (signed or unsigned as the
compiler of this machine defines it), so an edit of a character class changes
the table and with it the proof obligations over the table.
Control structure (order of tests, loops) is hand-modelled in Model/Addr.v; the
sites it relies on are presence-tested here.
"""
import re, subprocess
from trlib import *


# ------------------------------------------------------------ C helpers
def skip_lit(s, i):
    """s[i] is a quote character; index just behind the literal"""
    q = s[i]
    i += 1
    while s[i] != q:
        if s[i] == '\\':
            i += 1
        i += 1
    return i + 1


def func_body(src, name, rel):
    """text of the definition of `name` (the name starts a line, as in this code base; attributes may precede it)"""
    m = re.search(r'^' + re.escape(name) + r'\s*(?=\()', src, flags=re.M)
    if not m:
        raise TranslateError('%s: function %s not found' % (rel, name))
    _, i = paren_at(src, m.end(), name)
    m2 = re.match(r'\s*\{', src[i:])
    if not m2:
        raise TranslateError('%s: body of %s not found' % (rel, name))
    j = i + m2.end()
    depth = 1
    while depth and j < len(src):
        c = src[j]
        if c in '"\'':
            j = skip_lit(src, j)
            continue
        if c == '{':
            depth += 1
        elif c == '}':
            depth -= 1
        j += 1
    return src[m.start():j]


def paren_at(s, i, what):
    """s[i] == '(' ; returns (inner text, index behind the matching ')')"""
    if s[i] != '(':
        raise TranslateError('%s: expected ( at %r' % (what, s[i:i + 20]))
    depth, j = 0, i
    while j < len(s):
        c = s[j]
        if c in '"\'':
            j = skip_lit(s, j)
            continue
        if c == '(':
            depth += 1
        elif c == ')':
            depth -= 1
            if depth == 0:
                return s[i + 1:j], j + 1
        j += 1
    raise TranslateError('%s: unbalanced parentheses' % what)


def cond_after(text, anchor, what, nth=0, count=1):
    """the parenthesised condition that starts right at the end of the `count` matches of regex `anchor`
    (the anchor must end just before the opening parenthesis); returns the nth"""
    ms = list(re.finditer(anchor, text))
    if len(ms) != count:
        raise TranslateError('%s: expected %d match(es) of /%s/, found %d' % (what, count, anchor, len(ms)))
    inner, end = paren_at(text, ms[nth].end(), what)
    return inner, end


TOK = re.compile(r"""\s*(?:
    (?P<uvar>UVAR)|
    (?P<var>VAR)|
    (?P<chr>'(?:\\.|[^\\'])')|
    (?P<hex>0[xX][0-9a-fA-F]+)|
    (?P<num>\d+)|
    (?P<op>&&|\|\||==|!=|>=|<=|<|>|!|\(|\))
  )""", re.X)


def c_pred(expr, var, what):
    """python source of the C boolean expression `expr` over the char variable spelled `var`"""
    e = re.sub(r'\(\s*unsigned\s+char\s*\)\s*' + re.escape(var), 'UVAR', expr)
    e = e.replace(var, 'VAR')
    out, i = [], 0
    e = e.strip()
    while i < len(e):
        m = TOK.match(e, i)
        if not m:
            raise TranslateError('%s: cannot tokenise %r' % (what, e[i:i + 30]))
        i = m.end()
        if m.group('uvar'):
            out.append('(c&255)')
        elif m.group('var'):
            out.append('c')
        elif m.group('chr'):
            out.append(str(c_unescape(m.group('chr')[1:-1])[0]))
        elif m.group('hex'):
            out.append(str(int(m.group('hex'), 16)))
        elif m.group('num'):
            out.append(str(int(m.group('num'))))
        else:
            out.append({'&&': ' and ', '||': ' or ', '!': ' not '}.get(m.group('op'), m.group('op')))
        while i < len(e) and e[i].isspace():
            i += 1
    return ''.join(out).strip()


ALT = []          # (name, table) evaluated with the other signedness of char


def table(expr, var, what, signed, negate=False, _alt=True):
    if _alt:
        ALT.append(table(expr, var, what, not signed, negate, _alt=False))
    src = c_pred(expr, var, what)
    try:
        code = compile(src, what, 'eval')
    except SyntaxError as ex:
        raise TranslateError('%s: converted expression does not parse: %s' % (what, src))
    t = []
    for b in range(256):
        c = b - 256 if (signed and b >= 128) else b
        v = bool(eval(code, {'__builtins__': {}}, {'c': c}))
        t.append(v != negate)
    return t


def coq_table(name, t, comment):
    rows = []
    for r in range(0, 256, 16):
        rows.append('  ' + '; '.join('true' if x else 'false' for x in t[r:r + 16]))
    return '(* %s *)\nDefinition %s : list bool := [\n%s].\n' % (comment, name, ';\n'.join(rows))


def need(pat, text, what):
    if not re.search(pat, text, flags=re.S):
        raise TranslateError('%s not found' % what)


def sysconsts():
    """INET_ADDRSTRLEN, INET6_ADDRSTRLEN and the signedness of char of the C compiler used for the harness"""
    src = '#include <arpa/inet.h>\n#include <netinet/in.h>\n#include <limits.h>\nQV_MARK INET_ADDRSTRLEN INET6_ADDRSTRLEN CHAR_MIN\n'
    try:
        p = subprocess.run(['gcc', '-std=gnu99', '-D_GNU_SOURCE', '-E', '-P', '-'], input=src.encode(), stdout=subprocess.PIPE,
                           stderr=subprocess.PIPE, timeout=60)
    except Exception as ex:
        raise TranslateError('gcc -E for the system constants failed: %s' % ex)
    m = re.search(r'QV_MARK\s+(\d+)\s+(\d+)\s+(.*)', p.stdout.decode('latin-1'))
    if not m:
        raise TranslateError('gcc -E output for the system constants not understood')
    cm = m.group(3).strip()
    signed = not re.fullmatch(r'\(?\s*0\s*\)?', cm)
    return int(m.group(1)), int(m.group(2)), signed


# ------------------------------------------------------------ the generator
def gen_addr(repo):
    out = HEADER % 'lib/dns_helpers.c, qsmtpd/addrsyntax.c, qsmtpd/xtext.c, include/qdns.h, system headers (gcc -E)'
    del ALT[:]
    i4, i6, signed = sysconsts()
    N = {}          # nat constants
    T = []          # (name, table, comment)
    B = {}          # byte-string constants

    # ---------------- domainvalid
    rel = 'lib/dns_helpers.c'
    dv = func_body(strip_comments(read(repo, rel)), 'domainvalid', rel)
    need(r"if\s*\(\s*!\*h\s*\|\|\s*\(\*h\s*==\s*'\.'\)\s*\)\s*return\s+1\s*;", dv, 'domainvalid: initial empty/dot test')
    c, end = cond_after(dv, r'while\s*\(\*h\)\s*\{\s*if\s*(?=\()', 'domainvalid character test')
    need(r'^\s*\{\s*return\s+1\s*;\s*\}', dv[end:], 'domainvalid: return 1 after the character test')
    T.append(('DV_CHAR_OK', table(c, '*h', 'domainvalid character test', signed, negate=True), 'domainvalid: bytes that pass the per-character test'))
    need(r"if\s*\(\*h\s*==\s*'\.'\)\s*\{", dv, 'domainvalid: dot branch')
    m = re.search(r'const\s+char\s*\*(\w+)\s*=\s*\(dt\s*==\s*NULL\)\s*\?\s*host\s*:\s*dt\s*(?:\+\s*(\d+)\s*)?;', dv)
    if not m:
        raise TranslateError('domainvalid: label start expression not understood')
    lv = m.group(1)
    N['DV_DT_SKIP'] = int(m.group(2) or 0)
    N['DV_LABEL_MAX'] = int(one(r'if\s*\(\s*h\s*-\s*' + lv + r'\s*>\s*(\d+)\s*\)\s*return\s+1\s*;', dv, 'domainvalid label length test'))
    need(r"dt\s*=\s*h\s*;\s*h\+\+\s*;\s*if\s*\(\*h\s*==\s*'\.'\)\s*return\s+1\s*;\s*continue\s*;", dv, 'domainvalid: empty label test')
    N['DV_TOTAL_MAX'] = int(one(r'if\s*\(\s*\(h\s*-\s*host\)\s*>\s*(\d+)\s*\)\s*return\s+1\s*;', dv, 'domainvalid total length test'))
    need(r'if\s*\(dt\s*==\s*NULL\)\s*return\s+1\s*;', dv, 'domainvalid: at least one dot')
    m = re.search(r'if\s*\(\s*\(\s*\(h\s*-\s*dt\)\s*<\s*(\d+)\s*\)\s*\|\|\s*\(\s*\(h\s*-\s*dt\)\s*>\s*(\d+)\s*\)\s*\)\s*return\s+1\s*;', dv)
    if not m:
        raise TranslateError('domainvalid: last label test not understood')
    N['DV_LAST_MIN'] = int(m.group(1))
    N['DV_LAST_MAX'] = int(m.group(2))
    c, end = cond_after(dv, r'h--\s*;\s*if\s*(?=\()', 'domainvalid final character test')
    need(r'^\s*return\s+1\s*;\s*return\s+0\s*;', dv[end:], 'domainvalid: return 1 / return 0 at the end')
    if not c.strip().startswith('!'):
        raise TranslateError('domainvalid: final character test is not a negation')
    T.append(('DV_LAST_OK', table(c, '*h', 'domainvalid final character test', signed, negate=True), 'domainvalid: bytes allowed as the last character'))

    # ---------------- addrsyntax.c
    rel = 'qsmtpd/addrsyntax.c'
    src = strip_comments(read(repo, rel))
    lp = func_body(src, 'parselocalpart', rel)
    need(r"while\s*\(\*t\s*&&\s*\(\*t\s*!=\s*'@'\)\)", lp, 'parselocalpart: loop condition')
    need(r"if\s*\(\*t\s*==\s*'\"'\)\s*\{\s*quoted\s*=\s*1\s*-\s*quoted\s*;\s*\}\s*else\s+if\s*\(!quoted\)", lp, 'parselocalpart: quote toggle')
    c, end = cond_after(lp, r'else\s+if\s*\(!quoted\)\s*\{\s*if\s*(?=\()', 'parselocalpart unquoted test')
    need(r'^\s*\{\s*return\s+-1\s*;\s*\}\s*\}\s*else\s*\{', lp[end:], 'parselocalpart: return -1 after the unquoted test')
    if not c.strip().startswith('!'):
        raise TranslateError('parselocalpart: unquoted test is not a negation')
    T.append(('LP_UNQ_OK', table(c, '*t', 'parselocalpart unquoted test', signed, negate=True), 'parselocalpart: bytes allowed outside quotes'))
    rest = lp[end:]
    c, end2 = cond_after(rest, r'\}\s*else\s*\{\s*if\s*(?=\()', 'parselocalpart quoted test')
    if not c.strip().startswith('!'):
        raise TranslateError('parselocalpart: quoted test is not a negation')
    T.append(('LP_Q_OK', table(c, '*t', 'parselocalpart quoted test', signed, negate=True), 'parselocalpart: bytes allowed inside quotes without a backslash'))
    rest2 = rest[end2:]
    m = re.match(r"\s*\{\s*if\s*\(\*t\s*==\s*'\\\\'\)\s*\{\s*if\s*(?=\()", rest2)
    if not m:
        raise TranslateError('parselocalpart: backslash branch not understood')
    c, end3 = paren_at(rest2, m.end(), 'parselocalpart escape test')
    need(r'^\s*\{\s*t\+\+\s*;\s*\}\s*else\s*\{\s*return\s+-1\s*;\s*\}\s*\}\s*else\s*\{\s*return\s+-1\s*;\s*\}\s*\}\s*\}\s*t\+\+\s*;\s*\}\s*if\s*\(quoted\)\s*return\s+-1\s*;\s*return\s+t\s*-\s*addr\s*;',
         rest2[end3:], 'parselocalpart: tail of the loop')
    T.append(('LP_ESC_OK', table(c, '*(t + 1)', 'parselocalpart escape test', signed), 'parselocalpart: bytes a backslash may escape'))

    pa = func_body(src, 'parseaddr', rel)
    need(r"strchr\(addr,\s*'@'\)", pa, "parseaddr: strchr(addr, '@')")
    need(r'if\s*\(!at\)\s*return\s+1\s*-\s*domainvalid\(addr\)\s*;', pa, 'parseaddr: no-@ branch')
    need(r'if\s*\(parselocalpart\(addr\)\s*<\s*0\)\s*return\s+0\s*;', pa, 'parseaddr: localpart test')
    N['PA_RC_DOMONLY'] = int(one(r"if\s*\(\*addr\s*==\s*'@'\)\s*return\s+domainvalid\(addr\s*\+\s*1\)\s*\?\s*0\s*:\s*(\d+)\s*;", pa, 'parseaddr @domain'))
    need(r"if\s*\(\*\(at\s*\+\s*1\)\s*==\s*'\['\)", pa, 'parseaddr: literal test')
    N['PA_LIT_SKIP'] = int(one(r"strchr\(at\s*\+\s*(\d+),\s*'\]'\)", pa, 'parseaddr strchr ]'))
    need(r'if\s*\(!cl\s*\|\|\s*\*\(cl\s*\+\s*1\)\)\s*return\s+0\s*;', pa, 'parseaddr: nothing after ]')
    m = re.search(r'if\s*\(!strncmp\(at\s*\+\s*(\d+),\s*"([^"]*)",\s*(\d+)\)\)', pa)
    if not m or int(m.group(1)) != N['PA_LIT_SKIP']:
        raise TranslateError('parseaddr: IPv6 tag test not understood')
    B['PA_TAG6'] = c_unescape(m.group(2))
    N['PA_TAG6_N'] = int(m.group(3))
    offs = re.findall(r'addrlen\s*=\s*cl\s*-\s*at\s*-\s*(\d+)\s*;\s*if\s*\(addrlen\s*>=\s*(INET6?_ADDRSTRLEN)\)\s*return\s+0\s*;\s*memcpy\(ipbuf,\s*at\s*\+\s*(\d+),\s*addrlen\)\s*;\s*ipbuf\[addrlen\]\s*=\s*\'\\0\'\s*;\s*return\s*\(inet_pton\((AF_INET6?),\s*ipbuf,\s*&ip\d\)\s*<=\s*0\)\s*\?\s*0\s*:\s*(\d+)\s*;', pa)
    if len(offs) != 2 or offs[0][1] != 'INET6_ADDRSTRLEN' or offs[1][1] != 'INET_ADDRSTRLEN' or offs[0][3] != 'AF_INET6' or offs[1][3] != 'AF_INET':
        raise TranslateError('parseaddr: the two literal branches not understood')
    if offs[0][0] != offs[0][2] or offs[1][0] != offs[1][2] or offs[0][4] != offs[1][4]:
        raise TranslateError('parseaddr: literal offsets/return codes disagree')
    N['PA_OFF6'] = int(offs[0][0]); N['PA_OFF4'] = int(offs[1][0]); N['PA_RC_LIT'] = int(offs[0][4])
    sizes = re.findall(r'char\s+ipbuf\[(INET6?_ADDRSTRLEN)\]\s*;', pa)
    if sizes != ['INET6_ADDRSTRLEN', 'INET_ADDRSTRLEN']:
        raise TranslateError('parseaddr: ipbuf sizes not understood')
    N['PA_BUF6'] = i6; N['PA_BUF4'] = i4
    N['PA_RC_FULL'] = int(one(r'else\s*\{\s*return\s+domainvalid\(at\s*\+\s*1\)\s*\?\s*0\s*:\s*(\d+)\s*;', pa, 'parseaddr local@domain'))
    N['AV_MIN'] = int(one(r'return\s*\(parseaddr\(addr\)\s*>=\s*(\d+)\)\s*;', func_body(src, 'addrspec_valid', rel), 'addrspec_valid threshold'))
    need(r'return\s+!parseaddr\(addr\)\s*;', func_body(src, 'checkaddr', rel), 'checkaddr body')

    asy = func_body(src, 'addrsyntax', rel)
    need(r"if\s*\(\(flags\s*==\s*1\)\s*&&\s*\(\*f\s*==\s*'@'\)\)", asy, 'addrsyntax: source route test')
    need(r"while\s*\(\s*\(t\s*=\s*strchr\(f,\s*','\)\)\s*\)\s*\{\s*\*t\+\+\s*=\s*'\\0'\s*;\s*if\s*\(domainvalid\(f\s*\+\s*1\)\)\s*return\s+0\s*;\s*f\s*=\s*t\s*;\s*if\s*\(\*f\s*!=\s*'@'\)\s*return\s+0\s*;\s*\}",
         asy, 'addrsyntax: route loop')
    need(r"t\s*=\s*strchr\(f,\s*':'\)\s*;\s*if\s*\(!t\)\s*return\s+0\s*;\s*\*t\+\+\s*=\s*'\\0'\s*;\s*if\s*\(domainvalid\(f\s*\+\s*1\)\)\s*return\s+0\s*;", asy, 'addrsyntax: route end')
    N['AS_ROUTE_MAX'] = int(one(r'if\s*\(\(t\s*-\s*in\)\s*>\s*(\d+)\)\s*return\s+0\s*;', asy, 'addrsyntax route length'))
    need(r"l\s*=\s*strchr\(f,\s*'>'\)\s*;\s*if\s*\(!l\)\s*return\s+0\s*;", asy, 'addrsyntax: closing bracket search')
    need(r'if\s*\(more\s*&&\s*\*\(l\s*\+\s*1\)\)\s*\{\s*\*more\s*=\s*l\s*\+\s*1\s*;', asy, 'addrsyntax: more')
    N['AS_RC_EMPTY'] = int(one(r'if\s*\(!flags\s*&&\s*!len\)\s*\{\s*if\s*\(addr\)\s*STREMPTY\(\*addr\)\s*;\s*return\s+(\d+)\s*;', asy, 'addrsyntax empty address'))
    need(r"\*l\s*=\s*'\\0'\s*;", asy, 'addrsyntax: termination of the address')
    m = re.search(r'int\s+x\s*=\s*(\d+)\s*;', asy)
    if not m:
        raise TranslateError('addrsyntax: initial x not found')
    N['AS_RC_POSTMASTER'] = int(m.group(1))
    m = re.search(r'if\s*\(\(flags\s*!=\s*1\)\s*\|\|\s*strcasecmp\(f,\s*"([^"]*)"\)\)\s*\{\s*x\s*=\s*parseaddr\(f\)\s*;\s*if\s*\(x\s*<\s*(\d+)\)\s*return\s+0\s*;', asy)
    if not m:
        raise TranslateError('addrsyntax: postmaster / parseaddr test not understood')
    B['AS_POSTMASTER'] = c_unescape(m.group(1))
    N['AS_MIN'] = int(m.group(2))
    m = re.search(r"if\s*\(\(addr->s\[len\]\s*>=\s*'A'\)\s*&&\s*\(addr->s\[len\]\s*<=\s*'Z'\)\)\s*addr->s\[len\]\s*=\s*addr->s\[len\]\s*\+\s*\('a'\s*-\s*'A'\)\s*;", asy)
    if not m:
        raise TranslateError('addrsyntax: lower-casing loop not understood')

    ap = func_body(strip_comments(read(repo, 'qsmtpd/addrparse.c')), 'addrparse', 'qsmtpd/addrparse.c')
    m = re.search(r'int\s+j\s*=\s*addrsyntax\(in,\s*flags,\s*addr,\s*more\)\s*;\s*if\s*\(\(j\s*==\s*0\)\s*\|\|\s*\(\(flags\s*!=\s*1\)\s*&&\s*\(j\s*==\s*(\d+)\)\)\)\s*\{\s*tarpit\(\)\s*;\s*return\s+netwrite\("501 ', ap)
    if not m or int(m.group(1)) != N['PA_RC_LIT']:
        raise TranslateError('addrparse: rejection test after addrsyntax() not understood')

    # ---------------- xtext.c
    rel = 'qsmtpd/xtext.c'
    xs = strip_comments(read(repo, rel))
    dmax = int(one(r'#define\s+DOMAINNAME_MAX\s+(\d+)', strip_comments(read(repo, 'include/qdns.h')), 'DOMAINNAME_MAX'))
    xt = func_body(xs, 'xtextlen', rel)
    e = one(r'char\s+addrspec\[([^\]]*)\]\s*;', xt, 'xtextlen addrspec[]')
    if not re.fullmatch(r'[\s\d+*DOMAINNAME_MAX]*', e):
        raise TranslateError('xtextlen: size expression of addrspec[] not understood: %s' % e)
    N['XT_BUF'] = int(eval(e.replace('DOMAINNAME_MAX', str(dmax)), {'__builtins__': {}}, {}))
    N['XT_IDX_MARGIN'] = int(one(r'if\s*\(idx\s*>\s*sizeof\(addrspec\)\s*-\s*(\d+)\)\s*return\s+-1\s*;', xt, 'xtextlen idx test'))
    need(r"while\s*\(\*str\s*&&\s*\(\*str\s*!=\s*' '\)\)", xt, 'xtextlen: loop condition')
    c, end = cond_after(xt, r"while\s*\(\*str\s*&&\s*\(\*str\s*!=\s*' '\)\)\s*\{\s*if\s*(?=\()", 'xtextlen range test')
    need(r'^\s*return\s+-1\s*;', xt[end:], 'xtextlen: return -1 after the range test')
    T.append(('XT_RANGE_OK', table(c, '*str', 'xtextlen range test', signed, negate=True), 'xtextlen: bytes that pass the printable-range test'))
    need(r"if\s*\(\*str\s*==\s*'\+'\)\s*\{\s*str\+\+\s*;", xt, "xtextlen: '+' branch")
    hexes = []
    for mm in re.finditer(r'str\+\+\s*;\s*if\s*(?=\()', xt):
        c, e2 = paren_at(xt, mm.end(), 'xtextlen hex test')
        if not re.match(r'\s*return\s+-1\s*;', xt[e2:]):
            raise TranslateError('xtextlen: return -1 after a hex test not found')
        hexes.append(re.sub(r'\s+', '', c))
    if len(hexes) != 2 or hexes[0] != hexes[1] or not hexes[0].startswith('!'):
        raise TranslateError('xtextlen: the two hex digit tests not understood')
    T.append(('XT_HEX_OK', table(hexes[0], '*str', 'xtextlen hex test', signed, negate=True), 'xtextlen: bytes accepted as hex digit'))
    m = re.search(r"addrspec\[idx\+\+\]\s*=\s*hexdigit\(str\s*-\s*1\)\s*;\s*(if\s*\(addrspec\[idx\s*-\s*1\]\s*==\s*'\\0'\)\s*return\s+-1\s*;\s*)?str\+\+\s*;\s*result\s*\+=\s*3\s*;", xt)
    if not m:
        raise TranslateError('xtextlen: hex store not understood')
    reject_nul = bool(m.group(1))
    c, end = cond_after(xt, r'\}\s*else\s+if\s*(?=\()', 'xtextlen plain test')
    need(r'^\s*\{\s*addrspec\[idx\+\+\]\s*=\s*\*str\+\+\s*;\s*result\+\+\s*;\s*\}\s*else\s*\{\s*return\s+-1\s*;', xt[end:], 'xtextlen: plain store')
    T.append(('XT_PLAIN_OK', table(c, '*str', 'xtextlen plain test', signed), 'xtextlen: bytes copied literally'))
    m = re.search(r'if\s*\(idx\s*!=\s*0\)\s*\{\s*addrspec\[idx\]\s*=\s*\'\\0\'\s*;\s*if\s*\(strcmp\(addrspec,\s*"([^"]*)"\)\s*==\s*0\)\s*return\s+result\s*;\s*if\s*\(!addrspec_valid\(addrspec\)\)\s*return\s+-1\s*;\s*\}\s*return\s+result\s*;', xt)
    if not m:
        raise TranslateError('xtextlen: tail not understood')
    B['XT_NULLPATH'] = c_unescape(m.group(1))
    hc = func_body(xs, 'hexchar', rel)
    m = re.search(r"if\s*\(ch\s*>\s*'(.)'\)\s*return\s+ch\s*-\s*'(.)'\s*\+\s*(\d+)\s*;\s*else\s+return\s+ch\s*-\s*'(.)'\s*;", hc)
    if not m:
        raise TranslateError('hexchar not understood')
    need(r'return\s+hexchar\(\*str\)\s*\*\s*16\s*\+\s*hexchar\(\*\(str\s*\+\s*1\)\)\s*;', func_body(xs, 'hexdigit', rel), 'hexdigit body')
    hv = []
    for b in range(256):
        ch = b - 256 if (signed and b >= 128) else b
        v = (ch - ord(m.group(2)) + int(m.group(3))) if ch > ord(m.group(1)) else ch - ord(m.group(4))
        hv.append(v & 255)      # return type unsigned char

    out += '(* char is %s on this compiler; INET_ADDRSTRLEN = %d, INET6_ADDRSTRLEN = %d (gcc -E over the system headers) *)\n' % (
        'signed' if signed else 'unsigned', i4, i6)
    out += 'Definition CHAR_SIGNED : bool := %s.\n' % ('true' if signed else 'false')
    out += '(* xtextlen refuses a hexchar that decodes to NUL *)\nDefinition XT_REJECT_NUL : bool := %s.\n' % ('true' if reject_nul else 'false')
    for k, v in N.items():
        out += 'Definition %s : nat := %d.\n' % (k, v)
    for k, v in B.items():
        out += 'Definition %s : list N := %s.\n' % (k, coq_bytes(v))
    for name, t, comment in T:
        out += coq_table(name, t, comment)
    if len(ALT) != len(T):
        raise TranslateError('internal: alternative tables out of step')
    for (name, t, comment), alt in zip(T, ALT):
        out += coq_table(name + '_ALT', alt, 'the same expression where char is %s' % ('unsigned' if signed else 'signed'))
    out += '(* hexchar() as unsigned char, per input byte *)\nDefinition XT_HEXVAL : list N := %s.\n' % coq_bytes(hv)
    return out


GENERATORS = {'GenAddr.v': gen_addr}

"""qremote/{reply,client,envelope,qrdata,qremote}.c, statuscodes.h.tmpl, greeting.h -> Gen/GenQremote.v

Everything the C04 theorems hinge on: the report letters and masks at the four checkreply()
call sites, the reply-class bounds, the digit bounds of netget(), the texts of the exit-path
reports, the command templates, the extension bits, and two structural facts about
checkreply() (how a continuation line is measured before it is written raw)."""
import os, re
from trlib import *

def _bytes(name, lit):
    return 'Definition %s : list N := %s.\n' % (name, coq_bytes(c_unescape(lit)))

def _nat(name, v):
    return 'Definition %s : nat := %s.\n' % (name, int(str(v), 0))

def _z(name, v):
    return 'Definition %s : Z := %s%%Z.\n' % (name, int(str(v), 0))

def _lit(pattern, text, what, flags=0):
    return one(pattern, text, what, flags)

def gen_qremote(repo):
    out = HEADER % 'qremote/*.c, qremote/statuscodes.h.tmpl, include/qremote/greeting.h'
    out += 'From Coq Require Import ZArith.\n\n'

    # ---- status code classes (template; the harness builds with the non-pedantic branch = CMake default OFF)
    tm = read(repo, 'qremote/statuscodes.h.tmpl')
    m = re.search(r'#else[^\n]*\n(.*?)#endif', tm, flags=re.S)
    if not m:
        raise TranslateError('statuscodes.h.tmpl: non-pedantic branch not found')
    cm = read(repo, 'qremote/CMakeLists.txt')
    if not re.search(r'option\(QREMOTE_PEDANTIC_STATUS_CODES\s+"[^"]*"\s+OFF\)', cm):
        raise TranslateError('qremote/CMakeLists.txt: QREMOTE_PEDANTIC_STATUS_CODES no longer defaults to OFF')
    here = os.path.dirname(os.path.dirname(os.path.dirname(os.path.abspath(__file__))))
    hh = open(os.path.join(here, 'harness', 'inc', 'qremote', 'statuscodes.h')).read()
    for k in ('SUCCESS_MINIMUM_STATUS', 'SUCCESS_MAXIMUM_STATUS', 'TEMP_MINIMUM_STATUS', 'TEMP_MAXIMUM_STATUS'):
        v = one(r'#define\s+%s\s+(\d+)' % k, m.group(1), 'statuscodes.h.tmpl ' + k)
        hv = one(r'#define\s+%s\s+(\d+)' % k, hh, 'harness/inc/qremote/statuscodes.h ' + k)
        if v != hv:
            raise TranslateError('%s: template says %s, harness stand-in header says %s' % (k, v, hv))
        out += _z('QR_' + k, v)

    # ---- extension bits
    gh = strip_comments(read(repo, 'include/qremote/greeting.h'))
    for k in ('esmtp_size', 'esmtp_pipelining', 'esmtp_8bitmime'):
        out += 'Definition QR_%s : N := %d%%N.\n' % (k.upper(), int(one(r'\b%s\s*=\s*(0x[0-9a-fA-F]+|\d+)' % k, gh, 'greeting.h ' + k), 0))

    # ---- netget / dieerror (reply.c)
    rp = strip_comments(read(repo, 'qremote/reply.c'))
    ng = func_body(rp, 'netget', 'qremote/reply.c')
    if not re.search(r"\(linein\.len\s*>\s*3\)\s*&&\s*\(\(linein\.s\[3\]\s*==\s*' '\)\s*\|\|\s*\(linein\.s\[3\]\s*==\s*'-'\)\)", ng):
        raise TranslateError('netget: separator test changed')
    lo, hi = one(r"\(r\s*>=\s*(\d+)\)\s*&&\s*\(r\s*<=\s*(\d+)\)\s*&&\s*\(q\s*>=\s*0\)\s*&&\s*\(q\s*<=\s*9\)", ng, 'netget first-digit bounds')
    out += _z('QR_NG_D0_MIN', lo) + _z('QR_NG_D0_MAX', hi)
    if not re.search(r"int\s+r\s*=\s*linein\.s\[0\]\s*-\s*'0'\s*;\s*int\s+q\s*=\s*linein\.s\[1\]\s*-\s*'0'\s*;", ng) or \
       not re.search(r"r\s*=\s*r\s*\*\s*10\s*\+\s*q\s*;\s*q\s*=\s*linein\.s\[2\]\s*-\s*'0'\s*;\s*if\s*\(\(q\s*>=\s*0\)\s*&&\s*\(q\s*<=\s*9\)\)\s*return\s+r\s*\*\s*10\s*\+\s*q\s*;", ng):
        raise TranslateError('netget: digit arithmetic changed')
    out += _bytes('QR_MSG_IOERR_PRE', _lit(r'const\s+char\s*\*tmp\[\]\s*=\s*\{\s*"([^"]*)"\s*,\s*strerror\(errno\)\s*\}', ng, 'netget Z4.3.0 prefix'))
    out += _bytes('QR_MSG_SYNTAX', _lit(r'write_status\("([^"]*)"\)\s*;\s*net_conn_shutdown\(shutdown_clean\)', ng, 'netget syntax error text'))
    de = func_body(rp, 'dieerror', 'qremote/reply.c')
    out += _bytes('QR_MSG_TIMEDOUT', _lit(r'case\s+ETIMEDOUT\s*:\s*write_status\("([^"]*)"\)', de, 'dieerror ETIMEDOUT text'))
    out += _bytes('QR_MSG_DIED', _lit(r'case\s+ECONNRESET\s*:\s*write_status\("([^"]*)"\)', de, 'dieerror ECONNRESET text'))
    if not re.search(r'net_conn_shutdown\(shutdown_abort\)', de):
        raise TranslateError('dieerror: no longer shutdown_abort')

    # ---- checkreply (client.c)
    cl = strip_comments(read(repo, 'qremote/client.c'))
    cr = func_body(cl, 'checkreply', 'qremote/client.c')
    out += 'Definition QR_CR_NOMSG_MASK : N := %d%%N.\n' % int(one(r'\(m\s*==\s*0\)\s*&&\s*\(mask\s*&\s*(\d+)\)', cr, 'checkreply quiet-success mask'))
    lo, v = one(r'if\s*\(res\s*<\s*(\d+)\)\s*res\s*=\s*(\d+)\s*;', cr, 'checkreply low result clamp')
    out += _z('QR_CR_CLAMP_BELOW', lo) + _z('QR_CR_CLAMP_TO', v)
    if not re.search(r"while\s*\(linein\.s\[3\]\s*==\s*'-'\)", cr):
        raise TranslateError('checkreply: continuation loop test changed')
    if not re.search(r"if\s*\(status\[0\]\s*==\s*' '\)\s*ignore\s*=\s*1\s*;", cr):
        raise TranslateError("checkreply: the ' ' convention for silent success changed")
    if not re.search(r'write_status_raw\(status\s*\+\s*m\s*,\s*1\)', cr) or not re.search(r'pre\s*&&\s*\(\(1\s*<<\s*m\)\s*&\s*mask\)', cr):
        raise TranslateError('checkreply: letter/pre writes changed')
    # how the buffered continuation line is measured before the raw write
    if re.search(r"const\s+size_t\s+l\s*=\s*strlen\(linein\.s\)\s*;\s*linein\.s\[l\]\s*=\s*'\\n'\s*;\s*write_status_raw\(linein\.s\s*,\s*l\s*\+\s*1\)", cr):
        strl = 'true'
    elif re.search(r"linein\.s\[linein\.len\]\s*=\s*'\\n'\s*;\s*write_status_raw\(linein\.s\s*,\s*linein\.len\s*\+\s*1\)", cr):
        strl = 'false'
    else:
        raise TranslateError('checkreply: raw write of the continuation line not recognised')
    out += 'Definition QR_CR_CONT_STRLEN : bool := %s.\n' % strl
    if not re.search(r'if\s*\(!ignore\)\s*write_status\(linein\.s\)\s*;', cr):
        raise TranslateError('checkreply: final write_status(linein.s) changed')

    # ---- send_envelope (envelope.c)
    ev = func_body(strip_comments(read(repo, 'qremote/envelope.c')), 'send_envelope', 'qremote/envelope.c')
    m = re.search(r'mailerrmsg\[\]\s*=\s*\{\s*"([^"]*)"\s*,\s*rhost\s*,\s*"([^"]*)"\s*,\s*NULL\s*\}', ev)
    if not m:
        raise TranslateError('send_envelope: mailerrmsg initialiser changed')
    out += _bytes('QR_MAILERR_0', m.group(1)) + _bytes('QR_MAILERR_2', m.group(2))
    out += _bytes('QR_CMD_MAIL', _lit(r'netmsg\[10\]\s*=\s*\{\s*"([^"]*)"\s*,\s*sender\s*\}', ev, 'send_envelope MAIL FROM template'))
    out += _bytes('QR_CMD_SIZE', _lit(r'netmsg\[lastmsg\+\+\]\s*=\s*"(>[^"]+)"\s*;\s*ultostr\(msgsize', ev, 'send_envelope SIZE template'))
    out += _bytes('QR_CMD_GT', _lit(r'else\s*\{\s*netmsg\[lastmsg\+\+\]\s*=\s*"(>)"\s*;', ev, 'send_envelope ">"'))
    m = re.search(r'\(recodeflag\s*&\s*1\)\s*\?\s*"([^"]*)"\s*:\s*"([^"]*)"', ev)
    if not m:
        raise TranslateError('send_envelope: BODY= parameter changed')
    out += _bytes('QR_CMD_BODY8', m.group(1)) + _bytes('QR_CMD_BODY7', m.group(2))
    out += _bytes('QR_CMD_PIPE_FIRST', _lit(r'netmsg\[lastmsg\+\+\]\s*=\s*"(\\r\\nRCPT TO:<)"\s*;\s*netmsg\[lastmsg\+\+\]\s*=\s*rcpts\[0\]', ev, 'pipelined first RCPT'))
    out += _bytes('QR_CMD_PIPE_END', allsame(r'netmsg\[lastmsg\+\+\]\s*=\s*"(>\\r\\n)"\s*;', ev, 'pipelined line end', 2))
    out += _bytes('QR_CMD_PIPE_NEXT', _lit(r'netmsg\[lastmsg\+\+\]\s*=\s*"(>\\r\\nRCPT TO:<)"\s*;', ev, 'pipelined separator'))
    out += _bytes('QR_CMD_RCPT', allsame(r'netmsg\[0\]\s*=\s*"(RCPT TO:<)"\s*;', ev, 'RCPT TO template', 2))
    out += _bytes('QR_CMD_RCPT_END', _lit(r'netmsg\[2\]\s*=\s*"(>)"\s*;', ev, 'RCPT TO end'))
    a, b = one(r'\(i\s*==\s*rcptcount\s*-\s*1\)\s*\|\|\s*\(\(i\s*%\s*(\d+)\)\s*==\s*(\d+)\)', ev, 'pipelined batch size')
    out += _nat('QR_PIPE_MOD', a) + _nat('QR_PIPE_REM', b)
    st, mk, lim = allsame(r'checkreply\("( ZD)"\s*,\s*mailerrmsg\s*,\s*(\d+)\)\s*>=\s*(\d+)', ev, 'MAIL FROM checkreply', 2)
    out += _bytes('QR_ST_MAIL', st) + 'Definition QR_MASK_MAIL : N := %s%%N.\n' % mk + _z('QR_FAIL_FROM', lim)
    st, mk, lim = allsame(r'checkreply\("(\w+)"\s*,\s*NULL\s*,\s*(\d+)\)\s*<\s*(\d+)', ev, 'RCPT TO checkreply', 2)
    out += _bytes('QR_ST_RCPT', st) + 'Definition QR_MASK_RCPT : N := %s%%N.\n' % mk + _z('QR_RCPT_OK_BELOW', lim)
    if one(r'checkreply\(NULL\s*,\s*NULL\s*,\s*(\d+)\)', ev, 'drain checkreply') != '0':
        raise TranslateError('send_envelope: drain checkreply mask changed')
    if not re.search(r'int\s+rcptstat\s*=\s*1\s*;', ev) or len(re.findall(r'rcptstat\s*=\s*0\s*;', ev)) != 2 or not re.search(r'return\s+rcptstat\s*;', ev):
        raise TranslateError('send_envelope: rcptstat handling changed')
    if len(re.findall(r'for\s*\(int\s+i\s*=\s*rcptcount\s*;\s*i\s*>\s*0\s*;\s*i--\)', ev)) != 2 or \
       not re.search(r'for\s*\(int\s+i\s*=\s*0\s*;\s*i\s*<\s*rcptcount\s*;\s*i\+\+\)', ev) or \
       not re.search(r'for\s*\(int\s+i\s*=\s*1\s*;\s*i\s*<\s*rcptcount\s*;\s*i\+\+\)', ev):
        raise TranslateError('send_envelope: loop bounds changed')

    # ---- send_data (qrdata.c)
    qd_all = strip_comments(read(repo, 'qremote/qrdata.c'))
    m = re.search(r'successmsg\[\]\s*=\s*\{\s*NULL\s*,\s*"([^"]*)"\s*,\s*NULL\s*,\s*"([^"]*)"\s*,\s*"([^"]*)"\s*,\s*"([^"]*)"\s*,\s*"([^"]*)"\s*,\s*NULL\s*\}', qd_all)
    if not m:
        raise TranslateError('qrdata.c: successmsg initialiser changed')
    for i, k in zip((1, 3, 4, 5, 6), range(1, 6)):
        out += _bytes('QR_SUCC_%d' % i, m.group(k))
    sd = func_body(qd_all, 'send_data', 'qremote/qrdata.c')
    out += _bytes('QR_SUCC_2_PLAIN', _lit(r'successmsg\[2\]\s*=\s*"()"\s*;\s*netwrite\(', sd, 'send_data successmsg[2] reset'))
    out += _bytes('QR_SUCC_2_QP', _lit(r'successmsg\[2\]\s*=\s*"([^"]+)"\s*;\s*send_qp', sd, 'send_data successmsg[2] qp'))
    out += _bytes('QR_CMD_DATA', _lit(r'netwrite\("(DATA\\r\\n)"\)\s*;\s*int\s+num\s*=\s*netget\(1\)', sd, 'DATA command'))
    out += _z('QR_DATA_GO', _lit(r'if\s*\(num\s*!=\s*(\d+)\)', sd, 'DATA go-ahead code'))
    lim, d5, z4, txt = one(r'num\s*>=\s*(\d+)\s*\?\s*"([^"]*)"\s*:\s*"([^"]*)"\s*,\s*"([^"]*)"\s*,\s*linein\.s\s*\+\s*4\s*\}', sd, 'DATA rejection message')
    out += _z('QR_DATA_PERM_FROM', lim) + _bytes('QR_DATA_REJ_PERM', d5) + _bytes('QR_DATA_REJ_TEMP', z4) + _bytes('QR_DATA_REJ_TXT', txt)
    m = re.search(r'if\s*\(lastlf\)\s*\{\s*netwrite\("([^"]*)"\)\s*;\s*\}\s*else\s*\{\s*netwrite\("([^"]*)"\)\s*;\s*\}', sd)
    if not m:
        raise TranslateError('send_data: end-of-data write changed')
    out += _bytes('QR_DOT_AFTER_LF', m.group(1)) + _bytes('QR_DOT_NO_LF', m.group(2))
    st, mk = one(r'checkreply\("(\w+)"\s*,\s*successmsg\s*,\s*(\d+)\)\s*;', sd, 'end-of-data checkreply')
    out += _bytes('QR_ST_DOT', st) + 'Definition QR_MASK_DOT : N := %s%%N.\n' % mk
    cond = one(r'if\s*\(\(!\(smtpext\s*&\s*esmtp_8bitmime\)\s*&&\s*\(recodeflag\s*&\s*(\w+)\)\)\s*\|\|\s*\(recodeflag\s*&\s*(\w+)\)\)', sd, 'send_data recode test')
    if cond != ('recode_8bit', 'recode_long'):
        raise TranslateError('send_data: recode test changed')
    qh = strip_comments(read(repo, 'include/qremote/qrdata.h'))
    r8 = int(one(r'recode_8bit\s*=\s*(0x[0-9a-f]+|\d+)', qh, 'recode_8bit'), 0)
    rl = int(one(r'recode_long_line\s*=\s*(0x[0-9a-f]+|\d+)', qh, 'recode_long_line'), 0)
    rh = int(one(r'recode_long_header\s*=\s*(0x[0-9a-f]+|\d+)', qh, 'recode_long_header'), 0)
    if not re.search(r'recode_long\s*=\s*recode_long_line\s*\|\s*recode_long_header', qh):
        raise TranslateError('qrdata.h: recode_long changed')
    out += 'Definition QR_RECODE_8BIT : N := %d%%N.\nDefinition QR_RECODE_LONG : N := %d%%N.\n' % (r8, rl | rh)

    # ---- main / quitmsg / net_conn_shutdown (qremote.c)
    qr = strip_comments(read(repo, 'qremote/qremote.c'))
    out += _bytes('QR_CMD_QUIT', _lit(r'netwrite\("(QUIT\\r\\n)"\)', func_body(qr, 'quitmsg', 'qremote/qremote.c'), 'QUIT command'))
    mn = func_body(qr, 'main', 'qremote/qremote.c')
    m = re.search(r'if\s*\(rcptcount\s*<=\s*0\)\s*\{\s*log_write\([^;]*;\s*write_status\("([^"]*)"\)\s*;\s*net_conn_shutdown\(shutdown_abort\)', mn)
    if not m:
        raise TranslateError('main: argument-count check changed')
    out += _bytes('QR_MSG_ARGS', m.group(1))
    if not re.search(r'if\s*\(send_envelope\(recodeflag\s*,\s*argv\[2\]\s*,\s*argc\s*-\s*3\s*,\s*argv\s*\+\s*3\)\s*!=\s*0\)\s*net_conn_shutdown\(shutdown_clean\)\s*;', mn):
        raise TranslateError('main: send_envelope call changed')
    if not re.search(r'send_data\(recodeflag\)\s*;\s*\}\s*net_conn_shutdown\(shutdown_clean\)\s*;', mn):
        raise TranslateError('main: send_data / final shutdown changed')
    sh = func_body(qr, 'net_conn_shutdown', 'qremote/qremote.c')
    if not re.search(r'if\s*\(\(sd_type\s*==\s*shutdown_clean\)\s*&&\s*\(socketd\s*>=\s*0\)\)\s*\{\s*quitmsg\(\)\s*;', sh):
        raise TranslateError('net_conn_shutdown: clean branch changed')
    out += _nat('QR_EXIT_CODE', one(r'\bexit\((\d+)\)\s*;', sh, 'net_conn_shutdown exit code'))

    # ---- connect_mx (conn_mx.c): the two exits before the connection is usable; do they report first?
    cm = func_body(strip_comments(read(repo, 'qremote/conn_mx.c')), 'connect_mx', 'qremote/conn_mx.c')
    def first_word(lit):
        return c_unescape(lit.split(' ')[0])
    m = re.search(r'if\s*\(dup2\(socketd\s*,\s*0\)\s*<\s*0\)\s*\{\s*daneinfo_free\(d\s*,\s*tlsa\)\s*;\s*(?:write_status\("([^"]*)"\)\s*;\s*)?net_conn_shutdown\(shutdown_abort\)\s*;\s*\}', cm)
    if not m:
        raise TranslateError('connect_mx: dup2() failure path not recognised')
    out += 'Definition QR_CONN_DUP2_REPORTS : bool := %s.\n' % ('true' if m.group(1) else 'false')
    out += 'Definition QR_RPT_CONN_DUP2 : list N := %s.\n' % coq_bytes(first_word(m.group(1)) if m.group(1) else [])
    if not re.search(r'int\s+s\s*=\s*netget\(0\)\s*;\s*if\s*\(s\s*<\s*0\)\s*\{\s*switch\s*\(-s\)\s*\{\s*case\s+ECONNRESET\s*:', cm) or \
       not re.search(r'case\s+EINVAL\s*:', cm):
        raise TranslateError('connect_mx: switch on the result of the first netget(0) changed')
    m = re.search(r'default\s*:\s*daneinfo_free\(d\s*,\s*tlsa\)\s*;\s*(.*?)net_conn_shutdown\(shutdown_abort\)\s*;', cm, flags=re.S)
    if not m:
        raise TranslateError('connect_mx: default branch of the first netget(0) not recognised')
    body = m.group(1).strip()
    if body == '':
        out += 'Definition QR_CONN_ERR_REPORTS : bool := false.\nDefinition QR_RPT_CONN_TIMEOUT : list N := []%N.\nDefinition QR_RPT_CONN_ERR : list N := []%N.\n'
    else:
        m2 = re.fullmatch(r'if\s*\(s\s*==\s*-ETIMEDOUT\)\s*\{\s*write_status\("([^"]*)"\)\s*;\s*\}\s*else\s*\{\s*const\s+char\s*\*tmp\[\]\s*=\s*\{\s*"([^"]*)"\s*,\s*strerror\(-s\)\s*\}\s*;\s*write_status_m\(tmp\s*,\s*2\)\s*;\s*\}', body)
        if not m2:
            raise TranslateError('connect_mx: reporting in the default branch of the first netget(0) not recognised: %r' % body)
        out += 'Definition QR_CONN_ERR_REPORTS : bool := true.\n'
        out += 'Definition QR_RPT_CONN_TIMEOUT : list N := %s.\n' % coq_bytes(first_word(m2.group(1)))
        out += 'Definition QR_RPT_CONN_ERR : list N := %s.\n' % coq_bytes(first_word(m2.group(2)))

    # ---- status.c: the terminator written by write_status()/write_status_m() is "\n" with length 2
    sc = strip_comments(read(repo, 'qremote/status.c'))
    ms = re.findall(r'iov_base\s*=\s*"([^"]*)"\s*[,;]\s*(?:vectors\[count\])?\.iov_len\s*=\s*(\d+)', sc)
    if len(ms) != 2 or len(set(ms)) != 1:
        raise TranslateError('status.c: report terminator changed: %r' % (ms,))
    term = c_unescape(ms[0][0]) + [0]
    out += 'Definition QR_STATUS_TERM : list N := %s.\n' % coq_bytes(term[:int(ms[0][1])])
    return out


GENERATORS = {'GenQremote.v': gen_qremote}

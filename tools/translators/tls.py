"""qsmtpd/starttls.c (smtp_starttls, tls_init), the STARTTLS announcement of smtp_ehlo (qsmtpd/commands.c) and
sync_pipelining (qsmtpd/syntax.c) -> Gen/GenTls.v

Only facts: reply codes of the literals, which guards the C tests, and the ORDER of the calls inside tls_init
(sync_pipelining, the 220 reply, SSL_accept, the assignment of the session).  The model (Model/TlsSwitch.v) is written
over these constants, so that an edit of the C which drops a guard or reorders the calls changes the model and breaks the
proof obligation that needed it."""
import re
from trlib import *
import qsmtpd as _q


def _b(x):
    return 'true' if x else 'false'


def gen_tls(repo):
    out = HEADER % 'qsmtpd/starttls.c, qsmtpd/commands.c'
    st = strip_comments(read(repo, 'qsmtpd/starttls.c'))
    # ---- smtp_starttls: the guard
    body = func_body(st, 'smtp_starttls', 'qsmtpd/starttls.c')
    m = re.search(r'if\s*\(([^{};]*?)\)\s*return\s+1\s*;', body)
    terms = set()
    if m:
        terms = {re.sub(r'\s+', '', t) for t in m.group(1).split('||')}
        unknown = terms - {'xmitstat.ssl', '!xmitstat.esmtp'}
        if unknown:
            raise TranslateError('smtp_starttls: unknown term(s) in the refusal guard: %s' % sorted(unknown))
    if not re.search(r'return\s+tls_init\s*\(\s*\)\s*;', body):
        raise TranslateError('smtp_starttls: `return tls_init();` not found')
    out += '(* smtp_starttls refuses (returns 1) when ... *)\n'
    out += 'Definition STARTTLS_REFUSES_IN_TLS : bool := %s.\n' % _b('xmitstat.ssl' in terms)
    out += 'Definition STARTTLS_REFUSES_NON_ESMTP : bool := %s.\n\n' % _b('!xmitstat.esmtp' in terms)
    # ---- tls_init: order of the calls
    ti = func_body(st, 'tls_init', 'qsmtpd/starttls.c')

    def pos(pat, what, required=True):
        ms = [x.start() for x in re.finditer(pat, ti)]
        if len(ms) > 1 or (required and not ms):
            raise TranslateError('tls_init: expected one %s, found %d' % (what, len(ms)))
        return ms[0] if ms else None
    p_sync = pos(r'\bsync_pipelining\s*\(\s*\)\s*;', 'call of sync_pipelining()', required=False)
    p_ready = pos(r'netwrite\s*\(\s*"(\d\d\d) [^"]*ready for tls\\r\\n"\s*\)', 'netwrite("220 ... ready for tls")')
    ready_code = re.search(r'netwrite\s*\(\s*"(\d\d\d) [^"]*ready for tls', ti).group(1)
    p_acc = pos(r'\bssl_timeoutaccept\s*\(', 'call of ssl_timeoutaccept()')
    p_ssl = pos(r'(?<![\w.])ssl\s*=\s*myssl\s*;', 'assignment ssl = myssl')
    p_xssl = pos(r'xmitstat\.ssl\s*=\s*myssl\s*;', 'assignment xmitstat.ssl = myssl')
    if not (p_ready < p_acc < min(p_ssl, p_xssl)):
        raise TranslateError('tls_init: the order  220 reply < SSL_accept < assignment of the session  does not hold')
    # everything between the accept call and the assignments must be the failure exits
    between = ti[p_acc:min(p_ssl, p_xssl)]
    if not re.search(r'if\s*\(\s*j\s*==\s*-ETIMEDOUT\s*\)\s*\{[^}]*dieerror\s*\(\s*ETIMEDOUT\s*\)\s*;\s*\}\s*else\s+if\s*\(\s*j\s*<\s*0\s*\)\s*\{[^}]*return\s+-tls_out\s*\(\s*"connection failed"\s*,\s*\w+\s*,\s*-EDONE\s*\)\s*;\s*\}', between, flags=re.S):
        raise TranslateError('tls_init: the failure exits behind ssl_timeoutaccept() (timeout -> dieerror, j < 0 -> return -tls_out(..., -EDONE)) were not recognised')
    out += '(* tls_init: sync_pipelining() is called, and before the "ready for tls" reply *)\n'
    out += 'Definition TLS_SYNC_BEFORE_READY : bool := %s.\n' % _b(p_sync is not None and p_sync < p_ready)
    out += 'Definition TLS_READY_CODE : N := %s%%N.\n' % ready_code
    codes = set(re.findall(r'const\s+char\s*\*\s*msg\[\]\s*=\s*\{\s*"(\d\d\d) [^"]*TLS ', st))
    if len(codes) != 1:
        raise TranslateError('tls_out/tls_err: expected one reply code, found %s' % sorted(codes))
    out += 'Definition TLS_FAIL_CODE : N := %s%%N.\n\n' % codes.pop()
    # ---- tls_err: what tls_init hands to smtploop after "454 ... local TLS initialization failed"
    m = re.search(r'\ntls_err\s*\(const char \*s\)\s*\{(.*?)\n\}', st, flags=re.S)
    if not m:
        raise TranslateError('starttls.c: tls_err() not found')
    sign = one(r'return\s+r\s*\?\s*-?\s*r\s*:\s*(-?)\s*EDONE\s*;', m.group(1), 'tls_err return')
    out += '(* tls_err() returns EDONE (smtploop: reply already sent); false: it returns -EDONE, which smtploop answers with a second reply *)\n'
    out += 'Definition TLS_ERR_RETURNS_EDONE : bool := %s.\n\n' % _b(sign == '')
    # ---- smtp_ehlo: announcement
    cm = strip_comments(read(repo, 'qsmtpd/commands.c'))
    eh = func_body(cm, 'smtp_ehlo', 'qsmtpd/commands.c')
    m = re.search(r'if\s*\(([^{}]*?)\)\s*\{\s*if\s*\(\s*find_servercert\s*\(\s*localport\s*\)\s*==\s*0\s*\)\s*msg\[next\+\+\]\s*=\s*"250-STARTTLS\\r\\n"\s*;', eh, flags=re.S)
    if not m:
        # announced without asking for the certificate?
        m2 = re.search(r'if\s*\(([^{}]*?)\)\s*\{?\s*msg\[next\+\+\]\s*=\s*"250-STARTTLS\\r\\n"\s*;', eh, flags=re.S)
        if not m2:
            raise TranslateError('smtp_ehlo: the STARTTLS announcement was not recognised')
        cond, needs_cert = m2.group(1), 'find_servercert' in m2.group(1)
    else:
        cond, needs_cert = m.group(1), True
    out += '(* smtp_ehlo announces STARTTLS only when ... *)\n'
    out += 'Definition EHLO_OFFER_NEEDS_NO_TLS : bool := %s.\n' % _b(re.search(r'!\s*xmitstat\.ssl', cond) is not None)
    out += 'Definition EHLO_OFFER_NEEDS_CERT : bool := %s.\n\n' % _b(needs_cert)
    out += '(* index of smtp_starttls in the handler column of Gen/GenSession.v *)\n'
    out += 'Definition STARTTLS_HANDLER : nat := %d.\n' % _q.HANDLERS.index('smtp_starttls')
    return out


GENERATORS = {'GenTls.v': gen_tls}

"""qsmtpd/starttls.c (smtp_starttls, tls_init), the STARTTLS announcement of smtp_ehlo (qsmtpd/commands.c) and
sync_pipelining (qsmtpd/syntax.c) -> Gen/GenTls.v

Only facts: reply codes of the literals, which guards the C tests, and the ORDER of the calls inside tls_init
(sync_pipelining, the 220 reply, SSL_accept, the assignment of the session).  The model (Model/TlsSwitch.v) is written
over these constants, so that an edit of the C which drops a guard or reorders the calls changes the model and breaks the
proof obligation that needed it."""
import re
from trlib import *
import qsmtpd as _q


def _b(x):
    return 'true' if x else 'false'


def gen_tls(repo):
    out = HEADER % 'qsmtpd/starttls.c, qsmtpd/commands.c, lib/netio.c'
    st = strip_comments(read(repo, 'qsmtpd/starttls.c'))
    # ---- smtp_starttls: the guard
    body = func_body(st, 'smtp_starttls', 'qsmtpd/starttls.c')
    m = re.search(r'if\s*\(([^{};]*?)\)\s*return\s+1\s*;', body)
    terms = set()
    if m:
        terms = {re.sub(r'\s+', '', t) for t in m.group(1).split('||')}
        unknown = terms - {'xmitstat.ssl', '!xmitstat.esmtp'}
        if unknown:
            raise TranslateError('smtp_starttls: unknown term(s) in the refusal guard: %s' % sorted(unknown))
    if not re.search(r'return\s+tls_init\s*\(\s*\)\s*;', body):
        raise TranslateError('smtp_starttls: `return tls_init();` not found')
    out += '(* smtp_starttls refuses (returns 1) when ... *)\n'
    out += 'Definition STARTTLS_REFUSES_IN_TLS : bool := %s.\n' % _b('xmitstat.ssl' in terms)
    out += 'Definition STARTTLS_REFUSES_NON_ESMTP : bool := %s.\n\n' % _b('!xmitstat.esmtp' in terms)
    # ---- tls_init: order of the calls
    ti = func_body(st, 'tls_init', 'qsmtpd/starttls.c')

    def pos(pat, what, required=True):
        ms = [x.start() for x in re.finditer(pat, ti)]
        if len(ms) > 1 or (required and not ms):
            raise TranslateError('tls_init: expected one %s, found %d' % (what, len(ms)))
        return ms[0] if ms else None
    p_sync = pos(r'\bsync_pipelining\s*\(\s*\)\s*;', 'call of sync_pipelining()', required=False)
    p_ready = pos(r'netwrite\s*\(\s*"(\d\d\d) [^"]*ready for tls\\r\\n"\s*\)', 'netwrite("220 ... ready for tls")')
    ready_code = re.search(r'netwrite\s*\(\s*"(\d\d\d) [^"]*ready for tls', ti).group(1)
    p_acc = pos(r'\bssl_timeoutaccept\s*\(', 'call of ssl_timeoutaccept()')
    p_ssl = pos(r'(?<![\w.])ssl\s*=\s*myssl\s*;', 'assignment ssl = myssl')
    p_xssl = pos(r'xmitstat\.ssl\s*=\s*myssl\s*;', 'assignment xmitstat.ssl = myssl')
    if not (p_ready < p_acc < min(p_ssl, p_xssl)):
        raise TranslateError('tls_init: the order  220 reply < SSL_accept < assignment of the session  does not hold')
    # everything between the accept call and the assignments must be the failure exits
    between = ti[p_acc:min(p_ssl, p_xssl)]
    if not re.search(r'if\s*\(\s*j\s*==\s*-ETIMEDOUT\s*\)\s*\{[^}]*dieerror\s*\(\s*ETIMEDOUT\s*\)\s*;\s*\}\s*else\s+if\s*\(\s*j\s*<\s*0\s*\)\s*\{[^}]*return\s+-tls_out\s*\(\s*"connection failed"\s*,\s*\w+\s*,\s*-EDONE\s*\)\s*;\s*\}', between, flags=re.S):
        raise TranslateError('tls_init: the failure exits behind ssl_timeoutaccept() (timeout -> dieerror, j < 0 -> return -tls_out(..., -EDONE)) were not recognised')
    out += '(* tls_init: sync_pipelining() is called, and before the "ready for tls" reply *)\n'
    out += 'Definition TLS_SYNC_BEFORE_READY : bool := %s.\n' % _b(p_sync is not None and p_sync < p_ready)
    out += 'Definition TLS_READY_CODE : N := %s%%N.\n' % ready_code
    codes = set(re.findall(r'const\s+char\s*\*\s*msg\[\]\s*=\s*\{\s*"(\d\d\d) [^"]*TLS ', st))
    if len(codes) != 1:
        raise TranslateError('tls_out/tls_err: expected one reply code, found %s' % sorted(codes))
    out += 'Definition TLS_FAIL_CODE : N := %s%%N.\n\n' % codes.pop()
    # ---- tls_err: what tls_init hands to smtploop after "454 ... local TLS initialization failed"
    m = re.search(r'\ntls_err\s*\(const char \*s\)\s*\{(.*?)\n\}', st, flags=re.S)
    if not m:
        raise TranslateError('starttls.c: tls_err() not found')
    sign = one(r'return\s+r\s*\?\s*-?\s*r\s*:\s*(-?)\s*EDONE\s*;', m.group(1), 'tls_err return')
    out += '(* tls_err() returns EDONE (smtploop: reply already sent); false: it returns -EDONE, which smtploop answers with a second reply *)\n'
    out += 'Definition TLS_ERR_RETURNS_EDONE : bool := %s.\n\n' % _b(sign == '')
    # ---- lib/netio.c: is lineinn purged when the TLS state changed (drop_stale_input() at the start of net_read)?
    nio = strip_comments(read(repo, 'lib/netio.c'))
    drops = False
    if re.search(r'\bdrop_stale_input\s*\(\s*void\s*\)\s*\{\s*if\s*\(\s*linenssl\s*!=\s*ssl\s*\)\s*\{\s*linenlen\s*=\s*0\s*;\s*linenssl\s*=\s*ssl\s*;\s*\}\s*\}', nio):
        nr = func_body(nio, 'net_read', 'lib/netio.c')
        drops = re.search(r'\{(?:[^;{}]*;)*?\s*drop_stale_input\s*\(\s*\)\s*;\s*if\s*\(\s*linenlen\s*\)', nr) is not None
    elif 'drop_stale_input' in nio or 'linenssl' in nio:
        raise TranslateError('netio.c: drop_stale_input() was not recognised')
    out += '(* net_read() empties lineinn when ssl changed since the buffer was filled *)\n'
    out += 'Definition NETIO_DROPS_STALE_INPUT : bool := %s.\n\n' % _b(drops)
    # ---- smtp_ehlo: announcement
    cm = strip_comments(read(repo, 'qsmtpd/commands.c'))
    eh = func_body(cm, 'smtp_ehlo', 'qsmtpd/commands.c')
    m = re.search(r'if\s*\(([^{}]*?)\)\s*\{\s*if\s*\(\s*find_servercert\s*\(\s*localport\s*\)\s*==\s*0\s*\)\s*msg\[next\+\+\]\s*=\s*"250-STARTTLS\\r\\n"\s*;', eh, flags=re.S)
    if not m:
        # announced without asking for the certificate?
        m2 = re.search(r'if\s*\(([^{}]*?)\)\s*\{?\s*msg\[next\+\+\]\s*=\s*"250-STARTTLS\\r\\n"\s*;', eh, flags=re.S)
        if not m2:
            raise TranslateError('smtp_ehlo: the STARTTLS announcement was not recognised')
        cond, needs_cert = m2.group(1), 'find_servercert' in m2.group(1)
    else:
        cond, needs_cert = m.group(1), True
    out += '(* smtp_ehlo announces STARTTLS only when ... *)\n'
    out += 'Definition EHLO_OFFER_NEEDS_NO_TLS : bool := %s.\n' % _b(re.search(r'!\s*xmitstat\.ssl', cond) is not None)
    out += 'Definition EHLO_OFFER_NEEDS_CERT : bool := %s.\n\n' % _b(needs_cert)
    out += '(* index of smtp_starttls in the handler column of Gen/GenSession.v *)\n'
    out += 'Definition STARTTLS_HANDLER : nat := %d.\n' % _q.HANDLERS.index('smtp_starttls')
    return out


def gen_servercert(repo):
    """find_servercert: buffer sizes, name literals, where the suffix is written"""
    import subprocess
    out = HEADER % 'qsmtpd/starttls.c, include/qsmtpd/qsmtpd.h, <netinet/in.h>'
    st = strip_comments(read(repo, 'qsmtpd/starttls.c'))
    p = subprocess.run(['gcc', '-E', '-dM', '-x', 'c', '-'], input=b'#include <netinet/in.h>\n', stdout=subprocess.PIPE, stderr=subprocess.DEVNULL, timeout=60)
    m = re.search(r'#define\s+INET6_ADDRSTRLEN\s+(\d+)', p.stdout.decode())
    if not m:
        raise TranslateError('INET6_ADDRSTRLEN not found in <netinet/in.h>')
    i6 = int(m.group(1))
    a, b, cert = one(r'static\s+char\s+certfilename\[\s*(\d+)\s*\+\s*INET6_ADDRSTRLEN\s*\+\s*(\d+)\s*\]\s*=\s*"([^"]*)"\s*;', st, 'certfilename declaration')
    key = one(r'static\s+char\s+keyfilenamebuf\[\s*sizeof\s*\(\s*certfilename\s*\)\s*\]\s*=\s*"([^"]*)"\s*;', st, 'keyfilenamebuf declaration (same size as certfilename)')
    if not re.search(r'static\s+const\s+char\s*\*\s*keyfilename\s*=\s*certfilename\s*;', st):
        raise TranslateError('keyfilename does not start as certfilename')
    hdr = strip_comments(read(repo, 'include/qsmtpd/qsmtpd.h'))
    if not re.search(r'char\s+localip\[\s*INET6_ADDRSTRLEN\s*\]', hdr):
        raise TranslateError('qsmtpd.h: xmitstat.localip is not char[INET6_ADDRSTRLEN]')
    m = re.search(r'\nfind_servercert\s*\(const char \*localport\)\s*\{(.*?)\n\}', st, flags=re.S)
    if not m:
        raise TranslateError('find_servercert not found')
    body = m.group(1)
    arg = one(r'const\s+size_t\s+oldlen\s*=\s*strlen\s*\(\s*([^()]*?)\s*\)\s*;', body, 'find_servercert: oldlen')
    if arg == 'certfilename':
        const = False
    elif arg == '"%s"' % cert:
        const = True
    else:
        raise TranslateError('find_servercert: oldlen = strlen(%s) not understood' % arg)
    dirs = one(r'const\s+size_t\s+diroffs\s*=\s*strlen\s*\(\s*"([^"]*)"\s*\)\s*;', body, 'find_servercert: diroffs')
    # the statements the model transcribes, in order
    seq = [r"certfilename\[oldlen\]\s*=\s*'\.'\s*;",
           r'strncpy\s*\(\s*certfilename\s*\+\s*oldlen\s*\+\s*1\s*,\s*xmitstat\.localip\s*,\s*sizeof\s*\(certfilename\)\s*-\s*oldlen\s*-\s*1\s*\)\s*;',
           r'iplen\s*=\s*oldlen\s*\+\s*1\s*\+\s*strlen\s*\(\s*xmitstat\.localip\s*\)\s*;',
           r"certfilename\[iplen\]\s*=\s*':'\s*;",
           r'strncpy\s*\(\s*certfilename\s*\+\s*iplen\s*\+\s*1\s*,\s*localport\s*,\s*sizeof\s*\(certfilename\)\s*-\s*iplen\s*-\s*1\s*\)\s*;',
           r"certfilename\[iplen\]\s*=\s*'\\0'\s*;",
           r"certfilename\[oldlen\]\s*=\s*'\\0'\s*;"]
    pos = -1
    for pat in seq:
        mm = re.search(pat, body[pos + 1:])
        if not mm:
            raise TranslateError('find_servercert: statement /%s/ not found in the expected order' % pat)
        pos = pos + 1 + mm.start()
    if len(re.findall(r'memcpy\s*\(\s*keyfilenamebuf\s*\+\s*oldlen\s*-\s*1\s*,\s*certfilename\s*\+\s*oldlen\s*,\s*sizeof\s*\(certfilename\)\s*-\s*oldlen\s*\)\s*;', body)) != 2:
        raise TranslateError('find_servercert: the two memcpy(keyfilenamebuf + oldlen - 1, certfilename + oldlen, sizeof(certfilename) - oldlen) not found')
    out += 'Definition SC_BUF : nat := %d.                  (* sizeof(certfilename) = sizeof(keyfilenamebuf) *)\n' % (int(a) + i6 + int(b))
    out += 'Definition SC_IPMAX : nat := %d.                (* longest string in xmitstat.localip *)\n' % (i6 - 1)
    out += 'Definition SC_CERT : list N := %s.\n' % coq_bytes(c_unescape(cert))
    out += 'Definition SC_KEY : list N := %s.\n' % coq_bytes(c_unescape(key))
    out += 'Definition SC_DIR : list N := %s.\n' % coq_bytes(c_unescape(dirs))
    out += '(* oldlen = strlen("%s") (true) or strlen(certfilename) (false) *)\n' % cert
    out += 'Definition SC_OLDLEN_CONST : bool := %s.\n' % _b(const)
    return out


GENERATORS = {'GenTls.v': gen_tls, 'GenServerCert.v': gen_servercert}

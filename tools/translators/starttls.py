"""qremote/{greeting,starttlsr,conn_mx,qremote,reply,smtproutes}.c, greeting.h, qremote.h -> Gen/GenStarttls.v

What the C18 theorems hinge on: the EHLO extension table and the STARTTLS bit, the reply
code tls_init() insists on, which TLSA certificate usages count as usable, the condition
under which the verification result is looked at, whether lib/netio.c drops input buffered
under another TLS state, whether main() refuses a pinned host without TLS, which errors make connect_mx() drop the socket without
QUIT, whether quitmsg() forgets the TLS settings of the route, whose TLSA records
connect_mx() asks for, the order of the STARTTLS / expect_tls / TLSA branches, and the
first words of the reports on the exit paths."""
import re
from trlib import *

# the model's own numbering of the errno values that occur (the harness prints names)
ERRNO = {'ETIMEDOUT': 1, 'ECONNRESET': 2, 'EPIPE': 3, 'EPROTO': 4, 'EIO': 5, 'EINVAL': 6, 'E2BIG': 7, 'EDONE': 8}

def _bytes(name, lit):
    return 'Definition %s : list N := %s.\n' % (name, coq_bytes(c_unescape(lit)))

def _bool(name, v):
    return 'Definition %s : bool := %s.\n' % (name, 'true' if v else 'false')

def _n(name, v):
    return 'Definition %s : N := %d%%N.\n' % (name, int(str(v), 0))

def _z(name, v):
    return 'Definition %s : Z := %d%%Z.\n' % (name, int(str(v), 0))

def _firstword(lit):
    return lit.split(' ')[0]

def gen_starttls(repo):
    out = HEADER % 'qremote/{greeting,starttlsr,conn_mx,qremote,reply,smtproutes}.c, include/qremote/{greeting,qremote}.h'
    out += 'From Coq Require Import ZArith.\n\n'
    for k, v in sorted(ERRNO.items(), key=lambda kv: kv[1]):
        out += _n('ST_' + k, v)

    # ---------------------------------------------------------------- greeting.h / greeting.c
    gh = strip_comments(read(repo, 'include/qremote/greeting.h'))
    out += _n('ST_ESMTP_STARTTLS', one(r'\besmtp_starttls\s*=\s*(0x[0-9a-fA-F]+|\d+)', gh, 'greeting.h esmtp_starttls'))
    gc = strip_comments(read(repo, 'qremote/greeting.c'))
    ce = func_body(gc, 'esmtp_check_extension', 'qremote/greeting.c')
    tab = one(r'extensions\[\]\s*=\s*\{(.*?)\{\s*\.name\s*=\s*NULL\s*\}', ce, 'extension table', re.S)
    tab = re.sub(r'#ifdef\s+CHUNKING.*?#endif', '', tab, flags=re.S)     # the harness is built without CHUNKING (CMake default)
    if '#' in tab:
        raise TranslateError('extension table: unexpected preprocessor directive')
    ents = re.findall(r'\{\s*\.name\s*=\s*"([^"]*)"\s*,\s*\.len\s*=\s*(\d+)\s*,\s*\.func\s*=\s*(\w+)\s*\}', tab)
    if len(ents) != len(re.findall(r'\.name', tab)) or not ents:
        raise TranslateError('extension table: entries not parsed')
    kinds = {'NULL': 0, 'cb_size': 1, 'cb_auth': 2, 'cb_utf8': 3}
    rows = []
    for nm, ln, fn in ents:
        if int(ln) != len(nm):
            raise TranslateError('extension table: .len of %s is not strlen' % nm)
        if fn not in kinds:
            raise TranslateError('extension table: unknown callback %s' % fn)
        rows.append('(%s, %d%%N)' % (coq_bytes(c_unescape(nm)), kinds[fn]))
    out += '(* (name, callback): 0 none (no argument allowed), 1 cb_size, 2 cb_auth, 3 cb_utf8; bit = 1 << index *)\n'
    out += 'Definition ST_EXT_TABLE : list (list N * N) :=\n  [' + ';\n   '.join(rows) + '].\n'
    if not re.search(r'strncasecmp\(input,\s*extensions\[j\]\.name,\s*extensions\[j\]\.len\)\s*!=\s*0', ce) or \
       not re.search(r"\(input\[extensions\[j\]\.len\]\s*==\s*'\\0'\)\s*\|\|\s*\(input\[extensions\[j\]\.len\]\s*==\s*' '\)", ce) or \
       not re.search(r'return\s+extensions\[j\]\.func\(input\s*\+\s*extensions\[j\]\.len\)\s*\?\s*-1\s*:\s*\(1\s*<<\s*j\)', ce) or \
       not re.search(r"return\s+\(input\[extensions\[j\]\.len\]\s*==\s*'\\0'\)\s*\?\s*\(1\s*<<\s*j\)\s*:\s*-1", ce):
        raise TranslateError('esmtp_check_extension: matching logic changed')
    ca = func_body(gc, 'cb_auth', 'qremote/greeting.c')
    lo, hi = one(r'\(\*cur\s*<\s*(\d+)\)\s*\|\|\s*\(\*cur\s*>=\s*(\d+)\)', ca, 'cb_auth printable range')
    out += _n('ST_AUTH_LO', lo) + _n('ST_AUTH_HI', hi)
    cs = func_body(gc, 'cb_size', 'qremote/greeting.c')
    if not re.search(r'if\s*\(!\*more\)\s*return\s+0;\s*remotesize\s*=\s*strtoul\(more,\s*&s,\s*10\);\s*return\s+\*s;', cs):
        raise TranslateError('cb_size changed')
    gr = func_body(gc, 'greeting', 'qremote/greeting.c')
    out += _bytes('ST_CMD_EHLO', one(r'cmd\[\]\s*=\s*\{\s*"([^"]*)"\s*,\s*heloname\.s', gr, 'greeting EHLO'))
    out += _bytes('ST_CMD_HELO', one(r'cmd\[0\]\s*=\s*"([^"]*)"', gr, 'greeting HELO'))
    okc = allsame(r'\(s\s*==\s*(\d+)\)', gr, 'greeting success code')
    out += _z('ST_EHLO_OK', okc)
    lo, hi = one(r'\(s\s*>=\s*(\d+)\)\s*&&\s*\(s\s*<=\s*(\d+)\)', gr, 'greeting HELO failure range')
    out += _z('ST_HELO_FAIL_LO', lo) + _z('ST_HELO_FAIL_HI', hi)
    if not re.search(r'else\s+if\s*\(\(s\s*==\s*\d+\)\s*&&\s*\(err\s*==\s*0\)\)\s*\{\s*int\s+ext\s*=\s*esmtp_check_extension\(linein\.s\s*\+\s*4\)', gr):
        raise TranslateError('greeting: extension collection changed')

    # ---------------------------------------------------------------- qremote.h
    qh = strip_comments(read(repo, 'include/qremote/qremote.h'))
    out += _z('ST_EDONE_VALUE', one(r'#define\s+EDONE\s+(\d+)', qh, 'qremote.h EDONE'))

    # ---------------------------------------------------------------- starttlsr.c
    sc = strip_comments(read(repo, 'qremote/starttlsr.c'))
    ti = func_body(sc, 'tls_init', 'qremote/starttlsr.c')
    out += _bytes('ST_CMD_STARTTLS', one(r'netwrite\("([^"]*)"\)', ti, 'tls_init command'))
    out += _z('ST_STARTTLS_OK', one(r'if\s*\(i\s*!=\s*(\d\d\d)\)\s*\{\s*const\s+char\s*\*msg\[\]\s*=\s*\{\s*"STARTTLS failed', ti, 'tls_init expected reply'))
    if not re.search(r"i\s*=\s*netget\(0\);\s*while\s*\(\(i\s*>\s*0\)\s*&&\s*\(linein\.s\[3\]\s*==\s*'-'\)\)\s*\{\s*int\s+k\s*=\s*netget\(0\);\s*if\s*\(i\s*!=\s*k\)\s*\{\s*if\s*\(k\s*<\s*0\)\s*i\s*=\s*k;\s*else\s*i\s*=\s*EDONE;\s*break;", ti):
        raise TranslateError('tls_init: reply loop changed')
    if not re.search(r'return\s+i\s*<\s*0\s*\?\s*-i\s*:\s*EDONE;', ti):
        raise TranslateError('tls_init: result for a wrong reply changed')
    # usable certificate usages: the two switch statements must agree
    sw = re.findall(r'switch\s*\(tlsa_info\[i\]\.cert_usage\)\s*\{(.*?)\n\t\t\t\}', ti, flags=re.S)
    if len(sw) != 2:
        raise TranslateError('tls_init: expected two switches over cert_usage, found %d' % len(sw))
    usable = []
    for body in sw:
        m = re.search(r'continue;(.*)$', body, flags=re.S)
        if not m or not re.search(r'default\s*:', body[:body.index('continue;')]):
            raise TranslateError('tls_init: cert_usage switch changed')
        usable.append(sorted(int(x) for x in re.findall(r'case\s+(\d+)\s*:', m.group(1))))
    if usable[0] != usable[1] or not usable[0]:
        raise TranslateError('tls_init: usable certificate usages disagree: %r' % usable)
    out += 'Definition ST_TLSA_USABLE : list N := [%s]%%N.\n' % '; '.join(str(x) for x in usable[0])
    if not re.search(r'\}\s*else\s+if\s*\(ret\s*==\s*0\)\s*\{\s*if\s*\(--tlsa_usable\s*==\s*0\)\s*\{', ti) or \
       not re.search(r'if\s*\(tlsa_usable\s*==\s*0\)\s*\{\s*tlsa_cnt\s*=\s*0;', ti) or \
       not re.search(r'if\s*\(ret\s*<\s*0\)\s*\{', ti):
        raise TranslateError('tls_init: handling of SSL_dane_tlsa_add results changed')
    if not re.search(r'ssl\s*=\s*myssl;\s*if\s*\(\*servercert\s*\|\|\s*tlsa_usable\s*>\s*0\)\s*\{\s*long\s+r\s*=\s*SSL_get_verify_result\(myssl\);\s*if\s*\(r\s*!=\s*X509_V_OK\)', ti):
        raise TranslateError('tls_init: verification condition changed')
    if not re.search(r'log_writen\(LOG_ERR,\s*msg\);\s*return\s+EDONE;\s*\}\s*\}\s*return\s+0;', ti):
        raise TranslateError('tls_init: result of a failed verification changed')
    if not re.search(r'i\s*=\s*ssl_timeoutconn\(myssl,\s*timeout\);\s*if\s*\(i\s*<\s*0\)\s*\{.*?ssl_free\(myssl\);\s*return\s+-i;\s*\}', ti, flags=re.S):
        raise TranslateError('tls_init: handshake failure path changed')
    if 'tls_servercert_name' not in ti and (
       not re.search(r'if\s*\(stat\(servercert,\s*&st\)\)\s*\*servercert\s*=\s*\'\\0\';', ti) or
       not re.search(r'if\s*\(partner_fqdn\s*==\s*NULL\)\s*\{\s*\*servercert\s*=\s*\'\\0\';', ti)):
        raise TranslateError('tls_init: tlshosts file detection changed')
    out += _bytes('ST_RPT_PINLOAD', _firstword(one(r'if\s*\(\*servercert\s*&&\s*!SSL_CTX_load_verify_locations\(ctx,\s*servercert,\s*NULL\)\)\s*\{\s*const\s+char\s*\*msg\[\]\s*=\s*\{\s*"([^"]*)"', ti, 'tls_init load report')))
    out += _bytes('ST_RPT_TLSAADD', _firstword(one(r'if\s*\(ret\s*<\s*0\)\s*\{\s*const\s+char\s*\*msg\[\]\s*=\s*\{\s*"([^"]*)"', ti, 'tls_init tlsa add report')))
    # nothing between the reply test and the handshake (the buffered clear text is the business of lib/netio.c)
    seg = one(r'return\s+i\s*<\s*0\s*\?\s*-i\s*:\s*EDONE;\s*\}(.*?)i\s*=\s*ssl_timeoutconn\(myssl,\s*timeout\);', ti, 'tls_init between reply and handshake', re.S)
    if seg.strip() != '':
        raise TranslateError('tls_init: code between the reply test and the handshake not understood')
    # lib/netio.c: is input that was buffered under another TLS state dropped before it is used?
    nc = strip_comments(read(repo, 'lib/netio.c'))
    nr = func_body(nc, 'net_read', 'lib/netio.c')
    has_fn = re.search(r'\bdrop_stale_input\s*\(void\)\s*\{', nc) is not None
    if not has_fn and 'drop_stale_input' not in nc and not re.search(r'\bssl\b[^;]*linenlen\s*=\s*0|linenlen\s*=\s*0[^;]*;[^}]*\bssl\b', nr):
        out += _bool('ST_PURGES', False)
    elif has_fn:
        df = func_body(nc, 'drop_stale_input', 'lib/netio.c')
        if not re.search(r'\{\s*if\s*\(linenssl\s*!=\s*ssl\)\s*\{\s*linenlen\s*=\s*0;\s*linenssl\s*=\s*ssl;\s*\}\s*\}\s*$', df) or \
           not re.search(r'static\s+const\s+SSL\s*\*linenssl;', nc) or \
           len(re.findall(r'\blinenssl\b', nc)) != 3:
            raise TranslateError('drop_stale_input changed')
        if not re.search(r'int\s+valid;\s*drop_stale_input\(\);\s*if\s*\(linenlen\)\s*\{\s*p\s*=\s*find_eol\(lineinn,', nr):
            raise TranslateError('net_read: drop_stale_input() is not the first thing done')
        out += _bool('ST_PURGES', True)
    else:
        raise TranslateError('lib/netio.c: handling of stale input not understood')
    if not re.search(r'if\s*\(ssl\)\s*\{\s*int\s+r\s*=\s*ssl_timeoutread\(ssl,', func_body(nc, 'readinput', 'lib/netio.c')):
        raise TranslateError('readinput: channel selection changed')
    # lib/netio.c: does loop_long() read with the caller's `fatal`, or always with fatal = 1 (dieerror() under net_read(0))?
    ll = func_body(nc, 'loop_long', 'lib/netio.c')
    calls = re.findall(r'loop_long\(([^)]*)\)\s*;', nr)
    if re.search(r'loop_long\(int\s+has_cr\s*,\s*const\s+int\s+fatal\)', ll) and \
       re.search(r'linenlen\s*=\s*readinput\(lineinbuf,\s*sizeof\(lineinbuf\),\s*fatal\);', ll) and \
       [c.replace(' ', '') for c in calls] == ['0,fatal', '1,fatal']:
        out += _bool('ST_LOOPLONG_PASSES_FATAL', True)
    elif re.search(r'loop_long\(int\s+has_cr\)', ll) and \
         re.search(r'linenlen\s*=\s*readinput\(lineinbuf,\s*sizeof\(lineinbuf\),\s*1\);', ll) and \
         [c.replace(' ', '') for c in calls] == ['0', '1']:
        out += _bool('ST_LOOPLONG_PASSES_FATAL', False)
    else:
        raise TranslateError('loop_long: how it calls readinput() is not understood')
    if not re.search(r'if\s*\(linenlen\s*==\s*\(size_t\)\s*-1\)\s*\{\s*linenlen\s*=\s*0;\s*return;\s*\}', ll):
        raise TranslateError('loop_long: the failed-read path changed')

    # ---------------------------------------------------------------- conn_mx.c
    cm = strip_comments(read(repo, 'qremote/conn_mx.c'))
    qn = func_body(cm, 'quitmsg_if_net', 'qremote/conn_mx.c')
    m = re.search(r'switch\s*\(error\)\s*\{((?:\s*case\s+-\w+\s*:)+)\s*close\(socketd\);\s*socketd\s*=\s*-1;(.*?)break;\s*default\s*:\s*quitmsg\(\);', qn, flags=re.S)
    if not m:
        raise TranslateError('quitmsg_if_net changed')
    if m.group(2).strip() == '':
        out += _bool('ST_QIN_FREES_SSL', False)
    elif re.fullmatch(r'\s*if\s*\(ssl\s*!=\s*NULL\)\s*\{\s*ssl_free\(ssl\);\s*ssl\s*=\s*NULL;\s*\}\s*', m.group(2)):
        out += _bool('ST_QIN_FREES_SSL', True)
    else:
        raise TranslateError('quitmsg_if_net: code after close() not understood')
    names = re.findall(r'case\s+-(\w+)', m.group(1))
    for nme in names:
        if nme not in ERRNO:
            raise TranslateError('quitmsg_if_net: unknown errno %s' % nme)
    out += 'Definition ST_QIN_CLOSE : list N := [%s]%%N.\n' % '; '.join(str(ERRNO[x]) for x in names)
    cx = func_body(cm, 'connect_mx', 'qremote/conn_mx.c')
    out += _z('ST_GREETING_OK', one(r'if\s*\(\(s\s*!=\s*(\d+)\)\s*\|\|\s*\(flagerr\s*!=\s*0\)\)', cx, 'connect_mx greeting code'))
    if re.search(r'tlsa\s*=\s*\(mx->name\s*==\s*NULL\)\s*\?\s*0\s*:\s*dnstlsa\(mx->name,\s*targetport,\s*&d\);\s*socketd\s*=\s*tryconn\(mx,', cx):
        out += _bool('ST_TLSA_OF_HEAD', True)      # asked for the first list entry, before tryconn() picks the host
    else:
        raise TranslateError('connect_mx: TLSA lookup changed')
    br = re.search(r'if\s*\(smtpext\s*&\s*esmtp_starttls\)\s*\{\s*flagerr\s*=\s*tls_init\(d,\s*tlsa\);(.*?)\}\s*else\s+if\s*\(expect_tls\)\s*\{(.*?)\}\s*else\s+if\s*\(tlsa\s*>\s*0\)\s*\{(.*?)\}\s*\}\s*while\s*\(socketd\s*<\s*0\);', cx, flags=re.S)
    if not br:
        raise TranslateError('connect_mx: STARTTLS / expect_tls / TLSA branches changed')
    a, b, c = br.group(1), br.group(2), br.group(3)
    if not re.search(r'if\s*\(flagerr\s*<\s*0\)\s*\{\s*daneinfo_free\(d,\s*tlsa\);\s*net_conn_shutdown\(shutdown_clean\);\s*\}\s*if\s*\(flagerr\s*!=\s*0\)\s*\{\s*quitmsg_if_net\(-flagerr\);\s*continue;\s*\}\s*flagerr\s*=\s*greeting\(\);\s*if\s*\(flagerr\s*<\s*0\)\s*\{\s*quitmsg_if_net\(flagerr\);\s*continue;\s*\}\s*else\s*\{\s*smtpext\s*=\s*flagerr;\s*\}', a):
        raise TranslateError('connect_mx: handling of the tls_init() result changed')
    for what, txt in (('expect_tls', b), ('tlsa', c)):
        if not re.search(r'log_writen\(LOG_WARNING,\s*dropmsg\);\s*quitmsg\(\);\s*continue;\s*$', txt.strip()):
            raise TranslateError('connect_mx: the %s branch no longer ends the connection' % what)
    if not re.search(r'flagerr\s*=\s*greeting\(\);\s*if\s*\(flagerr\s*<\s*0\)\s*\{\s*quitmsg_if_net\(flagerr\);\s*continue;\s*\}\s*smtpext\s*=\s*flagerr;\s*if\s*\(smtpext\s*&\s*esmtp_starttls\)', cx):
        raise TranslateError('connect_mx: first greeting() handling changed')

    # ---------------------------------------------------------------- qremote.c
    qc = strip_comments(read(repo, 'qremote/qremote.c'))
    qm = func_body(qc, 'quitmsg', 'qremote/qremote.c')
    out += _bytes('ST_CMD_QUIT', one(r'netwrite\("([^"]*)"\)', qm, 'quitmsg command'))
    if not re.search(r"do\s*\{\s*if\s*\(net_read\(0\)\)\s*\{.*?break;\s*\}\s*\}\s*while\s*\(\(linein\.len\s*>=\s*4\)\s*&&\s*\(linein\.s\[3\]\s*==\s*'-'\)\);\s*if\s*\(ssl\)\s*\{\s*ssl_free\(ssl\);\s*ssl\s*=\s*NULL;\s*\}\s*close\(socketd\);\s*socketd\s*=\s*-1;", qm, flags=re.S):
        raise TranslateError('quitmsg changed')
    out += _bool('ST_QUITMSG_RESETS_ROUTE', re.search(r'free_smtproute_vals\(\)', qm) is not None)
    sr = strip_comments(read(repo, 'qremote/smtproutes.c'))
    fv = func_body(sr, 'free_smtproute_vals', 'qremote/smtproutes.c')
    if not re.search(r'expect_tls\s*=\s*false;', fv) or not re.search(r'clientcertname\s*=\s*"control/clientcert\.pem";', fv):
        raise TranslateError('free_smtproute_vals changed')
    if not re.search(r'clientcertbuf\s*=\s*strdup\(v\);.*?expect_tls\s*=\s*!is_default_file;', func_body(sr, 'smtproute', 'qremote/smtproutes.c'), flags=re.S):
        raise TranslateError('smtproute: expect_tls no longer follows clientcert=')
    mn = func_body(qc, 'main', 'qremote/qremote.c')
    out += _bytes('ST_RPT_NOCONN', _firstword(one(r'i\s*=\s*connect_mx\(mx,\s*&outgoingip,\s*&outgoingip6\);\s*freeips\(mx\);\s*if\s*\(i\s*<\s*0\)\s*\{\s*write_status\("([^"]*)"\);\s*net_conn_shutdown\(shutdown_abort\);', mn, 'main: no connection report')))
    pm = re.search(r'net_conn_shutdown\(shutdown_abort\);\s*\}\s*(.*?)if\s*\(ssl\)\s*\{\s*successmsg\[3\]', mn[mn.index('connect_mx('):], flags=re.S)
    if not pm:
        raise TranslateError('main: code behind connect_mx() changed')
    if pm.group(1).strip() == '':
        out += _bool('ST_PINNED_NEEDS_TLS', False)
        out += _bytes('ST_RPT_PINNED', '')
    else:
        m4 = re.fullmatch(r'\s*if\s*\(\(ssl\s*==\s*NULL\)\s*&&\s*tls_cert_pinned\(\)\)\s*\{\s*const\s+char\s*\*logmsg\[\]\s*=\s*\{[^}]*\};\s*log_writen\(LOG_WARNING,\s*logmsg\);\s*write_status\("([^"]*)"\);\s*net_conn_shutdown\(shutdown_clean\);\s*\}\s*', pm.group(1))
        if not m4:
            raise TranslateError('main: code between connect_mx() and the transmission not understood')
        pf = func_body(sc, 'tls_cert_pinned', 'qremote/starttlsr.c')
        nf = func_body(sc, 'tls_servercert_name', 'qremote/starttlsr.c')
        if not re.search(r"\(void\)\s*tls_servercert_name\(servercert\);\s*return\s*\(\*servercert\s*!=\s*'\\0'\);", pf) or \
           not re.search(r"if\s*\(stat\(servercert,\s*&st\)\)\s*\*servercert\s*=\s*'\\0';", nf) or \
           not re.search(r"if\s*\(partner_fqdn\s*==\s*NULL\)\s*\{\s*\*servercert\s*=\s*'\\0';", nf) or \
           not re.search(r'const\s+size_t\s+fqlen\s*=\s*tls_servercert_name\(servercert\);', ti):
            raise TranslateError('tls_cert_pinned / tls_servercert_name changed')
        out += _bool('ST_PINNED_NEEDS_TLS', True)
        out += _bytes('ST_RPT_PINNED', _firstword(m4.group(1)))
    if not re.search(r'if\s*\(send_envelope\(recodeflag,\s*argv\[2\],\s*argc\s*-\s*3,\s*argv\s*\+\s*3\)\s*!=\s*0\)\s*net_conn_shutdown\(shutdown_clean\);', mn):
        raise TranslateError('main: send_envelope call changed')

    # ---------------------------------------------------------------- reply.c
    rp = strip_comments(read(repo, 'qremote/reply.c'))
    de = func_body(rp, 'dieerror', 'qremote/reply.c')
    out += _bytes('ST_RPT_DIED', _firstword(one(r'case\s+ECONNRESET\s*:\s*write_status\("([^"]*)"\)', de, 'dieerror ECONNRESET text')))
    if not re.search(r'net_conn_shutdown\(shutdown_abort\)', de):
        raise TranslateError('dieerror: no longer shutdown_abort')
    return out

GENERATORS = {'GenStarttls.v': gen_starttls}

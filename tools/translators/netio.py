"""lib/netio.c -> Gen/GenNetio.v (constants of net_writen and the line buffer)"""
import re
from trlib import *

# ---------------------------------------------------------------- netio.c
def gen_netio(repo):
    rel = 'lib/netio.c'
    src = strip_comments(read(repo, rel))
    nw = func_body(src, 'net_writen', rel)
    c = {}
    c['NW_MSG'] = one(r'char\s+msg\[(\d+)\]\s*;', nw, 'net_writen msg[]')
    c['NW_FLUSH_MARGIN'] = one(r'len\s*\+\s*l\s*>\s*sizeof\(msg\)\s*-\s*(\d+)', nw, 'net_writen flush test')
    c['NW_LONG_ADD'] = one(r'if\s*\(\s*l\s*\+\s*(\d+)\s*>\s*sizeof\(msg\)\s*\)', nw, 'net_writen long-part test')
    c['NW_WIN_MARGIN'] = one(r'while\s*\(\s*l\s*>\s*off\s*\+\s*sizeof\(msg\)\s*-\s*(\d+)\s*\)', nw, 'net_writen outer while')
    c['NW_SCAN_MARGIN'] = one(r'nsp\s*-\s*s\[i\]\s*-\s*off\s*<\s*sizeof\(msg\)\s*-\s*(\d+)', nw, 'net_writen inner while')
    c['NW_BRUTE_MARGIN'] = one(r'm\s*=\s*sizeof\(msg\)\s*-\s*(\d+)\s*;', nw, 'net_writen brute-force split')
    c['NW_OFF_BACK'] = one(r'off\s*\+=\s*m\s*-\s*(\d+)\s*;', nw, 'net_writen off advance')
    c['NW_HDR'] = one(r'memcpy\(\s*msg\s*\+\s*(\d+)\s*,\s*s\[i\]\s*\+\s*off\s*,\s*m\s*\)', nw, 'net_writen memcpy dest')
    c['NW_LEN_RESET'] = one(r'\n\s*len\s*=\s*(\d+)\s*;', nw, 'net_writen len reset')
    # structural facts the hand model relies on (presence tests; their absence is a broken tie)
    for pat, what in [
        (r"msg\[3\]\s*=\s*'-'\s*;", "continuation mark msg[3]='-'"),
        (r"msg\[len\+\+\]\s*=\s*'\\r'\s*;\s*msg\[len\+\+\]\s*=\s*'\\n'\s*;", 'CRLF append'),
        (r"msg\[3\]\s*=\s*c\s*;", 'restore of msg[3]'),
        (r"strchr\(\s*s\[i\]\s*\+\s*off\s*,\s*' '\s*\)", 'blank search from off'),
    ]:
        if not re.search(pat, nw):
            raise TranslateError('net_writen: %s not found' % what)
    lb = one(r'static\s+char\s+lineinbuf\[(\d+)\]\s*;', src, 'lineinbuf size')
    c['LINEINBUF'] = lb
    out = HEADER % rel
    for k, v in c.items():
        out += 'Definition %s : nat := %s.\n' % (k, v)
    return out


GENERATORS = {'GenNetio.v': gen_netio}

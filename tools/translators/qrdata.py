"""qremote/qrdata.c, qremote/mime.c -> Gen/GenQrdata.v (buffer sizes, thresholds, flag values and literal texts of the DATA sender)"""
import os, re
from trlib import *


def _strlits(text):
    """concatenation of the adjacent C string literals in text (macros QSMTPVERSION allowed) -> list of pieces"""
    return re.findall(r'"((?:[^"\\]|\\.)*)"|([A-Z_]+)', text)


def gen_qrdata(repo):
    rel = 'qremote/qrdata.c'
    src = strip_comments(read(repo, rel))
    c = {}
    # ---- need_recode
    nr = func_body(src, 'need_recode', rel)
    c['NR_LIMIT'] = allsame(r'llen\s*>\s*(\d+)', nr, 'need_recode line limit')
    c['NR_SHORT'] = one(r'len\s*-\s*pos\s*<\s*(\d+)', nr, 'need_recode short rest test')
    if not re.search(r'\(signed char\)\s*buf\[pos\]\s*\)\s*<=\s*0', nr):
        raise TranslateError('need_recode: 8bit test "(signed char)buf[pos] <= 0" not found')
    if not re.search(r'\}\s*if\s*\(\s*llen\s*>\s*\d+\s*\)\s*res\s*\|=\s*long_flag\s*;\s*return res', nr):
        raise TranslateError('need_recode: test of the last line after the loop not found (model is of the repaired code)')
    # ---- send_plain
    sp = func_body(src, 'send_plain', rel)
    c['SP_BUF'] = one(r'char\s+sendbuf\[(\d+)\]', sp, 'send_plain sendbuf')
    c['SP_MARGIN'] = one(r'idx\s*\+\s*chunk\s*<\s*sizeof\(sendbuf\)\s*-\s*(\d+)', sp, 'send_plain margin')
    # ---- wrap_line
    wl = func_body(src, 'wrap_line', rel)
    c['WL_BUF'] = one(r'char\s+sendbuf\[(\d+)\]', wl, 'wrap_line sendbuf')
    c['WL_LONG'] = one(r'while\s*\(\s*off\s*>=\s*(\d+)\s*\)', wl, 'wrap_line outer loop')
    c['WL_PART'] = one(r'off_t\s+partoff\s*=\s*(\d+)', wl, 'wrap_line partoff')
    c['WL_SHORT'] = one(r'partoff\s*<\s*(\d+)', wl, 'wrap_line short part')
    c['WL_LATE'] = one(r'off_t\s+lateoff\s*=\s*(\d+)', wl, 'wrap_line lateoff')
    c['WL_LATEMAX'] = allsame(r'lateoff\s*<\s*(\d+)', wl, 'wrap_line lateoff limit', 2)
    c['WL_FLUSH_MARGIN'] = one(r'partoff\s*\+\s*bo\s*>=\s*sizeof\(sendbuf\)\s*-\s*(\d+)', wl, 'wrap_line flush margin')
    c['WL_END_MARGIN'] = one(r'\boff\s*\+\s*bo\s*>=\s*sizeof\(sendbuf\)\s*-\s*(\d+)', wl, 'wrap_line end margin')
    sw = func_body(src, 'send_wrapped', rel)
    c['SW_LIMIT'] = one(r'\*ll\s*<\s*(\d+)', sw, 'send_wrapped limit')
    # ---- recode_qp
    rq = func_body(src, 'recode_qp', rel)
    c['QP_BUF'] = one(r'char\s+sendbuf\[(\d+)\]', rq, 'recode_qp sendbuf')
    c['QP_MARGIN'] = one(r'idx\s*\+\s*chunk\s*<\s*sizeof\(sendbuf\)\s*-\s*(\d+)', rq, 'recode_qp margin')
    c['QP_SOFT'] = one(r'llen\s*>\s*(\d+)', rq, 'recode_qp soft break column')
    hexs = one(r'hexchars\[\]\s*=\s*"([^"]*)"', rq, 'recode_qp hexchars')
    # ---- mime.c
    mrel = 'qremote/mime.c'
    msrc = strip_comments(read(repo, mrel))
    im = func_body(msrc, 'is_multipart', mrel)
    c['BOUNDARY_MAX'] = one(r'boundary->len\s*>\s*(\d+)', im, 'is_multipart boundary length limit')
    # ---- flag values
    hdr = strip_comments(read(repo, 'include/qremote/qrdata.h'))
    c['RECODE_8BIT'] = int(one(r'recode_8bit\s*=\s*(0x[0-9a-fA-F]+|\d+)', hdr, 'recode_8bit'), 0)
    c['RECODE_LONG_LINE'] = int(one(r'recode_long_line\s*=\s*(0x[0-9a-fA-F]+|\d+)', hdr, 'recode_long_line'), 0)
    c['RECODE_LONG_HEADER'] = int(one(r'recode_long_header\s*=\s*(0x[0-9a-fA-F]+|\d+)', hdr, 'recode_long_header'), 0)
    if not re.search(r'recode_qp_body\s*=\s*recode_8bit\s*\|\s*recode_long_line\s*,', hdr):
        raise TranslateError('qrdata.h: recode_qp_body is not recode_8bit | recode_long_line')
    if not re.search(r'recode_long\s*=\s*recode_long_line\s*\|\s*recode_long_header\s*,', hdr):
        raise TranslateError('qrdata.h: recode_long is not recode_long_line | recode_long_header')
    gr = strip_comments(read(repo, 'include/qremote/greeting.h'))
    c['ESMTP_8BITMIME'] = int(one(r'esmtp_8bitmime\s*=\s*(0x[0-9a-fA-F]+|\d+)', gr, 'esmtp_8bitmime'), 0)
    # ---- send_qp: the per-part recode mask  nr_match = (smtpext & esmtp_8bitmime) ? A : B
    # A and B may be numbers or |-combinations of the recode_* enumerators; they are evaluated with the values of qrdata.h
    enum = {'recode_8bit': c['RECODE_8BIT'], 'recode_long_line': c['RECODE_LONG_LINE'], 'recode_long_header': c['RECODE_LONG_HEADER']}
    enum['recode_qp_body'] = enum['recode_8bit'] | enum['recode_long_line']
    enum['recode_long'] = enum['recode_long_line'] | enum['recode_long_header']
    def _mask(expr, what):
        v = 0
        for t in expr.replace('(', ' ').replace(')', ' ').split('|'):
            t = t.strip()
            if re.fullmatch(r'0x[0-9a-fA-F]+|\d+', t):
                v |= int(t, 0)
            elif t in enum:
                v |= enum[t]
            else:
                raise TranslateError('send_qp nr_match: cannot evaluate %r in %s' % (t, what))
        return v
    sqb = func_body(src, 'send_qp', rel)
    ma, mb = one(r'nr_match\s*=\s*\(\s*smtpext\s*&\s*esmtp_8bitmime\s*\)\s*\?\s*([^:;]+?)\s*:\s*([^;]+?)\s*;', sqb, 'send_qp nr_match')
    c['NR_MATCH_8BITMIME'] = _mask(ma, 'the 8BITMIME branch')
    c['NR_MATCH_7BIT'] = _mask(mb, 'the 7-bit branch')
    if not re.search(r'if\s*\(\s*nr\s*&\s*nr_match\s*\)\s*send_qp\(', sqb):
        raise TranslateError('send_qp: use of nr_match not in the expected form')
    # ---- send_data decision (structure test; the model follows it)
    sd = func_body(src, 'send_data', rel)
    if not re.search(r'\(\s*!\s*\(\s*smtpext\s*&\s*esmtp_8bitmime\s*\)\s*&&\s*\(\s*recodeflag\s*&\s*recode_8bit\s*\)\s*\)\s*\|\|\s*\(\s*recodeflag\s*&\s*recode_long\s*\)', sd):
        raise TranslateError('send_data: recode decision not in the expected form')
    # ---- literal texts
    rh = func_body(src, 'recodeheader', rel)
    lit = one(r'recodedstr\s*=\s*((?:\s*"(?:[^"\\]|\\.)*"|\s*QSMTPVERSION)+)\s*;', rh, 'recodeheader text')
    vh = read(os.path.join(os.path.dirname(os.path.dirname(os.path.dirname(os.path.abspath(__file__)))), 'harness', 'inc'), 'version.h')
    ver = one(r'#define\s+QSMTPVERSION\s+"([^"]*)"', vh, 'harness QSMTPVERSION')
    text = []
    for s, mac in _strlits(lit):
        if mac:
            if mac != 'QSMTPVERSION':
                raise TranslateError('recodeheader: unknown macro %s' % mac)
            text += [ord(ch) for ch in ver]
        else:
            text += c_unescape(s)
    sq = func_body(src, 'send_qp', rel)
    pre = one(r'netwrite\("((?:[^"\\]|\\.)*preamble(?:[^"\\]|\\.)*)"\)', sq, 'send_qp preamble text')
    epi = one(r'netwrite\("((?:[^"\\]|\\.)*epilogue(?:[^"\\]|\\.)*)"\)', sq, 'send_qp epilogue text')
    out = HEADER % (rel + ', ' + mrel + ', include/qremote/qrdata.h, include/qremote/greeting.h')
    for k, v in c.items():
        out += 'Definition %s : nat := %s.\n' % (k, v)
    out += 'Definition QP_HEXCHARS : list N := %s.\n' % coq_bytes([ord(ch) for ch in hexs])
    out += 'Definition RECODED_STR : list N := %s.\n' % coq_bytes(text)
    out += 'Definition PREAMBLE_TXT : list N := %s.\n' % coq_bytes(c_unescape(pre))
    out += 'Definition EPILOGUE_TXT : list N := %s.\n' % coq_bytes(c_unescape(epi))
    return out


GENERATORS = {'GenQrdata.v': gen_qrdata}

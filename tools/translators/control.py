"""lib/control.c, lib/match.c, qsmtpd/antispam.c -> Gen/GenControl.v
(character constants, striptab modes, word size, prefix bounds the C16 theorems hinge on)"""
import re
from trlib import *


def ch(lit):
    """value of the body of a C character literal"""
    v = c_unescape(lit)
    if len(v) != 1:
        raise TranslateError('bad character literal %r' % lit)
    return v[0]

CH = r"'(\\?[^'])'"


def need(pat, text, what, flags=0):
    if not re.search(pat, text, flags):
        raise TranslateError('%s not found' % what)


def gen_control(repo):
    out = HEADER % 'lib/control.c, lib/match.c, qsmtpd/antispam.c'
    c = {}
    # ------------------------------------------------------------ lib/control.c
    rel = 'lib/control.c'
    src = strip_comments(read(repo, rel))

    fd = func_body(src, 'finddomain', rel)
    c['FD_LF'] = ch(one(r'memchr\(\s*cur\s*,\s*' + CH + r'\s*,\s*size\s*-\s*pos\s*\)', fd, 'finddomain memchr'))
    c['FD_COMMENT'] = ch(one(r'if\s*\(\s*\*cur\s*!=\s*' + CH + r'\s*\)', fd, 'finddomain comment test'))
    bl = one(r'while\s*\(\s*len\s*&&\s*\(\s*\(\s*\*\(cur \+ len - 1\)\s*==\s*' + CH + r'\s*\)\s*\|\|\s*\(\s*\*\(cur \+ len - 1\)\s*==\s*' + CH + r'\s*\)\s*\)\s*\)\s*len--;',
             fd, 'finddomain trailing blank loop')
    c['FD_BLANK_A'], c['FD_BLANK_B'] = ch(bl[0]), ch(bl[1])
    c['FD_DOT'] = ch(one(r'if\s*\(\s*\*cur\s*==\s*' + CH + r'\s*\)', fd, 'finddomain dot test'))
    # the bounded newline skip (fix of F-C16-1) and the structure the model transcribes
    skipc = one(r'while\s*\(\s*\(\s*cur\s*<\s*buf\s*\+\s*size\s*\)\s*&&\s*\(\s*\*cur\s*==\s*' + CH + r'\s*\)\s*\)\s*\{\s*cur\+\+;\s*\}',
                fd, 'finddomain bounded newline skip')
    if ch(skipc) != c['FD_LF']:
        raise TranslateError('finddomain: skip loop and memchr use different line terminators')
    need(r'pos\s*=\s*cur\s*-\s*buf;\s*if\s*\(\s*pos\s*==\s*size\s*\)\s*cur\s*=\s*NULL;', fd, 'finddomain: end test after the newline skip')
    need(r'if\s*\(\s*!buf\s*\|\|\s*\(\s*size\s*<=\s*0\s*\)\s*\)\s*return\s+0;', fd, 'finddomain: empty buffer test')
    need(r'if\s*\(\s*dl\s*>\s*len\s*\)\s*\{\s*if\s*\(\s*!strncasecmp\(\s*domain\s*\+\s*dl\s*-\s*len\s*,\s*cur\s*,\s*len\s*\)\s*\)', fd,
         'finddomain: suffix comparison (dl > len)')
    need(r'if\s*\(\s*\(\s*dl\s*==\s*len\s*\)\s*&&\s*!strncasecmp\(\s*domain\s*,\s*cur\s*,\s*len\s*\)\s*\)', fd, 'finddomain: exact comparison (dl == len)')
    need(r'\}\s*while\s*\(\s*cur\s*\)\s*;', fd, 'finddomain: do-while (cur)')

    ll = func_body(src, 'lloadfilefd', rel)
    m = one(r'if\s*\(\s*\(\s*inbuf\[j\]\s*==\s*' + CH + r'\s*\)\s*&&\s*\(\s*!j\s*\|\|\s*\(\s*inbuf\[j\s*-\s*1\]\s*!=\s*' + CH + r'\s*\)\s*\)\s*\)', ll,
            'lloadfilefd comment test')
    c['LL_COMMENT'], c['LL_ESC'] = ch(m[0]), ch(m[1])
    m = one(r"while\s*\(\s*\(\s*inbuf\[j\]\s*!=\s*'\\0'\s*\)\s*&&\s*\(\s*inbuf\[j\]\s*!=\s*" + CH + r"\s*\)\s*\)\s*inbuf\[j\+\+\]\s*=\s*'\\0';", ll,
            'lloadfilefd comment strip loop')
    c['LL_LF'] = ch(m)
    m = one(r'else\s+if\s*\(\s*\(\s*striptab\s*&\s*(\d+)\s*\)\s*&&\s*\(\s*\(\s*inbuf\[j\]\s*==\s*' + CH + r'\s*\)\s*\|\|\s*\(\s*inbuf\[j\]\s*==\s*' + CH + r'\s*\)\s*\)\s*\)',
            ll, 'lloadfilefd blank test')
    c['LL_STRIP_BIT'] = int(m[0]); c['LL_BLANK_A'] = ch(m[1]); c['LL_BLANK_B'] = ch(m[2])
    m = one(r"do\s*\{\s*inbuf\[j\+\+\]\s*=\s*'\\0';\s*\}\s*while\s*\(\s*\(\s*inbuf\[j\]\s*==\s*" + CH + r"\s*\)\s*\|\|\s*\(\s*inbuf\[j\]\s*==\s*" + CH + r"\s*\)\s*\)\s*;", ll,
            'lloadfilefd blank run loop')
    if (ch(m[0]), ch(m[1])) != (c['LL_BLANK_A'], c['LL_BLANK_B']):
        raise TranslateError('lloadfilefd: blank test and blank run loop disagree')
    m = one(r"if\s*\(\s*\(\s*inbuf\[j\]\s*!=\s*'\\0'\s*\)\s*&&\s*\(\s*inbuf\[j\]\s*!=\s*" + CH + r"\s*\)\s*\)\s*\{\s*free\(inbuf\);\s*errno\s*=\s*EINVAL;\s*return\s+-1;", ll,
            'lloadfilefd inner blank rejection')
    if ch(m) != c['LL_LF']:
        raise TranslateError('lloadfilefd: line terminators disagree')
    m = one(r"else\s+if\s*\(\s*inbuf\[j\]\s*==\s*" + CH + r"\s*\)\s*\{\s*inbuf\[j\+\+\]\s*=\s*'\\0';", ll, 'lloadfilefd newline branch')
    if ch(m) != c['LL_LF']:
        raise TranslateError('lloadfilefd: line terminators disagree (newline branch)')
    c['LL_COMPACT_BIT'] = int(one(r'if\s*\(\s*striptab\s*&\s*(\d+)\s*\)\s*\{\s*j\s*=\s*compact_buffer', ll, 'lloadfilefd compaction test'))
    need(r"inbuf\[oldlen\]\s*=\s*'\\0';", ll, 'lloadfilefd: terminator store')
    need(r'if\s*\(\s*!striptab\s*\)\s*\{\s*\*buf\s*=\s*inbuf;\s*return\s+oldlen;', ll, 'lloadfilefd: raw mode')

    # statements the literal array model (Model/LoadListArr.v) transcribes
    cbf = func_body(src, 'compact_buffer', rel)
    need(r'const\s+size_t\s+jlen\s*=\s*strnlen\(\s*inbuf\s*\+\s*j\s*,\s*oldlen\s*-\s*j\s*\)\s*;', cbf, 'compact_buffer: strnlen')
    need(r'if\s*\(\s*j\s*!=\s*k\s*\)\s*memmove\(\s*inbuf\s*\+\s*k\s*,\s*inbuf\s*\+\s*j\s*,\s*jlen\s*\)\s*;', cbf, 'compact_buffer: memmove')
    need(r"j\s*\+=\s*jlen\s*\+\s*1\s*;\s*k\s*\+=\s*jlen\s*;\s*inbuf\[k\+\+\]\s*=\s*'\\0'\s*;", cbf, 'compact_buffer: index updates and terminator')
    need(r'if\s*\(\s*k\s*!=\s*oldlen\s*\+\s*1\s*\)\s*\{\s*\*buf\s*=\s*realloc\(\s*inbuf\s*,\s*k\s*\)\s*;', cbf, 'compact_buffer: shrink')
    lfd = func_body(src, 'loadlistfd', rel)
    need(r"const\s+size_t\s+l\s*=\s*strlen\(\s*buf\s*\+\s*k\s*\)\s*;\s*memset\(\s*buf\s*\+\s*k\s*,\s*'\\0'\s*,\s*l\s*\)\s*;\s*k\s*\+=\s*l\s*;\s*haserr\s*=\s*1\s*;", lfd, 'loadlistfd: rejected entry wiped completely')
    need(r'k\s*\+=\s*strlen\(\s*buf\s*\+\s*k\s*\)\s*\+\s*1\s*;', lfd, 'loadlistfd: step to the next entry')
    need(r'if\s*\(\s*haserr\s*\)\s*i\s*=\s*compact_buffer\(\s*&buf\s*,\s*buf\s*,\s*datalen\s*\)\s*;\s*else\s+i\s*=\s*datalen\s*;', lfd, 'loadlistfd: second compaction')
    need(r'\*bufa\s*=\s*data_array\(\s*j\s*,\s*i\s*,\s*buf\s*,\s*i\s*\)\s*;', lfd, 'loadlistfd: data_array call')
    da = func_body(src, 'data_array', rel)
    need(r'size_t\s+psize\s*=\s*\(\s*entries\s*\+\s*1\s*\)\s*\*\s*sizeof\(char \*\*\)\s*;', da, 'data_array: psize')
    need(r'size_t\s+dsize\s*=\s*entries\s*\+\s*datalen\s*;', da, 'data_array: dsize')
    need(r'void\s*\*buf\s*=\s*\(void \*\)\(\(\(uintptr_t\)ret\)\s*\+\s*psize\)\s*;\s*memmove\(\s*buf\s*,\s*ret\s*,\s*oldlen\s*\)\s*;', da, 'data_array: move behind the table')

    c['LOADLIST_MODE'] = int(one(r'lloadfilefd\(\s*fd\s*,\s*&buf\s*,\s*(\d+)\s*\)', func_body(src, 'loadlistfd', rel), 'loadlistfd mode'))
    li = func_body(src, 'loadintfd', rel)
    c['LOADINT_MODE'] = int(one(r'lloadfilefd\(\s*fd\s*,\s*&tmpbuf\s*,\s*(\d+)\s*\)', li, 'loadintfd mode'))
    c['LOADINT_BASE'] = int(one(r'strtoul\(\s*tmpbuf\s*,\s*&l\s*,\s*(\d+)\s*\)', li, 'loadintfd strtoul base'))
    # the strict form of loadintfd (fixes/C16-loadint-strict.diff): one line, starts with a digit, no overflow
    m = one(r"\(\s*strlen\(tmpbuf\)\s*\+\s*1\s*!=\s*i\s*\)\s*\|\|\s*\(\s*\*tmpbuf\s*<\s*" + CH + r"\s*\)\s*\|\|\s*\(\s*\*tmpbuf\s*>\s*" + CH + r"\s*\)", li,
            'loadintfd single line / leading digit test')
    c['LOADINT_DIGIT_LO'], c['LOADINT_DIGIT_HI'] = ch(m[0]), ch(m[1])
    need(r'errno\s*=\s*0;\s*\*result\s*=\s*strtoul', li, 'loadintfd: errno reset before strtoul')
    need(r'if\s*\(\s*\*l\s*\|\|\s*\(\s*errno\s*==\s*ERANGE\s*\)\s*\)\s*\{\s*errno\s*=\s*EINVAL;', li, 'loadintfd: trailing garbage / ERANGE test')
    c['LOADONELINER_MODE'] = int(one(r'lloadfilefd\(\s*fd\s*,\s*buf\s*,\s*(\d+)\s*\)', func_body(src, 'loadonelinerfd', rel), 'loadonelinerfd mode'))

    # ------------------------------------------------------------ lib/match.c
    rel = 'lib/match.c'
    src = strip_comments(read(repo, rel))
    m4 = func_body(src, 'ip4_matchnet', rel)
    m6 = func_body(src, 'ip6_matchnet', rel)
    w4 = one(r'htonl\(\s*-1\s*-\s*\(\s*\(\s*1U\s*<<\s*\(\s*(\d+)\s*-\s*mask\s*\)\s*\)\s*-\s*1\s*\)\s*\)', m4, 'ip4_matchnet mask expression')
    w6 = allsame(r'mask\s*[/%]\s*(\d+)', m6, 'ip6_matchnet word size')
    w6b = one(r'htonl\(\s*-1\s*-\s*\(\s*\(\s*1U\s*<<\s*\(\s*(\d+)\s*-\s*\(\s*mask\s*%\s*\d+\s*\)\s*\)\s*\)\s*-\s*1\s*\)\s*\)', m6, 'ip6_matchnet mask expression')
    if not (w4 == w6 == w6b):
        raise TranslateError('match.c: word sizes disagree: %s %s %s' % (w4, w6, w6b))
    c['MN_WORD'] = int(w4)
    c['MN_V4_WORD'] = int(one(r'ip->s6_addr32\[(\d+)\]\s*&\s*m\.s_addr', m4, 'ip4_matchnet word index'))
    need(r'if\s*\(\s*mask\s*==\s*0\s*\)\s*return\s+1;', m4, 'ip4_matchnet: mask 0 test')
    c['MN_V6_WORDS'] = int(one(r'for\s*\(\s*int\s+i\s*=\s*(\d+)\s*;\s*i\s*>=\s*0\s*;\s*i--\s*\)', m6, 'ip6_matchnet compare loop')) + 1
    need(r'for\s*\(\s*int\s+i\s*=\s*0;\s*i\s*<\s*mask\s*/\s*\d+;\s*\+\+i\s*\)\s*\{\s*maskv6\.s6_addr32\[i\]\s*=\s*-1;', m6, 'ip6_matchnet: full word loop')
    need(r'if\s*\(\s*\(\s*mask\s*%\s*\d+\s*\)\s*!=\s*0\s*\)\s*maskv6\.s6_addr32\[mask\s*/\s*\d+\]\s*=', m6, 'ip6_matchnet: partial word store')

    md = func_body(src, 'matchdomain', rel)
    c['MD_DOT'] = ch(one(r'if\s*\(\s*\*expr\s*==\s*' + CH + r'\s*\)', md, 'matchdomain dot test'))
    need(r'if\s*\(\s*el\s*>\s*dl\s*\)\s*return\s+0;', md, 'matchdomain: length test')
    need(r'return\s+!strcasecmp\(\s*domain\s*\+\s*\(\s*dl\s*-\s*el\s*\)\s*,\s*expr\s*\)\s*;', md, 'matchdomain: suffix comparison')
    need(r'else\s+if\s*\(\s*el\s*==\s*dl\s*\)\s*\{\s*return\s+!strcasecmp\(\s*domain\s*,\s*expr\s*\)\s*;', md, 'matchdomain: exact comparison')

    # ------------------------------------------------------------ qsmtpd/antispam.c
    rel = 'qsmtpd/antispam.c'
    src = strip_comments(read(repo, rel))
    cb = func_body(src, 'check_ipbl_file', rel)
    c['IPBL_REC_EXTRA'] = int(one(r'recordlen\s*=\s*iplen\s*\+\s*(\d+)\s*;', cb, 'check_ipbl_file record length'))
    c['IPBL_BYTE_BITS'] = int(one(r'maskmax\s*=\s*\(unsigned int\)\s*\(\s*(\d+)\s*\*\s*iplen\s*\)', cb, 'check_ipbl_file maskmax'))
    c['IPBL_MINMASK'] = int(one(r'if\s*\(\s*\(\s*netmask\s*<\s*(\d+)\s*\)\s*\|\|\s*\(\s*netmask\s*>\s*maskmax\s*\)\s*\)\s*return\s+-1;', cb, 'check_ipbl_file prefix test'))
    need(r'if\s*\(\s*flen\s*%\s*recordlen\s*\)\s*return\s+-1;', cb, 'check_ipbl_file: size test')
    # validation loop first (fix of F-C16-2), matching loop second
    loops = [mm.start() for mm in re.finditer(r'for\s*\(\s*i\s*=\s*0;\s*i\s*<\s*flen;\s*i\s*\+=\s*recordlen\s*\)', cb)]
    if len(loops) != 2:
        raise TranslateError('check_ipbl_file: expected a validation loop and a matching loop, found %d loops' % len(loops))
    v = cb.find('netmask > maskmax'); mt = cb.find('(*matchfunc)')
    if not (loops[0] < v < loops[1] < mt):
        raise TranslateError('check_ipbl_file: the prefix validation is not a separate loop in front of the matching loop')
    need(r'netmask\s*=\s*buf\[i\s*\+\s*iplen\]', cb[loops[0]:loops[1]], 'check_ipbl_file: validation reads buf[i + iplen]')
    need(r'check_ipbl_file\(\s*sizeof\(struct in_addr\)\s*,\s*len\s*,\s*buf\s*,\s*\(ip_matchnet\)ip4_matchnet\s*\)', src, 'check_ip4')
    need(r'check_ipbl_file\(\s*sizeof\(struct in6_addr\)\s*,\s*len\s*,\s*buf\s*,\s*\(ip_matchnet\)ip6_matchnet\s*\)', src, 'check_ip6')

    chars = {'MD_DOT', 'LOADINT_DIGIT_LO', 'LOADINT_DIGIT_HI', 'FD_LF', 'FD_COMMENT', 'FD_BLANK_A', 'FD_BLANK_B', 'FD_DOT', 'LL_COMMENT', 'LL_ESC', 'LL_LF', 'LL_BLANK_A', 'LL_BLANK_B'}
    for k, v in c.items():
        out += 'Definition %s : %s := %d%s.\n' % (k, 'N' if k in chars else 'nat', v, '%N' if k in chars else '')
    return out


GENERATORS = {'GenControl.v': gen_control}

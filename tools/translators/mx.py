"""include/qdns.h, qremote/conn.c, qremote/qremote.c, qremote/smtproutes.c, lib/dns_helpers.c, lib/ipme.c -> Gen/GenMx.v
(the special MX priorities, the 'still untried' threshold of tryconn, the port on which the local addresses are
filtered, the default port, the smtproutes.d tag table and a few structural facts the hand-written model relies on)"""
import re, subprocess
from trlib import *


def gen_mx(repo):
    c = {}
    # --- include/qdns.h: enum mx_special_priorities
    rel = 'include/qdns.h'
    h = strip_comments(read(repo, rel))
    for k in ('IMPLICIT', 'USED', 'CURRENT'):
        c['MX_PRIORITY_' + k] = one(r'MX_PRIORITY_%s\s*=\s*(\d+)\s*[,}\n]' % k, h, rel + ' MX_PRIORITY_' + k)
    # --- qremote/conn.c: tryconn
    rel = 'qremote/conn.c'
    src = strip_comments(read(repo, rel))
    tc = func_body(src, 'tryconn', rel)
    c['TRYCONN_FRESH_MAX'] = one(r'else\s+if\s*\(\s*thisip->priority\s*<=\s*(\d+)\s*\)', tc, 'tryconn: test for an untried entry')
    for pat, what in [
        (r'if\s*\(\s*thisip->priority\s*==\s*MX_PRIORITY_CURRENT\s*\)', 'test for the current entry'),
        (r'if\s*\(\s*cur_s\s*<\s*thisip->count\s*-\s*1\s*\)\s*\{\s*cur_s\+\+\s*;\s*break\s*;', 'advance inside the current entry'),
        (r'thisip->priority\s*=\s*MX_PRIORITY_USED\s*;', 'USED mark'),
        (r'cur_s\s*=\s*0\s*;\s*thisip->priority\s*=\s*MX_PRIORITY_CURRENT\s*;\s*break\s*;', 'CURRENT mark'),
        (r'if\s*\(\s*!thisip\s*\)\s*return\s+-ENOENT\s*;', '-ENOENT when the scan finds nothing'),
        (r'sd\s*=\s*conn\(\s*thisip->addr\[cur_s\]\s*,\s*outip\s*\)\s*;\s*if\s*\(\s*sd\s*>=\s*0\s*\)\s*\{\s*getrhost\(\s*thisip\s*,\s*cur_s\s*\)\s*;\s*return\s+sd\s*;', 'connect and return'),
    ]:
        if not re.search(pat, tc):
            raise TranslateError('tryconn: %s not found' % what)
    c['DEFAULT_PORT'] = one(r'unsigned\s+int\s+targetport\s*=\s*(\d+)\s*;', src, 'conn.c targetport initialiser')
    # --- qremote/qremote.c: main(): filter only for port 25, then sort, then connect
    rel = 'qremote/qremote.c'
    q = strip_comments(read(repo, rel))
    m = re.search(r'getmxlist\(\s*argv\[1\]\s*,\s*&mx\s*\)\s*;\s*if\s*\(\s*targetport\s*==\s*(\d+)\s*\)\s*\{\s*mx\s*=\s*filter_my_ips\(\s*mx\s*\)\s*;'
                  r'\s*if\s*\(\s*mx\s*==\s*NULL\s*\)\s*\{.*?net_conn_shutdown\(\s*shutdown_abort\s*\)\s*;\s*\}\s*\}\s*sortmx\(\s*&mx\s*\)\s*;'
                  r'\s*i\s*=\s*connect_mx\(\s*mx\s*,', q, flags=re.S)
    if not m:
        raise TranslateError('qremote.c main(): sequence getmxlist / filter_my_ips on port N / sortmx / connect_mx not found')
    c['FILTER_PORT'] = m.group(1)
    # --- qremote/smtproutes.c: default port
    rel = 'qremote/smtproutes.c'
    s = strip_comments(read(repo, rel))
    c['ROUTE_DEFAULT_PORT'] = allsame(r'\*targetport\s*=\s*(\d+)\s*;', s, 'smtproutes.c default port', 2)
    c['ROUTE_PORT_LIMIT'] = one(r'\*targetport\s*>=\s*(\d+)\s*\)', s, 'smtproutes.c port limit')
    fn = one(r'char\s+fnbuf\[\s*DOMAINNAME_MAX\s*\+\s*(\d+)\s*\]\s*;', s, 'smtproutes.c fnbuf size')
    dm = one(r'#define\s+DOMAINNAME_MAX\s+(\d+)', h, 'qdns.h DOMAINNAME_MAX')
    c['ROUTE_FNBUF_SIZE'] = str(int(dm) + int(fn))
    if not re.search(r"fnbuf\[0\]\s*=\s*'\*'\s*;\s*strcpy\(\s*fnbuf\s*\+\s*1\s*,\s*dot\s*\)\s*;", s):
        raise TranslateError('smtproutes.c: construction of the wildcard file name not found')
    if not re.search(r'fn\s*=\s*"default"\s*;', s):
        raise TranslateError('smtproutes.c: default file name not found')
    pp = subprocess.run(['gcc', '-E', '-P', '-'], input=b'#include <limits.h>\nXXVAL NAME_MAX\n', stdout=subprocess.PIPE, stderr=subprocess.DEVNULL)
    mm2 = re.search(r'XXVAL\s+(\d+)', pp.stdout.decode('latin-1'))
    if not mm2:
        raise TranslateError('NAME_MAX: cannot evaluate with gcc -E')
    c['SYS_NAME_MAX'] = mm2.group(1)
    tags = one(r'static\s+const\s+char\s*\*\s*tags\[\]\s*=\s*\{(.*?)\}\s*;', s, 'smtproutes.c tags[]', re.S)
    taglist = re.findall(r'"([^"]*)"', tags)
    if not taglist or not re.search(r',\s*NULL\s*$', tags.strip()):
        raise TranslateError('smtproutes.c tags[]: cannot parse')
    # --- lib/ipme.c uses IN_LOOPBACKNET from the system headers
    rel = 'lib/ipme.c'
    ip = strip_comments(read(repo, rel))
    if not re.search(r's6_addr\[12\]\s*!=\s*IN_LOOPBACKNET', ip):
        raise TranslateError('ipme.c: loopback net test not found')
    p = subprocess.run(['gcc', '-E', '-P', '-'], input=b'#include <netinet/in.h>\nXXVAL IN_LOOPBACKNET\n', stdout=subprocess.PIPE, stderr=subprocess.DEVNULL)
    mm = re.search(r'XXVAL\s+(\d+)', p.stdout.decode('latin-1'))
    if not mm:
        raise TranslateError('IN_LOOPBACKNET: cannot evaluate with gcc -E')
    c['IN_LOOPBACKNET'] = mm.group(1)
    # --- lib/dns_helpers.c: which way round ip6_sort orders (IPV4ONLY is not defined in the checked configuration)
    rel = 'lib/dns_helpers.c'
    d = strip_comments(read(repo, rel))
    i6 = func_body(d, 'ip6_sort', rel)
    if not re.search(r'#ifdef\s+IPV4ONLY\s+const\s+int\s+ret\s*=\s*-1\s*;\s*#else\s+const\s+int\s+ret\s*=\s*1\s*;\s*#endif', i6):
        raise TranslateError('ip6_sort: direction constants not found')
    sm = func_body(d, 'sortmx', rel)
    if not re.search(r'qsort\(\s*next->addr\s*,\s*next->count\s*,\s*sizeof\(\*next->addr\)\s*,\s*ip6_sort\s*\)', sm):
        raise TranslateError('sortmx: qsort of the addresses of every entry not found')
    out = HEADER % 'include/qdns.h, qremote/conn.c, qremote/qremote.c, qremote/smtproutes.c, lib/ipme.c, lib/dns_helpers.c'
    for k, v in c.items():
        out += 'Definition %s : N := %s%%N.\n' % (k, v)
    dcert = one(r'clientcertname\s*=\s*"([^"]*)"\s*;\s*clientkeyname\s*=\s*clientcertname\s*;', s, 'smtproutes.c default certificate name')
    dkey = one(r'faccessat\(\s*controldir_fd\s*,\s*"clientkey\.pem"\s*,\s*R_OK\s*,\s*0\s*\)\s*==\s*0\s*\)\s*clientkeyname\s*=\s*"([^"]*)"\s*;', s, 'smtproutes.c default key name')
    out += '\nDefinition ROUTE_DEFAULT_CERT : list N := %s.\nDefinition ROUTE_DEFAULT_KEY : list N := %s.\n' % (coq_bytes(c_unescape(dcert)), coq_bytes(c_unescape(dkey)))
    out += '\n(* smtproutes.d keys, in table order *)\nDefinition ROUTE_TAGS : list (list N) :=\n  [' + ';\n   '.join(coq_bytes(c_unescape(t)) for t in taglist) + '].\n'
    return out


GENERATORS = {'GenMx.v': gen_mx}

"""qsmtpd/auth.c, qsauth_backend_cp.c, qsmtpd.c -> Gen/GenAuth.v
(mechanism table, reply texts, offsets and chunk size of the AUTH exchange, EDONE, the AUTH row of the command table)"""
import re
from trlib import *


def _lit(pattern, text, what):
    return c_unescape(one(pattern, text, what))


def gen_auth(repo):
    rel = 'qsmtpd/auth.c'
    src = strip_comments(read(repo, rel))
    out = HEADER % (rel + ', qsmtpd/backends/auth_chkpw/qsauth_backend_cp.c, qsmtpd/qsmtpd.c, include/qsmtpd/qsmtpd.h')
    # ---- mechanism table (without the AUTHCRAM block: the harness is built like the default configuration)
    tab = one(r'authcmds\[\]\s*=\s*\{(.*?)\n\};', src, 'authcmds[]', re.S)
    tab = re.sub(r'#ifdef\s+AUTHCRAM.*?#endif', '', tab, flags=re.S)
    ents = re.findall(r'\{\s*\.text\s*=\s*"([^"]*)"\s*,\s*\.fun\s*=\s*(\w+)\s*\}', tab)
    if not ents or not re.search(r'\{\s*\}\s*$', tab.strip()):
        raise TranslateError('authcmds[]: entries / terminator not found')
    ids = {'auth_login': 0, 'auth_plain': 1}
    mechs = []
    for text, fun in ents:
        if fun not in ids:
            raise TranslateError('authcmds[]: unknown handler %s' % fun)
        mechs.append('(%s, %d%%N)' % (coq_bytes(c_unescape(text)), ids[fun]))
    out += 'Definition AUTH_MECHS : list (list N * N) := [%s].\n' % '; '.join(mechs)
    # ---- reply texts
    login = func_body(src, 'auth_login', rel)
    plain = func_body(src, 'auth_plain', rel)
    getl = func_body(src, 'authgetl', rel)
    sauth = func_body(src, 'smtp_auth', rel)
    msgs = {
        'MSG_TEMPNOAUTH': _lit(r'const\s+char\s*\*\s*tempnoauth\s*=\s*"((?:[^"\\]|\\.)*)"\s*;', src, 'tempnoauth'),
        'MSG_501_INPUT': _lit(r'netwrite\("((?:[^"\\]|\\.)*)"\)', func_body(src, 'err_input', rel), 'err_input text'),
        'MSG_501_B64': _lit(r'netwrite\("((?:[^"\\]|\\.)*)"\)', func_body(src, 'err_base64', rel), 'err_base64 text'),
        'MSG_501_CANCEL': _lit(r'netwrite\("((?:[^"\\]|\\.)*)"\)', getl, 'cancel text'),
        'MSG_334_PLAIN': _lit(r'netwrite\("((?:[^"\\]|\\.)*)"\)', plain, 'auth_plain challenge'),
    }
    lm = re.findall(r'netwrite\("((?:[^"\\]|\\.)*)"\)', login)
    if len(lm) != 2:
        raise TranslateError('auth_login: expected two challenges, found %d' % len(lm))
    msgs['MSG_334_USER'], msgs['MSG_334_PASS'] = c_unescape(lm[0]), c_unescape(lm[1])
    sm = re.findall(r'netwrite\("((?:[^"\\]|\\.)*)"\)', sauth)
    if len(sm) != 3:
        raise TranslateError('smtp_auth: expected three replies, found %d' % len(sm))
    msgs['MSG_235'], msgs['MSG_535'], msgs['MSG_504'] = [c_unescape(x) for x in sm]
    for k, v in msgs.items():
        out += 'Definition %s : list N := %s.\n' % (k, coq_bytes(v))
    # ---- offsets / sizes
    c = {}
    c['AUTH_TYPE_OFF'] = one(r'char\s*\*\s*type\s*=\s*linein\.s\s*\+\s*(\d+)\s*;', sauth, 'type offset')
    c['AUTH_IR_OFF'] = allsame(r'linein\.len\s*>\s*(\d+)', login + plain, 'initial-response threshold', 2)
    if allsame(r'b64decode\(linein\.s\s*\+\s*(\d+)\s*,\s*linein\.len\s*-\s*\1\s*,', login + plain, 'initial-response offset', 2) != c['AUTH_IR_OFF']:
        raise TranslateError('initial-response offset differs from its threshold')
    c['AUTH_CHUNK'] = one(r'realloc\(authin->s\s*,\s*authin->len\s*\+\s*(\d+)\)', getl, 'authgetl chunk')
    if one(r'net_readline\((\d+)\s*,\s*authin->s\s*\+\s*authin->len\)', getl, 'authgetl read size') != c['AUTH_CHUNK']:
        raise TranslateError('authgetl: read size differs from the allocation step')
    c['EDONE'] = one(r'#define\s+EDONE\s+(\d+)', read(repo, 'include/qsmtpd/qsmtpd.h'), 'EDONE')
    # structural facts of smtp_auth / auth_permitted the model relies on
    for pat, txt, what in [
        (r'if\s*\(xmitstat\.authname\.len\s*\|\|\s*!auth_permitted\(\)\)\s*return\s+1\s*;', sauth, 'refusal test of smtp_auth'),
        (r'case\s+0\s*:\s*return\s+netwrite\([^)]*\)\s*\?\s*errno\s*:\s*0\s*;\s*case\s+1\s*:\s*STREMPTY\(xmitstat\.authname\)\s*;', sauth, 'case 0 / case 1 of smtp_auth'),
        (r'default\s*:\s*(?:assert\([^)]*\)\s*;\s*)?STREMPTY\(xmitstat\.authname\)\s*;\s*return\s+-r\s*;', sauth, 'default case of smtp_auth'),
        (r'strncasecmp\(authcmds\[i\]\.text\s*,\s*type\s*,\s*mechlen\)\s*!=\s*0', sauth, 'mechanism comparison'),
        (r"\(type\[mechlen\]\s*!=\s*'\\0'\)\s*&&\s*\(type\[mechlen\]\s*!=\s*' '\)", sauth, 'mechanism delimiter test'),
        (r'if\s*\(auth_host\s*==\s*NULL\)\s*return\s+0\s*;\s*if\s*\(sslauth\s*&&\s*\(xmitstat\.ssl\s*==\s*NULL\)\)\s*return\s+0\s*;\s*return\s+1\s*;',
         func_body(src, 'auth_permitted', rel), 'auth_permitted'),
        (r"\(authin->len\s*==\s*1\)\s*&&\s*\(\*authin->s\s*==\s*'\*'\)", getl, 'cancel test'),
        (r"while\s*\(authin->s\[authin->len\s*-\s*1\]\s*!=\s*'\\n'\)", getl, 'authgetl loop test'),
        (r'if\s*\(!user->len\s*\|\|\s*!pass\.len\)', login, 'auth_login empty test'),
        (r'if\s*\(!user->len\s*\|\|\s*!pass\.len\)', plain, 'auth_plain empty test'),
        (r'r\s*=\s*auth_backend_execute\(user\s*,\s*&pass\s*,\s*NULL\)\s*;', login, 'auth_login backend call'),
        (r'r\s*=\s*auth_backend_execute\(user\s*,\s*&pass\s*,\s*NULL\)\s*;', plain, 'auth_plain backend call'),
    ]:
        if not re.search(pat, txt):
            raise TranslateError('%s not found' % what)
    # ---- checkpassword backend: what is written to the pipe
    brel = 'qsmtpd/backends/auth_chkpw/qsauth_backend_cp.c'
    be = func_body(strip_comments(read(repo, brel)), 'auth_backend_execute', brel)
    w = re.findall(r'WRITE\(([^;]*)\)\s*;', be)
    want = ['user->s, user->len + 1', 'pass->s, pass->len + 1', 'resp->s, resp->len', '"", 1']
    if [re.sub(r'\s+', ' ', x.strip()) for x in w] != want:
        raise TranslateError('auth_backend_execute: WRITE sequence is %r, expected %r' % (w, want))
    for pat, what in [
        (r'fd_move\(pi\[0\]\s*,\s*(\d+)\)', 'descriptor of the child'),
        (r'if\s*\(!WIFEXITED\(wstat\)\)\s*return\s+err_child\(\)\s*;\s*if\s*\(WEXITSTATUS\(wstat\)\)\s*return\s+1\s*;\s*return\s+0\s*;', 'exit status decoding'),
    ]:
        if not re.search(pat, be):
            raise TranslateError('auth_backend_execute: %s not found' % what)
    c['AUTH_CHILD_FD'] = one(r'fd_move\(pi\[0\]\s*,\s*(\d+)\)', be, 'descriptor of the child')
    # ---- the AUTH row of the command table
    q = strip_comments(read(repo, 'qsmtpd/qsmtpd.c'))
    m = re.search(r'_C\("AUTH"\s*,\s*(0x[0-9a-fA-F]+|\d+)\s*,\s*smtp_auth\s*,\s*(-?\w+)\s*,\s*(\d+)\s*\)', q)
    if not m:
        raise TranslateError('qsmtpd.c: AUTH row of commands[] not found')
    c['AUTH_CMD_MASK'] = str(int(m.group(1), 0))
    c['AUTH_CMD_FLAGS'] = m.group(3)
    rows = re.findall(r'_C\("([^"]+)"', q[q.index('commands[] = {'):])
    c['EHLO_STATE_BIT'] = str(1 << rows.index('EHLO'))
    for k, v in c.items():
        ty = 'nat' if k in ('AUTH_TYPE_OFF', 'AUTH_IR_OFF', 'AUTH_CHUNK') else 'N'
        out += 'Definition %s : %s := %s%s.\n' % (k, ty, v, '' if ty == 'nat' else '%N')
    return out


GENERATORS = {'GenAuth.v': gen_auth}

"""qsmtpd/commands.c (smtp_rcpt), qsmtpd/filters/rcpt_filters.c, include/qsmtpd/userfilters.h, userconf.h,
qsmtpd/backends/user_vpopm/getfile.c  ->  Gen/GenFilters.v

Data only: the order of rcpt_cbs[], the numeric values of enum filter_result / enum config_domain /
userconf_global, the flags getsetting()/getsettingglobal() pass on, the two setting names and the reply templates of
the rejection switch, the set of states on which the filter loop goes on, and the position of userconf_free(&ds)
relative to the getsetting(&ds, ...) calls in smtp_rcpt (a boolean)."""
import re
from trlib import *

# canonical filter ids: alphabetical; the same table is in harness/filters_h.c (cb_names) and props/C12.py
CANON = ['badcc', 'badmailfrom', 'boolean', 'check2822', 'dnsbl', 'forceesmtp', 'fromdomain', 'helo', 'ipbl', 'namebl',
         'nomail', 'smtpbugs', 'soberg', 'spf', 'usersize', 'wildcardns']


def enum_values(src, name, rel):
    m = re.search(r'enum\s+' + name + r'\s*\{(.*?)\}\s*;', src, flags=re.S)
    if not m:
        raise TranslateError('%s: enum %s not found' % (rel, name))
    vals, nxt = {}, 0
    for item in m.group(1).split(','):
        item = item.strip()
        if not item:
            continue
        mm = re.match(r'^(\w+)\s*(?:=\s*(-?\s*(?:0[xX][0-9a-fA-F]+|\d+)))?$', item)
        if not mm:
            raise TranslateError('%s: enum %s: cannot parse item %r' % (rel, name, item))
        if mm.group(2) is not None:
            nxt = int(mm.group(2).replace(' ', ''), 0)
        vals[mm.group(1)] = nxt
        nxt += 1
    return vals


def zlit(v):
    return '(%d)%%Z' % v


def gen_filters(repo):
    out = HEADER % 'qsmtpd/commands.c, qsmtpd/filters/rcpt_filters.c, include/qsmtpd/userfilters.h, include/qsmtpd/userconf.h, qsmtpd/backends/user_vpopm/getfile.c'
    out += 'From Coq Require Import ZArith.\n\n'

    # ---- rcpt_cbs[] order
    rel = 'qsmtpd/filters/rcpt_filters.c'
    src = strip_comments(read(repo, rel))
    body = one(r'rcpt_cb\s+rcpt_cbs\s*\[\s*\]\s*=\s*\{(.*?)\}\s*;', src, 'rcpt_cbs[] initialiser', re.S)
    items = [x.strip() for x in body.split(',') if x.strip()]
    if not items or items[-1] != 'NULL':
        raise TranslateError('rcpt_cbs[]: not NULL terminated')
    ids = []
    for it in items[:-1]:
        if not it.startswith('cb_') or it[3:] not in CANON:
            raise TranslateError('rcpt_cbs[]: unknown filter %r (extend CANON in translator, harness and props)' % it)
        ids.append(CANON.index(it[3:]))
    out += '(* order of rcpt_cbs[], as canonical (alphabetical) filter ids: %s *)\n' % ' '.join(i[3:] for i in items[:-1])
    out += 'Definition RCPT_CBS : list nat := [%s].\n' % '; '.join(str(i) for i in ids)
    out += 'Definition NFILTERS : nat := %d.\n\n' % len(CANON)

    # ---- enums
    rel = 'include/qsmtpd/userfilters.h'
    hdr = strip_comments(read(repo, rel))
    fr = enum_values(hdr, 'filter_result', rel)
    want = ['FILTER_ERROR', 'FILTER_PASSED', 'FILTER_DENIED_WITH_MESSAGE', 'FILTER_DENIED_UNSPECIFIC', 'FILTER_DENIED_NOUSER',
            'FILTER_DENIED_TEMPORARY', 'FILTER_WHITELISTED']
    if sorted(fr) != sorted(want):
        raise TranslateError('enum filter_result: members are %s, the model knows %s' % (sorted(fr), sorted(want)))
    for k in want:
        out += 'Definition %s : Z := %s.\n' % (k.replace('FILTER_', 'FR_'), zlit(fr[k]))
    fd = func_body(hdr, 'filter_denied', rel)
    if not re.search(r'return\s*\(\s*\(\s*r\s*>\s*FILTER_PASSED\s*\)\s*&&\s*\(\s*r\s*!=\s*FILTER_WHITELISTED\s*\)\s*\)\s*;', fd):
        raise TranslateError('filter_denied(): body is not ((r > FILTER_PASSED) && (r != FILTER_WHITELISTED))')
    cd = enum_values(hdr, 'config_domain', rel)
    for k in ['CONFIG_NONE', 'CONFIG_USER', 'CONFIG_DOMAIN', 'CONFIG_GLOBAL']:
        if k not in cd:
            raise TranslateError('enum config_domain: %s missing' % k)
        out += 'Definition %s : Z := %s.\n' % (k, zlit(cd[k]))
    rel = 'include/qsmtpd/userconf.h'
    uf = enum_values(strip_comments(read(repo, rel)), 'userconf_flags', rel)
    out += 'Definition USERCONF_GLOBAL : N := %d%%N.\n' % uf['userconf_global']

    # ---- getfile.c: flags handed to getsetting_internal
    rel = 'qsmtpd/backends/user_vpopm/getfile.c'
    gsrc = strip_comments(read(repo, rel))
    g1 = one(r'return\s+getsetting_internal\s*\(\s*ds\s*,\s*flag\s*,\s*type\s*,\s*(\d+)\s*\)\s*;', func_body(gsrc, 'getsetting', rel), 'getsetting flags')
    g2 = one(r'return\s+getsetting_internal\s*\(\s*ds\s*,\s*flag\s*,\s*type\s*,\s*(\d+)\s*\)\s*;', func_body(gsrc, 'getsettingglobal', rel), 'getsettingglobal flags')
    out += 'Definition GETSETTING_FLAGS : N := %s%%N.\nDefinition GETSETTINGGLOBAL_FLAGS : N := %s%%N.\n' % (g1, g2)
    gi = func_body(gsrc, 'getsetting_internal', rel)
    if not re.search(r'if\s*\(\s*!\s*\(\s*flags\s*&\s*userconf_global\s*\)\s*\)\s*return\s+0\s*;', gi):
        raise TranslateError('getsetting_internal: test of userconf_global not found')
    cc = func_body(gsrc, 'checkconfig', rel)
    out += 'Definition STRTOL_BASE : Z := %s%%Z.\n' % one(r'strtol\s*\(\s*config\[i\]\s*\+\s*l\s*\+\s*1\s*,\s*&s\s*,\s*(\d+)\s*\)', cc, 'checkconfig strtol base')
    sep = c_unescape(one(r"config\[i\]\[l\]\s*==\s*'((?:\\.|[^'\\]))'", cc, 'checkconfig separator'))
    out += 'Definition VALUE_SEP : N := %d%%N.\n\n' % sep[0]

    # ---- smtp_rcpt
    rel = 'qsmtpd/commands.c'
    csrc = strip_comments(read(repo, rel))
    sr = func_body(csrc, 'smtp_rcpt', rel)
    cond = one(r'while\s*\(\s*\(\s*rcpt_cbs\[i\]\s*!=\s*NULL\s*\)\s*&&\s*\((.*?)\)\s*\)\s*\{', sr, 'filter loop condition', re.S)
    terms = [t.strip() for t in cond.split('||')]
    names = []
    for t in terms:
        mm = re.match(r'^\(?\s*fr\s*==\s*(FILTER_\w+)\s*\)?$', t)
        if not mm or mm.group(1) not in fr:
            raise TranslateError('filter loop condition: cannot parse term %r' % t)
        names.append(mm.group(1).replace('FILTER_', 'FR_'))
    out += '(* the loop over rcpt_cbs[] goes on while fr is one of *)\nDefinition LOOP_CONTINUES_ON : list Z := [%s].\n' % '; '.join(names)
    if not re.search(r'fr\s*=\s*rcpt_cbs\[i\]\s*\(\s*&ds\s*,\s*&errmsg\s*,\s*&bt\s*\)\s*;', sr):
        raise TranslateError('smtp_rcpt: call of rcpt_cbs[i](&ds, ...) not found')
    # how smtp_rcpt records blanks between "RCPT TO:" and '<': only ever sets the flag (sticky) or assigns it
    if re.search(r'if\s*\(\s*bugoffset\s*!=\s*0\s*\)\s*xmitstat\.spacebug\s*=\s*1\s*;', sr):
        sticky = True
    elif re.search(r'(?<!\))\s*xmitstat\.spacebug\s*=\s*(!!\s*bugoffset|\(?\s*bugoffset\s*(!=|>)\s*0\s*\)?)\s*;', sr):
        sticky = False
    else:
        raise TranslateError('smtp_rcpt: cannot parse how xmitstat.spacebug is set from bugoffset')
    if len(re.findall(r'xmitstat\.spacebug\s*=', sr)) != 1:
        raise TranslateError('smtp_rcpt: xmitstat.spacebug is assigned more than once')
    out += '(* smtp_rcpt only ever sets xmitstat.spacebug (a clean RCPT TO line keeps what MAIL FROM / an earlier RCPT TO recorded) *)\n'
    out += 'Definition SPACEBUG_STICKY : bool := %s.\n' % ('true' if sticky else 'false')
    keys = re.findall(r'getsetting\s*\(\s*&ds\s*,\s*"([^"]*)"\s*,\s*&t\s*\)', sr)
    if len(keys) != 2:
        raise TranslateError('smtp_rcpt: expected two getsetting(&ds, "...", &t) calls, found %d' % len(keys))
    replies = re.findall(r'netwrite\s*\(\s*"((?:[^"\\]|\\.)*)"\s*\)', sr)
    m_temp = one(r'case\s+FILTER_DENIED_TEMPORARY\s*:.*?getsetting\s*\(\s*&ds\s*,\s*"([^"]*)".*?netwrite\s*\(\s*"((?:[^"\\]|\\.)*)"\s*\)', sr, 'temporary branch', re.S)
    m_uns = one(r'case\s+FILTER_DENIED_UNSPECIFIC\s*:.*?getsetting\s*\(\s*&ds\s*,\s*"([^"]*)".*?netwrite\s*\(\s*"((?:[^"\\]|\\.)*)"\s*\)', sr, 'unspecific branch', re.S)
    m_nou = one(r'case\s+FILTER_DENIED_NOUSER\s*:.*?rcptmsg\[\]\s*=\s*\{\s*"((?:[^"\\]|\\.)*)"', sr, 'nouser branch', re.S)
    m_ok = one(r'okmsg\[\]\s*=\s*\{\s*"((?:[^"\\]|\\.)*)"', sr, 'okmsg')
    if m_temp[0] == m_uns[0]:
        raise TranslateError('smtp_rcpt: both branches read the same setting')
    out += 'Definition KEY_FAIL_HARD : list N := %s. (* "%s" *)\n' % (coq_bytes(c_unescape(m_temp[0])), m_temp[0])
    out += 'Definition KEY_NONEXIST : list N := %s. (* "%s" *)\n' % (coq_bytes(c_unescape(m_uns[0])), m_uns[0])
    out += 'Definition REPLY_TEMP : list N := %s. (* "%s" *)\n' % (coq_bytes(c_unescape(m_temp[1])), m_temp[1])
    out += 'Definition REPLY_POLICY : list N := %s. (* "%s" *)\n' % (coq_bytes(c_unescape(m_uns[1])), m_uns[1])
    out += 'Definition REPLY_NOUSER : list N := %s. (* "%s" *)\n' % (coq_bytes(c_unescape(m_nou)), m_nou)
    out += 'Definition REPLY_OK : list N := %s. (* "%s" *)\n' % (coq_bytes(c_unescape(m_ok)), m_ok)
    # order of the cases in the rejection switch (fallthrough chain)
    order = re.findall(r'case\s+(FILTER_DENIED_\w+)\s*:', sr[sr.rfind('switch (fr)'):])
    if order != ['FILTER_DENIED_TEMPORARY', 'FILTER_DENIED_UNSPECIFIC', 'FILTER_DENIED_NOUSER']:
        raise TranslateError('smtp_rcpt: rejection switch cases are %s' % order)
    # ---- where is ds released relative to the two getsetting() reads?
    loop_at = sr.index('rcpt_cbs[i](')
    first_get = sr.index('getsetting', loop_at)
    last_get = sr.rindex('getsetting')
    frees = [m.start() for m in re.finditer(r'userconf_free\s*\(\s*&ds\s*\)', sr) if m.start() > loop_at]
    if not frees:
        raise TranslateError('smtp_rcpt: no userconf_free(&ds) after the filter loop')
    # a free is "before the settings" when it is executed on the way from the loop to the reads: it lies between them
    # textually and not inside the accept branch (which returns)
    acc = re.search(r'if\s*\(\s*!\s*filter_denied\s*\(\s*fr\s*\)\s*\)\s*\{', sr)
    if not acc:
        raise TranslateError('smtp_rcpt: accept branch not found')
    a0 = acc.end(); depth = 1; a1 = a0
    while depth and a1 < len(sr):
        depth += {'{': 1, '}': -1}.get(sr[a1], 0); a1 += 1
    if 'return' not in sr[a0:a1]:
        raise TranslateError('smtp_rcpt: accept branch does not return')
    before = [p for p in frees if p < last_get and not (a0 <= p < a1)]
    after = [p for p in frees if p > last_get]
    in_acc = [p for p in frees if a0 <= p < a1]
    out += '\n(* userconf_free(&ds) is executed between the filter loop and the getsetting(&ds, ...) reads of the rejection switch *)\n'
    out += 'Definition FREE_BEFORE_SETTINGS : bool := %s.\n' % ('true' if before else 'false')
    out += '(* ds is released on the accepting path / on the rejecting path *)\n'
    out += 'Definition FREE_ON_ACCEPT : bool := %s.\nDefinition FREE_ON_REJECT : bool := %s.\n' % (
        'true' if (in_acc or [p for p in before if p < a0]) else 'false', 'true' if (before or after) else 'false')
    # ---- which keys the code looks up globally vs. which keys the man page marks "(global)"
    import glob, os
    code = {}
    files = sorted(glob.glob(os.path.join(repo, 'qsmtpd', 'filters', '*.c'))) + [os.path.join(repo, 'qsmtpd', 'commands.c')]
    for f in files:
        txt = strip_comments(open(f, encoding='latin-1').read())
        for fn, key in re.findall(r'\b(getsettingglobal|getsetting)\s*\(\s*&?ds\s*,\s*"([^"]*)"', txt):
            g = fn == 'getsettingglobal'
            if key in code and code[key] != g:
                raise TranslateError('setting %s is looked up both with getsetting and getsettingglobal' % key)
            code[key] = g
    if not code:
        raise TranslateError('no getsetting()/getsettingglobal() call with a literal key found')
    rel = 'doc/man/filterconf.5'
    man = read(repo, rel)
    if '.SH KEYS' not in man:
        raise TranslateError('%s: section KEYS not found' % rel)
    keys_sec = man[man.index('.SH KEYS'):]
    if '.SH EXAMPLES' in keys_sec:
        keys_sec = keys_sec[:keys_sec.index('.SH EXAMPLES')]
    doc = {}
    for it in re.split(r'\n\.IP ', keys_sec)[1:]:
        m = re.match(r'"\\fI(\w+)\\fR"', it)
        if m:
            doc[m.group(1)] = bool(re.search(r'^\.BR \(global\)', it, re.M))
    if not doc:
        raise TranslateError('%s: no key entries found' % rel)
    out += '\n(* (setting, the code looks it up with getsettingglobal(), doc/man/filterconf.5 marks it "(global)") for every setting\n'
    out += '   that is both read with a literal key in qsmtpd/filters/*.c or smtp_rcpt and described in the man page.\n'
    out += '   read by the code but not in the man page: %s; in the man page but not read that way: %s *)\n' % (
        ' '.join(sorted(set(code) - set(doc))) or '-', ' '.join(sorted(set(doc) - set(code))) or '-')
    out += 'Definition KEY_TABLE : list (list N * bool * bool) := [\n'
    rows = []
    for k in sorted(set(code) & set(doc)):
        rows.append('  (%s, %s, %s) (* %s *)' % (coq_bytes([ord(c) for c in k]), 'true' if code[k] else 'false', 'true' if doc[k] else 'false', k))
    out += ';\n'.join(rows).replace(' (* ', ' (* ') + '\n].\n'
    out += gen_real_filters(repo)
    return out


def body_of(src, name, rel):
    """like trlib.func_body, but tolerant of parentheses inside the parameter list (__attribute__ ((unused)))"""
    m = re.search(r'^' + re.escape(name) + r'\s*\(', src, flags=re.M)
    if not m:
        raise TranslateError('%s: function %s not found' % (rel, name))
    i = src.index('{', m.end())
    j, depth = i + 1, 1
    while depth and j < len(src):
        depth += {'{': 1, '}': -1}.get(src[j], 0)
        j += 1
    return src[m.start():j]


def lit(name, text, comment=None):
    return 'Definition %s : list N := %s. (* "%s" *)\n' % (name, coq_bytes(c_unescape(text)), comment if comment is not None else text)


def gen_real_filters(repo):
    """constants of the four filters that stage 2 runs for real: keys, own replies, enum values"""
    out = '\n(* ---- qsmtpd/filters/boolean.c, smtpbugs.c, usersize.c, spf.c, include/qsmtpd/antispam.h *)\n'
    # boolean.c
    rel = 'qsmtpd/filters/boolean.c'
    b = func_body(strip_comments(read(repo, rel)), 'cb_boolean', rel)
    m = one(r'if\s*\(\s*getsettingglobal\s*\(\s*ds\s*,\s*"([^"]*)"\s*,\s*t\s*\)\s*>\s*0\s*\)\s*\{\s*if\s*\(\s*is_authenticated_client\s*\(\s*\)\s*\)\s*return\s+FILTER_WHITELISTED\s*;', b, 'cb_boolean whitelistauth')
    out += lit('KEY_WHITELISTAUTH', m)
    m = one(r'if\s*\(\s*!\s*xmitstat\.ssl\s*&&\s*\(\s*getsetting\s*\(\s*ds\s*,\s*"([^"]*)"\s*,\s*t\s*\)\s*>\s*0\s*\)\s*\)\s*\{\s*int\s+rc\s*=\s*netwrite\s*\(\s*"((?:[^"\\]|\\.)*)"\s*\)', b, 'cb_boolean forcestarttls')
    out += lit('KEY_FORCESTARTTLS', m[0]) + lit('REPLY_FORCESTARTTLS', m[1])
    m = one(r'if\s*\(\s*!\s*xmitstat\.mailfrom\.len\s*&&\s*\(\s*getsetting\s*\(\s*ds\s*,\s*"([^"]*)"\s*,\s*t\s*\)\s*>\s*0\s*\)\s*\)\s*\{.*?netwrite\s*\(\s*"((?:[^"\\]|\\.)*)"\s*\)', b, 'cb_boolean nobounce', re.S)
    out += lit('KEY_NOBOUNCE', m[0]) + lit('REPLY_NOBOUNCE', m[1])
    m = one(r'if\s*\(\s*\(\s*getsetting\s*\(\s*ds\s*,\s*"([^"]*)"\s*,\s*t\s*\)\s*>\s*0\s*\)\s*&&\s*xmitstat\.mailfrom\.len\s*\)', b, 'cb_boolean noapos')
    out += lit('KEY_NOAPOS', m)
    if len(re.findall(r'return\s', b)) != 5 or not re.search(r"memchr\s*\(\s*xmitstat\.mailfrom\.s\s*,\s*'\\''", b):
        raise TranslateError('cb_boolean: unexpected shape (returns / apostrophe test)')
    # usersize.c
    rel = 'qsmtpd/filters/usersize.c'
    u = func_body(strip_comments(read(repo, rel)), 'cb_usersize', rel)
    out += lit('KEY_USERSIZE', one(r'if\s*\(\s*\(\s*usize\s*=\s*getsetting\s*\(\s*ds\s*,\s*"([^"]*)"\s*,\s*t\s*\)\s*\)\s*<=\s*0\s*\)\s*return\s+FILTER_PASSED', u, 'cb_usersize key'))
    if not re.search(r'if\s*\(\s*xmitstat\.thisbytes\s*<=\s*\(\s*unsigned\s+long\s*\)\s*usize\s*\)\s*return\s+FILTER_PASSED', u):
        raise TranslateError('cb_usersize: size comparison not found')
    out += lit('REPLY_USERSIZE', one(r'netwrite\s*\(\s*"((?:[^"\\]|\\.)*)"\s*\)', u, 'cb_usersize reply'))
    # smtpbugs.c
    rel = 'qsmtpd/filters/smtpbugs.c'
    ssrc = strip_comments(read(repo, rel))
    spb = enum_values(ssrc, 'spacebug_filter', rel)
    for k in ['SPB_PERMIT_ALL', 'SPB_PERMIT_ESMTP', 'SPB_PERMIT_TLS', 'SPB_PERMIT_AUTH', 'SPB_REJECT_ALL']:
        out += 'Definition %s : Z := %s.\n' % (k, zlit(spb[k]))
    sb = body_of(ssrc, 'cb_smtpbugs', rel)
    out += lit('KEY_SMTP_SPACE_BUG', one(r'if\s*\(\s*\(\s*filter\s*=\s*getsettingglobal\s*\(\s*ds\s*,\s*"([^"]*)"\s*,\s*t\s*\)\s*\)\s*<=\s*0\s*\)\s*return\s+FILTER_PASSED', sb, 'cb_smtpbugs key'))
    if not re.search(r'\bint\s+filter\s*;', sb):
        raise TranslateError('cb_smtpbugs: "int filter" not found (the model truncates the long to int)')
    order = re.findall(r'case\s+(SPB_\w+)\s*:', sb)
    if order != ['SPB_PERMIT_TLS', 'SPB_PERMIT_AUTH', 'SPB_PERMIT_ESMTP', 'SPB_REJECT_ALL']:
        raise TranslateError('cb_smtpbugs: switch cases are %s' % order)
    out += lit('REPLY_SMTPBUGS', one(r'netwrite\s*\(\s*"((?:[^"\\]|\\.)*)"\s*\)', sb, 'cb_smtpbugs reply'))
    # spf
    rel = 'include/qsmtpd/antispam.h'
    spf = enum_values(strip_comments(read(repo, rel)), 'spf_eval_result', rel)
    for k in ['SPF_NONE', 'SPF_PASS', 'SPF_NEUTRAL', 'SPF_SOFTFAIL', 'SPF_FAIL', 'SPF_PERMERROR', 'SPF_TEMPERROR', 'SPF_DNS_HARD_ERROR', 'SPF_IGNORE']:
        out += 'Definition %s : N := %d%%N.\n' % (k, spf[k])
    if not re.search(r'#define\s+SPF_IS_FAILURE\(x\)\s+\(\(\(x\)\s*==\s*SPF_FAIL\)\s*\|\|\s*\(\(x\)\s*==\s*SPF_PERMERROR\)\)', read(repo, rel)):
        raise TranslateError('SPF_IS_FAILURE: unexpected definition')
    rel = 'qsmtpd/filters/spf.c'
    sp = func_body(strip_comments(read(repo, rel)), 'cb_spf', rel)
    out += lit('KEY_SPFPOLICY', one(r'p\s*=\s*getsettingglobal\s*\(\s*ds\s*,\s*"([^"]*)"\s*,\s*t\s*\)\s*;', sp, 'cb_spf policy key'))
    cases = re.findall(r'\n\s*(default|case\s+\d+)\s*:', sp[sp.index('switch (p)'):sp.index('if (do_strict)')])
    if cases != ['default', 'case 6', 'case 5', 'case 4', 'case 3', 'case 2', 'case 1']:
        raise TranslateError('cb_spf: switch (p) cases are %s' % cases)
    out += lit('REPLY_SPF_DENY', one(r'netmsg\[\]\s*=\s*\{\s*"((?:[^"\\]|\\.)*)"', sp, 'cb_spf deny message'))
    out += lit('REPLY_SPF_BAD', one(r'logmsg\s*=\s*"bad SPF"\s*;\s*if\s*\(\s*netwrite\s*\(\s*"((?:[^"\\]|\\.)*)"\s*\)', sp, 'cb_spf bad SPF reply'))
    m = one(r'else\s+if\s*\(\s*\(\s*r\s*==\s*FILTER_DENIED_TEMPORARY\s*\)\s*&&\s*\(\s*getsetting\s*\(\s*ds\s*,\s*"([^"]*)"\s*,\s*&tmpt\s*\)\s*<=\s*0\s*\)\s*\)\s*\{.*?netwrite\s*\(\s*"((?:[^"\\]|\\.)*)"\s*\)\s*!=\s*0\s*\)\s*return\s+FILTER_ERROR\s*;\s*return\s+(FILTER_\w+)\s*;', sp, 'cb_spf temporary branch', re.S)
    out += lit('KEY_SPF_FAIL_HARD', m[0]) + lit('REPLY_SPF_TEMP', m[1])
    out += '(* what cb_spf returns after it has sent REPLY_SPF_TEMP itself *)\nDefinition SPF_TEMP_RETURNS : Z := %s.\n' % m[2].replace('FILTER_', 'FR_')
    # dnsbl.c / namebl.c
    rel = 'qsmtpd/filters/dnsbl.c'
    db = func_body(strip_comments(read(repo, rel)), 'cb_dnsbl', rel)
    out += lit('REPLY_DNSBL', one(r'netmsg\[\]\s*=\s*\{\s*"((?:[^"\\]|\\.)*)"', db, 'cb_dnsbl reply'))
    m = one(r'whitelisted by\s*",\s*c\[(\w+)\]', db, 'cb_dnsbl whitelist log entry')
    if m not in ('i', 'j'):
        raise TranslateError('cb_dnsbl: whitelist log line indexes c[] with %r' % m)
    out += '(* the "whitelisted by" log line of cb_dnsbl names c[j] (the whitelist entry that matched), not c[i] *)\n'
    out += 'Definition DNSBL_LOG_WHITELIST_BY_J : bool := %s.\n' % ('true' if m == 'j' else 'false')
    rel = 'qsmtpd/filters/namebl.c'
    nb = func_body(strip_comments(read(repo, rel)), 'cb_namebl', rel)
    first_assign = nb.index('*t = ')
    out += '(* cb_namebl reads blocktype[*t] before it has assigned *t (in the initialiser of its log message) *)\n'
    out += 'Definition NAMEBL_BLOCKTYPE_ON_ENTRY : bool := %s.\n' % ('true' if 'blocktype[*t]' in nb[:first_assign] else 'false')
    out += lit('REPLY_NAMEBL', one(r'netmsg\[\]\s*=\s*\{\s*"((?:[^"\\]|\\.)*)"', nb, 'cb_namebl reply'))
    # fromdomain.c
    import ipaddress
    rel = 'qsmtpd/filters/fromdomain.c'
    fsrc = strip_comments(read(repo, rel))
    fl = enum_values(fsrc, 'filter_fromdomain_flags', rel)
    for k, n in (('FROMDOMAIN_DOMAIN_IN_DNS', 'FD_BIT_DNS'), ('FROMDOMAIN_LOCALHOST', 'FD_BIT_LOCALHOST'), ('FROMDOMAIN_PRIVATE', 'FD_BIT_PRIVATE')):
        out += 'Definition %s : Z := %s.\n' % (n, zlit(fl[k]))
    def lens(arr):
        m = re.search(r'\}\s*' + arr + r'\[\]\s*=\s*\{(.*?)\n\};', fsrc, re.S)
        if not m:
            raise TranslateError('fromdomain.c: initialiser of %s not found' % arr)
        return [int(x) for x in re.findall(r'\.len\s*=\s*(\d+)', m.group(1))]
    l4, l6 = lens('reserved_netsv4'), lens('reserved_netsv6')
    n4 = dict((int(i), int(v, 16)) for i, v in re.findall(r'reserved_netsv4\[(\d+)\]\.net\.s_addr\s*=\s*htonl\(0x([0-9a-fA-F]+)\)', fsrc))
    n6 = dict((int(i), a) for a, i in re.findall(r'inet_pton\(AF_INET6,\s*"([^"]+)",\s*&reserved_netsv6\[(\d+)\]\.net\)', fsrc))
    if sorted(n4) != list(range(len(l4))) or sorted(n6) != list(range(len(l6))) or not l4 or not l6:
        raise TranslateError('fromdomain.c: reserved network tables and init_nets() do not match')
    out += 'Definition FD_NETS4 : list (list N * N) := [%s].\n' % '; '.join(
        '(%s, %d%%N)' % (coq_bytes(list(n4[i].to_bytes(4, 'big'))), l4[i]) for i in range(len(l4)))
    out += 'Definition FD_NETS6 : list (list N * N) := [%s].\n' % '; '.join(
        '(%s, %d%%N)' % (coq_bytes(list(ipaddress.IPv6Address(n6[i]).packed)), l6[i]) for i in range(len(l6)))
    fb = func_body(fsrc, 'cb_fromdomain', rel)
    out += lit('KEY_FROMDOMAIN', one(r'u\s*=\s*getsettingglobal\s*\(\s*ds\s*,\s*"([^"]*)"', fb, 'cb_fromdomain key'))
    for case_, name in (('DNS_ERROR_TEMP', 'REPLY_FD_TEMP'), ('DNS_ERROR_PERM', 'REPLY_FD_PERM'), ('1', 'REPLY_FD_NOMX'), ('2', 'REPLY_FD_NULLMX')):
        out += lit(name, one(r'case\s+' + case_ + r'\s*:.*?errmsg\s*=\s*"((?:[^"\\]|\\.)*)"', fb, 'cb_fromdomain case ' + case_, re.S))
    out += lit('REPLY_FD_UNROUTABLE', one(r'logmsg\s*=\s*"unroutable MX"\s*;\s*return\s+netwrite\s*\(\s*"((?:[^"\\]|\\.)*)"', fb, 'cb_fromdomain unroutable reply'))
    if not re.search(r'net\s*==\s*0\s*\)\s*\|\|\s*\(\s*net\s*==\s*htonl\(0x7f000000\)', fb):
        raise TranslateError('cb_fromdomain: loopback test (0/8, 127/8) not found')
    qd = strip_comments(read(repo, 'include/qdns.h'))
    de = enum_values(qd, 'dns_errors', 'include/qdns.h')
    out += 'Definition DNS_ERROR_TEMP_Z : Z := %s.\nDefinition DNS_ERROR_PERM_Z : Z := %s.\n' % (zlit(de['DNS_ERROR_TEMP']), zlit(de['DNS_ERROR_PERM']))
    return out


GENERATORS = {'GenFilters.v': gen_filters}

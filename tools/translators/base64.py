"""lib/base64.c -> Gen/GenBase64.v (alphabet, padding character, shift amounts, buffer slack of b64decode/b64encode)"""
import re
from trlib import *


def gen_base64(repo):
    rel = 'lib/base64.c'
    src = strip_comments(read(repo, rel))
    c = {}
    lit = one(r'static\s+const\s+char\s*\*\s*b64alpha\s*=\s*((?:"(?:[^"\\]|\\.)*"\s*)+);', src, 'b64alpha literal')
    alpha = []
    for part in re.findall(r'"((?:[^"\\]|\\.)*)"', lit):
        alpha += c_unescape(part)
    pad = one(r"#define\s+B64PAD\s+\(\(char\)\s*'((?:[^'\\]|\\.)+)'\)", src, 'B64PAD')
    padv = c_unescape(pad)
    if len(padv) != 1:
        raise TranslateError('B64PAD is not a single character')
    dec = func_body(src, 'b64decode', rel)
    enc = func_body(src, 'b64encode', rel)
    # ---- decoder
    c['B64_DEC_SLACK'] = one(r'out->s\s*=\s*malloc\(\s*l\s*\+\s*(\d+)\s*\)', dec, 'b64decode malloc')
    c['B64_GROUP'] = allsame(r'i\s*\+=\s*(\d+)\s*\)', dec, 'b64decode group size', 1)
    if one(r'for\s*\(\s*size_t\s+j\s*=\s*0\s*;\s*j\s*<\s*(\d+)\s*;\s*j\+\+\s*\)', dec, 'b64decode inner loop') != c['B64_GROUP']:
        raise TranslateError('b64decode: inner loop bound differs from the group size')
    m = re.search(r'b\[0\]\s*=\s*\(a\[0\]\s*<<\s*(\d+)\)\s*\|\s*\(a\[1\]\s*>>\s*(\d+)\)\s*;\s*'
                  r'b\[1\]\s*=\s*\(a\[1\]\s*<<\s*(\d+)\)\s*\|\s*\(a\[2\]\s*>>\s*(\d+)\)\s*;\s*'
                  r'b\[2\]\s*=\s*\(a\[2\]\s*<<\s*(\d+)\)\s*\|\s*\(a\[3\]\)\s*;', dec)
    if not m:
        raise TranslateError('b64decode: recombination of a[] into b[] not found')
    for k, v in zip(['B64_D_0L', 'B64_D_1R', 'B64_D_1L', 'B64_D_2R', 'B64_D_2L'], m.groups()):
        c[k] = v
    c['B64_BRK1'] = one(r'if\s*\(\(i\s*\+\s*(\d+)\s*>=\s*l\)\s*\|\|\s*\(in\[i\s*\+\s*\1\]\s*==\s*B64PAD\)\)\s*break\s*;\s*\*s\+\+\s*=\s*b\[1\]', dec,
                        'b64decode first break test')
    c['B64_BRK2'] = one(r'if\s*\(\(i\s*\+\s*(\d+)\s*>=\s*l\)\s*\|\|\s*\(in\[i\s*\+\s*\1\]\s*==\s*B64PAD\)\)\s*break\s*;\s*\*s\+\+\s*=\s*b\[2\]', dec,
                        'b64decode second break test')
    for pat, what in [
        (r"\(i\s*\+\s*j\s*<\s*l\)\s*&&\s*\(in\[i\s*\+\s*j\]\s*==\s*'\\r'\)", 'CR test'),
        (r"if\s*\(i\s*\+\s*j\s*\+\s*1\s*==\s*l\)", 'CR-at-end test'),
        (r"i\+\+\s*;\s*if\s*\(in\[i\s*\+\s*j\]\s*!=\s*'\\n'\)", 'LF test after CR'),
        (r"\(\(i\s*\+\s*j\)\s*<\s*l\)\s*&&\s*\(in\[i\s*\+\s*j\]\s*!=\s*B64PAD\)", 'symbol/padding test'),
        (r"strchr\(\s*b64alpha\s*,\s*in\[i\s*\+\s*j\]\s*\)", 'alphabet lookup'),
        (r"a\[j\]\s*=\s*c\s*-\s*b64alpha\s*;", 'symbol value'),
        (r"a\[j\]\s*=\s*0\s*;", 'zero fill'),
        (r"\*s\+\+\s*=\s*b\[0\]\s*;", 'store of b[0]'),
        (r"while\s*\(out->len\s*&&\s*!out->s\[out->len\s*-\s*1\]\)\s*--out->len\s*;", 'trailing NUL stripping'),
        (r"unsigned\s+char\s+a\[4\]\s*;\s*unsigned\s+char\s+b\[3\]\s*;", 'a[]/b[] are unsigned char'),
    ]:
        if not re.search(pat, dec):
            raise TranslateError('b64decode: %s not found' % what)
    # ---- encoder
    m = re.search(r'i\s*=\s*in->len\s*/\s*(\d+)\s*\*\s*(\d+)\s*;', enc)
    if not m:
        raise TranslateError('b64encode: size estimate not found')
    c['B64_E_IN'], c['B64_E_OUT'] = m.groups()
    m = re.search(r'malloc\(\s*i\s*\+\s*\(i\s*/\s*wraplimit\)\s*\*\s*(\d+)\s*\+\s*(\d+)\s*\)', enc)
    if not m:
        raise TranslateError('b64encode: malloc size not found')
    c['B64_E_PERWRAP'], c['B64_E_SLACK'] = m.groups()
    c['B64_E_MOVEBUF'] = one(r'char\s+movebuf\[(\d+)\]\s*;', enc, 'b64encode movebuf')
    m = re.search(r'b64alpha\[a\s*>>\s*(\d+)\]\s*;\s*\*s\+\+\s*=\s*b64alpha\[\(\(a\s*&\s*(\d+)\s*\)\s*<<\s*(\d+)\)\s*\|\s*\(b\s*>>\s*(\d+)\)\]', enc)
    if not m:
        raise TranslateError('b64encode: first two symbols not found')
    c['B64_E_0R'], c['B64_E_1M'], c['B64_E_1L'], c['B64_E_1R'] = m.groups()
    m = re.search(r'b64alpha\[\(\(b\s*&\s*(\d+)\)\s*<<\s*(\d+)\)\s*\|\s*\(c\s*>>\s*(\d+)\)\]', enc)
    if not m:
        raise TranslateError('b64encode: third symbol not found')
    c['B64_E_2M'], c['B64_E_2L'], c['B64_E_2R'] = m.groups()
    c['B64_E_3M'] = one(r'b64alpha\[c\s*&\s*(\d+)\]', enc, 'b64encode fourth symbol')
    for pat, what in [
        (r"for\s*\(i\s*=\s*0\s*;\s*i\s*<\s*in->len\s*;\s*i\s*\+=\s*3\)", 'loop over triples'),
        (r"if\s*\(i\s*\+\s*1\s*>=\s*in->len\)\s*\*s\+\+\s*=\s*B64PAD\s*;", 'first padding test'),
        (r"if\s*\(i\s*\+\s*2\s*>=\s*in->len\)\s*\*s\+\+\s*=\s*B64PAD\s*;", 'second padding test'),
        (r"if\s*\(\+\+oline\s*>=\s*wraplimit\)", 'wrap test'),
        (r"shift\s*=\s*oline\s*-\s*wraplimit\s*\+\s*1\s*;", 'shift computation'),
        (r"oline\s*\+=\s*2\s*;", 'oline += 2'),
        (r"oline\s*=\s*shift\s*;", 'oline = shift'),
    ]:
        if not re.search(pat, enc):
            raise TranslateError('b64encode: %s not found' % what)
    out = HEADER % rel
    out += 'Definition B64_ALPHA : list N := %s.\n' % coq_bytes(alpha)
    out += 'Definition B64_PAD : N := %d%%N.\n' % padv[0]
    for k, v in c.items():
        ty = 'nat' if k in ('B64_DEC_SLACK', 'B64_GROUP', 'B64_BRK1', 'B64_BRK2', 'B64_E_MOVEBUF') else 'N'
        out += 'Definition %s : %s := %s%s.\n' % (k, ty, v, '' if ty == 'nat' else '%N')
    return out


GENERATORS = {'GenBase64.v': gen_base64}

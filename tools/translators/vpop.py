"""qsmtpd/backends/user_vpopm/vpop.c -> Gen/GenVpop.v

Data the C13 theorems hinge on: the ".qmail-" / "default" literals, the characters refused / replaced,
the sizes of the name buffers, the `def` flags of the four qmexists() call sites in order, the return
codes, and the errno classes of the two open() sites (which errno means "absent", "exists", "no memory").
errno numbers, PATH_MAX and NAME_MAX come from the system headers the code is compiled against (gcc -E -dM).
"""
import re, subprocess
from trlib import *

REL = 'qsmtpd/backends/user_vpopm/vpop.c'
SYS = ['ENOENT', 'ENOTDIR', 'ENAMETOOLONG', 'EACCES', 'EISDIR', 'ENOMEM', 'ENFILE', 'EMFILE', 'EFAULT', 'PATH_MAX', 'NAME_MAX']


def sysconsts():
    try:
        p = subprocess.run(['gcc', '-E', '-dM', '-D_GNU_SOURCE', '-'], input=b'#include <limits.h>\n#include <errno.h>\n',
                           stdout=subprocess.PIPE, stderr=subprocess.PIPE, timeout=60)
    except Exception as e:
        raise TranslateError('gcc -E -dM failed: %s' % e)
    d = {}
    for m in re.finditer(r'^#define (\w+) (\d+)\s*$', p.stdout.decode('latin-1'), flags=re.M):
        d[m.group(1)] = int(m.group(2))
    for k in SYS:
        if k not in d:
            raise TranslateError('system constant %s not found' % k)
    return d


def chr_lit(s, what):
    b = c_unescape(s)
    if len(b) != 1:
        raise TranslateError('%s: not a single character: %r' % (what, s))
    return b[0]


def gen_vpop(repo):
    src = strip_comments(read(repo, REL))
    sysc = sysconsts()
    hdr = strip_comments(read(repo, 'include/qsmtpd/qsmtpd.h'))
    edone = int(one(r'#define\s+EDONE\s+(\d+)', hdr, 'EDONE'))

    def errnos(names, what):
        out = []
        for n in names:
            if n not in sysc:
                raise TranslateError('%s: unknown errno %s' % (what, n))
            out.append(sysc[n])
        return out

    qm = func_body(src, 'qmexists', REL)
    ue = func_body(src, 'user_exists', REL)
    vg = func_body(src, 'vget_dir', REL)

    # ---- qmexists
    dotqm = c_unescape(one(r'static\s+const\s+char\s+dotqm\[\]\s*=\s*"([^"]*)"\s*;', qm, 'dotqm'))
    buf = one(r'char\s+filetmp\[(\w+)\]\s*;', qm, 'filetmp size')
    if buf != 'PATH_MAX':
        raise TranslateError('filetmp is no longer PATH_MAX bytes: %s' % buf)
    deflit, deflen = one(r'memcpy\(\s*filetmp\s*\+\s*l\s*,\s*"([^"]*)"\s*,\s*(\d+)\s*\)', qm, 'memcpy of "default"')
    deflit = c_unescape(deflit)
    if int(deflen) != len(deflit):
        raise TranslateError('memcpy length %s does not match literal "default"' % deflen)
    guard_def = one(r'if\s*\(\s*l\s*\+\s*(\d+)\s*>=\s*sizeof\(filetmp\)\s*\)\s*return\s+-ENOENT;\s*memcpy\(\s*filetmp\s*\+\s*l\s*,\s*"', qm, 'guard before "default"')
    if int(guard_def) != len(deflit):
        raise TranslateError('guard before "default" uses %s' % guard_def)
    if not re.search(r'if\s*\(\s*l\s*\+\s*len\s*>=\s*sizeof\(filetmp\)\s*\)\s*return\s+-ENOENT;', qm):
        raise TranslateError('qmexists: length guard for the suffix not found')
    if not re.search(r'if\s*\(\s*l\s*\+\s*1\s*>=\s*sizeof\(filetmp\)\s*\)\s*return\s+-ENOENT;', qm):
        raise TranslateError('qmexists: length guard for the dash not found')
    dot, = re.findall(r"memchr\(\s*filetmp\s*\+\s*l\s*,\s*'([^']+)'\s*,\s*len\s*\)", qm) or [None]
    if dot is None:
        raise TranslateError('qmexists: dot scan not found')
    colon = one(r"\*p\s*=\s*'([^']+)'\s*;", qm, 'dot replacement')
    dash = one(r"\*\(\s*filetmp\s*\+\s*l\s*\)\s*=\s*'([^']+)'\s*;", qm, 'dash before default')
    for pat, what in [(r'if\s*\(\s*def\s*&\s*2\s*\)', 'def & 2 test'), (r'if\s*\(\s*def\s*&\s*1\s*\)', 'def & 1 test'),
                      (r'filetmp\[l\]\s*=\s*0\s*;', 'terminator'),
                      (r'openat\(\s*domaindirfd\s*,\s*filetmp\s*,\s*O_RDONLY\s*\|\s*O_CLOEXEC\s*\)', 'openat relative to the domain directory')]:
        if not re.search(pat, qm):
            raise TranslateError('qmexists: %s not found' % what)
    # errno classes of the switch
    sw = one(r'switch\s*\(\s*errno\s*\)\s*\{(.*?)\n\t\t\}', qm, 'qmexists errno switch', re.S)
    groups = re.findall(r'((?:case\s+\w+\s*:\s*)+)(.*?)(?=case\s+\w+\s*:|default\s*:|$)', sw, flags=re.S)
    cls = {}
    for cases, body in groups:
        names = re.findall(r'case\s+(\w+)\s*:', cases)
        body = body.strip()
        if re.match(r'return\s+-ENOMEM\s*;', body):
            key = 'NOMEM'
        elif re.match(r'if\s*\(\s*fd\s*!=\s*NULL\s*\)\s*\*fd\s*=\s*-1\s*;\s*return\s+1\s*;', body):
            key = 'EXISTS'
        elif re.match(r'return\s+0\s*;', body):
            key = 'ABSENT'
        else:
            raise TranslateError('qmexists: unknown switch arm %r for %s' % (body[:60], names))
        if key in cls:
            raise TranslateError('qmexists: two switch arms of kind %s' % key)
        cls[key] = errnos(names, 'qmexists switch')
    for k in ('NOMEM', 'EXISTS', 'ABSENT'):
        if k not in cls:
            raise TranslateError('qmexists: switch arm %s missing' % k)
    if not re.search(r'default\s*:\s*tmpfd\s*=\s*errno\s*;\s*if\s*\(\s*err_control\(filetmp\)\s*==\s*0\s*\)\s*return\s+-EDONE\s*;', sw):
        raise TranslateError('qmexists: default arm changed')

    # ---- user_exists
    slash = chr_lit(one(r"if\s*\(\s*memchr\(\s*localpart->s\s*,\s*'([^']+)'\s*,\s*localpart->len\s*\)\s*\)\s*return\s+0\s*;", ue, 'refusal of /'), '/')
    m = re.search(r'if\s*\(\s*\(\s*localpart->len\s*>\s*0\s*\)\s*&&\s*\(\s*localpart->len\s*<=\s*(\d+)\s*\)\s*&&\s*'
                  r'\(\s*memcmp\(\s*localpart->s\s*,\s*"([^"]*)"\s*,\s*localpart->len\s*\)\s*==\s*0\s*\)\s*\)\s*return\s+0\s*;', ue)
    if not m:
        raise TranslateError('user_exists: refusal of "." and ".." not found')
    dots = c_unescape(m.group(2))
    if int(m.group(1)) != len(dots):
        raise TranslateError('user_exists: dot refusal compares %s bytes of %r' % (m.group(1), dots))
    notlocal = one(r'\}\s*else\s+if\s*\(\s*res\s*==\s*0\s*\)\s*\{\s*return\s+(\d+)\s*;', ue, 'not-local return code')
    # domain directory errno switch
    dsw = one(r'switch\s*\(\s*res\s*\)\s*\{(.*?)\n\t\t\}', ue, 'domain directory errno switch', re.S)
    dgroups = re.findall(r'((?:case\s+\w+\s*:\s*)+)(.*?)(?=case\s+\w+\s*:|default\s*:|$)', dsw, flags=re.S)
    dcls = {}
    for cases, body in dgroups:
        names = re.findall(r'case\s+(\w+)\s*:', cases)
        body = body.strip()
        if re.match(r'userconf_free\(ds\)\s*;\s*return\s+-res\s*;', body): key = 'ERR'
        elif re.match(r'userconf_free\(ds\)\s*;\s*return\s+0\s*;', body): key = 'ABSENT'
        elif re.match(r'return\s+1\s*;', body): key = 'EXISTS'
        else:
            raise TranslateError('user_exists: unknown domain switch arm %r' % body[:60])
        dcls[key] = errnos(names, 'domain switch')
    for k in ('ERR', 'ABSENT', 'EXISTS'):
        if k not in dcls:
            raise TranslateError('user_exists: domain switch arm %s missing' % k)
    # user directory
    if not re.search(r'ds->userdirfd\s*=\s*get_dirfd\(\s*ds->domaindirfd\s*,\s*fnbuf\s*\)\s*;\s*if\s*\(\s*ds->userdirfd\s*>=\s*0\s*\)\s*\{\s*return\s+(\d+)\s*;', ue):
        raise TranslateError('user_exists: user directory probe not found')
    rc_dir = one(r'if\s*\(\s*ds->userdirfd\s*>=\s*0\s*\)\s*\{\s*return\s+(\d+)\s*;', ue, 'user directory return code')
    soft = one(r'\}\s*else\s+if\s*\(((?:\s*\(\s*errno\s*!=\s*\w+\s*\)\s*&&)*\s*\(\s*errno\s*!=\s*\w+\s*\)\s*)\)\s*\{', ue, 'user directory soft errnos')
    dir_soft = errnos(re.findall(r'errno\s*!=\s*(\w+)', soft), 'user directory')
    # the four qmexists call sites, in order
    calls = re.findall(r'qmexists\(\s*ds->domaindirfd\s*,\s*([^,]+),\s*([^,]+),\s*(\d)\s*,\s*(\w+|&fd)\s*\)', ue)
    want = [('localpart->s', 'localpart->len', '2', 'NULL'), ('localpart->s', 'localpart->len', '3', 'NULL'),
            ('localpart->s', '(p - localpart->s)', '3', 'NULL'), ('NULL', '0', '1', '&fd')]
    got = [tuple(x.strip() for x in c) for c in calls]
    if [(a, b, d) for a, b, c, d in got] != [(a, b, d) for a, b, c, d in want]:
        raise TranslateError('user_exists: qmexists call sites changed: %r' % (got,))
    flags = [int(c[2]) for c in got]
    rc_qm = one(r'if\s*\(\s*res\s*>\s*0\s*\)\s*\{\s*return\s+(\d+)\s*;\s*\}\s*else\s+if\s*\(\s*res\s*<\s*0\s*\)\s*\{\s*userconf_free\(ds\)\s*;\s*return\s+res\s*;\s*\}\s*p\s*=\s*memchr\(\s*localpart->s', ue, '.qmail-local return code')
    dashc = chr_lit(one(r"p\s*=\s*memchr\(\s*localpart->s\s*,\s*'([^']+)'\s*,\s*localpart->len\s*\)\s*;", ue, 'first dash scan'), 'dash')
    dash2 = chr_lit(one(r"p\s*=\s*memchr\(\s*p\s*\+\s*1\s*,\s*'([^']+)'\s*,\s*localpart->len\s*-\s*\(\s*p\s*\+\s*1\s*-\s*localpart->s\s*\)\s*\)\s*;", ue,
                        'dash scan bounded by the local part'), 'dash')
    if dashc != dash2:
        raise TranslateError('user_exists: the two dash scans differ')
    rc_prefix = one(r'while\s*\(\s*p\s*\)\s*\{.*?if\s*\(\s*res\s*>\s*0\s*\)\s*\{\s*return\s+(\d+)\s*;', ue, 'prefix return code', re.S)
    rc_catch = allsame(r'return\s+(2)\s*;', ue, 'catch-all return code', 2)
    if not re.search(r'if\s*\(\s*strcmp\(\s*buff\s*,\s*vpopbounce\s*\)\s*==\s*0\s*\)\s*\{\s*userconf_free\(ds\)\s*;\s*return\s+0\s*;', ue):
        raise TranslateError('user_exists: bounce comparison changed')
    bmul, badd = one(r'char\s+buff\[\s*(\d+)\s*\*\s*strlen\(vpopbounce\)\s*\+\s*(\d+)\s*\]\s*;', ue, 'bounce buffer')
    if not re.search(r'r\s*=\s*read\(\s*fd\s*,\s*buff\s*,\s*sizeof\(buff\)\s*-\s*1\s*\)\s*;', ue) or int(badd) != 1:
        raise TranslateError('user_exists: bounce read changed')
    if not re.search(r'else\s+if\s*\(\s*\(\s*vpopbounce\s*!=\s*NULL\s*\)\s*&&\s*\(\s*fd\s*!=\s*-1\s*\)\s*\)', ue):
        raise TranslateError('user_exists: bounce condition changed')

    # ---- vget_dir
    keysz = one(r'char\s+cdb_key\[(\d+)\]\s*;', vg, 'cdb_key size')
    if not re.search(r'cdbkeylen\s*=\s*strlen\(domain\)\s*\+\s*2\s*;\s*if\s*\(\s*cdbkeylen\s*\+\s*1\s*>=\s*sizeof\(cdb_key\)\s*\)\s*return\s+-EFAULT\s*;', vg):
        raise TranslateError('vget_dir: key length guard changed')
    kfirst = chr_lit(one(r"cdb_key\[0\]\s*=\s*'([^']+)'\s*;", vg, 'key prefix'), 'key prefix')
    klast = chr_lit(one(r"cdb_key\[cdbkeylen\s*-\s*1\]\s*=\s*'([^']+)'\s*;", vg, 'key suffix'), 'key suffix')

    # ---- addrparse.c: what becomes of the result of user_exists()
    ap = func_body(strip_comments(read(repo, 'qsmtpd/addrparse.c')), 'addrparse', 'qsmtpd/addrparse.c')
    if not re.search(r'string\s+localpart\s*=\s*\{\s*\.len\s*=\s*\(\s*at\s*-\s*addr->s\s*\)\s*,\s*\.s\s*=\s*addr->s\s*\}\s*;\s*j\s*=\s*user_exists\(\s*&localpart\s*,\s*lookupdomain\s*,\s*ds\s*\)\s*;', ap):
        raise TranslateError('addrparse: call of user_exists changed')
    if not re.search(r'if\s*\(\s*j\s*<\s*0\s*\)\s*\{\s*free\(addr->s\)\s*;\s*STREMPTY\(\*addr\)\s*;\s*return\s+-j\s*;\s*\}\s*else\s+if\s*\(\s*!j\s*\)\s*\{', ap):
        raise TranslateError('addrparse: mapping of the user_exists result changed')
    nopre, nopost = one(r'const\s+char\s*\*logmsg\[\]\s*=\s*\{\s*"([^"]*)"\s*,\s*addr->s\s*,\s*"([^"]*)"\s*,\s*NULL\s*\}\s*;\s*tarpit\(\)\s*;\s*int\s+result\s*=\s*net_writen\(logmsg\)\s*;', ap, 'no such user reply')
    if not re.search(r'return\s+result\s*\?\s*-result\s*:\s*-1\s*;\s*\}\s*return\s+0\s*;', ap):
        raise TranslateError('addrparse: return values changed')
    tag = one(r'if\s*\(\s*strncasecmp\(\s*at\s*\+\s*intro\s*,\s*"([^"]*)"\s*,\s*strlen\("([^"]*)"\)\s*\)\s*==\s*0\s*\)\s*intro\s*\+=\s*strlen\("[^"]*"\)\s*;', ap, 'IPv6 tag of an address literal')
    if tag[0] != tag[1]:
        raise TranslateError('addrparse: IPv6 tag literals differ')
    if not re.search(r'if\s*\(\s*\(\s*strncmp\(\s*at\s*\+\s*intro\s*,\s*xmitstat\.localip\s*,\s*liplen\s*\)\s*!=\s*0\s*\)\s*\|\|\s*\(\s*\*\(\s*at\s*\+\s*intro\s*\+\s*liplen\s*\)\s*!=\s*\'\]\'\s*\)\s*\)\s*\{\s*lookupdomain\s*=\s*NULL\s*;\s*j\s*=\s*0\s*;\s*\}\s*else\s*\{\s*lookupdomain\s*=\s*liphost\.s\s*;', ap):
        raise TranslateError('addrparse: comparison of an address literal with the local IP changed')
    asx = strip_comments(read(repo, 'qsmtpd/addrsyntax.c'))
    if not re.search(r"if\s*\(\s*\(\s*addr->s\[len\]\s*>=\s*'A'\s*\)\s*&&\s*\(\s*addr->s\[len\]\s*<=\s*'Z'\s*\)\s*\)\s*addr->s\[len\]\s*=\s*addr->s\[len\]\s*\+\s*\(\s*'a'\s*-\s*'A'\s*\)\s*;", asx):
        raise TranslateError('addrsyntax: lower-casing of the address changed')

    out = HEADER % REL
    def nat(k, v): return 'Definition %s : nat := %d.\n' % (k, v)
    def n(k, v): return 'Definition %s : N := %d%%N.\n' % (k, v)
    def z(k, v): return 'Definition %s : Z := (%d)%%Z.\n' % (k, v)
    def lst(k, v): return 'Definition %s : list N := %s.\n' % (k, coq_bytes(v))
    out = out.replace('NArith', 'NArith ZArith')
    out += lst('VP_DOTQM', dotqm) + lst('VP_DEFAULT', deflit) + lst('VP_DOTS', dots)
    out += n('VP_SLASH', slash) + n('VP_DOT', chr_lit(dot, 'dot')) + n('VP_COLON', chr_lit(colon, 'colon'))
    out += n('VP_DASH', chr_lit(dash, 'dash')) + n('VP_SCANDASH', dashc)
    out += n('VP_KEY_FIRST', kfirst) + n('VP_KEY_LAST', klast)
    out += lst('VP_NOUSER_PRE', c_unescape(nopre)) + lst('VP_NOUSER_POST', c_unescape(nopost)) + lst('VP_IPV6TAG', c_unescape(tag[0]))
    out += nat('VP_PATH_MAX', sysc['PATH_MAX']) + nat('VP_NAME_MAX', sysc['NAME_MAX']) + nat('VP_CDBKEY', int(keysz))
    out += nat('VP_BOUNCE_MUL', int(bmul))
    out += 'Definition VP_QM_FLAGS : list nat := [%s].\n' % '; '.join(str(f) for f in flags)
    out += z('VP_RC_DIR', int(rc_dir)) + z('VP_RC_QMAIL', int(rc_qm)) + z('VP_RC_PREFIX', int(rc_prefix)) + z('VP_RC_CATCHALL', int(rc_catch))
    out += z('VP_RC_NOTLOCAL', int(notlocal))
    for k in ('ENOENT', 'ENOTDIR', 'ENAMETOOLONG', 'EACCES', 'EISDIR', 'ENOMEM', 'ENFILE', 'EMFILE', 'EFAULT'):
        out += n('VP_' + k, sysc[k])
    out += n('VP_EDONE', edone)
    out += lst('VP_QM_NOMEM', cls['NOMEM']) + lst('VP_QM_EXISTS', cls['EXISTS']) + lst('VP_QM_ABSENT', cls['ABSENT'])
    out += lst('VP_DIR_SOFT', dir_soft)
    out += lst('VP_DOM_ERR', dcls['ERR']) + lst('VP_DOM_ABSENT', dcls['ABSENT']) + lst('VP_DOM_EXISTS', dcls['EXISTS'])
    return out


GENERATORS = {'GenVpop.v': gen_vpop}

"""qremote/qrbdat.c -> Gen/GenBdat.v (constants of send_bdat: reserved header space, margins, command strings)"""
import re
from trlib import *


def _bytes_def(name, lit):
    return 'Definition %s : list N := %s.\n' % (name, coq_bytes(c_unescape(lit)))


def gen_bdat(repo):
    rel = 'qremote/qrbdat.c'
    src = strip_comments(read(repo, rel))
    fn = func_body(src, 'send_bdat', rel)
    c = {}
    # lenlen: one per decimal digit of chunksize, plus a fixed reserve
    c['BD_BASE'] = allsame(r'\b(?:i|hl)\s*/=\s*(\d+)\s*;', fn, 'send_bdat digit loops', 2)
    c['BD_RESERVE'] = one(r'lenlen\s*\+=\s*(\d+)\s*;', fn, 'send_bdat lenlen reserve')
    # inner loop bound:  len + linel < chunksize - M
    c['BD_CS_MARGIN'] = one(r'len\s*\+\s*linel\s*<\s*chunksize\s*-\s*(\d+)\s*\)', fn, 'send_bdat inner loop bound')
    # skip of the LF that follows a chunk-final CR:  off < msgsize [- K]
    m = re.findall(r'if\s*\(\s*\(\s*off\s*<\s*msgsize\s*(?:-\s*(\d+)\s*)?\)\s*&&\s*\(\s*msgdata\[off\]\s*==\s*\'\\n\'\s*\)\s*\)', fn)
    if len(m) != 1:
        raise TranslateError('send_bdat: LF skip test after a chunk-final CR not found (found %d)' % len(m))
    c['BD_SKIP_MARGIN'] = m[0] or '0'
    # header length bookkeeping
    c['BD_HDR_FIXED'] = one(r'\n\s*i\s*=\s*(\d+)\s*;', fn, 'send_bdat fixed header length')
    c['BD_LAST_ADD'] = one(r'\n\s*i\s*\+=\s*(\d+)\s*;', fn, 'send_bdat LAST length')
    cmd = one(r'memcpy\(\s*chunkbuf\s*\+\s*hl\s*,\s*"((?:[^"\\]|\\.)*)"\s*,\s*(\d+)\s*\)', fn, 'send_bdat command memcpy')
    last = one(r'memcpy\(\s*chunkbuf\s*\+\s*lenlen\s*-\s*(\d+)\s*,\s*"((?:[^"\\]|\\.)*)"\s*,\s*(\d+)\s*\)', fn, 'send_bdat LAST memcpy')
    c['BD_CMD_LEN'] = cmd[1]
    c['BD_LAST_BACK'] = last[0]
    c['BD_LAST_LEN'] = last[2]
    c['BD_NUM_OFF'] = one(r'ultostr\(\s*len\s*-\s*lenlen\s*,\s*chunkbuf\s*\+\s*hl\s*\+\s*(\d+)\s*\)', fn, 'send_bdat ultostr destination')
    c['BD_CR_BACK'] = one(r"chunkbuf\[\s*lenlen\s*-\s*(\d+)\s*\]\s*=\s*'\\r'\s*;", fn, 'send_bdat header CR')
    c['BD_LF_BACK'] = one(r"chunkbuf\[\s*lenlen\s*-\s*(\d+)\s*\]\s*=\s*'\\n'\s*;", fn, 'send_bdat header LF')
    # structural facts the hand model relies on (presence tests; their absence is a broken tie)
    for pat, what in [
        (r'char\s*\*\s*chunkbuf\s*=\s*malloc\(\s*chunksize\s*\)\s*;', 'chunkbuf = malloc(chunksize)'),
        (r'size_t\s+len\s*=\s*lenlen\s*;', 'len starts at lenlen'),
        (r'size_t\s+cpoff\s*=\s*off\s*;', 'cpoff starts at off'),
        (r'size_t\s+linel\s*=\s*0\s*;', 'linel starts at 0'),
        (r'for\s*\(\s*off_t\s+off\s*=\s*0\s*;\s*off\s*<\s*msgsize\s*;\s*\)', 'outer loop over off'),
        (r'while\s*\(\s*\(\s*off\s*<\s*msgsize\s*\)\s*&&', 'inner loop bound on off'),
        (r"if\s*\(\s*msgdata\[off\]\s*==\s*'\\n'\s*\)\s*\{\s*if\s*\(\s*!linel\s*\)", 'LF / empty-line test'),
        (r"else\s+if\s*\(\s*linel\s*&&\s*msgdata\[off\s*-\s*1\]\s*!=\s*'\\r'\s*\)", 'bare-LF test'),
        (r'len\s*\+=\s*linel\+\+\s*;', 'len += linel++'),
        (r'cpoff\s*\+=\s*linel\s*;\s*linel\s*=\s*0\s*;', 'cpoff += linel; linel = 0'),
        (r"if\s*\(\s*msgdata\[off\s*-\s*1\]\s*==\s*'\\r'\s*\)\s*\{", 'chunk-final CR test'),
        (r'hl\s*=\s*len\s*-\s*lenlen\s*;', 'hl = len - lenlen'),
        (r'hl\s*=\s*lenlen\s*-\s*i\s*;', 'hl = lenlen - i'),
        (r'netnwrite\(\s*chunkbuf\s*\+\s*hl\s*,\s*len\s*-\s*hl\s*\)', 'netnwrite(chunkbuf + hl, len - hl)'),
        (r'if\s*\(\s*off\s*==\s*msgsize\s*\)\s*\{\s*i\s*\+=', 'LAST only when off == msgsize (length)'),
        (r'if\s*\(\s*off\s*==\s*msgsize\s*\)\s*\{\s*memcpy', 'LAST only when off == msgsize (text)'),
        (r'if\s*\(\s*off\s*!=\s*msgsize\s*\)\s*\{[^}]*checkreply\(\s*" ZD"\s*,\s*NULL\s*,\s*0\s*\)\s*!=\s*250', 'intermediate reply must be 250'),
    ]:
        if not re.search(pat, fn):
            raise TranslateError('send_bdat: %s not found' % what)
    out = HEADER % rel
    for k, v in c.items():
        out += 'Definition %s : nat := %s.\n' % (k, v)
    out += _bytes_def('BD_CMD', cmd[0])
    out += _bytes_def('BD_LAST', last[1])
    # ultostr (lib/fmt.c): base and the terminating NUL
    rel2 = 'lib/fmt.c'
    f2 = func_body(strip_comments(read(repo, rel2)), 'ultostr', rel2)
    out += 'Definition UL_BASE : nat := %s.\n' % allsame(r'(?:/=|%)\s*(\d+)', f2, 'ultostr base', 3)
    for pat, what in [
        (r'int\s+j\s*=\s*1\s*;', 'j = 1'),
        (r'while\s*\(\s*v\s*/=\s*\d+\s*\)\s*\{\s*j\+\+\s*;', 'digit count loop'),
        (r"res\[j\]\s*=\s*'\\0'\s*;", 'terminating NUL'),
        (r"res\[--j\]\s*=\s*'0'\s*\+\s*v\s*%\s*\d+\s*;", 'digit store'),
        (r'\}\s*while\s*\(\s*j\s*\)\s*;', 'do-while (j)'),
    ]:
        if not re.search(pat, f2):
            raise TranslateError('ultostr: %s not found' % what)
    return out


GENERATORS = {'GenBdat.v': gen_bdat}

"""qremote/qrbdat.c -> Gen/GenBdat.v (constants of send_bdat: reserved header space, margins, command strings)"""
import re
from trlib import *


def _bytes_def(name, lit):
    return 'Definition %s : list N := %s.\n' % (name, coq_bytes(c_unescape(lit)))


def gen_bdat(repo):
    rel = 'qremote/qrbdat.c'
    src = strip_comments(read(repo, rel))
    fn = func_body(src, 'send_bdat', rel)
    c = {}
    # lenlen: one per decimal digit of chunksize, plus a fixed reserve
    c['BD_BASE'] = allsame(r'\b(?:i|hl)\s*/=\s*(\d+)\s*;', fn, 'send_bdat digit loops', 2)
    c['BD_RESERVE'] = one(r'lenlen\s*\+=\s*(\d+)\s*;', fn, 'send_bdat lenlen reserve')
    # inner loop bound:  len + linel < chunksize - M
    c['BD_CS_MARGIN'] = one(r'len\s*\+\s*linel\s*<\s*chunksize\s*-\s*(\d+)\s*\)', fn, 'send_bdat inner loop bound')
    # skip of the LF that follows a chunk-final CR:  off < msgsize [- K]
    m = re.findall(r'if\s*\(\s*\(\s*off\s*<\s*msgsize\s*(?:-\s*(\d+)\s*)?\)\s*&&\s*\(\s*msgdata\[off\]\s*==\s*\'\\n\'\s*\)\s*\)', fn)
    if len(m) != 1:
        raise TranslateError('send_bdat: LF skip test after a chunk-final CR not found (found %d)' % len(m))
    c['BD_SKIP_MARGIN'] = m[0] or '0'
    # header length bookkeeping
    c['BD_HDR_FIXED'] = one(r'\n\s*i\s*=\s*(\d+)\s*;', fn, 'send_bdat fixed header length')
    c['BD_LAST_ADD'] = one(r'\n\s*i\s*\+=\s*(\d+)\s*;', fn, 'send_bdat LAST length')
    cmd = one(r'memcpy\(\s*chunkbuf\s*\+\s*hl\s*,\s*"((?:[^"\\]|\\.)*)"\s*,\s*(\d+)\s*\)', fn, 'send_bdat command memcpy')
    last = one(r'memcpy\(\s*chunkbuf\s*\+\s*lenlen\s*-\s*(\d+)\s*,\s*"((?:[^"\\]|\\.)*)"\s*,\s*(\d+)\s*\)', fn, 'send_bdat LAST memcpy')
    c['BD_CMD_LEN'] = cmd[1]
    c['BD_LAST_BACK'] = last[0]
    c['BD_LAST_LEN'] = last[2]
    c['BD_NUM_OFF'] = one(r'ultostr\(\s*len\s*-\s*lenlen\s*,\s*chunkbuf\s*\+\s*hl\s*\+\s*(\d+)\s*\)', fn, 'send_bdat ultostr destination')
    c['BD_CR_BACK'] = one(r"chunkbuf\[\s*lenlen\s*-\s*(\d+)\s*\]\s*=\s*'\\r'\s*;", fn, 'send_bdat header CR')
    c['BD_LF_BACK'] = one(r"chunkbuf\[\s*lenlen\s*-\s*(\d+)\s*\]\s*=\s*'\\n'\s*;", fn, 'send_bdat header LF')
    # structural facts the hand model relies on (presence tests; their absence is a broken tie)
    for pat, what in [
        (r'char\s*\*\s*chunkbuf\s*=\s*malloc\(\s*chunksize\s*\)\s*;', 'chunkbuf = malloc(chunksize)'),
        (r'size_t\s+len\s*=\s*lenlen\s*;', 'len starts at lenlen'),
        (r'size_t\s+cpoff\s*=\s*off\s*;', 'cpoff starts at off'),
        (r'size_t\s+linel\s*=\s*0\s*;', 'linel starts at 0'),
        (r'for\s*\(\s*off_t\s+off\s*=\s*0\s*;\s*off\s*<\s*msgsize\s*;\s*\)', 'outer loop over off'),
        (r'while\s*\(\s*\(\s*off\s*<\s*msgsize\s*\)\s*&&', 'inner loop bound on off'),
        (r"if\s*\(\s*msgdata\[off\]\s*==\s*'\\n'\s*\)\s*\{\s*if\s*\(\s*!linel\s*\)", 'LF / empty-line test'),
        (r"else\s+if\s*\(\s*linel\s*&&\s*msgdata\[off\s*-\s*1\]\s*!=\s*'\\r'\s*\)", 'bare-LF test'),
        (r'len\s*\+=\s*linel\+\+\s*;', 'len += linel++'),
        (r'cpoff\s*\+=\s*linel\s*;\s*linel\s*=\s*0\s*;', 'cpoff += linel; linel = 0'),
        (r"if\s*\(\s*msgdata\[off\s*-\s*1\]\s*==\s*'\\r'\s*\)\s*\{", 'chunk-final CR test'),
        (r'hl\s*=\s*len\s*-\s*lenlen\s*;', 'hl = len - lenlen'),
        (r'hl\s*=\s*lenlen\s*-\s*i\s*;', 'hl = lenlen - i'),
        (r'netnwrite\(\s*chunkbuf\s*\+\s*hl\s*,\s*len\s*-\s*hl\s*\)', 'netnwrite(chunkbuf + hl, len - hl)'),
        (r'if\s*\(\s*off\s*==\s*msgsize\s*\)\s*\{\s*i\s*\+=', 'LAST only when off == msgsize (length)'),
        (r'if\s*\(\s*off\s*==\s*msgsize\s*\)\s*\{\s*memcpy', 'LAST only when off == msgsize (text)'),
        (r'if\s*\(\s*off\s*!=\s*msgsize\s*\)\s*\{[^}]*checkreply\(\s*" ZD"\s*,\s*NULL\s*,\s*0\s*\)\s*!=\s*250', 'intermediate reply must be 250'),
    ]:
        if not re.search(pat, fn):
            raise TranslateError('send_bdat: %s not found' % what)
    out = HEADER % rel
    for k, v in c.items():
        out += 'Definition %s : nat := %s.\n' % (k, v)
    out += _bytes_def('BD_CMD', cmd[0])
    out += _bytes_def('BD_LAST', last[1])
    # ultostr (lib/fmt.c): base and the terminating NUL
    rel2 = 'lib/fmt.c'
    f2 = func_body(strip_comments(read(repo, rel2)), 'ultostr', rel2)
    out += 'Definition UL_BASE : nat := %s.\n' % allsame(r'(?:/=|%)\s*(\d+)', f2, 'ultostr base', 3)
    for pat, what in [
        (r'int\s+j\s*=\s*1\s*;', 'j = 1'),
        (r'while\s*\(\s*v\s*/=\s*\d+\s*\)\s*\{\s*j\+\+\s*;', 'digit count loop'),
        (r"res\[j\]\s*=\s*'\\0'\s*;", 'terminating NUL'),
        (r"res\[--j\]\s*=\s*'0'\s*\+\s*v\s*%\s*\d+\s*;", 'digit store'),
        (r'\}\s*while\s*\(\s*j\s*\)\s*;', 'do-while (j)'),
    ]:
        if not re.search(pat, f2):
            raise TranslateError('ultostr: %s not found' % what)
    return out


def gen_bdat_rx(repo):
    """receiving side: qsmtpd/data.c:smtp_bdat and lib/netio.c:net_readbin/readinput"""
    rel = 'qsmtpd/data.c'
    src = strip_comments(read(repo, rel))
    c = {}
    c['RX_KIB'] = one(r'#define\s+CHUNK_READ_SIZE\s+\(\s*INCOMING_CHUNK_SIZE\s*\*\s*(\d+)\s*\)', src, 'CHUNK_READ_SIZE')
    fn = func_body(src, 'smtp_bdat', rel)
    c['RX_READ_BACK'] = one(r'net_readbin\(\s*sizeof\(inbuf\)\s*-\s*(\d+)\s*,\s*inbuf\s*\)', fn, 'smtp_bdat full-buffer read')
    for pat, what in [
        (r'char\s+inbuf\[CHUNK_READ_SIZE\]\s*;', 'inbuf[CHUNK_READ_SIZE]'),
        (r'if\s*\(\s*chunksize\s*>=\s*sizeof\(inbuf\)\s*\)', 'chunksize >= sizeof(inbuf)'),
        (r'chunk\s*=\s*net_readbin\(\s*chunksize\s*,\s*inbuf\s*\)', 'net_readbin(chunksize, inbuf)'),
        (r'if\s*\(\s*comstate\s*!=\s*0x0800\s*\)\s*\{\s*msgsize\s*=\s*0\s*;\s*comstate\s*=\s*0x0800\s*;\s*lastcr\s*=\s*0\s*;\s*bdaterr\s*=\s*queue_init\(\)\s*;',
         'transaction start (msgsize, comstate, lastcr, queue_init)'),
        (r'if\s*\(\s*!bdaterr\s*\)\s*bdaterr\s*=\s*write_received\(\s*1\s*\)\s*;', 'write_received(1)'),
        (r'if\s*\(\s*chunk\s*==\s*\(size_t\)\s*-1\s*\)\s*\{\s*if\s*\(\s*!bdaterr\s*\)\s*bdaterr\s*=\s*errno\s*;\s*break\s*;', 'read error handling'),
        (r'chunksize\s*-=\s*chunk\s*;\s*msgsize\s*\+=\s*chunk\s*;', 'chunksize -= chunk; msgsize += chunk'),
        (r"if\s*\(\s*lastcr\s*&&\s*\(\s*inbuf\[0\]\s*!=\s*'\\n'\s*\)\s*\)\s*WRITEL\(\s*\"\\r\"\s*\)\s*;", 'held-back CR is written when no LF follows'),
        (r"lastcr\s*=\s*\(\s*inbuf\[chunk\s*-\s*1\]\s*==\s*'\\r'\s*\)\s*;\s*if\s*\(\s*lastcr\s*\)\s*chunk--\s*;", 'trailing CR held back'),
        (r"rlen\s*=\s*chunk\s*;\s*inbuf\[chunk\]\s*=\s*'\\0'\s*;", 'rlen = chunk; inbuf[chunk] = 0'),
        (r"while\s*\(\s*\(\s*rlen\s*>\s*0\s*\)\s*&&\s*\(\s*cr\s*!=\s*NULL\s*\)\s*\)\s*\{\s*cr\s*=\s*memchr\(\s*cr\s*,\s*'\\r'\s*,\s*rlen\s*\)\s*;", 'CRLF loop head'),
        (r"while\s*\(\s*\(\s*cr\s*!=\s*NULL\s*\)\s*&&\s*\(\s*cr\[1\]\s*!=\s*'\\n'\s*\)\s*\)\s*\{\s*const\s+ptrdiff_t\s+o\s*=\s*cr\s*-\s*pos\s*;\s*cr\s*=\s*memchr\(\s*cr\s*\+\s*1\s*,\s*'\\r'\s*,\s*rlen\s*-\s*o\s*\)\s*;", 'bare CR skip loop'),
        (r"const\s+ptrdiff_t\s+l\s*=\s*cr\s*-\s*pos\s*\+\s*1\s*;\s*cr\[0\]\s*=\s*'\\n'\s*;\s*WRITE\(\s*pos\s*,\s*l\s*\)\s*;\s*rlen\s*-=\s*l\s*\+\s*1\s*;\s*cr\s*\+=\s*2\s*;\s*pos\s*=\s*cr\s*;", 'CRLF line write'),
        (r'if\s*\(\s*\(\s*msgsize\s*>\s*maxbytes\s*\)\s*&&\s*!bdaterr\s*\)', 'size limit'),
        (r'if\s*\(\s*\*more\s*&&\s*!bdaterr\s*\)\s*\{\s*if\s*\(\s*queue_envelope\(\s*msgsize\s*,\s*1\s*\)\s*\)\s*goto\s+err_write\s*;\s*return\s+queue_result\(\)\s*;', 'envelope only for LAST without error'),
        (r'if\s*\(\s*bdaterr\s*\)\s*\{\s*if\s*\(\s*queuefd_hdr\s*>=\s*0\s*\)\s*queue_reset\(\)\s*;\s*freedata\(\)\s*;', 'error: queue_reset, freedata'),
    ]:
        if not re.search(pat, fn):
            raise TranslateError('smtp_bdat: %s not found' % what)
    # which version: the CR held back at the end of the data is re-inserted inside the read loop (original) or behind it (repaired)
    inloop = re.search(r"if\s*\(\s*\(\s*\*more\s*!=\s*'\\0'\s*\)\s*&&\s*lastcr\s*&&\s*\(\s*chunksize\s*==\s*0\s*\)\s*\)\s*\{\s*pos\[rlen\+\+\]\s*=\s*'\\r'\s*;\s*\}\s*WRITE\(\s*pos\s*,\s*rlen\s*\)\s*;", fn)
    after = re.search(r"WRITE\(\s*pos\s*,\s*rlen\s*\)\s*;\s*\}\s*\}\s*if\s*\(\s*\(\s*\*more\s*!=\s*'\\0'\s*\)\s*&&\s*lastcr\s*&&\s*!bdaterr\s*\)\s*\{\s*WRITEL\(\s*\"\\r\"\s*\)\s*;\s*lastcr\s*=\s*0\s*;\s*\}\s*if\s*\(\s*\(\s*msgsize\s*>\s*maxbytes\s*\)", fn)
    anycr = len(re.findall(r"pos\[rlen\+\+\]", fn))
    if after and not inloop and anycr == 0:
        fixed = 'true'
    elif inloop and not after and anycr == 1:
        fixed = 'false'
    else:
        raise TranslateError('smtp_bdat: handling of a CR held back at the end of the data not recognised')
    if not re.search(r'WRITE\(\s*pos\s*,\s*rlen\s*\)\s*;', fn):
        raise TranslateError('smtp_bdat: final WRITE(pos, rlen) not found')
    rel2 = 'lib/netio.c'
    s2 = strip_comments(read(repo, rel2))
    c['RX_LINEBUF'] = one(r'static\s+char\s+lineinbuf\[(\d+)\]\s*;', s2, 'lineinbuf size')
    if not re.search(r'static\s+char\s+lineinn\[sizeof\(lineinbuf\)\]\s*;', s2):
        raise TranslateError('netio.c: lineinn[sizeof(lineinbuf)] not found')
    rb = func_body(s2, 'net_readbin', rel2)
    c['RB_EXTRA'] = one(r'readinput\(\s*buf\s*\+\s*offs\s*,\s*num\s*\+\s*(\d+)\s*,\s*1\s*\)', rb, 'net_readbin readinput length')
    for pat, what in [
        (r'if\s*\(\s*linenlen\s*\)\s*\{\s*if\s*\(\s*linenlen\s*>\s*num\s*\)\s*\{\s*get_from_inbuffer\(\s*buf\s*,\s*num\s*,\s*0\s*\)\s*;\s*return\s+num\s*;', 'buffered data first'),
        (r'memcpy\(\s*buf\s*,\s*lineinn\s*,\s*linenlen\s*\)\s*;\s*num\s*-=\s*linenlen\s*;\s*offs\s*=\s*linenlen\s*;\s*linenlen\s*=\s*0\s*;', 'buffer drained'),
        (r'while\s*\(\s*num\s*\)\s*\{', 'read loop'),
        (r'if\s*\(\s*r\s*==\s*\(size_t\)\s*-1\s*\)\s*return\s+-1\s*;\s*offs\s*\+=\s*r\s*;\s*num\s*-=\s*r\s*;', 'read accounting'),
    ]:
        if not re.search(pat, rb):
            raise TranslateError('net_readbin: %s not found' % what)
    ri = func_body(s2, 'readinput', rel2)
    c['RI_BACK'] = one(r'retval\s*=\s*read\(\s*rfd\.fd\s*,\s*buffer\s*,\s*len\s*-\s*(\d+)\s*\)', ri, 'readinput read length')
    if not re.search(r"buffer\[retval\]\s*=\s*'\\0'\s*;", ri):
        raise TranslateError('readinput: terminating NUL not found')
    # ---- argument parser of smtp_bdat
    m = re.search(r"if\s*\(\s*\(\s*linein\.s\[(\d+)\]\s*<\s*'(.)'\s*\)\s*\|\|\s*\(\s*linein\.s\[(\d+)\]\s*>\s*'(.)'\s*\)\s*\)\s*return\s+EINVAL\s*;\s*errno\s*=\s*0\s*;\s*"
                  r"unsigned\s+long\s+long\s+chunksize\s*=\s*strtoull\(\s*linein\.s\s*\+\s*(\d+)\s*,\s*&more\s*,\s*(\d+)\s*\)\s*;\s*"
                  r"if\s*\(\s*\(\s*errno\s*==\s*ERANGE\s*\)\s*\|\|\s*\(\s*\*more\s*&&\s*\(\s*\*more\s*!=\s*'(.)'\s*\)\s*\)\s*\)\s*return\s+EINVAL\s*;\s*"
                  r'if\s*\(\s*\*more\s*&&\s*strcasecmp\(\s*more\s*\+\s*1\s*,\s*"([^"]*)"\s*\)\s*\)\s*return\s+EINVAL\s*;', fn)
    if not m or len({m.group(1), m.group(3), m.group(5)}) != 1:
        raise TranslateError('smtp_bdat: argument parser (digit test, strtoull, blank, strcasecmp "LAST") not recognised')
    if not re.search(r'if\s*\(\s*!goodrcpt\s*\)\s*\{\s*tarpit\(\)\s*;\s*return\s+netwrite\(\s*"554 [^"]*"\s*\)\s*\?\s*errno\s*:\s*EDONE\s*;\s*\}\s*if\s*\(\s*\(\s*linein\.s\[', fn):
        raise TranslateError('smtp_bdat: recipient test in front of the argument parser not found')
    c['BDAT_ARG_OFF'] = m.group(1)
    c['BDAT_BASE'] = m.group(6)
    nconst = {'BDAT_DIGIT_LO': ord(m.group(2)), 'BDAT_DIGIT_HI': ord(m.group(4)), 'BDAT_SEP': ord(m.group(7))}
    lastword = m.group(8)
    # ---- the dispatcher row and the tests smtploop() makes before calling the handler (the harness re-implements them)
    rel3 = 'qsmtpd/qsmtpd.c'
    s3 = strip_comments(read(repo, rel3))
    row = one(r'_C\(\s*"BDAT"\s*,\s*(0x[0-9a-fA-F]+)\s*,\s*smtp_bdat\s*,\s*(-?\d+)\s*,\s*(\d+)\s*\)', s3, 'commands[] row of BDAT')
    if int(row[0], 16) != 0x0840 or row[1] != '-1' or row[2] != '5':
        raise TranslateError('commands[] row of BDAT changed (%r): harness/bdat_rx.c re-implements mask 0x0840, state -1, flags 5' % (row,))
    nconst['BDAT_MASK'] = int(row[0], 16)
    c['BDAT_FLAGS'] = row[2]
    c['BDAT_NAME_LEN'] = str(len('BDAT'))
    c['RX_CMD_LINE_MAX'] = one(r'if\s*\(\s*!\(\s*commands\[i\]\.flags\s*&\s*2\s*\)\s*&&\s*\(\s*linein\.len\s*>\s*(\d+)\s*\)\s*\)', s3, 'smtploop line length test')
    for pat, what in [
        (r'if\s*\(\s*comstate\s*&\s*commands\[i\]\.mask\s*\)', 'mask test'),
        (r"else\s+if\s*\(\s*\(\s*commands\[i\]\.flags\s*&\s*4\s*\)\s*&&\s*\(\s*linein\.s\[commands\[i\]\.len\]\s*!=\s*' '\s*\)\s*\)\s*\{\s*flagbogus\s*=\s*EINVAL\s*;", 'blank-behind-the-name test'),
        (r'flagbogus\s*=\s*E2BIG\s*;\s*break\s*;', 'E2BIG for a long line'),
        (r'\}\s*else\s+flagbogus\s*=\s*1\s*;', 'flagbogus = 1 outside the mask'),
    ]:
        if not re.search(pat, s3):
            raise TranslateError('smtploop: %s not found' % what)
    rel4 = 'qsmtpd/commands.c'
    rs = func_body(strip_comments(read(repo, rel4)), 'smtp_rset', rel4)
    if not re.search(r'if\s*\(\s*comstate\s*==\s*0x0800\s*\)\s*queue_reset\(\)\s*;.*if\s*\(\s*comstate\s*>=\s*0x008\s*\)\s*\{\s*freedata\(\)\s*;\s*current_command->state\s*=\s*\(\s*0x008\s*<<\s*xmitstat\.esmtp\s*\)\s*;\s*\}.*return\s+netwrite\(\s*"250 ', rs, flags=re.S):
        raise TranslateError('smtp_rset: shape changed (harness/bdat_rx.c re-implements it)')
    out = HEADER % (rel + ', ' + rel2 + ', ' + rel3 + ', ' + rel4)
    for k, v in nconst.items():
        out += 'Definition %s : N := %d%%N.\n' % (k, v)
    out += 'Definition BDAT_LAST_WORD : list N := %s.\n' % coq_bytes(c_unescape(lastword))
    for k, v in c.items():
        out += 'Definition %s : nat := %s.\n' % (k, v)
    out += 'Definition RX_LINEBUF_MAX : nat := RX_LINEBUF - 1.\n'
    out += 'Definition RX_CR_AFTER_LOOP : bool := %s.\n' % fixed
    return out


GENERATORS = {'GenBdat.v': gen_bdat, 'GenBdatRx.v': gen_bdat_rx}

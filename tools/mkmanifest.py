#!/usr/bin/env python3
"""writes /verif/MANIFEST.json from the property modules in props/ (one module per claimed property)"""
import glob, importlib, json, os, sys
VERIF = os.path.dirname(os.path.dirname(os.path.abspath(__file__)))
sys.path.insert(0, os.path.join(VERIF, 'tools')); sys.path.insert(0, os.path.join(VERIF, 'props'))

NOT_CLAIMED_REASON = {}
exec(open(os.path.join(VERIF, 'props', 'not_claimed.py')).read())

all_ids = [json.loads(l)['id'] for l in open(os.path.join(VERIF, 'properties.jsonl'))]
checks, engines, claimed = [], {}, []
for f in sorted(glob.glob(os.path.join(VERIF, 'props', 'C[0-9][0-9].py'))):
    P = importlib.import_module(os.path.basename(f)[:-3])
    claimed.append(P.ID)
    checks.append(dict(
        property_id=P.ID,
        quick_cmd='./check %s quick' % P.ID,
        thorough_cmd='./check %s thorough' % P.ID,
        evidence_file='/verif/evidence/%s.json' % P.ID,
        replay_cmd_template='./check %s --replay {path}' % P.ID,
        engine=','.join(e['name'] for e in P.ENGINES),
        level_claimed=dict(category='proof', text=P.LEVEL_TEXT, design_ref=P.DESIGN_REF),
        level_note=P.LEVEL_NOTE,
        technique=P.TECHNIQUE))
    for e in P.ENGINES:
        en = engines.setdefault(e['name'], dict(name=e['name'], path='harness/%s + coq/%s + ocaml/%s' % (e.get('runner') or e['c_sources'][0], e['extract'], e['driver']),
                                                serves_properties=[], kind_free_text='Coq model extracted to OCaml, run against the C built from /repo with ASan+UBSan'))
        en['serves_properties'].append(P.ID)
man = dict(
    version=1,
    setup_cmd='./check --setup',
    hooks=dict(guard='QSMTP_VERIF', enable='no source hooks are needed: harnesses #include the C files of /repo and redirect OS calls with macros / --wrap',
               baseline_off_cmd='cmake --build /repo/_build && ctest --test-dir /repo/_build -j8 --timeout 900',
               source_commits=[], add_only=True),
    engines=list(engines.values()),
    checks=checks,
    notes='One driver: ./check <Cxx> quick|thorough|--replay <file>. Proofs in coq/ (Coq 8.16.1), models tied to /repo by tools/translate.py and by differential runs. See DESIGN.md.',
    not_applicable=[dict(property_id=i, reason=NOT_CLAIMED_REASON.get(i, 'check not built yet')) for i in all_ids if i not in claimed],
)
json.dump(man, open(os.path.join(VERIF, 'MANIFEST.json'), 'w'), indent=1)
print('claimed:', claimed)

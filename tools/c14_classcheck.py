"""one-off cross-check: props/C14.py:local_class and _WEAK against Spec.AddrSpec.local_class / lweak_b / local_rfc_b (driver mode `class`)
usage: VERIF_REPO=<repo> python3 tools/c14_classcheck.py"""
import sys, random
import os; V=os.path.dirname(os.path.dirname(os.path.abspath(__file__))); sys.path.insert(0,os.path.join(V,'tools')); sys.path.insert(0,os.path.join(V,'props'))
import runlib as R, C14 as P, itertools
eng=P.ENGINES[0]
mexe,log=R.build_ocaml('addr',eng['extract'],eng['driver'],glue=eng['glue']); print(mexe, log[-500:] if not mexe else '')
rng=random.Random(7)
lps=[P.localpart(rng) for _ in range(20000)]
for n in range(0,6):
    for t in itertools.product(b'a."\\@\x7f !', repeat=n): lps.append(bytes(t))
lps=[l for l in lps if l]
out,_=R.run_parallel(mexe,['class'],[R.hx(l) for l in lps])
bad=0; inclass=0; weak=0
for l,o in zip(lps,out):
    w,c,r=[x=='true' for x in o.split()]
    pw=bool(P._WEAK.fullmatch(l)); pc=P.local_class(l)
    if w: weak+=1
    if w and c: inclass+=1
    if pw!=w or (w and pc!=c) or (w and (c == r)):
        bad+=1
        if bad<10: print('MISMATCH',l,o,pw,pc)
print(len(lps),'local parts', weak,'weak', inclass,'in class', bad,'mismatches')

#!/usr/bin/env python3
"""mkseedprompt.py <ID> <workspace-name>: write the prompt for a seeding sub-agent (property text + workspace only) to
/tmp/seedtools/prompt-<workspace-name>.md, from the template of an existing prompt."""
import json, sys, re
PID, ws = sys.argv[1].upper(), sys.argv[2]
focus = sys.argv[3] if len(sys.argv) > 3 else ''
d = next(json.loads(l) for l in open('/verif/properties.jsonl') if json.loads(l)['id'] == PID)
t = open('/tmp/seedtools/prompt-C15.md').read()
head, rest = t.split('PROPERTY C15:', 1)
_, tail = rest.split('YOUR WORKSPACE:', 1)
prop = 'PROPERTY %s: %s\n%s\n\n(quantified over: %s)\nRelevant files: %s\n\n' % (PID, d['title'], d['statement'], d['quantifier']['text'], ', '.join(d['anchors']['files']))
if focus:
    prop += 'FOCUS: make your change break THIS part of the property (quoted from the text above): "%s"\n\n' % focus
tail = tail.replace('seed-c15', ws).replace('"C15"', '"%s"' % PID)
open('/tmp/seedtools/prompt-%s.md' % ws, 'w').write(head + prop + 'YOUR WORKSPACE:' + tail)
print('/tmp/seedtools/prompt-%s.md' % ws)

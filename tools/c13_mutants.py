"""C13 mutation run: applies each breaking edit to the scratch copy /tmp/repo-c13 (fixed tree), runs ./check C13 quick, restores. usage: c13_mutants.py [names]"""
import subprocess, sys, os, re
REPO='/tmp/repo-c13'; F=REPO+'/qsmtpd/backends/user_vpopm/vpop.c'
def restore():
    subprocess.run(['git','-C',REPO,'checkout','--','.'],check=True)
    # fixes of C13 that are not yet commits of the scratch repo's HEAD
    for f in ('dotdot', 'dashscan', 'nametoolong', 'cdb-bounds', 'dirfd-leak'):
        d = '/root/w/c13/fixes/C13-%s.diff' % f
        if subprocess.run(['git','-C',REPO,'apply','--check',d],stderr=subprocess.DEVNULL).returncode == 0:
            subprocess.run(['git','-C',REPO,'apply',d],check=True)
MUTS = {
 'M1-revert-dotdot': [("	if ((localpart->len > 0) && (localpart->len <= 2) && (memcmp(localpart->s, \"..\", localpart->len) == 0))\n		return 0;\n", "")],
 'M2-revert-dashscan': [("p = memchr(p + 1, '-', localpart->len - (p + 1 - localpart->s));", "p = strchr(p + 1, '-');")],
 'M3-revert-nametoolong': [(" && (errno != ENAMETOOLONG)", ""), ("		case ENAMETOOLONG:\n", "")],
 'M4-no-colon-mapping': [("			*p = ':';", "			break;")],
 'M5-slash-check-removed': [("	if (memchr(localpart->s, '/', localpart->len))\n		return 0;\n", "")],
 'M6-bounce-inverted': [("if (strcmp(buff, vpopbounce) == 0) {", "if (strcmp(buff, vpopbounce) != 0) {")],
 'M7-skip-local-default': [("res = qmexists(ds->domaindirfd, localpart->s, localpart->len, 3, NULL);", "res = qmexists(ds->domaindirfd, localpart->s, localpart->len, 2, NULL);")],
 'M8-eacces-means-absent': [("		case EACCES:\n			if (fd != NULL)\n				*fd = -1;\n			return 1;\n", "		case EACCES:\n			return 0;\n")],
 'M9-dotdot-only-two': [("(localpart->len > 0) && (localpart->len <= 2)", "(localpart->len > 1) && (localpart->len <= 2)")],
 'M10-prefix-includes-dash': [("res = qmexists(ds->domaindirfd, localpart->s, (p - localpart->s), 3, NULL);", "res = qmexists(ds->domaindirfd, localpart->s, (p - localpart->s) + 1, 3, NULL);")],
 'M11-bounce-read-short': [("char buff[2*strlen(vpopbounce)+1];", "char buff[1*strlen(vpopbounce)+1];")],
 'M12-first-dash-only': [("p = memchr(p + 1, '-', localpart->len - (p + 1 - localpart->s));", "p = NULL;")],
}
MUTS2 = {
 'M13-addrparse-accepts-on-zero': ('qsmtpd/addrparse.c', [("} else if (!j) {", "} else if (j == 7) {")]),
 'M14-addrsyntax-no-lowercase': ('qsmtpd/addrsyntax.c', [("addr->s[len] = addr->s[len] + ('a' - 'A');", "addr->s[len] = addr->s[len];")]),
 'M15-reply-code-551': ('qsmtpd/addrparse.c', [('"550 5.1.1 no such user <"', '"551 5.1.1 no such user <"')]),
}
MUTS2.update({
 'M16-cdb-no-header-size-check': ('lib/cdb.c', [("	if (size < 256 * 8)\n		goto corrupt;\n", "")]),
 'M17-cdb-table-check-off-by-one': ('lib/cdb.c', [("(lenhash > (size - pos) / 8)", "(lenhash > (size - pos) / 8 + 1)")]),
 'M18-cdb-no-table-check': ('lib/cdb.c', [("		if ((pos > size) || (lenhash > (size - pos) / 8))\n			goto corrupt;\n", "")]),
 'M19-cdb-record-header-check-short': ('lib/cdb.c', [("(size - poskd < 8)", "(size - poskd < 4)")]),
 'M20-cdb-no-key-data-check': ('lib/cdb.c', [("					if ((size - poskd - 8 < len) || (size - poskd - 8 - len < dlen))\n						goto corrupt;\n", "")]),
 'M21-cdb-no-slot-wrap': ('lib/cdb.c', [("			if (++h2 == lenhash)\n				h2 = 0;", "			++h2;")]),
 'M22-cdb-start-slot-no-shift': ('lib/cdb.c', [("uint32_t h2 = (h >> 8) % lenhash;", "uint32_t h2 = h % lenhash;")]),
 'M23-cdb-empty-slot-ignored': ('lib/cdb.c', [("			if (!poskd)\n				break;\n", "")]),
 'M24-vget-three-fields': ('qsmtpd/backends/user_vpopm/vpop.c', [("for (int i = 4; i > 0; i--) {", "for (int i = 3; i > 0; i--) {")]),
 'M25-vget-no-slash-strip': ('qsmtpd/backends/user_vpopm/vpop.c', [("	while (*(cdb_buf + len - 1) == '/')\n		--len;\n", "")]),
 'M26-vget-unbounded-field': ('qsmtpd/backends/user_vpopm/vpop.c', [("memchr(cdb_buf, '\\0', cdb_end - cdb_buf)", "strchr(cdb_buf, '\\0')")]),
 'M27-cdb-hash-unsigned': ('lib/cdb.c', [("h ^= (uint32_t) *buf++;", "h ^= (uint32_t)(unsigned char) *buf++;")]),
})
which = sys.argv[1:] or list(MUTS)
for name in which:
    restore()
    subprocess.run(['python3','tools/translate.py',REPO,'coq/Gen'],cwd='/root/w/c13',check=True)
    if name in MUTS2:
        F2, edits = REPO+'/'+MUTS2[name][0], MUTS2[name][1]
    else:
        F2, edits = F, MUTS[name]
    s=open(F2).read()
    for a,b in edits:
        assert s.count(a)>=1, (name,a)
        s=s.replace(a,b)
    open(F2,'w').write(s)
    p=subprocess.run(['./check','C13','quick'],cwd='/root/w/c13',env=dict(os.environ,VERIF_REPO=REPO),stdout=subprocess.PIPE,stderr=subprocess.STDOUT)
    out=p.stdout.decode()
    lines=[l for l in out.split('\n') if l.startswith('VIOLATION') or l.startswith('C13 ')]
    print(name, '| rc', p.returncode, '|', ' || '.join(lines))
    m=re.search(r'replay=(\S+)', out)
    if m:
        r=open(m.group(1)).read()
        kind=re.search(r'kind=(\S+)',r).group(1)
        nl=re.search(r'no_longer_checks=(\S+)',r)
        bo=re.search(r'broken_obligations=(.*)',r)
        kinds=re.findall(r'"kind": "(\w[\w-]*)"', bo.group(1)) if bo else []
        print('    kind=%s %s broken=%s' % (kind, nl.group(1) if nl else '', kinds))
        cs=re.search(r'^case=(.*)$',r,flags=re.M)
        if cs:
            f=cs.group(1).split()
            dec=lambda x: b'' if x=='-' else bytes.fromhex(x)
            if len(f) == 7:
                print('    local=%r tail=%r layout=%r bounce=%r' % (dec(f[5])[:40], dec(f[6]), dec(f[3])[:80], dec(f[4])))
            else:
                print('    op=%s file=%d bytes key=%r' % (f[0], len(dec(f[1])), dec(f[2]) if len(f) > 2 else b''))
            print('    impl=%s' % re.search(r'^implementation=(.*)$',r,flags=re.M).group(1)[:80])
restore()

#!/bin/sh
# usage: coqdbg.sh <path/to/File.v> LINE [maxlines] -- prints the proof state just before LINE
here=$(cd "$(dirname "$0")/.." && pwd)
f=$(realpath "$1"); n=$2
tmp=$(mktemp -d /tmp/coqdbg.XXXXXX)
head -n $((n-1)) "$f" > $tmp/Dbg.v
echo "Show. " >> $tmp/Dbg.v
cd "$here/coq" && timeout 300 coqc -Q . Qv $tmp/Dbg.v 2>&1 | head -${3:-80}
rm -rf $tmp

#!/bin/sh
# usage: coqdbg.sh File.v LINE  -- shows the goal at LINE (replaces the line by Show. and aborts)
f=$1; n=$2
head -n $((n-1)) "$f" > /tmp/Dbg.v
echo "Show. " >> /tmp/Dbg.v
cd /verif/coq && coqc -Q . Qv /tmp/Dbg.v 2>&1 | head -${3:-60}

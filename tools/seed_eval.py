#!/usr/bin/env python3
"""seed_eval.py <id> [extra check ids...]: confirm a seeded breaking change from /tmp/seed-<id>/SEED and run the checks against it.
 1. demo fails with the change and passes without it (in the seed worktree)
 2. the change applied to /repo (git apply), ./check <ID> quick run, then undone (git checkout -- .)
 results are stored in /verif/seeded/<ID>/ (patch.diff, demo files, meta.json with what was run)."""
import json, os, shutil, subprocess, sys, time
pid = sys.argv[1].lower(); PID = pid[:3].upper()      # c05b = second seed for C05
DIR = PID + pid[3:]
others = [x.upper() for x in sys.argv[2:]]
src = '/tmp/seed-%s' % pid
dst = '/verif/seeded/%s' % DIR
def sh(cmd, cwd=None, timeout=1800):
    p = subprocess.run(cmd, shell=True, cwd=cwd, stdout=subprocess.PIPE, stderr=subprocess.STDOUT, timeout=timeout)
    return p.returncode, p.stdout.decode('latin-1')
meta = json.load(open(src + '/SEED/meta.json'))
os.makedirs(dst, exist_ok=True)
for f in os.listdir(src + '/SEED'):
    if os.path.isfile(os.path.join(src, 'SEED', f)) and os.path.getsize(os.path.join(src, 'SEED', f)) < 300000 and not os.access(os.path.join(src, 'SEED', f), os.X_OK) or f.endswith('.sh') or f.endswith('.py'):
        shutil.copy(os.path.join(src, 'SEED', f), dst)
ran = []
demo = __import__('re').split(r'\s{2,}\(', meta.get('demo_cmd', ''))[0]      # agents sometimes append an explanation in parentheses
rc1, o1 = sh(demo, cwd=src + '/SEED')
ran.append('demo with change: exit %d' % rc1)
sh('git stash -q', cwd=src)
rc2, o2 = sh(demo, cwd=src + '/SEED')
ran.append('demo without change: exit %d' % rc2)
sh('git stash pop -q', cwd=src)
confirmed = rc1 != 0 and rc2 == 0
# apply to /repo -- or, with SEED_FRAMEWORK=<another worktree of /verif>, run that worktree's checks against the seed's
# own worktree (which has the change applied) so that neither /repo nor /verif/build is touched while other jobs use them
FW = os.environ.get('SEED_FRAMEWORK')
verdicts = {}
if FW:
    for c in [PID] + others:
        t = time.time()
        rcc, oc = sh('VERIF_REPO=%s VERIF_EVIDENCE_DIR=%s/build/seed-evidence ./check %s quick' % (src, FW, c), cwd=FW, timeout=3000)
        v = [l for l in oc.split('\n') if l.startswith('VIOLATION')]
        last = [l for l in oc.split('\n') if l.strip() and not l.startswith('KNOWN')][-1:]
        verdicts[c] = dict(exit=rcc, violation_line=(v[0] if v else None), summary=(last[0] if last else ''), wall_s=round(time.time() - t))
        if v and 'replay=' in v[0]:
            rp = v[0].split('replay=')[1].split()[0]
            if os.path.exists(rp):
                shutil.copy(rp, os.path.join(dst, 'replay-%s.txt' % c))
        ran.append('./check %s quick (framework copy %s) against the seed worktree: exit %d %s' % (c, FW, rcc, v[0] if v else 'no VIOLATION'))
    rc = 1; o = 'not applied to /repo (SEED_FRAMEWORK run)'
else:
    rc, o = sh('git -C /repo apply --check %s/patch.diff' % dst)
if FW:
    pass
elif rc != 0:
    ran.append('patch does not apply to /repo HEAD: ' + o[:200])
else:
    sh('git -C /repo apply %s/patch.diff' % dst)
    try:
        for c in [PID] + others:
            t = time.time()
            rcc, oc = sh('VERIF_EVIDENCE_DIR=/verif/build/seed-evidence ./check %s quick' % c, cwd='/verif', timeout=3000)
            v = [l for l in oc.split('\n') if l.startswith('VIOLATION')]
            last = [l for l in oc.split('\n') if l.strip() and not l.startswith('KNOWN')][-1:]
            verdicts[c] = dict(exit=rcc, violation_line=(v[0] if v else None), summary=(last[0] if last else ''), wall_s=round(time.time() - t))
            if v and 'replay=' in v[0]:
                rp = v[0].split('replay=')[1].split()[0]
                if os.path.exists(rp):
                    shutil.copy(rp, os.path.join(dst, 'replay-%s.txt' % c))
            ran.append('./check %s quick with the change applied to /repo: exit %d %s' % (c, rcc, v[0] if v else 'no VIOLATION'))
    finally:
        sh('git -C /repo checkout -- .')
meta['confirmed_demo'] = confirmed
meta['demo_exit_with_change'] = rc1
meta['demo_exit_without_change'] = rc2
meta['check_verdicts'] = verdicts
meta['ran_by_verif'] = ran
meta['caught'] = any(v['exit'] == 1 and v['violation_line'] for v in verdicts.values())
json.dump(meta, open(dst + '/meta.json', 'w'), indent=1)
print(DIR, 'demo confirmed' if confirmed else 'DEMO NOT CONFIRMED (%d/%d)' % (rc1, rc2), '| caught' if meta['caught'] else '| MISSED', {k: (v['exit'], (v['violation_line'] or '')[-40:]) for k, v in verdicts.items()})

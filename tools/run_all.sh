#!/bin/sh
# runs every registered quick (or $1=thorough) check sequentially; prints one summary line per property
tier=${1:-quick}
cd "$(dirname "$0")/.."
for p in $(ls props/C[0-9][0-9].py | sed 's/.*\///; s/\.py//'); do
  s=$(date +%s)
  out=$(timeout 3000 ./check $p $tier 2>&1)
  rc=$?
  echo "$p rc=$rc $(( $(date +%s) - s ))s :: $(echo "$out" | grep -v '^KNOWN-FINDING' | tail -1 | cut -c1-200)"
  echo "$out" | grep -c '^KNOWN-FINDING' | sed 's/^/   known-finding lines: /'
done

#!/usr/bin/env python3
"""Translator: regenerates coq/Gen/*.v from /repo's working tree.

Emits Coq *data* only (constants, tables, literal reply templates); never logic.
Fails loudly (exit 2, TRANSLATE-ERROR lines) when a site cannot be parsed: that is
a broken tie and is reported by ./check like a broken proof.  One module per
source area in tools/translators/, each exporting GENERATORS = {file: fn(repo)->text}.

usage: translate.py <repo> <outdir> [GenFile.v ...]
"""
import glob, importlib, os, sys
HERE = os.path.dirname(os.path.abspath(__file__))
sys.path.insert(0, HERE)
sys.path.insert(0, os.path.join(HERE, 'translators'))
from trlib import TranslateError, write_if_changed

def main():
    repo, outdir = sys.argv[1], sys.argv[2]
    gens = {}
    for f in sorted(glob.glob(os.path.join(HERE, 'translators', '*.py'))):
        m = importlib.import_module(os.path.basename(f)[:-3])
        gens.update(m.GENERATORS)
    only = sys.argv[3:] or list(gens)
    os.makedirs(outdir, exist_ok=True)
    rc = 0
    for name in only:
        try:
            text = gens[name](repo)
        except TranslateError as e:
            sys.stderr.write('TRANSLATE-ERROR %s: %s\n' % (name, e))
            rc = 2
            continue
        except Exception as e:
            sys.stderr.write('TRANSLATE-ERROR %s: %s: %s\n' % (name, type(e).__name__, e))
            rc = 2
            continue
        write_if_changed(os.path.join(outdir, name), text)
    sys.exit(rc)

if __name__ == '__main__':
    main()

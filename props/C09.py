"""C09 — AUTH: only credentials accepted by checkpassword authenticate (lib/base64.c, qsmtpd/auth.c, auth_chkpw backend)."""
import base64 as _b64
import runlib as R
import session_common as _sc

ID = 'C09'
COQ_TARGETS = ['Props/Properties_C09.vo', 'Props/Properties_C09s.vo']
PROPS_FILES = ['Props/Properties_C09.v', 'Props/Properties_C09s.v']
THEOREMS = ['C09_b64decode_safe', 'C09_b64_roundtrip', 'C09_b64_roundtrip_exact', 'C09_b64_valid_accepted', 'C09_b64_alphabet',
            'C09_b64_strict_partial', 'C09_b64_strict_refuted',
            'C09_auth_exchange', 'C09_auth_identity', 'C09_auth_refused', 'C09_auth_fd3', 'C09_auth_fd3_fault',
            'C09_auth_checker', 'C09_auth_strict', 'C09_auth_safe', 'C09_auth_cmd_row',
            'C09_session_auth_needs_ehlo', 'C09_session_auth_from_backend', 'C09_session_authenticated_iff_auth_note']
ENGINES = [
    dict(name='b64', c_sources=['b64_h.c'], extract='Extract/Extract_b64.v', driver='b64_driver.ml',
         accepts=lambda c: c.startswith('d1 ') or c.startswith('e1 ')),
    dict(name='auth', c_sources=['auth_h.c'], extract='Extract/Extract_auth.v', driver='auth_driver.ml',
         glue=('glue.ml', 'glue_z.ml'), accepts=lambda c: c.startswith('a1 ')),
    _sc.ENGINE,      # whole-program Qsmtpd: when is AUTH acted on at all (order of HELO/EHLO/RSET/AUTH), who counts as authenticated
]
RULE = ('b64: decoder inputs = canonical encodings of random octet strings (0..600 octets, with/without CRLF breaks), single-octet '
        'mutations of them at every position class (NUL, =, CR, LF, 8-bit, non-alphabet), truncations, text after padding, '
        'non-zero padding bits, and groups over a 20-symbol representative alphabet (exhaustive over all 4-symbol strings in thorough); '
        'encoder inputs = random octet strings x wraplimit in {2^32-1, 76, 40, 8, 5, 4, 1, 0}; '
        'non-trivial = decoder accepted a non-empty result or rejected an input of >= 4 octets; '
        'auth: one AUTH command each = (configuration flags, previous authname, command line with mechanism in any case / unknown '
        'mechanisms / initial response or not, client lines cut into net_readline results of 1..64 octets, read errors, missing lines, '
        'extra lines, cancel, empty line, damaged and irregularly padded Base64, PLAIN payloads with 0..4 NUL-separated fields, '
        'LOGIN values with embedded NUL, netwrite failure at the k-th reply, backend = stand-in answering 0/1/other/negative/tempnoauth '
        'or the real checkpassword backend with a recording child exiting 0/1/111/killed or an injected pipe/fork/write/close/waitpid '
        'failure); non-trivial = the backend was reached or an identity is set; distinct by case text')
TRUSTED_BASE_AUTH = [
    'translator tools/translators/auth.py: regexes over qsmtpd/auth.c, qsauth_backend_cp.c, qsmtpd.c produce the mechanism table, reply texts, offsets 5/11, chunk size 64, EDONE, the AUTH row of commands[]',
    'hand-written model coq/Model/Auth.v tied to qsmtpd/auth.c + qsauth_backend_cp.c by the correspondence run (differential testing, bounded by the generator)',
    'C harness harness/auth_h.c: #include of qsmtpd/auth.c, lib/base64.c, qsmtpd/child.c, qsauth_backend_cp.c; netnwrite/net_readline/tarpit/sleep/fork_clean/log replaced; '
    'write/close/waitpid/wpipe of the backend wrapped for fault injection; the child is this binary re-executed as a recording checkpassword stand-in',
]
TRUSTED_BASE = [
    'Coq 8.16.1 kernel (coqc; coqchk in thorough); vm_compute for reflection over the 64-symbol alphabet and over pairs of sextets/octets',
    'axioms: none (Print Assumptions: Closed under the global context)',
    'translator tools/translators/base64.py: regexes over lib/base64.c produce alphabet, padding character, shift amounts, buffer slack',
    'hand-written model coq/Model/Base64.v tied to lib/base64.c by the correspondence run (differential testing, bounded by the generator)',
    'extraction with ExtrOcamlBasic only; ocaml/glue.ml + ocaml/b64_driver.ml hex parsing/printing',
    'C harness harness/b64_h.c: #include of lib/base64.c, input ending at a PROT_NONE page; gcc 12 -O1 ASan+UBSan vs. production build',
] + TRUSTED_BASE_AUTH
ASSUMPTIONS = [
    'malloc() succeeds (the -ENOMEM paths are not modelled)',
    'octets are < 256 (hypothesis of the round-trip theorem)',
    'b64encode: statements are for wraplimit above the output length (no line wrapping; qsmtpd/auth.c passes -1) and outputs shorter than 2^32',
    'net_readline(64, buf) returns 1..64 octets or -1 with errno != 0 (hypothesis read_ok of C09_auth_safe; outside it the model says Crash and so does the C under ASan)',
    'the backend answer depends only on (user, password) and it touches nothing but the replies and the pipe (be_wf; proved for the stand-in and for the checkpassword backend model)',
    'the command dispatcher calls smtp_auth only for lines starting with "AUTH " in the state EHLO leaves (C09_auth_cmd_row checks the table row; the dispatcher itself belongs to the session engine); AUTHCRAM is off (default build)',
    'tarpit() and sleep(5) only delay; the checkpassword program is a function of what it reads on descriptor 3',
]

# ------------------------------------------------------------------ helpers mirrored from coq/Spec/Base64Spec.v
ALPHA = b'ABCDEFGHIJKLMNOPQRSTUVWXYZabcdefghijklmnopqrstuvwxyz0123456789+/'


def pad_regular(inp):
    """mirror of Spec/Base64Spec.v:pad_regular"""
    nsym = sum(1 for c in inp if c not in (13, 10))
    if nsym % 4:
        return False
    k = inp.find(b'=')
    if k < 0:
        return True
    last = None
    for c in inp[:k]:
        if c not in (13, 10):
            last = c
    tail = inp[k + 1:]
    if tail == b'':
        npad = 1
    elif tail == b'=':
        npad = 2
    else:
        return False
    if last is None or last not in ALPHA:
        return True
    v = ALPHA.index(last)
    return v % (16 if npad == 2 else 4) == 0


def _auth_blobs(f):
    """the Base64 texts of an a1 case: initial response and the complete client lines"""
    linein = R.unhx(f[3])
    blobs = [linein[11:]] if len(linein) > 11 else []
    cur = b''
    for r in f[6:]:
        b = R.unhx(r)
        if not b or b[0] == 1:
            break
        cur += b[1:]
        if cur.endswith(b'\n'):
            cur = cur[:-1]
            if cur.endswith(b'\r'):
                cur = cur[:-1]
            blobs.append(cur)
            cur = b''
    return blobs


def classify(case, c_out):
    """F-C09-1b: the input has irregular padding and the implementation *accepted* it (a crash is never known)"""
    f = case.split()
    if f[0] == 'd1' and c_out.startswith('D0 '):
        return None if pad_regular(R.unhx(f[1])) else 'b64_irregular_padding'
    if f[0] == 'a1' and c_out.startswith('A '):
        return None if all(pad_regular(b) for b in _auth_blobs(f)) else 'b64_irregular_padding'
    return None


# ------------------------------------------------------------------ generators
SPECIAL = [0, 61, 13, 10, 33, 32, 45, 95, 193, 0xbd, 127, 64, 91, 96, 123, 58, 44]
REP = [65, 66, 81, 82, 103, 119, 48, 57, 43, 47, 61, 0, 13, 10, 33, 193, 45, 255, 32, 122]   # representative alphabet


def _rand_bytes(rng, n):
    m = rng.random()
    if m < 0.6:
        return bytes(rng.randrange(256) for _ in range(n))
    if m < 0.8:
        return bytes(rng.choice(b'abcxyz0189 @.\0') for _ in range(n))
    return bytes(rng.choice([0, 0, 255, 1, 16, 4, 64]) for _ in range(n))


def _breaks(rng, e):
    """insert CRLF pairs into the text e"""
    mode = rng.random()
    if mode < 0.4 or not e:
        return e
    out = bytearray()
    if mode < 0.7:
        k = rng.choice([1, 2, 3, 4, 5, 7, 8, 39, 76])
        for i, c in enumerate(e):
            if i and i % k == 0:
                out += b'\r\n'
            out.append(c)
    else:
        pos = set(rng.randrange(len(e) + 1) for _ in range(rng.randrange(1, 4)))
        for i, c in enumerate(e):
            if i in pos:
                out += b'\r\n'
            out.append(c)
        if len(e) in pos:
            out += b'\r\n'
    if rng.random() < 0.3:
        out += b'\r\n'
    return bytes(out)


def _mutate(rng, e):
    e = bytearray(e)
    k = rng.random()
    if not e:
        return bytes([rng.choice(SPECIAL)])
    p = rng.choice([0, 1, 2, 3, len(e) - 1, len(e) - 2, len(e) - 3, len(e) - 4, rng.randrange(len(e))]) % len(e)
    if k < 0.35:
        e[p] = rng.choice(SPECIAL)
    elif k < 0.5:
        e.insert(p, rng.choice(SPECIAL + [65, 81]))
    elif k < 0.6:
        del e[p]
    elif k < 0.7:
        del e[rng.randrange(len(e)):]
    elif k < 0.85:
        e += bytes(rng.choice(SPECIAL + [65, 81, 61]) for _ in range(rng.randrange(1, 6)))
    elif k < 0.93:
        # non-zero padding bits / changed last symbol
        q = bytes(e).find(b'=')
        if q > 0:
            e[q - 1] = rng.choice(ALPHA)
        else:
            e[p] = rng.choice(ALPHA)
    else:
        e[p] |= 128
    return bytes(e)


def _dec_cases(rng, n):
    out = []
    for _ in range(n):
        ln = rng.choice([0, 1, 2, 3, 4, 5, 6, 7, 8, 9, 10, 11, 12]) if rng.random() < 0.5 else rng.randrange(0, 60)
        if rng.random() < 0.03:
            ln = rng.randrange(200, 600)
        x = _rand_bytes(rng, ln)
        e = _breaks(rng, _b64.b64encode(x))
        r = rng.random()
        if r < 0.35:
            pass
        elif r < 0.8:
            e = _mutate(rng, e)
        elif r < 0.9:
            e = _mutate(rng, _mutate(rng, e))
        else:
            e = bytes(rng.choice(REP) for _ in range(rng.choice([1, 2, 3, 4, 4, 5, 6, 7, 8, 8, 9, 12])))
        out.append('d1 ' + R.hx(e))
    return out


def _enc_cases(rng, n):
    out = []
    for _ in range(n):
        ln = rng.randrange(0, 20) if rng.random() < 0.6 else rng.randrange(0, 200)
        x = _rand_bytes(rng, ln)
        w = rng.choice([0xffffffff] * 6 + [76, 40, 8, 5, 4, 4 * ((ln + 2) // 3), 4 * ((ln + 2) // 3) + 1, 1, 0])
        out.append('e1 %s %08x' % (R.hx(x), w))
    return out


def _exhaustive(symbols, k):
    import itertools
    return ['d1 ' + bytes(t).hex() for t in itertools.product(symbols, repeat=k)]


USERS = [b'alice', b'bob@example.org', b'u', b'', b'a\0b', b'x' * 70, b'\xe4\xf6', b'root', b'user name']
PASSES = [b'secret', b'p', b'', b'pa\0ss', b'y' * 90, b'\xff\xfe', b'12345678', b'pw with blank']
MECHS = [b'PLAIN', b'LOGIN', b'plain', b'login', b'PlAiN', b'LoGiN']
BADMECHS = [b'BOGUS', b'PLAINx', b'LOGINx', b'xPLAIN', b'LOGI', b'PLAI', b'', b'CRAM-MD5', b'PLAIN\t', b'LOGIN=']


def _b64variant(rng, raw):
    """Base64 of raw, mostly canonical, sometimes damaged"""
    e = _b64.b64encode(raw)
    r = rng.random()
    if r < 0.72:
        return e
    if r < 0.8:
        return _mutate(rng, e)
    if r < 0.84:
        return e.rstrip(b'=')                      # missing padding (irregular)
    if r < 0.88:
        return e + rng.choice([b'!!!!', b'=', b'QQ==', b' '])   # text behind the end
    if r < 0.91:
        return b'*'
    if r < 0.94:
        return b''
    if r < 0.97:
        return rng.choice([b'=', b'==', b'===', b'====', b'#', b'\0', b'QQ\0=', b'\r'])
    return e[:max(0, len(e) - rng.randrange(1, 4))]


def _chunks(rng, line):
    """cut a line (with its line end) into net_readline results"""
    out = []
    m = rng.random()
    while line:
        if m < 0.5:
            k = 64
        elif m < 0.8:
            k = rng.choice([1, 2, 3, 7, 31, 63, 64])
        else:
            k = rng.randrange(1, 65)
        out.append('00' + line[:k].hex())
        line = line[k:]
    return out


def _auth_case(rng, real_ok):
    r = rng.random()
    flags = 1 if r < 0.6 else rng.choice([5, 7, 3, 0, 2, 4, 6, 1, 5, 7, 1, 5])
    if real_ok and rng.random() < 0.8:
        flags = 1
    an0 = b'' if rng.random() < 0.92 else rng.choice([b'alice', b'x'])
    user, pw = rng.choice(USERS), rng.choice(PASSES)
    if rng.random() < 0.5:
        user, pw = rng.choice(USERS[:3]), rng.choice(PASSES[:2])
    mech = rng.choice(MECHS) if rng.random() < 0.9 else rng.choice(BADMECHS)
    ir = rng.random() < 0.45
    eol = b'\r\n' if rng.random() < 0.85 else rng.choice([b'\n', b'\r\r\n', b'\r\n'])
    lines = []
    if mech.lower().startswith(b'plain') or rng.random() < 0.1:
        m = rng.random()
        if m < 0.7:
            raw = rng.choice([b'', b'', b'authz', b'x']) + b'\0' + user + b'\0' + pw
        elif m < 0.8:
            raw = b'\0' + user + b'\0' + pw + rng.choice([b'\0', b'\0extra', b'\0\0'])
        elif m < 0.9:
            raw = rng.choice([user + b'\0' + pw, b'\0' + user, b'\0' + user + b'\0', b'\0\0' + pw, b'\0', b'', user + pw, b'\0\0\0'])
        else:
            raw = _rand_bytes(rng, rng.randrange(0, 40))
        blobs = [_b64variant(rng, raw)]
    else:
        blobs = [_b64variant(rng, user), _b64variant(rng, pw)]
    linein = b'AUTH ' + mech
    if ir:
        sep = b' ' if rng.random() < 0.93 else rng.choice([b'  ', b'', b'\t'])
        linein += sep + blobs[0]
        blobs = blobs[1:]
    elif rng.random() < 0.1:
        linein += b' '
    if rng.random() < 0.02:
        linein = linein.replace(b'A', b'\0', 1) if rng.random() < 0.3 else linein + b'\0x'
    if len(linein) > 990:
        linein = linein[:990]
    reads = []
    for b in blobs:
        reads += _chunks(rng, b + eol)
    m = rng.random()
    if m < 0.08 and reads:
        k = rng.randrange(len(reads))
        reads = reads[:k] + ['01%02x' % rng.choice([104, 110, 5, 32])]
    elif m < 0.12 and reads:
        reads = reads[:rng.randrange(len(reads))]
    elif m < 0.16:
        reads += _chunks(rng, rng.choice([b'QQ==', b'*', b'', b'extra']) + b'\r\n')
    elif m < 0.17:
        reads = ['00'] + reads                     # an empty first chunk: outside net_readline's contract
    elif m < 0.18:
        reads = ['00' + (b'Q' * 70).hex()] + reads   # a chunk above 64: outside the contract
    b = rng.random()
    if real_ok:
        be = rng.choice(['0300', '0300', '0300', '0301', '036f', '0400']) if b < 0.6 else '05%02x' % rng.randrange(1, 9)
    elif b < 0.55:
        be = '0000'
    elif b < 0.77:
        be = '0001'
    elif b < 0.87:
        be = '02%02x' % rng.randrange(256)
    else:
        be = rng.choice(['010c', '0116', '0002', '00ff', '0100', '0101'])
    w = rng.random()
    if w < 0.85:
        ws = '-'
    else:
        k = rng.randrange(0, 4)
        ws = '00' * k + '%02x' % rng.choice([32, 110, 104, 1, 255])
    return 'a1 %02x %s %s %s %s %s' % (flags, R.hx(an0), R.hx(linein), be, ws, ' '.join(reads))


def gen_cases(engine, rng, tier):
    if engine == 'auth':
        n, nreal = (2200, 140) if tier == 'quick' else (60000, 3000)
        return [_auth_case(rng, False).rstrip() for _ in range(n)] + [_auth_case(rng, True).rstrip() for _ in range(nreal)]
    if engine == 'session':
        n = 250 if tier == 'quick' else 5000
        out = []
        for _ in range(n):
            cfg = 'relay=%s;ip=%s;databytes=0;qq=ok,ok,ok,ok;auth=%s' % (rng.choice(['none', 'none', 'listed']), rng.choice(['v4', 'v6']), rng.choice(['1', '1', '1', '0']))
            out.append(_sc.session_gen.case(cfg, _sc.session_gen.auth_session(rng)))
        return out
    if engine == 'b64':
        if tier == 'quick':
            cs = _dec_cases(rng, 2200) + _enc_cases(rng, 500)
            ex = _exhaustive(REP, 4)
            cs += rng.sample(ex, 1500)
            cs += _exhaustive(REP[:12], 2) + _exhaustive(REP[:14], 1)
            return cs
        cs = _dec_cases(rng, 60000) + _enc_cases(rng, 10000)
        cs += _exhaustive(REP, 4) + _exhaustive(REP, 3) + _exhaustive(REP, 2) + _exhaustive(REP, 1)
        cs += rng.sample(_exhaustive(REP[:12], 5), 40000)
        return cs
    return []


def nontrivial(case, c_out):
    f = case.split()
    if f[0] == '5e':
        return 'r235' in c_out.split() or 'r535' in c_out.split()
    if f[0] == 'd1':
        o = c_out.split()
        return (o[0] == 'D0' and len(o) > 1 and o[1] != '-') or (o[0] == 'D1' and len(f[1]) >= 8)
    if f[0] == 'e1':
        return c_out.startswith('E0') and len(f[1]) >= 2
    if f[0] == 'a1':
        o = c_out.split()
        return len(o) > 3 and o[0] == 'A' and (o[4] != 'W' or o[2] != '-')      # the backend was reached or an identity is set
    return False


def distribution(results):
    d = {}
    for r in results:
        k = r['case'].split()[0] + ':' + r['c'].split()[0] + ':' + r['spec']
        d[k] = d.get(k, 0) + 1
    return d


LEVEL_TEXT = ('Machine-checked Coq theorems over executable models of qsmtpd/auth.c, the checkpassword backend and lib/base64.c: for every AUTH '
              'PLAIN/LOGIN exchange (any command line, any client lines and segmentation, any write failure, any backend answer) authname is '
              'non-empty afterwards iff the backend was asked exactly once, with exactly the decoded (user, password), and answered 0; refused '
              'AUTH (already authenticated / no setup / forcesslauth without TLS) changes nothing; descriptor 3 receives user NUL password NUL NUL. '
              'Codec (with the proposed NUL fix): b64decode never leaves its '
              'buffers and terminates for every input; decode(encode(x)) = x without trailing NULs for every octet string; every canonical '
              'Base64 text (with CRLF breaks) is decoded to the octets it stands for; everything b64decode consumes is alphabet, "=" or CRLF; '
              'and for inputs with regular padding b64decode accepts exactly the canonical texts. Irregular padding is a recorded finding.')
LEVEL_NOTE = ('Trusted: Coq kernel, translator regexes, extraction (ExtrOcamlBasic), harnesses, generator quality of the correspondence runs. '
              'Partial: "malformed Base64 never authenticates" holds for inputs with regular padding only (known finding F-C09-1b: b64decode is lax '
              'about padding); the link from authname to relaying and the Received line, and AUTH-before-EHLO, belong to the session engine; CRAM-MD5 is not modelled.')
TECHNIQUE = 'Coq: state-machine model of the exchange over read/write/backend oracles, invariant proof against an executable checker; base64 by induction over groups of four via a consuming refinement of the literal model, reflection over the alphabet; model-vs-C differential runs under ASan with guard pages and a real forked checkpassword stand-in'
DESIGN_REF = 'DESIGN.md section 5, C09'

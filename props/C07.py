"""C07 — Qremote delivers the queued message content unchanged (qremote/qrdata.c, qremote/mime.c)."""
import runlib as R
import qrdata_gen as G

ID = 'C07'
COQ_TARGETS = ['Props/Properties_C07.vo', 'Spec/DeliverSpec.vo', 'Model/QrDataL2.vo']   # the last two: what the extraction needs, so that the failing-input search still runs when a proof is broken
PROPS_FILES = ['Props/Properties_C07.v']
THEOREMS = ['C07_plain_exact', 'C07_checker_accepts_plain', 'C07_recoded_content', 'C07_multipart_content', 'C07_header_fields', 'C07_qp_body', 'C07_wrap_line']
ENGINES = [dict(name='qrdata', c_sources=['qrdata_h.c'], extract='Extract/Extract_qrdata.v', driver='qrdata_driver.ml',
                accepts=lambda c: c.startswith('07 '), libs=())]
RULE = G.RULE
TRUSTED_BASE = G.TRUSTED_BASE
ASSUMPTIONS = G.ASSUMPTIONS


def gen_cases(engine, rng, tier):
    return G.gen_cases('07', rng, tier)


def nontrivial(case, c_out):
    return G.nontrivial(case, c_out)


def distribution(results):
    return G.distribution(results)


LEVEL_TEXT = ('Machine-checked Coq theorems over literal models of qrdata.c: for every message that needs no recoding, what is written after the 354 is '
              'byte for byte the dot-stuffed CRLF-normalisation of the message followed by the terminator; what recode_qp writes for any window is decoded '
              'by a strict RFC 2045 receiver (Gallina) to the normalised window, whatever the staging-buffer boundaries; what wrap_line writes unfolds to '
              'the line. Whole recoded messages (header rewriting, one-level multipart) are judged by the same receiver run on every C output.')
LEVEL_NOTE = ('Trusted: Coq kernel, translator regexes, extraction (ExtrOcamlBasic), harness stubs of the network layer, generator quality.')
TECHNIQUE = 'Coq: literal L1 model = functional L2 model (loop invariant), L2 = specification (list induction); independent decoder as executable oracle on C outputs; model-vs-C differential run under ASan + guard page'
DESIGN_REF = 'DESIGN.md section 5, C06 / C07'

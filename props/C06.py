"""C06 — Qremote always emits legal SMTP data and always terminates (qremote/qrdata.c, qremote/mime.c)."""
import runlib as R
import qrdata_gen as G

ID = 'C06'
COQ_TARGETS = ['Props/Properties_C06.vo', 'Spec/DeliverSpec.vo', 'Model/QrDataL2.vo']   # the last two: what the extraction needs, so that the failing-input search still runs when a proof is broken
PROPS_FILES = ['Props/Properties_C06.v']
THEOREMS = ['C06_total', 'C06_send_qp_total', 'C06_legal', 'C06_legal_nomulti', 'C06_recode_decision', 'C06_part_decision', 'C06_plain', 'C06_checker_sound', 'C06_qp_body', 'C06_wrap_line']
ENGINES = [dict(name='qrdata', c_sources=['qrdata_h.c'], extract='Extract/Extract_qrdata.v', driver='qrdata_driver.ml',
                accepts=lambda c: c.startswith('06 '), libs=())]
RULE = G.RULE
TRUSTED_BASE = G.TRUSTED_BASE
ASSUMPTIONS = G.ASSUMPTIONS


def gen_cases(engine, rng, tier):
    return G.gen_cases('06', rng, tier)


def nontrivial(case, c_out):
    return G.nontrivial(case, c_out)


def distribution(results):
    return G.distribution(results)


LEVEL_TEXT = ('Machine-checked Coq theorems over literal models of qrdata.c / mime.c (with fixes/C06-*.diff, fixes/C07-*.diff applied): for every '
              'message and either 8BITMIME setting need_recode takes exactly the recoding decision the property needs; every message that needs no '
              'recoding is transferred completely as legal SMTP data (CRLF lines, <= 998 octets, 7 bit unless 8BITMIME, no lone dot); recode_qp on any '
              'window and wrap_line on any over-long header line terminate, read nothing outside their input, stay inside their staging buffers and '
              'write legal data. The rest of the recoding path (header scan, loop over header lines, multipart walk) is modelled literally and tied to '
              'the C; its legality is judged by the extracted checker spec_ok_C06 (proved sound) on every C output of the differential run.')
LEVEL_NOTE = ('Trusted: Coq kernel, translator regexes, extraction (ExtrOcamlBasic), harness stubs of the network layer, generator quality. '
              'Proved for all inputs: plain path and recode decision. Tested only (checker on C outputs + model/C agreement): folding and multipart.')
TECHNIQUE = 'Coq: literal L1 model with sized staging buffers = functional L2 model (loop invariant), L2 = specification (list induction); translator-regenerated constants; model-vs-C differential run under ASan + guard page'
DESIGN_REF = 'DESIGN.md section 5, C06 / C07'

"""C13 — local recipients are accepted exactly when the vpopmail mailbox exists
(qsmtpd/backends/user_vpopm/vpop.c: user_exists, qmexists, vget_dir; lib/cdb.c)."""
import runlib as R
import c13_cdbgen

ID = 'C13'
COQ_TARGETS = ['Props/Properties_C13.vo']
PROPS_FILES = ['Props/Properties_C13.v']
THEOREMS = ['C13_exists', 'C13_exact', 'C13_confined', 'C13_bounce_line', 'C13_checker_sound', 'C13_model_passes_checker',
            'C13_reply', 'C13_reply_exact', 'C13_model_passes_rcpt_checker',
            'C13_cdb_safe', 'C13_cdb_terminates', 'C13_vget_safe', 'C13_cdb_lookup', 'C13_cdb_make_wf', 'C13_vget_found',
            'C13_exists_file', 'C13_confined_file', 'C13_ds_outcome', 'C13_ds_no_leak', 'C13_ds_ok', 'C13_reply_literal']
SHRINK_FROM = 3      # keep users/cdb and the domain of a failing case, shrink layout / bounce / local part / tail
ENGINES = [dict(name='vpop', c_sources=['vpop_h.c'], extract='Extract/Extract_vpop.v', driver='vpop_driver.ml',
                glue=('glue.ml', 'glue_z.ml'), accepts=lambda c: c[:3] in ('c1 ', 'c2 ', 'c3 ', 'c4 ')),
           dict(name='cdb', c_sources=['cdb_h.c'], extract='Extract/Extract_cdb.v', driver='cdb_driver.ml',
                glue=('glue.ml', 'glue_z.ml'), accepts=lambda c: c[:3] in ('d1 ', 'd2 ', 'a1 '))]
RULE = ('engine vpop: c1 cases = user_exists() on (users/cdb records, domain, domain directory layout, control/vpopbounce, local part, bytes following the local '
        'part in memory); layouts are derived from the local part: each documented form present / absent / present only under a '
        'near-miss name (dots not mapped, prefix cut one byte early or late, prefix reaching into the domain) / failing with an '
        'injected errno; local parts: plain, with dots and dashes, ".", "..", with "/", quoted, lengths 239..257 around NAME_MAX; '
        'c2 cases (a quarter) = the real addrparse() on RCPT TO:<local@domain> with unquoted local parts in mixed case over the same kind of tree; '
        'c3 = sequences of user_exists() calls on one struct userconf (descriptor accounting); c4 = RCPT TO:<local@[ip]> with the literal equal / unequal to the local address, IPv4 and tagged IPv6; '
        'engine cdb: d1 = cdb_seekmm() / d2 = vget_dir() on raw file bytes under a mapping that ends at PROT_NONE address space: valid databases (colliding hashes, duplicate keys, keys with NUL, empty keys), '
        'a deterministic sweep that sets every 32 bit field the lookup touches (table pointer, slot count, slot hash, record pointer, key / data length) to every boundary value and cuts the file at every structure boundary +-1, random mutations; a1 = Gallina cdb_make against a C cdbmake, every key looked up; '
        'non-trivial = accepted, or at least three names were looked up (vpop) / found, EINVAL, a path or an error (cdb); distinct by case text')
TRUSTED_BASE = [
    'Coq 8.16.1 kernel (coqc; coqchk in thorough); vm_compute only for facts about the generated constant lists and the non-vacuity example',
    'axioms: none (Print Assumptions: Closed under the global context)',
    'translator tools/translators/vpop.py: regexes over vpop.c produce literals, flags, return codes and errno classes in coq/Gen/GenVpop.v; errno numbers, PATH_MAX, NAME_MAX from gcc -E -dM of the system headers',
    'hand-written model coq/Model/Vpop.v tied to vpop.c by the correspondence run (differential testing, bounded by the generator)',
    'file system abstraction: one lookup relative to the domain directory depends only on the name (fs : name -> entry); fs_of_layout (".", ".." are directories, "" is ENOENT, > NAME_MAX is ENAMETOOLONG) is checked against the real kernel by the correspondence run',
    'extraction with ExtrOcamlBasic only; ocaml/glue.ml, glue_z.ml, vpop_driver.ml (case parsing / printing)',
    'C harness harness/cdb_h.c: #include of lib/cdb.c and vpop.c with mmap()/munmap() redirected to a private copy of the file that ends at a page boundary followed by > 4 GiB of PROT_NONE address space; a C cdbmake for a1',
    'C harness harness/vpop_h.c: #include of vpop.c, getfile.c, cdb.c, control.c, mmap.c, dns_helpers.c, addrsyntax.c, addrparse.c; tarpit()/net_writen()/netnwrite() replaced by recorders; openat()/open() inside vpop.c redirected by macro (logging, errno injection); err_control()/err_control2() return 0; cdb file written by the harness; gcc 12 -O1 ASan+UBSan vs. production build',
]
ASSUMPTIONS = [
    'the local part and the domain contain no NUL (both come from strlen-delimited strings in addrparse)',
    'err_control()/err_control2() return 0 (the 421 line could be written), so hard lookup failures return -EDONE',
    'a fresh struct userconf per call (smtp_rcpt calls userconf_init before addrparse)',
    'users/cdb: C13_exists is stated for the record list (oracle) and, as C13_exists_file, for the bytes of the file (well-formed constant database, Spec/CdbSpec.v); mmap()/munmap()/fstat()/open() themselves are outside the model (an mmap failure is an errno path that is not modelled); the mapping is exactly st_size bytes (stricter than the kernel, which pads the last page with zeros)',
    'keys are 7 bit (domains): cdb_hash() takes plain char and differs from the file format for bytes >= 128',
    'read() on .qmail-default returns min(2*strlen(vpopbounce), size) bytes in one call',
    'C13_reply: the address is one addrsyntax() accepts as full address (result 3) and its domain is in rcpthosts; addrsyntax()/finddomain() themselves belong to C14/C16 and are only exercised here (unquoted local parts)',
]

ERRNOS = [13, 5, 12, 23, 24, 40, 2, 20, 21, 36, 1, 116]
ALPHA = b'abcdefghijklmnopqrstuvwxyz0123456789'
UNQ = b"!#$%&'*+=?^_`{|}~"


def lay(entries):
    o = b''
    for e in entries:
        k, n = e[0], e[1]
        o += k.encode() + bytes([len(n)]) + n
        if k == 'f':
            o += bytes([len(e[2])]) + e[2]
        if k == 'e':
            o += bytes([e[2]])
    return o


def cdb(entries):
    if entries is None:
        return b''
    if isinstance(entries, str):
        return entries.encode()
    return b''.join(k.encode() + bytes([len(d)]) + d for k, d in entries)


def case(cdbe, dom, layout, bounce, local, tail):
    return ' '.join(['c1', R.hx(cdb(cdbe)), R.hx(dom), R.hx(lay(layout)), R.hx(b'' if bounce is None else b'b' + bounce),
                     R.hx(local), R.hx(tail)])


def colons(b):
    return b.replace(b'.', b':')


def name_ok(n):
    return 0 < len(n) <= 255 and n not in (b'.', b'..', b'filterconf') and b'/' not in n and b'\0' not in n


def word(rng, lo=1, hi=8, alpha=ALPHA):
    return bytes(rng.choice(alpha) for _ in range(rng.randrange(lo, hi + 1)))


def gen_local(rng):
    k = rng.random()
    if k < 0.05:
        return rng.choice([b'.', b'..', b'...', b'.a', b'a.', b'..a', b'-', b'--', b'-.', b'.-', b'a-', b'-a', b':', b'::', b'a:b', b'a.b'])
    if k < 0.10:   # '/' somewhere
        w = bytearray(word(rng, 1, 10, ALPHA + b'.-'))
        w.insert(rng.randrange(len(w) + 1), 47)
        if rng.random() < 0.3:
            w = bytearray(rng.choice([b'../x', b'../', b'./x', b'x/..', b'/', b'a/../b', b'../outer/dom/user', b'user/']))
        return bytes(w)
    if k < 0.18:   # long, around the NAME_MAX boundaries of the three names (255, 248, 240) and beyond
        n = rng.choice([238, 239, 240, 241, 247, 248, 249, 254, 255, 256, 257, 300, 600, 990])
        w = bytearray(rng.choice(ALPHA) for _ in range(n))
        for _ in range(rng.randrange(0, 4)):
            w[rng.randrange(n)] = rng.choice(b'.-')
        return bytes(w)
    if k < 0.24:   # quoted string
        return b'"' + word(rng, 0, 6, ALPHA + b' .-@'.replace(b'@', b'') + b'\x01\x7f[]') + b'"'
    # dot-dash structured
    parts = [word(rng, 1, 5) for _ in range(rng.choice([1, 1, 2, 2, 3, 4]))]
    seps = [rng.choice([b'-', b'-', b'.', b'--', b'-.', b'_']) for _ in parts]
    w = b''.join(p + s for p, s in zip(parts, seps))[:-len(seps[-1])]
    if rng.random() < 0.1:
        w = rng.choice([b'-', b'.']) + w
    if rng.random() < 0.1:
        w = w + rng.choice([b'-', b'.'])
    if rng.random() < 0.15:
        w = w + bytes([rng.choice(UNQ)])
    return w


def dash_prefixes(local):
    return [local[:i] for i in range(len(local)) if local[i:i + 1] == b'-']


def candidates(local, tail):
    """names the decision may depend on, plus near misses that must not count"""
    q = b'.qmail-'
    good = [local, q + colons(local), q + colons(local) + b'-default'] + [q + colons(p) + b'-default' for p in dash_prefixes(local)] + [q + b'default']
    near = [q + local, q + local + b'-default', q + colons(local)[:-1], q + colons(local) + b'-defaul', q + colons(local) + b'-', q[:-1] + colons(local),
            q + colons(local)[:-1] + b'-default', q + colons(local) + b'x-default', b'.qmail', b'.qmail-', b'.qmail--default', q + b'defaults']
    whole = local + tail
    for i in range(len(local), len(whole)):
        if whole[i:i + 1] == b'-':
            near.append(q + colons(whole[:i]) + b'-default')
    for p in dash_prefixes(local):
        near.append(q + p + b'-default')
        near.append(q + colons(p)[:-1] + b'-default')
    return good, near


def gen_layout(rng, local, tail, bounce):
    good, near = candidates(local, tail)
    ent = []
    mode = rng.random()
    picks = []
    if mode < 0.15:
        picks = []
    elif mode < 0.6:
        picks = [rng.choice(good)]
    else:
        picks = [n for n in good if rng.random() < 0.35]
    for n in picks:
        k = rng.random()
        if n == b'.qmail-default':
            b = bounce if bounce is not None else b'/bounce\n'
            c = rng.choice([b, b, b[:-1], b + b'x', b + b, b + b + b'y', b'', b'|other\n', b + b'\0zz', b[:1], b'\0', b.split(b'\0')[0], b.split(b'\0')[0] + b'\0'])
            if k < 0.75: ent.append(('f', n, c[:255]))
            elif k < 0.85: ent.append(('d', n))
            else: ent.append(('e', n, rng.choice(ERRNOS)))
        elif k < 0.55:
            ent.append(('d', n) if (n == local and rng.random() < 0.8) or rng.random() < 0.1 else ('f', n, rng.choice([b'', b'x', b'&a@b\n'])))
        elif k < 0.75:
            ent.append(('d', n))
        else:
            ent.append(('e', n, rng.choice(ERRNOS)))
    for n in near:
        if rng.random() < 0.25:
            ent.append(rng.choice([('f', n, b''), ('d', n)]))
    for _ in range(rng.randrange(0, 3)):
        ent.append(rng.choice([('d', word(rng)), ('f', b'.qmail-' + word(rng), b''), ('f', word(rng), b'')]))
    if rng.random() < 0.15:   # an error entry on a name that is looked up before the one that decides
        ent.insert(0, ('e', rng.choice(good), rng.choice(ERRNOS)))
    rng.shuffle(ent)
    seen, out = set(), []
    for e in ent:
        if name_ok(e[1]) and e[1] not in seen:
            seen.add(e[1]); out.append(e)
    return out[:40]


DOMS = [b'example.org', b'my-dom.example', b'a-b-c.de', b'x.y', b'mail.ex-ample.org']


UNQUOTED = set(b"abcdefghijklmnopqrstuvwxyzABCDEFGHIJKLMNOPQRSTUVWXYZ0123456789.!#$%&'*+-/=?^_`{|}~")


def randcase(rng, b):
    return bytes((c - 32) if (97 <= c <= 122 and rng.random() < 0.3) else c for c in b)


def gen_rcpt(rng):
    """c2: the real addrparse() on RCPT TO:<local@domain>; local part of characters that need no quoting"""
    dom = rng.choice([d for d in DOMS if d != b'x.y'])      # "x.y" is no valid domain for addrsyntax (one-letter TLD)
    for _ in range(50):
        local = gen_local(rng)
        if local and all(c in UNQUOTED for c in local):
            break
    else:
        local = b'user'
    local = randcase(rng, local)
    k = rng.random()
    if k < 0.85:
        recs = [(rng.choice('dDmf'), d) for d in DOMS if d != dom and rng.random() < 0.3] + [(rng.choice('ddddddDmf'), dom)]
        rng.shuffle(recs)
    elif k < 0.95:
        recs = [(rng.choice('dD'), d) for d in DOMS if d != dom]
    else:
        recs = rng.choice([None, 'e'])
    bounce = rng.choice([None, b'/bounce\n', b'/bounce\n', b'|x\n'])
    return case(recs, randcase(rng, dom), gen_layout(rng, local.lower(), b'@' + dom, bounce), bounce, local, b'').replace('c1 ', 'c2 ', 1)


def gen_seq(rng):
    """c3: several user_exists() calls on one struct userconf (the global cache of MAIL FROM): same domain again, a domain
    with the same / another directory, unknown domains, absent users in between (userconf_free() resets the structure)"""
    doms = [d for d in DOMS if rng.random() < 0.7] or [DOMS[0]]
    recs = [(rng.choice('dddDDmf'), d) for d in doms]
    bounce = rng.choice([None, b'/bounce\n'])
    users = [b'user', b'u2', b'abs-ent', b'nobody', b'baz-x', b'..', b'a/b']
    layout = [('d', b'user'), ('d', b'u2'), ('f', b'.qmail-baz-default', b'')]
    if rng.random() < 0.5:
        layout.append(('f', b'.qmail-default', rng.choice([b'/bounce\n', b'|x\n'])))
    if rng.random() < 0.2:
        layout.append(('e', b'nobody', rng.choice([5, 13, 24])))
    k = rng.randrange(1, 12)
    ds = [rng.choice(doms + [b'unknown.example']) for _ in range(k)]
    ls = [rng.choice(users) for _ in range(k)]
    enc = lambda xs: b''.join(bytes([len(x)]) + x for x in xs)
    return ' '.join(['c3', R.hx(cdb(recs)), R.hx(enc(ds)), R.hx(lay(layout)), R.hx(b'' if bounce is None else b'b' + bounce), R.hx(enc(ls)), '-'])


V6 = [(b'::1', b'IPv6:::1'), (b'fe80::a', b'IPv6:fe80::A'), (b'fe80::a', b'IPv6:FE80::a'), (b'2001:db8::1', b'IPv6:2001:DB8::1'),
      (b'2001:db8::1', b'IPv6:2001:db8::1'), (b'::ffff:10.0.0.1', b'IPv6:::ffff:10.0.0.1')]


def gen_literal(rng):
    """c4: RCPT TO:<local@[ip]>: the literal is / is not the local address of the connection; liphost in users/cdb or not"""
    liphost = rng.choice([d for d in DOMS if d != b'x.y'])
    for _ in range(50):
        local = gen_local(rng)
        if local and all(c in UNQUOTED for c in local):
            break
    else:
        local = b'user'
    local = randcase(rng, local)
    k = rng.random()
    if k < 0.4:
        ip = b'%d.%d.%d.%d' % tuple(rng.choice([0, 1, 10, 127, 192, 255]) for _ in range(4))
        localip, iptext = ip, ip
    elif k < 0.6:
        localip = b'10.0.0.1'
        iptext = rng.choice([b'10.0.0.2', b'10.0.0.10', b'10.0.0.', b'1.0.0.1', b'10.0.0.11', b'110.0.0.1'])
        if iptext.endswith(b'.'):
            iptext += b'1'
    elif k < 0.9:
        localip, iptext = rng.choice(V6)
        if rng.random() < 0.3:
            localip = rng.choice(V6)[0]
    else:
        localip, iptext = b'::ffff:10.0.0.1', b'10.0.0.1'
    recs = [(rng.choice('dDmf'), d) for d in DOMS if d != liphost and rng.random() < 0.3]
    if rng.random() < 0.85:
        recs.append((rng.choice('ddddDmf'), liphost))
    bounce = rng.choice([None, b'/bounce\n'])
    return case(recs, liphost, gen_layout(rng, local.lower(), b'@[' + iptext.lower() + b']', bounce), bounce, local, localip + b'\0' + iptext).replace('c1 ', 'c4 ', 1)


def gen_cases(engine, rng, tier):
    if engine == 'cdb':
        return c13_cdbgen.gen_cases(rng, tier)
    n = 2200 if tier == 'quick' else 40000
    out = [gen_rcpt(rng) for _ in range(n // 4)] + [gen_seq(rng) for _ in range(n // 8)] + [gen_literal(rng) for _ in range(n // 10)]
    for i in range(n):
        dom = rng.choice(DOMS)
        local = gen_local(rng)
        tail = rng.choice([b'@' + dom, b'@' + dom, b'@' + rng.choice(DOMS), b'', b'-x-default', b'@[10.0.0.1]'])
        k = rng.random()
        if k < 0.85:
            others = [(rng.choice('dDmf'), d) for d in DOMS if d != dom and rng.random() < 0.4]
            recs = others + [(rng.choice('dddddDDmf'), dom)]
            rng.shuffle(recs)
        elif k < 0.90:
            recs = [(rng.choice('dDmf'), d) for d in DOMS if d != dom]
        elif k < 0.93:
            recs = None
        elif k < 0.96:
            recs = rng.choice(['e', 'E'])
        else:   # domain length at the cdb_key[] guard
            ln = rng.choice([255, 259, 260, 261, 262, 300])
            dom = (b'd' * ln)
            recs = [('d', dom[:255])] if ln > 255 else [('d', dom)]
        bounce = rng.choice([None, None, b'/bounce\n', b'/bounce\n', b'|/home/vpopmail/bin/vdelivermail \'\' bounce-no-mailbox\n', b'', b'x', b'\0', b'ab\0cd'])
        out.append(case(recs, dom, gen_layout(rng, local, tail, bounce), bounce, local, tail))
    return out


def _rc(c_out):
    try:
        return int(c_out.split()[0])
    except Exception:
        return None


def nontrivial(case, c_out):
    if case[:3] in ('d1 ', 'd2 ', 'a1 '):
        return c_out.startswith('F ') or c_out.startswith('1 ') or c_out.startswith('N 22') or c_out.startswith('-') or case.startswith('a1 ')
    r = _rc(c_out)
    if case.startswith('c3 '):
        return ',' in c_out
    if case.startswith('c2 ') or case.startswith('c4 '):
        return r is not None and len(c_out.split()) >= 4
    return r is not None and ((r > 0 and r != 5) or len(c_out.split()) >= 5)


def distribution(results):
    d = {}
    for r in results:
        op = r['case'][:2]
        if op in ('d1', 'd2', 'a1'):
            w = r['c'].split()
            if op == 'd1':
                k = 'cdb_seek_' + ('found' if w[:1] == ['F'] else 'einval' if w == ['N', '22'] else 'notfound' if w == ['N', '0'] else 'other')
            elif op == 'd2':
                k = 'cdb_vget_' + ('path' if w[:1] == ['1'] else 'notfound' if w[:1] == ['0'] else 'error' if w and w[0].startswith('-') else 'other')
            else:
                k = 'cdb_make'
            d[k] = d.get(k, 0) + 1
            continue
        rc = _rc(r['c'])
        k = 'crash' if rc is None else ('rc%d' % rc if rc >= 0 else 'error')
        if r['case'].startswith('c3 '):
            k = 'reuse_sequences'
        elif r['case'].startswith('c4 '):
            k = 'literal_' + ('crash' if rc is None else {0: 'accepted', -1: 'refused550'}.get(rc, 'error'))
        elif r['case'].startswith('c2 '):
            k = 'rcpt_' + ('crash' if rc is None else {0: 'accepted', -1: 'refused550'}.get(rc, 'error'))
        d[k] = d.get(k, 0) + 1
        f = r['case'].split()
        if len(f) == 7:
            loc = R.unhx(f[5])
            if loc in (b'.', b'..'): d['local_dot_dotdot'] = d.get('local_dot_dotdot', 0) + 1
            if b'/' in loc: d['local_slash'] = d.get('local_slash', 0) + 1
            if len(loc) > 238: d['local_long'] = d.get('local_long', 0) + 1
    return d


LEVEL_TEXT = ('Machine-checked Coq theorems over an executable model of user_exists()/qmexists()/vget_dir() (with fixes/C13-*.diff applied), '
              'for every function from names to directory entries, every vpopbounce setting and every local part: the result is positive only if '
              'one of the five documented forms exists (1 / 4 / 2 by form), 0 only if none does, negative only if a lookup failed for another '
              'reason than non-existence; every name opened relative to the domain directory is a single component other than "." and "..", and '
              'the user directory handle is an entry of the domain directory; cdb_seekmm()/vget_dir() never read outside the mapping for any file content and return the first record of a key on well-formed databases (so C13_exists also holds with users/cdb as bytes); a reused struct userconf gives the same answers and loses no descriptor; addrparse() answers 0 with "550 5.1.1 ..." and accepts anything positive.  Literals, flags, return codes and errno classes are regenerated '
              'from vpop.c on every run; the model is tied to the C by a differential run on real directory trees under ASan.')
LEVEL_NOTE = ('Trusted: Coq kernel, translator regexes, extraction (ExtrOcamlBasic), harness, generator quality of the correspondence run, the '
              'name->entry abstraction of the kernel. lib/cdb.c and the mapping of the result to "550 5.1.1" in addrparse.c are exercised / read, not modelled.')
TECHNIQUE = 'Coq proof by case analysis over the probe sequence + induction over the dash scan; cdb: literal model over an arbitrary byte list, safety by bounds invariants, lookup correctness from a structural well-formedness predicate (probe chains), cdb_make proved well-formed by an insertion invariant; translator-regenerated constants; model-vs-C differential run on real directory trees with logged openat()'
DESIGN_REF = 'DESIGN.md section 5, C13'

"""C15 — size, hop-count, recipient-count and bad-command limits (whole Qsmtpd)."""
from session_common import *

ID = 'C15'
COQ_TARGETS = ['Props/Properties_C15.vo']
PROPS_FILES = ['Props/Properties_C15.v']
THEOREMS = ['C15_data_limits', 'C15_verdict_checker_sound', 'C15_size_parameter', 'C15_rcpt_limit', 'C15_bad_commands', 'C15_constants']
ENGINES = [ENGINE]
RULE = ('sessions aimed at the limits: control/databytes in {0, 150, 400} with messages whose size counter lands within +-3 of the limit, '
        'with and without dot-stuffed lines (stored vs transmitted size differ) and empty lines; SIZE= at limit-1, limit, limit+1; 98..102 '
        'Received: lines in the header, in the body, or behind a leading dot; 499..502 recipients in one transaction; runs of 4..9 bad commands '
        '(unknown, bad sequence, bad syntax, refused recipients) interleaved with good ones; the QUIT-only loop after a pipelining violation fed with '
        'well-formed and malformed lines (bare LF, stray CR, over-long); plus general histories. non-trivial = a DATA was '
        'accepted or the connection was closed by the server; distinct by case text')
TRUSTED_BASE = TRUSTED_COMMON
ASSUMPTIONS = ASSUMPTIONS_COMMON
LEVEL_TEXT = ('Coq theorems: (1) for every reader state and byte stream, smtp_data hands a message over only if its size counter is within '
              'databytes, the stored octets never exceed the counter and the counter never exceeds the transmitted octets, so an over-limit '
              'message is never queued and an in-limit one never refused for size; the hop limit strikes exactly at MAXHOPS+1 Received: header '
              'lines and never counts body lines; (2) MAIL FROM with SIZE above the limit is not accepted; (3) for all sessions, a recipient is '
              'accepted only below MAXRCPT stored ones; (4) for all sessions the connection is closed for bad commands exactly after more than '
              'MAXBADCMDS+1 in a row. Constants regenerated from the C; tied to the binary by whole-program runs at the boundaries.')
LEVEL_NOTE = 'The BDAT path (CHUNKING builds) has no hop counting in the C (FIXME there) and is outside this model.'
TECHNIQUE = 'Coq loop invariants over smtp_data (ghost list of data lines), trace invariants over the session model; whole-program differential run at the limits'
DESIGN_REF = 'DESIGN.md section 5, C15'


def sized_body(rng, target):
    """lines whose size counter (len(unstuffed)+2 each) sums to about target"""
    lines, sz = [], 0
    if rng.random() < 0.5:
        lines.append(b'Subject: s'); sz += 12
        lines.append(b''); sz += 2
    while sz + 4 <= target:
        room = target - sz - 2
        n = min(room, rng.choice([0, 1, 5, 30, 70]))
        l = bytes(rng.choice(b'abcxyz') for _ in range(n))
        if rng.random() < 0.25:
            l = b'.' + l            # transmitted one more than stored
        lines.append(l); sz += n + 2
    return b''.join(l + b'\r\n' for l in lines) + b'.\r\n'


def gen_cases(engine, rng, tier):
    n = 250 if tier == 'quick' else 5000
    out = []
    for i in range(n):
        kind = rng.choice(['size', 'size', 'sizeparam', 'hops', 'hops', 'strict', 'strict', 'strict', 'bad', 'bad', 'wfq', 'wfq', 'rcpt'] if i % 40 else ['rcpt'])
        hello = rng.choice([b'HELO c.example.net\r\n', b'EHLO c.example.net\r\n'])
        if kind == 'size':
            lim = rng.choice([150, 400])
            chunks = [hello, session_gen.mail(rng, 'ok'), session_gen.rcpt(rng, 'ok'), b'DATA\r\n',
                      sized_body(rng, lim + rng.choice([-3, -2, -1, 0, 1, 2, 3, 10])), b'NOOP\r\n']
            cfg = 'relay=none;ip=v4;databytes=%d;qq=ok,ok' % lim
        elif kind == 'sizeparam':
            lim = rng.choice([150, 400])
            # around the limit, and values around 2^31, 2^32, 2^63, 2^64 and beyond (strtoul saturates): far over every limit,
            # whatever the width and signedness of the type they are compared in
            huge = [2**31 - 1, 2**31, 2**32 - 1, 2**32, 2**32 + lim, 2**63 - 1, 2**63, 2**63 + 1, 2**64 - 1, 2**64, 2**64 + lim - 1, 10**20 - 1]
            sz = lim + rng.choice([-1, 0, 1, 1000]) if rng.random() < 0.6 else rng.choice(huge)
            chunks = [b'EHLO c.example.net\r\n', b'MAIL FROM:<a@example.net> SIZE=%d\r\n' % sz,
                      session_gen.rcpt(rng, 'ok'), b'DATA\r\n', b'x\r\n.\r\n']
            cfg = 'relay=none;ip=v4;databytes=%d;qq=ok,ok' % lim
        elif kind == 'hops':
            k = rng.choice([98, 99, 100, 101, 102])
            where = rng.choice(['header', 'header', 'body', 'dotted', 'mixed'])
            rl = rng.choice([b'Received: from a by b', b'received: x', b'RECEIVED:'])
            if where == 'header': body = (rl + b'\r\n') * k + b'Subject: x\r\n\r\nhi\r\n.\r\n'
            elif where == 'body': body = b'Subject: x\r\n\r\n' + (rl + b'\r\n') * k + b'.\r\n'
            elif where == 'dotted': body = (b'.' + rl + b'\r\n') * k + b'\r\nhi\r\n.\r\n'
            else: body = (rl + b'\r\n') * (k - 50) + b'X: y\r\n' + (rl + b'\r\n') * 50 + b'\r\n' + (rl + b'\r\n') * 60 + b'.\r\n'
            chunks = [hello, session_gen.mail(rng, 'ok'), session_gen.rcpt(rng, 'ok'), b'DATA\r\n', body, b'NOOP\r\n']
            cfg = 'relay=none;ip=v4;databytes=0;qq=ok,ok'
        elif kind == 'strict':
            # RfC 2822 header check on (check_strict_rfc2822): Received: counting must not depend on where Date:/From:/Message-Id: stand
            k = rng.choice([3, 99, 100, 101, 101, 102, 102])
            rl = rng.choice([b'Received: from a by b', b'received: x'])
            known = [b'Date: Thu, 1 Jan 1970 00:00:00 +0000', b'From: <a@example.net>', b'Message-Id: <1@example.net>']
            rng.shuffle(known)
            pos = rng.choice(['first', 'first', 'last', 'middle', 'middle', 'first', 'middle', 'missing-date', 'missing-from', 'dup', '8bit-hdr', '8bit-body', 'deliv'])
            recv = [rl] * k
            if pos == 'first': hdr = known + recv
            elif pos == 'last': hdr = recv + known
            elif pos == 'middle': hdr = recv[:k // 2] + known[:1] + recv[k // 2:] + known[1:]
            elif pos == 'missing-date': hdr = [x for x in known if not x.startswith(b'Date')] + recv[:3]
            elif pos == 'missing-from': hdr = [x for x in known if not x.startswith(b'From')] + recv[:3]
            elif pos == 'dup': hdr = known + [rng.choice(known)] + recv[:3]
            elif pos == '8bit-hdr': hdr = known + [b'Subject: \xc3\xa4'] + recv[:3]
            elif pos == 'deliv': hdr = known + [rng.choice([b'Delivered-To: alice@example.org', b'Delivered-To: bob@example.org', b'delivered-to: alice@example.org', b'Delivered-To: x@example.net'])] + recv[:3]
            else: hdr = known + recv[:3]
            bodyl = [b'text', b'\xc3\xa4 8bit'] if pos == '8bit-body' else [b'text']
            body = b''.join(x + b'\r\n' for x in hdr) + b'\r\n' + b''.join(x + b'\r\n' for x in bodyl) + b'.\r\n'
            mailk = rng.choice([b'MAIL FROM:<a@example.net>\r\n', b'MAIL FROM:<a@example.net> BODY=8BITMIME\r\n', b'MAIL FROM:<a@example.net> BODY=7BIT\r\n'])
            chunks = [b'EHLO c.example.net\r\n', mailk, b'RCPT TO:<alice@example.org>\r\n', b'DATA\r\n', body, b'NOOP\r\n']
            cfg = 'relay=none;ip=v4;databytes=0;qq=ok,ok;check2822=%s' % rng.choice(['1', '1', '1', '0'])
        elif kind == 'wfq':
            # the QUIT-only loop (wait_for_quit) after a pipelining violation: every further line counts as a bad command,
            # also the ones net_read() rejects (bare LF, stray CR, over-long)
            entry = rng.choice(['noop2', 'data', 'early'])
            if entry == 'noop2': chunks = [hello, b'NOOP\r\nNOOP\r\n']
            elif entry == 'data': chunks = [hello, session_gen.mail(rng, 'ok'), session_gen.rcpt(rng, 'ok'), b'DATA\r\nSubject: x\r\n']
            else: chunks = [b'HELO c.example.net\r\nMAIL FROM:<a@example.net>\r\n']
            for _ in range(rng.choice([3, 5, 6, 7, 8, 12])):
                chunks.append(rng.choice([b'FOO\r\n', b'FOO\n', b'FOO\n', b'a\rb\r\n', b'x' * 1500 + b'\r\n', b'NOOP\r\n', b'\r\n']))
            if rng.random() < 0.5: chunks.append(b'QUIT\r\n')
            cfg = 'relay=none;ip=v4;databytes=0;qq=ok'
        elif kind == 'bad':
            chunks = [hello] if rng.random() < 0.7 else []
            for _ in range(rng.choice([1, 2, 3])):
                for _ in range(rng.choice([4, 5, 6, 7, 8, 9])):
                    chunks.append(rng.choice([b'FOO\r\n', b'DATA\r\n', b'RCPT TO:<x@example.net>\r\n', b'MAIL FROM:<bad>\r\n', b'NOOP x\r\n',
                                              b'RCPT TO:<nobody@example.org>\r\n', b'VRFY\r\n', b'a\rb\r\n', b'STARTTLS\r\n']))
                chunks.append(rng.choice([b'NOOP\r\n', b'RSET\r\n', b'VRFY x\r\n', b'MAIL FROM:<a@example.net>\r\n']))
            cfg = 'relay=none;ip=v4;databytes=0;qq=ok'
        else:
            k = rng.choice([499, 500, 501, 502])
            chunks = [hello, session_gen.mail(rng, 'ok')] + [b'RCPT TO:<alice@example.org>\r\n'] * k + [b'DATA\r\n', b'x\r\n.\r\n']
            cfg = 'relay=none;ip=v4;databytes=0;qq=ok'
        if kind in ('size', 'hops', 'strict') and rng.random() < 0.3:
            # the same on the submission port (587, client in relayclients): the header checks run there as in strict mode, the
            # Date / From / Message-Id fields the server adds are not counted into the size
            cfg = cfg.replace('relay=none', 'relay=listed') + ';port=587'
        out.append(session_gen.case(cfg, chunks))
    return out + session_gen.gen(rng, 100 if tier == 'quick' else 2000)


def nontrivial(case, c_out):
    toks = c_out.split()
    return 'r354' in toks or 'closed' in toks

"""C08 — transactions are isolated and commands are accepted only in order (whole Qsmtpd)."""
from session_common import *

ID = 'C08'
COQ_TARGETS = ['Props/Properties_C08.vo']
PROPS_FILES = ['Props/Properties_C08.v']
THEOREMS = ['C08_order_and_isolation', 'C08_handoff_is_open_transaction', 'C08_command_table']
ENGINES = [ENGINE]
RULE = ('case = scratch configuration (relay list kind, v4/v6 client, databytes, qmail-queue plan) + a history of client segments over '
        '{HELO/EHLO good/bad, MAIL valid/bounce/SIZE/BODY/unknown/bad parameter/bad syntax/unknown local sender, RCPT local existing/unknown/remote/'
        'no MX/null MX/bad syntax/extra parameter, DATA + payload (dot lines, Received floods, 8-bit, anomalies), RSET, NOOP, VRFY, AUTH, STARTTLS, POST, '
        'garbage, pipelined groups, split lines, QUIT}, plus sessions of bounces with two to four recipients from clients authenticated by AUTH, relay clients by IP, or neither; the real Qsmtpd is driven in lock step and its reply codes, hand-offs (envelope, message) and '
        'connection end are compared with the extracted model; for simple sessions the extracted checkers trace_run/queue_run judge the '
        'implementation trace itself. non-trivial = a hand-off happened or a DATA was accepted in a session of more than 6 replies; distinct by case text')
TRUSTED_BASE = TRUSTED_COMMON
ASSUMPTIONS = ASSUMPTIONS_COMMON
LEVEL_TEXT = ('Coq theorem for all oracles and all client byte streams in all segmentations: the event trace of the modelled server passes the '
              'abstract phase/transaction checker (MAIL only after greeting outside a transaction, RCPT only after MAIL, DATA only with an accepted '
              'recipient, bounce with at most one recipient, every hand-off envelope = the open transaction; RSET/HELO/EHLO/end of DATA close it). '
              'Proved by a simulation relation preserved by every round of the command loop; the command table facts are re-checked by computation '
              'on the table regenerated from qsmtpd.c. The model is tied to the real binary by whole-program differential runs.')
LEVEL_NOTE = ('Proof is about the model; model-vs-binary agreement is differential testing. Two genuine defects found this way were fixed in /repo '
              '(freedata leaves transaction states; EHLO drops the transaction). STARTTLS/AUTH/BDAT paths are not in this model.')
TECHNIQUE = 'Coq simulation proof (state relation preserved by each smtploop round, reflection over the regenerated commands[] table); whole-program model-vs-binary differential run'
DESIGN_REF = 'DESIGN.md section 5, C08'


def gen_cases(engine, rng, tier):
    out = session_gen.gen(rng, 500 if tier == 'quick' else 12000)
    # bounces with several recipients from clients that are authenticated, relay clients by IP, or neither
    for _ in range(120 if tier == 'quick' else 3000):
        cfg = 'relay=%s;ip=%s;databytes=0;qq=ok,ok,ok,ok;auth=%s' % (rng.choice(['none', 'none', 'listed']), rng.choice(['v4', 'v6']), rng.choice(['1', '1', '1', '0']))
        out.append(session_gen.case(cfg, session_gen.bounce_session(rng)))
    # a MAIL that is refused by its handler itself (SIZE above control/databytes: 452, -EDONE) must not open a transaction:
    # the RCPT / DATA that follow are out of order, also right after a completed transaction
    for _ in range(80 if tier == 'quick' else 2000):
        cfg = 'relay=none;ip=%s;databytes=%s;qq=ok,ok,ok,ok' % (rng.choice(['v4', 'v6']), rng.choice(['200', '1000']))
        ch = [rng.choice([b'HELO c.example.net\r\n', b'EHLO c.example.net\r\n'])]
        if rng.random() < 0.4:
            ch += [session_gen.mail(rng, rng.choice(['ok', 'bounce'])), session_gen.rcpt(rng, 'ok'), b'DATA\r\n', session_gen.body(rng)]
        ch.append(session_gen.mail(rng, 'bigsize'))
        for _ in range(rng.choice([1, 1, 2])):
            ch.append(session_gen.rcpt(rng, 'ok'))
        ch += [b'DATA\r\n', session_gen.body(rng)]
        if rng.random() < 0.5:
            ch.append(b'QUIT\r\n')
        out.append(session_gen.case(cfg, ch))
    return out

"""C17 — STARTTLS (server): no clear-text input survives into the TLS session (whole Qsmtpd, real TLS client)."""
import os, sys
import runlib as R
sys.path.insert(0, os.path.join(R.VERIF, 'gen'))
import session_gen as G

ID = 'C17'
COQ_TARGETS = ['Props/Properties_C17.vo']
PROPS_FILES = ['Props/Properties_C17.v']
THEOREMS = ['C17_no_cleartext_at_switch', 'C17_pending_cleartext_never_switches', 'C17_after_switch_only_tls_input',
            'C17_reset_after_switch', 'C17_mail_needs_new_greeting', 'C17_handoff_after_switch', 'C17_ready_only_if', 'C17_refused',
            'C17_not_offered', 'C17_failed_handshake', 'C17_tls_only_by_switch', 'C17_shape', 'C17_starttls_row',
            'C17_servercert_call', 'C17_servercert_calls', 'C17_servercert_orig_refuted', 'C17_auth_survives_switch']
ENGINES = [dict(name='tlssession', runner='tlssession/runner.py', extract='Extract/Extract_tlssession.v', driver='tls_driver.ml',
                glue=('glue.ml', 'glue_z.ml'), accepts=lambda c: c.startswith('7e ')),
           dict(name='servercert', c_sources=['servercert_h.c'], extract='Extract/Extract_servercert.v', driver='servercert_driver.ml',
                glue=('glue.ml',), accepts=lambda c: c.startswith('ce '))]
SHRINK_FROM = 2      # never shrink the configuration field

RULE = ('case = scratch configuration (certificate good / absent / unusable, relay list, v4/v6 client, databytes, qmail-queue plan) + a client '
        'script: clear-text segments, handshake items (real TLS handshake by python ssl over memory BIOs / a ClientHello the server must refuse), '
        'segments sent inside TLS, optional half-close. Families: clean STARTTLS then a TLS session (with and without a new EHLO, MAIL/RCPT/DATA); '
        'clear-text suffix behind STARTTLS in the same segment (whole commands, partial commands, single octets; STARTTLS line itself split over '
        'segments; suffix placed exactly behind a full 1001-octet read so that it is still in the socket); suffix in a following segment of 1..12 '
        'octets (consumed by SSL_accept) followed by more clear text / a real handshake / close; refused ClientHello then clear text and a second '
        'STARTTLS; close instead of a ClientHello; STARTTLS repeated inside TLS; MAIL/RCPT before STARTTLS; HELO sessions; no / unusable certificate. '
        'The real Qsmtpd (ASan+UBSan) is driven in lock step; reply codes per channel (clear / TLS), the STARTTLS announcement, the switch, hand-offs '
        '(envelope, message incl. the Received line that names the channel) and the connection end are compared with the extracted model; the '
        'extracted checker spec_ok_C17 and, for simple scripts, ttrace_run/shape_ok judge the implementation trace itself. '
        'non-trivial = a STARTTLS command was answered 220; distinct by case text. '
        'Second engine servercert (unit): find_servercert() with faccessat answered from a per-call mask over the six candidate names, local address '
        'of 1..45 arbitrary non-NUL octets (boundary lengths 37..45), port none/1..5 octets, 1..6 calls on the same static arrays; probed names, return '
        'value, certfilename and keyfilename compared with the literal model, spec_ok_servercert judges the C result; non-trivial = several calls, one found')
TRUSTED_BASE = [
    'Coq 8.16.1 kernel; vm_compute only for the commands[] table checks (forallb over 12 rows) and the examples',
    'axioms: none (Closed under the global context)',
    'translators tools/translators/qsmtpd.py (commands[] rows) and tools/translators/tls.py (guards of smtp_starttls, order of sync_pipelining / 220 / SSL_accept / '
    'assignment of the session in tls_init, reply codes, conditions of the EHLO announcement), regenerated from the C on every run',
    'hand-written models coq/Model/TlsSwitch.v (smtp_starttls, tls_init, the switch of the reader, EHLO announcement) on top of coq/Model/Session.v and '
    'coq/Model/NetRead.v; tied to the real Qsmtpd binary by the whole-program correspondence run',
    'ORACLES, not verified: OpenSSL (SSL_accept outcome is part of the script: completes / fails; a failing SSL_accept on non-TLS input consumes o_eat = 5 '
    'octets, the record header; the record layer delivers the bytes written by the peer in order, one record per SSL_read; SSL_pending); tls_init\'s OpenSSL set-up '
    'calls succeed or fail as a whole (o_tlsinit); find_servercert (o_certfile); plus all oracles of the session model (address parser, DNS, relay list, qmail-queue)',
    'whole-program harness harness/tlssession/runner.py: the binary of harness/session/runner.py (all of qsmtpd/** and lib/*.c, only lib/libowfatconn.c replaced), '
    'self-signed RSA certificate generated with the openssl CLI, python3 ssl (OpenSSL 3.0) client over memory BIOs, lock-step delivery by /proc/<pid>/syscall + SIOCOUTQ',
    'extraction (ExtrOcamlBasic only) and ocaml/tls_driver.ml incl. the reconstruction of ghost notes from (command text, reply code) for simple scripts in spec mode',
    'unit harness harness/servercert_h.c (#include of qsmtpd/starttls.c, faccessat redirected, other collaborators stubbed, statics reset to their start-up image per case), '
    'coq/Model/ServerCert.v, ocaml/servercert_driver.ml; INET6_ADDRSTRLEN taken from the system header by the translator',
]
ASSUMPTIONS = [
    'lock-step client: a segment, a ClientHello or a close is sent only when the server is blocked on its input. A clear-text segment that reaches the server '
    'between the read of the STARTTLS line and sync_pipelining()\'s poll behaves like a suffix in the same segment, one that arrives later like the '
    '"following segment" (consumed by SSL_accept); both are in the model, the timing itself is not',
    'inside TLS: segments of at most 300 octets and lines below 500 octets, so that an SSL_read never leaves part of a record pending (SSL_pending = 0); '
    'the SSL_pending branch of data_pending is then equivalent to the clear-text one',
    'garbage sent instead of a ClientHello is text (second octet not 3, no SSLv2 pattern): OpenSSL fails on the 5-octet record header',
    'AUTH: PLAIN with an initial response against the checkpassword stand-in (cfg auth=1), no forcesslauth (auth_permitted is the same in both channels); port 25, CHUNKING off, no client certificates (tls_verify not reached), timeouts not reached',
]
LEVEL_TEXT = ('Coq theorems for all oracles, all scripts (all pre-handshake histories, all clear-text suffixes in the same or a later segment, all handshake '
              'outcomes) about the state/buffer logic: (1) a round that switches to TLS starts from an empty lineinn and an exhausted clear-text stream and '
              'leaves a reader whose only source is the TLS stream; with anything pending the session ends in wait_for_quit; (2) after the switch the trace '
              'passes the phase/transaction checker restarted from "nothing yet": MAIL needs a new HELO/EHLO and every hand-off carries a transaction opened '
              'inside TLS; (3) STARTTLS is refused without ESMTP, inside TLS, without usable certificate, and announced only in clear text with a certificate; '
              '(4) a failed handshake leaves ssl unset and the command state unchanged. find_servercert (literal model of the 76-byte name arrays): no access '
              'outside the arrays and the documented result for every address <= 45 octets, port <= 5 octets, every faccessat oracle and any number of calls.')
LEVEL_NOTE = ('Partial for OpenSSL: handshake and record layer are oracles. The proof is about the model; model-vs-binary agreement is differential testing '
              'with a real TLS client.')
TECHNIQUE = ('Coq invariant proof on top of the session simulation relation (Proofs/SessionProofs.v), reflection over the regenerated commands[] table and the '
             'regenerated guard/order facts of starttls.c; whole-program model-vs-binary differential run with a TLS client')
DESIGN_REF = 'DESIGN.md section 5, C17'

EHLO = b'EHLO c.example.net\r\n'

import base64


def auth_line(rng, kind):
    """AUTH PLAIN with an initial response (as props/C01.py:auth_line; the checkpassword stand-in accepts the password 'secret')"""
    def plain(authz, user, pw): return b'AUTH PLAIN ' + base64.b64encode(authz + b'\0' + user + b'\0' + pw) + b'\r\n'
    user = rng.choice([b'alice', b'bob@example.org', b'u'])
    if kind == 'good': return plain(rng.choice([b'', b'', b'admin']), user, b'secret')
    if kind == 'wrongpw': return plain(b'', user, rng.choice([b'Secret', b'secre', b'x']))
    return rng.choice([b'AUTH FOO\r\n', b'AUTH PLAIN !!!!\r\n'])


def item(kind, data=b''):
    return (kind.encode() + data).hex()


def case(cfg, items):
    return '7e ' + R.hx(cfg) + ' ' + ' '.join(item(k, d) for k, d in items)


def S(b):
    return ('S', b)


H, B, C = ('H', b''), ('B', b''), ('C', b'')


def config(rng, cert=None):
    cfg = ['cert=' + (cert or rng.choice(['good'] * 8 + ['none', 'bad'])),
           'relay=' + rng.choice(['none', 'none', 'listed', 'listed', 'unlisted']),
           'ip=' + rng.choice(['v4', 'v4', 'v6']),
           'databytes=' + rng.choice(['0', '0', '1000'])]
    plan = [rng.choice(['ok', 'ok', 'ok', 'exit:31', 'exit:100']) for _ in range(4)]
    cfg.append('qq=' + ','.join(plan))
    if rng.random() < 0.35:
        cfg.append('auth=1')               # checkpassword stand-in configured: AUTH is announced and permitted
    if rng.random() < 0.2:
        cfg.append('check2822=1')          # strict header checks of smtp_data: part of Session.step, used unchanged in both channels
    return ';'.join(cfg)


def small_body(rng):
    while True:
        b = G.body(rng, False)
        if len(b) <= 300 and max(len(l) for l in b.split(b'\n')) < 400:
            return b


def tls_split(chunks):
    out = []
    for c in chunks:
        while len(c) > 300:
            out.append(c[:300]); c = c[300:]
        out.append(c)
    return out


def transaction(rng):
    ch = [G.mail(rng, rng.choice(['ok', 'ok', 'ok', 'bounce', 'size', 'body']))]
    for _ in range(rng.choice([1, 1, 2])):
        ch.append(G.rcpt(rng, rng.choice(['ok', 'ok', 'remote', 'no'])))
    ch += [b'DATA\r\n', small_body(rng)]
    return ch


def prehistory(rng):
    """clear text before STARTTLS, ending in a state where STARTTLS may or may not be allowed"""
    r = rng.random()
    if r < 0.41:
        return [EHLO]
    if r < 0.45:                       # ESMTP greeting, then a refused one (blank in the argument): the session is plain SMTP again, STARTTLS must be refused
        return [EHLO, rng.choice([b'HELO client example\r\n', b'HELO \r\n', b'EHLO a b\r\n'])]
    if r < 0.55:
        return [rng.choice([b'HELO c.example.net\r\n', b'NOOP\r\n', b'RSET\r\n'])]
    if r < 0.70:                       # a transaction begun in clear text
        return [EHLO, G.mail(rng, 'ok')] + ([G.rcpt(rng, 'ok')] if rng.random() < 0.6 else [])
    if r < 0.80:                       # ... and given up again
        return [EHLO, G.mail(rng, 'ok'), G.rcpt(rng, 'ok'), rng.choice([b'RSET\r\n', EHLO])]
    if r < 0.86:                       # a complete clear-text transaction first
        return [EHLO] + transaction(rng)
    if r < 0.95:                       # authentication (attempt) in clear text: what is obtained here survives STARTTLS
        return [EHLO] + [auth_line(rng, rng.choice(['good', 'good', 'wrongpw', 'mech'])) for _ in range(rng.choice([1, 1, 2]))]
    return [EHLO, rng.choice([b'VRFY x\r\n', b'FOO\r\n', b'NOOP\r\n'])]


def tls_session(rng):
    """what the client says inside TLS"""
    r = rng.random()
    ch = []
    if r < 0.25:                       # forgets the new EHLO
        ch += rng.choice([[G.mail(rng, 'ok'), G.rcpt(rng, 'ok'), b'DATA\r\n'], [G.rcpt(rng, 'ok')], [b'DATA\r\n'], [b'RSET\r\n', G.mail(rng, 'ok')],
                          [b'STARTTLS\r\n'], [b'NOOP\r\n', G.mail(rng, 'ok')]])
    if rng.random() < 0.85:
        ch.append(rng.choice([EHLO, EHLO, b'EHLO tls.example.net\r\n', b'HELO tls.example.net\r\n']))
        if rng.random() < 0.3:
            ch.append(b'STARTTLS\r\n')
        if rng.random() < 0.25:        # AUTH inside TLS (refused with 503 when the client authenticated in clear text already)
            ch.append(auth_line(rng, rng.choice(['good', 'good', 'wrongpw'])))
        for _ in range(rng.choice([0, 1, 1, 2])):
            ch += transaction(rng)
        if rng.random() < 0.2:
            ch.append(rng.choice([b'NOOP\r\nNOOP\r\n', b'RSET\r\n', b'VRFY x\r\n', b'FOO\r\n', b'NO', b'OP\r\n']))
    if rng.random() < 0.4:
        ch.append(b'QUIT\r\n')
    if rng.random() < 0.15 and len(ch) >= 2:     # pipelined group inside TLS
        i = rng.randrange(len(ch) - 1)
        if len(ch[i]) + len(ch[i + 1]) <= 300 and not ch[i].startswith(b'DATA'):
            ch[i:i + 2] = [ch[i] + ch[i + 1]]
    return [S(c) for c in tls_split(ch)]


SUFFIXES = [b'RSET\r\n', b'NOOP\r\n', b'MAIL FROM:<x@example.net>\r\n', b'MAIL FROM:<x@example.net>\r\nRCPT TO:<alice@example.org>\r\nDATA\r\n',
            b'EHLO evil.example.net\r\n', b'QUIT\r\n', b'R', b'RS', b'\r', b'\n', b'\r\n', b' ', b'MAIL FROM:<x@exam', b'STARTTLS\r\n', b'\x00', b'\x16\x03\x01']


def padded_starttls(rng, target):
    """EHLO + fillers + STARTTLS CRLF of exactly `target` octets (the first read() takes 1001)"""
    k = (target - 8 - 10 - 30) // 6
    n = target - 8 - 10 - 6 * k - 7
    return b'EHLO x\r\n' + b'RSET\r\n' * k + b'VRFY ' + b'a' * n + b'\r\n' + b'STARTTLS\r\n'


def gen_one(rng):
    cfg = config(rng)
    fam = rng.choice(['clean'] * 4 + ['auth'] + ['suffix'] * 4 + ['split', 'boundary', 'later', 'later', 'later', 'refused-hello', 'close', 'intls', 'nocert', 'helo', 'certname'])
    pre = prehistory(rng)
    if fam == 'auth':
        # AUTH in clear text, STARTTLS, then a recipient outside rcpthosts inside TLS: accepted iff the authentication carried over
        cfg = config(rng, 'good')
        if 'auth=1' not in cfg and rng.random() < 0.85:
            cfg += ';auth=1'
        cfg = cfg.replace('relay=listed', 'relay=none')
        k1 = rng.choice(['good', 'good', 'good', 'wrongpw'])
        tls = [EHLO] + ([auth_line(rng, rng.choice(['good', 'wrongpw']))] if rng.random() < 0.4 else [])
        tls += [G.mail(rng, 'ok'), G.rcpt(rng, 'remote'), G.rcpt(rng, rng.choice(['ok', 'remote'])), b'DATA\r\n', small_body(rng)]
        items = [S(EHLO), S(auth_line(rng, k1)), S(b'STARTTLS\r\n'), H] + [S(c) for c in tls_split(tls)]
    elif fam == 'clean':
        items = [S(c) for c in pre] + [S(b'STARTTLS\r\n'), H] + tls_session(rng)
        if rng.random() < 0.2:
            items.append(C)
    elif fam == 'suffix':
        suf = rng.choice(SUFFIXES)
        pre = pre if rng.random() < 0.5 else [EHLO]
        first = b''.join(pre) if rng.random() < 0.5 and not any(c.startswith(b'DATA') for c in pre) else None
        if first is not None and len(first) < 600 and b'NOOP' not in first:
            items = [S(first + b'STARTTLS\r\n' + suf)]
        else:
            items = [S(c) for c in pre] + [S(b'STARTTLS\r\n' + suf)]
        items += [H] + tls_session(rng)
        if rng.random() < 0.3:           # the client completes its own injected partial command inside TLS / goes on in clear text
            items.insert(len(items) - 1, S(rng.choice([b'ET\r\n', b'ple.net>\r\n', b'QUIT\r\n'])))
    elif fam == 'split':
        line = b'STARTTLS\r\n'
        i = rng.randrange(1, len(line))
        suf = rng.choice(SUFFIXES + [b''] * 8)
        items = [S(c) for c in pre] + [S(line[:i]), S(line[i:] + suf), H] + tls_session(rng)
    elif fam == 'boundary':
        target = rng.choice([995, 999, 1000, 1001, 1001, 1001, 1002, 1003, 1011])
        suf = rng.choice(SUFFIXES + [b''])
        items = [S(padded_starttls(rng, target) + suf), H] + tls_session(rng)
    elif fam == 'later':
        g = rng.choice([b'RSET\r\n', b'NOOP\r\nNOOP\r\n', b'MAIL FROM:<x@example.net>\r\n', b'QUIT\r\nQUIT\r\n', b'abcd', b'abcde', b'abcdef', b'a', b'ab\r\n',
                        b'RSET\r\nMAIL FROM:<x@example.net>\r\nRCPT TO:<alice@example.org>\r\n', b'GET / HTTP/1.0\r\n', b'POST / HTTP/1.0\r\n'])
        parts = [g] if rng.random() < 0.6 else [g[:max(1, len(g) // 2)], g[max(1, len(g) // 2):]]
        parts = [p for p in parts if p]
        items = [S(c) for c in pre] + [S(b'STARTTLS\r\n')] + [S(p) for p in parts]
        r = rng.random()
        if r < 0.35:
            items += [S(c) for c in [b'NOOP\r\n', G.mail(rng, 'ok'), G.rcpt(rng, 'ok'), b'QUIT\r\n'][:rng.choice([1, 2, 3, 4])]]
        elif r < 0.6:
            items += [H] + tls_session(rng)
        elif r < 0.8:
            items += [S(b'\r\n'), S(b'STARTTLS\r\n'), H] + tls_session(rng)
        else:
            items += [C]
    elif fam == 'refused-hello':
        items = [S(c) for c in pre] + [S(b'STARTTLS\r\n'), B]
        items += [S(c) for c in rng.choice([[b'NOOP\r\n'], [G.mail(rng, 'ok'), G.rcpt(rng, 'ok')], [], [b'RSET\r\n']])]
        if rng.random() < 0.7:
            items += [S(b'STARTTLS\r\n'), rng.choice([H, H, B])] + tls_session(rng)
    elif fam == 'close':
        items = [S(c) for c in pre] + [S(b'STARTTLS\r\n')] + ([S(rng.choice([b'a', b'ab', b'abcd']))] if rng.random() < 0.3 else []) + [C]
    elif fam == 'intls':
        items = [S(EHLO), S(b'STARTTLS\r\n'), H, S(rng.choice([b'STARTTLS\r\n', EHLO + b'STARTTLS\r\n', EHLO])), S(b'STARTTLS\r\n'), H] + tls_session(rng)
    elif fam == 'certname':
        # the certificate under its per-address names; EHLO given several times (find_servercert runs once per EHLO)
        cfg = config(rng, rng.choice(['good', 'good', 'bad'])) + ';certname=' + rng.choice(['ip', 'ipport', 'ipport'])
        if 'ip=v6' in cfg and rng.random() < 0.7:
            cfg += ';localip=long'
        k = rng.choice([1, 2, 2, 3, 4])
        greet = [rng.choice([EHLO, b'EHLO x\r\n', b'HELO x\r\n', b'RSET\r\n']) for _ in range(k - 1)] + [EHLO]
        items = [S(c) for c in greet] + [S(b'STARTTLS\r\n'), H] + tls_session(rng)
    elif fam == 'nocert':
        cfg = config(rng, rng.choice(['none', 'bad']))
        items = [S(c) for c in pre] + [S(b'STARTTLS\r\n'), rng.choice([H, S(b'NOOP\r\n')])] + [S(c) for c in transaction(rng)]
    else:
        items = [S(b'HELO c.example.net\r\n'), S(b'STARTTLS\r\n'), rng.choice([H, S(G.mail(rng, 'ok'))]), S(b'QUIT\r\n')]
    return case(cfg, items)


IPS = [b'192.0.2.2', b'1.2.3.4', b'255.255.255.255', b'::1', b'2001:db8::2', b'2001:0db8:1111:2222:3333:4444:5555:6666',
       b'2001:db8:1111:2222:3333:4444:5555:6666', b'0000:0000:0000:0000:0000:ffff:192.168.100.100', b'x']


def gen_servercert(rng):
    r = rng.random()
    if r < 0.5:
        ip = rng.choice(IPS)
    else:                             # any length up to INET6_ADDRSTRLEN - 1, any octets but NUL
        n = rng.choice([1, 2, 15, 37, 38, 39, 40, 43, 44, 45, 45, rng.randrange(1, 46)])
        ip = bytes(rng.choice([rng.randrange(1, 256), 0x3a, 0x2e, 0x30 + rng.randrange(10)]) for _ in range(n))
    port = rng.choice([b'', b'25', b'587', b'465', b'65535', b'1', b'2525'])
    k = rng.choice([1, 1, 2, 2, 3, 4, 6])
    masks = []
    for _ in range(k):
        m = rng.choice([0, 1, 3, 4, 12, 16, 48, 63, rng.randrange(64), rng.randrange(64)])
        if rng.random() < 0.3 and masks:
            m = masks[-1]
        masks.append(m)
    return 'ce ' + R.hx(ip) + ' ' + R.hx(port) + ' ' + ' '.join('%02x' % m for m in masks)


def gen_cases(engine, rng, tier):
    if engine == 'servercert':
        return [gen_servercert(rng) for _ in range(2000 if tier == 'quick' else 60000)]
    n = 450 if tier == 'quick' else 9000
    return [gen_one(rng) for _ in range(n)]


def nontrivial(case, c_out):
    if case.startswith('ce '):
        return len(case.split()) > 4 and ' r0:' in ' ' + c_out
    return c_out.split().count('c220') >= 2


def distribution(results):
    d = dict(switched=0, handshake_refused_by_client_view=0, cleartext_suffix_same_segment=0, suffix_cases_that_switched=0, garbage_454=0,
             unmodelled=0, tls_replies=0, starttls_refused_in_tls=0, offers=0, handoffs_in_tls=0, handoffs_clear=0, closed=0,
             judged_by_trace_checker=0, auth_235_clear=0, auth_235_tls=0, esmtpsa_handoffs_after_clear_auth=0)
    d['servercert_calls'] = 0
    d['servercert_found'] = 0
    for r in results:
        if r['case'].startswith('ce '):
            d['servercert_calls'] += len(r['c'].split())
            d['servercert_found'] += sum(1 for x in r['c'].split() if x.startswith('r0:'))
            continue
        t = r['c'].split()
        suffix = False
        for x in r['case'].split()[2:]:
            b = bytes.fromhex(x)
            if b[:1] in (b'H', b'B'):
                break                     # only the clear text in front of the first handshake item
            i = b.upper().find(b'STARTTLS\r\n')
            if b[:1] == b'S' and i >= 0 and len(b) > i + 10:
                suffix = True
        if suffix: d['cleartext_suffix_same_segment'] += 1
        if 'S' in t:
            d['switched'] += 1
            d['tls_replies'] += sum(1 for x in t if x.startswith('t'))
            if suffix: d['suffix_cases_that_switched'] += 1
        if 'F' in t: d['handshake_refused_by_client_view'] += 1
        if 'U' in t: d['unmodelled'] += 1
        for i, x in enumerate(t):
            if x == 'c220' and i > 0 and i + 1 < len(t) and t[i + 1] == 'c454': d['garbage_454'] += 1
        if 'S' in t: d['starttls_refused_in_tls'] += t[t.index('S'):].count('t503')
        d['offers'] += t.count('O')
        for x in t:
            if x.startswith('Q') and '/' in x:
                m = x.split('/')[1]
                if b'ESMTPS' in (bytes.fromhex(m) if m != '-' else b''):
                    d['handoffs_in_tls'] += 1
                else:
                    d['handoffs_clear'] += 1
        d['auth_235_clear'] += t.count('c235')
        d['auth_235_tls'] += t.count('t235')
        if 'c235' in t and 't235' not in t:
            d['esmtpsa_handoffs_after_clear_auth'] += sum(1 for x in t if x.startswith('Q') and '/' in x and b'ESMTPSA' in bytes.fromhex(x.split('/')[1].replace('-', '')))
        if t and t[-1] == 'closed': d['closed'] += 1
        if r.get('spec') == 'ok+trace': d['judged_by_trace_checker'] += 1
    return d

"""C18 — STARTTLS (client): only in-TLS replies are trusted, pinned certificates / TLSA / the route's client
certificate are honoured (qremote/starttlsr.c, conn_mx.c, greeting.c, reply.c, qremote.c, smtproutes.c, lib/netio.c)."""
import runlib as R

ID = 'C18'
COQ_TARGETS = ['Props/Properties_C18.vo']
PROPS_FILES = ['Props/Properties_C18.v']
THEOREMS = ['C18_model_total', 'C18_spec_holds', 'C18_in_tls_only', 'C18_extensions_from_tls', 'C18_pinned', 'C18_pinned_file',
            'C18_expect_tls', 'C18_route_cert', 'C18_no_half_switch', 'C18_wrong_host_refuted', 'C18_checker_sound']
ENGINES = [dict(name='tlssw', c_sources=['tlssw_h.c'], extract='Extract/Extract_tlssw.v', driver='tlssw_driver.ml',
                glue=('glue.ml', 'glue_z.ml'), accepts=lambda c: c.startswith('c8 '))]
SHRINK = False       # the case has counted fields; the generator already produces small cases
RULE = ('case = (route has its own client certificate?, 1..3 MX each with: named?, tlshosts file present / loadable, TLSA records with the '
        'answer of SSL_dane_tlsa_add, clear-text server script as segments, '
        'handshake result, clear-text segments after a failed handshake, verification result, in-TLS script as segments); scripts are composed '
        'from a greeting {220, multi-line, 554, codes differing, bare LF, closed, over-long}, an EHLO answer {with/without STARTTLS, other '
        'extensions, syntax errors, 5xx then HELO 250/4xx/5xx}, an answer to STARTTLS {220, multi-line 220, 454, 220-/454, cut off, junk} with '
        'injected clear text {complete reply lines, one byte, an unterminated line, a forged EHLO answer plus 250 for MAIL} in the same or a '
        'later segment, and an in-TLS script {EHLO answer, error, HELO fallback, closed at once, over-long, junk}; '
        'streams are cut into segments at random; non-trivial = a TLS handshake was attempted or a TLS/clear-text requirement decided the '
        'outcome; distinct by case text')
TRUSTED_BASE = [
    'Coq 8.16.1 kernel (coqc; coqchk in thorough); vm_compute only for the refutation witness and the non-vacuity example',
    'axioms: none (Print Assumptions: Closed under the global context)',
    'translator tools/translators/starttls.py: regexes over qremote/{greeting,starttlsr,conn_mx,qremote,reply,smtproutes}.c and lib/netio.c produce '
    'coq/Gen/GenStarttls.v: extension table and STARTTLS bit, expected reply codes, usable TLSA usages, the verification condition, whether '
    'net_read() drops input buffered under another TLS state (drop_stale_input), which errors drop the socket without QUIT and whether the TLS '
    'session is dropped with it, whether quitmsg() forgets the route settings, whether main() refuses a tlshosts host outside TLS, that TLSA is '
    'asked for the list head, '
    'command texts, first words of the reports; structural regexes fail loudly when the surrounding code changes shape',
    'hand-written model coq/Model/TlsClient.v (reusing the byte-level line reader model coq/Model/NetRead.v of C05) tied to the C by the '
    'correspondence run: byte-identical event list (connections, every write with its channel, every net_read result with channel and unconsumed '
    'byte count, handshake with buffered byte count, verification, start of transmission with smtpext), exit and report codes',
    'boolean specification coq/Spec/TlsSwitchSpec.v:spec_ok_C18 is the function the theorems speak about and the one run on the C observations',
    'extraction with ExtrOcamlBasic only; ocaml/glue.ml, glue_z.ml, tlssw_driver.ml (case and event parsing)',
    'C harness harness/tlssw_h.c: the real netio.c, reply.c, client.c, greeting.c, smtproutes.c (free_smtproute_vals, expect_tls), starttlsr.c, '
    'conn.c (tryconn), conn_mx.c, qremote.c (main, quitmsg, net_conn_shutdown) in one translation unit; OS calls redirected to the script; '
    'OpenSSL entry points that touch the network or decide (ssl_timeoutconn/read/write, SSL_get_verify_result, SSL_CTX_load_verify_locations, '
    'SSL_dane_tlsa_add, SSL_CTX_use_certificate_chain_file) replaced by oracles driven from the case; gcc 12 -O1 ASan+UBSan vs. production build',
]
ASSUMPTIONS = [
    'OpenSSL is an oracle: the handshake result, the verification result (SSL_get_verify_result; note it is X509_V_OK when the peer sent no '
    'certificate at all), what SSL_read delivers and that it delivers only authenticated bytes of the session, SSL_dane_tlsa_add results, '
    'loading of the pinned file; lib/ssl_timeoutio.c itself is not modelled',
    'clear-text bytes that have not been read from the socket when the handshake starts are consumed by the handshake (SSL_connect reads them as records)',
    'one address per MX entry; connect() succeeds; DNS (dnstlsa) answers from the case; no control/tlsclientciphers; SSL_CTX_new/SSL_new/'
    'SSL_dane_enable/SSL_set_fd succeed; write() to socket and status pipe succeeds; no poll timeout and no read() error other than the closed '
    'connection on the clear-text socket',
    'the helo name is short (one command line per net_writen call); send_envelope and what follows are C04 (here: the first command only)',
    'the route setting (expect_tls, client certificate name) is installed as smtproute() leaves it; the parsing of smtproutes.d is C20',
]

# ------------------------------------------------------------------ case construction
def hx(b):
    return b.hex() if b else '-'

NAMED, PINFILE, PINLOAD = 1, 2, 4

def conn(flags=NAMED, tlsa=(), hs=0, verify=0, pre=(), post=(), tls=()):
    t = b''.join(bytes([u, r + 1]) for u, r in tlsa)
    return (['%02x' % flags, hx(t), '%02x' % hs, '%02x' % verify, '%02x' % len(pre), '%02x' % len(post), '%02x' % len(tls)] +
            [hx(s) for s in pre] + [hx(s) for s in post] + [hx(s) for s in tls])

def mkcase(route, conns):
    f = ['c8', '%02x' % (1 if route else 0), '%02x' % len(conns)]
    for c in conns:
        f += c
    return ' '.join(f)

def parse(case):
    f = case.split()
    route = int(f[1], 16) & 1
    n = int(f[2], 16)
    at, conns = 3, []
    for _ in range(n):
        fl = int(f[at], 16)
        t = R.unhx(f[at + 1])
        tlsa = [(t[i], t[i + 1] - 1) for i in range(0, len(t), 2)]
        hs, vf = int(f[at + 2], 16), int(f[at + 3], 16)
        a, b, c = (int(f[at + 4 + i], 16) for i in range(3))
        at += 7
        segs = [R.unhx(x) for x in f[at:at + a + b + c]]
        at += a + b + c
        conns.append(dict(flags=fl, tlsa=tlsa, hs=hs, verify=vf, pre=segs[:a], post=segs[a:a + b], tls=segs[a + b:]))
    return dict(route=route, conns=conns)

# ------------------------------------------------------------------ class predicate of the known finding F-C18-3
def own_tlsa(c):
    return c['tlsa'] if c['flags'] & NAMED else []

def classes(case):
    p = parse(case)
    cs = p['conns']
    eff = own_tlsa(cs[0]) if cs else []
    return ['tlsa_wrong_host'] if any(own_tlsa(c) != eff for c in cs) else []

def classify(case, c_out):
    cl = classes(case)
    return cl[0] if cl else None

# ------------------------------------------------------------------ generators
CRLF = b'\r\n'
def lines(*ls):
    return b''.join(l + CRLF for l in ls)

BANNERS = [lines(b'220 mx ESMTP'), lines(b'220-mx', b'220 ready'), lines(b'220-a', b'220-b', b'220 c'), lines(b'554 go away'),
           lines(b'220-mx', b'554 no'), lines(b'421-busy', b'421 later'), b'220 mx\n', b'', lines(b'220 ' + b'x' * 1100), lines(b'22'),
           lines(b'220-mx', b'220'), lines(b'220-mx') + b'bare\rcr' + CRLF, lines(b'120 early'), lines(b'220mx')]
EXT_LINES = [b'SIZE 1000', b'SIZE', b'PIPELINING', b'8BITMIME', b'AUTH PLAIN LOGIN', b'AUTH', b'SMTPUTF8', b'smtputf8 x', b'size 5',
             b'XFOO', b'AUTH=LOGIN', b'STARTTLSX', b'ENHANCEDSTATUSCODES', b'SIZE  77', b'SIZE\t9', b'SIZE -1', b'SIZE +3']
BAD_EXT = [b'SIZE 12x', b'PIPELINING now', b'8BITMIME 1', b'SIZE  ', b'AUTH \x01', b'AUTH \xe4', b'STARTTLS yes', b'SIZE x', b'SIZE 1\x002']

def ehlo_reply(rng, starttls, code=b'250'):
    ls = [b'mx.example.net']
    exts = rng.sample(EXT_LINES, rng.randrange(0, 4))
    if starttls:
        exts.insert(rng.randrange(len(exts) + 1), rng.choice([b'STARTTLS', b'STARTTLS', b'starttls', b'StartTLS']))
    ls += exts
    return lines(*[code + (b'-' if i < len(ls) - 1 else b' ') + l for i, l in enumerate(ls)])

def ehlo_variants(rng, starttls):
    r = rng.random()
    if r < 0.78:
        return ehlo_reply(rng, starttls)
    if r < 0.82:      # syntax error in an extension
        ls = [b'250-mx', b'250-' + rng.choice(BAD_EXT)] + ([b'250-STARTTLS'] if starttls else []) + [b'250 SIZE']
        return lines(*ls)
    if r < 0.85:      # codes differ
        return lines(b'250-mx', b'251-STARTTLS' if starttls else b'251-X', b'250 SIZE')
    if r < 0.93:      # EHLO refused, HELO follows
        helo = rng.choice([lines(b'250 mx'), lines(b'250-mx', b'250 hi'), lines(b'451 later'), lines(b'550 no'), lines(b'250-mx', b'251 x'),
                           lines(b'354 what'), b'250 mx\n', b''])
        return rng.choice([lines(b'500 unknown'), lines(b'502-no', b'502 ehlo'), lines(b'421 bye')]) + helo
    if r < 0.95:
        return lines(b'250-mx') + (b'250-STARTTLS\n' if starttls else b'250 X\n')
    if r < 0.97:
        return lines(b'250-mx', b'250-STARTTLS')          # cut off
    return lines(b'250 ' + (b'STARTTLS' if starttls else b'mx'))   # one line: the first line is the domain, never an extension

STLS_OK = [lines(b'220 go ahead'), lines(b'220 go ahead'), lines(b'220 go ahead'), lines(b'220-ready', b'220 go')]
STLS_BAD = [lines(b'454 TLS not available'), lines(b'220-a', b'454 b'), lines(b'220-a'), lines(b'501 syntax'), b'220 go\n', lines(b'220'),
            lines(b'220-a', b'22'), b'', lines(b'220 ' + b'y' * 1200), lines(b'250 ok')]
INJECT = [lines(b'250-injected', b'250 PIPELINING'), lines(b'250-mx', b'250-AUTH PLAIN', b'250 SIZE 1', b'250 sender ok'), b'2', b'250-inj',
          lines(b'250 ok'), b'\r', CRLF, lines(b'550 no'), lines(b'250-evil', b'250-8BITMIME', b'250 SMTPUTF8') * 3, b'x' * 1500, b'\x16\x03\x01']
TLS_QUIT = [lines(b'221 bye'), lines(b'221-see', b'221 you'), b'', b'221 bye\n', lines(b'250 x')]

def tls_script(rng):
    r = rng.random()
    if r < 0.6:
        s = ehlo_reply(rng, rng.random() < 0.3)
    elif r < 0.7:
        s = ehlo_variants(rng, False)
    elif r < 0.78:
        s = b''
    elif r < 0.84:
        s = lines(b'250-mx', b'250-' + b'z' * 1100, b'250 SIZE')
    elif r < 0.9:
        s = lines(b'554 no TLS for you')  + rng.choice([lines(b'250 mx'), lines(b'550 no'), b''])
    else:
        s = bytes(rng.randrange(256) for _ in range(rng.randrange(1, 40)))
    return s + rng.choice(TLS_QUIT)

def cut(rng, stream, mode=None):
    """cut a stream into segments"""
    if not stream:
        return []
    mode = mode if mode is not None else rng.randrange(4)
    if mode == 0:
        return [stream]
    if mode == 1:       # at the line ends
        out, cur = [], b''
        for i in range(len(stream)):
            cur += stream[i:i + 1]
            if cur.endswith(CRLF):
                out.append(cur); cur = b''
        return out + ([cur] if cur else [])
    pts = sorted(set(rng.randrange(1, len(stream)) for _ in range(rng.randrange(1, 6)))) if len(stream) > 1 else []
    if mode == 3 and len(stream) > 2:      # around a CRLF
        k = stream.find(CRLF)
        if k >= 0:
            pts = sorted(set(pts + [k + 1]))
    segs, a = [], 0
    for p in pts + [len(stream)]:
        segs.append(stream[a:p]); a = p
    if rng.random() < 0.1:
        segs.insert(rng.randrange(len(segs) + 1), b'')
    return segs

TLSA_SETS = [[], [], [], [(3, 1)], [(2, 1)], [(3, 1), (2, 1)], [(0, 1)], [(1, 1)], [(0, 1), (1, 1)], [(3, 0)], [(3, 0), (2, 1)], [(2, 0), (3, 0)],
             [(3, -1)], [(1, 1), (3, 1)], [(255, 1)], [(3, 0), (0, 1)], [(2, 1), (3, -1)], [(3, 0), (3, 0), (3, 1)]]

def gen_conn(rng, want_tls, tlsa):
    flags = 0
    if rng.random() < 0.85: flags |= NAMED
    if rng.random() < 0.35: flags |= PINFILE
    if rng.random() < 0.9: flags |= PINLOAD
    banner = BANNERS[0] if rng.random() < 0.88 else rng.choice(BANNERS)
    ehlo = ehlo_variants(rng, want_tls)
    pre_stream = banner + ehlo
    pre = cut(rng, pre_stream)
    hs, verify, post, tls = 0, 0, [], []
    if want_tls:
        r = rng.random()
        rep = rng.choice(STLS_OK) if r < 0.85 else rng.choice(STLS_BAD)
        inj = rng.random()
        if inj < 0.62:
            pre += cut(rng, rep, rng.choice([0, 0, 1, 2]))
        elif inj < 0.78:           # injected text in the same segment as the reply
            pre += [rep + rng.choice(INJECT)]
        elif inj < 0.93:           # in a later segment (consumed by the handshake oracle)
            pre += [rep, rng.choice(INJECT)]
        else:                     # cut inside the reply, injected text behind
            k = rng.randrange(1, len(rep)) if len(rep) > 1 else 0
            pre += [rep[:k], rep[k:] + rng.choice(INJECT)]
        hs = 0 if rng.random() < 0.8 else rng.randrange(1, 6)
        verify = 0 if rng.random() < 0.6 else rng.choice([10, 18, 20, 62, 65, 1, 255])
        post = cut(rng, rng.choice([lines(b'221 bye'), b'', lines(b'500 what'), lines(b'221-a', b'221 b'), b'\x15\x03\x01\x00\x02\x02\x28']))
        tls = cut(rng, tls_script(rng))
    else:
        pre += cut(rng, rng.choice(TLS_QUIT + [lines(b'250 sender ok')]))
        if rng.random() < 0.2:
            tls = cut(rng, tls_script(rng))      # must stay unread
    return conn(flags, tlsa, hs, verify, pre, post, tls)

def gen_cases(engine, rng, tier):
    out = []
    N = 2400 if tier == 'quick' else 80000
    for _ in range(N):
        n = rng.choice([1, 1, 1, 2, 2, 3])
        route = rng.random() < 0.3
        head_tlsa = rng.choice(TLSA_SETS)
        conns = []
        for i in range(n):
            tlsa = head_tlsa if (i == 0 or rng.random() < 0.85) else rng.choice(TLSA_SETS)
            want_tls = rng.random() < 0.7
            conns.append(gen_conn(rng, want_tls, tlsa))
        out.append(mkcase(route, conns))
    # boundaries of the line buffer around the switch: the STARTTLS reply ends exactly at / just before / behind a read() chunk
    for pad in ([990, 994, 995, 996, 997, 998, 999, 1000, 1001] if tier == 'quick' else range(900, 1010)):
        rep = lines(b'220-' + b'p' * (pad - 6), b'220 go')
        for inj in (b'', lines(b'250-inj', b'250 PIPELINING'), b'2'):
            for pin in (0, PINFILE | PINLOAD):
                out.append(mkcase(False, [conn(NAMED | pin, [], 0, 0, cut(rng, BANNERS[0] + ehlo_reply(rng, True), 1) + [rep + inj], [],
                                               cut(rng, ehlo_reply(rng, False) + lines(b'221 bye')))]))
    return out

def _toks(c_out):
    return c_out.split()

def nontrivial(case, c_out):
    t = _toks(c_out)
    if not t or t[0] != 'B':
        return False
    if any(x.startswith('H') for x in t):
        return True
    p = parse(case)
    # a requirement (route certificate, TLSA, pinned certificate) decided the outcome of a clear-text connection
    return (p['route'] or any(c['tlsa'] or c['flags'] & PINFILE for c in p['conns'])) and not any(x.startswith('Mc') for x in t)

def distribution(results):
    d = {}
    for r in results:
        t = _toks(r['c'])
        k = []
        if any(x.startswith('H') and x.endswith(':0') for x in t): k.append('hs-ok')
        elif any(x.startswith('H') for x in t): k.append('hs-fail')
        if any(x.startswith('V') and x != 'V0' for x in t): k.append('verify-fail')
        if any(x.startswith('V0') for x in t): k.append('verify-ok')
        if any(x.startswith('Mt') for x in t): k.append('mail-tls')
        elif any(x.startswith('Mc') for x in t): k.append('mail-clear')
        else: k.append('no-mail')
        if any(x.startswith('S') for x in t): k.append('report:' + bytes.fromhex([x for x in t if x.startswith('S')][0][1:]).decode('latin-1'))
        key = ','.join(k)
        d[key] = d.get(key, 0) + 1
    top = dict(sorted(d.items(), key=lambda kv: -kv[1])[:40])
    top['classes'] = {}
    top['spec_bad'] = sum(1 for r in results if r['spec'].startswith('bad'))
    for r in results:
        for c in classes(r['case']):
            top['classes'][c] = top['classes'].get(c, 0) + 1
    # clear text buffered when the handshake starts (dropped by net_read afterwards)
    top['handshake_with_buffered_clear_text'] = sum(1 for r in results if any(x.startswith('H') and not x.startswith('H0:') for x in _toks(r['c'])))
    return top

LEVEL_TEXT = ('Machine-checked Coq theorems over an executable model of Qremote\'s connection set-up (connect_mx over all MX of the case, both '
              'greeting() calls with the EHLO extension parser, tls_init with its reply loop, handshake and verification oracles, '
              'quitmsg/quitmsg_if_net/net_conn_shutdown, main() around connect_mx, the byte-level net_read with drop_stale_input over the buffer '
              'shared by clear text and TLS). For every case (all server scripts, segmentations, oracle answers, any number of MX): the model run '
              'always ends in exit() (no fuel exhaustion); a handshake starts at most once per connection; after a successful one everything is '
              'read and written through TLS, each line used is cut at its exact position from what the TLS session delivered (whatever clear text '
              'was buffered at the switch is never used), and every extension bit in smtpext when the transmission starts was offered by a line '
              'received inside TLS; after a failed handshake only QUIT is written and no transmission starts; a route with its own client '
              'certificate never transmits in clear and always loads that certificate; a host with a control/tlshosts certificate gets the '
              'message only inside TLS after X509_V_OK. Outside the decidable class tlsa_wrong_host (known finding F-C18-3, refutation proved) '
              'the same holds for hosts with usable TLSA records of their own, i.e. the whole property as checked by spec_ok_C18. The theorems '
              'are about the C with four proposed fixes applied; which code exists is regenerated from the C on every run (with a fix missing the '
              'lemma fix_... fails and the corpus cases violate the specification on the C). The model is tied to the C by a differential run '
              'under ASan with OpenSSL replaced by oracles at the same boundary the model draws.')
LEVEL_NOTE = ('Partial for OpenSSL: handshake, certificate verification, record layer are oracles (see assumptions); lib/ssl_timeoutio.c is not '
              'modelled. Trusted: Coq kernel, translator regexes, extraction, harness, generator quality of the correspondence run. Known finding '
              'F-C18-3 (TLSA records of the first MX applied to every MX) is excluded by hypothesis and reported as KNOWN-FINDING.')
TECHNIQUE = ('Coq: simulation between the model state and the state of a one-pass event checker, preserved by every primitive (net_read via the '
             'C05 stream lemma, write, handshake, close) and lifted through the loops by induction on fuel; fuel adequacy by a byte-count measure; '
             'boolean specification shared between theorem and run-time checker; translator-regenerated switches; model-vs-C differential run')
DESIGN_REF = 'DESIGN.md section 5, C18; section 7 F-C18-1'

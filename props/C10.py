"""C10 — replies are valid SMTP replies whatever text is embedded (lib/netio.c:net_writen)."""
import runlib as R

ID = 'C10'
COQ_TARGETS = ['Props/Properties_C10.vo']
PROPS_FILES = ['Props/Properties_C10.v']
THEOREMS = ['C10_net_writen']
ENGINES = [dict(name='netio', c_sources=['netio_h.c'], extract='Extract/Extract_netio.v', driver='netio_driver.ml',
                accepts=lambda c: c.startswith('aa '))]
RULE = ('cases = net_writen argument vectors: s[0] from the reply templates found in qsmtpd/**, 1-4 embedded strings of '
        'length 0..4096 with blanks none / every k-th / clustered at offsets 495..515 and 1000..1020 / random; '
        'non-trivial = the implementation emitted at least two lines (folding happened); distinct by case text')
TRUSTED_BASE = [
    'Coq 8.16.1 kernel (coqc; coqchk in thorough); vm_compute in the non-vacuity example only; no native_compute',
    'axioms: none (Print Assumptions: Closed under the global context)',
    'translator tools/translate.py: regexes over lib/netio.c produce the nine NW_* constants in coq/Gen/GenNetio.v',
    'hand-written model coq/Model/NetWriten.v tied to lib/netio.c:net_writen by the correspondence run (differential testing, bounded by the generator)',
    'extraction with ExtrOcamlBasic only (no Extract Constant); ocaml/glue.ml + ocaml/netio_driver.ml hex parsing/printing',
    'C harness harness/netio_h.c: #include of lib/netio.c with write()/poll() redirected; gcc 12 -O1 ASan+UBSan vs. production build',
]
ASSUMPTIONS = [
    'embedded strings contain no CR/LF (hypothesis no_crlf of the theorem; callers are responsible for it)',
    's[0] is "NNN" + separator + text, shorter than 510 octets (the asserts in net_writen; checked for every call-site template by the translator)',
    'netnwrite() writes the buffer it is given unchanged (write(2) on the socket is outside the model)',
]


def _text(rng, n, mode):
    b = bytearray(rng.choice(b'abcdefghijklmnopqrstuvwxyz0123456789.:/=@') for _ in range(n))
    if mode == 'none':
        pass
    elif mode == 'every':
        k = rng.choice([1, 2, 7, 100, 250, 503, 504, 505, 506, 507, 508, 509, 510, 511, 512, 700])
        for i in range(rng.randrange(k), n, k):
            b[i] = 32
    elif mode == 'cluster':
        for base in (rng.choice([495, 500, 504, 1000, 1008, 1500, 2000]),):
            for i in range(base, min(n, base + rng.randrange(1, 24))):
                if rng.random() < 0.5:
                    b[i] = 32
    elif mode == 'random':
        for i in range(n):
            if rng.random() < 0.02:
                b[i] = 32
    elif mode == 'edge':
        for pos in (0, n - 1, 505, 506, 507, 1010, 1011, 1012):
            if 0 <= pos < n and rng.random() < 0.6:
                b[pos] = 32
    return bytes(b)

S0 = [b'550 5.7.1 ', b'501 5.1.3 ', b'250 2.1.5 recipient <', b'421 ', b'550 5.7.1 mail denied by SPF policy, SPF record says: ',
      b'250 ', b'501 5.5.2 ', b'235 2.7.0 ok, ', b'451 4.3.2 ' + b'x' * 400, b'550 ' + b'y' * 505]

def gen_cases(engine, rng, tier):
    n = 1500 if tier == 'quick' else 20000
    out = []
    lens = [0, 1, 2, 100, 495, 500, 501, 502, 503, 504, 505, 506, 507, 508, 509, 510, 511, 512, 1008, 1009, 1010, 1011, 1012, 1013,
            1500, 1514, 1515, 1516, 2048, 4095, 4096]
    for i in range(n):
        s0 = rng.choice(S0)
        parts = []
        for _ in range(rng.choice([1, 1, 2, 2, 3, 4])):
            ln = rng.choice(lens) if rng.random() < 0.6 else rng.randrange(0, 4097)
            if rng.random() < 0.3:
                ln = rng.randrange(0, 40)
            parts.append(_text(rng, ln, rng.choice(['none', 'every', 'cluster', 'random', 'edge'])))
        out.append('aa ' + R.hx(s0) + ' ' + ' '.join(R.hx(p) for p in parts))
    return out

def nontrivial(case, c_out):
    return c_out.startswith('OK') and len(c_out.split()) >= 3

def distribution(results):
    d = {'lines_1': 0, 'lines_2_3': 0, 'lines_4plus': 0, 'crash': 0}
    for r in results:
        n = len(r['c'].split()) - 1
        if not r['c'].startswith('OK'): d['crash'] += 1
        elif n <= 1: d['lines_1'] += 1
        elif n <= 3: d['lines_2_3'] += 1
        else: d['lines_4plus'] += 1
    return d

LEVEL_TEXT = ('Machine-checked Coq theorem over an executable model of net_writen: for every s[0] in the contract and every list of '
              'CR/LF-free strings of any length the output is a valid multi-line SMTP reply (<= 512 octets per line, same code, '
              "'-'/final separator, no bare CR/LF), carries the text completely and in order, and no buffer access is out of range. "
              'Constants are regenerated from lib/netio.c on every run; the model is tied to the C by a differential run under ASan.')
LEVEL_NOTE = ('Trusted: Coq kernel, translator regexes, extraction (ExtrOcamlBasic), harness, generator quality of the correspondence run. '
              'Assumed: embedded strings are free of CR/LF; netnwrite/write(2) transmit the buffer unchanged.')
TECHNIQUE = 'Coq proof by induction over parts / loop invariant on (msg,len,off); translator-regenerated constants; model-vs-C differential run'
DESIGN_REF = 'DESIGN.md section 5, C10'

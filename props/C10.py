"""C10 — replies are valid SMTP replies whatever text is embedded (lib/netio.c:net_writen; every place in qsmtpd/** that builds a reply)."""
import os, sys
import runlib as R
sys.path.insert(0, os.path.join(R.VERIF, 'tools', 'translators'))

ID = 'C10'
COQ_TARGETS = ['Props/Properties_C10.vo', 'Proofs/NetReadClean.vo']    # the netio extraction (shared with C05) needs the second one
PROPS_FILES = ['Props/Properties_C10.v']
THEOREMS = ['C10_net_writen', 'C10_literal_replies', 'C10_literal_checker_sound', 'C10_templates_ok', 'C10_sites_writen',
            'C10_multiline_writer', 'C10_sites_multiline', 'C10_reply_sequences', 'C10_dnstxt_clean', 'C10_nomail', 'C10_unpatched_refuted', 'C10_hole_sources']
ENGINES = [dict(name='netio', c_sources=['netio_h.c'], extract='Extract/Extract_netio.v', driver='netio_driver.ml',
                accepts=lambda c: c.startswith('aa ')),
           dict(name='replysites', c_sources=['replysites_h.c', 'replysites_real.c', 'replysites_filters.c', 'replysites_owfat.c', 'replysites_tls.c', 'replysites_data.c', 'replysites_main.c', 'replysites_auth.c'],
                extract='Extract/Extract_replysites.v', driver='replysites_driver.ml', libs=('-lowfat', '-lssl', '-lcrypto'),
                accepts=lambda c: c[:3] in ('c1 ', 'c2 ', 'c3 ', 'c4 ', 'c5 ', 'c6 '))]
RULE = ('engine netio: cases = net_writen argument vectors: s[0] from the reply templates found in qsmtpd/**, 1-4 embedded strings of '
        'length 0..4096 with blanks none / every k-th / clustered at offsets 495..515 and 1000..1020 / random; '
        'non-trivial = the implementation emitted at least two lines (folding happened); distinct by case text. '
        'engine replysites: for every generated template (function, shape) the harness can reach - cb_dnsbl, cb_namebl, cb_spf, addrparse, '
        'smtp_rcpt (accepted / no such user / no MX / null MX), smtp_from, smtp_helo, smtp_ehlo (8 shapes), smtp_quit - the real call site is driven with '
        'embedded strings of length 0..4096 (addresses up to the line limit), blanks none / every k-th / clustered at 495..515, all of 32..126; TXT records '
        '(dns_txt stand-in) and nomail files additionally with CR, LF, CRLF + "250 ok", NUL, DEL, other control octets, 8-bit octets, nomail texts with a '
        'valid / nearly valid / no reply code in front; three handlers answering with a literal. The reply is captured at write() behind the real lib/netio.c, '
        'compared with the generated template instantiated through the extracted net_writen / net_write_multiline model, and judged by spec_ok_site / '
        'spec_ok_nomail / spec_ok_literal. Session level: wait_for_quit() (real syntax.c) reading 0..12 command lines with the bad-command counter preset '
        '(two-call reply of check_max_bad_commands, smtp_quit), smtp_data() refusing seven kinds of messages, the greeting of the real smtploop(), tls_out / '
        'tls_err; the whole output must be a sequence of complete valid replies (reply_stream_ok). non-trivial = folded or multi-line reply')
TRUSTED_BASE = [
    'Coq 8.16.1 kernel (coqc; coqchk in thorough); vm_compute in the non-vacuity example only; no native_compute',
    'axioms: none (Print Assumptions: Closed under the global context)',
    'translator tools/translate.py: regexes over lib/netio.c produce the nine NW_* constants in coq/Gen/GenNetio.v',
    'hand-written model coq/Model/NetWriten.v tied to lib/netio.c:net_writen by the correspondence run (differential testing, bounded by the generator)',
    'extraction with ExtrOcamlBasic only (no Extract Constant); ocaml/glue.ml + ocaml/netio_driver.ml hex parsing/printing',
    'C harness harness/netio_h.c: #include of lib/netio.c with write()/poll() redirected; gcc 12 -O1 ASan+UBSan vs. production build',
    'translator tools/translators/replies.py: a small C reader (comments, strings, brace blocks, if/else pairing, straight-line grouping of assignments) that '
    'finds every netwrite / net_writen / net_write_multiline call in qsmtpd/**/*.c and lib/*.c and the shapes of the arrays; documented as a sound '
    'over-approximation, anything it cannot follow is an error; the table HOLES (C expression -> source class) is hand-written',
    'vm_compute for the three finite table checks (forallb over the generated lists) and the two template look-ups of cb_nomail',
    'class invariants of embedded strings (Spec/ReplySitesSpec.v:class_inv) are HYPOTHESES of C10_sites_writen / C10_sites_multiline; C10_hole_sources derives them '
    'from the conclusions of C14_oracle_ref, C14_domain, C11_exp_text_clean, C05_line_shape, C10_dnstxt_clean; for HHdrName, HB64, HLibErr (OpenSSL error text), '
    'HAuthList, HNumCRLF they rest on reading the code (reports/C10-sites.md)',
    'harness/replysites_*.c: real qsmtpd.c (main renamed), commands.c, syntax.c, data.c, starttls.c, auth.c, addrparse.c, addrsyntax.c, xtext.c, the four filters, '
    'antispam.c, getfile.c, vpop.c, control.c, libowfatconn.c, tls.c, ssl_timeoutio.c, netio.c; stand-ins for DNS (libowfat dns_txt, ask_dnsa, ask_dnsmx), '
    'user_exists, rcpt_cbs[], check_host, smtp_authstring, the qmail-queue interface, logging, tarpit, conn_cleanup / dieerror / exit',
    'the translator\'s rule for replies made of several calls (straight-line code only, no call of a function that writes to the client; call graph by '
    'regular expression over function bodies) and its check that heloname is control/me validated by domainvalid() at start-up',
    'ocaml/replysites_driver.ml: case parsing, "pre" decisions (nothing sent / case names no generated shape / nomail text with NUL, LF or #)',
]
ASSUMPTIONS = [
    'embedded strings contain no CR/LF (hypothesis no_crlf of C10_net_writen; engine replysites shows per call site that the callers meet it: by the class '
    'of every hole, and for DNS TXT records and the nomail file by the sanitising loops proved in C10_dnstxt_clean / C10_nomail)',
    'sites not driven by the harness (auth_cram, smtp_bdat, the bad-CRLF data reply, most fixed literals) are covered by the template / literal '
    'theorems and the net_writen correspondence only; their templates come from the same translator',
    'the nomail text reaches cb_nomail as loadonelinerfd() returns it (no NUL, no LF, no #-comment; C16 models that function)',
    's[0] is "NNN" + separator + text, shorter than 510 octets (the asserts in net_writen; checked for every call-site template by the translator)',
    'netnwrite() writes the buffer it is given unchanged (write(2) on the socket is outside the model)',
]


def _text(rng, n, mode):
    b = bytearray(rng.choice(b'abcdefghijklmnopqrstuvwxyz0123456789.:/=@') for _ in range(n))
    if mode == 'none':
        pass
    elif mode == 'every':
        k = rng.choice([1, 2, 7, 100, 250, 503, 504, 505, 506, 507, 508, 509, 510, 511, 512, 700])
        for i in range(rng.randrange(k), n, k):
            b[i] = 32
    elif mode == 'cluster':
        for base in (rng.choice([495, 500, 504, 1000, 1008, 1500, 2000]),):
            for i in range(base, min(n, base + rng.randrange(1, 24))):
                if rng.random() < 0.5:
                    b[i] = 32
    elif mode == 'random':
        for i in range(n):
            if rng.random() < 0.02:
                b[i] = 32
    elif mode == 'edge':
        for pos in (0, n - 1, 505, 506, 507, 1010, 1011, 1012):
            if 0 <= pos < n and rng.random() < 0.6:
                b[pos] = 32
    return bytes(b)

S0 = [b'550 5.7.1 ', b'501 5.1.3 ', b'250 2.1.5 recipient <', b'421 ', b'550 5.7.1 mail denied by SPF policy, SPF record says: ',
      b'250 ', b'501 5.5.2 ', b'235 2.7.0 ok, ', b'451 4.3.2 ' + b'x' * 400, b'550 ' + b'y' * 505]

# ------------------------------------------------------------------ engine replysites
ATEXT = b"abcdefghijklmnopqrstuvwxyz0123456789!#$%&'*+-/=?^_`{|}~"      # lower case: the parser returns the address lower-cased
LDH = b'abcdefghijklmnopqrstuvwxyz0123456789'
CLASS_LETTER = {'Addr': 'A', 'Domain': 'D', 'SpfExp': 'S', 'DnsTxt': 'T', 'ConfText': 'C', 'CodePrefix': 'P', 'LineArg': 'L',
                'HdrName': 'H', 'B64': 'B', 'LibErr': 'E', 'AuthList': 'U', 'NumCRLF': 'N'}
LENS = [0, 1, 2, 30, 100, 400, 440, 455, 470, 480, 490, 495, 500, 501, 502, 503, 504, 505, 506, 507, 508, 509, 510, 511, 512, 600,
        1008, 1009, 1010, 1011, 1012, 1013, 1500, 1514, 1515, 1516, 2048, 4095, 4096]


def _domain(rng, maxlen):
    """a name domainvalid() accepts: LDH labels, last label letters only"""
    want = rng.choice([4, 12, 30, 60, 120, 200, 240, 253, 255])
    want = max(4, min(want, maxlen))
    labels = []
    left = want - 4                      # ".org" style ending
    while left > 1:
        k = min(left - 1 if left > 1 else 1, rng.choice([1, 2, 5, 10, 30, 63]))
        if k < 1:
            break
        labels.append(bytes(rng.choice(LDH) for _ in range(k)))
        left -= k + 1
    if not labels:
        labels = [b'bl']
    return b'.'.join(labels) + b'.' + rng.choice([b'org', b'net', b'com'])


def _local(rng, n):
    b = bytearray(rng.choice(ATEXT) for _ in range(n))
    for i in range(1, n - 1):
        if rng.random() < 0.03 and b[i - 1] != 46:
            b[i] = 46
    return bytes(b)


def _printable(rng, n):
    mode = rng.choice(['none', 'every', 'cluster', 'random', 'edge'])
    t = bytearray(_text(rng, n, mode))
    # all of 32..126, not only the alphabet of _text
    for i in range(len(t)):
        if t[i] != 32 and rng.random() < 0.1:
            t[i] = rng.randrange(33, 127)
    return bytes(t)


def _foreign(rng, n):
    """text as the DNS / a configuration file can deliver it: printable text with control octets mixed in"""
    t = bytearray(_printable(rng, n))
    mode = rng.choice(['clean', 'clean', 'cr', 'lf', 'crlf-inject', 'nul', '8bit', 'ctl', 'mixed'])
    n = len(t)
    if n == 0 or mode == 'clean':
        return bytes(t)
    for _ in range(rng.choice([1, 1, 2, 5, 20])):
        i = rng.randrange(n)
        if mode == 'cr': t[i] = 13
        elif mode == 'lf': t[i] = 10
        elif mode == 'crlf-inject':
            inj = b'\r\n250 ok\r\n'
            t[i:i + len(inj)] = inj
        elif mode == 'nul': t[i] = 0
        elif mode == '8bit': t[i] = rng.randrange(128, 256)
        elif mode == 'ctl': t[i] = rng.choice([1, 7, 8, 9, 11, 12, 27, 31, 127])
        else: t[i] = rng.randrange(0, 256)
    return bytes(t[:max(n, 1)])


_ANALYSIS = {}
def _sites():
    if R.REPO not in _ANALYSIS:
        import replies
        try:
            _ANALYSIS[R.REPO] = replies.analyse(R.REPO)
        except Exception as e:                      # the translator error is reported by ./check itself
            _ANALYSIS[R.REPO] = dict(writen=[], multiline=[], literals=[])
    return _ANALYSIS[R.REPO]


def _len(rng, cap):
    ln = rng.choice(LENS) if rng.random() < 0.6 else rng.randrange(0, 4097)
    if rng.random() < 0.25:
        ln = rng.randrange(0, 60)
    return min(ln, cap)


def _site_case(rng, func, els, line=0):
    """one case for the call site `func` with the generated shape `els`, or None when the harness cannot reach that shape"""
    lits = [bytes(e[1]) for e in els if e[0] == 'L']
    holes = [e for e in els if e[0] == 'H']
    param = 0
    vals = []
    if func in ('cb_dnsbl', 'cb_namebl'):
        if len(holes) == 1 and len(els) != 2:
            return None                               # ", message: " without a text: over-approximated shape
        vals.append(_domain(rng, 200))
        if len(holes) == 2:
            t = _foreign(rng, max(1, _len(rng, 4096)))
            vals.append(t if t else b'x')
    elif func == 'cb_spf':
        for h in holes:
            vals.append(_printable(rng, _len(rng, 4096)))
    elif func == 'addrparse':
        vals.append(_local(rng, max(1, _len(rng, 970))) + b'@example.org')
    elif func == 'smtp_rcpt':
        first = lits[0] if lits else b''
        if first.startswith(b'250 '): param = 0
        elif first.startswith(b'550 5.1.1'): param = 1
        elif first.startswith(b'451 '): param = 2
        elif first.startswith(b'556 '): param = 3
        else:
            # the text does not tell (it was changed): go by the order of the four calls in smtp_rcpt()
            sites = sorted({l for k, r, f, l, e in _sites()['writen'] if f == 'smtp_rcpt'})
            if line not in sites or len(sites) != 4: return None
            param = [2, 3, 0, 1][sites.index(line)]
        if param < 2:
            vals.append(_local(rng, max(1, _len(rng, 970))) + b'@example.org')
        else:
            vals.append(_domain(rng, 250))
    elif func == 'smtp_from_inner':
        param = rng.choice([0, 1, 2])
        cap = {0: 470, 1: 480, 2: 950}[param]       # MAIL FROM lines above 510 (+26 with SIZE, +500 with AUTH) octets are refused
        vals.append(_local(rng, max(1, _len(rng, cap))) + b'@' + _domain(rng, 20))
    elif func in ('smtp_helo', 'smtp_quit', 'smtploop'):
        vals.append(_domain(rng, 255))
    elif func == 'smtp_ehlo':
        if any(l == b'250-CHUNKING\r\n' for l in lits):
            return None                               # the harness is built like the default configuration, without CHUNKING
        param = 1 if any(l == b'250-STARTTLS\r\n' for l in lits) else 0
        for h in holes:
            if h[1] == 'Domain': vals.append(_domain(rng, 255))
            elif h[1] == 'AuthList': vals.append(rng.choice([b' LOGIN PLAIN\r\n', b' PLAIN\r\n', b' LOGIN PLAIN CRAM-MD5\r\n']))
            elif h[1] == 'NumCRLF': vals.append(str(rng.choice([1, 1234567, 2 ** 32 - 1, 2 ** 63, 2 ** 64 - 1])).encode() + b'\r\n')
            else: return None
    elif func == 'tls_out':
        if len(holes) != 2: return None
        vals.append(rng.choice([b'setting session id failed', b'rehandshake failed', b'connection failed']))
        vals.append(_printable(rng, _len(rng, 1200)))
    elif func == 'tls_err':
        if holes: return None
    elif func == 'smtp_data':
        first = lits[0] if lits else b''
        scen = [(b'more than one', 0), (b"'Date:' missing", 1), (b"'From:' missing", 2), (b'8bit character in message header', 3),
                (b'contains 8bit', 4), (b'too many hops', 5), (b'Delivered-To', 6)]
        hit = [k for t, k in scen if t in first]
        if not hit or len(holes) != (1 if hit[0] == 0 else 0): return None
        param = hit[0]
        if holes:
            vals.append(rng.choice([b'Date:', b'From:', b'Message-Id:']))
    else:
        return None
    out = ['c1', R.hx(func.encode()), '%02x' % param] if func != 'smtp_data' else ['c5', '%02x' % param]
    vi = 0
    for e in els:
        if e[0] == 'L':
            out.append(R.hx(b'L' + bytes(e[1])))
        else:
            out.append(R.hx(b'H' + CLASS_LETTER[e[1]].encode() + vals[vi])); vi += 1
    return ' '.join(out)


def _nomail_case(rng):
    kind = rng.choice(['plain', 'code', 'code', 'nearcode'])
    n = max(1, _len(rng, 4096))
    body = _foreign(rng, n).replace(b'\n', b'\r').replace(b'\0', b'\x01').replace(b'#', b'+') or b'x'
    if kind == 'code':
        d = rng.choice(b'45')
        pre = bytes([d, rng.choice(b'0123456789'), rng.choice(b'0123456789'), 32, d, 46, rng.choice(b'0123456789'), 46, rng.choice(b'0123456789'), 32])
        body = pre + body
    elif kind == 'nearcode':
        pre = bytearray(b'550 5.7.1 ')
        i = rng.randrange(10)
        pre[i] = rng.choice(b'x 3.-5')
        body = bytes(pre) + body
    return 'c2 ' + R.hx(body)


def _waitquit_case(rng):
    """wait_for_quit(): 0..12 command lines, QUIT (any case) somewhere or not at all, the counter of bad commands preset"""
    cmds = [b'NOOP', b'RSET', b'MAIL FROM:<a@example.org>', b'quit now', b'QUITX', b'DATA', b'x', b'HELO foo', b'']
    lines = [rng.choice(cmds) for _ in range(rng.choice([0, 1, 2, 5, 6, 7, 8, 9, 12]))]
    if rng.random() < 0.4:
        lines.insert(rng.randrange(len(lines) + 1), rng.choice([b'QUIT', b'quit', b'Quit']))
    return 'c4 ' + R.hx(_domain(rng, 255)) + ' %02x ' % rng.choice([0, 0, 0, 3, 5, 6, 7, 200]) + ' '.join(R.hx(l) if l else '-' for l in lines)


def gen_sites(rng, tier):
    a = _sites()
    per = 45 if tier == 'quick' else 900
    out = []
    for key, rel, func, line, els in a['writen'] + a['multiline']:
        for _ in range(per if func not in ('smtp_data', 'tls_err') else 3):
            c = _site_case(rng, func, els, line)
            if c is None:
                break
            out.append(c)
    for _ in range(6 * per):
        out.append(_nomail_case(rng))
    for f in ('smtp_vrfy', 'smtp_noop', 'smtp_rset'):
        out.append('c3 ' + R.hx(f.encode()))
    for _ in range(per):
        out.append(_waitquit_case(rng))
    return out


def gen_cases(engine, rng, tier):
    if engine == 'replysites':
        return gen_sites(rng, tier)
    n = 1500 if tier == 'quick' else 20000
    out = []
    lens = [0, 1, 2, 100, 495, 500, 501, 502, 503, 504, 505, 506, 507, 508, 509, 510, 511, 512, 1008, 1009, 1010, 1011, 1012, 1013,
            1500, 1514, 1515, 1516, 2048, 4095, 4096]
    for i in range(n):
        s0 = rng.choice(S0)
        parts = []
        for _ in range(rng.choice([1, 1, 2, 2, 3, 4])):
            ln = rng.choice(lens) if rng.random() < 0.6 else rng.randrange(0, 4097)
            if rng.random() < 0.3:
                ln = rng.randrange(0, 40)
            parts.append(_text(rng, ln, rng.choice(['none', 'every', 'cluster', 'random', 'edge'])))
        out.append('aa ' + R.hx(s0) + ' ' + ' '.join(R.hx(p) for p in parts))
    return out

def nontrivial(case, c_out):
    if case[:3] in ('c1 ', 'c2 ', 'c3 ', 'c4 ', 'c5 ', 'c6 '):
        # a reply with embedded text that had to be folded, or a multi-line literal
        return c_out.startswith('OK') and (len(c_out.split()) >= 3 or c_out.count('0d0a') >= 2)
    return c_out.startswith('OK') and len(c_out.split()) >= 3

def distribution(results):
    d = {'lines_1': 0, 'lines_2_3': 0, 'lines_4plus': 0, 'crash': 0}
    for r in results:
        n = len(r['c'].split()) - 1
        if not r['c'].startswith('OK'): d['crash'] += 1
        elif n <= 1: d['lines_1'] += 1
        elif n <= 3: d['lines_2_3'] += 1
        else: d['lines_4plus'] += 1
    return d

LEVEL_TEXT = ('Two parts. (1) Call sites: the table of every netwrite / net_writen / net_write_multiline call of Qsmtpd is regenerated from the C; Coq proves that all 70 '
              'fixed replies are valid replies (boolean checker proved sound against the readable definition), that every net_writen template meets the contract of '
              'net_writen for every assignment of CR/LF-free strings of any length to its holes (so C10_net_writen applies: valid folded reply, text complete and in order), '
              'that every shape of the EHLO reply is a valid multi-line reply within its array, that dnstxt() and cb_nomail (after the two proposed fixes) turn ANY DNS / '
              'configuration text into a CR/LF/NUL-free one and cb_nomail never overflows msg[]. The real call sites are driven under ASan and compared. (2) '
              'Machine-checked Coq theorem over an executable model of net_writen: for every s[0] in the contract and every list of '
              'CR/LF-free strings of any length the output is a valid multi-line SMTP reply (<= 512 octets per line, same code, '
              "'-'/final separator, no bare CR/LF), carries the text completely and in order, and no buffer access is out of range. "
              'Constants are regenerated from lib/netio.c on every run; the model is tied to the C by a differential run under ASan.')
LEVEL_NOTE = ('Trusted: Coq kernel, translator regexes, extraction (ExtrOcamlBasic), harness, generator quality of the correspondence run. '
              'Assumed: class invariants of the holes that are not derived (see TRUSTED_BASE); netnwrite/write(2) transmit the buffer unchanged.')
TECHNIQUE = ('Coq proof by induction over parts / loop invariant on (msg,len,off); symbolic line checker with soundness proof for literals and the EHLO shapes; '
             'reflection (vm_compute) over the regenerated call-site tables; translator-regenerated constants; model-vs-C differential run of the real call sites')
DESIGN_REF = 'DESIGN.md section 5, C10'

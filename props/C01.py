"""C01 — no open relay (whole Qsmtpd)."""
from session_common import *

ID = 'C01'
COQ_TARGETS = ['Props/Properties_C01.vo']
PROPS_FILES = ['Props/Properties_C01.v']
THEOREMS = ['C01_remote_rcpt_needs_relay', 'C01_submission_needs_entitlement', 'C01_auth_only_from_backend', 'C01_envelope_is_accepted_only']
ENGINES = [ENGINE]
RULE = ('sessions aimed at the relay decision: relayclients / relayclients6 absent, listing the client, listing another network, with a size that is not a '
        'multiple of the record size, with an invalid prefix length, unreadable; IPv4-mapped and IPv6 clients; remote recipients before and after local ones, '
        'repeated after an error, across RSET and several transactions; AUTH PLAIN attempts (right and wrong password, malformed, unknown mechanism, backend crash, '
        'repeated, inside a transaction, with and without a configured backend) mixed with HELO/EHLO/RSET and remote recipients; the same and dedicated histories on the submission port 587 (MAIL FROM before / after / without AUTH, after a failed AUTH, repeated after a refusal, every kind of relay list, missing "<"); plus the general session histories. non-trivial = a remote recipient was attempted '
        'and a DATA was accepted, or a hand-off happened; distinct by case text')
TRUSTED_BASE = TRUSTED_COMMON
ASSUMPTIONS = ASSUMPTIONS_COMMON + [
    'the relay list lookup itself (check_ipbl_file / ip4_matchnet) is property C16; here its outcome is an oracle, instantiated per configuration',
    'SMTP AUTH and TLS client certificates as further entitlements are not exercised (no backend / no certificate in the harness): partial for those two disjuncts',
]
LEVEL_TEXT = ('Coq theorems for all oracles and all client byte streams: a recipient outside rcpthosts gets 2xx only if the relay-list lookup returned a match '
              '(> 0) or an AUTH succeeded earlier on the same connection (a NAuth note, emitted with the 235 reply, stands before it; neither RSET, HELO/EHLO, '
              'a failed AUTH nor a new transaction make or unmake it); an unreadable or malformed list (< 0) and "no match" never allow relaying, because '
              'relayclient is set to 2 before the result is inspected and the cached decision is 1 only after a positive lookup (invariant Irel); an AUTH note '
              'appears only where a backend is configured and the mechanism handler reported success for that name; every hand-off envelope consists of '
              'accepted recipients only. Tied to the binary by whole-program runs with all kinds of relay list for v4 and v6 clients and AUTH PLAIN attempts '
              'against a checkpassword stand-in. On the submission port (TCPLOCALPORT 587) MAIL FROM itself gets its 250 only from a client with that same entitlement (C01_submission_needs_entitlement): smtp_from calls the same is_authenticated(), with the same cache and the same fail-closed treatment of a broken list.')
LEVEL_NOTE = ('Partial: the TLS client certificate entitlement (tls_verify) is outside the model; multi-line AUTH exchanges (LOGIN, PLAIN without initial '
              'response) end the modelled session (their logic is property C09); lookup internals are C16.')
TECHNIQUE = 'Coq invariant proof over the session model (cached relay decision, authentication flag in step with the trace) as part of the simulation; whole-program differential run over relay-list kinds'
DESIGN_REF = 'DESIGN.md section 5, C01'


def relay_session(rng):
    chunks = [rng.choice([b'HELO c.example.net\r\n', b'EHLO c.example.net\r\n'])]
    for _ in range(rng.choice([1, 2])):
        chunks.append(session_gen.mail(rng, rng.choice(['ok', 'bounce'])))
        for _ in range(rng.choice([1, 2, 3, 4])):
            chunks.append(session_gen.rcpt(rng, rng.choice(['remote', 'remote', 'ok', 'rbad', 'no'])))
        if rng.random() < 0.3:
            chunks.append(b'RSET\r\n'); chunks.append(session_gen.mail(rng, 'ok')); chunks.append(session_gen.rcpt(rng, 'remote'))
        chunks.append(b'DATA\r\n'); chunks.append(b'Subject: t\r\n\r\nbody\r\n.\r\n')
    return chunks


def literal_session(rng, lip):
    """recipients with address literals around the server's own address 192.0.2.<lip>: exact, every proper prefix that is
    still a valid address, extensions, neighbours - only the exact one is local, the others need the relay entitlement"""
    own = '192.0.2.' + lip
    cands = [own] + [own[:k] for k in range(len('192.0.2.') + 1, len(own))] + [own + d for d in '05' if int(lip + d) <= 255] + ['192.0.2.77', '192.0.2', '10.0.0.1']
    cands = [c for c in cands if c.count('.') == 3 and not c.endswith('.')]
    chunks = [rng.choice([b'HELO c.example.net\r\n', b'EHLO c.example.net\r\n']), session_gen.mail(rng, 'ok')]
    for _ in range(rng.choice([2, 3, 5])):
        c = rng.choice(cands)
        chunks.append(b'RCPT TO:<' + rng.choice([b'alice', b'victim', b'x']) + b'@[' + c.encode() + b']>\r\n')
        if rng.random() < 0.3: chunks.append(session_gen.rcpt(rng, rng.choice(['ok', 'remote'])))
    chunks += [b'DATA\r\n', b'Subject: t\r\n\r\nbody\r\n.\r\n']
    return chunks


def gen_cases(engine, rng, tier):
    n = 300 if tier == 'quick' else 6000
    out = []
    for _ in range(n // 2):
        cfg = 'relay=%s;ip=%s;databytes=0;qq=ok,ok,ok,ok;auth=%s' % (rng.choice(['none', 'none', 'unlisted', 'listed', 'badsize']), rng.choice(['v4', 'v6']),
                                                                       rng.choice(['1', '1', '1', '0']))
        out.append(session_gen.case(cfg, session_gen.auth_session(rng)))
    for _ in range(n // 5):
        lip = rng.choice(['2', '25', '25', '125', '250'])
        cfg = 'relay=%s;ip=v4;databytes=0;qq=ok,ok;lip=%s' % (rng.choice(['none', 'none', 'listed', 'unlisted']), lip)
        out.append(session_gen.case(cfg, literal_session(rng, lip)))
    for _ in range(n):
        cfg = 'relay=%s;ip=%s;databytes=0;qq=ok,ok,ok,ok' % (rng.choice(['none', 'listed', 'unlisted', 'badsize', 'badprefix', 'unreadable']), rng.choice(['v4', 'v6']))
        out.append(session_gen.case(cfg, relay_session(rng)))
    # the submission port (587): MAIL FROM itself needs the entitlement
    for _ in range(n // 2):
        cfg, chunks = session_gen.subm_gate_session(rng)
        out.append(session_gen.case(cfg, chunks))
    for _ in range(n // 6):
        # the same histories with the relay / AUTH sessions of above, on port 587
        cfg = 'relay=%s;ip=%s;databytes=0;qq=ok,ok,ok,ok;auth=%s;port=587' % (rng.choice(['none', 'listed', 'unlisted', 'badsize', 'badprefix', 'unreadable']), rng.choice(['v4', 'v6']),
                                                                               rng.choice(['1', '1', '0']))
        out.append(session_gen.case(cfg, session_gen.auth_session(rng) if rng.random() < 0.6 else relay_session(rng)))
    return out + session_gen.gen(rng, 200 if tier == 'quick' else 4000)

"""C01 — no open relay (whole Qsmtpd)."""
from session_common import *

ID = 'C01'
COQ_TARGETS = ['Props/Properties_C01.vo', 'Props/Properties_C01t.vo']
PROPS_FILES = ['Props/Properties_C01.v', 'Props/Properties_C01t.v']
THEOREMS = ['C01_remote_rcpt_needs_relay', 'C01_submission_needs_entitlement', 'C01_three_entitlements', 'C01_submission_three_entitlements',
            'C01_cert_note_only_from_tls_verify', 'C01_cert_note_is_entitling_certificate', 'C01_is_authenticated_refines',
            'C01_auth_only_from_backend', 'C01_envelope_is_accepted_only',
            'C01t_verify_positive_only_if', 'C01t_verify_complete', 'C01t_embedded_nul_never_matches', 'C01t_fails_closed',
            'C01t_tlsclient_set_exactly_then', 'C01t_checked_once', 'C01t_no_retry', 'C01t_check_at_most_once',
            'C01t_error_never_entitles', 'C01t_relayclient_only_if', 'C01t_is_authenticated_positive_only_if',
            'C01t_connection', 'C01t_checker_sound']
TLSVERIFY = dict(name='tlsverify', c_sources=['tlsverify_h.c'], extract='Extract/Extract_tlsverify.v', driver='tlsverify_driver.ml',
                 glue=('glue.ml', 'glue_z.ml'), accepts=lambda c: c.startswith('7c '), shrink_from=2)
# the whole-program TLS engine of C17 (harness/tlssession/runner.py: the real Qsmtpd, python ssl client, TLS 1.3): the certificate
# stage of is_authenticated() in the real binary, as far as the OpenSSL of this image lets it run (see reports/session-certificate.md)
TLSSESSION = dict(name='tlssession', runner='tlssession/runner.py', extract='Extract/Extract_tlssession.v', driver='tls_driver.ml',
                  glue=('glue.ml', 'glue_z.ml'), accepts=lambda c: c.startswith('7e '))
ENGINES = [ENGINE, TLSVERIFY, TLSSESSION]
RULE = ('sessions aimed at the relay decision: relayclients / relayclients6 absent, listing the client, listing another network, with a size that is not a '
        'multiple of the record size, with an invalid prefix length, unreadable; IPv4-mapped and IPv6 clients; remote recipients before and after local ones, '
        'repeated after an error, across RSET and several transactions; AUTH PLAIN attempts (right and wrong password, malformed, unknown mechanism, backend crash, '
        'repeated, inside a transaction, with and without a configured backend) mixed with HELO/EHLO/RSET and remote recipients; the same and dedicated histories on the submission port 587 (MAIL FROM before / after / without AUTH, after a failed AUTH, repeated after a refusal, every kind of relay list, missing "<"); plus the general session histories. non-trivial = a remote recipient was attempted '
        'and a DATA was accepted, or a hand-off happened; distinct by case text. '
        'Engine tlsverify (unit: tls_verify / tls_check_cert / is_authenticated with OpenSSL and the file system as scripted oracles): sequences of 1-6 calls, '
        'each the all-succeeds configuration with 0-3 oracles turned (no TLS, AUTH name set, relay list absent/listed/error, tlsclients unreadable with several errno '
        'values / absent / list, CA file, session id context, rehandshake ok / ETIMEDOUT / EPROTO / other, verification result, no certificate, strdup failure, '
        'net_writen failure); subject names aimed at the comparison: listed emailAddress or commonName, listed name + NUL + suffix, NUL first / last / inside at equal '
        'length, proper prefix, one octet more, other case, unlisted emailAddress in front of a listed commonName, empty emailAddress, two emailAddress entries, '
        'other attribute types, entries of tlsclients that are prefixes of each other; start states relayclient 0/1/2/3, ssl_verified 0/1; non-trivial there = '
        'the certificate was looked at in a sequence of several calls, or a call was entitled by certificate. '
        'Engine tlssession (the real Qsmtpd behind the TLS 1.3 client of C17): sessions that reach is_authenticated() inside TLS - after a clear-text phase that cached the relay decision or not, '
        'after AUTH or not, on port 25 (RCPT TO) and 587 (MAIL FROM) - with control/tlsclients and control/clientca.pem present or absent, a client that offers post-handshake authentication '
        'or not and has the listed certificate or none; non-trivial there = a relay decision was answered inside TLS')
TRUSTED_BASE = TRUSTED_COMMON + [
    'engine tlsverify: hand-written model coq/Model/TlsVerify.v (tls_verify, tls_check_cert, tls_out, is_authenticated, is_authenticated_client), tied to the C by '
    'harness/tlsverify_h.c: qsmtpd/starttls.c and qsmtpd/commands.c #included unchanged in one translation unit, real libcrypto for the X509 name / ASN1 string '
    'functions on a certificate built from the case, real SSL object; scripted: openat, lookupipbl, loadlistfd, SSL_load_client_CA_file, '
    'SSL_set_session_id_context, ssl_timeoutrehandshake, SSL_get_verify_result, SSL_get_peer_certificate, strdup, net_writen, dieerror (longjmp); compared per '
    'call: result, relayclient, ssl_verified, xmitstat.tlsclient, order of the oracle calls',
    'translator tools/translators/tlsverify.py: structure of tls_verify / tls_check_cert / tls_out / is_authenticated / is_authenticated_client checked by regular '
    'expressions (a change is a translator error), emitted: NID order, success value of SSL_set_session_id_context, X509_V_OK (system header), EDONE, '
    'ETIMEDOUT / EPROTO / ENOMEM (python errno of the build machine)',
    'ocaml/tlsverify_driver.ml (case parsing, mapping of the relay-list scenario octet to the value of lookupipbl_name, printing)',
]
ASSUMPTIONS = ASSUMPTIONS_COMMON + [
    'the relay list lookup itself (check_ipbl_file / ip4_matchnet) is property C16; here its outcome is an oracle, instantiated per configuration',
    'engine session: no TLS in that harness, so the certificate stage of is_authenticated() runs there only in its "no TLS session: 0 at once" form; engine '
    'tlssession (the real binary behind a TLS 1.3 client) reaches tls_verify() with and without control/tlsclients / clientca.pem / post-handshake authentication, '
    'but never with a positive result: with the OpenSSL 3.0 of this image tls_check_cert() looks for the certificate before the client\'s answer to the TLS 1.3 '
    'post-handshake request can have arrived (and the TLS 1.2 renegotiation path breaks the connection), see reports/session-certificate.md; the accepting path is '
    'run against the real functions by engine tlsverify only',
    'engine tlsverify: OpenSSL is an oracle - that X509_V_OK means "the chain verifies against clientca.pem (and the CRL)" is OpenSSL\'s business together with '
    'tls_init() (SSL_CTX_load_verify_locations(CLIENTCA), verify_callback accepting every chain so that only SSL_get_verify_result() decides); every ASN1 string '
    'OpenSSL hands out has a NUL octet behind its data (ASN1_STRING_set; the harness uses real ASN1 strings); net_writen() returns 0 or -errno, never a positive '
    'value (hypothesis netw_ok of the theorems, cases violating it are outside the precondition); errno is not negative (type N in the model); loadlistfd() '
    'returns C strings (its own correctness is C16/C20); in the session model the outcome of the one tls_verify() evaluation per connection is the oracle '
    'o_tlsverify, tied to the literal model by tv_agrees (hypothesis of C01_three_entitlements / C01_is_authenticated_refines: the oracle value is what '
    'TlsVerify.tls_verify computes for some answers e of OpenSSL / the file system that respect netw_ok)',
]
LEVEL_TEXT = ('Coq theorems for all oracles and all client byte streams: a recipient outside rcpthosts gets 2xx only if the relay-list lookup returned a match '
              '(> 0) or an AUTH succeeded earlier on the same connection (a NAuth note, emitted with the 235 reply, stands before it; neither RSET, HELO/EHLO, '
              'a failed AUTH nor a new transaction make or unmake it); an unreadable or malformed list (< 0) and "no match" never allow relaying, because '
              'relayclient is set to 2 before the result is inspected and the cached decision is 1 only after a positive lookup (invariant Irel); an AUTH note '
              'appears only where a backend is configured and the mechanism handler reported success for that name; every hand-off envelope consists of '
              'accepted recipients only. Tied to the binary by whole-program runs with all kinds of relay list for v4 and v6 clients and AUTH PLAIN attempts '
              'against a checkpassword stand-in. On the submission port (TCPLOCALPORT 587) MAIL FROM itself gets its 250 only from a client with that same entitlement (C01_submission_needs_entitlement): smtp_from calls the same is_authenticated(), with the same cache and the same fail-closed treatment of a broken list.')
LEVEL_TEXT += (' The session model contains the certificate stage of is_authenticated() as the C has it (after the relay list, only while relayclient is not 1, tls_verify() guarded by '
               'TLS / ssl_verified / is_authenticated_client(), relayclient = 1 and xmitstat.tlsclient on success, the error passed on, freedata() forgetting the name but not the decision); '
               'C01_remote_rcpt_needs_relay and C01_submission_needs_entitlement carry the third disjunct (a certificate note earlier on the connection), C01_three_entitlements states it as cert_entitles.')
LEVEL_TEXT += (' Third entitlement (engine tlsverify, theorems C01t_*): for all oracle values, start states and call sequences tls_verify() > 0 only if TLS is '
               'active, the check has not run on this connection, tlsclients gave a list, the CA file loaded, the session id context was set, the rehandshake '
               'succeeded, the verification result is X509_V_OK, a certificate is present and its emailAddress (only without one: commonName) equals an entry of '
               'tlsclients octet for octet (a name containing NUL never matches), and conversely (C01t_verify_complete); xmitstat.tlsclient is set exactly then; every '
               'failing step fails closed; the check runs at most once per connection and a first negative result is never retried; is_authenticated() sets '
               'relayclient to 1 only by relay list or entitling certificate and never together with an error result.')
LEVEL_NOTE = ('One theorem for the three entitlements (C01_three_entitlements: relay list, or AUTH earlier, or inside TLS a certificate accepted earlier that satisfies cert_entitles), '
              'obtained from the session simulation plus the bridge to the literal tls_verify model (C01_is_authenticated_refines: the session\'s is_authenticated IS TlsVerify.is_authenticated on '
              'relayclient / tlsclient / ssl_verified). Partial: OpenSSL chain verification is an oracle; the accepting certificate path is tied to the C at unit level only (engine tlsverify); multi-line AUTH exchanges (LOGIN, PLAIN without initial '
              'response) end the modelled session (their logic is property C09); lookup internals are C16.')
TECHNIQUE = ('Coq invariant proof over the session model (cached relay decision incl. the certificate stage, authentication and certificate flags in step with the trace) as part of the simulation; refinement proof session is_authenticated = literal is_authenticated; whole-program differential run over relay-list kinds; '
             'literal oracle model of tls_verify/tls_check_cert/is_authenticated with case-analysis proofs and induction over call sequences, unit differential run against the real functions with scripted OpenSSL')
DESIGN_REF = 'DESIGN.md section 5, C01'


def relay_session(rng):
    chunks = [rng.choice([b'HELO c.example.net\r\n', b'EHLO c.example.net\r\n'])]
    for _ in range(rng.choice([1, 2])):
        chunks.append(session_gen.mail(rng, rng.choice(['ok', 'bounce'])))
        for _ in range(rng.choice([1, 2, 3, 4])):
            chunks.append(session_gen.rcpt(rng, rng.choice(['remote', 'remote', 'ok', 'rbad', 'no'])))
        if rng.random() < 0.3:
            chunks.append(b'RSET\r\n'); chunks.append(session_gen.mail(rng, 'ok')); chunks.append(session_gen.rcpt(rng, 'remote'))
        chunks.append(b'DATA\r\n'); chunks.append(b'Subject: t\r\n\r\nbody\r\n.\r\n')
    return chunks


def literal_session(rng, lip):
    """recipients with address literals around the server's own address 192.0.2.<lip>: exact, every proper prefix that is
    still a valid address, extensions, neighbours - only the exact one is local, the others need the relay entitlement"""
    own = '192.0.2.' + lip
    cands = [own] + [own[:k] for k in range(len('192.0.2.') + 1, len(own))] + [own + d for d in '05' if int(lip + d) <= 255] + ['192.0.2.77', '192.0.2', '10.0.0.1']
    cands = [c for c in cands if c.count('.') == 3 and not c.endswith('.')]
    chunks = [rng.choice([b'HELO c.example.net\r\n', b'EHLO c.example.net\r\n']), session_gen.mail(rng, 'ok')]
    for _ in range(rng.choice([2, 3, 5])):
        c = rng.choice(cands)
        chunks.append(b'RCPT TO:<' + rng.choice([b'alice', b'victim', b'x']) + b'@[' + c.encode() + b']>\r\n')
        if rng.random() < 0.3: chunks.append(session_gen.rcpt(rng, rng.choice(['ok', 'remote'])))
    chunks += [b'DATA\r\n', b'Subject: t\r\n\r\nbody\r\n.\r\n']
    return chunks


# ------------------------------------------------------------------ engine tlsverify (TLS client certificate, unit level)
TV_ADDRS = [b'a@b.c', b'ab@b.c', b'a@b.cd', b'A@b.c', b'user@example.org', b'host.example.org', b'x', b'a@b',
            b'relay-1.example.net', b'u' * 60 + b'@example.org']
EMAIL, CN, ORG = 1, 2, 3


def tv_subject(ents):
    return R.hx(b''.join(bytes([t, len(d)]) + d for t, d in ents))


def tv_names(rng, listed, others):
    """subject name aimed at the case splits of tls_check_cert: which entry is chosen, how it compares"""
    t = rng.choice(listed) if listed else b'a@b.c'
    o = rng.choice(others)
    kind = rng.choice(['email', 'email', 'cn', 'nulprefix', 'nulprefix', 'prefix', 'longer', 'case', 'email_unlisted_cn_listed',
                       'empty_email_cn_listed', 'two_emails_second_listed', 'two_emails_first_listed', 'nul_first', 'none', 'org_only',
                       'org_then_email', 'cn_then_email', 'nul_inside_same_len', 'unlisted', 'cn_nulprefix', 'nul_suffix', 'random'])
    if kind == 'email': return [(EMAIL, t)]
    if kind == 'cn': return [(CN, t)]
    if kind == 'nulprefix': return [(EMAIL, t + b'\0' + rng.choice([b'', b'x', b'.evil.example', o]))]
    if kind == 'cn_nulprefix': return [(CN, t + b'\0' + o)]
    if kind == 'nul_suffix': return [(rng.choice([EMAIL, CN]), t + b'\0')]
    if kind == 'prefix': return [(EMAIL, t[:max(1, len(t) - rng.choice([1, 2]))])]
    if kind == 'longer': return [(EMAIL, t + rng.choice([b'x', b'.', b' ']))]
    if kind == 'case': return [(EMAIL, t.swapcase())]
    if kind == 'email_unlisted_cn_listed': return [(EMAIL, o), (CN, t)]
    if kind == 'empty_email_cn_listed': return [(EMAIL, b''), (CN, t)]
    if kind == 'two_emails_second_listed': return [(EMAIL, o), (EMAIL, t)]
    if kind == 'two_emails_first_listed': return [(EMAIL, t), (EMAIL, o)]
    if kind == 'nul_first': return [(EMAIL, b'\0' + t)]
    if kind == 'none': return []
    if kind == 'org_only': return [(ORG, t)]
    if kind == 'org_then_email': return [(ORG, o), (EMAIL, t)]
    if kind == 'cn_then_email': return [(CN, o), (EMAIL, t)]
    if kind == 'nul_inside_same_len':
        k = rng.randrange(len(t))
        return [(EMAIL, t[:k] + b'\0' + t[k + 1:])]
    if kind == 'unlisted': return [(rng.choice([EMAIL, CN]), o)]
    n = rng.choice([0, 1, 2, 3])
    return [(rng.choice([EMAIL, CN, ORG]), bytes(rng.choice([0, 0x40, 0x61, 0x62, 0x2e, 0x63]) for _ in range(rng.choice([0, 1, 3, 5, 6]))))
            for _ in range(n)]


def tv_call(rng, op=None):
    """one call: mostly the configuration in which everything succeeds, with one or two oracles turned"""
    listed = rng.sample(TV_ADDRS, rng.choice([0, 1, 1, 2, 3, 5]))
    if listed and rng.random() < 0.3:          # entries that are prefixes / extensions of each other
        listed.append(listed[0][:-1] if len(listed[0]) > 1 else listed[0] + b'x')
        rng.shuffle(listed)
    others = [a for a in TV_ADDRS if a not in listed] or [b'nobody@example.com']
    v = dict(op=rng.choice([0, 1, 1]) if op is None else op, fl=1, ipbl=rng.choice([0, 1, 1]), lm=2, len=0, ca=1, sid=1, hs=rng.choice([0, 0, 1]),
             vr=0, peer=1, dup=1, nw=0)
    for _ in range(rng.choice([0, 0, 0, 1, 1, 1, 2, 3])):
        k = rng.choice(['fl', 'fl', 'ipbl', 'lm', 'lm', 'ca', 'sid', 'hs', 'hs', 'vr', 'vr', 'peer', 'dup', 'nw'])
        v[k] = {'fl': lambda: rng.choice([0, 2, 3]), 'ipbl': lambda: rng.choice([2, 3, 3]), 'lm': lambda: rng.choice([0, 0, 1]),
                'ca': lambda: 0, 'sid': lambda: rng.choice([0, 0, 2, 255]), 'hs': lambda: rng.choice([256 - 110, 256 - 71, 255, 256 - 104, 256 - 5]),
                'vr': lambda: rng.choice([18, 20, 10, 2, 1, 21, 23, 255]), 'peer': lambda: 0, 'dup': lambda: 0,
                'nw': lambda: rng.choice([256 - 32, 255, 256 - 104, 256 - 32, 1])}[k]()
        if k == 'lm' and v['lm'] == 0:
            v['len'] = rng.choice([0, 2, 12, 13, 24])
        if k in ('sid', 'hs') and rng.random() < 0.5:
            v['nw'] = rng.choice([0, 256 - 32, 255])
    a = bytes([v['op'], v['fl'], v['ipbl'], v['lm'], v['len'], v['ca'], v['sid'], v['hs'], v['vr'], v['peer'], v['dup'], v['nw']])
    return R.hx(a) + ' ' + R.hx(b'\0'.join(listed)) + ' ' + tv_subject(tv_names(rng, listed, others))


TV_FREE = R.hx(bytes([2] + [0] * 11)) + ' - -'       # end of a transaction (freedata)


def tv_case(rng):
    init = bytes([rng.choice([0, 0, 0, 0, 2, 2, 1, 3]), rng.choice([0, 0, 0, 0, 0, 1])])
    n = rng.choice([1, 1, 2, 2, 3, 4, 6])
    same_op = rng.choice([None, None, 0, 1])
    calls = []
    for _ in range(n):
        if calls and rng.random() < 0.2:
            calls.append(TV_FREE)
        calls.append(tv_call(rng, same_op))
    return '7c ' + R.hx(init) + ' ' + ' '.join(calls)


_session_nontrivial, _session_distribution = nontrivial, distribution


def _tv_has_nul(case):
    for f in case.split()[4::3]:
        b = bytes.fromhex(f) if f != '-' else b''
        i = 0
        while i + 2 <= len(b) and i + 2 + b[i + 1] <= len(b):
            if 0 in b[i + 2:i + 2 + b[i + 1]]:
                return True
            i += 2 + b[i + 1]
    return False


def nontrivial(case, c_out):
    if case.startswith('7e '):
        # the certificate stage was reached inside TLS: a remote recipient (or MAIL on 587) was answered there
        toks = c_out.split()
        return 'S' in toks and any(t in ('t551', 't454', 't550') for t in toks)
    if case.startswith('7c '):
        # the certificate was looked at (letter P) in a sequence of at least two calls, or a call succeeded by certificate
        return ('P' in c_out and len(c_out.split()) > 1) or 'PD' in c_out
    return _session_nontrivial(case, c_out)


def distribution(results):
    d = _session_distribution([r for r in results if r['case'].startswith('5e ')])
    te = [r for r in results if r['case'].startswith('7e ')]
    d['tls_cert_cases'] = len(te)
    d['tls_cert_cases_454_then_550'] = sum(1 for r in te if 't454 t550' in r['c'])
    d['tls_cert_cases_refused_in_tls'] = sum(1 for r in te if 't551' in r['c'].split())
    tv = [r for r in results if r['case'].startswith('7c ')]
    d['tlsverify_cases'] = len(tv)
    calls = [t for r in tv for t in r['c'].split()]
    d['tlsverify_calls'] = len(calls)
    d['tlsverify_entitled'] = sum(1 for t in calls if t.endswith('PD') and t.startswith('r1,'))
    d['tlsverify_certificate_compared_no_match'] = sum(1 for t in calls if t.endswith('P'))
    d['tlsverify_errors'] = sum(1 for t in calls if t.startswith('r-'))
    d['tlsverify_died'] = sum(1 for t in calls if t.startswith('die'))
    d['tlsverify_skipped_by_ssl_verified'] = sum(1 for t in calls if t.endswith(',1,null,-') or t.endswith(',1,null,B'))
    d['tlsverify_cases_with_nul_in_subject'] = sum(1 for r in tv if _tv_has_nul(r['case']))
    return d


def tls_cert_case(rng):
    """a session that reaches is_authenticated() inside TLS with control/tlsclients / control/clientca.pem present or not, a client that
    offers post-handshake authentication or not and has the listed certificate or none; before the switch the relay decision may already
    be cached (relayclient = 2), AUTH may entitle first (then tls_verify() is never asked), the port may be 587 (the stage runs in MAIL FROM)"""
    def it(k, d=b''): return (k.encode() + d).hex()
    cfg = ['cert=good', 'relay=' + rng.choice(['none', 'none', 'unlisted', 'listed', 'badsize']), 'ip=' + rng.choice(['v4', 'v4', 'v6']), 'databytes=0', 'qq=ok,ok,ok',
           'tlsclients=' + rng.choice(['1', '1', '1', '0']), 'clientca=' + rng.choice(['1', '1', '1', '0']), 'pha=' + rng.choice(['1', '1', '0']),
           'ccert=' + rng.choice(['listed', 'listed', 'none']), 'auth=' + rng.choice(['0', '0', '1']), 'port=' + rng.choice(['25', '25', '25', '587'])]
    items = [it('S', b'EHLO c.example.net\r\n')]
    if rng.random() < 0.4:
        # in clear text first: the relay list is looked up and the answer cached; tls_verify() has no TLS session to ask
        items += [it('S', session_gen.mail(rng, 'ok')), it('S', session_gen.rcpt(rng, 'remote'))]
        if rng.random() < 0.5: items.append(it('S', b'RSET\r\n'))
    items += [it('S', b'STARTTLS\r\n'), it('H'), it('S', b'EHLO c.example.net\r\n')]
    if 'auth=1' in cfg and rng.random() < 0.5:
        items.append(it('S', session_gen.auth_line(rng, rng.choice(['good', 'wrongpw']))))
    for _ in range(rng.choice([1, 2])):
        items.append(it('S', session_gen.mail(rng, rng.choice(['ok', 'ok', 'bounce']))))
        for _ in range(rng.choice([1, 2, 3])):
            items.append(it('S', session_gen.rcpt(rng, rng.choice(['remote', 'remote', 'ok', 'rbad']))))
        if rng.random() < 0.6:
            items += [it('S', b'DATA\r\n'), it('S', b'Subject: t\r\n\r\nbody\r\n.\r\n')]
        else:
            items.append(it('S', b'RSET\r\n'))
    if rng.random() < 0.3: items.append(it('S', b'QUIT\r\n'))
    return '7e ' + R.hx(';'.join(cfg)) + ' ' + ' '.join(items)


def gen_cases(engine, rng, tier):
    if engine == 'tlsverify':
        return [tv_case(rng) for _ in range(4000 if tier == 'quick' else 150000)]
    if engine == 'tlssession':
        return [tls_cert_case(rng) for _ in range(150 if tier == 'quick' else 3000)]
    n = 300 if tier == 'quick' else 6000
    out = []
    for _ in range(n // 2):
        cfg = 'relay=%s;ip=%s;databytes=0;qq=ok,ok,ok,ok;auth=%s' % (rng.choice(['none', 'none', 'unlisted', 'listed', 'badsize']), rng.choice(['v4', 'v6']),
                                                                       rng.choice(['1', '1', '1', '0']))
        out.append(session_gen.case(cfg, session_gen.auth_session(rng)))
    for _ in range(n // 5):
        lip = rng.choice(['2', '25', '25', '125', '250'])
        cfg = 'relay=%s;ip=v4;databytes=0;qq=ok,ok;lip=%s' % (rng.choice(['none', 'none', 'listed', 'unlisted']), lip)
        out.append(session_gen.case(cfg, literal_session(rng, lip)))
    for _ in range(n):
        cfg = 'relay=%s;ip=%s;databytes=0;qq=ok,ok,ok,ok' % (rng.choice(['none', 'listed', 'unlisted', 'badsize', 'badprefix', 'unreadable']), rng.choice(['v4', 'v6']))
        out.append(session_gen.case(cfg, relay_session(rng)))
    # the submission port (587): MAIL FROM itself needs the entitlement
    for _ in range(n // 2):
        cfg, chunks = session_gen.subm_gate_session(rng)
        out.append(session_gen.case(cfg, chunks))
    for _ in range(n // 6):
        # the same histories with the relay / AUTH sessions of above, on port 587
        cfg = 'relay=%s;ip=%s;databytes=0;qq=ok,ok,ok,ok;auth=%s;port=587' % (rng.choice(['none', 'listed', 'unlisted', 'badsize', 'badprefix', 'unreadable']), rng.choice(['v4', 'v6']),
                                                                               rng.choice(['1', '1', '0']))
        out.append(session_gen.case(cfg, session_gen.auth_session(rng) if rng.random() < 0.6 else relay_session(rng)))
    return out + session_gen.gen(rng, 200 if tier == 'quick' else 4000)

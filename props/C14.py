"""C14 — only well-formed mailbox addresses are accepted
(lib/dns_helpers.c:domainvalid, qsmtpd/addrsyntax.c, qsmtpd/xtext.c, front end of qsmtpd/addrparse.c)."""
import re
import runlib as R

ID = 'C14'
COQ_TARGETS = ['Props/Properties_C14.vo', 'Proofs/CheckerProofs.vo']
PROPS_FILES = ['Props/Properties_C14.v']
THEOREMS = ['C14_domain', 'C14_domain_exact', 'C14_local', 'C14_local_refuted', 'C14_local_partial',
            'C14_parseaddr', 'C14_addrsyntax', 'C14_addrparse', 'C14_xtext', 'C14_safe', 'C14_writes', 'C14_oracle_ref', 'C14_char_sign_independent',
            'C14_domain_rfc', 'C14_local_iff', 'C14_parseaddr_iff', 'C14_addrsyntax_iff', 'C14_xtext_iff', 'C14_ipv4_literal', 'C14_ipv6_literal']
ENGINES = [dict(name='addr', c_sources=['addr_h.c'], extract='Extract/Extract_addr.v', driver='addr_driver.ml',
                glue=('glue.ml', 'glue_z.ml'), accepts=lambda c: c[:2] in ('d0', 'd1', 'd2', 'd3', 'd4', 'd5', 'd6'))]
RULE = ('cases = arguments of domainvalid / parselocalpart / parseaddr+checkaddr+addrspec_valid / addrsyntax (flags 0,1,2) / xtextlen / '
        'addrparse: sampled from the RFC 5321 grammar (labels, dot-strings, quoted strings with quoted pairs and obsolete controls, '
        'IPv4/IPv6 literals, source routes), label lengths 1,2,62..65, totals 252..258, literal lengths 14..17 / 44..47, route lengths '
        '254..259, xtext decodings 317..323 octets, near-miss mutations (one byte changed, inserted or dropped, NUL/CR/LF/8-bit/DEL), '
        'all strings up to length 3 (quick) or 5 (thorough) over 9-symbol alphabets for domainvalid and parselocalpart, random bytes; every string sits at the end '
        'of a page followed by PROT_NONE and in an exact-size heap block under ASan; '
        'non-trivial = the C accepted the input (return 0 of domainvalid, length > 0, code >= 3, xtext length > 0, ACCEPT); distinct by case text')
TRUSTED_BASE = [
    'Coq 8.16.1 kernel (coqc; coqchk in thorough); vm_compute for the 256-entry character tables and the examples; no native_compute',
    'axioms: none (Print Assumptions: Closed under the global context)',
    'translator tools/translators/addr.py: cuts the character-class expressions out of the C, evaluates them for all 256 char values '
    '(char signedness from gcc -E <limits.h>) into tables of coq/Gen/GenAddr.v; limits 63/255/3/64/256/321 and return codes by regex; '
    'INET_ADDRSTRLEN/INET6_ADDRSTRLEN from gcc -E over the system headers',
    'hand-written model coq/Model/Addr.v (control structure of the six functions) tied to the C by the correspondence run '
    '(differential testing, bounded by the generator)',
    'inet_pton(3) is a parameter of the theorems (contract: accepts only digits/dots resp. hex digits/colons/dots); the reference '
    'implementation coq/Model/InetPton.v that instantiates it is tied to glibc by the correspondence run only',
    'extraction with ExtrOcamlBasic only; ocaml/glue.ml, glue_z.ml, addr_driver.ml hex parsing/printing',
    'C harness harness/addr_h.c: #include of the four C files, gcc 12 -O1 ASan+UBSan vs. the production build; addrparse() with '
    'finddomain/user_exists/netwrite stubbed',
]
ASSUMPTIONS = [
    'the argument is NUL-terminated inside its buffer (net_read() terminates linein); lines are shorter than 2^31 so int/ssize_t do not wrap',
    'malloc/strdup succeed (the -1/ENOMEM return of addrsyntax is not modelled)',
    'the translator evaluates the C character tests with the signedness of char gcc reports (signed here) and, for '
    'C14_char_sign_independent, with the other one; the differential run exercises the signed build only',
    'RCPT TO:<postmaster> (no domain, any case) is an accepted special form (RFC 5321 4.1.1.3) outside the property text',
    'the C locale for strcasecmp',
]

# ---------------------------------------------------------------------------------------------- alphabets
LET = b'abcdefghijklmnopqrstuvwxyzABCDEFGHIJKLMNOPQRSTUVWXYZ'
DIG = b'0123456789'
LDH = LET + DIG + b'-'
ATEXT = LET + DIG + b"!#$%&'*+-/=?^_`{|}~"
QTEXT = bytes([33] + list(range(35, 92)) + list(range(93, 127)))
OBSQ = bytes(list(range(1, 9)) + [11, 12] + list(range(14, 32)) + [127])
NASTY = [0, 9, 10, 13, 32, 34, 40, 41, 44, 46, 58, 59, 60, 62, 64, 91, 92, 93, 127, 128, 200, 255]


def rb(rng, alpha, n):
    return bytes(rng.choice(alpha) for _ in range(n))


def label(rng, n, last=False):
    if n <= 0:
        return b''
    l = bytearray(rb(rng, LDH if rng.random() < 0.8 else LET + DIG, n))
    if last:
        l[-1] = rng.choice(LET)
    return bytes(l)


def domain(rng, kind=None):
    kind = kind or rng.choice(['valid', 'valid', 'first', 'mid', 'last', 'total', 'miss', 'tiny'])
    edge = [1, 2, 3, 62, 63, 64, 65]
    if kind == 'tiny':
        return rb(rng, b'a.-1_A', rng.randrange(0, 7))
    if kind == 'total':
        want = rng.choice([252, 253, 254, 255, 256, 257, 258])
        ls = []
        left = want
        while left > 0:
            n = min(left, rng.choice([63, 63, 40, 10, 62]))
            if left - n == 1:           # would leave room for a dot only
                n -= 1
            ls.append(n)
            left -= n + 1
        d = b'.'.join(label(rng, n, i == len(ls) - 1) for i, n in enumerate(ls))
        return d
    nl = rng.choice([1, 2, 2, 3, 3, 4, 6])
    lens = [rng.choice([1, 2, 3, 5, 10, 20]) for _ in range(nl)]
    if kind == 'first':
        lens[0] = rng.choice(edge)
    elif kind == 'mid' and nl > 2:
        lens[rng.randrange(1, nl - 1)] = rng.choice(edge)
    elif kind == 'last':
        lens[-1] = rng.choice(edge)
    elif kind == 'valid':
        lens[-1] = max(2, lens[-1])
    d = bytearray(b'.'.join(label(rng, n, i == nl - 1) for i, n in enumerate(lens)))
    if kind == 'miss':
        d = mutate(rng, bytes(d), b'.-_a1Z')
    return bytes(d)


def mutate(rng, s, extra=b''):
    s = bytearray(s)
    for _ in range(rng.choice([1, 1, 1, 2])):
        op = rng.choice(['set', 'ins', 'del', 'dup', 'trunc'])
        pos = rng.randrange(0, len(s) + 1)
        c = rng.choice(NASTY) if rng.random() < 0.6 or not extra else rng.choice(extra)
        if op == 'set' and s:
            s[min(pos, len(s) - 1)] = c
        elif op == 'ins':
            s.insert(pos, c)
        elif op == 'del' and s:
            del s[min(pos, len(s) - 1)]
        elif op == 'dup' and s:
            p = min(pos, len(s) - 1)
            s.insert(p, s[p])
        elif op == 'trunc':
            del s[pos:]
    return bytes(s)


def quoted(rng):
    out = bytearray(b'"')
    for _ in range(rng.choice([0, 1, 2, 5, 12])):
        r = rng.random()
        if r < 0.6:
            out.append(rng.choice(QTEXT))
        elif r < 0.75:
            out.append(rng.choice(OBSQ))
        elif r < 0.9:
            out += b'\\' + bytes([rng.choice(b'"\\')])
        elif r < 0.96:
            out.append(rng.choice(b' @.'))
        else:          # octets that no quoted string may contain (RFC 5321 qtextSMTP / quoted-pairSMTP): HT, LF, CR, 8 bit
            out.append(rng.choice([9, 10, 13, 13, 13, 0x80, 0xe4, 0xff]))
    return bytes(out + b'"')


def localpart(rng, kind=None):
    kind = kind or rng.choice(['dot', 'dot', 'quoted', 'quoted', 'mixed', 'dots', 'miss', 'qmiss', 'long'])
    if kind == 'dot':
        return b'.'.join(rb(rng, ATEXT, rng.choice([1, 1, 2, 5, 9])) for _ in range(rng.choice([1, 1, 2, 3])))
    if kind == 'long':
        return rb(rng, LET + DIG, rng.choice([63, 64, 65, 100, 300]))
    if kind == 'quoted':
        return quoted(rng)
    if kind == 'mixed':
        return rng.choice([b'a', b'', b'a.', b'.']) + quoted(rng) + rng.choice([b'', b'b', b'.c', quoted(rng), b'.' + quoted(rng)])
    if kind == 'dots':
        return rng.choice([b'.', b'..', b'.a', b'a.', b'a..b', b'a.b..c', b'...', b'a.b.', b'.a.b'])
    if kind == 'miss':
        return mutate(rng, localpart(rng, 'dot'), b'.."@')
    # qmiss: broken quoting
    q = quoted(rng)
    return rng.choice([q[:-1], q + b'"', q[:-1] + b'\\"', q[:-1] + b'\\', q[:1] + b'\\a' + q[1:], mutate(rng, q, b'"\\'),
                       q[:1] + bytes([rng.choice(NASTY)]) + q[1:], q[:1] + b'!' + q[1:], q[:1] + b'\x7f' + q[1:]])


def ipv4(rng, ok=True):
    parts = [str(rng.choice([0, 1, 9, 10, 99, 127, 200, 255, rng.randrange(256)])) for _ in range(4)]
    if not ok:
        k = rng.randrange(4)
        parts[k] = rng.choice(['256', '01', '', '1a', '999', '-1', '0x1', '00'])
        if rng.random() < 0.3:
            parts = parts[:3] if rng.random() < 0.5 else parts + ['5']
    return '.'.join(parts).encode()


def ipv6(rng, ok=True):
    def g():
        return '%x' % rng.choice([0, 1, 0xabcd, 0xffff, rng.randrange(65536)]) if rng.random() < 0.7 else '%04X' % rng.randrange(65536)
    form = rng.choice(['full', 'comp', 'lead', 'trail', 'v4', 'v4comp', 'any'])
    if form == 'full':
        s = ':'.join(g() for _ in range(8))
    elif form == 'comp':
        a = rng.randrange(1, 6); b = rng.randrange(1, 7 - a)
        s = ':'.join(g() for _ in range(a)) + '::' + ':'.join(g() for _ in range(b))
    elif form == 'lead':
        s = '::' + ':'.join(g() for _ in range(rng.randrange(1, 8)))
    elif form == 'trail':
        s = ':'.join(g() for _ in range(rng.randrange(1, 8))) + '::'
    elif form == 'v4':
        s = ':'.join(g() for _ in range(6)) + ':' + ipv4(rng).decode()
    elif form == 'v4comp':
        s = '::' + rng.choice(['', 'ffff:', 'FFFF:']) + ipv4(rng).decode()
    else:
        s = '::'
    s = s.encode()
    if not ok:
        s = rng.choice([mutate(rng, s, b':.0fg'), s + b':', b':' + s, s + b':1:2:3:4:5:6:7:8', s.replace(b':', b'::', 1), s + b'0' * rng.choice([1, 5, 20])])
    return s


def literal(rng):
    r = rng.random()
    if r < 0.25:
        b = ipv4(rng, rng.random() < 0.7)
    elif r < 0.35:
        # lengths around INET_ADDRSTRLEN
        b = rng.choice([b'255.255.255.255', b'255.255.255.2555', b'0255.255.255.255', b'1.2.3.4', b'127.128.129.140.2'])
    elif r < 0.7:
        b = b'IPv6:' + ipv6(rng, rng.random() < 0.7)
    elif r < 0.85:
        # lengths around INET6_ADDRSTRLEN (45 is the longest valid text)
        b = b'IPv6:' + rng.choice([b'abcd:abcd:abcd:abcd:abcd:abcd:abcd:abcd', b'0000:0000:0000:0000:0000:ffff:124.123.123.123',
                                   b'0000:0000:0000:0000:0000:ffff:124.123.123.1234', b'1234:6789:1234:6789:1234:6789:1234:6789:123400',
                                   b'0000:0000:0000:0000:0000:0000:124.123.123.123', b'1234:6789:1234:6789:1234:6789:1234:6789:12340'])
    else:
        b = rng.choice([b'ipv6:::1', b'IPV6:::1', b'IPv6', b'IPv6:', b'', b'::1', b'IPv4:1.2.3.4', b'IPv6:1.2.3.4', b'1.2.3.4\r', b'IPv6:::1%eth0',
                        b':::1', b'I:::1', b'IP:::1', b'IPv:::1', b'IPv:1::2', b'IPv66:::1', b'IPv6x:::1', b'IPv:2001:db8::1', b':2001:db8::1', b'IPv6 :::1'])   # tags that are a prefix / an extension of the real one
    return b'[' + b + b']'


def address(rng):
    r = rng.random()
    lp = localpart(rng)
    if r < 0.5:
        return lp + b'@' + domain(rng)
    if r < 0.75:
        lit = literal(rng)
        return lp + b'@' + rng.choice([lit, lit, lit, lit[:-1], lit + b'.com', lit + b']', b'[' + lit])
    if r < 0.8:
        return b'@' + domain(rng)
    if r < 0.85:
        return domain(rng)
    if r < 0.9:
        return lp + b'@' + domain(rng) + b'@' + domain(rng)
    return mutate(rng, lp + b'@' + domain(rng, 'valid'), b'@.[]<>')


def route(rng, want=None):
    n = rng.choice([1, 1, 2, 3])
    doms = [domain(rng, rng.choice(['valid', 'valid', 'valid', 'first', 'miss'])) for _ in range(n)]
    if want:
        # total length of "@d1,@d2,...:" == want
        doms = []
        left = want
        while left > 0:
            n = min(left - 1, rng.choice([20, 40, 64, 64]))      # '@' + domain + separator
            if left - n - 1 in (1, 2, 3, 4):
                n = left - 1
            k = n - 1
            if k < 4:
                break
            d = label(rng, min(k - 3, 63)) + b'.' + label(rng, 2, True) if k - 3 <= 63 else \
                label(rng, 63) + b'.' + label(rng, k - 64 - 3) + b'.' + label(rng, 2, True) if k - 64 - 3 >= 1 else label(rng, k - 3) + b'.' + label(rng, 2, True)
            doms.append(d)
            left -= len(d) + 2
    sep = rng.choice([b':', b':', b':', b':', b';', b',', b''])
    return b','.join(b'@' + d for d in doms) + sep


def line(rng):
    r = rng.random()
    if r < 0.08:
        a = b''
    elif r < 0.18:
        a = rng.choice([b'postmaster', b'Postmaster', b'POSTMASTER', b'postmaster@', b'postmaste', b'postmasters', b'PostMaster@example.org'])
    else:
        a = address(rng)
    pre = b''
    r = rng.random()
    if r < 0.3:
        pre = route(rng)
    elif r < 0.4:
        pre = route(rng, rng.choice([254, 255, 256, 257, 258, 259]))
    elif r < 0.45:
        pre = rng.choice([b'@', b'@:', b'@,', b'@a.bc', b'@a.bc,', b'@a.bc,x', b'@a.bc,@'])
    post = rng.choice([b'>', b'>', b'>', b'> SIZE=100', b'> BODY=8BITMIME', b'>x', b'', b'>>', b'> a,b', b'> :', b'>\x00x', b' >'])
    return pre + a + post


def xenc(rng, s, p=0.15):
    out = bytearray()
    for c in s:
        if c in (43, 61) or c < 33 or c > 126 or rng.random() < p:
            out += b'+%02X' % c
        else:
            out.append(c)
    return bytes(out)


def xtext(rng):
    r = rng.random()
    if r < 0.35:
        a = localpart(rng, rng.choice(['dot', 'quoted', 'dots'])) + b'@' + rng.choice([domain(rng), literal(rng)])
        x = xenc(rng, a)
    elif r < 0.45:
        x = rng.choice([b'<>', b'+3C+3E', b'+3C>', b'', b'<', b'+3c+3e', b'<>x'])
    elif r < 0.6:
        # decoded length around sizeof(addrspec)
        n = rng.choice([317, 318, 319, 320, 321, 322, 323])
        dom = domain(rng, 'total')
        lp = rb(rng, LET, max(1, n - len(dom) - 1))
        x = xenc(rng, lp + b'@' + dom, rng.choice([0, 0.1]))
    elif r < 0.75:
        a = b'a@b.cd'
        x = a + rng.choice([b'+00', b'+00xyz', b'+0', b'+', b'+0g', b'+G0', b'+a0', b'=', b'+FF', b'+80x', b'+0D+0A', b'+20x', b'+40b.cd'])
    else:
        x = mutate(rng, xenc(rng, b'user@example.org'), b'+=0AFaf')
    return x + rng.choice([b'', b'', b' BODY=7BIT', b' ', b'\x00z'])


def gen_cases(engine, rng, tier):
    k = 3 if tier == 'quick' else 60
    out = ['d0']
    for _ in range(500 * k):
        out.append('d1 ' + R.hx(domain(rng)))
    for _ in range(450 * k):
        lp = localpart(rng)
        out.append('d2 ' + R.hx(lp + rng.choice([b'@x', b'@', b'', b'@example.org'])))
    # all short strings over a small alphabet
    import itertools
    alpha_d = b'a.-1_Z\xe4\x00:'
    alpha_l = b'a."\\@\x7f\x00\n\xe4'
    maxlen = 3 if tier == 'quick' else 5
    for n in range(0, maxlen + 1):
        for t in itertools.product(alpha_d, repeat=n):
            out.append('d1 ' + R.hx(bytes(t)))
        for t in itertools.product(alpha_l, repeat=n):
            out.append('d2 ' + R.hx(bytes(t)))
    for _ in range(700 * k):
        out.append('d3 ' + R.hx(address(rng)))
    for _ in range(900 * k):
        out.append('d4 %02x %s' % (rng.choice([0, 1, 1, 1, 2]), R.hx(line(rng))))
    for _ in range(400 * k):
        out.append('d5 ' + R.hx(xtext(rng)))
    for _ in range(300 * k):
        out.append('d6 %02x %s' % (rng.choice([0, 1]), R.hx(line(rng))))
    for _ in range(150 * k):
        b = rb(rng, range(256), rng.randrange(0, 40))
        out.append(rng.choice(['d1 ', 'd2 ', 'd3 ', 'd4 01 ', 'd4 00 ', 'd5 ', 'd6 01 ']) + R.hx(b))
    return out


# ---------------------------------------------------------------------------------------------- known-finding class
_AT = re.escape(ATEXT.decode('latin-1'))
_WEAK = re.compile(('(?:[%s.]|"(?:[!#-\\[\\]-~\\x01-\\x08\\x0b\\x0c\\x0e-\\x1f\\x7f]|\\\\["\\\\])*")*' % _AT).encode('latin-1'))


def cstr(b):
    return b.split(b'\x00', 1)[0]


def one_quoted(lp):
    """a single quoted string from the first to the last byte (escape-aware scan, as Spec.AddrSpec.one_quoted)"""
    if not lp.startswith(b'"'):
        return False
    i = 1
    while i < len(lp):
        c = lp[i]
        if c == 34:
            return i == len(lp) - 1
        i += 2 if c == 92 else 1
    return False


def local_class(lp):
    """Spec.AddrSpec.local_class"""
    if b'"' in lp:
        return not one_quoted(lp)
    return lp.startswith(b'.') or lp.endswith(b'.') or b'..' in lp


def xdecode(x):
    out = bytearray()
    i = 0
    while i < len(x):
        if x[i] == 43:
            out.append(int(x[i + 1:i + 3], 16))
            i += 3
        else:
            out.append(x[i])
            i += 1
    return bytes(out)


def local_part_of(case, c_out):
    f = case.split()
    o = c_out.split()
    try:
        if f[0] == 'd2' and o[0] == 'L' and int(o[1]) > 0:
            return cstr(R.unhx(f[1]))[:int(o[1])]
        if f[0] == 'd3' and o[0] == 'P' and int(o[1]) >= 3:
            return cstr(R.unhx(f[1])).split(b'@', 1)[0]
        if (f[0] == 'd4' and o[0] == 'A' and int(o[1]) >= 3) or (f[0] == 'd6' and o[:2] == ['R', 'ACCEPT']):
            s = cstr(R.unhx(f[2]))
            if f[1] == '01' and s.startswith(b'@'):
                s = s.split(b':', 1)[1]
            return s.split(b'>', 1)[0].split(b'@', 1)[0]
        if f[0] == 'd5' and o[0] == 'X' and int(o[1]) > 0:
            return xdecode(cstr(R.unhx(f[1]))[:int(o[1])]).split(b'@', 1)[0]
    except Exception:
        return None
    return None


def classify(case, c_out):
    lp = local_part_of(case, c_out)
    if lp and _WEAK.fullmatch(lp) and local_class(lp):
        return 'local_not_dot_string'
    return None


def nontrivial(case, c_out):
    o = c_out.split()
    if not o:
        return False
    try:
        return ((o[0] == 'D' and o[1] == '0') or (o[0] == 'L' and int(o[1]) > 0) or (o[0] == 'P' and int(o[1]) >= 3)
                or (o[0] == 'A' and int(o[1]) >= 3) or (o[0] == 'X' and int(o[1]) > 0) or (o[:2] == ['R', 'ACCEPT'] and o[2] != '-'))
    except Exception:
        return False


def distribution(results):
    d = {}
    for r in results:
        o = r['c'].split()
        key = r['case'][:2] + ':' + (' '.join(o[:2]) if o and o[0] in 'DPAR' and len(o) > 1 else
                                      (o[0] + (' >=0' if len(o) > 1 and not o[1].startswith('-') else ' -1') if o and o[0] in 'LX' else (o[0] if o else '?')))
        d[key] = d.get(key, 0) + 1
    return d


LEVEL_TEXT = ('Machine-checked Coq theorems over an executable model of domainvalid, parselocalpart, parseaddr, addrsyntax, xtextlen and the '
              'front end of addrparse, for every NUL-terminated buffer of any length: domainvalid returns 0 exactly for names of >= 2 labels of '
              '1..63 letters/digits/hyphens, <= 255 octets, last label >= 2 characters ending in a letter (after the proposed one-line fix of the '
              '64-octet first label); an accepted local part is 7-bit without NUL/CR/LF, made of atext/dot runs and correctly terminated quoted '
              'strings; codes 3/4 only for local@fqdn / local@[literal accepted by inet_pton]; source routes well-formed, <= 256 octets and removed; '
              'the returned address is the lower-cased mailbox; AUTH= xtext decodes to <> or a mailbox; no function reads past the terminator or '
              'writes anything but NULs inside the line. The stronger "dot-string or one quoted string" is refuted (a..b) and recorded as F-C14-2. '
              'Character classes and limits are regenerated from the C on every run; model tied to the C by a differential run under ASan + guard page.')
LEVEL_NOTE = ('Trusted: Coq kernel, translator (expression evaluator, regexes), extraction, harness, generator quality of the correspondence run. '
              'inet_pton is an oracle with a character contract. Requires fixes/C14-domainvalid-first-label.diff, fixes/C14-xtext-encoded-nul.diff and fixes/C14-quoted-8bit-unsigned-char.diff '
              'in the tree; without them the check reports the 64-octet first label / the +00 xtext as violations with a replay and the '
              'char-signedness dependence as a broken proof.')
TECHNIQUE = ('Coq proof by structural induction over the buffer with explicit loop invariants; 256-entry character tables generated from the C '
             'expressions and discharged by vm_compute; model-vs-C differential run with guard page and ASan')
DESIGN_REF = 'DESIGN.md section 5, C14'

"""C11 — SPF evaluation is bounded, yields an RFC 7208 result and cannot inject header text (qsmtpd/spf.c)."""
import runlib as R
import spfgen as G

ID = 'C11'
COQ_TARGETS = ['Props/Properties_C11.vo']
PROPS_FILES = ['Props/Properties_C11.v']
THEOREMS = ['C11_check_host', 'C11_check_host_c', 'C11_limit_is_rfc', 'C11_bad_token_clean', 'C11_exp_text_clean', 'C11_received_spf_clean']
ENGINES = [dict(name='spf', c_sources=['spf_h.c'], extract='Extract/Extract_spf.v', driver='spf_driver.ml',
                glue=('glue.ml', 'glue_z.ml'), accepts=lambda c: c.startswith('c1 '))]
RULE = 'tbd'
TRUSTED_BASE = []
ASSUMPTIONS = []

def gen_cases(engine, rng, tier):
    n = 2000 if tier == 'quick' else 40000
    out = []
    for i in range(n):
        out.append(G.gen_case(rng, macros=False, mutated=(i % 3 == 0)))
    return out

def nontrivial(case, c_out):
    return ' R' in c_out and c_out.count(' T') >= 2

LEVEL_TEXT = 'tbd'
LEVEL_NOTE = 'tbd'
TECHNIQUE = 'tbd'
DESIGN_REF = 'DESIGN.md section 5, C11'

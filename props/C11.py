"""C11 — SPF evaluation is bounded, yields an RFC 7208 result and cannot inject header text (qsmtpd/spf.c)."""
import runlib as R
import spfgen as G

ID = 'C11'
COQ_TARGETS = ['Props/Properties_C11.vo']
PROPS_FILES = ['Props/Properties_C11.v']
THEOREMS = ['C11_check_host', 'C11_check_host_c', 'C11_limit_is_rfc', 'C11_bad_token_clean', 'C11_exp_text_clean', 'C11_received_spf_clean']
ENGINES = [dict(name='spf', c_sources=['spf_h.c'], extract='Extract/Extract_spf.v', driver='spf_driver.ml',
                glue=('glue.ml', 'glue_z.ml'), accepts=lambda c: c.startswith('c1 '))]
RULE = 'tbd'
TRUSTED_BASE = []
ASSUMPTIONS = []

def gen_cases(engine, rng, tier):
    k = 1 if tier == 'quick' else 25
    out = []
    for i in range(700 * k):
        out.append(G.gen_case(rng, macros=False, mutated=(i % 3 == 0)))
    for i in range(500 * k):
        out.append(G.gen_case(rng, macros=True, mutated=(i % 4 == 0)))
    for i in range(600 * k):
        out.append(G.gen_limit_case(rng))
    for i in range(900 * k):
        out.append(G.gen_macro_case(rng))
    for i in range(500 * k):
        out.append(G.gen_sanitise_case(rng))
    return out

def _obs(c_out):
    w = c_out.split()
    rc = next((x for x in w if x.startswith('R') and (x[1:].lstrip('-').isdigit())), None)
    nq = 0
    for x in w:
        if x == rc: break
        if x != 'Q': nq += 1
    return rc, nq, w

def nontrivial(case, c_out):
    rc, nq, w = _obs(c_out)
    return rc is not None and nq >= 2

def distribution(results):
    d = {}
    for r in results:
        rc, nq, w = _obs(r['c'])
        key = 'result_' + (rc[1:] if rc else r['c'].split()[0] if r['c'] else 'empty')
        d[key] = d.get(key, 0) + 1
        if rc:
            b = 'queries_0_1' if nq <= 1 else 'queries_2_5' if nq <= 5 else 'queries_6_10' if nq <= 10 else 'queries_11' if nq == 11 else 'queries_12plus'
            d[b] = d.get(b, 0) + 1
            if 'ENULL' not in w: d['spfexp_set'] = d.get('spfexp_set', 0) + 1
        if r['spec'] == 'pre': d['outside_precondition'] = d.get('outside_precondition', 0) + 1
    return d

LEVEL_TEXT = 'tbd'
LEVEL_NOTE = 'tbd'
TECHNIQUE = 'tbd'
DESIGN_REF = 'DESIGN.md section 5, C11'

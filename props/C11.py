"""C11 — SPF evaluation is bounded, yields an RFC 7208 result and cannot inject header text (qsmtpd/spf.c)."""
import runlib as R
import spfgen as G

ID = 'C11'
COQ_TARGETS = ['Props/Properties_C11.vo']
PROPS_FILES = ['Props/Properties_C11.v']
THEOREMS = ['C11_check_host', 'C11_check_host_c', 'C11_limit_is_rfc', 'C11_rfc_constants', 'C11_bad_token_clean', 'C11_exp_text_clean', 'C11_received_spf_clean', 'C11_rfc_agreement_refuted', 'C11_rfc_deviation_witnesses', 'C11_rfc_agreement_partial', 'C11_strict_reference_is_rfc']
ENGINES = [dict(name='spf', c_sources=['spf_h.c'], extract='Extract/Extract_spf.v', driver='spf_driver.ml',
                glue=('glue.ml', 'glue_z.ml'), accepts=lambda c: c.startswith('c1 '))]
RULE = ('cases = (sender domain, client address v4/v6, sender, HELO, reverse name, zone); zone = TXT/A/AAAA/MX/PTR answers or injected errors per name '
        'over a small universe of names. Streams: records drawn from the SPF grammar (700, one third mutated bytewise), the same with macros (500), '
        'records with 8..13 DNS querying terms flat / nested by include / chained by redirect / cyclic / include+redirect trees (600), '
        'zones whose records are all inside the strict macro-free RFC 7208 grammar, compared with the reference evaluator Spec/SpfRfc.v (1500), '
        'ptr with forward-confirmed PTR names around the label boundary of the target: xT, mail.notT, T.evil.test, equal length, shorter, sub.T (300), '
        'random macro strings in domain-specs, modifiers and explanation texts (900), arbitrary bytes in bad tokens and explanation texts (500), plus the corpus '
        '(replays of F-C11-1..9 and boundary cases). non-trivial = the implementation made at least two resolver calls; distinct by case text')
TRUSTED_BASE = [
    'Coq 8.16.1 kernel (coqc; coqchk in thorough); vm_compute in the non-vacuity example and for the literal pieces of the Received-SPF header; no native_compute',
    'axioms: none (Print Assumptions: Closed under the global context for all eleven theorems)',
    'translator tools/translators/spf.py: regexes over qsmtpd/spf.c and include/qsmtpd/antispam.h produce coq/Gen/GenSpf.v (result codes, DNS term limit and the six places it is tested, '
    'mechanism chain, MX/PTR/CIDR/prefix/length limits, both sanitiser expressions, result[] and the 26 literal pieces of spfreceived())',
    'hand-written models coq/Model/Spf.v (core), SpfBase.v (strtol/strtoul/inet_pton as in glibc, ip4/ip6_matchnet, domainvalid), SpfMacro.v (macro expansion, functional) '
    'tied to qsmtpd/spf.c, lib/match.c, lib/dns_helpers.c by the correspondence run (differential testing under ASan/UBSan, bounded by the generator)',
    'the resolver is an oracle at the level of dnstxt_records/ask_dnsa/ask_dnsaaaa/ask_dnsmx/ask_dnsname: lib/qdns.c and libowfat are not modelled; '
    'harness/spf_h.c answers these five functions from the zone of the case',
    'extraction with ExtrOcamlBasic only (no Extract Constant); ocaml/glue.ml, glue_z.ml, spf_driver.ml (hex parsing, printing, zone entries decoded by the extracted coq/Model/SpfZone.v)',
    'C harness harness/spf_h.c: #include of qsmtpd/spf.c, lib/match.c, lib/dns_helpers.c, lib/fmt.c, qsmtpd/antispam.c (dotip6) with write() and time() redirected; gcc 12 -O1 -DNDEBUG ASan+UBSan vs. production build; char is signed (x86-64)',
    'inet_ntop() of the client address is an input of the case (computed by the generator with the same libc), checked by the harness',
]
ASSUMPTIONS = [
    'xmitstat.spfexp is NULL or clean 7-bit text and xmitstat.spfmechanism NULL or a mechanism name when check_host() is entered (state_ok; established by the theorem itself for every later call, NULL at session start)',
    'a non-empty xmitstat.mailfrom is local@domain with both parts non-empty, and HELO name or reverse name is non-empty (addrsyntax()/smtp_helo are outside this model); cases violating it are skipped (pre)',
    'resolver answers are functions of the name (one zone per evaluation); ask_dnsmx() returns entries with at least one address',
    'Received-SPF: heloname, HELO, sender and client address text are printable ASCII (sess_ok); they come from the session, not from DNS, except the reverse name when no HELO differs from it',
    'macro expansion (spf_makro and below) is covered by correspondence only: the theorems hold for every expander, the memory safety of the real one was exercised under ASan, not proved',
    'fixes/C11-*.diff are applied: the unfixed tree violates the term limit (F-C11-1), crashes on F-C11-3..8 inputs and lets an IPv6 client match IPv4 MX addresses (F-C11-9); fixes/C11-14-ptr-case-insensitive.diff (ptr names compared with strcasecmp, F-C11-14) is NOT yet committed in /repo: it is applied in the scratch repo, the model follows it (corpus/C11/spf.cases)',
    'agreement with RFC 7208: the reference Spec/SpfRfc.v is hand-written from the RFC for macro-free records in its strict grammar; outside that fragment (syntax errors, macros, trailing dots, local or permanent resolver errors) results are not compared; five classes of deviation are known findings',
]

def gen_cases(engine, rng, tier):
    k = 1 if tier == 'quick' else 25
    out = []
    for i in range(700 * k):
        out.append(G.gen_case(rng, macros=False, mutated=(i % 3 == 0)))
    for i in range(500 * k):
        out.append(G.gen_case(rng, macros=True, mutated=(i % 4 == 0)))
    for i in range(600 * k):
        out.append(G.gen_limit_case(rng))
    for i in range(900 * k):
        out.append(G.gen_macro_case(rng))
    for i in range(500 * k):
        out.append(G.gen_sanitise_case(rng))
    for i in range(1500 * k):
        out.append(G.gen_rfc_case(rng))
    for i in range(300 * k):
        out.append(G.gen_ptr_case(rng))
    return out

# ---- known deviations from RFC 7208 (results differ from Spec/SpfRfc.v); each predicate looks at the zone of the case only
import re as _re

def _zone(case):
    g = G.parse_case(case)
    txts, zone = {}, g[8:]
    for z in zone:
        if z[:1] == b'T':
            name, _, rest = z[1:].partition(b'\0')
            recs = rest.split(b'\0')
            if rest.endswith(b'\0'): recs = recs[:-1]
            txts.setdefault(name, recs)
    return g, zone, txts

def classify(case, c_out):
    if not c_out.startswith('Q'):
        return None                       # a crash is never a known class
    try:
        g, zone, txts = _zone(case)
    except Exception:
        return None
    client = g[2]
    low = [r.lower() for v in txts.values() for r in v]
    # F-C11-11: redirect= to a name without SPF record gives fail, RFC 7208 6.1 says permerror
    for r in low:
        for m in _re.finditer(rb'(?:^| )redirect=([^ /]+)', r):
            if not any(x.startswith(b'v=spf1') for x in txts.get(m.group(1), [])):
                return 'redirect-no-record'
    # F-C11-2: ip4:/ip6: with a prefix length below 8 is a permerror
    if any(_re.search(rb'ip[46]:[^ /]*/0*[0-7]( |$)', r) for r in low):
        return 'ip-prefix-below-8'
    # F-C11-13: "ip6:::" (the unspecified address, 2 characters) is a permerror
    if any(_re.search(rb'ip6:::( |/|$)', r) for r in low):
        return 'ip6-unspecified'
    # F-C11-10: 10 or more MX hosts give fail (RFC: more than 10 give permerror, 10 are evaluated)
    for z in zone:
        if z[:1] == b'M':
            name, _, pl = z[1:].partition(b'\0')
            n = o = 0
            while o + 5 <= len(pl):
                c = pl[o + 4]; o += 5
                if c == 0 or o + 16 * c > len(pl): break
                n += 1; o += 16 * c
            if n >= 10:
                return 'mx-hosts-10'
    # F-C11-12: a DNS error of the PTR lookup ends the evaluation (temperror / permerror), RFC 7208 5.5 says no match
    if any(z[:1] == b'n' and z[1:17] == client for z in zone) and any(_re.search(rb'(^| )[-+?~]?ptr', r) for r in low):
        return 'ptr-dns-error'
    return None

def _obs(c_out):
    w = c_out.split()
    rc = next((x for x in w if x.startswith('R') and (x[1:].lstrip('-').isdigit())), None)
    nq = 0
    for x in w:
        if x == rc: break
        if x != 'Q': nq += 1
    return rc, nq, w

def nontrivial(case, c_out):
    rc, nq, w = _obs(c_out)
    return rc is not None and nq >= 2

def distribution(results):
    d = {}
    for r in results:
        rc, nq, w = _obs(r['c'])
        key = 'result_' + (rc[1:] if rc else r['c'].split()[0] if r['c'] else 'empty')
        d[key] = d.get(key, 0) + 1
        if rc:
            b = 'queries_0_1' if nq <= 1 else 'queries_2_5' if nq <= 5 else 'queries_6_10' if nq <= 10 else 'queries_11' if nq == 11 else 'queries_12plus'
            d[b] = d.get(b, 0) + 1
            if 'ENULL' not in w: d['spfexp_set'] = d.get('spfexp_set', 0) + 1
        if r['spec'] == 'pre': d['outside_precondition'] = d.get('outside_precondition', 0) + 1
        if r['spec'] in ('okrfc', 'okrfcp'): d['compared_with_rfc_reference_and_equal'] = d.get('compared_with_rfc_reference_and_equal', 0) + 1
        if r['spec'] == 'okrfcp': d['inside_the_class_of_C11_rfc_agreement_partial'] = d.get('inside_the_class_of_C11_rfc_agreement_partial', 0) + 1
        if r['spec'] == 'bad': d['known_deviation_from_rfc'] = d.get('known_deviation_from_rfc', 0) + 1
    return d

LEVEL_TEXT = ('Machine-checked Coq theorems over an executable model of check_host()/spflookup() (qsmtpd/spf.c with fixes/C11-*.diff), for EVERY resolver behaviour '
              '(all zones, cyclic include/redirect graphs, injected errors), every session and every macro expander: evaluation terminates; the result is one of the '
              'RFC 7208 results (or -1 only if a resolver call reported a local error); at most 10 DNS querying terms are evaluated and an 11th is refused with fail; '
              'spflookup(NULL) is unreachable; xmitstat.spfexp only ever holds bytes 32..127 (33..126 without ( ) \\ from record_bad_token) and the Received-SPF header '
              'built from it is a well formed folded 7-bit header field. Agreement with the RFC 7208 algorithm: refuted in general (C11_rfc_agreement_refuted, five witnesses) and PROVED (C11_rfc_agreement_partial) for every zone, client and domain in the decidable class in_class = the strict RFC reference evaluator gives a result (macro-free strictly valid records, no local/permanent resolver errors, none of the known deviations on the evaluated path): there the model returns exactly the RFC result, fail where the RFC limit of 10 DNS terms is exceeded. Outside the class (syntax errors, macros) agreement is tested only; macro expansion is covered by correspondence only.')
LEVEL_NOTE = ('Trusted: Coq kernel, translator regexes, extraction (ExtrOcamlBasic), harness with the resolver answered from the case, generator quality of the correspondence run. '
              'The theorem is about the fixed code; eight fixes are proposed (F-C11-1, 3..9). Partial with respect to the property text: "agrees with the RFC 7208 check_host()" is '
              'proved for the model on the class in_class (C11_rfc_agreement_partial) and tested on the C against the same reference; outside the class (records with syntax errors, macros, permanent resolver errors) tested only; deviations F-C11-2, -10, -11, -12, -13 and case-sensitive ptr are excluded from the class.')
TECHNIQUE = ('Coq: invariant (terms evaluated <= counter, <= limit, spfexp clean) carried through an open-recursion model (term loop structural on the record, recursion on fuel = limit + 2), '
             'byte-map lemmas for the two sanitisers, reflection over the translator-generated header pieces; model-vs-C differential run under ASan/UBSan with a zone-driven fake resolver; '
             'simulation proof between the model and an RFC 7208 reference evaluator over the record text (term by term, mechanism by mechanism, recursion by induction on the fuel with equal DNS term counters); boolean checker on C outputs (result set, clean bytes, lower bound on evaluated terms from the resolver calls, equality with an RFC 7208 reference evaluator on the strict macro-free fragment)')
DESIGN_REF = 'DESIGN.md section 5, C11'

"""C16 — control files and IP/domain lists mean what the administrator wrote
(lib/control.c, lib/match.c, qsmtpd/antispam.c:check_ipbl_file, lib/mmap.c)."""
import runlib as R

ID = 'C16'
COQ_TARGETS = ['Props/Properties_C16.vo']
PROPS_FILES = ['Props/Properties_C16.v']
THEOREMS = ['C16_finddomain', 'C16_fd_entries', 'C16_finddomain_property', 'C16_finddomain_orig_overread', 'C16_matchdomain',
            'C16_ip4_matchnet', 'C16_ip6_matchnet', 'C16_ipbl4', 'C16_ipbl6', 'C16_ipbl_bad_size', 'C16_ipbl_records',
            'C16_ipbl_orig_lazy', 'C16_loadlist', 'C16_lloadfile_raw', 'C16_lloadfile_mode1', 'C16_lloadfile_mode2', 'C16_lloadfile_mode3',
            'C16_loadoneliner', 'C16_compact_buffer', 'C16_loadlist_arr', 'C16_list_block_read', 'C16_line_entry_cases', 'C16_loadint', 'C16_loadint_orig_silent']
OPS = ('fd', 'ff', 'ad', 'a4', 'a6', 'b4', 'b6', 'bf', 'c0', 'c1', 'c2', 'c3', 'c4', 'c5', 'c6', 'c7')
ENGINES = [dict(name='control', c_sources=['control_h.c'], extract='Extract/Extract_control.v', driver='control_driver.ml',
                accepts=lambda c: c.split(' ', 1)[0] in OPS)]
RULE = ('cases = (a) domain lists over the alphabet {name characters, dot, blank, tab, #, backslash, LF, CR, NUL, 8-bit} with 0-8 lines, '
        'with/without final LF, runs of LF, comment lines, trailing/leading blanks, and query names derived from the entries (equal, case changed, '
        'label glued in front, label + dot in front, suffix without the dot, prefix, one byte changed, the comment line itself) or unrelated; the '
        'list is mapped so that its end touches a PROT_NONE page (op fd) or read through a real temp file with flock+mmap (op ff); name/entry '
        'pairs of the same shapes for matchdomain (op ad); (b) address/network/prefix triples for ip4_matchnet / ip6_matchnet with every prefix '
        '0..39 / 0..135 (the range above 32 / 128 is UB and only compared with the model\'s Crash), network = client with bits flipped at '
        'prefix-1, prefix, prefix+1; (c) binary IP lists (ops b4 b6 on a guard page, bf through lookupipbl on a real file) with 0-6 records, '
        'prefix bytes 0..255 biased to 7,8,9,31,32,33,127,128,129, sizes that are / are not multiples of the record size, an invalid record '
        'before / after a matching one; (d) text files for lloadfilefd modes 0-3, loadlistfd, loadonelinerfd (ops c0-c4, c6; real files) over '
        'words, trailing blanks, comment lines, comments after entries, escaped #, blank-then-comment, inner and leading blanks, NUL, CR, empty '
        'lines, with/without final LF; (e) numeric files (op c5): numerals around 2^32 and 2^64, leading zeros, comment/empty line first, two '
        'numbers, signs, CR/VT/FF, trailing garbage, only comments, NUL. non-trivial = the implementation answered match / malformed / error '
        'or returned at least one entry; distinct by case text')
TRUSTED_BASE = [
    'Coq 8.16.1 kernel (coqc; coqchk in thorough); vm_compute in the non-vacuity examples and the recorded witnesses of the unpatched code only',
    'axioms: none (Print Assumptions: Closed under the global context for every C16 theorem)',
    'translator tools/translators/control.py: regexes over lib/control.c, lib/match.c, qsmtpd/antispam.c produce the character constants, '
    'striptab modes, word size, prefix bounds and digit bounds in coq/Gen/GenControl.v and test the presence of the statements the models '
    'transcribe (bounded newline skip, validation loop before matching loop, single-line/ERANGE tests of loadintfd, ...)',
    'hand-written models coq/Model/FindDomain.v, MatchNet.v, LoadFile.v tied to the C by the correspondence run (differential testing, bounded by the generator); '
    'compact_buffer / data_array / the loadlistfd loops are modelled literally over byte arrays in Model/LoadListArr.v (pointer table kept beside the byte image as offsets); the functional LoadFile.v versions are proved equal',
    'sizeof(struct in_addr) = 4, sizeof(struct in6_addr) = 16, little-endian host: typed into the model, _Static_assert in the harness',
    'glibc memchr / strncasecmp / strcasecmp / strtoul / strlen in the C locale as modelled (ASCII case folding; strtoul on a digit-led string: all digits consumed, ERANGE above 2^64-1)',
    'extraction with ExtrOcamlBasic only; ocaml/glue.ml + ocaml/control_driver.ml hex parsing/printing (decimal printing of N by the driver)',
    'C harness harness/control_h.c: #include of the four C files; guard page placement; real temp files; gcc 12 -O1 ASan+UBSan vs. production build',
]
ASSUMPTIONS = [
    'the theorems are about the C with fixes/C16-finddomain-bound.diff, C16-ipbl-validate-first.diff and C16-loadint-strict.diff applied (the translator refuses the unpatched statements)',
    'the file content does not change between fstat/mmap/read and the end of the lookup (flock(LOCK_SH) is taken by the C)',
    'open/flock/fstat/mmap/read/malloc/realloc succeed; their error paths (ENOLCK, ENOMEM, EISDIR, short reads) are outside the model',
    'the query name is a C string (no NUL); for the reading "equals an entry or ends with a dot-led entry" the name does not itself start with a dot',
    'address bytes are octets (< 256); prefix argument of ip4_matchnet <= 32, of ip6_matchnet <= 128 (larger values are UB in the C; check_ipbl_file never passes them: proved)',
    'the check callback of loadlistfd is a pure function of the entry text (Section variable cf : bytes -> bool; NULL = fun _ => false)',
    'file sizes are nat in the model, size_t in the C: contents of 2^31 octets and more are outside what was run',
]


# ----------------------------------------------------------------------------- generators
NAMECH = b'abcdefghijklmnopqrstuvwxyzABCDEFGHIJKLMNOPQRSTUVWXYZ0123456789-'

def _label(rng):
    return bytes(rng.choice(NAMECH) for _ in range(rng.choice([1, 1, 2, 3, 3, 5, 8])))

def _name(rng):
    return b'.'.join(_label(rng) for _ in range(rng.choice([1, 2, 2, 3, 3, 4])))

def _swapcase(rng, s):
    return bytes((c ^ 0x20) if (65 <= (c & ~0x20) <= 90 and rng.random() < 0.5) else c for c in s)

def _fd_line(rng, pool):
    r = rng.random()
    if r < 0.45:
        e = _name(rng)
    elif r < 0.75:
        e = b'.' + _name(rng)
    elif r < 0.82:
        e = b'#' + _name(rng)
    elif r < 0.86:
        e = b''
    elif r < 0.90:
        e = bytes(rng.choice(b' \t') for _ in range(rng.randrange(1, 4)))
    elif r < 0.94:
        e = _name(rng) + b'#' + _label(rng)            # '#' inside a line is not a comment for finddomain
    elif r < 0.97:
        e = bytes(rng.choice(b' \t') for _ in range(rng.randrange(1, 3))) + _name(rng)      # leading blank
    else:
        e = bytes(rng.choice([0, 13, 46, 35, 92, 128, 255, 97, 65]) for _ in range(rng.randrange(1, 6)))
    if e and (e[:1] != b'#' or rng.random() < 0.5) and not e.isspace():
        pool.append(e)                                  # comment lines too: a query equal to one must not match
    if rng.random() < 0.3:
        e += bytes(rng.choice(b' \t') for _ in range(rng.randrange(1, 4)))
    return e

def _fd_case(rng):
    pool = []
    lines = [_fd_line(rng, pool) for _ in range(rng.choice([0, 1, 1, 2, 3, 3, 4, 6, 8]))]
    buf = b''
    for i, l in enumerate(lines):
        buf += l
        if i + 1 < len(lines) or rng.random() < 0.6:
            buf += b'\n' * rng.choice([1, 1, 1, 2, 3])
    if rng.random() < 0.1:
        buf = b'\n' * rng.randrange(1, 3) + buf
    if rng.random() < 0.03:
        buf = b'\n' * rng.randrange(0, 4)
    # query
    r = rng.random()
    if pool and r < 0.85:
        e = rng.choice(pool).rstrip(b' \t')
        k = rng.random()
        if k < 0.2: q = e
        elif k < 0.35: q = _swapcase(rng, e)
        elif k < 0.55: q = _label(rng) + e                        # label glued in front: matches dot-led entries only
        elif k < 0.65: q = _label(rng) + b'.' + e
        elif k < 0.72: q = e.lstrip(b'.')                          # suffix without the dot
        elif k < 0.78: q = e[:-1]
        elif k < 0.84: q = e + bytes([rng.choice(NAMECH)])
        elif k < 0.90 and len(e) > 1:
            i = rng.randrange(len(e)); q = e[:i] + bytes([e[i] ^ rng.choice([1, 0x20, 0x40, 0x80])]) + e[i + 1:]
        elif k < 0.95: q = e[1:]
        else: q = _swapcase(rng, _label(rng) + e)
    else:
        q = _name(rng)
    q = q.replace(b'\0', b'x')
    if not q:
        q = b'a'
    return buf, q

def _flip(rng, b, bit):
    """flip bit number `bit` (0 = most significant) of the byte string b"""
    if bit < 0 or bit >= 8 * len(b):
        return b
    b = bytearray(b)
    b[bit // 8] ^= 0x80 >> (bit % 8)
    return bytes(b)

def _addr(rng, n):
    k = rng.random()
    if k < 0.15: return bytes(rng.choice([0, 255]) for _ in range(n))
    if k < 0.3: return bytes(rng.choice([0, 1, 127, 128, 254, 255]) for _ in range(n))
    return bytes(rng.randrange(256) for _ in range(n))

def _net_for(rng, ip, bits, m):
    """network derived from ip: equal, or one bit flipped at m-1 / m / m+1 / random, or random"""
    k = rng.random()
    if k < 0.25: return ip
    if k < 0.45: return _flip(rng, ip, m - 1)
    if k < 0.65: return _flip(rng, ip, m)
    if k < 0.72: return _flip(rng, ip, m + 1)
    if k < 0.80: return _flip(rng, ip, rng.randrange(bits))
    if k < 0.90: return _flip(rng, _flip(rng, ip, rng.randrange(bits)), m + rng.randrange(0, 9))
    return _addr(rng, bits // 8)

def _ip16(rng, v4):
    if v4:
        return bytes(10) + b'\xff\xff' + _addr(rng, 4) if rng.random() < 0.8 else _addr(rng, 16)
    return _addr(rng, 16)

MASKS = [0, 1, 7, 8, 9, 15, 16, 17, 23, 24, 25, 31, 32, 33, 63, 64, 65, 95, 96, 97, 127, 128, 129, 160, 255]

def _ipbl_case(rng, v4):
    iplen, bits = (4, 32) if v4 else (16, 128)
    ip = _ip16(rng, v4)
    cli = ip[12:] if v4 else ip
    recs = []
    for _ in range(rng.choice([0, 1, 1, 2, 3, 3, 4, 6])):
        k = rng.random()
        if k < 0.55: m = rng.randrange(8, bits + 1)
        elif k < 0.8: m = rng.choice([8, 9, bits - 1, bits, 16, 24])
        elif k < 0.92: m = rng.choice([0, 1, 7, bits + 1, 129, 200, 255, 33])
        else: m = rng.randrange(256)
        recs.append(_net_for(rng, cli, bits, min(m, bits)) + bytes([m]))
    buf = b''.join(recs)
    k = rng.random()
    if k < 0.08: buf = buf[:-rng.randrange(1, iplen + 1)] if buf else bytes(rng.randrange(1, iplen + 1))
    elif k < 0.14: buf += bytes(rng.randrange(256) for _ in range(rng.randrange(1, iplen + 1)))
    return ip, buf

TEXTCH = b'abcxyzABC0123456789.-_@:/'

def _txt_line(rng):
    r = rng.random()
    w = bytes(rng.choice(TEXTCH) for _ in range(rng.choice([0, 1, 1, 2, 3, 5, 9])))
    bl = lambda: bytes(rng.choice(b' \t') for _ in range(rng.randrange(1, 4)))
    if r < 0.30: return w
    if r < 0.40: return w + bl()                                  # trailing blanks
    if r < 0.48: return b'#' + w + (bl() + w if rng.random() < 0.5 else b'')         # comment line (blanks inside are fine)
    if r < 0.56: return w + b'#' + w                               # comment after an entry
    if r < 0.62: return w + b'\\#' + w                            # escaped '#': stays in the entry, with the backslash
    if r < 0.66: return w + b'\\\\#' + w
    if r < 0.72: return w + bl() + b'#' + w                        # blank then comment: rejected
    if r < 0.78: return w + bl() + w                               # inner blank: rejected (unless a word is empty)
    if r < 0.82: return bl() + w                                   # leading blank
    if r < 0.86: return bl()
    if r < 0.90: return w + b'\0' + w                              # NUL ends a line too
    if r < 0.94: return w + bytes([rng.choice([13, 11, 12, 92, 35, 128, 255])]) + w
    return bytes(rng.choice(b'# \t\\a\0') for _ in range(rng.randrange(1, 7)))

def _txt_file(rng):
    if rng.random() < 0.04:
        return b''
    lines = [_txt_line(rng) for _ in range(rng.choice([1, 1, 2, 2, 3, 4, 6]))]
    buf = b''
    for i, l in enumerate(lines):
        buf += l
        if i + 1 < len(lines) or rng.random() < 0.7:
            buf += b'\n' * rng.choice([1, 1, 1, 2])
    return buf

def _int_file(rng):
    r = rng.random()
    num = str(rng.choice([0, 1, 7, 42, 320, 32768, 4294967295, 4294967296, 18446744073709551615, 18446744073709551616,
                          18446744073709551614, 99999999999999999999999, rng.randrange(10 ** rng.randrange(1, 22))])).encode()
    if rng.random() < 0.1: num = b'0' * rng.randrange(1, 4) + num
    bl = lambda: bytes(rng.choice(b' \t') for _ in range(rng.randrange(1, 3)))
    if r < 0.22: return num + rng.choice([b'', b'\n', b'\n\n'])
    if r < 0.32: return num + bl() + rng.choice([b'', b'\n'])
    if r < 0.42: return b'#c' + bl() + b'x\n' + num + b'\n'            # comment line first (the unpatched code read 0)
    if r < 0.48: return b'\n' + num + b'\n'                            # empty line first (the unpatched code read 0)
    if r < 0.54: return num + b'\n#tail\n\n'
    if r < 0.60: return num + b'\n' + num + b'\n'                       # two lines
    if r < 0.66: return rng.choice([b'-', b'+']) + num + b'\n'           # sign
    if r < 0.72: return num + rng.choice([b'x', b'.5', b'e3', b'#c', b'\\#']) + b'\n'
    if r < 0.76: return bl() + num + b'\n'
    if r < 0.80: return rng.choice([b'\r', b'\x0b', b'\x0c']) + num + b'\n'
    if r < 0.84: return num + b'\r\n'
    if r < 0.88: return rng.choice([b'', b'\n', b'#only\n', b' \n\t\n', b'\0'])
    if r < 0.92: return num + b'\0' + num
    return _txt_file(rng)

def gen_cases(engine, rng, tier):
    mult = 1 if tier == 'quick' else 20
    out = []
    for _ in range(900 * mult):
        buf, q = _fd_case(rng)
        out.append('%s %s %s' % ('ff' if rng.random() < 0.15 else 'fd', R.hx(buf), R.hx(q)))
    for _ in range(250 * mult):
        pool = []
        _fd_line(rng, pool)
        e = (rng.choice(pool) if pool else _name(rng)).replace(b'\0', b'x') or b'a'
        k = rng.random()
        if k < 0.2: q = e
        elif k < 0.35: q = _swapcase(rng, e)
        elif k < 0.5: q = _label(rng) + e
        elif k < 0.6: q = _label(rng) + b'.' + e
        elif k < 0.7: q = e.lstrip(b'.')
        elif k < 0.8: q = e[1:]
        elif k < 0.9: q = e[:-1] + bytes([rng.choice(NAMECH)])
        else: q = _name(rng)
        out.append('ad %s %s' % (R.hx(q), R.hx(e)))
    for m in list(range(0, 40)) * (2 * mult) + [rng.choice(MASKS) for _ in range(60 * mult)]:
        ip = _ip16(rng, True)
        out.append('a4 %s %s %02x' % (R.hx(ip), R.hx(_net_for(rng, ip[12:], 32, min(m, 32))), m))
    for m in list(range(0, 136)) * (2 * mult) + [rng.choice(MASKS) for _ in range(120 * mult)]:
        ip = _ip16(rng, False)
        out.append('a6 %s %s %02x' % (R.hx(ip), R.hx(_net_for(rng, ip, 128, min(m, 128))), m))
    for _ in range(350 * mult):
        v4 = rng.random() < 0.5
        ip, buf = _ipbl_case(rng, v4)
        if rng.random() < 0.15:
            out.append('bf %s %s %s' % (R.hx(ip), '01' if v4 else '00', R.hx(buf)))
        else:
            out.append('%s %s %s' % ('b4' if v4 else 'b6', R.hx(ip), R.hx(buf)))
    for _ in range(700 * mult):
        out.append('%s %s' % (rng.choice(['c4', 'c4', 'c4', 'c3', 'c3', 'c2', 'c1', 'c0', 'c6']), R.hx(_txt_file(rng))))
    for _ in range(300 * mult):
        out.append('c5 %s' % R.hx(_int_file(rng)))
    for _ in range(400 * mult):
        c = _txt_file(rng)
        k = rng.random()
        if k < 0.2: rej = b''
        else:
            firsts = [l[:1] for l in c.replace(b'\0', b'\n').split(b'\n') if l[:1] and l[:1] not in b' \t#']
            rej = b''.join(rng.choice(firsts) if firsts and rng.random() < 0.6 else bytes([rng.choice([1, 2, 3, 5, 9, 97, 65, 48])])
                           for _ in range(rng.choice([1, 1, 2, 3])))
        out.append('c7 %s %s' % (R.hx(c), R.hx(rej)))
    return out


def nontrivial(case, c_out):
    op = case.split(' ', 1)[0]
    if op in ('fd', 'ff'):
        return c_out == 'R 1' or R.unhx(case.split(' ')[1]).count(b'\n') >= 2
    if op == 'ad':
        return c_out == 'R 1'
    if op in ('a4', 'a6'):
        return c_out in ('R 0', 'R 1') and case.split(' ')[3] != '00'
    if op in ('b4', 'b6', 'bf'):
        return c_out in ('R 1', 'R -1') or len(R.unhx(case.split(' ')[-1])) >= 10
    return c_out.startswith('R') or c_out.startswith('E')


def distribution(results):
    d = {}
    for r in results:
        k = r['case'].split(' ', 1)[0] + ':' + (r['c'] if len(r['c']) < 12 else r['c'].split(' ')[0])
        d[k] = d.get(k, 0) + 1
    return d


LEVEL_TEXT = ('Machine-checked Coq theorems over executable models of finddomain, matchdomain, ip4_matchnet, ip6_matchnet, check_ipbl_file, '
              'lloadfilefd(mode 3)+loadlistfd and loadintfd, each for all inputs: the domain lookup answers 1 exactly when an entry (non-comment '
              'line without trailing blanks) equals the name case-insensitively or is a dot-led proper suffix of it, and never reads outside the '
              'mapping; the matchers answer 1 exactly when the big-endian values agree after dropping the low (bits - prefix) bits, for every '
              'prefix; the binary list check answers -1 iff the size or any prefix length is invalid (wherever the record stands), else 1 iff the '
              'client lies in a listed network; loadlist returns exactly the non-empty entries of the lines (comment cut at an unescaped #, '
              'trailing blanks stripped) or EINVAL iff a blank is followed by a non-blank; loadint returns the default / the single decimal '
              'numeral <= 2^64-1 / EINVAL otherwise. Constants are regenerated from the C on every run; the models are tied to the C by a '
              'differential run under ASan/UBSan with lists mapped up to a PROT_NONE page and real files for the loaders.')
LEVEL_NOTE = ('Trusted: Coq kernel, translator regexes, extraction, harness, generator quality of the correspondence run, libc functions as modelled. '
              'The theorems are about the C with the three proposed fixes applied; the unpatched behaviour (over-read of list[size], lazy prefix '
              'validation, numeric files read as 0 / first line only / sign / overflow accepted) is recorded as Coq witnesses on models of the '
              'unpatched code and as corpus cases. lloadfilefd modes 0-2, loadonelinerfd, the wrappers finddomainfd/lookupipbl and the check '
              'callback of loadlistfd are covered by correspondence only or not at all (callback).')
TECHNIQUE = ('Coq proofs by induction over the line / record structure with fuel-irrelevance lemmas for the scanning loops; bit-mask arithmetic via '
             'N.testbit and div/pow2 lemmas; translator-regenerated constants; model-vs-C differential run with guard pages and real files')
DESIGN_REF = 'DESIGN.md section 5, C16; section 7 F-C16-1, F-C16-2'

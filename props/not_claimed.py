# reasons for properties without a registered check (read by tools/mkmanifest.py)
NOT_CLAIMED_REASON = {
    'C17': 'check not finished yet: engine tlssession (whole-program Qsmtpd with a real TLS client, OpenSSL as oracle) is under construction; the technique applies (state/buffer logic of STARTTLS), see DESIGN.md section 6',
}

# reasons for properties without a registered check (read by tools/mkmanifest.py)
NOT_CLAIMED_REASON = {
}

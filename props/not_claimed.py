# reasons for properties without a registered check (read by tools/mkmanifest.py)
NOT_CLAIMED_REASON = {
    'C17': 'check not finished yet: engine tlssession (whole-program Qsmtpd with a real TLS client, OpenSSL as oracle) is under construction; the technique applies (state/buffer logic of STARTTLS), see DESIGN.md section 6',
    'C18': 'check not finished yet: engine tlssw (real starttlsr.c/conn_mx.c with scripted OpenSSL stand-ins) is built and proved, its fixes are being reworked so that the unedited test suite passes; see DESIGN.md section 6',
}

"""Case generators shared by C06 and C07 (engine `qrdata`).

case line:  <op> <ext> <message> <heloname>       (hex fields; op = 06 | 07 selects the spec checker, ext = extension mask)
All randomness comes from the rng handed in by ./check (random.Random(VERIF_SEED)).
The streams are aimed at the case splits of the proofs and of the code:
  * line lengths 72/73/74/75/76 (soft break), 997..1001 (998 limit), staging buffers 1200/1205/1269/1280, wrap_line 800/970/1048
  * line ends CR / LF / CRLF / none, also exactly at a staging-buffer boundary
  * last byte in {blank, tab, CR, LF, '.', '=', 0x80, NUL}
  * leading dots (runs of 1..4), also right after a soft line break
  * header shapes: none, no separator, Content-Transfer-Encoding present/absent, long header lines with/without blanks
  * multipart with present / missing / duplicated / terminal boundaries, nested parts
  * well-formed multipart aimed at send_qp's per-part decision matrix: {over-long line in the part's own header, over-long
    body line, 8 bit in the part's body / header, nothing} x {8BITMIME or not} x {first / middle / last part, nested}
  * well-formed multipart aimed at the hand-over between the writers (send_plain, wrap_header, recode_qp, literal CRLF and
    boundary writes): parts / preamble / epilogue that begin and end with dot lines, x the per-part decision
"""
import runlib as R

EOLS = [b'\r\n', b'\r\n', b'\r\n', b'\n', b'\r']
TAILS = [b'', b' ', b'\t', b'\r', b'\n', b'.', b'=', b'\x80', b'\x00', b'\r\n', b'\r\n.', b'.\r', b' \r', b'\t\n', b'=\r\n', b'a']
LENS_SOFT = [0, 1, 2, 70, 71, 72, 73, 74, 75, 76, 77, 78, 145, 146, 147, 148]
LENS_LONG = [996, 997, 998, 999, 1000, 1001, 1002]
LENS_BUF = [1190, 1195, 1198, 1199, 1200, 1201, 1202, 1203, 1204, 1205, 1206, 1264, 1268, 1269, 1270, 1271, 1279, 1280, 1281, 2398, 2400, 2402]
LENS_WRAP = [48, 49, 50, 51, 799, 800, 801, 802, 968, 969, 970, 971, 1040, 1044, 1046, 1048, 1770, 1771, 1940]
HELOS = [b'helo.example.net', b'a', b'mx1.some-quite-long-host-name.example.org']


def _txt(rng, n, kind):
    """n bytes without CR/LF"""
    if kind == 'a':
        return bytes(rng.choice(b'abcdefghijklmnopqrstuvwxyz') for _ in range(n))
    if kind == 'words':
        b = bytearray(rng.choice(b'abcdefghijklmnopqrstuvwxyz0123456789') for _ in range(n))
        k = rng.choice([3, 7, 20, 60, 100, 400, 790, 810, 960])
        for i in range(rng.randrange(k), n, k):
            b[i] = 32
        return bytes(b)
    if kind == 'blanks':
        return bytes(rng.choice(b'ab \t') for _ in range(n))
    if kind == 'dots':
        return bytes(rng.choice(b'..a= ') for _ in range(n))
    if kind == '8bit':
        b = bytearray(rng.choice(b'abcdefghij klm') for _ in range(n))
        for _ in range(max(1, n // 20)):
            if n:
                b[rng.randrange(n)] = rng.choice([0x80, 0xe4, 0xff, 0xc3, 0xa4])
        return bytes(b)
    if kind == 'ctl':
        return bytes(rng.choice([0, 1, 9, 11, 12, 27, 31, 32, 61, 46, 97, 126, 127, 128, 255]) for _ in range(n))
    # 'any': every byte but CR/LF
    return bytes(rng.choice([rng.randrange(256), rng.randrange(32, 127), 0x61]) for _ in range(n)).replace(b'\r', b'x').replace(b'\n', b'y')


def _line(rng, kinds, lens=None):
    r = rng.random()
    if lens is not None and r < 0.6:
        n = rng.choice(lens)
    elif r < 0.8:
        n = rng.randrange(0, 12)
    else:
        n = rng.randrange(0, 90)
    t = _txt(rng, n, rng.choice(kinds))
    if rng.random() < 0.15:
        t = b'.' * rng.randrange(1, 4) + t
    return t


def _body(rng, kinds, nlines, lens=None, eols=EOLS):
    out = b''
    for _ in range(nlines):
        out += _line(rng, kinds, lens) + rng.choice(eols)
    return out


HEADERS7 = [b'Subject: test', b'From: <a@example.org>', b'To: <b@example.net>', b'MIME-Version: 1.0', b'X-Spam: no',
            b'Content-Type: text/plain; charset=iso-8859-1', b'Content-Type: text/plain', b'Received: from a by b\r\n\twith c',
            b'Comment: c', b'Cc: <c@example.org>', b'content-disposition: inline', b'C', b'Content-Type:', b'Content-Typ: x',
            b'CONTENT-TYPE: text/html; charset="utf-8"', b'Content-Type: (comment) text/plain']
CTES = [b'Content-Transfer-Encoding: 8bit', b'Content-Transfer-Encoding: 7bit', b'content-transfer-encoding: binary',
        b'Content-Transfer-Encoding: 8bit\r\n\t(folded)', b'CONTENT-TRANSFER-ENCODING:8bit']


HEADERS_NOCT = [h for h in HEADERS7 if not h.lower().startswith(b'content-type:')]


def _header(rng, cte=None, longline=None, extra=(), pool=None):
    pool = pool or HEADERS7
    hs = [rng.choice(pool) for _ in range(rng.randrange(0, 4))] + list(extra)
    if cte is None:
        cte = rng.random() < 0.4
    if cte:
        hs.append(rng.choice(CTES))
    if longline:
        hs.append(longline)
    rng.shuffle(hs)
    eol = rng.choice(EOLS)
    if rng.random() < 0.7:
        return b''.join(h + eol for h in hs) + eol      # one line-end style
    return b''.join(h + rng.choice(EOLS) for h in hs) + rng.choice(EOLS)


def _long_header_line(rng):
    n = rng.choice(LENS_LONG + LENS_WRAP + LENS_BUF + [1999, 2000, 2800, 2910])
    kind = rng.choice(['a', 'words', 'words', 'words', 'blanks'])
    t = bytearray(b'X-Long: ' + _txt(rng, max(0, n - 8), kind))
    for pos in rng.sample([49, 50, 51, 799, 800, 801, 969, 970, 1599, 1600, 1601, 1769, 1770], 3):
        if pos < len(t) and rng.random() < 0.5:
            t[pos] = 32
    if rng.random() < 0.2:
        for pos in (801, 971, 1602, 1772):
            if pos < len(t):
                t[pos] = 46           # a dot right after a folding point
    return bytes(t)


BOUNDARIES = [b'x', b'=_bnd_1', b'----=_NextPart_000', b'a' * 70, b'b' * 69, b'q.r:s+t']


BAD_BOUNDARIES = [(b'', True), (b'a' * 71, False), (b'a' * 71, True), (b'ab ', True), (b'a{b', False), (b'a b', True), (b'a\x80', False),
                  (b'', False), (b"'()_=?+,-./:", True)]


def _multipart(rng, depth=0):
    b = rng.choice(BOUNDARIES)
    quoted = rng.random() < 0.5
    if any(ch in b'()<>@,;:\\"/[]?=' for ch in b) and rng.random() < 0.9:
        quoted = True              # RFC 2045 token rules: such a boundary must be quoted (unquoted: Content-Type syntax error)
    if rng.random() < 0.08:        # boundary definitions Qremote refuses (empty, too long, trailing blank, bad character) or barely accepts
        b, quoted = rng.choice(BAD_BOUNDARIES)
    ct = b'Content-Type: multipart/' + rng.choice([b'mixed', b'alternative', b'related']) + b';' + rng.choice([b' ', b'\r\n\t', b''])
    ct += b'boundary=' + (b'"' + b + b'"' if quoted else b)
    if rng.random() < 0.2:
        ct += b'; x=y'
    eol = rng.choice([b'\r\n', b'\r\n', b'\n', b'\r'])
    hdr = _header(rng, cte=rng.random() < 0.2, extra=[ct], pool=HEADERS_NOCT if rng.random() < 0.85 else HEADERS7)
    kinds = rng.choice([['a'], ['a', '8bit'], ['a', 'dots'], ['8bit', 'blanks', 'dots']])
    pre = _body(rng, ['a'] if rng.random() < 0.8 else kinds, rng.randrange(0, 3), eols=[eol])
    out = hdr + pre
    shape = rng.choice(['ok', 'ok', 'ok', 'ok', 'ok', 'ok', 'ok', 'noend', 'nobound', 'endfirst', 'dup', 'trail', 'tpad', 'tpad'])
    nparts = rng.randrange(1, 4)
    if shape == 'nobound':
        return out + _body(rng, kinds, 3, eols=[eol])
    if shape == 'endfirst':
        return out + eol + b'--' + b + b'--' + eol + _body(rng, kinds, 2, eols=[eol])
    for i in range(nparts):
        out += (eol if (i or pre == b'' or rng.random() < 0.7) else b'') + b'--' + b
        if shape == 'tpad' and rng.random() < 0.6:
            out += rng.choice([b' ', b'\t ', b'  '])
        out += eol
        if depth < 1 and rng.random() < 0.15:
            out += _multipart(rng, depth + 1)
        else:
            lens = rng.choice([None, LENS_SOFT, LENS_LONG])
            out += _header(rng, extra=[rng.choice(HEADERS7)]) + _body(rng, kinds, rng.randrange(0, 4), lens, eols=[eol])
            if rng.random() < 0.3:
                out += _line(rng, kinds) + rng.choice([b'', b' ', b'\r'])        # part without final line end
        if shape == 'dup' and rng.random() < 0.5:
            out += eol + b'--' + b
    if shape != 'noend':
        out += eol + b'--' + b + b'--'
        if shape == 'trail':
            out += eol + _body(rng, kinds, 2, eols=[eol])
        elif rng.random() < 0.8:
            out += eol
        if rng.random() < 0.1:
            out += rng.choice(TAILS)
    elif rng.random() < 0.3:
        out += eol + b'--' + b            # ends directly behind a boundary
    return out


PART_DEFECTS = ['longhdr', 'longhdr', 'longhdr', 'longbody', '8bitbody', '8bithdr', 'none', 'longhdr+8bitbody', 'longhdr+longbody']


def _mpart(rng, defect, eol):
    """one MIME part (header, empty line, body) with exactly the named defects"""
    hdr = [rng.choice([b'Content-Type: text/plain', b'Content-Type: text/plain; charset=iso-8859-1', b'Content-Disposition: inline'])]
    if rng.random() < 0.4:
        hdr.append(rng.choice([b'X-Part: 1', b'Content-Transfer-Encoding: 8bit', b'Content-Description: a part']))
    if 'longhdr' in defect:
        n = rng.choice([999, 1000, 1001, 1040, 1500, 1771, 2100])
        kind = rng.choice(['words', 'words', 'words', 'a'])
        t = bytearray(b'X-Long: ' + _txt(rng, n - 8, kind))
        if kind == 'a' and rng.random() < 0.5:
            t[rng.choice([40, 60, 799, 801, 969])] = 32
        hdr.insert(rng.randrange(len(hdr) + 1), bytes(t))
    if '8bithdr' in defect:
        hdr.append(b'X-Bad: caf\xe9')
    body = [_txt(rng, rng.randrange(0, 60), 'a') for _ in range(rng.randrange(0, 3))]
    if 'longbody' in defect:
        body.insert(rng.randrange(len(body) + 1), _txt(rng, rng.choice([999, 1000, 1300]), rng.choice(['a', 'words'])))
    if '8bitbody' in defect:
        body.insert(rng.randrange(len(body) + 1), _txt(rng, rng.randrange(1, 80), '8bit'))
    if rng.random() < 0.15:
        body.append(b'.' + _txt(rng, 5, 'a'))
    return eol.join(hdr) + eol + eol + b''.join(l + eol for l in body)


def _part_matrix(rng):
    """well-formed multipart aimed at send_qp's per-part decision (nr & nr_match):
    {over-long line in the part's own header, over-long body line, 8 bit in body / header, nothing} x position of the
    part (first / middle / last) x nesting; everything else in the message is clean 7-bit text with short lines"""
    eol = rng.choice([b'\r\n', b'\r\n', b'\r\n', b'\n', b'\r'])
    b = rng.choice([b'x', b'=_bnd_1', b'part-matrix.0', b'b' * 69])
    quoted = b.find(b'=') >= 0 or rng.random() < 0.5
    nparts = rng.randrange(1, 5)
    where = rng.randrange(nparts)
    defect = rng.choice(PART_DEFECTS)
    parts = []
    for i in range(nparts):
        d = defect if i == where else ('none' if rng.random() < 0.85 else rng.choice(PART_DEFECTS))
        if i == where and rng.random() < 0.2:
            # the part is itself a multipart with the defect in one of its parts
            ib = rng.choice([b'inner', b'in.2'])
            inner = [_mpart(rng, d if k == 0 else 'none', eol) for k in range(rng.randrange(1, 3))]
            rng.shuffle(inner)
            p = b'Content-Type: multipart/alternative; boundary="' + ib + b'"' + eol + eol
            p += b''.join(eol + b'--' + ib + eol + x for x in inner) + eol + b'--' + ib + b'--' + eol
            parts.append(p)
        else:
            parts.append(_mpart(rng, d, eol))
    hdr = [b'Subject: parts', b'MIME-Version: 1.0']
    hdr.insert(rng.randrange(3), b'Content-Type: multipart/mixed; boundary=' + (b'"' + b + b'"' if quoted else b))
    m = eol.join(hdr) + eol + eol
    if rng.random() < 0.5:
        m += b'This is a MIME message.' + eol
    for x in parts:
        m += eol + b'--' + b + eol + x
    m += eol + b'--' + b + b'--' + eol
    if rng.random() < 0.2:
        m += b'epilogue' + eol
    return m


DOT_LINES = [b'.', b'.', b'.', b'..', b'...', b'.a', b'. ', b'.\t', b'.=', b'.--']


def _dot_parts(rng):
    """well-formed multipart whose parts (first / middle / last), preamble and epilogue begin and end with lines that are a
    dot or start with one, across the per-part decision send_plain / send_qp: dots directly behind a boundary line (part
    without header lines), as the first body line behind an empty or a real part header, and as the last line in front of
    the next boundary.  One part (or the preamble / epilogue) carries the defect that sends the message through send_qp;
    the pieces are handed from one writer to the next (send_plain, wrap_header, recode_qp, the literal CRLF / boundary
    writes) at exactly these places."""
    eol = rng.choice([b'\r\n', b'\r\n', b'\r\n', b'\r\n', b'\n', b'\r'])
    b = rng.choice([b'b0', b'x', b'=_dots', b'd' * 69])
    quoted = b.find(b'=') >= 0 or rng.random() < 0.5
    nparts = rng.randrange(1, 4)
    where = rng.randrange(-1, nparts + 1)          # -1: preamble, nparts: epilogue (or no defect at all)
    defect = rng.choice(['8bit', '8bit', 'long', 'longhdr'])

    def bad_line():
        if defect == '8bit':
            return _txt(rng, rng.randrange(1, 40), '8bit')
        return _txt(rng, rng.choice([999, 1000, 1300]), rng.choice(['a', 'words']))

    def dots(n):
        return [rng.choice(DOT_LINES) for _ in range(n)]

    parts = []
    for i in range(nparts):
        shape = rng.choice(['bare', 'bare', 'emptyhdr', 'hdr', 'dothdr'])
        lines = []
        if shape == 'bare':          # no header lines, no empty line: the dot line is directly behind the boundary line
            lines += dots(rng.randrange(1, 3))
            if rng.random() < 0.6:
                lines += [b''] + dots(rng.randrange(0, 2)) + [_txt(rng, rng.randrange(0, 30), 'a')]
        elif shape == 'emptyhdr':    # empty header, the body starts with the dot line
            lines += [b''] + dots(rng.randrange(1, 3)) + [_txt(rng, rng.randrange(0, 30), 'a')]
        elif shape == 'dothdr':      # a header whose first line starts with a dot
            lines += [rng.choice([b'.X-Dot: 1', b'.: x']), b'Content-Type: text/plain', b''] + dots(rng.randrange(0, 2))
        else:
            lines += [rng.choice([b'Content-Type: text/plain', b'Content-Type: text/plain; charset=iso-8859-1', b'X-Part: p'])]
            if i == where and defect == 'longhdr':
                lines.append(b'X-Long: ' + _txt(rng, rng.choice([995, 1040, 1771]), 'words'))
            lines += [b''] + dots(rng.randrange(1, 3)) + [_txt(rng, rng.randrange(0, 30), 'a')]
        if i == where and not (defect == 'longhdr' and shape == 'hdr'):
            lines.insert(rng.randrange(len(lines) + 1) if b'' not in lines else rng.randrange(lines.index(b'') + 1, len(lines) + 1), bad_line())
        if rng.random() < 0.6:
            lines += dots(1)           # the last line in front of the next boundary
        parts.append(b''.join(l + eol for l in lines))
    hdr = [b'Subject: dots', b'MIME-Version: 1.0']
    hdr.insert(rng.randrange(3), b'Content-Type: multipart/mixed; boundary=' + (b'"' + b + b'"' if quoted else b))
    m = eol.join(hdr) + eol + eol
    pre = rng.random()
    if pre < 0.3:
        m += b''.join(l + eol for l in dots(rng.randrange(1, 3)))
    elif pre < 0.5:
        m += b'This is a MIME message.' + eol + b'.' + eol
    if where == -1:
        m += bad_line() + eol
    bare_hdr = pre >= 0.5 and where != -1     # nothing behind the header's empty line yet
    for k, x in enumerate(parts):
        # the line end in front of a delimiter belongs to the delimiter; for the first one it may be the header's empty line
        m += (b'' if k == 0 and bare_hdr and rng.random() < 0.6 else eol) + b'--' + b + eol + x
    last = rng.random()
    if last < 0.8:
        m += eol + b'--' + b + b'--' + eol
        if rng.random() < 0.4:
            m += b''.join(l + eol for l in dots(rng.randrange(1, 3)))
        if where == nparts and rng.random() < 0.7:
            m += bad_line() + eol
    elif where == nparts:
        m += bad_line()
    return m


def gen_message(rng):
    s = rng.random()
    if 0.70 <= s < 0.79:
        return _part_matrix(rng)
    if 0.63 <= s < 0.70:
        return _dot_parts(rng)
    # the other streams share the rest of the unit interval in their old proportions
    s = s / 0.63 * 0.80 if s < 0.63 else (0.80 + (s - 0.79) / 0.21 * 0.20)
    if s < 0.10:      # tiny, exhaustive-ish alphabet: every interaction of CR LF dot blank
        n = rng.randrange(0, 9)
        return bytes(rng.choice(b'\r\n. a=\t\x80') for _ in range(n))
    if s < 0.30:      # plain path: 7 bit, short lines, mixed line ends, dots, length near the staging buffer
        kinds = rng.choice([['a'], ['a', 'dots'], ['words', 'dots', 'blanks']])
        m = b''
        target = rng.choice(LENS_BUF + [0, 5, 100, 3000])
        while len(m) < target:
            m += _line(rng, kinds, [0, 1, 2, 3, 50, 997, 998]) + rng.choice(EOLS)
        cut = rng.choice(LENS_BUF + [len(m)])
        if rng.random() < 0.7 and cut <= len(m):
            m = m[:cut]
        return m + rng.choice(TAILS)
    if s < 0.40:      # one line around the 998 limit, with/without header, terminated or not
        n = rng.choice(LENS_LONG)
        t = _txt(rng, n, rng.choice(['a', 'words']))
        if rng.random() < 0.3:
            t = b'.' + t[1:] if rng.random() < 0.5 else b'.' + t
        pre = rng.choice([b'', b'Subject: x\r\n\r\n', b'Subject: x\r\n', b'\r\n', b'a\n\n'])
        if rng.random() < 0.4:     # an 8bit octet in an earlier line: need_recode()'s shortcut for the rest of the message
            pre += rng.choice([b'\xe4\r\n', b'caf\xc3\xa9\n', b'\xff\r\n\r\n', b'x\r\n\x80y\r\n'])
        return pre + t + rng.choice([b'', b'', b'\r\n', b'\n', b'\r', b'\r\nnext'])
    if s < 0.65:      # header + body that needs quoted-printable
        kinds = rng.choice([['8bit'], ['8bit', 'dots', 'blanks'], ['ctl'], ['a', 'words'], ['any'], ['blanks', 'dots']])
        lens = rng.choice([LENS_SOFT, LENS_SOFT, LENS_LONG, LENS_BUF, None])
        hdr = _header(rng) if rng.random() < 0.85 else b''
        body = _body(rng, kinds, rng.randrange(0, 6), lens)
        if rng.random() < 0.5:
            body += _line(rng, kinds, lens)
        if rng.random() < 0.3:     # make sure it is recoded whatever the kinds gave
            body += b'\xe4'
        return hdr + body + rng.choice(TAILS)
    if s < 0.80:      # long header lines (folding)
        hdr = _header(rng, longline=_long_header_line(rng))
        kinds = rng.choice([['a'], ['8bit'], ['a', 'dots']])
        return hdr + _body(rng, kinds, rng.randrange(0, 3), rng.choice([None, LENS_SOFT])) + rng.choice(TAILS)
    if s < 0.97:
        return _multipart(rng)
    # raw random bytes
    n = rng.choice([1, 2, 3, 10, 100, 1300])
    return bytes(rng.randrange(256) for _ in range(n))


def gen_cases(op, rng, tier):
    n = 2000 if tier == 'quick' else 30000
    out = []
    for _ in range(n):
        m = gen_message(rng)
        ext = rng.choice([0, 8, 0, 8, 0x7f, 0x77])
        out.append('%s %02x %s %s' % (op, ext, R.hx(m), R.hx(rng.choice(HELOS))))
    return out


# ------------------------------------------------------------------ shared evidence helpers
RULE = ('cases = (extension mask, message bytes, HELO name) for the sequence need_recode(); send_data() of qremote.c; messages from nine '
        'streams: tiny words over {CR, LF, ".", blank, tab, "=", "a", 0x80}; 7-bit text with mixed CR/LF/CRLF ends and sizes around the '
        '1200/1205/1269/1280-octet staging buffers; single lines of 996..1002 octets with/without dot and line end, also behind a line with an 8-bit octet; header+body that needs '
        'quoted-printable with lines around the 72..76 soft-break columns and every last byte in {blank, tab, CR, LF, ".", "=", 0x80, NUL}; '
        'long header lines (fold points 50/800/970, with and without blanks); multipart with present / missing / duplicated / terminal '
        'boundaries and nested parts; well-formed multipart with exactly one defective part (over-long line in its own header / in its body, '
        '8 bit in its body / header, none) at every position and nested; well-formed multipart whose parts, preamble and epilogue begin / end with '
        'dot lines (directly behind a boundary line, behind an empty or real part header, in front of the next boundary) with the defect that forces '
        'send_qp in any part, the preamble or the epilogue; raw random bytes. non-trivial = the C completed the transfer and the message contains a bare CR or LF, '
        'a leading dot, an 8-bit octet or a line above 72 octets; distinct by case text')
TRUSTED_BASE = [
    'Coq 8.16.1 kernel (coqc; coqchk in thorough); vm_compute in the non-vacuity examples only; no native_compute',
    'axioms: none (Print Assumptions: Closed under the global context)',
    'translator tools/translators/qrdata.py: regexes over qremote/qrdata.c, qremote/mime.c, include/qremote/qrdata.h, greeting.h produce coq/Gen/GenQrdata.v (buffer sizes, thresholds, flag values, literal texts)',
    'hand-written literal models coq/Model/QrData.v, coq/Model/Mime.v tied to the C by the correspondence run (differential testing incl. the boundaries of the individual netnwrite calls; bounded by the generator)',
    'extraction with ExtrOcamlBasic only (no Extract Constant); ocaml/glue.ml + ocaml/qrdata_driver.ml hex parsing/printing',
    'C harness harness/qrdata_h.c: #include of qremote/qrdata.c and qremote/mime.c; netnwrite/netget/checkreply/net_conn_shutdown/write_status replaced by recorders; message placed in front of a PROT_NONE page; gcc 12 -O1 ASan+UBSan vs. production build',
]
ASSUMPTIONS = [
    'the server answers DATA with 354 and the terminator with 250; netnwrite() transmits what it is given (TLS/socket layer outside the model)',
    'the queue file is mapped read-only at msgdata with exactly msgsize readable octets; plain char is signed (as on the build host)',
    'the model is of the C with fixes/C06-*.diff and fixes/C07-*.diff applied (the unfixed code over-reads, hangs and doubles dots: see reports/C06.md, reports/C07.md)',
]


def nontrivial(case, c_out):
    if not c_out.endswith(' END'):
        return False
    f = case.split()
    m = R.unhx(f[2])
    if b'\r' in m.replace(b'\r\n', b'') or b'\n' in m.replace(b'\r\n', b''):
        return True
    if m.startswith(b'.') or b'\n.' in m or b'\r.' in m:
        return True
    if any(c > 127 for c in m):
        return True
    import re
    return any(len(l) > 72 for l in re.split(b'\r\n|\r|\n', m))


def distribution(results):
    d = {'plain_end': 0, 'qp_end': 0, 'die_8bithdr': 0, 'die_ctsyntax': 0, 'die_boundary': 0, 'crash': 0, 'timeout': 0,
         'multipart': 0, 'size_le_100': 0, 'size_le_1300': 0, 'size_gt_1300': 0}
    for r in results:
        c = r['c']
        f = r['case'].split()
        n = 0 if f[2] == '-' else len(f[2]) // 2
        d['size_le_100' if n <= 100 else 'size_le_1300' if n <= 1300 else 'size_gt_1300'] += 1
        if b'multipart/' in R.unhx(f[2]).lower():
            d['multipart'] += 1
        if c == 'CRASH': d['crash'] += 1
        elif c == 'TIMEOUT': d['timeout'] += 1
        elif c.endswith('P END'): d['plain_end'] += 1
        elif c.endswith('Q END'): d['qp_end'] += 1
        elif c.endswith('DIE_8bithdr'): d['die_8bithdr'] += 1
        elif c.endswith('DIE_ctsyntax'): d['die_ctsyntax'] += 1
        else: d['die_boundary'] += 1
    return d

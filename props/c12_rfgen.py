"""case generators of the rfilters engine (C12 stage 3: one real filter function per case); see harness/rfilters_h.c"""

ID = dict(badcc=0, badmailfrom=1, boolean=2, check2822=3, dnsbl=4, forceesmtp=5, fromdomain=6, helo=7, ipbl=8, namebl=9,
          nomail=10, smtpbugs=11, soberg=12, spf=13, usersize=14, wildcardns=15)


def hx(b):
    b = bytes(b)
    return b.hex() if b else '-'


def fil(level, name, content):
    return hx(bytes([level, len(name)]) + name + content)


def case(fid, misc, mf, helo, ip, rcpts=b'', dns=b'', mx=b'', files=()):
    return ' '.join(['fd', hx([fid]), hx(misc), hx(mf), hx(helo), hx(ip), hx(rcpts), hx(dns), hx(mx)] + [fil(*f) for f in files])


def v4(a, b, c, d):
    return bytes([0] * 10 + [255, 255, a, b, c, d])


V6 = bytes([0x20, 0x01, 0x0d, 0xb8, 0, 1, 0, 2, 0, 0, 0, 0, 0, 0, 0, 0x17])
HELO = b'client.example.net'


def _flags(rng, userdir=None, ipv4=None, **kw):
    f = 0
    if userdir is None:
        userdir = rng.random() < 0.7
    if ipv4 is None:
        ipv4 = rng.random() < 0.7
    f |= 1 if userdir else 0
    f |= 2 if ipv4 else 0
    for bit, name in ((4, 'esmtp'), (8, 'ssl'), (16, 'auth')):
        if kw.get(name, rng.random() < 0.3):
            f |= bit
    return f, userdir, ipv4


def _levels(rng, userdir):
    """a random non-empty subset of the levels a file may live at"""
    lv = [l for l in ((0, 1, 2) if userdir else (1, 2)) if rng.random() < 0.45]
    return lv or [rng.choice((0, 1, 2) if userdir else (1, 2))]


def _listfile(rng, pool, extra=()):
    lines = [rng.choice(pool) for _ in range(rng.choice([1, 1, 2, 3, 5]))]
    lines += [e for e in extra if rng.random() < 0.5]
    rng.shuffle(lines)
    body = b'\n'.join(lines)
    if rng.random() < 0.85:
        body += b'\n'
    return body


def _conf(rng, key, values, userdir):
    """filterconf files carrying `key` at some levels"""
    files = []
    for l in ((0, 1, 2) if userdir else (1, 2)):
        if rng.random() < 0.45:
            noise = rng.choice([b'', b'whitelistauth\n', b'usersize=1000\n'])
            files.append((l, b'filterconf', noise + key + rng.choice(values) + b'\n'))
    return files


# ---------------------------------------------------------------- badmailfrom / goodmailfrom
BMF_FROM = [b'foo@aol.com', b'foo@bar.aol.com', b'foo@no-aol.com', b'FOO@AOL.COM', b'Foo@Bar.Aol.Com', b'a@b.c.example.org',
            b'x@aol.com.evil.org', b'foo@aol.comx', b'foo@xaol.com', b'o@aol.com', b'oo@aol.com', b'foo@l.com', b'bar@example.org',
            b'foo@a.aol.com', b'foo@com', b'f.oo@aol.com', b'aol.com@example.org', b'foo@AOL.com', b'']
BMF_ENTRY = [b'@aol.com', b'aol.com', b'.aol.com', b'foo@aol.com', b'FOO@Aol.Com', b'@AOL.COM', b'com', b'.com', b'ol.com', b'l.com',
             b'no-aol.com', b'bar.aol.com', b'.bar.aol.com', b'@bar.aol.com', b'x', b'foo@bar.aol.com', b'oo@aol.com', b'example.org',
             b'.example.org', b'@example.org', b'foo@aol.com \t', b'# comment', b'evil.org', b'.org', b'@com', b'aol.comx', b'foo@',
             b'@', b'.', b'a', b'Aol.Com', b'@b.c.example.org', b'c.example.org', b'foo@aol.com.', b'aol.com@example.org']


def gen_badmailfrom(rng):
    f, userdir, _ = _flags(rng)
    files = []
    for l in _levels(rng, userdir):
        extra = [b'!inherit'] if rng.random() < 0.5 else []
        files.append((l, b'badmailfrom', _listfile(rng, BMF_ENTRY, extra)))
    if rng.random() < 0.5:
        for l in _levels(rng, userdir):
            files.append((l, b'goodmailfrom', _listfile(rng, BMF_ENTRY, [b'!inherit'] if rng.random() < 0.2 else [])))
    if rng.random() < 0.05:
        files.append((rng.choice([1, 2]), b'badmailfrom', rng.choice([b'', b'a b\n', b'#x\n', b'!inherit\n'])))
    rng.shuffle(files)
    return case(ID['badmailfrom'], [f], rng.choice(BMF_FROM), HELO, v4(192, 0, 2, 1), files=files)


# ---------------------------------------------------------------- helo
HV_VALUES = [b'=0', b'=2', b'=4', b'=8', b'=16', b'=32', b'=64', b'=128', b'=18', b'=36', b'=1', b'=255', b'=254', b'=-1', b'=abc', b'',
             b'=8589934594', b'=3', b'=6', b'=256']
HELOS = [b'client.example.net', b'CLIENT.example.NET', b'example.net', b'a.b.example.net', b'h', b'[192.0.2.1]', b'xexample.net',
         b'client.example.net.']
BADHELO = [b'client.example.net', b'.example.net', b'example.net', b'Client.Example.Net', b'.net', b'.client.example.net',
           b'#client.example.net', b'client.example.net \t', b'h', b'[192.0.2.1]', b'other.example.org', b'.example.net  ', b'']


def gen_helo(rng):
    f, userdir, _ = _flags(rng)
    files = _conf(rng, b'helovalid', HV_VALUES, userdir) if rng.random() < 0.7 else []
    if rng.random() < 0.6:
        for l in _levels(rng, userdir):
            files.append((l, b'badhelo', _listfile(rng, BADHELO)))
    hs = rng.choice([0, 0, 1, 2, 3, 4, 5, 6, 7])
    return case(ID['helo'], [f, hs], b'foo@example.org', rng.choice(HELOS), v4(192, 0, 2, 1), files=files)


# ---------------------------------------------------------------- ipbl
def _rec4(rng, ip, hit):
    m = rng.choice([8, 16, 24, 25, 31, 32, 9])
    a = list(ip[12:16])
    if not hit:
        a[rng.choice([0, 0, 1])] ^= rng.choice([0x80, 0x40, 1])
    elif m < 32 and rng.random() < 0.5:
        a[3] ^= 1 if m <= 24 else 0
    return bytes(a + [m])


def _rec6(rng, ip, hit):
    m = rng.choice([8, 32, 48, 64, 127, 128, 33])
    a = list(ip)
    if not hit:
        a[rng.choice([0, 1, 3])] ^= rng.choice([0x80, 0x10, 1])
    return bytes(a + [m])


def _ipfile(rng, ip, ipv4name, hit):
    rec = _rec4 if ipv4name else _rec6
    recs = [rec(rng, ip, False) for _ in range(rng.choice([0, 1, 2]))]
    if hit:
        recs.insert(rng.randrange(len(recs) + 1), rec(rng, ip, True))
    body = b''.join(recs)
    r = rng.random()
    if r < 0.08:
        body += b'\x01'                                           # size not a multiple of the record length
    elif r < 0.16 and recs:
        body = body[:-1] + bytes([rng.choice([0, 7, 200])])       # prefix length out of range in the last record
    elif r < 0.2:
        body = b''
    return body


def gen_ipbl(rng):
    f, userdir, ipv4 = _flags(rng)
    ip = v4(192, 0, 2, rng.choice([1, 77])) if rng.random() < 0.6 else V6
    files = []
    for name, v4name in ((b'ipbl', True), (b'ipblv6', False)):
        if rng.random() < (0.85 if v4name == ipv4 else 0.3):
            for l in _levels(rng, userdir):
                files.append((l, name, _ipfile(rng, ip, v4name, rng.random() < 0.6)))
    for name, v4name in ((b'ipwl', True), (b'ipwlv6', False)):
        if rng.random() < (0.5 if v4name == ipv4 else 0.2):
            for l in _levels(rng, userdir):
                files.append((l, name, _ipfile(rng, ip, v4name, rng.random() < 0.5)))
    rng.shuffle(files)
    return case(ID['ipbl'], [f], b'foo@example.org', HELO, ip, files=files)


# ---------------------------------------------------------------- soberg
def gen_soberg(rng):
    f, userdir, _ = _flags(rng)
    files = _conf(rng, b'block_SoberG', [b'', b'=1', b'=0', b'=-1', b'=x'], userdir)
    mf, helo = rng.choice([(b'foo@bar.com', b'foo.com'), (b'foo@bar.com', b'FOO.COM'), (b'Foo@bar.Com', b'foo.com'),
                           (b'foo@bar.com', b'foo.org'), (b'foo@bar.com', b'fo.com'), (b'foo@bar.com', b'foo.comx'),
                           (b'foo@bar.com', b'foo'), (b'foo@a.b.com', b'foo.com'), (b'foo@bar.com', b'fooo.com'),
                           (b'foo@bar.com', b'foo.bar.com'), (b'', b'foo.com'), (b'f@x.y', b'f.y'), (b'foo@bar.com', b'f'),
                           (b'foo.x@bar.com', b'foo.x.com'), (b'foo@bar.co.uk', b'foo.uk')])
    return case(ID['soberg'], [f], mf, helo, v4(192, 0, 2, 1), files=files)


# ---------------------------------------------------------------- check2822
def gen_check2822(rng):
    f, userdir, _ = _flags(rng)
    files = _conf(rng, b'check_strict_rfc2822', [b'', b'=1', b'=0', b'=-1', b'=x', b'=2'], userdir)
    return case(ID['check2822'], [f, 0, rng.choice([0, 1, 2, 2, 3])], b'foo@example.org', HELO, v4(192, 0, 2, 1), files=files)


# ---------------------------------------------------------------- forceesmtp
RBLS = [b'rbl.example.net', b'list.example.org', b'bad..name', b'x', b'a.b', b'-x.example.net', b'l' * 63 + b'.example.net',
        (b'a' * 60 + b'.') * 3 + b'a' * 50 + b'.org', (b'a' * 60 + b'.') * 3 + b'a' * 57 + b'.org',
        (b'a' * 60 + b'.') * 3 + b'a' * 3 + b'.org', (b'a' * 60 + b'.') * 2 + b'a' * 62 + b'.org']


def _dns(rng, n=6):
    return bytes(rng.choice([0, 0, 0, 1, 2, 0xfd, 0xfe, 0xfe, 0xff, 0xf0, 0xf5]) for _ in range(rng.randrange(n)))


def gen_forceesmtp(rng):
    f, userdir, ipv4 = _flags(rng, esmtp=rng.random() < 0.15)
    ip = v4(rng.choice([1, 10, 192]), rng.choice([0, 99, 255]), rng.choice([2, 100]), rng.choice([1, 77, 200])) if ipv4 or rng.random() < 0.3 else V6
    files = []
    for name, v4name in ((b'forceesmtp', True), (b'forceesmtpv6', False)):
        if rng.random() < (0.9 if v4name == ipv4 else 0.3):
            for l in _levels(rng, userdir):
                files.append((l, name, _listfile(rng, RBLS)))
    return case(ID['forceesmtp'], [f], b'foo@example.org', HELO, ip, dns=_dns(rng), files=files)


# ---------------------------------------------------------------- badcc
CC_RCPT = [b'news@aol.com', b'foo@bar.aol.com', b'x@example.org', b'NEWS@AOL.COM', b'a@no-aol.com', b'postmaster', b'b@c.example.org']
CC_ENTRY = [b'@aol.com', b'aol.com', b'.aol.com', b'news@aol.com', b'@example.org', b'example.org', b'x@example.org', b'com',
            b'bar.aol.com', b'@AOL.com', b'News@Aol.Com', b'ol.com', b'not valid', b'@', b'c.example.org']


def gen_badcc(rng):
    f, userdir, _ = _flags(rng)
    files = []
    for l in _levels(rng, userdir):
        files.append((l, b'badcc', _listfile(rng, CC_ENTRY)))
    n = rng.choice([0, 1, 1, 2, 3])
    rcpts = b''.join(rng.choice(CC_RCPT) + b'\n' for _ in range(n))
    return case(ID['badcc'], [f], b'foo@example.org', HELO, v4(192, 0, 2, 1), rcpts=rcpts, files=files)


# ---------------------------------------------------------------- nomail
NOMAIL = [b'', b'550 5.7.1 gone away\n', b'450 4.2.1 come back later\n', b'550 4.7.1 mismatch\n', b'55a 5.7.1 x\n', b'550 5.7.1 \n',
          b'550 5.7.1 x\n', b'gone fishing\n', b'550 5.7.1  two blanks\n', b'650 6.7.1 six\n', b'550 5.71 x y z\n', b'550 5.7.1x\n',
          b'# comment\n421 4.4.4 after a comment\n', b'one\ntwo\n', b'text with\ttab\n', b'text with \x01 control and \x7f\n',
          b'dos line\r\n', b'550 5.7.1 ' + b'long ' * 150 + b'\n', b'no newline', b'5505.7.1 nothing\n', b'550 5.7.1', b'\n\n',
          b'550 5.a.1 letters\n', b'\xe4\xf6 umlaut\n']


def gen_nomail(rng):
    f, userdir, _ = _flags(rng)
    files = []
    for l in _levels(rng, userdir):
        files.append((l, b'nomail', rng.choice(NOMAIL)))
    if rng.random() < 0.1:
        files = []
    return case(ID['nomail'], [f], b'foo@example.org', HELO, v4(192, 0, 2, 1), files=files)


# ---------------------------------------------------------------- dnsbl
def gen_dnsbl(rng):
    f, userdir, ipv4 = _flags(rng)
    ip = v4(rng.choice([1, 10, 192]), rng.choice([0, 99, 255]), rng.choice([2, 100]), rng.choice([1, 77, 200])) if ipv4 or rng.random() < 0.3 else V6
    files = []
    for name, v4name in ((b'dnsbl', True), (b'dnsblv6', False)):
        if rng.random() < (0.9 if v4name == ipv4 else 0.2):
            for l in _levels(rng, userdir):
                files.append((l, name, _listfile(rng, RBLS, [b'!inherit'] if rng.random() < 0.4 else [])))
    for name, v4name in ((b'whitednsbl', True), (b'whitednsblv6', False)):
        if rng.random() < (0.6 if v4name == ipv4 else 0.2):
            for l in _levels(rng, userdir):
                files.append((l, name, _listfile(rng, RBLS[:6])))
    return case(ID['dnsbl'], [f], b'foo@example.org', HELO, ip, dns=_dns(rng, 10), files=files)


# ---------------------------------------------------------------- namebl
def gen_namebl(rng):
    f, userdir, _ = _flags(rng)
    files = []
    for l in _levels(rng, userdir):
        files.append((l, b'namebl', _listfile(rng, RBLS, [b'!inherit'] if rng.random() < 0.4 else [])))
    mf = rng.choice([b'foo@example.org', b'foo@a.b.example.org', b'foo@x', b'', b'foo@a.b.c.d.e.example.org', b'foo@example.org.',
                     b'foo@' + b'a' * 60 + b'.' + b'b' * 60 + b'.' + b'c' * 60 + b'.org', b'foo@a..b'])
    t0 = rng.choice([0, 0, 1, 2, 3, 4, 0xea])           # what the previous filter left in *t
    return case(ID['namebl'], [f, 0, 0, 0, t0], mf, HELO, v4(192, 0, 2, 1), dns=_dns(rng, 14), files=files)


# ---------------------------------------------------------------- fromdomain
def _v6(s):
    import ipaddress
    return ipaddress.IPv6Address(s).packed


MX_ADDR = [v4(10, 1, 2, 3), v4(172, 16, 0, 1), v4(172, 32, 0, 1), v4(172, 15, 255, 255), v4(192, 168, 1, 1), v4(169, 254, 0, 9),
           v4(192, 0, 2, 55), v4(198, 51, 100, 1), v4(203, 0, 113, 200), v4(192, 18, 0, 1), v4(192, 19, 255, 255), v4(192, 20, 0, 1),
           v4(127, 0, 0, 1), v4(127, 255, 1, 1), v4(0, 0, 0, 0), v4(0, 1, 2, 3), v4(8, 8, 8, 8), v4(1, 1, 1, 1), v4(128, 0, 0, 1),
           _v6('::1'), _v6('::'), _v6('2001:10::5'), _v6('2001:1f::5'), _v6('2001:20::5'), _v6('2001:db8::1'), _v6('2001:db9::1'),
           _v6('fe80::1'), _v6('febf::1'), _v6('fec0::1'), _v6('feff::1'), _v6('fe00::1'), _v6('2a00:1450::1'), _v6('::2'),
           _v6('::ffff:0:1') , _v6('0:0:0:0:0:fffe:a00:1')]
FD_VALUES = [b'=1', b'=2', b'=3', b'=4', b'=5', b'=6', b'=7', b'=7', b'=0', b'=-1', b'', b'=8', b'=15', b'=x']


def gen_fromdomain(rng):
    f, userdir, _ = _flags(rng)
    if rng.random() < 0.5:
        f |= 32
    files = _conf(rng, b'fromdomain', FD_VALUES, userdir)
    r = rng.random()
    if r < 0.35:
        mx = b''
    elif r < 0.7:
        # all of one kind
        kind = rng.choice([MX_ADDR[:12], MX_ADDR[12:16], MX_ADDR[19:21], MX_ADDR[21:31], MX_ADDR[:16]])
        mx = b''.join(rng.choice(kind) for _ in range(rng.choice([1, 2, 3])))
    else:
        mx = b''.join(rng.choice(MX_ADDR) for _ in range(rng.choice([1, 2, 3, 5])))
    st = rng.choice([0, 1, 2, 3, 0xfe, 0xfd])
    mf = rng.choice([b'foo@example.org', b'foo@example.org', b''])
    return case(ID['fromdomain'], [f, 0, 0, st], mf, HELO, v4(192, 0, 2, 1), mx=mx, files=files)


GENS = [(gen_badmailfrom, 5), (gen_helo, 4), (gen_ipbl, 4), (gen_soberg, 1), (gen_check2822, 1), (gen_forceesmtp, 2), (gen_badcc, 2),
        (gen_nomail, 2), (gen_dnsbl, 3), (gen_namebl, 2), (gen_fromdomain, 3)]


def gen_cases(rng, tier):
    n = 140 if tier == 'quick' else 2500
    out = []
    for g, w in GENS:
        for _ in range(n * w):
            out.append(g(rng))
    return out

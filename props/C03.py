"""C03 — 250 after DATA only if all was written and qmail-queue exited 0 (whole Qsmtpd)."""
from session_common import *

ID = 'C03'
COQ_TARGETS = ['Props/Properties_C03.vo']
PROPS_FILES = ['Props/Properties_C03.v']
THEOREMS = ['C03_queue_discipline', 'C03_handoff_needs_success', 'C03_data_needs_queue_start', 'C03_queue_not_started']
ENGINES = [ENGINE]
RULE = ('sessions with one to three transactions whose qmail-queue stand-in follows a plan per invocation: accept; exit code 1, 10, 11, 31, 40, 41, 53, 100, 255 '
        'after reading everything; killed by a signal after reading everything; die (exit or signal) before reading, after k message bytes, between message and '
        'envelope, after j envelope bytes; message sizes below and above the 64 KiB pipe buffer. After each failed transaction the session continues with RSET / '
        'MAIL / RCPT / DATA. For plans whose observable outcome depends on whether Qsmtpd sees EPIPE or the exit status, the closing reply is canonicalised to '
        '"4xx or 5xx". "qmail-queue cannot be started": plan entries ns / nh (the program exits at once; with qqexec=0 $QMAILQUEUE is not executable and the child ends in _exit(120)) '
        'with the schedule of queue_init()\'s waitpid(WNOHANG) forced by the harness to "sees the dead child" (451 to DATA, no 354) resp. "misses it" (354, EPIPE at the Received: header); '
        'DATA repeated inside the same transaction after such a refusal, payloads starting with the dot, an empty line or a read error. non-trivial = a DATA was accepted by the server; distinct by case text')
TRUSTED_BASE = TRUSTED_COMMON
ASSUMPTIONS = ASSUMPTIONS_COMMON + [
    'abstract fault model: the k-th qmail-queue invocation either reads everything and exits 0 / exits non-zero / is killed, or dies early so that a write fails; '
    'EPIPE delivery with SIGPIPE blocked and waitpid decoding are exercised by the harness, not proved; whether queue_init()\'s waitpid(WNOHANG) sees a child that dies '
    'at once is a race between two processes: the model has both outcomes (QQ_nostart / QQ_die_hdr, chosen by the oracle), the harness forces one per invocation '
    '(harness/session/wraps.c: __wrap_waitpid waits for the child\'s exit with WNOWAIT and then asks for real or answers 0); pipe() / fork() failure gives the same '
    'reply and return value as the seen death and is the same oracle outcome (QQ_nostart), it is not produced in the runs',
]
LEVEL_TEXT = ('Coq theorem for all oracles (in particular all qmail-queue behaviours per invocation) and all client byte streams: between the 354 and the end of the '
              'transaction nothing else is sent, a hand-off and the closing 250 occur only for an invocation that read everything and exited 0, every other '
              'outcome ends in 4xx/5xx, and in both cases sender and recipients are discarded (so a following transaction starts empty: C08). '
              'If qmail-queue cannot be started (queue_init() fails) DATA gets no 354 at all (C03_data_needs_queue_start) but 451, with nothing else changed (C03_queue_not_started); '
              'if it dies between queue_init() and the first write, that is one more early death behind the 354. '
              'Tied to the binary by whole-program runs with a fault-injecting qmail-queue stand-in.')
LEVEL_NOTE = 'Deviation from the wording: when queue_init() fails the transaction is NOT discarded (DATA is refused with 451 before anything was sent, sender and recipients stay, DATA may be repeated); stated as it is in C03_queue_not_started. Partial for the runtime: which of EPIPE / exit status Qsmtpd observes for an early death is decided by the kernel; the model merges both into "not 2xx".'
TECHNIQUE = 'Coq proof of a queue-discipline state machine over the session trace (part of the simulation); fault-injecting qmail-queue stand-in in the whole-program differential run'
DESIGN_REF = 'DESIGN.md section 5, C03'

PLANS = ['ok', 'ok', 'exit:1', 'exit:10', 'exit:11', 'exit:31', 'exit:40', 'exit:41', 'exit:53', 'exit:100', 'exit:255', 'die:a:0:sig', 'die:a:0:1', 'die:a:0:99',
         'die:b:0:sig', 'die:b:0:1', 'die:m:5:sig', 'die:m:150:2', 'die:e:0:sig', 'die:e:3:1', 'die:e:1:sig',
         # exiting with status 0 without having read everything must not count as success either
         # (the envelope descriptor is closed at once, so that the server's write fails for sure)
         'ce:0', 'ce:0', 'ce:1', 'ce:31', 'ce:sig',
         # the queue program is gone at once: seen by queue_init()'s waitpid(WNOHANG) (no 354, "451 4.3.2 can not connect to queue") or
         # missed by it (354, EPIPE already at the Received: header) - the schedule is forced by harness/session/wraps.c
         'ns', 'ns', 'nh', 'nh']
# die:m:<n> only takes effect when the message has at least n octets: n <= 150 is below the size of the trace header alone;
# the variant beyond the pipe buffer is used only in sessions whose messages are all larger than that
BIG_PLANS = ['die:m:70000:sig', 'die:m:70000:1', 'die:m:66000:2', 'ok', 'exit:31', 'die:a:0:sig']


def txn(rng, big):
    chunks = [session_gen.mail(rng, 'ok')]
    for _ in range(rng.choice([1, 2, 3])):
        chunks.append(session_gen.rcpt(rng, 'ok'))
    body = b'Subject: t\r\n\r\n' + (b'x' * 76 + b'\r\n') * (rng.choice([1000, 1100]) if big else rng.choice([0, 1, 20]))
    chunks += [b'DATA\r\n', body + b'.\r\n']
    return chunks


def gen_cases(engine, rng, tier):
    n = 250 if tier == 'quick' else 5000
    out = []
    for _ in range(n):
        allbig = rng.random() < 0.06
        plan = [rng.choice(BIG_PLANS if allbig else PLANS) for _ in range(3)]
        chunks = [rng.choice([b'HELO c.example.net\r\n', b'EHLO c.example.net\r\n'])]
        for i in range(rng.choice([1, 2] if allbig else [1, 2, 3])):
            chunks += txn(rng, allbig or rng.random() < 0.02)
            if rng.random() < 0.5:
                chunks.append(b'RSET\r\n')
        out.append(session_gen.case('relay=none;ip=v4;databytes=0;qq=' + ','.join(plan), chunks))
    # "If qmail-queue cannot be started": DATA repeated inside the same transaction after a refusal, with and without RSET in
    # between, payloads whose first line is the dot / empty / a read error (the drain of err_write starts with the command line);
    # $QMAILQUEUE not executable at all (every invocation ends in _exit(120))
    for _ in range(n // 3):
        noexec = rng.random() < 0.3
        plan = [rng.choice(['ns', 'nh'] if noexec else ['ns', 'ns', 'nh', 'nh', 'ok', 'ok', 'exit:31', 'die:b:0:1']) for _ in range(6)]     # one entry per DATA command below (at most 2 x 3): with qqexec=0 an invocation the plan does not cover would be a race
        chunks = [rng.choice([b'HELO c.example.net\r\n', b'EHLO c.example.net\r\n'])]
        for _ in range(rng.choice([1, 2])):
            chunks.append(session_gen.mail(rng, rng.choice(['ok', 'ok', 'bounce'])))
            for _ in range(rng.choice([1, 2])):
                chunks.append(session_gen.rcpt(rng, rng.choice(['ok', 'ok', 'no'])))
            for _ in range(rng.choice([1, 2, 3])):
                chunks.append(b'DATA\r\n')
                chunks.append(rng.choice([b'Subject: t\r\n\r\nbody\r\n.\r\n', b'.\r\n', b'\r\n.\r\n', b'a\rb\r\nx\r\n.\r\n', b'bare\nlf\r\n.\r\n',
                                          b'Subject: t\r\n\r\n' + b'y' * 70 + b'\r\n.\r\n']))
                if rng.random() < 0.3: chunks.append(rng.choice([b'RSET\r\n', b'NOOP\r\n', session_gen.rcpt(rng, 'ok')]))
        cfg = 'relay=none;ip=v4;databytes=0;qq=' + ','.join(plan) + (';qqexec=0' if noexec else '')
        out.append(session_gen.case(cfg, chunks))
    return out + session_gen.gen(rng, 150 if tier == 'quick' else 3000)

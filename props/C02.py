"""C02 — queue hand-off fidelity (whole Qsmtpd)."""
from session_common import *

ID = 'C02'
COQ_TARGETS = ['Props/Properties_C02.vo', 'Props/Properties_C02_trace.vo']
PROPS_FILES = ['Props/Properties_C02.v', 'Props/Properties_C02_trace.v']
THEOREMS = ['C02_message', 'C02_submission_additions', 'C02_submission_constants', 'C02_submission_full_refuted', 'C02_submission_partial',
            'C02_handoff_message', 'C02_message_checker_sound', 'C02_envelope', 'C02_trace_received', 'C02_trace_spf_none', 'C02_trace_spf_none_is_c11',
            'C02_trace_header_valid', 'C02_trace_spf_field_shape', 'C02_trace_header_with_valid', 'C02_trace_checker_sound']
ENGINES = [ENGINE]
RULE = ('sessions with one to three accepted transactions whose data exercise the copy loops: bodies of arbitrary octets 1..255 except bare CR/LF, '
        'lines of 0, 1, 997..999 octets, lines that are dots only or start with one to three dots, empty header, empty body, no separator line, '
        'Received: floods below the hop limit, 8-bit data; recipient sets mixing accepted, unknown, remote-refused and address-literal recipients; '
        'HELO and EHLO; v4 and v6 clients (different Received: text); relay by IP (no Received-SPF). As many sessions on the submission port (cfg port=587; '
        'client in relayclients, authenticated by AUTH PLAIN, both, or neither): header blocks with every subset of Date / From / Message-Id in any order and '
        'letter case, duplicates, near misses (Date without colon, XDate:, " Date:", Resent-Date: ...), the names in the body, lines starting with dots, 8-bit octets in '
        'header and body, empty header, no body, nothing at all, bounce and mixed-case senders, several transactions with different senders, size limits hit '
        'exactly and by one, strict mode on top, a dying qmail-queue; and the same payloads on ports 25, 465, 58, 5870 (nothing may be added). The hand-off recorded by '
        'the qmail-queue stand-in (envelope and message; dates masked: the added Date: only where it equals the Received: date) is compared byte for byte with the model, '
        'whose trace header is the extracted model of write_received()/spfreceived(); every hand-off of a simple session is also judged by the extracted checkers '
        'handoff_msg_ok (the property as stated) and handoff_hdr_check (what stands in front of the data is a block of valid header fields). non-trivial = at least one hand-off; distinct by case text')
TRUSTED_BASE = TRUSTED_COMMON + ['coq/Model/Trace.v: hand transcription of write_received() and of the SPF_NONE branch of spfreceived(); used by the model side of the correspondence run, so every compared message checks it']
ASSUMPTIONS = ASSUMPTIONS_COMMON + [
    'strings embedded in the trace header other than HELO argument and addresses (reverse DNS name, TCPREMOTEINFO, authenticated user name, certificate subject, cipher name) are assumed free of CR/LF; the user name of SMTP AUTH is client-chosen and only constrained by what checkpassword accepts',
    'submission mode: the date of the added Date: field is compared only as "the same 31 octets as the date of the Received: line" (both are masked by the harness), the Message-Id time stamp is the wrapped gettimeofday() of the harness, control/msgidhost is msgid.example.org (the default, control/me, is not exercised)',
    'Received-SPF: the session model builds the field for result "none" itself (C02_trace_spf_none, equal to the C11 model: C02_trace_spf_none_is_c11); for pass / fail / softfail / neutral (SPF records of the fake resolver for example.org, example.com, shop.example.net, x.example.com, again.example.net) the compared header comes from the extracted C11 model (check_host + spfreceived of coq/Model/Spf.v) - its syntax theorem is C11_received_spf_clean; temperror / permerror fields are not produced in these runs',
]
LEVEL_TEXT = ('Coq theorems: (message) for every reader state and byte stream, what smtp_data wrote when it reached the final dot is the trace header '
              'followed by exactly the transmitted data lines in order with CRLF -> LF and one leading dot removed; on the submission port exactly the missing '
              'ones of Date, From, Message-Id (in this order, each once, literal text regenerated from data.c) stand between the last header line and the rest, on every '
              'other port nothing is added; (session) every hand-off of every session is such a message together with the envelope of the same sender - the From: field '
              'carries the F address; (envelope) for all sessions every '
              'hand-off envelope is F sender NUL (T recipient NUL)* NUL of the transaction open at that point, literals rewritten to localiphost; '
              '(trace) the Received: field is three correctly folded lines without CR for all embedded strings that are themselves free of CR/LF; the whole trace header, with the '
              'Received-SPF field of every SPF result, is a block of syntactically valid header fields (no NUL, CR, unfolded line break, nameless line) for all embedded strings free of NUL/CR/LF, '
              'and the checker run on the implementation\'s hand-offs accepts every such header (C02_trace_checker_sound). '
              'The property as worded ("when the client omitted them", judged on the stored lines) is refuted by a witness (C02_submission_full_refuted: '
              'a header line ".Date: x") and proved for all messages outside that decidable class (C02_submission_partial). '
              'Tied to the binary by byte-for-byte comparison of recorded hand-offs in whole-program runs.')
LEVEL_NOTE = ('Partial: known finding F-C02-2 (a field hidden behind a needless leading dot is added a second time on port 587); the date text, the clock and control/msgidhost are oracles; '
              'Received-SPF other than "none" is compared through the extracted C11 model, not built by the session model itself; address normalisation (lower-casing) is the address oracle (C14).')
TECHNIQUE = 'Coq loop invariant over smtp_data with a ghost list of data lines; simulation proof for envelopes; structural proof of the header builder; whole-program byte comparison of hand-offs'
DESIGN_REF = 'DESIGN.md section 5, C02'


def data_body(rng):
    lines = []
    style = rng.choice(['hdr+body', 'hdr+body', 'nohdr', 'nobody', 'nosep', 'empty'])
    def rnd_line(maxlen=60):
        n = rng.choice([0, 1, 2, 10, maxlen])
        return bytes(rng.choice([x for x in range(1, 256) if x not in (10, 13)]) for _ in range(n))
    if style in ('hdr+body', 'nobody', 'nosep'):
        for _ in range(rng.choice([1, 2, 4])):
            lines.append(rng.choice([b'Subject: test', b'Received: from x by y', b'X-Long: ' + b'h' * rng.choice([989, 990, 991]), b'.Dotted: header', b'From: <a@example.net>']))
    if style in ('hdr+body', 'nohdr'):
        lines.append(b'')
        for _ in range(rng.choice([0, 1, 3, 8])):
            lines.append(rng.choice([rnd_line(), b'.', b'..', b'...', b'.x', b'..x', b'', b'b' * rng.choice([997, 998, 999]), b'.' + b'c' * 998, rnd_line(200)]))
    if style == 'nosep':
        lines.append(rnd_line())
    out = b''
    for l in lines:
        if l == b'.':
            l = b'..'          # a lone dot would end the data: transmit it stuffed
        out += l + b'\r\n'
    return out + b'.\r\n'


def gen_cases(engine, rng, tier):
    n = 300 if tier == 'quick' else 6000
    out = []
    for _ in range(n):
        cfg = 'relay=%s;ip=%s;databytes=0;qq=ok,ok,ok,ok' % (rng.choice(['none', 'none', 'listed']), rng.choice(['v4', 'v4', 'v6']))
        chunks = [rng.choice([b'HELO c.example.net\r\n', b'EHLO c.example.net\r\n', b'HELO x.example.com\r\n', b'EHLO c.example.net\r\n',
                              # address literals as HELO name: IPv4, not IPv4 (the text is written into the trace header as sent)
                              b'EHLO [192.0.2.99]\r\n', b'EHLO [IPv6:2001:db8::1]\r\n', b'HELO [300.1.2.3]\r\n'])]
        for _ in range(rng.choice([1, 1, 2, 3])):
            chunks.append(session_gen.mail(rng, rng.choice(['ok', 'ok', 'bounce', 'size', 'body', 'mixed'])))
            for _ in range(rng.choice([1, 2, 3, 5])):
                chunks.append(session_gen.rcpt(rng, rng.choice(['ok', 'ok', 'ok', 'no', 'remote', 'literal', 'syntax', 'mixed', 'mixed'])))
            chunks.append(b'DATA\r\n'); chunks.append(data_body(rng))
        out.append(session_gen.case(cfg, chunks))
    # the submission port: every subset / order / case of Date, From, Message-Id, duplicates, near misses, dot lines, 8-bit, empty
    # header, no body, size boundary, dying qmail-queue; a few with a field hidden behind a leading dot (known finding F-C02-2)
    for i in range(n):
        cfg, chunks = session_gen.subm_session(rng, hidden=(i % 25 == 7))
        out.append(session_gen.case(cfg, chunks))
    # the same payloads on port 25: nothing may be added there
    for _ in range(n // 6):
        cfg, chunks = session_gen.subm_session(rng)
        out.append(session_gen.case(cfg.replace('port=587', 'port=' + rng.choice(['25', '25', '465', '5870', '58'])), chunks))
    return out + session_gen.gen(rng, 100 if tier == 'quick' else 2000)


def nontrivial(case, c_out):
    return any(t.startswith('Q') for t in c_out.split())


import re
_HIDDEN = re.compile(rb'^\.(date|from|message-id):', re.I)


def classify(case, c_out):
    """F-C02-2 (Spec/SessionSpec.v:hidden_field): submission port, and the header block of a DATA payload has a line that, behind a
    needless leading dot, begins with Date: / From: / Message-Id:"""
    f = case.split()
    if len(f) < 3 or b'port=587' not in R.unhx(f[1]).split(b';'):
        return None
    chunks = [R.unhx(x) for x in f[2:]]
    for i in range(1, len(chunks)):
        if chunks[i - 1].upper() == b'DATA\r\n':
            for l in chunks[i].split(b'\r\n'):
                if l in (b'', b'.'):
                    break
                if _HIDDEN.match(l):
                    return 'subm-dot-hidden-field'
    return None


def distribution(results):
    d = dict(spf_none=0, spf_pass=0, spf_fail=0, spf_softfail=0, spf_neutral=0, spf_absent=0, handoffs=0, subm_handoffs=0, subm_added_date=0, subm_added_from=0, subm_added_msgid=0, subm_nothing_added=0, subm_mail_refused=0, r552=0, r550=0, simple_cases=0)
    for r in results:
        f = r['case'].split()
        subm = len(f) > 1 and b'port=587' in R.unhx(f[1]).split(b';')
        toks = r['c'].split()
        for t in toks:
            if t.startswith('Q'):
                d['handoffs'] += 1
                mm = R.unhx(t.split('/')[1])
                k = re.match(rb'Received-SPF: (\w+) ', mm)
                d['spf_' + (k.group(1).decode().lower() if k else 'absent')] = d.get('spf_' + (k.group(1).decode().lower() if k else 'absent'), 0) + 1
                if subm:
                    d['subm_handoffs'] += 1
                    m = R.unhx(t.split('/')[1])
                    a = (b'\nDate: ' + b'D' * 31 + b'\n' in m, b'\nMessage-Id: <1000000000.123456@msgid.example.org>\n' in m)
                    d['subm_added_date'] += a[0]; d['subm_added_msgid'] += a[1]
                    fr = re.search(rb'\nFrom: <[^\n]*>\n', m) is not None
                    d['subm_added_from'] += fr
                    d['subm_nothing_added'] += not (a[0] or a[1] or fr)
            elif t == 'r552': d['r552'] += 1
            elif t == 'r550': d['r550'] += 1
        if r['spec'] != 'pre': d['simple_cases'] += 1
    return d

"""C12 — the reply to RCPT TO follows the documented filter configuration (qsmtpd/commands.c:smtp_rcpt,
qsmtpd/backends/user_vpopm/getfile.c + vpop.c, lib/control.c loaders)."""
import runlib as R
import c12_rfgen as RF

ID = 'C12'
COQ_TARGETS = ['Props/Properties_C12.vo', 'Props/Properties_C12_filters.vo']
PROPS_FILES = ['Props/Properties_C12.v', 'Props/Properties_C12_filters.v']
THEOREMS = ['C12_combine', 'C12_documented_is_function', 'C12_inherit', 'C12_global_keys', 'C12_syntax', 'C12_plain_files', 'C12_spacebug_sticky', 'C12_refuted', 'C12_spf_temp_class_witness', 'C12_checker_sound_partial', 'C12_unfixed_refuted',
            'C12_getfile_precedence', 'C12_listfile_plain', 'C12_listfile_inherit', 'C12_listfile_total', 'C12_list_entry',
            'C12_badmailfrom', 'C12_badcc', 'C12_helo', 'C12_ipbl', 'C12_soberg', 'C12_check2822', 'C12_check2822_all', 'C12_nomail',
            'C12_forceesmtp', 'C12_dnsbl', 'C12_dnsbl_unfixed_refuted', 'C12_namebl', 'C12_namebl_unfixed_refuted', 'C12_fromdomain', 'C12_fromdomain_address',
            'C12_filters_checker_sound']
ENGINES = [dict(name='filters', c_sources=['filters_h.c', 'filters_real.c', 'filters_real2.c'], extract='Extract/Extract_filters.v',
                driver='filters_driver.ml', accepts=lambda c: c.startswith('cc ')),
           dict(name='rfilters', c_sources=['rfilters_h.c', 'rfilters_real.c'], extract='Extract/Extract_rfilters.v',
                driver='rfilters_driver.ml', accepts=lambda c: c.startswith('fd '))]
RULE = ('cases = (outcome of each of the 16 filters named in rcpt_cbs[], filterconf bytes at user / domain / global level incl. '
        'absent directory, absent file, empty file, probe key): outcome vectors all-pass / one temporary, error or hard result at '
        'every position / temporary before and after a hard result / whitelist before and after a denial / two different hard '
        'results / random; files built from lines about fail_hard_on_temp, nonexist_on_block and the probe key in the forms bare, '
        '=1, =0, =-1, =-5, =<big>, =LONG_MAX(+1), =LONG_MIN(-1), empty value, junk value, +3, CR before the value, longer and shorter '
        'key, duplicates with the first line 0, comments, escaped #, trailing blanks, inner blanks (load error), NUL bytes, no final '
        'newline; rfilters engine: one real filter function per case (badcc, badmailfrom, check2822, dnsbl, forceesmtp, fromdomain, helo, ipbl, namebl, '
        'nomail, soberg) on a generated tree of list / filterconf files at user, domain and global level with scripted DNS answers, MX lists and session; '
        'stage 2 cases with the real cb_boolean/smtpbugs/spf/usersize and sessions (SPF status, TLS, AUTH, ESMTP, MAIL FROM shape, SIZE, '
        'blanks in the current RCPT TO line, space-bug flag already recorded by MAIL FROM or by an earlier real RCPT TO); non-trivial = the C rejected the recipient or a probe returned a non-zero value; distinct by case text')
TRUSTED_BASE = [
    'rfilters engine: harness/rfilters_h.c + rfilters_real.c (all sixteen real filter files, rcpt_filters.c, getfile.c, vpop.c, addrsyntax.c, antispam.c, control.c, '
    'match.c, mmap.c, dns_helpers.c, fmt.c; stand-ins for ask_dnsa/dnstxt, net_writen/netnwrite, log_*); ocaml/rfilters_driver.ml; reused models and theorems of '
    'C14 (checkaddr, domainvalid), C16 (finddomain, check_ip4/6, ip4/ip6_matchnet, loadoneliner)',

    'Coq 8.16.1 kernel (coqc; coqchk in thorough); vm_compute only on closed terms built from generated constants (reply templates, enum values) and in the examples; no native_compute',
    'axioms: none (Print Assumptions: Closed under the global context for all theorems)',
    'translator tools/translators/filters.py: regexes over qsmtpd/commands.c (smtp_rcpt), qsmtpd/filters/rcpt_filters.c, include/qsmtpd/userfilters.h, userconf.h, '
    'backends/user_vpopm/getfile.c produce Gen/GenFilters.v: order of rcpt_cbs[], enum values, flags, setting names, reply templates, loop condition, '
    'and the boolean FREE_BEFORE_SETTINGS (position of userconf_free(&ds) relative to the getsetting(&ds, ...) reads)',
    'hand-written model coq/Model/Filters.v (lloadfilefd/loadlistfd, userconf_load_configs, checkconfig, getsetting_internal, smtp_rcpt loop and switch) '
    'tied to the C by the correspondence run (differential testing, bounded by the generator)',
    'model of strtol(): C locale isspace, 64-bit long (the harness refuses to run when sizeof(long) != 8)',
    'extraction with ExtrOcamlBasic only (no Extract Constant); ocaml/glue.ml + ocaml/filters_driver.ml (hex, decimal <-> Z, parsing of the harness line)',
    'C harness harness/filters_h.c + filters_real.c: real commands.c, addrparse.c, addrsyntax.c, rcpt_filters.c, getfile.c, vpop.c, control.c, cdb.c, mmap.c, '
    'fmt.c, dns_helpers.c on a generated directory tree (users/cdb written by the harness); stand-ins for the 16 cb_* filters, netnwrite/net_writen '
    '(capture), log_*, tarpit, err_control*; gcc 12 -O1 ASan+UBSan -DNDEBUG vs. the production build',
]
ASSUMPTIONS = [
    'rfilters engine: DNS is an oracle (the sequence of answers of ask_dnsa(); dnstxt() fails); the reply of a filter is captured before net_writen() folds it (C10); '
    'xmitstat fields are set directly (HELO status, SPF status, frommx, fromdomain result); sender and recipient addresses have one @ (addrsyntax, C14); '
    'file access errors other than "no such file" (EACCES, ENOLCK, ENOMEM) are not exercised; cb_wildcardns is not modelled',

    'the individual filters are replaced by stand-ins returning the case\'s outcome, except cb_boolean, cb_smtpbugs, cb_spf, cb_usersize which stage 2 runs for real '
    '(modelled for sessions without spfignore / rspf / spfstrict files and with an empty reverse lookup); the other twelve real filters are outside C12\'s theorems',
    'a filter returning FILTER_DENIED_WITH_MESSAGE has sent a 5xx reply itself (the stand-in sends 554 5.7.1)',
    'the lines about fail_hard_on_temp / nonexist_on_block at user and domain level are in the documented syntax (bare key or key=<-?digits> fitting a long); '
    'otherwise the checker answers pre and only model-vs-C agreement is checked',
    'the recipient is local and exists (users/cdb entry, domain directory, user directory or .qmail-user); MAIL FROM non-empty, first recipient',
    'the filterconf files do not change between userconf_load_configs() and the end of smtp_rcpt(); control/filterconf is loaded once as qsmtpd.c does',
]

KFH = b'fail_hard_on_temp'
KNE = b'nonexist_on_block'
# the settings described in doc/man/filterconf.5 (probe keys: the checker compares what the reading filter gets with the man page)
MANKEYS = [b'forcestarttls', b'whitelistauth', b'check_strict_rfc2822', b'fromdomain', b'reject_ipv6only', b'spfpolicy', b'nobounce',
           b'usersize', b'block_SoberG', b'helovalid', b'block_wildcardns', b'smtp_space_bug']
NF = 16
# canonical ids (alphabetical); order of rcpt_cbs[] in the tree this was written for, used only to aim the generators
ORDER = [2, 10, 11, 14, 12, 8, 7, 1, 0, 6, 13, 4, 5, 9, 15, 3]
ERR, PASS, MSG, UNSPEC, NOUSER, TEMP, WHITE = 0, 1, 2, 3, 4, 5, 6     # byte = enum value + 1
HARD = [MSG, UNSPEC, NOUSER]

VALUES = [b'', b'=1', b'=0', b'=-1', b'=-5', b'=2', b'=123877', b'=', b'=abc', b'=1x', b'=+3', b'=\r4', b'=-', b'=--1', b'=0x10', b'=007',
          b'=9223372036854775807', b'=9223372036854775808', b'=-9223372036854775808', b'=-9223372036854775809',
          b'=99999999999999999999999', b'=-0', b'x', b'x=1', b'==1', b'=1=2', b'=\x0b2', b'=\x0c-1']
COMMON = [b'', b'', b'=1', b'=0', b'=-1', b'=-1', b'=2', b'=-5']


def _line(rng, key, well):
    v = rng.choice(COMMON if well else VALUES)
    r = rng.random()
    if not well and r < 0.06:
        return key[:-1] + v
    if not well and r < 0.10:
        return b'#' + key + v
    if not well and r < 0.14:
        return b'\\#' + key + v
    if r < 0.22:
        return key + v + rng.choice([b' ', b'\t', b'  \t', b' #c', b'#c'])
    if not well and r < 0.25:
        return key + b' ' + (v or b'=1')          # blank inside a line: the loader refuses the file
    return key + v


def _file(rng, keys, well):
    lines = []
    for k in keys:
        p = rng.random()
        if p < 0.45:
            lines.append(_line(rng, k, well))
        if p < 0.08:
            lines.append(_line(rng, k, well))   # duplicate: the first line decides
    for _ in range(rng.choice([0, 0, 1, 2])):
        lines.append(rng.choice([b'whitelistauth', b'helovalid=18', b'', b'# comment', b'usersize=100000', b'smtp_space_bug=1',
                                 b'fail_hard', b'nonexist_on_blocks=1', b'\t', b'block_wildcardns']))
    rng.shuffle(lines)
    body = b'\n'.join(lines)
    if lines and rng.random() < 0.8:
        body += b'\n'
    if not well and rng.random() < 0.03 and body:
        i = rng.randrange(len(body))
        body = body[:i] + b'\0' + body[i:]
    return body


def _level(rng, keys, modes, well):
    m = rng.choice(modes)
    if m != 2:
        return bytes([m])
    if rng.random() < 0.06:
        return b'\x02' + rng.choice([b'', b'\n', b'# only a comment\n', b'   \n'])
    return b'\x02' + _file(rng, keys, well)


def _outcomes(rng):
    v = [PASS] * NF
    pos = lambda k: ORDER[k]
    r = rng.random()
    if r < 0.06:
        pass
    elif r < 0.22:                                   # one temporary / error result
        v[rng.randrange(NF)] = rng.choice([TEMP, TEMP, ERR])
    elif r < 0.34:                                   # one hard result
        v[rng.randrange(NF)] = rng.choice(HARD)
    elif r < 0.52:                                   # temporary and hard, both orders
        a, b = sorted(rng.sample(range(NF), 2))
        if rng.random() < 0.5:
            v[pos(a)], v[pos(b)] = rng.choice([TEMP, ERR]), rng.choice(HARD)
        else:
            v[pos(a)], v[pos(b)] = rng.choice(HARD), rng.choice([TEMP, ERR])
    elif r < 0.66:                                   # whitelist against temporary / hard
        a, b = sorted(rng.sample(range(NF), 2))
        other = rng.choice(HARD + [TEMP, ERR])
        if rng.random() < 0.5:
            v[pos(a)], v[pos(b)] = WHITE, other
        else:
            v[pos(a)], v[pos(b)] = other, WHITE
    elif r < 0.76:                                   # two different hard results: the first in rcpt_cbs[] order decides
        a, b = rng.sample(range(NF), 2)
        h = rng.sample(HARD, 2)
        v[pos(a)], v[pos(b)] = h[0], h[1]
    elif r < 0.86:                                   # several temporaries, pass in between
        for _ in range(rng.randrange(2, 6)):
            v[rng.randrange(NF)] = rng.choice([TEMP, ERR])
    else:
        for i in range(NF):
            if rng.random() < 0.25:
                v[i] = rng.choice([ERR, MSG, UNSPEC, NOUSER, TEMP, TEMP, WHITE])
    return bytes(v)


def _case(out, u, d, g, key, sess=None):
    c = 'cc %s %s %s %s %s' % (R.hx(out), R.hx(u), R.hx(d), R.hx(g), R.hx(key))
    return c + ' ' + R.hx(sess) if sess is not None else c


# ---- stage 2: the real cb_boolean, cb_smtpbugs, cb_spf, cb_usersize in their places of rcpt_cbs[]
REAL = 0x80
REAL_IDS = {'boolean': 2, 'smtpbugs': 11, 'spf': 13, 'usersize': 14}
SPF_TEMPERROR = 7
S2KEYS = [(b'whitelistauth', [b'', b'=1', b'=0', b'=-1']), (b'forcestarttls', [b'', b'=1', b'=-1']), (b'nobounce', [b'', b'=0']),
          (b'noapos', [b'', b'=2']), (b'usersize', [b'=300', b'=301', b'=299', b'=1', b'=0', b'=-1', b'=65535', b'=70000', b'']),
          (b'smtp_space_bug', [b'=1', b'=2', b'=3', b'=255', b'=4', b'=0', b'=-1', b'', b'=256', b'=4294967297', b'=4294967551',
                               b'=9223372036854775807']),
          (b'spfpolicy', [b'=1', b'=2', b'=3', b'=4', b'=5', b'=6', b'=7', b'=0', b'=-1', b'']),
          (KFH, [b'', b'=1', b'=0', b'=-1']), (KNE, [b'', b'=0'])]


def _s2file(rng):
    lines = []
    for k, vals in S2KEYS:
        if rng.random() < 0.3:
            lines.append(k + rng.choice(vals))
    rng.shuffle(lines)
    return b'\n'.join(lines) + (b'\n' if lines else b'')


def _stage2(rng):
    v = [PASS] * NF
    for name, i in REAL_IDS.items():
        if rng.random() < 0.8:
            v[i] = REAL
    # a stand-in hard / temporary / whitelist result somewhere, so that the real result has to be combined with it
    for _ in range(rng.choice([0, 1, 1, 2])):
        i = rng.randrange(NF)
        if v[i] != REAL:
            v[i] = rng.choice([TEMP, UNSPEC, NOUSER, MSG, WHITE, ERR])
    spf = rng.choice([0, 1, 2, 3, 4, 5, 7, 7, 7, 8, 15, 6, 9])
    flags = rng.randrange(128)          # bits 5/6: the space-bug flag was recorded before this command
    spaces = rng.choice([0, 0, 1, 2, 8])
    size = rng.choice([0, 1, 299, 300, 301, 302, 65535, rng.randrange(65536)])
    sess = bytes([spf, flags, spaces, size >> 8, size & 255])
    u = rng.choice([b'\x00', b'\x01', b'\x02' + _s2file(rng), b'\x02' + _s2file(rng)])
    d = rng.choice([b'\x01', b'\x02' + _s2file(rng)])
    g = rng.choice([b'\x01', b'\x02' + _s2file(rng), b'\x02' + _s2file(rng)])
    key = rng.choice([k for k, _ in S2KEYS])
    return _case(bytes(v), u, d, g, key, sess)


def _spacebug(rng):
    """aimed at the sticky space-bug flag: real cb_smtpbugs, a rejecting smtp_space_bug at one of the three levels, the flag
    recorded by an earlier command (bit 5: as MAIL FROM leaves it; bit 6: an earlier real RCPT TO with a blank) and / or by
    the blanks of the current line; TLS / AUTH / ESMTP on both sides of what the value permits"""
    v = [PASS] * NF
    v[REAL_IDS['smtpbugs']] = REAL
    if rng.random() < 0.3:
        v[REAL_IDS['usersize']] = REAL
    if rng.random() < 0.25:
        i = rng.randrange(NF)
        if v[i] != REAL:
            v[i] = rng.choice([TEMP, UNSPEC, WHITE])
    val = rng.choice([b'=255', b'=255', b'=1', b'=2', b'=3', b'', b'=4', b'=0', b'=-1'])
    line = b'smtp_space_bug' + val + b'\n'
    lvl = rng.randrange(3)
    u = b'\x02' + line if lvl == 0 else rng.choice([b'\x00', b'\x01', b'\x02smtp_space_bug=0\n', b'\x02whitelistauth\n'])
    d = b'\x02' + line if lvl == 1 else rng.choice([b'\x01', b'\x02helovalid=18\n'])
    g = b'\x02' + line if lvl == 2 else rng.choice([b'\x01', b'\x02smtp_space_bug=255\n', b'\x02usersize=5\n'])
    pre = rng.choice([0, 0x20, 0x20, 0x40, 0x40, 0x60])
    spaces = rng.choice([0, 0, 0, 1, 2])
    flags = pre | rng.choice([0, 1, 2, 4, 5, 6, 7, 3])
    size = rng.choice([0, 4, 5, 6])
    return _case(bytes(v), u, d, g, b'smtp_space_bug', bytes([0, flags, spaces, 0, size]))


def gen_cases(engine, rng, tier):
    if engine == 'rfilters':
        return RF.gen_cases(rng, tier)
    n = 2500 if tier == 'quick' else 40000
    cases = []
    for i in range(n):
        well = rng.random() < 0.7
        key = rng.choice([KFH, KNE, KFH, KNE, b'foo', b'fail_hard_on_tem', b'fail_hard_on_tempx', b'a=b', b'f', b''] + MANKEYS
                         if not well else [KFH, KNE, KFH, KNE, b'foo'] + MANKEYS)
        keys = [KFH, KNE] + ([key] if key not in (KFH, KNE, b'') else [])
        u = _level(rng, keys, [0, 1, 2, 2, 2, 2], well)
        d = _level(rng, keys, [1, 2, 2, 2], well)
        g = _level(rng, keys, [1, 2, 2], well)
        cases.append(_case(_outcomes(rng), u, d, g, key))
    for i in range(n // 2):
        cases.append(_stage2(rng))
    for i in range(n // 5):
        cases.append(_spacebug(rng))
    return cases


def _kv(c_out):
    return dict(x.split('=', 1) for x in c_out.split() if '=' in x)


def nontrivial(case, c_out):
    if case.startswith('fd '):
        return c_out.startswith('r=') and not c_out.startswith('r=1 ')
    if not c_out.startswith('rc='):
        return False
    kv = _kv(c_out)
    rej = kv.get('reply', '-')[:2] in ('34', '35')
    probe = any(kv.get(p, '-').split(',')[0] not in ('-', '0') for p in ('p1', 'p2'))
    return rej or probe


def classify(case, c_out):
    """spf-temp-own-reply (finding F-C12-3): the real cb_spf is in the table, the SPF status of the session is "temporary
    error", and the filter has answered itself with its 451 (which it does when an spfpolicy is in force and
    fail_hard_on_temp is not; Coq: Spec/FiltersSpec.v in_spf_temp_class)."""
    f = case.split()
    if f[0] != 'cc' or len(f) != 7 or not c_out.startswith('rc='):
        return None
    out, sess = R.unhx(f[1]), R.unhx(f[6])
    if len(out) == NF and out[REAL_IDS['spf']] == REAL and len(sess) == 5 and (sess[0] & 15) == SPF_TEMPERROR \
            and _kv(c_out).get('reply') == R.hx(b'451 4.4.3'):
        return 'spf-temp-own-reply'
    return None


def distribution(results):
    d = {}
    names = {v: k for k, v in RF.ID.items()}
    for r in results:
        c = r['c']
        if r['case'].startswith('fd '):
            k = 'real %s: %s' % (names.get(int(r['case'].split()[1], 16), '?'), c.split()[0])
            d[k] = d.get(k, 0) + 1
            s = 'rspec_' + r['spec']
            d[s] = d.get(s, 0) + 1
            continue
        if c.startswith('rc='):
            kv = _kv(c)
            if kv.get('ctrlerr') != '0':
                k = 'user/domain file refused'
            else:
                k = ','.join(bytes.fromhex(x).decode('latin-1') for x in kv['reply'].split(',')) if kv['reply'] != '-' else 'no reply'
        else:
            k = c.split()[0] if c else 'empty'
        d[k] = d.get(k, 0) + 1
        s = 'spec_' + r['spec']
        d[s] = d.get(s, 0) + 1
    return d


LEVEL_TEXT = ('Machine-checked Coq theorems over an executable model of checkconfig/getsetting/getsettingglobal and of the filter loop and '
              'rejection switch of smtp_rcpt: for all entry lists at the three levels, all keys and all sequences of filter results of any '
              'length, the value of a setting is the documented user > domain > global lookup (negative value = off, no inheritance) and '
              'the reply is the documented combination (whitelist stops and accepts, a hard denial wins over earlier temporary failures, '
              'temporary alone gives 450 4.7.0 or the 5xx with fail_hard_on_temp, nonexist_on_block turns 550 5.7.1 into 550 5.1.1), with '
              'the two settings read from the struct userconf as it is at that point of the C. Enum values, rcpt_cbs[] order, reply '
              'templates, setting names and the position of userconf_free(&ds) are regenerated from the C on every run; the model is tied '
              'to the real smtp_rcpt + vpopmail backend + control-file loader by a differential run on generated directory trees under ASan.')
LEVEL_NOTE = ('Trusted: Coq kernel, translator regexes, extraction (ExtrOcamlBasic), harness and stand-ins, generator quality of the correspondence '
              'run. Assumed: lines about the two settings are in the documented syntax (else only model-vs-C agreement is checked); twelve of the '
              'sixteen real filters are stand-ins. The theorems hold for the tree with fixes/C12-rcpt-settings-after-free.diff and '
              'fixes/C12-filterconf-global-keys.diff applied; on the shipped tree FREE_BEFORE_SETTINGS = true breaks the obligation '
              'settings_read_before_free, KEY_TABLE breaks key_table_consistent, and the corpus witnesses fail. Known finding F-C12-3 (real cb_spf '
              'answers a temporary SPF error itself): C12_refuted / C12_checker_sound_partial, class spf-temp-own-reply.')
TECHNIQUE = ('Coq proofs by induction over entry lists / filter-result lists (loop invariant on (fr, e, i)); relation-vs-function equivalence for the '
             'documented combination; checker-soundness theorem for the executable spec; translator-regenerated tables; model-vs-C differential run')
DESIGN_REF = 'DESIGN.md section 5, C12; finding F-C12-1 in section 7; reports/C12.md'

"""Case construction and generators for the spf engine (C11).  All randomness from the rng passed in."""
import socket

def hx(b):
    if isinstance(b, str):
        b = b.encode('latin-1')
    return b.hex() if b else '-'

def B(x):
    return x.encode('latin-1') if isinstance(x, str) else bytes(x)

def ip16(s):
    if isinstance(s, bytes):
        return s
    if ':' in s:
        return socket.inet_pton(socket.AF_INET6, s)
    return b'\0' * 10 + b'\xff\xff' + socket.inet_pton(socket.AF_INET, s)

def is_v4(b):
    return b[:12] == b'\0' * 10 + b'\xff\xff'

def iptext(b):
    if is_v4(b):
        return socket.inet_ntop(socket.AF_INET, b[12:])
    return socket.inet_ntop(socket.AF_INET6, b)

# ---- zone entries
def txt(name, *recs): return b'T' + B(name) + b'\0' + b''.join(B(r) + b'\0' for r in recs)
def txterr(name, c): return b't' + B(name) + b'\0' + bytes([c])
def A(name, *ips): return b'A' + B(name) + b'\0' + b''.join(ip16(i) for i in ips)
def Aerr(name, c): return b'a' + B(name) + b'\0' + bytes([c])
def A6(name, *ips): return b'6' + B(name) + b'\0' + b''.join(ip16(i) for i in ips)
def A6err(name, c): return b'7' + B(name) + b'\0' + bytes([c])
def MX(name, *ents):
    return b'M' + B(name) + b'\0' + b''.join(p.to_bytes(4, 'big') + bytes([len(ips)]) + b''.join(ip16(i) for i in ips) for p, ips in ents)
def MXerr(name, c): return b'm' + B(name) + b'\0' + bytes([c])
def N(ip, *names): return b'N' + ip16(ip) + b''.join(B(n) + b'\0' for n in names)
def Nerr(ip, c): return b'n' + ip16(ip) + bytes([c])

def case(domain, ip, zone, mailfrom='user@example.org', helo='helo.example.org', rhost='', heloname='mx.local.example'):
    i = ip16(ip)
    return ' '.join(['c1', hx(domain), hx(i), hx(iptext(i)), hx(mailfrom), hx(helo), hx(rhost), hx(heloname)] + [hx(z) for z in zone])

def parse_case(line):
    f = line.split()
    g = [b'' if x == '-' else bytes.fromhex(x) for x in f]
    return g

# ---- generators
NAMES = ['a.example', 'b.example', 'c.example', 'd.example', 'e.example', 'mail.f.example']
V4 = ['1.2.3.4', '1.2.3.5', '1.2.4.4', '10.0.0.1', '192.0.2.1', '128.2.3.4', '0.0.0.0', '255.255.255.255']
V6 = ['2001:db8::1', '2001:db8::2', '2001:db8:1::1', 'fe80::1', '::1', '8000::', '::', '1:2:3:4:5:6:7:8']
QUAL = ['', '', '', '+', '-', '~', '?']

def dom(rng, macros):
    r = rng.random()
    if r < 0.75:
        return rng.choice(NAMES)
    if macros and r < 0.9:
        return rng.choice(['%{d}', '%{o}', '%{d2}', '%{i}.e.example', '%{ir}.%{v}.e.example', '%{l}.%{o}', '%{h}', '%{d1r}.example',
                           '%{s}.a.example', '%%.%_.%-a.example', '%{l1r-}.a.example', '%{d}.%{D}', '%{p}', '%{p2}.example'])
    return rng.choice(['example', 'a.example.', '.', 'a..example', 'x', 'a.b1', 'a.1b', 'a.-b', 'a.b-', 'a.12', 'foo.a.example', 'a.e_x',
                       'A.EXAMPLE', 'a.example..', '-', 'a.ex\x7fample', 'a.exa\xe9mple', 'a.b'])

def cidr(rng):
    r = rng.random()
    if r < 0.6:
        return ''
    return rng.choice(['/24', '/32', '/0', '/8', '/7', '/33', '//64', '//128', '//129', '//0', '/24//64', '/24/64', '/', '//', '/x', '/-1', '/+5',
                       '/ 5', '/\x0b5', '/99999999999999999999', '/4294967300', '/24/', '/24//', '//-1', '/24//x', '/031', '/24//064', '/-0'])

def ip4lit(rng):
    r = rng.random()
    if r < 0.7:
        return rng.choice(V4)
    return rng.choice(['1.2.3', '1.2.3.4.5', '256.1.1.1', '01.2.3.4', '1.2.3.04', '1..2.3', '.1.2.3.4', '1.2.3.4.', '1.2.3.', '001.002.003.004',
                       '1.2.3.4a', '', '1234567', '1.2.3.444', '111.222.111.222', '1.2.3.4:5', '0.0.0.00'])

def ip6lit(rng):
    r = rng.random()
    if r < 0.7:
        return rng.choice(V6)
    return rng.choice(['::ffff:1.2.3.4', '1::2::3', '12345::', ':1', '1:', '::1.2.3', '1:2:3:4:5:6:7', '1:2:3:4:5:6:7:8:9', '1:2:3:4:5:6:1.2.3.4',
                       '1:2:3:4:5:6:7:1.2.3.4', '::g', 'abcd::ABCD', ':::', '1:::2', '::1.2.3.4.5', '1.2.3.4', '', '::', '0:0:0:0:0:0:0:0', '1::'])

def p4(rng):
    r = rng.random()
    if r < 0.5: return ''
    return rng.choice(['/24', '/32', '/8', '/7', '/0', '/33', '/', '/x', '/ 24', '/-1', '/+24', '/024', '/24x', '/18446744073709551640', '/16 '])

def p6(rng):
    r = rng.random()
    if r < 0.5: return ''
    return rng.choice(['/64', '/128', '/8', '/7', '/0', '/129', '/', '/x', '/ 64', '/-1', '/+64', '/064', '/64x', '/127'])

def term(rng, macros, weights=None):
    k = rng.random()
    q = rng.choice(QUAL)
    if k < 0.12: return q + 'all'
    if k < 0.24: return q + rng.choice(['a', 'A', 'a:' + dom(rng, macros), 'a', 'a:']) + cidr(rng)
    if k < 0.34: return q + rng.choice(['mx', 'MX', 'mx:' + dom(rng, macros), 'mx:']) + cidr(rng)
    if k < 0.42: return q + rng.choice(['ptr', 'ptr:' + dom(rng, macros), 'PTR', 'ptr:']) + (cidr(rng) if rng.random() < 0.2 else '')
    if k < 0.50: return q + rng.choice(['exists:' + dom(rng, macros), 'exists', 'exists:', 'exists:' + dom(rng, macros) + cidr(rng)])
    if k < 0.60: return q + rng.choice(['ip4:', 'ip4:', 'ip4:', 'IP4:', 'ip4', 'ip4/']) + ip4lit(rng) + p4(rng)
    if k < 0.70: return q + rng.choice(['ip6:', 'ip6:', 'ip6:', 'Ip6:', 'ip6', 'ip6/']) + ip6lit(rng) + p6(rng)
    if k < 0.86: return q + rng.choice(['include:' + dom(rng, macros), 'include:' + dom(rng, macros), 'include', 'include:', 'include:' + dom(rng, macros) + cidr(rng), 'INCLUDE:' + rng.choice(NAMES)])
    if k < 0.92: return rng.choice(['', '', q]) + 'redirect=' + dom(rng, macros) + (cidr(rng) if rng.random() < 0.15 else '')
    if k < 0.96: return rng.choice(['', '', q]) + 'exp=' + rng.choice(['x.' + rng.choice(NAMES), dom(rng, macros), ''])
    return rng.choice(['foo=bar', 'foo', 'f.o-o_1=x', '1a=b', 'a(b)', 'a\\b', '=x', 'all:x', 'allx', 'mxa', 'ax', 'a.b', 'ip4x', 'v=spf1', '+', '-', '!all',
                       'fo(o=', 'a\x7fb', 'a\xe9b', 'a\x01b', 'moo=%{d}' if macros else 'moo=x', 'foo=%{' if macros else 'foo=', '--all', '+-a', 'redirect', 'exp'])

def record(rng, macros, nterms=None):
    n = nterms if nterms is not None else rng.choice([0, 1, 1, 2, 2, 3, 3, 4, 5, 8, 12])
    sep = lambda: rng.choice([' ', ' ', ' ', ' ', '  ', '\t', ' \t ', '\r\n ', '\n'])
    ts = [term(rng, macros) for _ in range(n)]
    if rng.random() < 0.06:       # a modifier given twice (RFC 7208 6: permerror), the first one empty, non-empty or different in case
        m = rng.choice(['exp=', 'redirect='])
        vals = [rng.choice(['', '', 'x.' + rng.choice(NAMES), rng.choice(NAMES)]), rng.choice(['', 'x.' + rng.choice(NAMES), rng.choice(NAMES)])]
        ts = [t for t in ts if '=' not in t or rng.random() < 0.3]
        for v in vals:
            ts.insert(rng.randrange(len(ts) + 1), rng.choice([m, m, m.upper()]) + v)
    r = 'v=spf1'
    for t in ts:
        r += sep() + t
    if rng.random() < 0.1:
        r += sep()
    return r

def mutate(rng, s):
    b = bytearray(B(s))
    for _ in range(rng.choice([1, 1, 2, 3])):
        if not b: break
        k = rng.random()
        i = rng.randrange(len(b))
        if k < 0.3: b[i] = rng.choice(b' \t/:=%{}.-+?~()\\0129azAZ\x7f\x80\xff\x01\x0b')
        elif k < 0.5: del b[i]
        elif k < 0.7: b.insert(i, rng.choice(b' /:=%{}.-+rR1()\\\x7f\xe9'))
        elif k < 0.8: b[i:i] = b[i:i + rng.randrange(1, 8)]
        else: b = b[:i]
    return bytes(x for x in b if x != 0)

def gen_zone(rng, macros, client, mutated):
    z = []
    for nm in NAMES + ['x.' + n for n in NAMES[:3]]:
        r = rng.random()
        if nm.startswith('x.'):
            # explanation texts
            if r < 0.6:
                e = rng.choice(['explain %{d}' if macros else 'explain', 'plain text', 'ctl\x01\x02\x7f here', 'eight\xe9bit', 'tab\there', 'x' * 30, '',
                                'see http://%{d}/why?ip=%{c}&t=%{t}' if macros else 'see http://x/why', 'a(b)c\\d', 'line\r\nbreak', '%{' if macros else '{'])
                z.append(txt(nm, e, *(['second'] if rng.random() < 0.2 else [])))
            elif r < 0.7:
                z.append(txterr(nm, rng.randrange(1, 9)))
            continue
        if r < 0.72:
            rec = record(rng, macros)
            if mutated and rng.random() < 0.5:
                rec = mutate(rng, rec)
            recs = [rec]
            if rng.random() < 0.12: recs.insert(rng.randrange(2), rng.choice(['other text', 'v=spf10 -all', 'v=spf1x', 'v=spf1', 'v=spf1 -all', 'V=SPF1 -all', 'v=spf2 x']))
            z.append(txt(nm, *recs))
        elif r < 0.8:
            z.append(txterr(nm, rng.randrange(1, 9)))
        elif r < 0.83:
            z.append(b'T' + B(nm) + b'\0')
        # address data
        pool = V4 if is_v4(client) else V6
        r = rng.random()
        if r < 0.5:
            ips = [rng.choice(pool + [client]) for _ in range(rng.choice([1, 1, 2, 3]))]
            z.append((A if is_v4(client) else A6)(nm, *ips))
            if rng.random() < 0.2:
                z.append((A6 if is_v4(client) else A)(nm, rng.choice(V6 if is_v4(client) else V4)))
        elif r < 0.6:
            z.append((Aerr if is_v4(client) else A6err)(nm, rng.randrange(1, 4)))
        r = rng.random()
        if r < 0.4:
            ents = []
            for _ in range(rng.choice([1, 1, 2, 3, 9, 10, 11])):
                ents.append((rng.choice([0, 10, 20, 65535, 65536, 70000]) if rng.random() < 0.3 else 10,
                             [rng.choice(V4 + V6 + [client]) for _ in range(rng.choice([1, 1, 2]))]))
            z.append(MX(nm, *ents))
        elif r < 0.55:
            z.append(MXerr(nm, rng.randrange(1, 6)))
    r = rng.random()
    if r < 0.5:
        z.append(N(client, *[rng.choice(NAMES + ['mail.a.example', 'xa.example', 'a.example.com', 'A.EXAMPLE']) for _ in range(rng.choice([1, 1, 2, 3, 11, 12]))]))
    elif r < 0.65:
        z.append(Nerr(client, rng.randrange(1, 4)))
    rng.shuffle(z)
    return z

def gen_case(rng, macros=False, mutated=False):
    client = ip16(rng.choice(V4 + V4 + V6))
    z = gen_zone(rng, macros, client, mutated)
    d = rng.choice(NAMES)
    if rng.random() < 0.04:
        d = rng.choice(['garbage..domain', 'nodot', '', 'a.example.', '-.x', 'a.e' + 'x' * 70, 'a.b.c.d.e.f.example'])
    mf = rng.choice(['user@' + d if d else 'user@x.example', 'user@example.org', '', 'first.last+tag@sub.' + rng.choice(NAMES), 'x@a.example'])
    helo = rng.choice(['helo.example.org', 'a.example', ''])
    rhost = rng.choice(['', 'rh.example', 'a.example']) if helo else rng.choice(['rh.example', 'a.example'])
    return case(d, client, z, mailfrom=mf, helo=helo, rhost=rhost, heloname=rng.choice(['mx.local.example', 'h']))

# ---- streams aimed at the case splits of the proofs
def gen_limit_case(rng):
    """records whose number of DNS querying terms sits around the limit: flat, nested by include, chained by redirect, cyclic"""
    client = ip16(rng.choice(V4 + V6))
    v4 = is_v4(client)
    names = ['l%d.example' % i for i in range(14)]
    z = []
    dnsterm = lambda: rng.choice(['a', 'mx', 'a:b.example', 'exists:e.example', 'ptr', 'mx:c.example', '?a', '-mx'])
    other = lambda: rng.choice(['ip4:10.9.8.7', 'ip6:2001:db8:ffff::1', 'foo=bar', 'ip4:10.0.0.0/8'])
    shape = rng.choice(['flat', 'nest', 'chain', 'cycle', 'wrap', 'wrap', 'tree', 'tail'])
    final = rng.choice(['-all', '+all', '?all', '~all', '', 'ip4:' + (iptext(client) if v4 else '1.2.3.4'), 'ip6:' + (iptext(client) if not v4 else '::1')])
    if shape == 'flat':
        n = rng.choice([8, 9, 10, 10, 11, 11, 12, 13])
        ts = [dnsterm() for _ in range(n)]
        for _ in range(rng.choice([0, 0, 1, 3])):
            ts.insert(rng.randrange(len(ts) + 1), other())
        z.append(txt(names[0], 'v=spf1 ' + ' '.join(ts) + (' ' + final if final else '')))
    elif shape == 'nest':
        depth = rng.choice([3, 5, 9, 10, 11, 12])
        for i in range(depth):
            pre = [dnsterm() for _ in range(rng.choice([0, 0, 1, 2]))]
            post = [dnsterm() for _ in range(rng.choice([0, 0, 1, 2]))]
            z.append(txt(names[i], 'v=spf1 ' + ' '.join(pre + ['include:' + names[i + 1]] + post + [final])))
        z.append(txt(names[depth], 'v=spf1 ' + rng.choice(['-all', '+all', '?all', '', 'a', 'a a a'])))
    elif shape == 'chain':
        depth = rng.choice([3, 9, 10, 11, 12])
        for i in range(depth):
            pre = [dnsterm() for _ in range(rng.choice([0, 0, 1]))]
            z.append(txt(names[i], 'v=spf1 ' + ' '.join(pre + ['redirect=' + names[i + 1]])))
        z.append(txt(names[depth], 'v=spf1 ' + rng.choice(['-all', '+all', '?all', '', 'a'])))
    elif shape == 'cycle':
        k = rng.choice([1, 2, 3])
        for i in range(k):
            nxt = names[(i + 1) % k]
            z.append(txt(names[i], 'v=spf1 ' + rng.choice(['include:%s', 'redirect=%s', 'a include:%s -all', 'include:%s include:%s -all', 'redirect=%s include:%s',
                                                            '?include:%s redirect=%s exp=x.a.example']).replace('%s', nxt)))
    elif shape == 'wrap':
        # a loop (a record redirecting to / including itself, or a ring of 2..3) that is reached through an include or a
        # redirect of the record asked for, with terms behind the include: running into the limit inside the loop must end the
        # whole evaluation, it must not read as "the included record did not match"
        k = rng.choice([1, 1, 2, 3])
        ring = names[1:1 + k]
        for i in range(k):
            nxt = ring[(i + 1) % k]
            z.append(txt(ring[i], 'v=spf1 ' + rng.choice(['redirect=%s', 'redirect=%s', 'include:%s', 'include:%s -all', 'a redirect=%s', '?include:%s redirect=%s']).replace('%s', nxt)))
        pre = [rng.choice([dnsterm(), other()]) for _ in range(rng.choice([0, 0, 1]))]
        how = rng.choice(['include:%s', 'include:%s', '?include:%s', '-include:%s', 'redirect=%s'])
        z.append(txt(names[0], 'v=spf1 ' + ' '.join(pre + [how % ring[0]] + ([final] if final else []))))
    elif shape == 'tree':
        # every level includes an empty record and ends in a redirect: the shape that defeated the old counter
        depth = rng.choice([4, 9, 10, 11])
        for i in range(depth):
            z.append(txt(names[i], 'v=spf1 redirect=r%d.example include:%s' % (i, names[i + 1])))
            z.append(txt('r%d.example' % i, rng.choice(['v=spf1', 'v=spf1', 'v=spf1 ?all', 'v=spf1 -all'])))
        z.append(txt(names[depth], 'v=spf1'))
    else:
        # limit reached exactly at the end of the record, then redirect
        n = rng.choice([9, 10, 11])
        z.append(txt(names[0], 'v=spf1 redirect=%s %s' % (names[1], ' '.join(dnsterm() for _ in range(n)))))
        z.append(txt(names[1], rng.choice(['v=spf1', 'v=spf1 -all', 'v=spf1 a -all'])))
    if rng.random() < 0.3:
        z.append(txt('x.a.example', rng.choice(['because', 'no (really)', 'bad\x07bell'])))
    if rng.random() < 0.5:
        for nm in ['b.example', 'c.example', 'e.example'] + names[:2]:
            if rng.random() < 0.3:
                z.append((A if v4 else A6)(nm, rng.choice([client, ip16('1.2.3.9' if v4 else '2001:db8::9')])))
            if rng.random() < 0.15:
                z.append((Aerr if v4 else A6err)(nm, rng.randrange(1, 4)))
            if rng.random() < 0.2:
                z.append(MX(nm, (10, [rng.choice([client, ip16('1.2.3.9')])])))
    if rng.random() < 0.3:
        z.append(N(client, rng.choice(names[:2] + ['b.example'])))
    rng.shuffle(z)
    return case(names[0], client, z, rhost=rng.choice(['', 'rh.example']))

MPIECES = ['%{', '}', '%%', '%_', '%-', '%', '.', '-', '+', ',', '/', '_', '=', 'r', 'R', '0', '1', '2', '3', '9', '10', '128', 'a', 'example', '.example', '.com', 'x', ' '] \
    + list('slodiphcrtvSLODIPHCRTV') + ['q', '{', '%{d}', '%{i}', '%{l}', '%{o}', '%{s}', '%{h}', '%{p}', '%{v}', '%{ir}', '%{d2}', '%{l1r+}', '%{c}', '%{r}', '%{t}']

def macro_string(rng):
    if rng.random() < 0.55:
        s = ''
        for _ in range(rng.randrange(1, 4)):
            s += rng.choice(['', 'a.', 'x-', 'foo.'])
            s += '%{' + rng.choice('slodiphcrtvSLODIPHCRTV') + rng.choice(['', '', '1', '2', '3', '9', '10', '0', '00', '01', '99999999999']) + rng.choice(['', '', 'r']) \
                + ''.join(rng.choice('.-+,/_=') for _ in range(rng.choice([0, 0, 0, 1, 2, 3]))) + '}'
            s += rng.choice(['', '.', '.example', '._spf.example.com'])
        return s
    return ''.join(rng.choice(MPIECES) for _ in range(rng.randrange(1, 9)))

def gen_macro_case(rng):
    client = ip16(rng.choice(V4 + V6))
    m = macro_string(rng)
    z = []
    if rng.random() < 0.5:
        rec = 'v=spf1 ' + rng.choice(['a:', 'mx:', 'exists:', 'include:', 'ptr:', 'redirect=', 'foo=', 'exp=']) + m + rng.choice(['', '/24', ' -all', '//64 -all'])
    else:
        rec = 'v=spf1 -all exp=x.a.example'
        z.append(txt('x.a.example', m))
    z.append(txt('a.example', rec))
    r = rng.random()
    if r < 0.4:
        z.append(N(client, *[rng.choice(['a.example', 'mail.a.example', 'b.example', 'x']) for _ in range(rng.randrange(1, 4))]))
    elif r < 0.6:
        z.append(Nerr(client, rng.randrange(1, 4)))
    fam = A if is_v4(client) else A6
    z.append(fam('a.example', client)); z.append(fam('mail.a.example', client))
    mf = rng.choice(['user@a.example', '', 'first.last+tag-x=y_z,w/q@sub.a.example', 'a@b', '"quoted.local part"@a.example', 'x' * 64 + '@' + 'y.' * 100 + 'example',
                     '.@.', 'a..b@c..d', 'UPPER.Case@A.Example', 'a%b@c.example', 'caf\xe9@a.example'])
    helo = rng.choice(['helo.example.org', 'h', ''])
    return case('a.example', client, z, mailfrom=mf, helo=helo, rhost=rng.choice(['rh.example', ''] if helo else ['rh.example']),
                heloname=rng.choice(['mx.local.example', 'h.']))

def gen_sanitise_case(rng):
    """arbitrary bytes where the two sanitisers see them: in a token that is no term, and in the explanation"""
    client = ip16(rng.choice(V4))
    def junk(n, alphabet=None):
        if alphabet is None:
            return bytes(rng.choice([rng.randrange(1, 256), rng.randrange(1, 256), rng.choice(b'()\\%\x7f\x80\xff\x1f\x20\x21\x7e\t\r\n')]) for _ in range(n))
        return bytes(rng.choice(alphabet) for _ in range(n))
    z = []
    if rng.random() < 0.5:
        tok = bytes(b for b in junk(rng.randrange(1, 40)) if b not in (9, 10, 13, 32))
        pre = rng.choice([b'', b'a ', b'?all ', b'ip4:10.0.0.1 ', b'include:b.example '])
        post = rng.choice([b'', b' -all', b'  ', b'\t+all'])
        z.append(txt('a.example', b'v=spf1 ' + pre + rng.choice([b'', b'-', b'+', b'x', b'foo', b'a(']) + tok + post))
        z.append(txt('b.example', 'v=spf1 -all exp=x.a.example'))
        z.append(txt('x.a.example', junk(rng.randrange(0, 30), bytes(range(1, 128)))))
    else:
        z.append(txt('a.example', rng.choice(['v=spf1 -all exp=x.a.example', 'v=spf1 include:b.example -all exp=x.a.example', 'v=spf1 exp=x.a.example -ip4:1.2.3.4 -ip4:10.0.0.1',
                                              'v=spf1 redirect=b.example exp=x.a.example'])))
        z.append(txt('b.example', rng.choice(['v=spf1 -all exp=x.b.example', 'v=spf1 ?all', 'v=spf1 -all'])))
        hi = rng.random() < 0.25
        z.append(txt('x.a.example', bytes(b for b in junk(rng.randrange(0, 60), None if hi else bytes(range(1, 128))) if b != 37 or rng.random() < 0.1)))
        z.append(txt('x.b.example', junk(rng.randrange(0, 20), bytes(range(1, 128)))))
    rng.shuffle(z)
    return case('a.example', rng.choice([client, ip16('10.0.0.1')]), z)

def gen_rfc_case(rng):
    """zones whose records are all inside the strict macro-free RFC 7208 grammar: the stream on which the result of the
    implementation is compared with Spec/SpfRfc.v"""
    client = ip16(rng.choice(V4 + V4 + V6))
    v4 = is_v4(client)
    names = NAMES[:5]
    def d(): return rng.choice(names + ['sub.a.example', 'nx.example'])
    def c4(): return rng.choice(['', '', '', '/32', '/24', '/16', '/8', '/0', '/31', '/7' if rng.random() < 0.1 else '/9'])
    def c6(): return rng.choice(['', '', '', '//128', '//64', '//0', '//127', '//8'])
    def t():
        q = rng.choice(QUAL)
        k = rng.random()
        if k < 0.13: return q + 'all'
        if k < 0.28: return q + rng.choice(['a', 'a:' + d(), 'A:' + d()]) + c4() + c6()
        if k < 0.40: return q + rng.choice(['mx', 'mx:' + d(), 'MX']) + c4() + c6()
        if k < 0.48: return q + rng.choice(['ptr', 'ptr:' + d()])
        if k < 0.56: return q + 'exists:' + d()
        if k < 0.68:
            a = rng.choice(V4 + [iptext(client)] if v4 else V4)
            p = rng.choice(['', '', '/32', '/24', '/8', '/16', '/31', '/9', '/7' if rng.random() < 0.08 else '/10', '/0' if rng.random() < 0.05 else '/12'])
            return q + 'ip4:' + a + p
        if k < 0.78:
            a = rng.choice(V6 + [iptext(client)] if not v4 else V6)
            if a == '::' and rng.random() < 0.8: a = '::2'
            p = rng.choice(['', '', '/128', '/64', '/8', '/16', '/127', '/7' if rng.random() < 0.08 else '/9'])
            return q + 'ip6:' + a + p
        if k < 0.92: return q + 'include:' + d()
        if k < 0.96: return rng.choice(['foo=bar', 'x-y.z_1=a/b:c', 'ra=postmaster'])
        return 'exp=x.' + rng.choice(names)
    z = []
    for nm in names:
        r = rng.random()
        if r < 0.8:
            ts = [t() for _ in range(rng.choice([0, 1, 1, 2, 2, 3, 4, 6]))]
            if rng.random() < 0.3:
                ts.insert(rng.randrange(len(ts) + 1), 'redirect=' + (d() if rng.random() < 0.1 else rng.choice(names)))
            rec = 'v=spf1' + ''.join(rng.choice([' ', ' ', ' ', '  ']) + x for x in ts) + rng.choice(['', '', ' '])
            recs = [rec]
            if rng.random() < 0.1: recs.insert(rng.randrange(2), rng.choice(['other text', 'spf2.0/pra ?all', 'v=spf1 -all' if rng.random() < 0.3 else 'google-site-verification=x']))
            z.append(txt(nm, *recs))
        elif r < 0.85:
            z.append(txterr(nm, rng.choice([2, 5, 7])))
        else:
            z.append(txt(nm, 'v=spf1 ' + rng.choice(['-all', '?all', 'a -all', 'mx ~all'])))
        pool = V4 if v4 else V6
        fam, famerr = (A, Aerr) if v4 else (A6, A6err)
        r = rng.random()
        if r < 0.55:
            z.append(fam(nm, *[rng.choice(pool + [client]) for _ in range(rng.choice([1, 1, 2, 3]))]))
        elif r < 0.62:
            z.append(famerr(nm, 2))
        if not v4 and rng.random() < 0.3:
            z.append(A(nm, rng.choice(V4)))       # exists: always uses A
        r = rng.random()
        if r < 0.45:
            n = rng.choice([1, 1, 2, 3, 9, 10, 11]) if rng.random() < 0.12 else rng.choice([1, 1, 2, 3])
            z.append(MX(nm, *[(rng.choice([0, 10, 20, 65535]), [rng.choice(V4 + V6 + [client]) for _ in range(rng.choice([1, 1, 2]))]) for _ in range(n)]))
        elif r < 0.55:
            z.append(MXerr(nm, rng.choice([2, 4, 5])))
    r = rng.random()
    if r < 0.5:
        ptrs = [rng.choice(names + ['mail.a.example', 'xa.example', 'a.example.com', 'sub.a.example', 'mail.notb.example']) for _ in range(rng.choice([1, 1, 2, 3, 10, 11]))]
        z.append(N(client, *ptrs))
        for n in set(ptrs) - set(names):
            if rng.random() < 0.6:                      # forward-confirm the names outside the universe too (label boundary of ptr)
                z.append((A if v4 else A6)(n, client))
    elif r < 0.56:
        z.append(Nerr(client, rng.choice([2, 3])))
    for nm in ['x.' + n for n in names[:2]]:
        if rng.random() < 0.5: z.append(txt(nm, 'not allowed'))
    rng.shuffle(z)
    dom = rng.choice(names)
    return case(dom, client, z, mailfrom=rng.choice(['user@' + dom, '']), helo='helo.example.org', rhost=rng.choice(['rh.example', 'rh.example', '']))

def gen_ptr_case(rng):
    """the ptr mechanism at the label boundary: forward-confirmed PTR names that end in the target's characters with and
    without a dot in front, equal length but different, shorter, the target followed by other labels.  Records stay inside
    the strict grammar so that the RFC reference gives the expected result."""
    client = ip16(rng.choice(V4[:5] + V6[:4]))
    v4 = is_v4(client)
    T = rng.choice(['a.example', 'example.com', 'b.example', 'mail.c.example'])
    other = 'x' + T[1:] if T[0] != 'x' else 'y' + T[1:]
    pool = ['x' + T, 'mail.not' + T, 'not' + T, T + '.evil.test', T, 'mail.' + T, 'a.b.' + T, other, T[1:], T[2:], 'x.' + other, '-' + T, 'mail' + T,
            T.split('.', 1)[1], 'q.' + T.split('.', 1)[1], T.upper(), 'Mail.' + T.upper(), 'mail.' + T.capitalize(), 'X' + T.upper()]
    names = [rng.choice(pool) for _ in range(rng.choice([1, 1, 2, 3, 4]))]
    if rng.random() < 0.5:
        names[rng.randrange(len(names))] = rng.choice(pool[:4])      # a name that ends in the target without a label boundary
    dom = T if rng.random() < 0.6 else 'd.example'
    q = rng.choice(['', '', '+', '-', '~', '?'])
    mech = rng.choice(['ptr', 'ptr:' + T]) if dom == T else 'ptr:' + T
    rec = 'v=spf1 ' + rng.choice(['', 'ip4:10.9.8.7 ', 'include:e.example ']) + q + mech + rng.choice([' -all', ' ?all', '', ' ~all'])
    z = [txt(dom, rec), txt('e.example', 'v=spf1 ?all')]
    fam = A if v4 else A6
    otheraddr = '10.1.1.1' if v4 else '2001:db8::99'
    done = set()
    for n in names:
        if n in done: continue
        done.add(n)
        r = rng.random()
        if r < 0.8: z.append(fam(n, *( [otheraddr] if rng.random() < 0.3 else []), client))
        elif r < 0.9: z.append(fam(n, otheraddr))
    z.append(N(client, *names))
    rng.shuffle(z)
    return case(dom, client, z, mailfrom=rng.choice(['user@' + dom, '']), helo='helo.example.org', rhost=rng.choice(names))

"""Case generator for the `cdb` engine of C13: constant databases (valid, mutated at every pointer / length field,
truncated at every structure boundary) for the real cdb_seekmm() / vget_dir().  All randomness from the rng given."""
import struct

M32 = 0xffffffff


def chash(b):
    h = 5381
    for c in b:
        h = ((h + (h << 5)) & M32) ^ c
    return h


def hx(b):
    return b.hex() if b else '-'


class Db:
    """a constant database and where its parts are"""
    def __init__(self, recs, tables_first=False, slots_per=2):
        self.recs = recs
        hs = [chash(k) for k, _ in recs]
        sizes = [8 + len(k) + len(v) for k, v in recs]
        cnt = [0] * 256
        for h in hs:
            cnt[h & 255] += 1
        nsl = [slots_per * c for c in cnt]
        if tables_first:
            tpos, p = [], 2048
            for t in range(256):
                tpos.append(p); p += 8 * nsl[t]
            rpos = []
            for s in sizes:
                rpos.append(p); p += s
        else:
            rpos, p = [], 2048
            for s in sizes:
                rpos.append(p); p += s
            tpos = []
            for t in range(256):
                tpos.append(p); p += 8 * nsl[t]
        self.size = p
        b = bytearray(p)
        for t in range(256):
            struct.pack_into('<II', b, 8 * t, tpos[t], nsl[t])
        for (k, v), pos in zip(recs, rpos):
            struct.pack_into('<II', b, pos, len(k), len(v))
            b[pos + 8:pos + 8 + len(k)] = k
            b[pos + 8 + len(k):pos + 8 + len(k) + len(v)] = v
        for h, pos in zip(hs, rpos):
            t = h & 255
            n = nsl[t]
            s = (h >> 8) % n
            while struct.unpack_from('<I', b, tpos[t] + 8 * s + 4)[0]:
                s = (s + 1) % n
            struct.pack_into('<II', b, tpos[t] + 8 * s, h, pos)
        self.file, self.tpos, self.nsl, self.rpos, self.hs = bytes(b), tpos, nsl, rpos, hs

    def boundaries(self):
        """every offset at which a structure starts or ends"""
        s = {0, 1, 4, 8, 2040, 2044, 2047, 2048, self.size}
        for (k, v), p in zip(self.recs, self.rpos):
            s |= {p, p + 4, p + 8, p + 8 + len(k), p + 8 + len(k) + len(v)}
        for t in range(256):
            if self.nsl[t]:
                s |= {self.tpos[t] + 8 * j for j in range(self.nsl[t] + 1)} | {self.tpos[t] + 4}
        return sorted(s)


def field(*parts):
    return b'\0'.join(parts) + b'\0'


def value(rng, dom):
    """realdomain NUL uid NUL gid NUL path NUL (more) in several states of damage"""
    path = rng.choice([b'outer/dom', b'outer/dom///', b'/var/vpopmail/domains/' + dom, b'/', b'//', b'', b'x', b'a/b/', b'/' * 5])
    k = rng.random()
    if k < 0.6:
        return field(dom, b'89', b'89', path) + rng.choice([b'', b'-\0\0', b'junk'])
    if k < 0.7:
        return field(dom, b'89', b'89') + path                 # path not terminated
    if k < 0.8:
        return b'\0'.join([dom, b'89', b'89', path][:rng.randrange(0, 4)])     # fewer fields, no terminator
    if k < 0.9:
        return rng.choice([b'', b'\0', b'\0\0', b'\0\0\0', b'\0\0\0\0', b'\0\0\0/', b'\0\0\0//\0'])
    return bytes(rng.choice(b'ab/\0') for _ in range(rng.randrange(0, 12)))


COLL = [(b'vn13', b'vhw3'), (b'2rt3', b'0263'), (b'bh3.', b'l8m.')]      # "!" d "-" have equal cdb hashes
DOMS = [b'example.org', b'my-dom.example', b'a-b-c.de', b'x.y', b'mail.ex-ample.org', b'bounce.example.org', b'q', b'']


def key(d):
    return b'!' + d + b'-'


def u32vals(rng, db, around=()):
    v = [0, 1, 2, 7, 8, 9, 2047, 2048, 2049, db.size - 9, db.size - 8, db.size - 7, db.size - 1, db.size, db.size + 1, db.size + 8,
         0x7fffffff, 0x80000000, 0xfffffff8, 0xffffffff, (db.size // 8), (db.size - 2048) // 8, (db.size - 2048) // 8 + 1]
    for a in around:
        v += [a - 1, a, a + 1, a + 8, a - 8]
    return rng.choice(v) & M32


def gen_db(rng):
    doms = [d for d in DOMS if rng.random() < 0.5]
    if rng.random() < 0.5:
        a, b = rng.choice(COLL)
        doms += rng.choice([[a, b], [b, a], [a], [b]])
    if rng.random() < 0.2:
        doms.append(rng.choice(doms) if doms else b'dup')           # the same key twice: the first record counts
    if rng.random() < 0.15:
        doms += [b'n%d' % i for i in range(rng.randrange(1, 30))]
    rng.shuffle(doms)
    recs = [(key(d), value(rng, d)) for d in doms]
    if rng.random() < 0.1:
        recs.insert(rng.randrange(len(recs) + 1), (rng.choice([b'', b'\0', b'!a\0b-', b'!x.y', b'\xe4\xf6-']), b'v\0\0\0w\0'))
    return Db(recs, tables_first=rng.random() < 0.4, slots_per=rng.choice([2, 2, 2, 1, 3]))


def mutate(rng, db, k):
    """one damaged copy of db.file, aimed at the structures the lookup of key k touches"""
    b = bytearray(db.file)
    h = chash(k)
    t = h & 255
    m = rng.random()
    mine = [i for i, (kk, _) in enumerate(db.recs) if kk == k]
    if m < 0.25:        # header entry of the key's table (or of another one)
        tt = t if rng.random() < 0.8 else rng.randrange(256)
        off = 8 * tt + rng.choice([0, 4])
        struct.pack_into('<I', b, off, u32vals(rng, db, (db.tpos[tt], db.nsl[tt])))
        if rng.random() < 0.3:
            struct.pack_into('<I', b, 8 * tt + 4, u32vals(rng, db, (db.nsl[tt],)))
    elif m < 0.45 and db.nsl[t]:      # a slot of the key's table
        j = rng.randrange(db.nsl[t])
        if rng.random() < 0.5:
            j = (h >> 8) % db.nsl[t]
        off = db.tpos[t] + 8 * j
        what = rng.random()
        if what < 0.5:
            struct.pack_into('<I', b, off + 4, u32vals(rng, db, tuple(db.rpos[:3])))
            if rng.random() < 0.7:
                struct.pack_into('<I', b, off, h)
        elif what < 0.7:
            struct.pack_into('<I', b, off, rng.choice([h, h ^ 1, h ^ 256, 0]))
        else:           # fill every slot: no empty slot ends the walk
            for jj in range(db.nsl[t]):
                if not struct.unpack_from('<I', b, db.tpos[t] + 8 * jj + 4)[0]:
                    struct.pack_into('<II', b, db.tpos[t] + 8 * jj, rng.choice([h, 1]), rng.choice(db.rpos) if db.rpos else 2048)
    elif m < 0.6 and db.recs:        # key / data length of a record
        i = rng.choice(mine) if mine and rng.random() < 0.8 else rng.randrange(len(db.recs))
        p = db.rpos[i]
        kl, vl = len(db.recs[i][0]), len(db.recs[i][1])
        off = p + rng.choice([0, 4])
        room = db.size - p - 8
        struct.pack_into('<I', b, off, rng.choice([0, 1, kl - 1, kl, kl + 1, vl, vl + 1, room - kl - 1, room - kl, room - kl + 1, room, room + 1,
                                                   0x7fffffff, 0xffffffff, 0xfffffff8 - p]) & M32)
    elif m < 0.9:       # truncation at a structure boundary (and one byte to either side)
        cut = rng.choice(db.boundaries()) + rng.choice([-1, 0, 0, 1])
        return bytes(b[:max(0, min(cut, len(b)))])
    else:               # a few random bytes
        for _ in range(rng.randrange(1, 4)):
            if len(b):
                b[rng.randrange(len(b))] = rng.choice([0, 1, 255, rng.randrange(256)])
    return bytes(b)


def gen_cases(rng, tier):
    n = 1200 if tier == 'quick' else 12000
    out = sweep_cases()
    for i in range(n):
        db = gen_db(rng)
        keys = [k for k, _ in db.recs]
        if keys and rng.random() < 0.75:
            k = rng.choice(keys)
        else:
            k = rng.choice([key(rng.choice(DOMS)), key(rng.choice(COLL)[0]), b'', b'!', b'!a\0b-', b'!a\0c-', key(b'zz%d' % rng.randrange(100))])
        f = db.file if rng.random() < 0.3 else mutate(rng, db, k)
        if rng.random() < 0.5 and k[:1] == b'!' and k[-1:] == b'-' and b'\0' not in k:
            out.append('d2 %s %s' % (hx(f), hx(k[1:-1])))
        else:
            out.append('d1 %s %s' % (hx(f), hx(k)))
    for i in range(n // 10):          # the Gallina cdbmake against the C one, every key looked up in the result
        doms = [rng.choice(DOMS + [a for p in COLL for a in p] + [b'n%d' % rng.randrange(40)]) for _ in range(rng.randrange(0, 12))]
        recs = b''.join(bytes([len(key(d))]) + key(d) + bytes([len(v)]) + v for d in doms for v in [value(rng, d)[:200]])
        out.append('a1 %s' % hx(recs))
    return out


def sweep_cases():
    """deterministic: one small database (a colliding pair, a duplicate key, a plain record); for two of its keys every
    32 bit field the lookup touches is set to every boundary value, and the file is cut at every structure boundary +-1"""
    out = []
    for tf in (False, True):
        recs = [(key(b'vn13'), field(b'vn13', b'89', b'89', b'outer/dom//')), (key(b'x.y'), field(b'x.y', b'1', b'2', b'/p')),
                (key(b'vhw3'), field(b'vhw3', b'89', b'89', b'outer/missing')), (key(b'x.y'), field(b'x.y', b'1', b'2', b'/second'))]
        db = Db(recs, tables_first=tf)
        vals = sorted({0, 1, 7, 8, 9, 2047, 2048, 2049, db.size - 16, db.size - 9, db.size - 8, db.size - 7, db.size - 1, db.size, db.size + 1,
                       db.size + 8, 0x7fffffff, 0x80000000, 0xfffffff0, 0xfffffff8, 0xffffffff, (db.size - 2048) // 8, (db.size - 2048) // 8 + 1}
                      | set(db.rpos) | {p + 1 for p in db.rpos} | {p - 1 for p in db.rpos})
        for dom in (b'vhw3', b'x.y'):
            k = key(dom)
            h = chash(k)
            t = h & 255
            offs = [8 * t, 8 * t + 4]
            offs += [db.tpos[t] + 8 * j + d for j in range(db.nsl[t]) for d in (0, 4)]
            offs += [p + d for p, (kk, _) in zip(db.rpos, db.recs) if chash(kk) == h for d in (0, 4)]
            for o in offs:
                for v in vals:
                    b = bytearray(db.file)
                    struct.pack_into('<I', b, o, v & M32)
                    out.append('%s %s %s' % ('d2' if (o + v) % 3 == 0 else 'd1', hx(bytes(b)), hx(dom if (o + v) % 3 == 0 else k)))
            for cut in db.boundaries():
                if cut < 2048 and cut not in (0, 1, 2040, 2044, 2047, 8 * t, 8 * t + 4, 8 * t + 8):
                    continue
                for c in (cut - 1, cut, cut + 1):
                    if 0 <= c <= db.size:
                        out.append('d1 %s %s' % (hx(db.file[:c]), hx(k)))
                        if c >= db.size - 40:
                            out.append('d2 %s %s' % (hx(db.file[:c]), hx(dom)))
    return out

"""C05 — lines end only at CRLF, independent of TCP segmentation (lib/netio.c line reader)."""
import re
import runlib as R
import session_common as _sc

ID = 'C05'
COQ_TARGETS = ['Props/Properties_C05.vo', 'Props/Properties_C05_data.vo']
PROPS_FILES = ['Props/Properties_C05.v', 'Props/Properties_C05_data.v']
THEOREMS = ['C05_line_shape', 'C05_schedule_independent_clean', 'C05_no_smuggling_refuted', 'C05_schedule_independent_refuted',
            'C05_data_ends_at_lone_dot', 'C05_skip_ends_at_lone_dot', 'C05_skip_after_write_error']
ENGINES = [dict(name='netio', c_sources=['netio_h.c'], extract='Extract/Extract_netio.v', driver='netio_driver.ml',
                accepts=lambda c: c.startswith('bb ')),
           _sc.ENGINE]      # whole-program Qsmtpd: where the DATA command sees the end of the message (smtp_data on top of net_read)
RULE = ('case = (byte stream, two read() schedules); the real net_read() is iterated to connection end under each schedule and the item '
        'sequences (line / EINVAL / E2BIG with the number of unconsumed bytes) are compared with the extracted model item by item and '
        'checked by the extracted boolean specification (shape: every line is cut at a CRLF, has no CR/LF, <= 999 octets; resync: a line '
        'starts at the stream start or after CRLF; sched: error-collapsed sequences equal under both schedules). Streams: short ones over '
        '{a . CR LF}, generated line lengths 0..3 and 996..1004 and 2-3x the buffer with stray CR/LF injected; schedules: 1-byte reads, '
        'maximal reads, random, forced cuts around CR/LF and offsets 1000..1002. non-trivial = at least one line and one error item, or a line '
        'longer than 900 octets; distinct by case text. Engine session (whole Qsmtpd, see C02/C08): 300 (thorough 6000) sessions whose DATA payloads hold '
        'end-marker lookalikes - dot + NUL, dot + text, dots in the tail of over-long lines (999..3004 octets), behind a stray CR or bare LF, each behind '
        'lines of 0..2 octets, followed by lines that are commands if data mode ends too early, whole or cut into segments; replies and hand-offs '
        'compared with the extracted session model, well-formed payloads judged by handoff_msg_ok')
TRUSTED_BASE = [
    'Coq 8.16.1 kernel; vm_compute only for the two refutation witnesses and the example',
    'axioms: none (Closed under the global context for all three theorems)',
    'translator: LINEINBUF (sizeof lineinbuf) from lib/netio.c',
    'hand-written model coq/Model/NetRead.v of find_eol / readinput / loop_long / net_read, tied to lib/netio.c by the correspondence run (item sequences and consumed-byte counts)',
    'read()/poll() replaced in the harness by a schedule-driven stub: the kernel is modelled as delivering any non-empty prefix of the pending bytes',
    'extraction (ExtrOcamlBasic only), ocaml/netio_driver.ml, harness/netio_h.c, gcc ASan/UBSan build',
] + ['session engine: ' + x for x in _sc.TRUSTED_COMMON]
ASSUMPTIONS = [
    'plain-text connection (ssl == NULL); the TLS read path ssl_timeoutread is outside the model',
    'a read() returning 0 is a closed connection (dieerror); timeouts are not modelled',
    'DATA-mode consequences (where smtp_data sees the end of the message, what is queued) are decided by the session engine (second engine of this check; model coq/Model/Session.v, theorems C02_message / C02_message_checker_sound of property C02)',
]
LEVEL_TEXT = ('Coq theorem for all streams and all read schedules: every line handed out by the reader is a piece of the stream directly followed by CRLF, '
              'free of CR/LF, at most 999 octets (C05_line_shape); for every stream in which CR/LF occur only as CRLF the item sequence equals a schedule-free specification for ALL segmentations (C05_schedule_independent_clean). The stronger wording of the property (no resynchronisation inside a malformed line; '
              'schedule independence for all streams) is refuted for the faithful model by machine-checked witnesses that reproduce on the C '
              '(known findings F-C05-2, F-C05-3); every C run is additionally judged by the extracted boolean specification. DATA level (model of smtp_data on top of that reader): '
              'an accepted message consumed exactly its lines, none the lone dot, followed by ".CRLF" (C05_data_ends_at_lone_dot); the skipping of a rejected message ends exactly behind the '
              'first successfully read line that is the lone dot, never at another line or a read error (C05_skip_ends_at_lone_dot, C05_skip_after_write_error); tied to the binary by whole-program sessions.')
LEVEL_NOTE = ('Schedule independence is proved for clean streams (CR and LF only as CRLF) of any line lengths; for streams with stray CR/LF it is refuted with class (known findings) and two schedules per stream are compared in the correspondence run. '
              'Trusted: kernel, translator, extraction, harness stub for read(), generator quality.')
TECHNIQUE = 'Coq proof (suffix invariant over net_read steps, all schedules; induction over the skip loops of smtp_data); refutation witnesses by vm_compute; model-vs-C differential run with two schedules per stream and whole-program sessions'
DESIGN_REF = 'DESIGN.md section 5, C05'


def _stream(rng):
    mode = rng.random()
    out = bytearray()
    if mode < 0.25:
        # clean stream: CR and LF only as CRLF; line lengths around the limit
        for _ in range(rng.randrange(1, 7)):
            n = rng.choice([0, 1, 2, 3, 50, 997, 998, 999, 1000, 1001, 1002, 1003, 2003, 2500])
            out += bytes(rng.choice(b'ab.') for _ in range(n)) + b'\r\n'
        if rng.random() < 0.3:
            out += bytes(rng.choice(b'ab.') for _ in range(rng.choice([1, 5, 1001, 1500])))
        return bytes(out)
    mode = (mode - 0.25) / 0.75
    if mode < 0.45:
        for _ in range(rng.randrange(1, 30)):
            out.append(rng.choice(b'a.\r\n\r\n'))
        return bytes(out)
    for _ in range(rng.randrange(1, 6)):
        n = rng.choice([0, 1, 2, 3, 996, 997, 998, 999, 1000, 1001, 1002, 1003, 1004, 2003, 2004, 2005, 3000])
        line = bytearray(rng.choice(b'ab.') for _ in range(n))
        if rng.random() < 0.3 and n > 0:
            line[rng.randrange(n)] = rng.choice(b'\r\n')
        if rng.random() < 0.15 and n > 1000:
            line[rng.randrange(995, min(n, 1010))] = rng.choice(b'\r\n')
        if rng.random() < 0.2 and n > 2:
            i = rng.randrange(n - 1); line[i:i + 2] = b'\r\n'
        out += line + rng.choice([b'\r\n', b'\r\n', b'\r\n', b'\n', b'\r', b''])
    return bytes(out)


def _cuts(rng, s):
    n = len(s)
    m = rng.random()
    if m < 0.2:
        return bytes([255] * (n // 255 + 2))
    if m < 0.35:
        return b''
    if m < 0.6 and n:
        # cut exactly around every CR / LF and at 1000..1002
        marks = sorted({i + d for i, b in enumerate(s) if b in (10, 13) for d in (0, 1)} | {1000, 1001, 1002})
        out, pos = [], 0
        for mk in marks:
            while mk - pos > 255:
                out.append(255); pos += 255
            if mk > pos and rng.random() < 0.8:
                out.append(mk - pos); pos = mk
        return bytes(out[:400])
    return bytes(rng.choice([1, 2, 3, 5, 200, 255, 255, 255, 100, 231]) for _ in range(rng.randrange(1, 40)))


def gen_cases(engine, rng, tier):
    if engine == 'session':
        n = 300 if tier == 'quick' else 6000
        return [_sc.session_gen.case('relay=none;ip=%s;databytes=0;qq=ok,ok,ok,ok' % rng.choice(['v4', 'v6']), _sc.session_gen.data_end_session(rng)) for _ in range(n)]
    n = 1500 if tier == 'quick' else 40000
    out = []
    for _ in range(n):
        s = _stream(rng)
        out.append('bb %s %s %s' % (R.hx(s), R.hx(_cuts(rng, s)), R.hx(_cuts(rng, s))))
    return out


def _parse(c_out):
    runs, cur = [], []
    for t in c_out.split():
        if t == '||':
            runs.append(cur); cur = []
        else:
            cur.append(t)
    runs.append(cur)
    return runs


def nontrivial(case, c_out):
    if case.startswith('5e '):
        return _sc.nontrivial(case, c_out)
    toks = c_out.split()
    has_line = any(t.startswith('L') for t in toks)
    has_err = any(t.startswith('E') for t in toks)
    long_line = any(t.startswith('L') and len(t.split('@')[0]) > 1800 for t in toks)
    return (has_line and has_err) or long_line


# an over-long line is one with 1000 or more octets before its line end (999 + CRLF is the longest that fits lineinbuf);
# the class: a bare CR somewhere behind the first 1000 CR/LF-free octets of such a line
SCHED_CLASS = re.compile(rb'[^\r\n]{1000}[^\n]*\r(?!\n)', re.S)


def classify(case, c_out, spec_out):
    """known-finding classes (see known_findings.txt):
       resync-after-stray  every line that does not start after CRLF directly follows an error item (F-C05-2)
       sched-overlong-cr   schedule dependence on a stream with >= 1000 octets free of CR/LF followed, before the next LF, by a bare CR (F-C05-3)"""
    if not spec_out.startswith('bad:') or case.startswith('5e '):
        return None
    reasons = set(spec_out[4:].split(','))
    if 'shape' in reasons or 'clean' in reasons:
        return None
    stream = R.unhx(case.split()[1])
    if 'resync' in reasons:
        for run in _parse(c_out):
            left_prev, prev_err = len(stream), False
            for t in run:
                if t == 'DEAD':
                    break
                name, left = t.split('@'); left = int(left)
                if name.startswith('L'):
                    a = len(stream) - left_prev
                    after_crlf = a == 0 or (a >= 2 and stream[a - 2:a] == b'\r\n')
                    if not after_crlf and not prev_err:
                        return None
                    prev_err = False
                else:
                    prev_err = True
                left_prev = left
    if 'sched' in reasons and not SCHED_CLASS.search(stream):
        return None
    if 'sched' in reasons:
        return 'sched-overlong-cr'
    return 'resync-after-stray'


def distribution(results):
    d = dict(lines=0, einval=0, e2big=0, runs=0, spec_resync=0, spec_sched=0)
    d['session_cases'] = sum(1 for r in results if r['case'].startswith('5e '))
    d['session_handoffs'] = sum(1 for r in results if r['case'].startswith('5e ') for t in r['c'].split() if t.startswith('Q'))
    d['session_judged_by_spec'] = sum(1 for r in results if r['case'].startswith('5e ') and r['spec'] != 'pre')
    for r in results:
        if r['case'].startswith('5e '):
            continue
        for t in r['c'].split():
            if t.startswith('L'): d['lines'] += 1
            elif t.startswith('EINVAL'): d['einval'] += 1
            elif t.startswith('E2BIG'): d['e2big'] += 1
            elif t == 'DEAD': d['runs'] += 1
        if 'resync' in r['spec']: d['spec_resync'] += 1
        if 'sched' in r['spec']: d['spec_sched'] += 1
    return d

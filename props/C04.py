"""C04 — Qremote delivery reports are well-formed and never claim false success
(qremote/reply.c, client.c, envelope.c, qrdata.c:send_data, status.c, qremote.c)."""
import itertools
import runlib as R

ID = 'C04'
COQ_TARGETS = ['Props/Properties_C04.vo']
PROPS_FILES = ['Props/Properties_C04.v']
THEOREMS = ['C04_exit_wellformed', 'C04_reports_partial', 'C04_refuted', 'C04_classes_necessary', 'C04_checker_sound',
            'C04_connect_fix_present', 'C04_connect_reports', 'C04_connect_to_exit', 'C04_connect_refuted', 'C04_connect_spec_holds',
            'C04_loop_long_fix_present', 'C04_quitmsg_silent', 'C04_quit_refuted']
ENGINES = [dict(name='qrenv', c_sources=['qrenv_h.c'], extract='Extract/Extract_qrenv.v', driver='qrenv_driver.ml',
                accepts=lambda c: c.startswith('c4 ')),
           dict(name='qrconn', c_sources=['tlssw_h.c'], extract='Extract/Extract_qrconn.v', driver='qrconn_driver.ml',
                glue=('glue.ml', 'glue_z.ml'), accepts=lambda c: c.startswith('c9 '), shrink_from=3)]
SHRINK_FROM = 6      # fields 0..5 are positional (op ext rhost sender msg n)
RULE = ('cases = (extension set, sender, 0..5 recipients, server script); script = for each of MAIL FROM / every RCPT TO / DATA / '
        'end of data one reply drawn from {2xx, 3xx, 4xx, 5xx} x {one line, 2-3 lines, lines with differing codes, NUL inside a line} '
        'or a broken one {too short, non-digit, no separator, first digit 1 or 6, 8-bit digit, bare LF (EINVAL), over-long (E2BIG), '
        'read error, timeout, close, continuation line then any of these}; with and without PIPELINING/SIZE/8BITMIME; quick samples the '
        'product at random plus the full product over a reduced alphabet for one recipient; thorough is exhaustive for <= 2 recipients '
        'over the reduced alphabet; non-trivial = at least one recipient report and a message report were written; distinct by case text')
TRUSTED_BASE = [
    'Coq 8.16.1 kernel (coqc; coqchk in thorough); vm_compute for the refutation witnesses and the non-vacuity example; no native_compute',
    'axioms: none (Print Assumptions: Closed under the global context)',
    'translator tools/translators/qremote.py: regexes over qremote/{reply,client,envelope,qrdata,qremote,status}.c, statuscodes.h.tmpl, '
    'greeting.h produce coq/Gen/GenQremote.v (report letters and masks of the four checkreply call sites, reply-class bounds, netget digit '
    'bounds, exit-path texts, command templates, extension bits, whether a continuation line is measured with strlen)',
    'hand-written model coq/Model/QrEnvelope.v tied to the C by the correspondence run (byte-identical exit code, status stream and socket '
    'bytes; bounded by the generator); net_writen is the C10 model coq/Model/NetWriten.v',
    'boolean specification coq/Spec/QrReportSpec.v:spec_ok_C04 is the same function the theorems speak about and the one run on the C observations',
    'extraction with ExtrOcamlBasic only; ocaml/glue.ml + ocaml/qrenv_driver.ml (hex parsing, decimal message size, which messages are "simple")',
    'C harness harness/qrenv_h.c: the real qremote.c main() with lib/netio.c; read/poll/write/writev/exit/close/fstat/mmap redirected; MX lookup, '
    'connect and greeting stubbed (connect_mx sets smtpext from the case); gcc 12 -O1 ASan+UBSan vs. production build',
]
ASSUMPTIONS = [
    'the connection is established and the greeting/EHLO exchange is over: smtpext is an input (greeting.c, conn_mx.c, starttlsr.c are not modelled; no TLS)',
    'one net_read() result per script event; how lib/netio.c cuts a byte stream into lines is the subject of C05',
    'write() to the status pipe and to the socket succeeds completely; malloc/calloc succeed',
    'the message body as put on the wire by send_plain()/send_qp() is an opaque byte string (C06/C07); the correspondence run uses 7/8-bit messages with CRLF line ends that pass unchanged',
    'sender and recipients are C strings (argv); the model and the specification use their strlen() view',
    'QREMOTE_PEDANTIC_STATUS_CODES is OFF (CMake default; checked by the translator)',
]

# ------------------------------------------------------------------ case construction
RHOST = b'mx.example.net [192.0.2.25]'
MSGS = [b'Subject: t\r\n\r\nhi\r\n', b'', b'a\r\n', b'Subject: x\r\n\r\ngr\xfc\xdfe\r\n']

def ev(e):
    """event -> hex field"""
    if isinstance(e, bytes):
        return '00' + e.hex()
    return '%02x' % e

INVAL, TOOLONG, IOERR, TIMEOUT, CLOSE, OPEN_CLOSE, OPEN_SILENT = 1, 2, 3, 4, 5, 6, 7

def mkcase(ext, sender, rcpts, events, msg=MSGS[0], rhost=RHOST):
    return ' '.join(['c4', '%02x' % ext, R.hx(rhost), R.hx(sender), R.hx(msg), '%02x' % len(rcpts)] +
                    [R.hx(r) for r in rcpts] + [ev(e) for e in events])

def parse(case):
    f = case.split()
    ext = int(f[1], 16); n = int(f[5], 16)
    rc = [R.unhx(x) for x in f[6:6 + n]]
    evs = []
    for x in f[6 + n:]:
        b = bytes.fromhex(x)
        evs.append(b[1:] if b[0] == 0 else b[0])
    return dict(ext=ext, rhost=R.unhx(f[2]), sender=R.unhx(f[3]), msg=R.unhx(f[4]), rcpts=rc, script=evs)

# ------------------------------------------------------------------ the reply grammar (mirror of Spec/QrReportSpec.v)
def line_code(l):
    if not isinstance(l, bytes) or len(l) < 4:
        return None
    if not (0x32 <= l[0] <= 0x35 and 0x30 <= l[1] <= 0x39 and 0x30 <= l[2] <= 0x39 and l[3] in (0x20, 0x2d)):
        return None
    return (l[0] - 48) * 100 + (l[1] - 48) * 10 + (l[2] - 48)

def take_reply(scr):
    """('whole', code, multi, rest) | ('first',) | ('cont', code)"""
    if not scr or line_code(scr[0]) is None:
        return ('first',)
    c = line_code(scr[0])
    if scr[0][3] != 0x2d:
        return ('whole', c, False, scr[1:])
    k = 1
    while True:
        if k >= len(scr) or line_code(scr[k]) is None:
            return ('cont', c)
        if scr[k][3] != 0x2d:
            return ('whole', c, True, scr[k + 1:])
        k += 1

def reply_at(i, scr):
    for _ in range(i):
        r = take_reply(scr)
        if r[0] != 'whole':
            return ('first',)
        scr = r[3]
    return take_reply(scr)

def cstr(b):
    i = b.find(b'\0')
    return b if i < 0 else b[:i]

def classes(case):
    """names of the known-finding classes the input is in"""
    p = parse(case)
    n, scr, out = len(p['rcpts']), p['script'], []
    pipel = bool(p['ext'] & 2)
    r0 = take_reply(scr)
    # F-C04-5
    if pipel and n and r0[0] == 'whole' and not 200 <= r0[1] <= 299:
        s, ok = r0[3], True
        for _ in range(n):
            r = take_reply(s)
            if r[0] != 'whole':
                ok = False
                break
            s = r[3]
        if not ok:
            out.append('dup_message_report')
    if r0[0] == 'whole' and 200 <= r0[1] <= 299:
        # F-C04-2
        s, acc = r0[3], False
        for _ in range(n):
            r = take_reply(s)
            if r[0] == 'whole':
                acc = acc or 200 <= r[1] <= 299
                s = r[3]
                continue
            if r[0] == 'cont' and acc and not 200 <= r[1] <= 299:
                out.append('merged_exit_report')
            break
        # F-C04-3
        s = r0[3]
        for _ in range(n):
            r = take_reply(s)
            if r[0] == 'first':
                break
            if 300 <= r[1] <= 399:
                out.append('rcpt_3xx')
                break
            if r[0] == 'cont':
                break
            s = r[3]
    # F-C04-4
    if not pipel:
        size = b' SIZE=' + str(len(p['msg'])).encode() + b' BODY=8BITMIME'
        if len(b'MAIL FROM:<' + cstr(p['sender']) + b'>' + size) + 2 > 512 or \
           any(len(b'RCPT TO:<' + cstr(r) + b'>') + 2 > 512 for r in p['rcpts']):
            out.append('long_command')
    # F-C04-6
    r = reply_at(n + 1, scr)
    if (r[0] == 'whole' and r[1] == 354 and r[2]) or (r[0] == 'cont' and r[1] == 354):
        out.append('multiline_354')
    return out

def classify(case, c_out):
    if case.startswith('c9 '):
        return None
    cl = classes(case)
    return cl[0] if cl else None

# ------------------------------------------------------------------ generators
def reply_alphabet(rng=None):
    """name -> list of events for one reply"""
    return {
        '2': [b'250 ok'], '4': [b'451 try later'], '5': [b'550 no such user'], '3': [b'354 go ahead'], '3b': [b'334 what'],
        '2m': [b'250-first', b'250-second', b'250 last'], '4m': [b'450-a', b'450 b'], '5m': [b'552-too', b'552-much', b'552 mail'],
        '3m': [b'354-go', b'354 ahead'],
        '2mx': [b'250-ok', b'550 but no'], '5mx': [b'550-no', b'250 but yes'], '3mx': [b'354-go', b'250 done'],
        '2nul': [b'250 o\0k'], '5nul': [b'550 n\0Kx'], '4mnul': [b'451-a\0Kfake', b'451 b'], '5mnul': [b'550-a\0Kfake\0r', b'550-b\0', b'550 c'],
        '2mnul': [b'250-a\0Dfake', b'250 b'],
        'short': [b'25'], 'short3': [b'250'], 'empty': [b''], 'alpha': [b'2a0 x'], 'nosep': [b'250x'], 'low': [b'199 low'], 'high': [b'600 high'],
        'bit8': [b'2\xb50 x'], 'nul0': [b'\x00250 x'],
        'inval': [INVAL], 'toolong': [TOOLONG], 'ioerr': [IOERR], 'timeout': [TIMEOUT], 'close': [CLOSE], 'end': [],
        '2c-close': [b'250-a', CLOSE], '4c-close': [b'451-a', CLOSE], '5c-inval': [b'550-a', b'550-b', INVAL], '4c-short': [b'451-a', b'45'],
        '5c-timeout': [b'550-a', TIMEOUT], '4c-ioerr': [b'450-a', IOERR], '2c-toolong': [b'250-a', TOOLONG], '3c-close': [b'354-a', CLOSE],
        '5c-end': [b'550-a'], '4c-alpha': [b'421-x', b'4x1 y'],
        # 1500 octets that never see a CRLF, then close / silence (the loop_long() path of lib/netio.c)
        'open-close': [OPEN_CLOSE], 'open-silent': [OPEN_SILENT], '4c-open-close': [b'451-a', OPEN_CLOSE], '2c-open-silent': [b'250-a', OPEN_SILENT],
    }

# what the server does in the QUIT exchange
QUITS = {
    'bye': [b'221 bye'], 'multi': [b'221-bye', b'221-see you', b'221 soon'], 'multi-open': [b'221-bye'], 'junk': [b'x'], 'empty': [b''],
    'wrong': [b'500 what'], 'nul': [b'221 a\0Kfake'], 'toolong': [TOOLONG], 'inval': [INVAL], 'ioerr': [IOERR], 'timeout': [TIMEOUT], 'close': [CLOSE],
    'none': [], 'open-close': [OPEN_CLOSE], 'open-silent': [OPEN_SILENT], 'multi-open-close': [b'221-bye', OPEN_CLOSE],
    'multi-open-silent': [b'221-a', b'221-b', OPEN_SILENT], 'toolong-bye': [TOOLONG, b'221 bye'],
}

REDUCED = ['2', '4', '5', '3', '2m', '5m', '3m', 'short', 'close', '4c-close', '2c-close', '5mnul']
# scripts that run through to each of the clean exits (K / Z / D behind the final dot, DATA refused, all recipients refused, MAIL FROM refused)
TO_QUIT = [['2', '2', '3', '2'], ['2', '2', '3', '4'], ['2', '2', '3', '5m'], ['2', '2', '4'], ['2', '2', '5'], ['2', '5'], ['2', '4m'], ['5'], ['4m'], ['2', '2m', '3', '2m']]
EXTS = [0, 1, 2, 3, 8, 9, 10, 11]
NAMES = [b'a@example.org', b'bob@example.net', b'', b'x', b'very.long.local.part.to.make.it.longer@sub.domain.example.com', b'c@d.e', b'"q q"@f.g']

def script_of(alpha, names):
    evs = []
    for nm in names:
        r = alpha[nm]
        evs += r
        if nm == 'end':
            break
    return evs

# ------------------------------------------------------------------ connect phase (engine qrconn)
def conn_fields(pre, flags=0, tlsa=b'', hs=0, vfy=0, post=(), tls=()):
    return ['%02x' % flags, R.hx(tlsa), '%02x' % hs, '%02x' % vfy, '%02x' % len(pre), '%02x' % len(post), '%02x' % len(tls)] + \
           [R.hx(x) for x in pre] + [R.hx(x) for x in post] + [R.hx(x) for x in tls]

def conn_case(conns, route=0):
    f = ['c9', '%02x' % route, '%02x' % len(conns)]
    for c in conns:
        f += c
    return ' '.join(f)

SILENT, DUP2, NAMED, PINFILE, PINLOAD = 8, 16, 1, 2, 4
LONG = b'220 ' + b'x' * 1100
GREETINGS = {
    'none': [], 'ok': [b'220 mx ESMTP'], 'ok-multi': [b'220-mx', b'220-hello', b'220 ready'],
    'mixed': [b'220-mx', b'250 ready'], 'mixed2': [b'220-mx', b'554-no', b'220 x'], 'cont-end': [b'220-mx'],
    '554': [b'554 go away'], '421m': [b'421-busy', b'421 later'], '451': [b'451 x'], '250': [b'250 hi'],
    'short': [b'22'], 'alpha': [b'hello'], 'nosep': [b'220x'], 'empty': [b''], 'low': [b'120 x'], 'nul': [b'220 a\0b'],
    'long': [LONG], 'cont-bad': [b'220-mx', b'xyz'], 'cont-long': [b'220-mx', LONG],
}
EHLOS = {
    'none': [], 'plain': [b'250 mx'], 'exts': [b'250-mx', b'250-PIPELINING', b'250-8BITMIME', b'250 SIZE 1000'],
    'size-bad': [b'250-mx', b'250-SIZE abc', b'250 PIPELINING'], 'pipe-arg': [b'250-mx', b'250 PIPELINING x'],
    'auth': [b'250-mx', b'250-AUTH PLAIN LOGIN', b'250 SMTPUTF8'], 'mixed': [b'250-mx', b'550 no'], 'cont-end': [b'250-mx', b'250-SIZE'],
    'cont-bad': [b'250-mx', b'25'], 'long': [b'250-mx', b'250-' + b'y' * 1200, b'250 ok'],
    'helo-ok': [b'500 what', b'250 mx'], 'helo-multi': [b'502-no', b'502 ehlo', b'250-mx', b'250 hi'], 'helo-no': [b'500 what', b'500 what'],
    'helo-4xx': [b'500 what', b'421 bye'], 'helo-end': [b'500 what'], 'helo-mixed': [b'500 what', b'250-mx', b'550 x'],
    '421': [b'421 closing'], 'tls': [b'250-mx', b'250-STARTTLS', b'250 PIPELINING'],
}
TAILS = {'bye': [b'221 bye'], 'none': [], 'multi': [b'221-bye', b'221 now'], 'long': [LONG], 'junk': [b'x']}
# the QUIT exchange: (lines, unterminated rest)
OPEN = b'221 ' + b'z' * 1496
QUIT_SHAPES = {
    'bye': ([b'221 bye'], None), 'multi': ([b'221-bye', b'221-see you', b'221 soon'], None), 'multi-open': ([b'221-bye'], None),
    'none': ([], None), 'junk': ([b'x'], None), 'empty': ([b''], None), 'wrong': ([b'500 what'], None), 'long': ([LONG], None),
    'long-bye': ([LONG, b'221 bye'], None), 'open': ([], OPEN), 'multi-then-open': ([b'221-bye'], OPEN), 'half': ([], b'221 by'),
    'cr': ([], b'221 bye\r'), 'barelf': ([], b'221 bye\n221 x\r\n'), 'open-cr': ([], b'z' * 1000 + b'\r'), 'open-cr-more': ([], b'z' * 1000 + b'\rzz'), 'two': ([b'221 bye', b'221 again'], None),
}

def segments(rng, lines, unterminated=None):
    """lines -> read() segments: one per line / all in one / cut at random places"""
    data = b''.join(l + b'\r\n' for l in lines)
    if unterminated is not None:
        data += unterminated
    if not data:
        return []
    mode = rng.random()
    if mode < 0.45:
        segs = [l + b'\r\n' for l in lines] + ([unterminated] if unterminated else [])
    elif mode < 0.7:
        segs = [data]
    else:
        cuts = sorted(rng.randrange(1, len(data)) for _ in range(rng.randrange(1, 4))) if len(data) > 1 else []
        segs, a = [], 0
        for c in cuts + [len(data)]:
            if c > a:
                segs.append(data[a:c]); a = c
    return [x for x in segs if x][:200]

def gen_conn(rng, last):
    gk, ek = sorted(GREETINGS), sorted(EHLOS)
    good = rng.random() < (0.55 if last else 0.25)
    g = rng.choice(['ok', 'ok', 'ok-multi']) if good or rng.random() < 0.4 else rng.choice(gk)
    e = rng.choice(['plain', 'exts', 'auth', 'helo-ok', 'helo-multi']) if good else rng.choice(ek)
    t = rng.choice(sorted(TAILS))
    lines = list(GREETINGS[g])
    flags = 0
    if g in ('ok', 'ok-multi'):
        lines += EHLOS[e]
        lines += TAILS[t]
    else:
        lines += rng.choice([[], [b'221 bye'], [b'221-a', b'221 b']])       # what answers the QUIT
    unterminated = rng.choice([None, None, None, b'220 unfinished', b'2', b'250-x\r', b'z' * 1500])
    if rng.random() < 0.45:
        flags |= SILENT
    if rng.random() < 0.03:
        flags |= DUP2
    if rng.random() < 0.3:
        flags |= NAMED
        if rng.random() < 0.15:
            flags |= PINFILE | (PINLOAD if rng.random() < 0.7 else 0)
    tlsa = b''
    if flags & NAMED and rng.random() < 0.1:
        tlsa = bytes([3, rng.choice([0, 1, 2])])
    post, tls, hs = [], [], 0
    if e == 'tls':
        pre_lines = list(GREETINGS[g]) + EHLOS[e] + rng.choice([[b'220 go'], [b'220 go'], [b'454 no tls'], [b'220-go', b'220 ahead'], []])
        hs = rng.choice([0, 0, 0, 1, 2, 4])
        tls = segments(rng, rng.choice([EHLOS['plain'], EHLOS['exts'], [b'500 what', b'250 mx'], [], [b'421 x']]) + TAILS[t])
        post = segments(rng, rng.choice([[], [b'221 bye']]))
        return conn_fields(segments(rng, pre_lines, unterminated if rng.random() < 0.2 else None), flags, tlsa, hs, rng.choice([0, 0, 18]), post, tls)
    return conn_fields(segments(rng, lines, unterminated), flags, tlsa)

def gen_conn_cases(rng, tier):
    out = []
    # every greeting x every EHLO answer x (closes | stays silent), one MX, one line per segment
    for g in sorted(GREETINGS):
        for fl in (0, SILENT):
            out.append(conn_case([conn_fields([l + b'\r\n' for l in GREETINGS[g]], fl)]))
    for e in sorted(EHLOS):
        if e == 'tls':
            continue
        for fl in (0, SILENT):
            out.append(conn_case([conn_fields([l + b'\r\n' for l in [b'220 mx'] + EHLOS[e]], fl)]))
            out.append(conn_case([conn_fields([l + b'\r\n' for l in [b'220 mx'] + EHLOS[e] + [b'221 bye']], fl)]))
    # every exit that goes through quitmsg() x every shape of the QUIT exchange x (server closes | stays silent)
    G, E = [b'220 mx ESMTP'], [b'250-mx', b'250 PIPELINING']
    ET = [b'250-mx', b'250 STARTTLS']
    for q in sorted(QUIT_SHAPES):
        lines, rest = QUIT_SHAPES[q]
        for fl in (0, SILENT):
            def pre(head, cut):
                segs = [l + b'\r\n' for l in head + lines] + ([rest] if rest else [])
                if cut and rest and len(rest) > 600:
                    segs = segs[:-1] + [rest[:700], rest[700:]]
                return segs
            for cut in (False, True):
                out.append(conn_case([conn_fields(pre(G + E, cut), fl)]))                                  # behind send_envelope()
                out.append(conn_case([conn_fields(pre(G + E, cut), fl | NAMED | PINFILE | PINLOAD)]))      # pinned host without TLS: Z4.5.0, clean shutdown
                out.append(conn_case([conn_fields(pre(G + ET, cut), fl | NAMED | PINFILE)]))               # tls_init() cannot load the pinned certificate
                out.append(conn_case([conn_fields(pre([b'hello'], cut), fl), conn_fields(pre(G + E, False), 0)]))   # invalid greeting: QUIT, next MX
                out.append(conn_case([conn_fields(pre(G + E, cut), fl), conn_fields(pre(G + E, False), 0)], route=1))  # no STARTTLS but client certificate: QUIT, next MX
    n = 900 if tier == 'quick' else 40000
    for _ in range(n):
        k = rng.choice([1, 1, 2, 2, 3, 4])
        out.append(conn_case([gen_conn(rng, i == k - 1) for i in range(k)], route=1 if rng.random() < 0.08 else 0))
    return out

def gen_cases(engine, rng, tier):
    if engine == 'qrconn':
        return gen_conn_cases(rng, tier)
    alpha = reply_alphabet()
    keys = sorted(alpha)
    out = []
    def rc(n):
        return [rng.choice(NAMES) for _ in range(n)]
    # 1. the full product over the reduced alphabet: one recipient (quick, one extension set per case at random),
    #    one and two recipients with and without PIPELINING (thorough)
    if tier == 'quick':
        for combo in itertools.product(REDUCED, repeat=4):
            if rng.random() < 0.08:
                out.append(mkcase(rng.choice(EXTS), b's@example.org', rc(1), script_of(alpha, combo)))
    else:
        for n in (1, 2):
            for combo in itertools.product(REDUCED, repeat=n + 3):
                if n == 2 and rng.random() < 0.5:
                    continue
                for ext in (0, 2):
                    out.append(mkcase(ext | rng.choice([0, 1, 8, 9]), b's@example.org', rc(n), script_of(alpha, combo)))
    # 1b. every clean exit x every shape of the QUIT exchange, with and without PIPELINING
    for path in TO_QUIT:
        for q in sorted(QUITS):
            for ext in (0, 2):
                out.append(mkcase(ext | rng.choice([0, 1, 8, 9]), b's@example.org', rc(1), script_of(alpha, path) + QUITS[q]))
    # 2. random scripts over the whole alphabet, biased towards getting far
    N = 2200 if tier == 'quick' else 60000
    good = {'mail': ['2', '2m', '2nul'], 'rcpt': ['2', '2m', '4', '5', '4m', '5m'], 'data': ['3'], 'dot': ['2', '2m', '4', '5', '5m']}
    for _ in range(N):
        n = rng.choice([1, 1, 2, 2, 3, 3, 4, 5, 0]) if rng.random() < 0.97 else rng.randrange(6, 12)
        stages = ['mail'] + ['rcpt'] * n + ['data', 'dot']
        names = []
        wild = rng.random()
        for st in stages:
            if rng.random() < (0.75 if wild < 0.8 else 0.3):
                names.append(rng.choice(good[st]))
            else:
                names.append(rng.choice(keys))
        evs = script_of(alpha, names)
        if rng.random() < 0.1:
            evs += script_of(alpha, [rng.choice(keys) for _ in range(rng.randrange(1, 4))])
        elif rng.random() < 0.3:
            evs += QUITS[rng.choice(sorted(QUITS))]
        ext = rng.choice(EXTS)
        msg = rng.choice(MSGS[:3]) if not (ext & 8) else rng.choice(MSGS)
        sender = rng.choice(NAMES + [b's@example.org'] * 3)
        rcpts = rc(n)
        if rng.random() < 0.02:       # over-long command lines
            L = rng.choice([480, 495, 496, 497, 498, 499, 500, 501, 502, 520, 700])
            if rng.random() < 0.5:
                sender = b'a' * L + b'@x.org'
            elif rcpts:
                rcpts[rng.randrange(len(rcpts))] = b'b' * L + b'@y.org'
        out.append(mkcase(ext, sender, rcpts, evs, msg=msg))
    # 3. free-form lines: random bytes around the reply syntax
    for _ in range(300 if tier == 'quick' else 6000):
        n = rng.randrange(1, 4)
        evs = []
        for _ in range(rng.randrange(0, n + 5)):
            if rng.random() < 0.12:
                evs.append(rng.choice([INVAL, TOOLONG, IOERR, TIMEOUT, CLOSE]))
                continue
            d = bytes([rng.choice(b'1234569a\x00 '), rng.choice(b'0123456789x'), rng.choice(b'0459 -')])
            l = d + bytes([rng.choice(b' -  --x\x00')]) + bytes(rng.choice(b'abc \x00\n\rKZDrsh\xff') for _ in range(rng.randrange(0, 6)))
            l = l.replace(b'\n', b'').replace(b'\r', b'')
            if rng.random() < 0.1:
                l = l[:rng.randrange(0, 5)]
            evs.append(l)
        out.append(mkcase(rng.choice(EXTS) & ~8, b's@example.org', rc(n), evs))
    return out

def nontrivial(case, c_out):
    if case.startswith('c9 '):
        # more than one connection attempt, or a connection that got as far as EHLO
        return c_out.count(' C') > 1 or ' Wc45484c4f' in c_out
    f = c_out.split()
    if len(f) != 6 or f[0] != 'EXIT':
        return False
    reps = R.unhx(f[3]).split(b'\0')[:-1]
    return any(r[:1] in (b'r', b's', b'h') for r in reps) and any(r[:1] in (b'K', b'Z', b'D') for r in reps)

def distribution(results):
    d = {}
    dc = {'exit_in_connect_phase_with_report': 0, 'reached_send_envelope': 0, 'silent_first_greeting': 0}
    for r in results:
        if r['case'].startswith('c9 '):
            t = r['c'].split()
            if any(x.startswith('M') for x in t):
                dc['reached_send_envelope'] += 1
            elif any(x.startswith('S') for x in t):
                dc['exit_in_connect_phase_with_report'] += 1
            if 'S5a342e342e31' in t and not any(x.startswith('W') for x in t):
                dc['silent_first_greeting'] += 1
            continue
        f = r['c'].split()
        if len(f) != 6 or f[0] != 'EXIT':
            k = f[0] if f else 'empty'
        else:
            reps = R.unhx(f[3]).split(b'\0')[:-1]
            k = 'letters:' + ''.join(chr(x[0]) if x else '?' for x in reps)
            if len(k) > 14:
                k = k[:14] + '+'
        d[k] = d.get(k, 0) + 1
    top = dict(sorted(d.items(), key=lambda kv: -kv[1])[:40])
    top['classes'] = {}
    top['connect_phase'] = dc
    for r in results:
        if r['case'].startswith('c9 '):
            continue
        for c in classes(r['case']):
            top['classes'][c] = top['classes'].get(c, 0) + 1
    return top

LEVEL_TEXT = ('Machine-checked Coq theorems over an executable model of Qremote from the established connection on (netget, checkreply, '
              'send_envelope with and without PIPELINING, the reply handling of send_data, the status writers, quitmsg/net_conn_shutdown, main): '
              'for every server script, every recipient list and every extension set the process exits 0 and the status stream is a non-empty '
              'sequence of NUL-terminated reports each starting with one of r s h K Z D (unconditional); outside five decidable classes of scripts '
              '(recorded findings, each with a proved counterexample) the whole property holds as checked by spec_ok_C04: <= 1 recipient report per '
              'recipient in order with r/s/h exactly for 2xx/4xx/5xx, then <= 1 of K/Z/D, present when a recipient was accepted or none reported, '
              'K only for a 2xx answer to the end of data, commands = MAIL FROM:<sender> then RCPT TO:<r_i> once each in order, DATA only after an '
              'accepted recipient. Constants are regenerated from the C on every run; the model is tied to the C by a differential run under ASan.')
LEVEL_NOTE = ('Trusted: Coq kernel, translator regexes, extraction, harness, generator quality of the correspondence run. Not covered: connection '
              'establishment and greeting/EHLO/STARTTLS (smtpext is an input), TLS, byte-stream-to-line cutting of lib/netio.c (C05), message encoding (C06/C07), '
              'failing writes. Five known-finding classes are excluded by hypothesis and reported as KNOWN-FINDING.')
TECHNIQUE = ('Coq: symbolic-execution lemmas per C function against a reply-grammar parse of the script, induction over recipients and continuation lines; '
             'boolean specification shared between theorem and run-time checker; translator-regenerated constants; model-vs-C differential run')
DESIGN_REF = 'DESIGN.md section 5, C04; section 7 F-C04-1'

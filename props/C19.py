"""C19 — BDAT chunks are framed exactly and chunk boundaries never alter the message
(qremote/qrbdat.c:send_bdat, qsmtpd/data.c:smtp_bdat)."""
import itertools
import runlib as R

ID = 'C19'
COQ_TARGETS = ['Props/Properties_C19.vo']
PROPS_FILES = ['Props/Properties_C19.v']
SHRINK_FROM = 2
THEOREMS = ['C19_tx', 'C19_tx_exact']
ENGINES = [dict(name='bdat', c_sources=['bdat_h.c'], extract='Extract/Extract_bdat.v', driver='bdat_driver.ml',
                accepts=lambda c: c.startswith('aa ') or c.startswith('bb '), libs=())]
RULE = ('tx cases = (chunk size, message[, number of positive intermediate replies]) for the real send_bdat: every message of <= 4 '
        '(thorough: <= 8) octets over {a, CR, LF} x chunk sizes 16..20 (thorough 16..27); random messages of 0..400 octets made of '
        'lines with CRLF / bare LF / bare CR / empty lines / CR runs, chunk sizes 16..64, 98..102, 998..1002, 1024, 9999..10001, 32768; '
        'messages cut so that a chunk boundary falls on / before / after a CR or LF; non-trivial = at least two BDAT commands were sent; '
        'distinct by case text')
TRUSTED_BASE = [
    'Coq 8.16.1 kernel (coqc; coqchk in thorough); vm_compute in the non-vacuity / refutation examples only; no native_compute',
    'axioms: none (Print Assumptions: Closed under the global context)',
    'translator tools/translators/bdat.py: regexes over qremote/qrbdat.c and lib/fmt.c produce the constants in coq/Gen/GenBdat.v '
    '(reserve 12, margins, "BDAT ", " LAST\\r\\n", the LF-skip bound) and check the statement shapes the model transcribes',
    'hand-written model coq/Model/BdatTx.v tied to send_bdat by the correspondence run (differential testing of every netnwrite call, '
    'end state and warning count; bounded by the generator)',
    'extraction with ExtrOcamlBasic only (no Extract Constant); ocaml/glue.ml + ocaml/bdat_driver.ml hex parsing/printing',
    'C harness harness/bdat_h.c: #include of qremote/qrbdat.c and lib/fmt.c; netnwrite/checkreply/log_write/net_conn_shutdown stubbed; '
    'malloc filled with 0xEE; msgdata placed against a PROT_NONE page; gcc 12 -O1 ASan+UBSan vs. production build',
]
ASSUMPTIONS = [
    'chunk size >= 16 (the minimum that fits "BDAT n LAST CRLF" plus one payload octet; smaller values of control/chunksizeremote make '
    'send_bdat loop forever or overflow its buffer - outside the property, noted in reports/C19.md)',
    'malloc(chunksize) succeeds (otherwise send_bdat falls back to send_data, C06/C07)',
    'netnwrite() transmits the buffer it is given unchanged; checkreply() returns the reply code of the server',
]


def be(n):
    if n == 0:
        return '00'
    h = '%x' % n
    if len(h) % 2:
        h = '0' + h
    return h


def _line_msg(rng, maxlen):
    """message built from lines with a mixture of line endings"""
    out = bytearray()
    n = rng.randrange(0, maxlen + 1)
    while len(out) < n:
        ll = rng.choice([0, 0, 1, 2, 3, 5, 8, 13, 20, 40]) if rng.random() < 0.8 else rng.randrange(0, 80)
        for _ in range(ll):
            r = rng.random()
            if r < 0.04: out.append(13)
            elif r < 0.06: out.append(10)
            elif r < 0.10: out.append(rng.randrange(256))
            else: out.append(rng.choice(b'abcxyz .-'))
        out += rng.choice([b'\r\n', b'\r\n', b'\r\n', b'\n', b'\n', b'\r', b'\r\r\n', b'\n\n', b'\r\n\r\n', b''])
    out = out[:n]
    return bytes(out)


CS_SMALL = list(range(16, 65))
CS_EDGE = [98, 99, 100, 101, 102, 998, 999, 1000, 1001, 1002, 1024, 9999, 10000, 10001, 32768]


def gen_tx(rng, tier):
    out = []
    maxl, cs_hi = (4, 20) if tier == 'quick' else (8, 27)
    for l in range(0, maxl + 1):
        for m in itertools.product(b'a\r\n', repeat=l):
            for cs in range(16, cs_hi + 1):
                out.append('aa %s %s' % (be(cs), R.hx(bytes(m))))
    n = 1500 if tier == 'quick' else 40000
    for i in range(n):
        r = rng.random()
        if r < 0.75:
            cs = rng.choice(CS_SMALL)
        elif r < 0.95:
            cs = rng.choice(CS_EDGE[:10])
        else:
            cs = rng.choice(CS_EDGE)
        m = _line_msg(rng, 400 if cs < 200 else 3000)
        if rng.random() < 0.3 and len(m) > 2:
            # aim: put CR LF / CR / LF right where the first chunk's room ends
            lenlen = len(str(cs)) + 12
            room = cs - 1 - lenlen
            pos = max(0, min(len(m) - 2, room + rng.randrange(-2, 2)))
            m = bytearray(m)
            pat = rng.choice([b'\r\n', b'\r\n', b'\r', b'\n', b'\r\r', b'\n\n', b'\n\r'])
            m[pos:pos + len(pat)] = pat
            m = bytes(m)
            if rng.random() < 0.5:
                m = m[:pos + len(pat)]     # ... and make it the end of the message
        c = 'aa %s %s' % (be(cs), R.hx(m))
        if rng.random() < 0.1:
            c += ' ' + be(rng.randrange(0, 4))
        out.append(c)
    return out


def gen_cases(engine, rng, tier):
    return gen_tx(rng, tier)


def nontrivial(case, c_out):
    f = c_out.split()
    return len(f) >= 5 and f[0] == 'OK'


def distribution(results):
    d = {'tx_1_chunk': 0, 'tx_2_3_chunks': 0, 'tx_4plus_chunks': 0, 'tx_abort': 0, 'tx_barecr_logged': 0, 'crash_or_other': 0}
    for r in results:
        f = r['c'].split()
        if not r['case'].startswith('aa '):
            continue
        if not f or f[0] != 'OK':
            d['crash_or_other'] += 1; continue
        n = len(f) - 3
        if 'ABORT' in f: d['tx_abort'] += 1
        if f[-1] == 'LOG1': d['tx_barecr_logged'] += 1
        if n <= 1: d['tx_1_chunk'] += 1
        elif n <= 3: d['tx_2_3_chunks'] += 1
        else: d['tx_4plus_chunks'] += 1
    return d


LEVEL_TEXT = ('Machine-checked Coq theorem over an executable model of send_bdat (with the one-line repair fixes/C19-bdat-final-crlf.diff): '
              'for every message and every chunk size >= 16 no buffer access is out of range, every netnwrite is "BDAT n[ LAST] CRLF" followed by '
              'exactly n octets, command plus data never exceed the chunk size, LAST is on the final command only, and the concatenated chunk data '
              'is the message with bare LF made CRLF (a bare CR may be completed to CRLF; exact for messages without bare CR). '
              'Constants are regenerated from qremote/qrbdat.c on every run; the model is tied to the C by a differential run under ASan.')
LEVEL_NOTE = ('Trusted: Coq kernel, translator regexes, extraction (ExtrOcamlBasic), harness, generator quality of the correspondence run. '
              'Assumed: chunk size >= 16, malloc succeeds, netnwrite transmits its buffer unchanged.')
TECHNIQUE = 'Coq proof by loop invariants on (off,len,cpoff,linel) and induction over chunks; translator-regenerated constants; model-vs-C differential run'
DESIGN_REF = 'DESIGN.md section 5, C19'

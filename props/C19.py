"""C19 — BDAT chunks are framed exactly and chunk boundaries never alter the message
(qremote/qrbdat.c:send_bdat, qsmtpd/data.c:smtp_bdat)."""
import itertools
import runlib as R

ID = 'C19'
COQ_TARGETS = ['Props/Properties_C19.vo']
PROPS_FILES = ['Props/Properties_C19.v']
SHRINK_FROM = 2
THEOREMS = ['C19_tx', 'C19_tx_exact', 'C19_tx_checker', 'C19_tx_unrepaired_refuted', 'C19_rx_content', 'C19_rx_fail', 'C19_rx_unrepaired_refuted', 'C19_rx_parse', 'C19_rx_transactions', 'C19_rx_checker', 'C19_rxs_checker', 'C19_rx_readbin']
ENGINES = [dict(name='bdat', c_sources=['bdat_h.c', 'bdat_rx.c', 'bdat_net.c'], extract='Extract/Extract_bdat.v', driver='bdat_driver.ml',
                accepts=lambda c: c[:3] in ('aa ', 'bb ', 'bd '))]
RULE = ('tx cases = (chunk size, message[, number of positive intermediate replies]) for the real send_bdat: every message of <= 5 '
        '(thorough: <= 8) octets over {a, CR, LF} x chunk sizes 16..21 (thorough 16..27); random messages of 0..400 (3000 for big chunk '
        'sizes) octets made of lines with CRLF / bare LF / bare CR / empty lines / CR runs, chunk sizes 16..64, 98..102, 998..1002, 1024, '
        '9999..10001, 32768; a third with CR / LF / CRLF placed where the first chunk fills up, half of those ending there. '
        'rx cases = (faults, BDAT commands (size, LAST, pre-buffered octets), stream, read() sizes) for the real smtp_bdat on the real '
        'net_readbin with a 1024-octet buffer: every stream of <= 4 (thorough <= 6) octets over {a, CR, LF} x every split into two chunks, '
        'LAST on the second or on an empty third; random streams of 0..3500 octets (lines / dense CR-LF / plain), lengths around 1023 and '
        '2046, CR / CRLF planted at the buffer boundaries, 0-6 random chunk cuts or a cut next to a CR, LAST on the final / on an extra empty '
        'command / in the middle / absent, 0-2000 octets pre-buffered, read() results of 1..255 octets, and in a quarter of the cases one '
        'fault: queue_init fails, n-th queue write fails, n-th read fails, size limit, peer hangs up, extra pipelined octets. '
        'session cases (bd) = scripts of 1-3 transactions for the same harness: MAIL/RCPT stand-in (optionally with a failing queue_init), '
        'raw BDAT command lines through the dispatcher row and the real argument parser (every entry of a list of 27 malformed arguments, '
        'leading zeros, mixed case, 2^32, 2^63, 2^64-1, 2^64, 506-octet lines), RSET in the middle of / between transactions, BDAT outside a '
        'transaction, one fault per session in a fifth of them (n-th queue write fails with EPIPE/ENOSPC/EFBIG/EMSGSIZE/E2BIG/ENOMEM/EIO, n-th '
        'read fails, size limit), short or over-long streams, pre-buffered octets, small read() results. '
        'non-trivial: tx = at least two BDAT commands were sent; sessions = at least two transactions started and one envelope sent; rx = at least two commands succeeded and the envelope was sent; '
        'distinct by case text')
TRUSTED_BASE = [
    'Coq 8.16.1 kernel (coqc; coqchk in thorough); vm_compute in the non-vacuity / refutation examples and two digit-count facts (ndigits 99, 159); no native_compute',
    'axioms: none (Print Assumptions: Closed under the global context for all twelve theorems)',
    'translator tools/translators/bdat.py: regexes over qremote/qrbdat.c, lib/fmt.c, qsmtpd/data.c, lib/netio.c produce the constants in '
    'coq/Gen/GenBdat.v and GenBdatRx.v (reserve 12, margins, "BDAT ", " LAST\\r\\n", the LF-skip bound, buffer sizes) and check the statement '
    'shapes the models transcribe (a restructured function is reported as a broken tie)',
    'hand-written models coq/Model/BdatTx.v and BdatRx.v tied to the C by the correspondence run (differential testing of every netnwrite '
    'call / every queue write with its boundaries, replies, return codes, final lastcr/bdaterr/comstate; bounded by the generator)',
    'extraction with ExtrOcamlBasic only (no Extract Constant); ocaml/glue.ml + ocaml/bdat_driver.ml hex parsing/printing',
    'C harness harness/bdat_h.c + bdat_rx.c + bdat_net.c: #include of qremote/qrbdat.c, lib/fmt.c, qsmtpd/data.c (-DCHUNKING, '
    'INCOMING_CHUNK_SIZE=1), lib/netio.c; stubbed: netnwrite/checkreply/log_write/net_conn_shutdown (tx), queue_init/queue_envelope/'
    'queue_result/queue_reset/freedata/tarpit and the dispatcher rule for comstate (rx); read()/write()/writev()/poll() redirected; '
    'malloc filled with 0xEE; msgdata placed against a PROT_NONE page; gcc 12 -O1 ASan+UBSan vs. production build',
    'all three boolean checkers are proved to decide their Prop statements (C19_tx_checker, C19_rx_checker, C19_rxs_checker); the cut of a '
    'session into transactions (align / segments in Spec/BdatRxSpec.v) is shared by statement and checker and is read, not proved',
    'harness stand-ins re-implemented from the C and pinned by the translator (shape + constants): the BDAT row of smtploop() (mask 0x0840, '
    'state -1, flags 5, 510-octet limit), smtp_rset(), and MAIL FROM + RCPT TO reduced to comstate = 0x0040 with one recipient',
]
ASSUMPTIONS = [
    'tx: chunk size >= 16 (the minimum that fits "BDAT n LAST CRLF" plus one payload octet; smaller values of control/chunksizeremote make '
    'send_bdat loop forever or overflow its buffer - outside the property, noted in reports/C19.md)',
    'tx: malloc(chunksize) succeeds (otherwise send_bdat falls back to send_data, C06/C07); netnwrite() transmits its buffer unchanged; '
    'checkreply() returns the reply code of the server',
    'rx: command lines contain no NUL (smtploop() refuses such lines in line_valid() before the dispatcher; modelled in Model/Session.v); '
    'strtoull/strcasecmp are modelled (digits with overflow flag, C-locale case folding), not verified; between commands the line reader '
    'leaves any amount (0..1001) of the following octets buffered',
    'rx: C19_rx_transactions assumes the client lets MAIL be accepted (RSET after a failed transaction: comstate 0x0010) and that no injected '
    'fault is still ahead; what happened before is arbitrary',
    'rx: C19_rx_content assumes no fault: queue_init and write_received succeed, every write() on the queue descriptor is complete, no read '
    'error, the peer sends all announced octets, the total is within maxbytes, net_writen succeeds; C19_rx_fail assumes nothing about faults',
    'rx: read buffer sizeof(inbuf) >= 2 (INCOMING_CHUNK_SIZE >= 1 gives >= 1024); queue_envelope/queue_result are stand-ins that succeed',
]


def be(n):
    if n == 0:
        return '00'
    h = '%x' % n
    if len(h) % 2:
        h = '0' + h
    return h


def _line_msg(rng, maxlen):
    """message built from lines with a mixture of line endings"""
    out = bytearray()
    n = rng.randrange(0, maxlen + 1)
    while len(out) < n:
        ll = rng.choice([0, 0, 1, 2, 3, 5, 8, 13, 20, 40]) if rng.random() < 0.8 else rng.randrange(0, 80)
        for _ in range(ll):
            r = rng.random()
            if r < 0.04: out.append(13)
            elif r < 0.06: out.append(10)
            elif r < 0.10: out.append(rng.randrange(256))
            else: out.append(rng.choice(b'abcxyz .-'))
        out += rng.choice([b'\r\n', b'\r\n', b'\r\n', b'\n', b'\n', b'\r', b'\r\r\n', b'\n\n', b'\r\n\r\n', b''])
    out = out[:n]
    return bytes(out)


CS_SMALL = list(range(16, 65))
CS_EDGE = [98, 99, 100, 101, 102, 998, 999, 1000, 1001, 1002, 1024, 9999, 10000, 10001, 32768]


def gen_tx(rng, tier):
    out = []
    maxl, cs_hi = (5, 21) if tier == 'quick' else (8, 27)
    for l in range(0, maxl + 1):
        for m in itertools.product(b'a\r\n', repeat=l):
            for cs in range(16, cs_hi + 1):
                out.append('aa %s %s' % (be(cs), R.hx(bytes(m))))
    n = 4000 if tier == 'quick' else 40000
    for i in range(n):
        r = rng.random()
        if r < 0.75:
            cs = rng.choice(CS_SMALL)
        elif r < 0.95:
            cs = rng.choice(CS_EDGE[:10])
        else:
            cs = rng.choice(CS_EDGE)
        m = _line_msg(rng, 400 if cs < 200 else 3000)
        if rng.random() < 0.3 and len(m) > 2:
            # aim: put CR LF / CR / LF right where the first chunk's room ends
            lenlen = len(str(cs)) + 12
            room = cs - 1 - lenlen
            pos = max(0, min(len(m) - 2, room + rng.randrange(-2, 2)))
            m = bytearray(m)
            pat = rng.choice([b'\r\n', b'\r\n', b'\r', b'\n', b'\r\r', b'\n\n', b'\n\r'])
            m[pos:pos + len(pat)] = pat
            m = bytes(m)
            if rng.random() < 0.5:
                m = m[:pos + len(pat)]     # ... and make it the end of the message
        c = 'aa %s %s' % (be(cs), R.hx(m))
        if rng.random() < 0.1:
            c += ' ' + be(rng.randrange(0, 4))
        out.append(c)
    return out


# ---------------------------------------------------------------- receiving side
def _cfg(q=0, wf=0xffff, rf=0xff, mb=0xffff):
    return '%02x%04x%02x%08x' % (q, wf, rf, mb)


def _cmds(lst):
    return ''.join('%04x%02x%04x' % (sz, 1 if last else 0, pre) for sz, last, pre in lst) or '-'


def _rx_data(rng, n):
    out = bytearray()
    mode = rng.choice(['lines', 'lines', 'dense', 'plain'])
    while len(out) < n:
        if mode == 'dense':
            out.append(rng.choice(b'\r\n\r\na'))
        elif mode == 'plain':
            out.append(rng.choice(b'abc \r\n') if rng.random() < 0.05 else 0x61)
        else:
            for _ in range(rng.choice([0, 0, 1, 3, 10, 30, 70])):
                out.append(rng.choice(b'abcxyz .-') if rng.random() < 0.95 else rng.randrange(256))
            out += rng.choice([b'\r\n', b'\r\n', b'\r\n', b'\n', b'\r', b'\r\r\n', b'\r\n\r\n', b'\n\r', b''])
    return bytes(out[:n])


def _partition(rng, n, k):
    cuts = sorted(rng.randrange(0, n + 1) for _ in range(k))
    sizes, prev = [], 0
    for c in cuts + [n]:
        sizes.append(c - prev); prev = c
    return sizes


def gen_rx(rng, tier):
    out = []
    RS = 1024                      # CHUNK_READ_SIZE of the harness build (INCOMING_CHUNK_SIZE=1)
    # every short stream over {a, CR, LF}, every split into two chunks, LAST on the second or on an empty third
    maxl = 4 if tier == 'quick' else 6
    for l in range(0, maxl + 1):
        for m in itertools.product(b'a\r\n', repeat=l):
            m = bytes(m)
            for c in range(0, l + 1):
                out.append('bb %s %s %s' % (_cfg(), _cmds([(c, 0, 0), (l - c, 1, 0)]), R.hx(m)))
                if tier != 'quick' or rng.random() < 0.3:
                    out.append('bb %s %s %s' % (_cfg(), _cmds([(c, 0, 1), (l - c, 0, 0), (0, 1, 0)]), R.hx(m)))
    n = 3000 if tier == 'quick' else 25000
    for i in range(n):
        r = rng.random()
        if r < 0.55:
            ln = rng.randrange(0, 120)
        elif r < 0.85:
            ln = rng.choice([RS - 2, RS - 1, RS, RS + 1, 2 * RS - 3, 2 * RS - 2, 2 * RS - 1, 2 * RS]) + rng.randrange(0, 3)
        else:
            ln = rng.randrange(0, 3500)
        data = bytearray(_rx_data(rng, ln))
        # aim: CR / CRLF / LF right at the buffer boundaries of smtp_bdat (RS-1 octets per read)
        if ln > RS and rng.random() < 0.7:
            for b in (RS - 1, 2 * (RS - 1)):
                p = b + rng.randrange(-2, 2)
                pat = rng.choice([b'\r\n', b'\r\n', b'\r', b'\r\r', b'\n', b'\r\n\r\n'])
                if 0 <= p and p + len(pat) <= ln:
                    data[p:p + len(pat)] = pat
        if ln and rng.random() < 0.3:
            data[-1] = 13
        data = bytes(data)
        k = rng.choice([0, 0, 1, 1, 2, 3, 6])
        sizes = _partition(rng, ln, k)
        if rng.random() < 0.3 and ln > 2:
            # cut right behind / before a CR
            idx = [j for j in range(ln) if data[j] == 13]
            if idx:
                c = rng.choice(idx) + rng.randrange(0, 2)
                sizes = [c, ln - c]
        cmds = [(sz, 0, 0) for sz in sizes]
        shape = rng.random()
        if shape < 0.55:
            cmds[-1] = (cmds[-1][0], 1, 0)
        elif shape < 0.8:
            cmds.append((0, 1, 0))
        elif shape < 0.9:
            j = rng.randrange(len(cmds)); cmds[j] = (cmds[j][0], 1, 0)      # LAST in the middle, more commands follow
        # else: no LAST at all
        cmds = [(sz, last, rng.choice([0, 0, 1, 2, 5, 100, 1001, 2000]) if rng.random() < 0.5 else 0) for sz, last, _ in cmds]
        cuts = b''
        cr = rng.random()
        if cr < 0.3:
            cuts = bytes(rng.choice([1, 1, 2, 3, 5, 8, 255]) for _ in range(rng.randrange(1, 60)))
        elif cr < 0.4:
            cuts = bytes([rng.choice([1, 2, 200])]) * rng.randrange(1, 400)
        q, wf, rf, mb = 0, 0xffff, 0xff, 0xffff
        stream = data
        f = rng.random()
        if f < 0.04: q = 1
        elif f < 0.10: wf = rng.randrange(0, 8)
        elif f < 0.14: rf = rng.randrange(0, 6)
        elif f < 0.19: mb = rng.randrange(0, max(1, ln + 2))
        elif f < 0.23 and ln: stream = data[:rng.randrange(0, ln)]          # the peer hangs up early
        elif f < 0.26: stream = data + _rx_data(rng, rng.randrange(1, 40))   # pipelined octets behind the data
        out.append('bb %s %s %s %s' % (_cfg(q, wf, rf, mb), _cmds(cmds), R.hx(stream), R.hx(cuts)))
    return out


# ---------------------------------------------------------------- sessions: argument parsing, several transactions
def _rec(op, pre, pl=b''):
    return '%02x%04x%04x' % (op, pre, len(pl)) + pl.hex()


BAD_ARGS = [b'', b' ', b' x', b' -1', b' +1', b'  1', b' 1 ', b' 1  LAST', b' 1 LAST ', b' 1 LAS', b' 1 LASTX', b' 1\tLAST', b' 1x',
            b' 0x10', b' 18446744073709551616', b' 99999999999999999999999', b' 1,2', b' 1 LAST LAST', b' LAST', b' 1 last\r', b'X 1',
            b'\t1', b' 1 L', b' 18446744073709551615 LAST x', b' \xb1', b' 1 ' + b'LAST'[::-1], b' 0' * 300]


def _case_mix(rng, w):
    return bytes(c ^ 32 if 65 <= (c & ~32) <= 90 and rng.random() < 0.5 else c for c in w)


def _bdat_line(rng, n, last):
    num = str(n).encode()
    if rng.random() < 0.15:
        num = b'0' * rng.randrange(1, 4) + num
    l = _case_mix(rng, b'BDAT') + b' ' + num
    if last:
        l += b' ' + _case_mix(rng, b'LAST')
    return l


def gen_rxs(rng, tier):
    out = []
    nofault = 'ffff00ff0000ffff'
    # argument parsing: one transaction, one odd line, then (if it was refused) the same data regularly
    for bad in BAD_ARGS + [b' 0', b' 0 LAST', b' 5', b' 5 last', b' 005 LaSt', b' 18446744073709551615', b' 4294967296', b' 9223372036854775808 LAST']:
        for nm in (b'BDAT', b'bdat'):
            recs = [_rec(3, 0), _rec(1, 0, nm + bad), _rec(1, 0, b'BDAT 5 LAST')]
            out.append('bd %s %s %s -' % (nofault, ''.join(recs), (b'ab\r\ncXY').hex()))
    out.append('bd %s %s %s -' % (nofault, ''.join([_rec(3, 0), _rec(1, 0, b'BDAT ' + b'0' * 505), _rec(1, 0, b'BDAT ' + b'0' * 506), _rec(1, 0, b'BDAT 0 LAST')]), '-'))
    n = 1500 if tier == 'quick' else 15000
    for i in range(n):
        recs, stream = [], bytearray()
        ntx = rng.choice([1, 2, 2, 3])
        q, wf, we, rf, mb = 0, 0xffff, 0, 0xff, 0xffff
        f = rng.random()
        if f < 0.12: wf, we = rng.randrange(0, 10), rng.randrange(0, 7)
        elif f < 0.16: rf = rng.randrange(0, 8)
        elif f < 0.22: mb = rng.randrange(0, 40)
        state_ok = True            # the model of the client: it sends RSET after a transaction it thinks failed
        for t in range(ntx):
            ln = rng.choice([0, 1, 2, 3, 5, 8, 20, 60]) if rng.random() < 0.9 else rng.choice([1022, 1023, 1024, 1100, 2050])
            data = bytearray(_rx_data(rng, ln))
            if ln and rng.random() < 0.3: data[-1] = 13
            if ln and rng.random() < 0.2: data[0] = 10
            sizes = _partition(rng, ln, rng.choice([0, 1, 1, 2, 3]))
            qf = 1 if rng.random() < 0.06 else 0
            recs.append(_rec(3, rng.choice([0, 0, 1, 5]), bytes([qf])))
            shape = rng.random()
            cmds = [(sz, False) for sz in sizes]
            if shape < 0.6: cmds[-1] = (cmds[-1][0], True)
            elif shape < 0.8: cmds.append((0, True))
            # else: no LAST: the transaction is abandoned
            for j, (sz, last) in enumerate(cmds):
                if rng.random() < 0.12:
                    recs.append(_rec(1, 0, _case_mix(rng, b'BDAT') + rng.choice(BAD_ARGS[:-1])))
                recs.append(_rec(1, rng.choice([0, 0, 0, 1, 2, 1001]), _bdat_line(rng, sz, last)))
                if rng.random() < 0.05:
                    recs.append(_rec(2, 0)); break                      # RSET in the middle
            stream += data
            r = rng.random()
            if r < 0.45 or shape >= 0.8: recs.append(_rec(2, rng.choice([0, 0, 3])))      # RSET between transactions
            elif r < 0.5: recs.append(_rec(1, 0, b'BDAT 1'))                             # BDAT without a transaction: 503
        if rng.random() < 0.1: stream = stream[:rng.randrange(0, len(stream) + 1)]
        elif rng.random() < 0.1: stream += _rx_data(rng, rng.randrange(1, 10))
        cuts = b''
        if rng.random() < 0.3:
            cuts = bytes(rng.choice([1, 1, 2, 3, 5, 255]) for _ in range(rng.randrange(1, 40)))
        out.append('bd %04x%02x%02x%08x %s %s %s' % (wf, we, rf, mb, ''.join(recs), R.hx(bytes(stream)), R.hx(cuts)))
    return out


def gen_cases(engine, rng, tier):
    return gen_tx(rng, tier) + gen_rx(rng, tier) + gen_rxs(rng, tier)


def nontrivial(case, c_out):
    f = c_out.split()
    if case.startswith('bd '):
        return f[:1] == ['OK'] and sum(1 for t in f if t.startswith('B') and t[1:].isdigit()) >= 2 and any(t.startswith('E') and t[1:].isdigit() for t in f)
    if case.startswith('bb '):
        return f[:1] == ['OK'] and f.count('C0') >= 2 and any(t.startswith('E') for t in f)
    return len(f) >= 5 and f[0] == 'OK'


def distribution(results):
    d = {'tx_1_chunk': 0, 'tx_2_3_chunks': 0, 'tx_4plus_chunks': 0, 'tx_abort': 0, 'tx_barecr_logged': 0, 'crash_or_other': 0}
    d.update({'rx_delivered': 0, 'rx_failed': 0, 'rx_died': 0, 'rx_no_last': 0, 'rx_multi_buffer': 0, 'rx_cr_held_at_end': 0})
    for r in results:
        f = r['c'].split()
        if r['case'].startswith('bd '):
            d.setdefault('rxs_sessions', 0); d['rxs_sessions'] += 1
            for k, pred in (('rxs_envelopes', lambda t: t.startswith('E') and t[1:].isdigit()), ('rxs_transactions', lambda t: t.startswith('B') and t[1:].isdigit()),
                            ('rxs_refused_syntax', lambda t: t in ('CEINVAL', 'CE2BIG')), ('rxs_failed_cmds', lambda t: t.startswith('C') and t not in ('C0', 'CEINVAL', 'CE2BIG', 'C503')),
                            ('rxs_rset', lambda t: t == 'RSET'), ('rxs_503', lambda t: t == 'C503')):
                d[k] = d.get(k, 0) + sum(1 for t in f if pred(t))
            continue
        if r['case'].startswith('bb '):
            if not f or f[0] != 'OK':
                d['crash_or_other'] += 1
            elif 'DIED' in f: d['rx_died'] += 1
            elif any(t.startswith('E') and t[1:].isdigit() for t in f): d['rx_delivered'] += 1
            elif any(t.startswith('C') and t not in ('C0',) for t in f): d['rx_failed'] += 1
            else: d['rx_no_last'] += 1
            cm = r['case'].split()[2]
            if cm != '-' and any(int(cm[i:i + 4], 16) >= 1024 for i in range(0, len(cm), 10)): d['rx_multi_buffer'] += 1
            if 'Q0d' in f: d['rx_cr_held_at_end'] += 1
            continue
        if not r['case'].startswith('aa '):
            continue
        if not f or f[0] != 'OK':
            d['crash_or_other'] += 1; continue
        n = len(f) - 3
        if 'ABORT' in f: d['tx_abort'] += 1
        if f[-1] == 'LOG1': d['tx_barecr_logged'] += 1
        if n <= 1: d['tx_1_chunk'] += 1
        elif n <= 3: d['tx_2_3_chunks'] += 1
        else: d['tx_4plus_chunks'] += 1
    return d


LEVEL_TEXT = ('Machine-checked Coq theorems over executable models of send_bdat (with fixes/C19-bdat-final-crlf.diff) and of smtp_bdat + net_readbin '
              '(with fixes/C19-bdat-rx-trailing-cr.diff). Sender: for every message and every chunk size >= 16 no buffer access is out of range, '
              'every netnwrite is "BDAT n[ LAST] CRLF" followed by exactly n octets, command plus data never exceed the chunk size, LAST is on the '
              'final command only, and the concatenated chunk data is the message with bare LF made CRLF (a bare CR may be completed to CRLF; '
              'exact for messages without bare CR). Receiver: for every partition of the data into chunks, buffers (any buffer size >= 2), '
              'pre-buffered octets and read() results, the octets written to the queue are the chunk data with CRLF -> LF, followed by one '
              'envelope with the exact count; net_readbin returns exactly the next n octets; for every input and injected fault no access is '
              'out of range and a failed command is never followed by an envelope. Constants are regenerated from the C on every run; the '
              'models are tied to the C by a differential run under ASan.')
LEVEL_NOTE = ('Trusted: Coq kernel, translator regexes, extraction (ExtrOcamlBasic), harness and its stand-ins, generator quality of the correspondence run. '
              'Assumed: chunk size >= 16, malloc succeeds, netnwrite transmits its buffer unchanged; BDAT argument parsing, the command dispatcher and '
              'the queue stand-ins are outside the model. Both theorems are about the code with the two proposed one-place repairs applied.')
TECHNIQUE = ('Coq proofs by loop invariants (send_bdat: off/len/cpoff/linel; smtp_bdat: pos/rlen/cr over inbuf, lastcr across buffers and commands; '
             'net_readbin: buffered + stream) and induction over chunks / commands; translator-regenerated constants; model-vs-C differential run')
DESIGN_REF = 'DESIGN.md section 5, C19'

"""C20 — Qremote target choice: MX order (sortmx), each address once (tryconn), never itself (filter_my_ips)."""
import runlib as R

ID = 'C20'
COQ_TARGETS = ['Props/Properties_C20.vo']
PROPS_FILES = ['Props/Properties_C20.v']
THEOREMS = ['C20_sortmx', 'C20_sortmx_stable', 'C20_spec_checker_sound', 'C20_spec_checker_complete', 'C20_spec_checker_accepts_sortmx', 'C20_tryconn_once', 'C20_not_me', 'C20_targets', 'C20_route_order', 'C20_route_empty_relay', 'C20_dnsmx', 'C20_getmxlist', 'C20_main', 'C20_connect_compose', 'C20_connect_once', 'C20_connect_noent_after_all',
            'C20_connect_total', 'C20_temp_failure_refuted', 'C20_temp_failure_partial', 'C20_connect_exit_classes',
            'C20_inet_pton_value', 'C20_route_keys_order', 'C20_route_keys_erase', 'C20_route_keys_meaning', 'C20_route_keys_errors',
            'C20_route_duplicate_keys', 'C20_route_key_name', 'C20_target_literal', 'C20_relay_literal_name', 'C20_default_clientkey', 'C20_ports']
ENGINES = [dict(name='mx', c_sources=['mx_h.c'], extract='Extract/Extract_mx.v', driver='mx_driver.ml',
                accepts=lambda c: c.split(' ')[0] in ('01', '02', '03', '04', '05', '06', '07', '08')),
           # connect_mx() over the real tryconn(): the harness of C18/C04 (real main, conn_mx.c, conn.c, greeting.c, starttlsr.c, netio.c), op ca
           dict(name='mxconn', c_sources=['tlssw_h.c'], extract='Extract/Extract_mxconn.v', driver='mxconn_driver.ml',
                glue=('glue.ml', 'glue_z.ml'), accepts=lambda c: c.startswith('ca '), shrink_from=5)]
RULE = ('cases = (01) MX lists of 1..9 entries, preferences drawn from a small set with many ties plus the special values '
        '65535..65539 and 2^32-1, 1..4 addresses per entry from a small pool of IPv6 / v4-mapped / nearly-v4-mapped addresses, '
        'a few entries without addresses; (02) the same lists fresh or with USED/CURRENT marks and cur_s 0..3, 0..12 tryconn calls, '
        'connect() outcomes all-fail / mostly-fail / random; (03) interface lists with AF_INET, AF_INET6, NULL and other-family '
        'entries whose addresses are drawn from the pool the MX addresses come from, loopback and 0.0.0.0 included; '
        '(04) smtproute() in a real scratch control directory: target names exact / subdomain / unrelated / odd (leading, trailing, double dots, '
        '254..256 octets), smtproutes.d holding random subsets of the probed names plus near-miss names, file contents with relay=/port= lines, '
        'duplicates, unknown keys, rejected lines in front of valid ones, port strings at 0/1/65535/65536/2^32+25/2^64+25/signs/garbage, relays that '
        'resolve, resolve to nothing or do not resolve, control/smtproutes with exact / suffix / empty / differently-cased / non-matching patterns, '
        '0..3 colons; (08) the same with all six keys: certificate/key paths readable or not, outgoingip / outgoingip6 values valid, malformed, of the other '
        'family, v4-mapped in two spellings, relays that are address texts, control/clientkey.pem present or not, duplicate and unknown keys; address '
        'literals as target (24 forms) through op 07; (05) the statement sequence of main(): filter on port 25, sort, connect; (06) ask_dnsmx of lib/qdns.c over a stubbed resolver: '
        '0..5 MX records with tied preferences, 0 and 65535, names that resolve / resolve to nothing / fail temporarily, permanently, with ENOMEM, null MX, '
        'dnsmx failing four ways; (07) getmxlist (real smtproute + ask_dnsmx) followed by the sequence of main() on configurations mixing all of the above. '
        'non-trivial = sort: at least two entries share a preference; connect: at least one failed attempt followed by another; '
        'filter: at least one address removed; route: a relay was chosen while several files or lines were candidates; distinct by case text')
TRUSTED_BASE = [
    'Coq 8.16.1 kernel (coqc; coqchk in thorough); vm_compute in the non-vacuity example only; no native_compute',
    'axioms: none (Print Assumptions: Closed under the global context)',
    'translator tools/translators/mx.py: regexes over include/qdns.h, qremote/conn.c, qremote/qremote.c, qremote/smtproutes.c, lib/ipme.c, '
    'lib/dns_helpers.c produce coq/Gen/GenMx.v (special priorities, the 65536 threshold of tryconn, port 25 of the local-address filter, '
    'default port, port limit, fnbuf size and key table of smtproutes.c, IN_LOOPBACKNET and NAME_MAX via gcc -E) and check that main() runs '
    'getmxlist / filter_my_ips (port 25 only) / sortmx / connect_mx in this order',
    'hand-written models coq/Model/Mx.v, MxRoute.v, MxDns.v tied to lib/dns_helpers.c:sortmx, qremote/conn.c:tryconn and getmxlist, lib/ipme.c:filter_my_ips, '
    'qremote/smtproutes.c:smtproute (+ lib/control.c:loadlistfd, lib/match.c:matchdomain as used by it), lib/qdns.c:ask_dnsmx and ask_dnsaaaa by the correspondence run '
    '(differential testing, bounded by the generator)',
    'glibc qsort() is stable for the small address arrays (merge sort): the model sorts the addresses of an entry by a stable partition',
    'file system abstraction of the route model: openat() on smtproutes.d succeeds exactly for the names listed, ENAMETOOLONG above NAME_MAX; '
    'lloadfilefd() on clean content (no blanks, comments, NUL, backslash, CR) = split at LF and drop empty lines; libc strtoul/strcasecmp(C locale) as modelled',
    'extraction with ExtrOcamlBasic only (no Extract Constant); ocaml/glue.ml + ocaml/mx_driver.ml hex parsing/printing',
    'C harness harness/mx_h.c: #include of the C files with socket/bind/connect/getifaddrs/freeifaddrs redirected, the resolver functions of '
    'include/libowfatconn.h (dnsmx, dnsip6) answered from the case, err_confn / net_conn_shutdown as longjmp; op 05 repeats the four statements of qremote.c:main() (main itself cannot be included); gcc 12 -O1 ASan+UBSan vs. production build; IPV4ONLY undefined',
]
ASSUMPTIONS = [
    'every MX entry has at least one address and the list is not empty (in6_to_ips asserts cnt > 0; getmxlist dies otherwise)',
    'for the connect theorems the list is fresh: every priority <= 65536 (DNS preferences are 16 bit, implicit MX is 65536)',
    'connect()/bind()/socket() outcomes are an arbitrary oracle list; greeting/EHLO failures are connect_mx calling tryconn again (modelled as the number of calls)',
    'getifaddrs() reports the local addresses; when it fails filter_my_ips returns the list unchanged (by design of the C) and nothing is claimed',
    'smtproute: target name at most 254 octets, free of "/" and NUL, not "." or ".."; control files are clean text; ask_dnsaaaa of the relay is an oracle table; '
    'access(path, R_OK) for clientcert/clientkey and the presence of control/clientkey.pem are oracles; inet_pton is the glibc 2.36 algorithm '
    '(Model/InetPtonVal.v, value-producing twin of C14\'s validity model), tied to libc by the run',
    'the resolver (libowfat dnsmx/dnsip6 behind include/libowfatconn.h) is an oracle: MX records with 16-bit preferences in wire format, per name either addresses or '
    'a temporary / permanent / out-of-memory failure; IPv4 addresses arrive v4-mapped from dnsip6',
    'an address literal "[...]" as target is modelled (getmxlist_x); its entry has no name and port 25',
    'connect phase (engine mxconn): servers are scripted byte streams with close or silence at the end, OpenSSL and dnstlsa are oracles (as in C18/C04), '
    'every connection that comes about has a scripted server; the partner name is reduced to "the entry has a name"',
]

# ---------------------------------------------------------------- address pool
def v6(n): return bytes([0x20, 0x01, 0x0d, 0xb8] + [0] * 11 + [n])
def v4(a, b, c, d): return bytes([0] * 10 + [0xff, 0xff, a, b, c, d])
NEARLY = [bytes([0] * 10 + [0xff, 0xfe, 10, 0, 0, 1]), bytes([0] * 9 + [1, 0xff, 0xff, 10, 0, 0, 1]), bytes([1] + [0] * 9 + [0xff, 0xff, 127, 0, 0, 1]),
          bytes(16), bytes([0] * 15 + [1]), bytes([0] * 10 + [0, 0xff, 0, 0, 0, 0]), bytes([0] * 12 + [10, 0, 0, 1])]
V4POOL = [v4(10, 0, 0, 1), v4(10, 0, 0, 2), v4(192, 0, 2, 1), v4(192, 0, 2, 2), v4(127, 0, 0, 1), v4(127, 9, 8, 7), v4(0, 0, 0, 0), v4(0, 0, 0, 1),
          v4(126, 0, 0, 1), v4(128, 0, 0, 127), v4(10, 127, 0, 1), v4(1, 0, 0, 0)]
V6POOL = [v6(1), v6(2), v6(3), v6(4), bytes([0] * 15 + [1]), bytes([0xfe, 0x80] + [0] * 13 + [9])]

def addr(rng):
    x = rng.random()
    if x < 0.45: return rng.choice(V4POOL)
    if x < 0.9: return rng.choice(V6POOL)
    return rng.choice(NEARLY)

PRIOS = [0, 1, 5, 10, 10, 10, 20, 20, 30, 65535, 65536]
SPECIAL = [65537, 65538, 65539, 2 ** 32 - 1, 2 ** 31, 65536, 65535]

def entry(prio, ident, addrs):
    return (prio.to_bytes(4, 'big') + bytes([ident & 255]) + b''.join(addrs)).hex()

def mxlist(rng, fresh=True, empties=0.0, maxn=9, special=0.0):
    n = rng.choice([1, 1, 2, 2, 3, 3, 3, 4, 4, 5, 6, 7, maxn])
    few = rng.sample(PRIOS, rng.choice([1, 2, 2, 3]))      # many ties
    es = []
    for i in range(n):
        p = rng.choice(few) if rng.random() < 0.8 else rng.choice(PRIOS)
        if rng.random() < special:
            p = rng.choice(SPECIAL)
        k = rng.choice([1, 1, 1, 2, 2, 3, 4])
        fam = rng.random()
        if fam < 0.3: al = [rng.choice(V4POOL) for _ in range(k)]
        elif fam < 0.6: al = [rng.choice(V6POOL) for _ in range(k)]
        else: al = [addr(rng) for _ in range(k)]
        if rng.random() < empties: al = []
        es.append(entry(p, i + 1, al))
    return es

def oracle(rng, total):
    m = rng.choice(['allfail', 'mostly', 'random', 'first', 'short'])
    n = total + 3
    if m == 'allfail': o = [111] * n
    elif m == 'mostly': o = [0 if rng.random() < 0.15 else rng.choice([111, 110, 113, 101]) for _ in range(n)]
    elif m == 'random': o = [rng.choice([0, 111]) for _ in range(n)]
    elif m == 'first': o = [0] * n
    else: o = [rng.choice([0, 111, 111]) for _ in range(rng.randrange(0, 3))]
    return bytes(o)

def ifaces(rng, es):
    fail = 1 if rng.random() < 0.04 else 0
    pool = []
    for e in es:
        b = bytes.fromhex(e)[5:]
        pool += [b[i:i + 16] for i in range(0, len(b), 16)]
    out = bytes([fail])
    for _ in range(rng.choice([0, 1, 1, 2, 2, 3, 4, 6])):
        x = rng.random()
        a = rng.choice(pool) if pool and rng.random() < 0.6 else addr(rng)
        if x < 0.4: out += bytes([4]) + bytes(12) + a[12:]          # AF_INET with the last four octets of some address
        elif x < 0.75: out += bytes([6]) + a
        elif x < 0.85: out += bytes([0]) + bytes(16)
        else: out += bytes([rng.choice([1, 2, 9, 17])]) + a
    return out.hex()

# ---------------------------------------------------------------- smtproute cases
HOSTS = [b'foo.example.net', b'example.net', b'a.b.example.net', b'Foo.Example.NET', b'other.org', b'net', b'x.y', b'.example.net', b'a..b',
         b'example.net.', b'default', b'*.example.net', b'']
RELAYS = [(b'mail.example.net', [v6(1)]), (b'mx2', [v4(10, 0, 0, 9), v6(2)]), (b'10.0.0.5', [v4(10, 0, 0, 5)]), (b'empty', []), (b'r', [v6(7), v6(8), v4(1, 2, 3, 4)])]
PORTS = [b'25', b'26', b'587', b'2525', b'24'] * 4 + [b'1', b'65535', b'65536', b'0', b'100000', b'4294967321', b'4294967296', b'18446744073709551641', b'99999999999999999999999',
         b'', b'25x', b'x', b'+25', b'-1', b'-4294967271', b'025', b'2 5'.replace(b' ', b'')]

def dns_field(tab):
    return (b''.join(bytes([len(n)]) + n + bytes([len(a)]) + b''.join(a) for n, a in tab)).hex() or '-'

def probe_names(h):
    out = [h]
    for i, c in enumerate(h):
        if c == 0x2e:
            out.append(b'*' + h[i:])
    return out + [b'default']

def d_file_content(rng):
    lines = []
    for _ in range(rng.choice([0, 1, 1, 2, 2, 3, 4])):
        x = rng.random()
        if x < 0.4: lines.append(b'relay=' + rng.choice([r[0] for r in RELAYS if r[1]] * 3 + [b'empty', b'unresolved', b'']))
        elif x < 0.75: lines.append(b'port=' + rng.choice(PORTS))
        elif x < 0.85: lines.append(rng.choice([b'foo=bar', b'nokey', b'=x', b'relayx=mx2', b'xrelay=mx2', b'rela=mx2', b'portal=25', b'Relay=mx2']))
        else: lines.append(rng.choice([b'relay=mx2', b'port=2525']))
    rng.shuffle(lines)
    return b'\n'.join(lines) + (b'\n' if lines and rng.random() < 0.8 else b'') + (b'\n\n' if rng.random() < 0.1 else b'')

def routes_content(rng, host):
    lines = []
    names = [host, host.upper(), host.lower()] + [host[i:] for i, c in enumerate(host) if c == 0x2e] + [host[i + 1:] for i, c in enumerate(host) if c == 0x2e]
    for _ in range(rng.choice([0, 1, 2, 2, 3, 4, 6])):
        x = rng.random()
        pat = rng.choice(names) if x < 0.45 else b'' if x < 0.55 else rng.choice([b'other.org', b'.org', b'x' + host, b'.' + host, b'example.net'])
        relay = rng.choice([r[0] for r in RELAYS if r[1]] * 3 + [b'', b'', b'', b'empty', b'unresolved'])
        y = rng.random()
        if y < 0.45: ln = pat + b':' + relay
        elif y < 0.85: ln = pat + b':' + relay + b':' + rng.choice(PORTS)
        elif y < 0.93: ln = rng.choice([b'nocolon', pat, b'x' + pat])
        else: ln = pat + b':' + relay + b':25:1'
        lines.append(ln)
    return b'\n'.join(lines) + (b'\n' if lines else b'')

def route_parts(rng, tab=None):
    host = rng.choice(HOSTS) if rng.random() < 0.9 else rng.choice([b'a.' * 126 + b'ab', b'a.' * 127, b'.' + b'a' * 253, b'.' + b'a' * 254, b'a' * 255, b'b.' + b'a' * 252, b'b.' + b'a' * 253])
    if tab is None:
        tab = [r for r in RELAYS if rng.random() < 0.93]
    flags = (1 if rng.random() < 0.7 else 0) | (2 if rng.random() < 0.75 else 0)
    files = []
    names = probe_names(host)
    cand = [n for n in names if 0 < len(n) <= 255 and n not in (b'.', b'..')]
    distract = [b'*' + host, host + b'.', b'*', b'default.', b'Default', host.upper(), b'*.org', b'other.org', b'*net', b'*.NET']
    chosen = set()
    for n in cand:
        if rng.random() < rng.choice([0.0, 0.15, 0.3, 0.6]):
            chosen.add(n)
    for n in distract:
        if rng.random() < 0.15 and 0 < len(n) <= 255:
            chosen.add(n)
    chosen = sorted(n for n in chosen if b'/' not in n)
    rng.shuffle(chosen)
    for n in chosen:
        files.append((bytes([len(n)]) + n + d_file_content(rng)).hex())
    rc = routes_content(rng, host) if flags & 1 else b''
    return host, tab, (bytes([flags]) + rc).hex(), files

def route_case(rng):
    host, tab, rf, files = route_parts(rng)
    return ' '.join(['04', R.hx(host), dns_field(tab), rf] + files)

MXNAMES = [b'mx1.example.net', b'mx2.example.net', b'mx3.example.net', b'mx4.example.net', b'nx.example.net', b'tmp.example.net', b'perm.example.net']

def dnsx_field(tab):
    out = b''
    for n, a in tab:
        out += bytes([len(n)]) + n + (bytes([a]) if isinstance(a, int) else bytes([len(a)]) + b''.join(a))
    return out.hex() or '-'

def mx_world(rng, host):
    """resolver table for the MX names and the target itself, and the MX records of the target"""
    tab = []
    for n in MXNAMES[:4] + [host]:
        x = rng.random()
        if x < 0.80: tab.append((n, [addr(rng) for _ in range(rng.choice([1, 1, 2, 3]))]))
        elif x < 0.86: tab.append((n, []))
        elif x < 0.91: tab.append((n, 0xfe))
        elif x < 0.95: tab.append((n, 0xfd))
        elif x < 0.96: tab.append((n, 0xfc))
    tab.append((b'tmp.example.net', 0xfe)); tab.append((b'perm.example.net', 0xfd))
    flag = rng.choice([0] * 24 + [1, 1, 2, 3, 4])
    recs = []
    m = rng.random()
    if m < 0.08: recs = [(rng.choice([0, 10]), b'.')]
    elif m < 0.2: recs = []
    else:
        few = rng.sample([0, 5, 10, 10, 20, 30, 65535], 3)
        for _ in range(rng.choice([1, 1, 2, 2, 3, 4, 5])):
            recs.append((rng.choice(few), rng.choice(MXNAMES[:4] * 3 + MXNAMES[4:] + [b'a', b'.', host])))
    rec = bytes([flag]) + b''.join(bytes([p >> 8, p & 255, len(n)]) + n for p, n in recs)
    seen = set(); tab2 = []
    for n, a in tab:
        if n not in seen and len(n) < 256:
            seen.add(n); tab2.append((n, a))
    return tab2, rec.hex()

def ifaces_from_tab(rng, tab):
    es = [entry(0, 0, a) for _, a in tab if not isinstance(a, int) and a]
    return ifaces(rng, es)

def dnsmx_case(rng):
    host = rng.choice([b'example.net', b'foo.example.net', b'mx1.example.net', b'', b'x'])
    tab, rec = mx_world(rng, host)
    return ' '.join(['06', R.hx(host), dnsx_field(tab), rec])

def main_case(rng):
    host0 = rng.choice(HOSTS)
    while host0.startswith(b'['):
        host0 = rng.choice(HOSTS)
    tab, rec = mx_world(rng, host0)
    # relays of the routes resolve through the same table
    have = {n for n, _ in tab}
    for n, a in RELAYS:
        if n not in have and rng.random() < 0.9:
            tab.append((n, a))
    host, _, rf, files = route_parts(rng, tab)
    if rng.random() < 0.8: host = host0
    if rng.random() < 0.45: rf, files = '00', []          # no routes at all: plain DNS
    t = 8
    par = bytes([rng.randrange(0, 9), 0, 0, 0])
    return ' '.join(['07', R.hx(host), dnsx_field(tab), rec, rf, par.hex(), R.hx(oracle(rng, t)), ifaces_from_tab(rng, tab)] + files)

def total_addrs(es):
    return sum((len(e) // 2 - 5) // 16 for e in es)

# ---------------------------------------------------------------- smtproute with all keys (op 08), address literals as target (op 07)
KPATHS = [b'control/c.pem', b'control/k.pem', b'control/missing.pem', b'/etc/ssl/c.pem', b'c']
OIP4 = [b'192.0.2.1', b'10.0.0.1', b'0.0.0.0', b'255.255.255.255', b'127.0.0.1'] * 2 + [b'x', b'1.2.3', b'01.2.3.4', b'256.1.1.1', b'1.2.3.4.', b'1.2.3.4.5',
        b'1..2.3', b'', b'2001:db8::1', b'::ffff:1.2.3.4', b'1.2.3.a', b'00.1.2.3', b'0.1.2.3', b'1.2.3.255', b'1.2.3.256']
OIP6 = [b'2001:db8::1', b'::1', b'::', b'fe80::1:2', b'1:2:3:4:5:6:7:8', b'::1.2.3.4', b'2001:db8::10.0.0.1', b'1:2:3:4:5:6:1.2.3.4', b'ABCD:ef01::', b'1::8'] * 2 + \
       [b'::ffff:1.2.3.4', b'::ffff:102:304', b'0:0:0:0:0:ffff:1.2.3.4', b'1.2.3.4', b':::', b'1::2::3', b'g::1', b'12345::', b'1:2:3:4:5:6:7:8:9', b'1:2:3:4:5:6:7',
        b'::1.2.3', b'', b':', b'1:', b':1', b'1:2:3:4:5:6:7::', b'::2:3:4:5:6:7:8', b'1:2:3:4:5:6:7:1.2.3.4', b'::ffff:1.2.3.256', b'::01.2.3.4', b'1::2:', b'ffff0::1']
LITRELAYS = [(b'10.0.0.5', [v4(10, 0, 0, 5)]), (b'::ffff:10.0.0.5', [v4(10, 0, 0, 5)]), (b'2001:db8::7', [v6(7)]), (b'192.0.2.300', [v4(192, 0, 2, 44)]), (b'::1', [])]

def d_file_content_x(rng):
    lines = []
    for _ in range(rng.choice([0, 1, 2, 2, 3, 4, 5])):
        x = rng.random()
        if x < 0.22: lines.append(b'relay=' + rng.choice([r[0] for r in RELAYS if r[1]] * 2 + [r[0] for r in LITRELAYS] * 2 + [b'unresolved', b'']))
        elif x < 0.36: lines.append(b'port=' + rng.choice(PORTS))
        elif x < 0.52: lines.append(b'clientcert=' + rng.choice(KPATHS))
        elif x < 0.64: lines.append(b'clientkey=' + rng.choice(KPATHS))
        elif x < 0.78: lines.append(b'outgoingip=' + rng.choice(OIP4))
        elif x < 0.92: lines.append(b'outgoingip6=' + rng.choice(OIP6))
        else: lines.append(rng.choice([b'foo=bar', b'host=mail.example.net', b'clientcert', b'outgoingip7=1', b'outgoing=1.2.3.4', b'Clientcert=c']))
    return b'\n'.join(lines) + (b'\n' if lines and rng.random() < 0.85 else b'')

def route_case_x(rng):
    tab = [r for r in RELAYS + LITRELAYS if rng.random() < 0.93]
    host, _, rf, files = route_parts(rng, tab)
    if rng.random() < 0.5 and not host.startswith(b'.'):
        host = rng.choice(HOSTS[:6])
    # rewrite the file contents with all keys; make a probed file likely
    names = [n for n in probe_names(host) if 0 < len(n) <= 255 and n not in (b'.', b'..') and b'/' not in n]
    chosen = [n for n in names if rng.random() < 0.4] + [n for n in (b'Default', b'*.org') if rng.random() < 0.1]
    files = [(bytes([len(n)]) + n + d_file_content_x(rng)).hex() for n in dict.fromkeys(chosen)]
    flags = bytes.fromhex(rf)[0]
    if files: flags |= 2
    if rng.random() < 0.5: flags |= 4
    rc = bytes.fromhex(rf)[1:]
    if flags & 1 and rng.random() < 0.5:
        rc += b'.example.net:' + rng.choice([r[0] for r in LITRELAYS]) + b'\n'
    readable = b''.join(bytes([len(p)]) + p for p in KPATHS if p != b'control/missing.pem' and rng.random() < 0.75)
    return ' '.join(['08', R.hx(host), dns_field(tab), (bytes([flags]) + (rc if flags & 1 else b'')).hex(), R.hx(readable)] + files)

LITERALS = [b'[192.0.2.19]', b'[::ffff:192.0.2.19]', b'[2001:db8::19]', b'[::1]', b'[10.0.0.1]', b'[127.0.0.1]', b'[0.0.0.0]', b'[::]',
            b'[192.0.2.19', b'[]', b'[', b'[mail.example.net]', b'[1.2.3]', b'[1.2.3.4]x', b'[01.2.3.4]', b'[::1%eth0]', b'[[::1]]', b'[1.2.3.4]]',
            b'[IPv6:::1]', b'[1:2:3:4:5:6:7:8]', b'[1:2:3:4:5:6:7:8:9]', b'[::ffff:10.0.0.1]', b'[256.1.1.1]', b'x[1.2.3.4]']

def literal_case(rng):
    host = rng.choice(LITERALS)
    tab, rec = mx_world(rng, b'example.net')
    _, _, rf, files = route_parts(rng, [])
    t = 2
    par = bytes([rng.randrange(0, 4), 0, 0, 0])
    # interfaces: sometimes the literal's own address (local) -> ALLME
    ifs = rng.choice(['00', '00', '0004' + (bytes(12) + bytes([10, 0, 0, 1])).hex(), '0004' + (bytes(12) + bytes([192, 0, 2, 19])).hex(),
                      '0006' + (bytes([0x20, 1, 0x0d, 0xb8]) + bytes(11) + bytes([0x19])).hex()])
    return ' '.join(['07', R.hx(host), dnsx_field(tab), rec, rf, par.hex(), R.hx(oracle(rng, t)), ifs] + files)


def mxconn_case(rng):
    import C04
    nent = rng.choice([1, 1, 2, 2, 3, 4])
    spec = b''; succ = 0
    for i in range(nent):
        cnt = rng.choice([1, 1, 2, 3])
        oc = []
        for j in range(cnt):
            o = 0 if rng.random() < 0.6 and succ < 8 else rng.choice([111, 110, 113, 101])
            succ += (o == 0); oc.append(o)
        spec += bytes([1 if rng.random() < 0.5 else 0, cnt]) + bytes(oc)
    nserv = succ + (1 if rng.random() < 0.1 and succ < 8 else 0)
    servers = []
    for i in range(nserv):
        servers += C04.gen_conn(rng, i == nserv - 1)
    ht = bytes([3, rng.choice([0, 1, 2])]) if rng.random() < 0.08 else b''
    return ' '.join(['ca', '%02x' % (1 if rng.random() < 0.08 else 0), '%02x' % nserv, R.hx(spec), R.hx(ht)] + servers)

def gen_cases(engine, rng, tier):
    if engine == 'mxconn':
        return [mxconn_case(rng) for _ in range(1200 if tier == 'quick' else 40000)]
    n = 1500 if tier == 'quick' else 30000
    out = []
    for i in range(n):
        # 01 sort
        es = mxlist(rng, empties=0.03 if rng.random() < 0.3 else 0.0, special=0.05)
        if rng.random() < 0.01: es = []
        out.append(' '.join(['01'] + es))
        # 02 tryconn
        marked = rng.random() < 0.25
        es = mxlist(rng, empties=0.05 if marked else 0.0, special=0.35 if marked else 0.0, maxn=6)
        if rng.random() < 0.02: es = []
        t = total_addrs(es)
        par = bytes([rng.randrange(0, min(t + 4, 13)), rng.choice([0, 0, 0, 1, 2, 3]) if marked else rng.choice([0, 0, 1, 3]),
                     0, 25] if rng.random() < 0.8 else [rng.randrange(0, 6), 0, rng.randrange(256), rng.randrange(256)])
        out.append(' '.join(['02', par.hex(), R.hx(oracle(rng, t))] + es))
        # 03 filter
        es = mxlist(rng, empties=0.02 if rng.random() < 0.2 else 0.0, maxn=6)
        out.append(' '.join(['03', ifaces(rng, es)] + es))
        # 05 the whole sequence
        es = mxlist(rng, maxn=6)
        t = total_addrs(es)
        port = rng.choice([25, 25, 25, 25, 24, 26, 587, 2525])
        par = bytes([rng.randrange(0, min(t + 3, 12)), 0, port >> 8, port & 255])
        out.append(' '.join(['05', par.hex(), R.hx(oracle(rng, t)), ifaces(rng, es)] + es))
        # 04 smtproute
        out.append(route_case(rng))
        # 06 ask_dnsmx, 07 getmxlist + main()
        out.append(dnsmx_case(rng))
        out.append(main_case(rng))
        # 08 smtproute with all keys; every fourth round an address literal as target (op 07)
        out.append(route_case_x(rng))
        if i % 4 == 0:
            out.append(literal_case(rng))
    return out

def _entries(fields):
    return [bytes.fromhex(f) for f in fields if f != '-']

def _ca_obs(case, c_out):
    f = case.split(' ')
    spec = bytes.fromhex(f[3]) if f[3] != '-' else b''
    total, o = 0, 0
    while o + 1 < len(spec):
        total += spec[o + 1]; o += 2 + spec[o + 1]
    toks = c_out.split(' ')
    used = any(t.startswith('M') for t in toks)
    att = [t for t in toks if t.startswith('ATT')]
    natt = 0 if not att or att[0] == 'ATT-' else (len(att[0]) - 3) // 2
    return total, natt, used

def classify(case, c_out):
    # F-C20-5: the run ended without using a connection although candidates were left (spec: early_exit_b)
    if case.startswith('ca ') and c_out.startswith('B '):
        total, natt, used = _ca_obs(case, c_out)
        # ... by an exit inside connect_mx() / the pinned-host refusal, not by "Z4.4.2 can't connect to any server"
        if not used and natt < total and ' S5a342e342e32' not in c_out:
            return 'gives-up-with-candidates-left'
    return None

def nontrivial(case, c_out):
    f = case.split(' ')
    if f[0] == 'ca':
        total, natt, used = _ca_obs(case, c_out)
        return natt >= 2
    if f[0] == '01':
        pr = [e[:4] for e in _entries(f[1:])]
        return c_out.startswith('OK') and len(pr) != len(set(pr))
    if f[0] == '06':
        return c_out.startswith('OK') and len(c_out.split(' ')) > 2
    if f[0] in ('02', '05', '07'):
        toks = c_out.split(' ')
        # a failed attempt followed by another attempt
        return any(a.startswith('A') and b.startswith('A') for a, b in zip(toks, toks[1:]))
    if f[0] == '03':
        return c_out.startswith('OK') and sum(len(x) for x in c_out.split(' ')[1:]) < sum(len(x) for x in f[2:])
    if f[0] == '08':
        return c_out.startswith('ROUTE') and (' T1 ' in c_out or ' O00000000000000000000ffff' in c_out or (' P' in c_out and not c_out.endswith('P' + '00' * 16)))
    if f[0] == '04':
        # a route was found although at least two files / lines were candidates
        return c_out.startswith('ROUTE') and not c_out.endswith('NONE') and (len(f) > 5 or bytes.fromhex(f[3])[1:].count(b'\n') > 1)
    return False

def distribution(results):
    d = {}
    for r in results:
        op = r['case'][:2]
        if op == 'ca':
            total, natt, used = _ca_obs(r['case'], r['c'])
            k = 'ca:' + ('used' if used else 'all-tried' if natt == total else 'gave-up-early')
            d[k] = d.get(k, 0) + 1
            continue
        k = op + ':' + ('crash' if r['c'] in ('CRASH', 'TIMEOUT') else 'allme' if r['c'].endswith('ALLME') else 'die' if r['c'].startswith('DIE') else 'rc' if r['c'].startswith('RC') else 'fatal' if r['c'].startswith('FATAL') else 'pre' if r['spec'] == 'pre' else 'noroute' if r['c'].endswith(' NONE') else 'run')
        d[k] = d.get(k, 0) + 1
    return d

LEVEL_TEXT = ('Machine-checked Coq theorems over executable models of smtproute, filter_my_ips, sortmx and tryconn: for every configuration and target name '
              '(<= 254 octets) smtproute answers what the first existing smtproutes.d file in the order name, *.suffixes (longest first), default says, '
              'else what the first valid matching control/smtproutes line says, an empty relay never yields relay addresses and keeps the port; '
              'for every non-empty MX list whose entries have addresses sortmx returns a rearrangement that ascends in preference, puts entries containing '
              'IPv6 before IPv4-only ones at equal preference and IPv6 addresses first inside an entry, and is stable; for every fresh list, every sequence of '
              'connect() outcomes and any number of tryconn calls the addresses are attempted once each in list order, a failed attempt is '
              'followed by the next address, and -ENOENT is answered only when all were attempted; filter_my_ips removes exactly the local '
              'addresses; ask_dnsmx answers with a non-empty list of untried entries (exactly the resolvable MX records, implicit MX at 65536); getmxlist takes the '
              'relay of the route if there is one and DNS otherwise, always with the port of the route; composed as in main() Qremote never crashes, tries the sorted '
              'list once each in order and no local address is attempted on port 25. The models are tied to the C by a differential run under ASan/UBSan.')
LEVEL_NOTE = ('Trusted: Coq kernel, translator regexes, extraction (ExtrOcamlBasic), harness, generator quality of the correspondence run, stability of glibc qsort, '
              'the file-system / lloadfilefd / libc abstractions of the route model. '
              'The connect phase is the C04/C18 model of connect_mx() composed with the tryconn model (C20_connect_*): candidates once each in order, every failure but a '
              'silent server, dup2, a local TLS problem and the pinned-host refusal moves on (those four are the known finding F-C20-5), Z4.4.2 only after all. '
              'Not covered by a theorem: the statement order of main() '
              '(checked by the translator and repeated in the harness, main() cannot be included), '
              'a whole-program Qremote run.')
TECHNIQUE = ('Coq proofs by induction over the lists (insertion-sort invariant with a numeric key, representation invariant of the USED/CURRENT marks, '
             'fuel-bounded probe loop against the list of documented names); translator-regenerated constants; model-vs-C differential run')
DESIGN_REF = 'DESIGN.md section 5, C20; finding F-C20-1 in section 7'

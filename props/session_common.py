"""shared by the properties decided on the `session` engine (C01, C03, C08, C15, ...)"""
import os, sys
import runlib as R
sys.path.insert(0, os.path.join(R.VERIF, 'gen'))
import session_gen

ENGINE = dict(name='session', runner='session/runner.py', extract='Extract/Extract_session.v', driver='session_driver.ml',
              glue=('glue.ml', 'glue_z.ml'), accepts=lambda c: c.startswith('5e '), shrink_from=2)

SHRINK_FROM = 2      # never shrink the configuration field

TRUSTED_COMMON = [
    'Coq 8.16.1 kernel; vm_compute only for the commands[] table check (forallb over 12 rows) and the examples',
    'axioms: none (Closed under the global context)',
    'translator tools/translators/qsmtpd.py: commands[] rows (name, mask, handler, state, flags), MAXRCPT, MAXBADCMDS, MAXHOPS, queue exit-code range, 510-octet command limit, the submission port string, the header names of check_rfc822_headers() and the literal pieces of the Date / From / Message-Id fields added in submission mode, regenerated from the C on every run',
    'hand-written model coq/Model/Session.v (smtploop dispatcher, smtp_helo/ehlo/from/rcpt/rset/noop/vrfy/quit/data incl. the submission-mode branches, queue_envelope/queue_result, freedata, tarpit, sync_pipelining, wait_for_quit) on top of coq/Model/NetRead.v; tied to the real Qsmtpd binary by the whole-program correspondence run',
    'oracles of the model (address parser incl. user lookup, HELO check, MAIL parameters, relay-list lookup, DNS MX, qmail-queue outcome, trace header): theorems hold for all of them; for the correspondence they are instantiated in ocaml/session_driver.ml to match the scratch configuration built by harness/session/runner.py',
    'whole-program harness: all of qsmtpd/** and lib/*.c from the working tree (ASan+UBSan), only lib/libowfatconn.c replaced by harness/session/fakedns.c; sleep/time/gettimeofday and the tarpit poll wrapped (fixed clock: the Message-Id stamp is constant; dates are masked by the runner, the added Date: field only where it equals the date of the Received: line); AUTOQMAIL=/proc/self/cwd; qmail-queue stand-in harness/session/qq_standin.c; lock-step segment delivery by /proc/<pid>/syscall + SIOCOUTQ idle detection',
    'extraction (ExtrOcamlBasic only) and ocaml/session_driver.ml incl. the reconstruction of ghost notes from (command text, reply code) for simple sessions in spec mode',
]
ASSUMPTIONS_COMMON = [
    'no TLS, CHUNKING off: the configuration of the harness; those paths are outside this model; AUTH: only single-line AUTH PLAIN against the checkpassword stand-in (configuration auth=1), multi-line exchanges end the modelled session',
    'submission mode (TCPLOCALPORT 587, cfg port=587) is modelled (oracle o_submission: MAIL FROM gate, header checks, Date/From/Message-Id additions); the TLS client certificate stage of is_authenticated() is modelled with the outcome of the one real evaluation of tls_verify() as oracle (o_tls, o_tlsverify; literal model: coq/Model/TlsVerify.v, bridge: coq/Proofs/CertBridge.v); without TLS it returns 0 at once, which is all the session harness exercises; control/msgidhost, the clock and the date text are oracles',
    'per-recipient filters all pass (no filterconf in the scratch tree); their combination is property C12',
    'the kernel delivers bytes to read() in segment order; a segment arrives when the server blocks in poll()',
]


def nontrivial(case, c_out):
    toks = c_out.split()
    return any(t.startswith('Q') for t in toks) or (toks.count('r354') >= 1 and len(toks) > 6)


def distribution(results):
    d = dict(handoffs=0, r250=0, r354=0, r4xx=0, r5xx=0, closed=0, simple_cases=0)
    for r in results:
        for t in r['c'].split():
            if t.startswith('Q'): d['handoffs'] += 1
            elif t == 'r250': d['r250'] += 1
            elif t == 'r354': d['r354'] += 1
            elif t.startswith('r4'): d['r4xx'] += 1
            elif t.startswith('r5'): d['r5xx'] += 1
            elif t == 'closed': d['closed'] += 1
        if r['spec'] != 'pre': d['simple_cases'] += 1
    return d

(* Hand-written glue between case files and the extracted model types. *)
open M

let rec pos_of_int (i : int) : positive =
  if i = 1 then XH
  else if i land 1 = 0 then XO (pos_of_int (i lsr 1))
  else XI (pos_of_int (i lsr 1))
let n_of_int (i : int) : n = if i = 0 then N0 else Npos (pos_of_int i)
let rec int_of_pos = function XH -> 1 | XO p -> 2 * int_of_pos p | XI p -> 2 * int_of_pos p + 1
let int_of_n = function N0 -> 0 | Npos p -> int_of_pos p
let rec nat_of_int (i : int) : nat = if i <= 0 then O else S (nat_of_int (i - 1))
let int_of_nat (x : nat) : int = let rec go acc = function O -> acc | S y -> go (acc + 1) y in go 0 x

let hexv c = match c with
  | '0'..'9' -> Char.code c - 48
  | 'a'..'f' -> Char.code c - 87
  | 'A'..'F' -> Char.code c - 55
  | _ -> failwith "hex"
let bytes_of_hex (s : string) : n list =
  if s = "-" then [] else begin
    let len = String.length s / 2 in
    let rec go i acc = if i < 0 then acc else go (i - 1) (n_of_int (hexv s.[2*i] * 16 + hexv s.[2*i+1]) :: acc) in
    go (len - 1) []
  end
let ints_of_hex (s : string) : int list = List.map int_of_n (bytes_of_hex s)
let hex_of_bytes (l : n list) : string =
  if l = [] then "-" else begin
    let b = Buffer.create 64 in
    List.iter (fun x -> Buffer.add_string b (Printf.sprintf "%02x" (int_of_n x land 255))) l;
    Buffer.contents b
  end
let fields (line : string) : string list =
  List.filter (fun s -> s <> "") (String.split_on_char ' ' line)

let main_loop (f : string list -> string) =
  (try
    while true do
      let line = input_line stdin in
      let r = (try f (fields line) with Stack_overflow -> "STACKOVERFLOW" | Failure m -> "BADCASE " ^ m) in
      print_string r; print_char '\n'
    done
  with End_of_file -> ());
  flush stdout

(* model side of the spf engine; mode from argv[1]:
     model : case line -> result line in the format of harness/spf_h.c
     spec  : case line | C result line -> "ok" | "okrfc" | "okrfcp" | "bad" | "pre"
     rfc   : case line -> result of the RFC 7208 reference (debugging aid) *)
open M

let has_nul l = List.exists (fun x -> x = N0) l

let parse_case fs = match fs with
  | "c1" :: dom :: ip :: iptext :: mf :: helo :: rhost :: heloname :: zone ->
      let b = bytes_of_hex in
      let ipb = b ip in
      if List.length ipb <> 16 then None
      else if List.exists has_nul [b dom; b iptext; b mf; b helo; b rhost; b heloname] then None
      else if b mf <> [] && (let m = List.map int_of_n (b mf) in
                             let rec idx i = function [] -> -1 | c :: r -> if c = 64 then i else idx (i + 1) r in
                             let k = idx 0 m in k <= 0 || k = List.length m - 1) then None
      else if b helo = [] && b rhost = [] then None
      else
        let x = { s_client = octets_to_N ipb; s_iptext = b iptext; s_mailfrom = b mf; s_helostr = b helo;
                  s_remotehost = b rhost; s_heloname = b heloname; s_now = n_of_int 1234567890 } in
        Some (b dom, x, List.map b zone)
  | _ -> None

let show_q = function
  | QT n -> "T" ^ hex_of_bytes n
  | QA n -> "A" ^ hex_of_bytes n
  | Q6 n -> "6" ^ hex_of_bytes n
  | QM n -> "M" ^ hex_of_bytes n
  | QN ip -> "N" ^ hex_of_bytes (addr_octets ip)

let model fs = match parse_case fs with
  | None -> "BADCASE"
  | Some (dom, x, zone) ->
      let d = zone_dns (decode_zone zone) in
      (match check_host_c d x dom None None with
       | Crash _ -> "CRASH"
       | OutOfFuel -> "OUTOFFUEL"
       | Ok (rc, g) ->
           let rci = int_of_z rc in
           let qs = String.concat "" (List.map (fun q -> " " ^ show_q q) (queries_of g.g_log)) in
           let m = match g.g_mech with None -> "-" | Some m -> String.concat "" (List.map (fun c -> String.make 1 (Char.chr (int_of_n c))) m) in
           let e = match g.g_exp with None -> "NULL" | Some e -> hex_of_bytes e in
           let v = if rci < 0 then "NONE" else
               (match spfreceived x (z_of_int (rci land 15)) g with None -> "ERR" | Some h -> hex_of_bytes h) in
           Printf.sprintf "Q%s R%d M%s E%s V %s" qs rci m e v)

(* parse a result line of the harness *)
let parse_obs ws =
  let rec go ws log rc exp rcv = match ws with
    | [] -> (List.rev log, rc, exp, rcv)
    | "Q" :: r -> go r log rc exp rcv
    | "V" :: v :: r -> go r log rc exp (if v = "NONE" || v = "ERR" then None else Some (bytes_of_hex v))
    | w :: r when String.length w >= 1 ->
        let k = w.[0] and rest = String.sub w 1 (String.length w - 1) in
        (match k with
         | 'T' -> go r (QT (bytes_of_hex rest) :: log) rc exp rcv
         | 'A' -> go r (QA (bytes_of_hex rest) :: log) rc exp rcv
         | '6' -> go r (Q6 (bytes_of_hex rest) :: log) rc exp rcv
         | 'N' -> go r (QN (octets_to_N (bytes_of_hex rest)) :: log) rc exp rcv
         | 'R' -> go r log (Some (int_of_string rest)) exp rcv
         | 'M' -> if rc = None then go r (QM (bytes_of_hex rest) :: log) rc exp rcv else go r log rc exp rcv
         | 'E' -> go r log rc (if rest = "NULL" then None else Some (bytes_of_hex rest)) rcv
         | _ -> failwith "obs")
    | _ -> failwith "obs" in
  go ws [] None None None

let spec fs obs = match parse_case fs with
  | None -> "pre"
  | Some (dom, x, zone) ->
      if not (sess_ok x) then "pre"
      else match obs with
        | ("CRASH" | "TIMEOUT") :: _ -> "bad"
        | _ ->
          let (log, rc, exp, rcv) = parse_obs obs in
          (match rc with
           | None -> "bad"
           | Some rc ->
               let zexp = List.exists (fun e -> has_exp_mod e) zone in
               if not (spec_ok_C11 zexp { o_log = log; o_rc = z_of_int rc; o_exp = exp; o_rcv = rcv }) then "bad"
               else
                 (* okrfc: the reference of Spec/SpfRfc.v gave a result for this case and the implementation agrees *)
                 let ref = rfc_check_host (zone_dns (decode_zone zone)) x dom in
                 if not (rfc_agrees ref (z_of_int rc)) then "bad"
                 else (match ref with
                       | RSkip -> "ok"
                       | _ ->
                         (* okrfcp: the case lies in the class for which agreement is PROVED (strict reference gives a result) *)
                         (match rfc_check_host_strict (zone_dns (decode_zone zone)) x dom with RSkip -> "okrfc" | _ -> "okrfcp")))

let rfc fs = match parse_case fs with
  | None -> "BADCASE"
  | Some (dom, x, zone) ->
      (match rfc_check_host (zone_dns (decode_zone zone)) x dom with
       | RSkip -> "RSkip" | RLimit -> "RLimit" | RCode z -> Printf.sprintf "R%d" (int_of_z z))

let () =
  match Sys.argv.(1) with
  | "model" -> main_loop model
  | "rfc" -> main_loop rfc
  | "spec" -> main_loop (fun fs ->
      let rec split acc = function "|" :: rest -> (List.rev acc, rest) | x :: r -> split (x :: acc) r | [] -> (List.rev acc, []) in
      let (c, o) = split [] fs in spec c o)
  | _ -> prerr_endline "usage"; exit 2

(* model side of the rfilters engine (C12 stage 3); mode from argv[1]: model | spec
   case:  fd <id> <misc> <mailfrom> <helo> <ip> <rcpts> <dns> <mx> <file>*   (see harness/rfilters_h.c) *)
open M

let rec dec_of_pos (p : positive) : int list =
  let rec double ds carry = match ds with
    | [] -> if carry > 0 then [carry] else []
    | d :: r -> let v = 2 * d + carry in (v mod 10) :: double r (v / 10) in
  match p with XH -> [1] | XO q -> double (dec_of_pos q) 0 | XI q -> double (dec_of_pos q) 1
let string_of_pos p = String.concat "" (List.rev_map string_of_int (dec_of_pos p))
let string_of_z = function Z0 -> "0" | Zpos p -> string_of_pos p | Zneg p -> "-" ^ string_of_pos p

let fres_num = function FError -> 0 | FPassed -> 1 | FDeniedMsg -> 2 | FDeniedUnspec -> 3 | FDeniedNoUser -> 4
  | FDeniedTemp -> 5 | FWhite -> 6

let mx_ok mx = (List.length (bytes_of_hex mx)) mod 16 = 0

let run fs = match fs with
  | "fd" :: id :: misc :: mf :: helo :: ip :: rcpts :: dns :: mx :: files when mx_ok mx ->
      (match bytes_of_hex id with
       | [i] -> Some (rf_case i (bytes_of_hex misc) (bytes_of_hex mf) (bytes_of_hex helo) (bytes_of_hex ip)
                        (bytes_of_hex rcpts) (bytes_of_hex dns) (bytes_of_hex mx) (List.map bytes_of_hex files))
       | _ -> None)
  | _ -> None

let show = function
  | None | Some RBadCase -> "BADCASE"
  | Some RGlobalErr -> "GLOBALERR leak=0"
  | Some RConfErr -> "CONFERR leak=0"
  | Some RCrash -> "CRASH"
  | Some (RDone o) ->
      let t = match o.o_res with FPassed | FError -> "-" | _ -> string_of_z o.o_type in
      Printf.sprintf "r=%d t=%s reply=%s c2822=%d dnscalls=%d leak=0" (fres_num o.o_res) t (hex_of_bytes o.o_reply)
        (int_of_n o.o_check2822) (int_of_nat o.o_dnscalls)

let model fs = show (run fs)

let z_of_string (s : string) : z =
  let neg = String.length s > 0 && s.[0] = '-' in
  let ten = Zpos (XO (XI (XO XH))) in
  let acc = ref Z0 in
  String.iteri (fun i c ->
    if i = 0 && neg then () else begin
      if c < '0' || c > '9' then failwith "number";
      let d = Char.code c - 48 in
      let dz = if d = 0 then Z0 else Zpos (pos_of_int d) in
      acc := Z.add (Z.mul !acc ten) dz end) s;
  if neg then Z.opp !acc else !acc

let fres_of_num = function 0 -> FError | 1 -> FPassed | 2 -> FDeniedMsg | 3 -> FDeniedUnspec | 4 -> FDeniedNoUser
  | 5 -> FDeniedTemp | 6 -> FWhite | _ -> failwith "fres"

let kv (s : string) : string * string =
  match String.index_opt s '=' with
  | Some i -> (String.sub s 0 i, String.sub s (i + 1) (String.length s - i - 1))
  | None -> (s, "")

let parse_obs (o : string list) : rf_obs option =
  let t = List.map kv o in
  try
    let get k = List.assoc k t in
    if get "leak" <> "0" then None else
    Some (RObs (fres_of_num (int_of_string (get "r")), (if get "t" = "-" then None else Some (z_of_string (get "t"))),
                bytes_of_hex (get "reply"), n_of_int (int_of_string (get "c2822"))))
  with Not_found | Failure _ -> None

let spec c o = match c with
  | _ when o = ["BADCASE"] -> "pre"
  | "fd" :: id :: misc :: mf :: helo :: ip :: rcpts :: dns :: mx :: files when mx_ok mx ->
      (match bytes_of_hex id with
       | [i] ->
           (match spec_ok_rf i (bytes_of_hex misc) (bytes_of_hex mf) (bytes_of_hex helo) (bytes_of_hex ip)
                    (bytes_of_hex rcpts) (bytes_of_hex dns) (bytes_of_hex mx) (List.map bytes_of_hex files) (parse_obs o) with
            | VPre -> "pre" | VOk -> "ok" | VBad -> "bad")
       | _ -> "BADCASE")
  | _ -> "BADCASE"

let () =
  match Sys.argv.(1) with
  | "model" -> main_loop model
  | "spec" -> main_loop (fun fs ->
      let rec split acc = function "|" :: rest -> (List.rev acc, rest) | x :: r -> split (x :: acc) r | [] -> (List.rev acc, []) in
      let (c, o) = split [] fs in spec c o)
  | _ -> prerr_endline "usage"; exit 2

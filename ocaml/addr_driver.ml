(* model side of the addr engine; mode from argv[1]:
     model : case line -> result line in the format of harness/addr_h.c
     spec  : case fields | C result fields -> ok | bad | pre
             (spec-weak: the same with the local part only required to be what parselocalpart enforces;
              used by hand to tell F-C14-2 cases from others) *)
open M

let show_cres f = function
  | Ok x -> f x
  | Crash _ -> "CRASH"
  | OutOfFuel -> "OUTOFFUEL"

let si = string_of_int
let zs z = si (int_of_z z)
let ns n = si (int_of_nat n)
let cbuf hexs = bytes_of_hex hexs @ [n_of_int 0]       (* the argument as the C sees it: bytes + terminator *)
let flags_of hexs = match ints_of_hex hexs with [f] -> z_of_int f | _ -> failwith "flags"
let p4 = pton4_ref and p6 = pton6_ref

let model fs = match fs with
  | ["d0"] -> Printf.sprintf "K %s %s %d" (ns pA_BUF4) (ns pA_BUF6) (if cHAR_SIGNED then 1 else 0)
  | ["d1"; h] -> show_cres (fun r -> "D " ^ ns r) (domainvalid (cbuf h))
  | ["d2"; a] -> show_cres (fun r -> "L " ^ zs r) (parselocalpart (cbuf a))
  | ["d3"; a] ->
      let b = cbuf a in
      (match parseaddr p4 p6 b, checkaddr p4 p6 b, addrspec_valid p4 p6 b with
       | Ok r, Ok c, Ok v -> Printf.sprintf "P %s %s %d" (ns r) (ns c) (if v then 1 else 0)
       | (OutOfFuel, _, _ | _, OutOfFuel, _ | _, _, OutOfFuel) -> "OUTOFFUEL"
       | _ -> "CRASH")
  | ["d4"; fl; i] ->
      show_cres (fun r ->
        Printf.sprintf "A %s %s %s %s" (zs r.as_rc)
          (match r.as_addr with None -> "U" | Some a -> hex_of_bytes a)
          (match r.as_more with None -> "-1" | Some k -> ns k)
          (hex_of_bytes r.as_mem))
        (addrsyntax p4 p6 (cbuf i) (flags_of fl))
  | ["d5"; s] -> show_cres (fun r -> "X " ^ zs r) (xtextlen p4 p6 (cbuf s))
  | ["d6"; fl; i] ->
      show_cres (function None -> "R REJECT -" | Some a -> "R ACCEPT " ^ hex_of_bytes a)
        (addrparse_syntax p4 p6 (cbuf i) (flags_of fl))
  | _ -> "BADCASE"

let zi s = z_of_int (int_of_string s)
let b2s b = if b then "ok" else "bad"

let spec strict fs obs = match fs, obs with
  | _, ("BADCASE" :: _) -> "pre"                       (* not a case of this engine (e.g. a shrinking candidate that lost a field) *)
  | _, ("CRASH" :: _ | "TIMEOUT" :: _) -> "bad"
  | _, l when List.mem "MISMATCH" l || List.mem "MODIFIED" l || List.mem "BADLEN" l -> "bad"
  | ["d0"], ["K"; _; _; _] -> "ok"
  | ["d1"; h], ["D"; r] -> b2s (spec_dv (bytes_of_hex h) (zi r))
  | ["d2"; a], ["L"; r] -> b2s (spec_lp strict (bytes_of_hex a) (zi r))
  | ["d3"; a], ["P"; r; c; v] -> b2s (spec_pa strict (bytes_of_hex a) (zi r) (zi c) (zi v))
  | ["d4"; fl; i], ["A"; r; a; m; mem] ->
      let addr = if a = "U" then None else Some (bytes_of_hex a) in
      let more = if m = "-1" then None else Some (nat_of_int (int_of_string m)) in
      b2s (spec_as strict (flags_of fl) (bytes_of_hex i) (zi r) addr more (bytes_of_hex mem))
  | ["d5"; s], ["X"; r] -> b2s (spec_xt strict (bytes_of_hex s) (zi r))
  | ["d6"; fl; i], ["R"; "REJECT"; _] -> b2s (spec_ap strict (flags_of fl) (bytes_of_hex i) None)
  | ["d6"; fl; i], ["R"; "ACCEPT"; a] -> b2s (spec_ap strict (flags_of fl) (bytes_of_hex i) (Some (bytes_of_hex a)))
  | _ -> "bad"

let () =
  let split fs =
    let rec go acc = function "|" :: rest -> (List.rev acc, rest) | x :: r -> go (x :: acc) r | [] -> (List.rev acc, []) in
    go [] fs in
  match Sys.argv.(1) with
  | "model" -> main_loop model
  | "spec" -> main_loop (fun fs -> let (c, o) = split fs in spec true c o)
  | "spec-weak" -> main_loop (fun fs -> let (c, o) = split fs in spec false c o)
  | "class" ->   (* <local part hex> -> lweak_b, local_class, local_rfc_b : used to cross-check props/C14.py:local_class *)
      main_loop (function [h] -> let l = bytes_of_hex h in
                   Printf.sprintf "%b %b %b" (lweak_b false l) (local_class l) (local_rfc_b l) | _ -> "BADCASE")
  | _ -> prerr_endline "usage"; exit 2

(* model side of the filters engine (C12); mode from argv[1]:
     model : case line -> result line in the harness' format
     spec  : case fields | C result fields  -> ok | bad | pre
   case:  cc <outcomes> <user: mode byte + file> <domain: mode byte + file> <global: mode byte + file> <key> [<session>] *)
open M

(* ---- decimal <-> Z without going through OCaml ints (values reach LONG_MAX) *)
let rec dec_of_pos (p : positive) : int list =   (* little endian decimal digits *)
  let rec double ds carry = match ds with
    | [] -> if carry > 0 then [carry] else []
    | d :: r -> let v = 2 * d + carry in (v mod 10) :: double r (v / 10) in
  match p with XH -> [1] | XO q -> double (dec_of_pos q) 0 | XI q -> double (dec_of_pos q) 1
let string_of_pos p = String.concat "" (List.rev_map string_of_int (dec_of_pos p))
let string_of_z = function Z0 -> "0" | Zpos p -> string_of_pos p | Zneg p -> "-" ^ string_of_pos p
let z_of_string (s : string) : z =
  let neg = String.length s > 0 && s.[0] = '-' in
  let ten = Zpos (XO (XI (XO XH))) in
  let acc = ref Z0 in
  String.iteri (fun i c ->
    if i = 0 && neg then () else begin
      if c < '0' || c > '9' then failwith "number";
      let d = Char.code c - 48 in
      let dz = if d = 0 then Z0 else Zpos (pos_of_int d) in
      acc := Z.add (Z.mul !acc ten) dz end) s;
  if neg then Z.opp !acc else !acc

let mode_and_file (h : string) : n * n list =
  match bytes_of_hex h with m :: f -> (m, f) | [] -> failwith "level"

let has_nul l = List.exists (fun b -> int_of_n b = 0) l

let errno_word = function E0 -> "0" | EINVAL -> "EINVAL" | ERANGE -> "ERANGE"
let setting ((v, t), e) = string_of_z v ^ "," ^ string_of_z t ^ "," ^ errno_word e
let nat_hex l = hex_of_bytes (List.map (fun x -> n_of_int (int_of_nat x)) l)

let split_case fs = match fs with
  | [ "cc"; o; u; d; g; k ] -> Some (o, u, d, g, k, [])
  | [ "cc"; o; u; d; g; k; s ] -> let sb = bytes_of_hex s in if sb = [] then None else Some (o, u, d, g, k, sb)
  | _ -> None

let run fs = match split_case fs with
  | Some (o, u, d, g, k, sess) ->
      let (um, uf) = mode_and_file u and (dm, df) = mode_and_file d and (gm, gf) = mode_and_file g in
      let key = bytes_of_hex k in
      if has_nul key then None else Some (rcpt_case (bytes_of_hex o) um uf dm df gm gf key sess)
  | None -> None

let show = function
  | None | Some CBadCase -> "BADCASE"
  | Some CGlobalErr -> "GLOBALERR"
  | Some CCtrlErr -> "rc=-3 reply=- ok=0 good=0 trace=- p1=- p2=- ctrlerr=1 leak=0"
  | Some (CDone (res, trace, _, p1, p2) as r) ->
      let replies = match observe r with Some (ODone (rs, _, _, _, _, _, _)) -> rs | _ -> [] in
      let ok = if res.rr_ok then "1" else "0" in
      Printf.sprintf "rc=0 reply=%s ok=%s good=%s trace=%s p1=%s p2=%s ctrlerr=0 leak=%s"
        (if replies = [] then "-" else String.concat "," (List.map hex_of_bytes replies))
        ok ok (nat_hex trace) (setting p1) (setting p2) (if res.rr_leak then "1" else "0")

let model fs = show (run fs)

(* ---- parse one harness result line into the observation type *)
let kv (s : string) : string * string =
  match String.index_opt s '=' with
  | Some i -> (String.sub s 0 i, String.sub s (i + 1) (String.length s - i - 1))
  | None -> (s, "")

let parse_obs (o : string list) : observation option =
  match o with
  | [ "GLOBALERR" ] -> Some OErr
  | _ ->
    let t = List.map kv o in
    let get k = List.assoc k t in
    (try
      if get "ctrlerr" <> "0" then Some OErr else begin
        let replies = if get "reply" = "-" then [] else List.map bytes_of_hex (String.split_on_char ',' (get "reply")) in
        let trace = List.map (fun b -> nat_of_int (int_of_n b)) (bytes_of_hex (get "trace")) in
        let probe s = match String.split_on_char ',' s with
          | [ v; ty; _ ] -> (z_of_string v, z_of_string ty)
          | _ -> failwith "probe" in
        let (p1v, p1t) = probe (get "p1") and (p2v, p2t) = probe (get "p2") in
        if get "rc" <> "0" then None
        else Some (ODone (replies, get "ok" = "1", trace, p1v, p1t, p2v, p2t))
      end
    with Not_found | Failure _ -> None)

let spec c o = match split_case c with
  | Some (oc, u, d, g, k, sess) ->
      let (um, uf) = mode_and_file u and (dm, df) = mode_and_file d and (gm, gf) = mode_and_file g in
      let key = bytes_of_hex k in
      if has_nul key then "pre" else
      (match parse_obs o with
       | None ->
           (* CRASH / TIMEOUT / an error return: bad unless the case is outside the precondition *)
           (match spec_ok_C12 (bytes_of_hex oc) um uf dm df gm gf key sess OErr with VPre -> "pre" | _ -> "bad")
       | Some obs ->
           (match spec_ok_C12 (bytes_of_hex oc) um uf dm df gm gf key sess obs with VPre -> "pre" | VOk -> "ok" | VBad -> "bad"))
  | None -> "BADCASE"

let () =
  match Sys.argv.(1) with
  | "model" -> main_loop model
  | "spec" -> main_loop (fun fs ->
      let rec split acc = function "|" :: rest -> (List.rev acc, rest) | x :: r -> split (x :: acc) r | [] -> (List.rev acc, []) in
      let (c, o) = split [] fs in spec c o)
  | _ -> prerr_endline "usage"; exit 2

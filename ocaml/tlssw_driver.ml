(* model side of the tlssw engine (C18); mode from argv[1]:
     model : case line -> result line in the harness' format
     spec  : case fields | C result fields -> ok | bad
     class : case line -> names of the known-finding classes the input is in (cross-check of props/C18.py:classify)
   case: c8 <route> <n> then per MX <flags> <tlsa> <hs> <verify> <npre> <npost> <ntls> <segments>   (see harness/tlssw_h.c) *)
open M

let one s = match ints_of_hex s with [e] -> e | _ -> failwith "one byte expected"

let rec take k l = if k = 0 then ([], l) else match l with x :: r -> let (a, b) = take (k - 1) r in (x :: a, b) | [] -> failwith "short"

let rec pairs = function
  | u :: r :: rest -> (n_of_int u, z_of_int (r - 1)) :: pairs rest
  | [] -> []
  | _ -> failwith "tlsa"

let rec conns n fs =
  if n = 0 then (if fs = [] then [] else failwith "trailing fields") else
  match fs with
  | flags :: tlsa :: hs :: vfy :: a :: b :: c :: rest ->
    let fl = one flags in
    let (pre, rest) = take (one a) rest in
    let (post, rest) = take (one b) rest in
    let (tls, rest) = take (one c) rest in
    if one hs > 5 then failwith "hs";
    { c_named = fl land 1 <> 0; c_pinfile = fl land 2 <> 0; c_pinload = fl land 4 <> 0;
      c_tlsa = pairs (ints_of_hex tlsa); c_hs = n_of_int (one hs); c_verify = n_of_int (one vfy);
      c_pre = List.map bytes_of_hex pre; c_post = List.map bytes_of_hex post; c_tls = List.map bytes_of_hex tls }
    :: conns (n - 1) rest
  | _ -> failwith "connection fields"

let input_of = function
  | "c8" :: route :: n :: rest ->
    if one n > 8 || one n < 1 then failwith "number of MX";   (* getmxlist() never returns an empty list *)
    { k_route = one route land 1 <> 0; k_conns = conns (one n) rest }
  | _ -> failwith "fields"

let ename = function
  | RInval -> "EINVAL" | R2big -> "E2BIG" | RReset -> "ECONNRESET" | _ -> "EOTHER"

let show_ev = function
  | EvTlsa k -> Printf.sprintf "T%d" (int_of_nat k)
  | EvConn k -> Printf.sprintf "C%d" (int_of_nat k)
  | EvCert r -> if r then "K1" else "K0"
  | EvW (t, b) -> (if t then "Wt" else "Wc") ^ hex_of_bytes b
  | EvR (t, RLine l, left) -> Printf.sprintf "%s%s:%d" (if t then "Rt" else "Rc") (hex_of_bytes l) (int_of_nat left)
  | EvR (t, it, left) -> Printf.sprintf "%s%s:%d" (if t then "Et" else "Ec") (ename it) (int_of_nat left)
  | EvHs (p, h) -> Printf.sprintf "H%d:%d" (int_of_nat p) (int_of_n h)
  | EvVfy v -> Printf.sprintf "V%d" (int_of_n v)
  | EvMail (t, e) -> Printf.sprintf "%s%d" (if t then "Mt" else "Mc") (int_of_n e)

let model fs =
  let r = run (input_of fs) in
  let s = final r in
  let fin = (match r with Exit _ -> "X0" | Ret _ -> "RETURNED" | Stuck _ -> "STUCK") in
  String.concat " " ("B" :: List.map show_ev s.s_tr @ [fin] @ List.map (fun w -> "S" ^ hex_of_bytes w) s.s_rpt)

(* "Rc3232:27" -> ("3232", 27) *)
let split_colon s =
  match String.index_opt s ':' with
  | Some i -> (String.sub s 0 i, int_of_string (String.sub s (i + 1) (String.length s - i - 1)))
  | None -> failwith "colon"

let ev_of tok =
  let n = String.length tok in
  let rest k = String.sub tok k (n - k) in
  if n >= 1 && tok.[0] = 'T' then Some (EvTlsa (nat_of_int (int_of_string (rest 1))))
  else if n >= 1 && tok.[0] = 'C' then Some (EvConn (nat_of_int (int_of_string (rest 1))))
  else if tok = "K1" then Some (EvCert true) else if tok = "K0" then Some (EvCert false)
  else if n >= 2 && tok.[0] = 'W' then Some (EvW (tok.[1] = 't', bytes_of_hex (rest 2)))
  else if n >= 2 && tok.[0] = 'R' then
    let (h, l) = split_colon (rest 2) in Some (EvR (tok.[1] = 't', RLine (bytes_of_hex h), nat_of_int l))
  else if n >= 2 && tok.[0] = 'E' then
    let (h, l) = split_colon (rest 2) in
    let it = (match h with "EINVAL" -> RInval | "E2BIG" -> R2big | "ECONNRESET" -> RReset | _ -> RStuck) in
    Some (EvR (tok.[1] = 't', it, nat_of_int l))
  else if n >= 1 && tok.[0] = 'H' then
    let (p, h) = split_colon (rest 1) in Some (EvHs (nat_of_int (int_of_string p), n_of_int h))
  else if n >= 1 && tok.[0] = 'V' then Some (EvVfy (n_of_int (int_of_string (rest 1))))
  else if n >= 2 && tok.[0] = 'M' then Some (EvMail (tok.[1] = 't', n_of_int (int_of_string (rest 2))))
  else None

(* events up to the exit marker; the reports are not part of the property *)
let rec events = function
  | [] -> []
  | tok :: r -> if tok = "B" then events r
    else if String.length tok >= 1 && (tok.[0] = 'X' || tok.[0] = 'S') then events r
    else (match ev_of tok with Some e -> e :: events r | None -> failwith ("token " ^ tok))

let spec c o =
  match o with
  | "B" :: _ -> if spec_ok_C18 (input_of c) (events o) then "ok" else "bad"
  | _ -> "bad"

let classes fs =
  if class_wrong_host (input_of fs) then "tlsa_wrong_host" else "-"

let () =
  match Sys.argv.(1) with
  | "model" -> main_loop model
  | "class" -> main_loop classes
  | "spec" -> main_loop (fun fs ->
      let rec split acc = function "|" :: rest -> (List.rev acc, rest) | x :: r -> split (x :: acc) r | [] -> (List.rev acc, []) in
      let (c, o) = split [] fs in spec c o)
  | _ -> prerr_endline "usage"; exit 2

(* model side of the mx engine (C20); mode from argv[1]:
     model : case line -> result line in the format of harness/mx_h.c
     spec  : case fields | c-result fields  -> "ok" | "bad" | "pre" *)
open M

exception Bad

let rec chunks k l =
  if l = [] then [] else begin
    let rec take n l acc = if n = 0 then (List.rev acc, l) else match l with x :: r -> take (n - 1) r (x :: acc) | [] -> raise Bad in
    let (a, r) = take k l [] in a :: chunks k r
  end

let int_of_be l = List.fold_left (fun acc x -> acc * 256 + x) 0 l

let entry_of_hex (s : string) : mx =
  let b = ints_of_hex s in
  let n = List.length b in
  if n < 5 || (n - 5) mod 16 <> 0 then raise Bad;
  match b with
  | p0 :: p1 :: p2 :: p3 :: id :: rest ->
      { prio = n_of_int (int_of_be [p0; p1; p2; p3]); ident = n_of_int id;
        addrs = List.map (List.map n_of_int) (chunks 16 rest) }
  | _ -> raise Bad

let hex_of_entry (e : mx) : string =
  Printf.sprintf "%08x%02x" (int_of_n e.prio) (int_of_n e.ident)
  ^ String.concat "" (List.map (fun a -> String.concat "" (List.map (fun x -> Printf.sprintf "%02x" (int_of_n x)) a)) e.addrs)

let ifaces_of_hex (s : string) : bool * iface list =
  let b = ints_of_hex s in
  let n = List.length b in
  if n < 1 || (n - 1) mod 17 <> 0 then raise Bad;
  match b with
  | flag :: rest ->
      (flag = 1,
       List.map (fun r -> match r with
         | 4 :: a -> If4 (List.map n_of_int a)
         | 6 :: a -> If6 (List.map n_of_int a)
         | 0 :: _ -> IfNull
         | _ -> IfOther) (chunks 17 rest))
  | [] -> raise Bad

let show_list tag l = tag ^ String.concat "" (List.map (fun e -> " " ^ hex_of_entry e) l)

let show_try port (s : tc_state) outs =
  let b = Buffer.create 256 in
  Buffer.add_string b "T";
  List.iter (fun (atts, res) ->
    List.iter (fun (a, v4) ->
      Buffer.add_string b " A";
      List.iter (fun x -> Buffer.add_string b (Printf.sprintf "%02x" (int_of_n x))) a;
      Buffer.add_string b (if v4 then "04" else "06");
      Buffer.add_string b (Printf.sprintf "%04x" port)) atts;
    (match res with
     | TcConnected (id, idx) -> Buffer.add_string b (Printf.sprintf " R0%02x%04x" (int_of_n id) (int_of_nat idx))
     | TcNoent -> Buffer.add_string b " RENOENT")) outs;
  Buffer.add_string b " F";
  if s.st_list = [] then Buffer.add_string b "-";
  List.iter (fun e -> Buffer.add_string b (Printf.sprintf "%08x" (int_of_n e.prio))) s.st_list;
  Buffer.contents b

let params s = match ints_of_hex s with
  | [nc; cs; p0; p1] -> (nc, cs, p0 * 256 + p1)
  | _ -> raise Bad


(* ---- op 04: smtproute ---- *)
let name_ok (n : int list) may_be_empty =
  if n = [] then may_be_empty
  else not (List.mem 47 n || List.mem 0 n) && n <> [46] && n <> [46; 46]
let content_ok (c : int list) = List.for_all (fun x -> not (List.mem x [0; 32; 9; 35; 92; 13])) c
let rec take_n k l = if k = 0 then ([], l) else match l with x :: r -> let (a, b) = take_n (k - 1) r in (x :: a, b) | [] -> raise Bad
(* resolver table with error markers (count 0xfe temp, 0xfd perm, 0xfc out of memory) *)
let rec parse_dnsx (b : int list) = match b with
  | [] -> []
  | l :: r ->
      let (name, r) = take_n l r in
      if List.mem 0 name then raise Bad;
      (match r with
       | c :: r ->
           let n = List.map n_of_int name in
           if c = 0xfe then (n, DTemp) :: parse_dnsx r
           else if c = 0xfd then (n, DPerm) :: parse_dnsx r
           else if c = 0xfc then (n, DLocal) :: parse_dnsx r
           else let (ad, r) = take_n (16 * c) r in
                (n, DAddrs (List.map (List.map n_of_int) (chunks 16 ad))) :: parse_dnsx r
       | [] -> raise Bad)
let parse_dns b = plain_table (parse_dnsx b)
let parse_mxrec (s : string) =
  match ints_of_hex s with
  | flag :: r when flag <= 4 ->
      let rec go = function
        | [] -> []
        | hi :: lo :: l :: r -> let (name, r) = take_n l r in
                                if List.mem 0 name then raise Bad;
                                (n_of_int (hi * 256 + lo), List.map n_of_int name) :: go r
        | _ -> raise Bad in
      (n_of_int flag, go r)
  | _ -> raise Bad
let parse_file (s : string) =
  match ints_of_hex s with
  | l :: r -> let (name, content) = take_n l r in
              if not (name_ok name false) || not (content_ok content) then raise Bad;
              (List.map n_of_int name, List.map n_of_int content)
  | [] -> raise Bad
let parse_route_case remhost dnsf flagsf files =
  let rh = ints_of_hex remhost in
  if not (name_ok rh true) then raise Bad;
  let dns = parse_dns (ints_of_hex dnsf) in
  let (flags, content) = match ints_of_hex flagsf with f :: c -> (f, c) | [] -> raise Bad in
  if not (content_ok content) then raise Bad;
  let fl = List.map parse_file files in
  let rec dup = function [] -> false | (n, _) :: r -> List.exists (fun (m, _) -> m = n) r || dup r in
  if dup fl then raise Bad;
  ({ dir_exists = flags land 2 <> 0; dir_files = fl;
     routes_file = (if flags land 1 <> 0 then Some (List.map n_of_int content) else None);
     dns_table = dns }, List.map n_of_int rh)
let show_route = function
  | RouteFatal -> "FATAL"
  | RouteOther -> "UNMODELLED"
  | Route (None, p) -> Printf.sprintf "ROUTE %d NONE" (int_of_n p)
  | Route (Some al, p) -> Printf.sprintf "ROUTE %d %s" (int_of_n p) (hex_of_bytes (List.concat al))


(* ---- op 08: smtproute with all keys ---- *)
let rec parse_paths (b : int list) = match b with
  | [] -> []
  | l :: r -> let (p, r) = take_n l r in if List.mem 0 p then raise Bad; List.map n_of_int p :: parse_paths r
let parse_route_case_x remhost dnsf flagsf readable files =
  let (cfg, rh) = parse_route_case remhost dnsf flagsf files in
  let flags = (match ints_of_hex flagsf with f :: _ -> f | [] -> raise Bad) in
  (cfg, { k_readable = parse_paths (ints_of_hex readable); k_defkey = flags land 4 <> 0 }, rh)
let hexs l = if l = [] then "-" else String.concat "" (List.map (fun x -> Printf.sprintf "%02x" (int_of_n x)) l)
let show_obs = function
  | OFatal c -> Printf.sprintf "FATAL %d" (int_of_n c)
  | ORoute (mx, p, n, t, c, k, o, o6) ->
      Printf.sprintf "ROUTE %d %s N%d T%d C%s K%s O%s P%s" (int_of_n p)
        (match mx with None -> "NONE" | Some al -> hex_of_bytes (List.concat al))
        (if n then 1 else 0) (if t then 1 else 0) (hexs c) (hexs k) (hexs o) (hexs o6)
let parse_obs = function
  | ["FATAL"; c] -> OFatal (n_of_int (int_of_string c))
  | ["ROUTE"; p; mx; n; t; c; k; o; o6] ->
      let tl1 s = String.sub s 1 (String.length s - 1) in
      let flag s ch = if String.length s = 2 && s.[0] = ch then s.[1] = '1' else raise Bad in
      ORoute ((if mx = "NONE" then None else Some (List.map (List.map n_of_int) (chunks 16 (ints_of_hex mx)))),
              n_of_int (int_of_string p), flag n 'N', flag t 'T', bytes_of_hex (tl1 c), bytes_of_hex (tl1 k),
              bytes_of_hex (tl1 o), bytes_of_hex (tl1 o6))
  | _ -> raise Bad

let die_word w = match int_of_n w with 0 -> "CONF" | 1 -> "D5.1.10" | 2 -> "Z4.4.3" | 3 -> "Z4.3.0" | _ -> "UNMODELLED"
let show_answer = function
  | MxList l -> show_list "OK" l
  | MxNoHost -> "RC 1" | MxNull -> "RC 2" | MxTemp -> "RC -2" | MxPerm -> "RC -3" | MxLocal -> "RC -1"

let crashy f = function
  | Ok x -> f x
  | Crash _ -> "CRASH"
  | OutOfFuel -> "OUTOFFUEL"

let model fs =
  try match fs with
  | "01" :: es -> crashy (show_list "OK") (sortmx (List.map entry_of_hex es))
  | "02" :: par :: orc :: es ->
      let (nc, cs, port) = params par in
      let l = List.map entry_of_hex es in
      crashy (fun (s, outs) -> show_try port s outs)
        (tryconn_calls (nat_of_int nc) { st_list = l; st_cur = nat_of_int cs; st_oracle = bytes_of_hex orc })
  | "03" :: ifs :: es ->
      let (fail, il) = ifaces_of_hex ifs in
      let l = List.map entry_of_hex es in
      if l = [] then raise Bad;
      crashy (show_list "OK") (filter_my_ips fail il l)
  | "04" :: remhost :: dnsf :: flagsf :: files ->
      let (cfg, rh) = parse_route_case remhost dnsf flagsf files in
      crashy show_route (smtproute cfg rh)
  | "08" :: remhost :: dnsf :: flagsf :: readable :: files ->
      let (cfg, ke, rh) = parse_route_case_x remhost dnsf flagsf readable files in
      crashy (fun r -> show_obs (observe r)) (smtproute_x cfg ke rh)
  | ["06"; name; dnsf; mxf] ->
      let nm = ints_of_hex name in
      if not (name_ok nm true) then raise Bad;
      let tab = parse_dnsx (ints_of_hex dnsf) in
      let (flag, recs) = parse_mxrec mxf in
      show_answer (ask_dnsmx tab flag recs (List.map n_of_int nm))
  | "07" :: remhost :: dnsf :: mxf :: flagsf :: par :: orc :: ifs :: files ->
      let (nc, cs, _) = params par in
      let (flag, recs) = parse_mxrec mxf in
      let (fail, il) = ifaces_of_hex ifs in
      let (cfg, rh) = parse_route_case remhost dnsf flagsf files in
      let tab = parse_dnsx (ints_of_hex dnsf) in
      crashy (function
          | MDie w -> "DIE " ^ die_word w
          | MRun (port, AllMe) -> Printf.sprintf "G%d ALLME" (int_of_n port)
          | MRun (port, Tried (l1, l2, s, outs)) ->
              let z = List.map zero_ident in
              let s' = { s with st_list = s.st_list } in
              let outs' = List.map (fun (a, r) -> (a, match r with TcConnected (_, i) -> TcConnected (N0, i) | x -> x)) outs in
              Printf.sprintf "G%d " (int_of_n port) ^ show_list "P" (z l1) ^ " " ^ show_list "S" (z l2) ^ " " ^ show_try (int_of_n port) s' outs')
        (qremote_main_x cfg tab flag recs rh fail il (nat_of_int cs) (bytes_of_hex orc) (nat_of_int nc))
  | "05" :: par :: orc :: ifs :: es ->
      let (nc, cs, port) = params par in
      let (fail, il) = ifaces_of_hex ifs in
      let l = List.map entry_of_hex es in
      if l = [] then raise Bad;
      crashy (function
          | AllMe -> "ALLME"
          | Tried (l1, l2, s, outs) -> show_list "P" l1 ^ " " ^ show_list "S" l2 ^ " " ^ show_try port s outs)
        (qremote_targets (n_of_int port) fail il l (nat_of_int cs) (bytes_of_hex orc) (nat_of_int nc))
  | _ -> "BADCASE"
  with Bad -> "BADCASE"

(* ---- parsing of the observation ---- *)
let sub s i = String.sub s i (String.length s - i)

(* tokens after "T": calls; returns (outs, ok) where ok = every A token carried the expected port and a sane family *)
let parse_try port toks =
  let ok = ref true in
  let rec go acc cur = function
    | [] -> (List.rev acc, [])
    | t :: r when String.length t > 0 && t.[0] = 'A' ->
        let b = ints_of_hex (sub t 1) in
        if List.length b <> 19 then raise Bad;
        let a = List.filteri (fun i _ -> i < 16) b in
        let fam = List.nth b 16 in
        let p = List.nth b 17 * 256 + List.nth b 18 in
        if p <> port || (fam <> 4 && fam <> 6) then ok := false;
        go acc ((List.map n_of_int a, fam = 4) :: cur) r
    | "RENOENT" :: r -> go ((List.rev cur, TcNoent) :: acc) [] r
    | t :: r when String.length t > 2 && String.sub t 0 2 = "R0" ->
        (match ints_of_hex (sub t 2) with
         | [id; i0; i1] -> go ((List.rev cur, TcConnected (n_of_int id, nat_of_int (i0 * 256 + i1))) :: acc) [] r
         | _ -> raise Bad)
    | t :: r when String.length t > 0 && t.[0] = 'F' -> if cur <> [] then raise Bad; (List.rev acc, r)
    | _ -> raise Bad in
  let (outs, _) = go [] [] toks in
  (outs, !ok)

let b2s b = if b then "ok" else "bad"

let rec split_at tok acc = function
  | [] -> raise Bad
  | t :: r when t = tok -> (List.rev acc, r)
  | t :: r -> split_at tok (t :: acc) r

(* a malformed case is outside every precondition ("pre"); a malformed observation is a violation ("bad") *)
let spec fs obs =
  let obs_bad f = (try f () with Bad | Failure _ | Not_found | Invalid_argument _ -> "bad") in
  try match fs with
  | "01" :: es ->
      let l = List.map entry_of_hex es in
      if not (pre_C20_sort l) then "pre" else
      obs_bad (fun () -> match obs with
       | "OK" :: os -> b2s (spec_ok_C20_sort l (List.map entry_of_hex os))
       | _ -> "bad")
  | "02" :: par :: orc :: es ->
      let (nc, _, port) = params par in
      let l = List.map entry_of_hex es in
      let o = bytes_of_hex orc in
      if not (pre_C20_try l) then "pre" else
      obs_bad (fun () -> match obs with
       | "T" :: toks ->
           let (outs, ok) = parse_try port toks in
           b2s (ok && List.length outs = nc && spec_ok_C20_try l o outs)
       | _ -> "bad")
  | "03" :: ifs :: es ->
      let (fail, il) = ifaces_of_hex ifs in
      let l = List.map entry_of_hex es in
      if l = [] then raise Bad;
      if not (pre_C20_filter l) then "pre" else
      obs_bad (fun () -> match obs with
       | "OK" :: os -> b2s (spec_ok_C20_filter fail il l (List.map entry_of_hex os))
       | _ -> "bad")
  | "05" :: par :: orc :: ifs :: es ->
      let (nc, _, port) = params par in
      let (fail, il) = ifaces_of_hex ifs in
      let l = List.map entry_of_hex es in
      let o = bytes_of_hex orc in
      if l = [] then raise Bad;
      if not (pre_C20_filter l && pre_C20_try l) then "pre" else
      obs_bad (fun () -> match obs with
       | ["ALLME"] -> b2s (spec_ok_C20_allme (n_of_int port) fail il l)
       | "P" :: rest ->
           let (l1, rest) = split_at "S" [] rest in
           let (l2, toks) = split_at "T" [] rest in
           let (outs, ok) = parse_try port toks in
           b2s (ok && List.length outs = nc
                && spec_ok_C20_targets (n_of_int port) fail il l o
                     (List.map entry_of_hex l1) (List.map entry_of_hex l2) outs)
       | _ -> "bad")
  | "04" :: remhost :: dnsf :: flagsf :: files ->
      let (cfg, rh) = parse_route_case remhost dnsf flagsf files in
      if not (pre_C20_route cfg rh) then "pre" else
      obs_bad (fun () -> match obs with
       | ["FATAL"] -> b2s (spec_ok_C20_route cfg rh RouteFatal)
       | ["ROUTE"; p; "NONE"] -> b2s (spec_ok_C20_route cfg rh (Route (None, n_of_int (int_of_string p))))
       | ["ROUTE"; p; a] -> b2s (spec_ok_C20_route cfg rh (Route (Some (List.map (List.map n_of_int) (chunks 16 (ints_of_hex a))), n_of_int (int_of_string p))))
       | _ -> "bad")
  | "08" :: remhost :: dnsf :: flagsf :: readable :: files ->
      let (cfg, ke, rh) = parse_route_case_x remhost dnsf flagsf readable files in
      if not (pre_C20_route_x rh) then "pre" else
      obs_bad (fun () -> b2s (spec_ok_C20_route_x cfg ke rh (parse_obs obs)))
  | ["06"; name; dnsf; mxf] ->
      let nm = ints_of_hex name in
      if not (name_ok nm true) then raise Bad;
      let tab = parse_dnsx (ints_of_hex dnsf) in
      let (flag, recs) = parse_mxrec mxf in
      obs_bad (fun () ->
        let o = match obs with
          | "OK" :: es -> MxList (List.map entry_of_hex es)
          | ["RC"; "1"] -> MxNoHost | ["RC"; "2"] -> MxNull | ["RC"; "-2"] -> MxTemp | ["RC"; "-3"] -> MxPerm | ["RC"; "-1"] -> MxLocal
          | _ -> raise Bad in
        b2s (spec_ok_C20_dnsmx tab flag recs (List.map n_of_int nm) o))
  | "07" :: remhost :: dnsf :: mxf :: flagsf :: par :: orc :: ifs :: files ->
      let (nc, _, _) = params par in
      let (flag, recs) = parse_mxrec mxf in
      let (fail, il) = ifaces_of_hex ifs in
      let (cfg, rh) = parse_route_case remhost dnsf flagsf files in
      let tab = parse_dnsx (ints_of_hex dnsf) in
      let o = bytes_of_hex orc in
      if not (pre_C20_main_x cfg tab recs rh) then "pre" else
      obs_bad (fun () ->
        let gport t = if String.length t > 1 && t.[0] = 'G' then int_of_string (sub t 1) else raise Bad in
        let ob = match obs with
          | ["DIE"; "CONF"] -> ODie (n_of_int 0) | ["DIE"; "D5.1.10"] -> ODie (n_of_int 1) | ["DIE"; "Z4.4.3"] -> ODie (n_of_int 2) | ["DIE"; "Z4.3.0"] -> ODie (n_of_int 3)
          | [g; "ALLME"] -> OAllMe (n_of_int (gport g))
          | g :: "P" :: rest ->
              let port = gport g in
              let (l1, rest) = split_at "S" [] rest in
              let (l2, toks) = split_at "T" [] rest in
              let (outs, ok) = parse_try port toks in
              if not ok || List.length outs <> nc then raise Bad;
              ORun (n_of_int port, List.map entry_of_hex l1, List.map entry_of_hex l2, outs)
          | _ -> raise Bad in
        b2s (spec_ok_C20_main_x cfg tab flag recs rh fail il o ob))
  | _ -> "pre"
  with Bad | Failure _ | Not_found | Invalid_argument _ -> "pre"

let () =
  match Sys.argv.(1) with
  | "model" -> main_loop model
  | "spec" -> main_loop (fun fs ->
      let rec split acc = function "|" :: rest -> (List.rev acc, rest) | x :: r -> split (x :: acc) r | [] -> (List.rev acc, []) in
      let (c, o) = split [] fs in spec c o)
  | _ -> prerr_endline "usage"; exit 2

(* model side of the qrconn engine (C04, connect phase); mode from argv[1]:
     model : case line -> result line in the harness' format (harness/tlssw_h.c, op c9)
     spec  : case fields | C result fields -> ok | bad
   case: c9 <route> <n> then per MX <flags> <tlsa> <hs> <verify> <npre> <npost> <ntls> <segments>
         flags bit3: the server stays silent at the end of its clear text, bit4: dup2() fails *)
open M

let one s = match ints_of_hex s with [e] -> e | _ -> failwith "one byte expected"

let rec take k l = if k = 0 then ([], l) else match l with x :: r -> let (a, b) = take (k - 1) r in (x :: a, b) | [] -> failwith "short"

let rec pairs = function
  | u :: r :: rest -> (n_of_int u, z_of_int (r - 1)) :: pairs rest
  | [] -> []
  | _ -> failwith "tlsa"

let rec conns n fs =
  if n = 0 then (if fs = [] then [] else failwith "trailing fields") else
  match fs with
  | flags :: tlsa :: hs :: vfy :: a :: b :: c :: rest ->
    let fl = one flags in
    let (pre, rest) = take (one a) rest in
    let (post, rest) = take (one b) rest in
    let (tls, rest) = take (one c) rest in
    if one hs > 5 then failwith "hs";
    { q_conn = { c_named = fl land 1 <> 0; c_pinfile = fl land 2 <> 0; c_pinload = fl land 4 <> 0;
                 c_tlsa = pairs (ints_of_hex tlsa); c_hs = n_of_int (one hs); c_verify = n_of_int (one vfy);
                 c_pre = List.map bytes_of_hex pre; c_post = List.map bytes_of_hex post; c_tls = List.map bytes_of_hex tls };
      q_silent = fl land 8 <> 0; q_dup2 = fl land 16 <> 0 }
    :: conns (n - 1) rest
  | _ -> failwith "connection fields"

let input_of = function
  | "c9" :: route :: n :: rest ->
    if one n > 8 || one n < 1 then failwith "number of MX";
    { q_route = one route land 1 <> 0; q_conns = conns (one n) rest }
  | _ -> failwith "fields"

(* reports written when send_envelope() is reached *)
let mail_count k =
  match connect_phase qR_CONN_ERR_REPORTS qR_CONN_DUP2_REPORTS k with
  | PConnected (_, _, s) -> Some (List.length s.s_rpt)
  | _ -> None

let show_ev mc = function
  | EvTlsa k -> Some (Printf.sprintf "T%d" (int_of_nat k))
  | EvConn k -> Some (Printf.sprintf "C%d" (int_of_nat k))
  | EvCert r -> Some (if r then "K1" else "K0")
  | EvW (t, b) -> Some ((if t then "Wt" else "Wc") ^ hex_of_bytes b)
  | EvR (_, _, _) -> None                       (* what was read is not part of this engine's observation *)
  | EvHs (p, h) -> Some (Printf.sprintf "H%d:%d" (int_of_nat p) (int_of_n h))
  | EvVfy v -> Some (Printf.sprintf "V%d" (int_of_n v))
  | EvMail (t, e) -> Some (Printf.sprintf "%s%d:%d" (if t then "Mt" else "Mc") (int_of_n e) (match mc with Some n -> n | None -> -1))

let model fs =
  let k = input_of fs in
  let r = run_q k in
  let s = final r in
  let fin = (match r with Exit _ -> "X0" | Ret _ -> "RETURNED" | Stuck _ -> "STUCK") in
  String.concat " " ("B" :: List.filter_map (show_ev (mail_count k)) s.s_tr @ [fin]
                     @ List.map (fun w -> "S" ^ hex_of_bytes w) s.s_rpt @ ["WF1"])

(* the observation of the C program, from its result line *)
let spec c o =
  ignore (input_of c);                      (* a case the harness refuses is no observation *)
  match o with
  | "BADCASE" :: _ -> "BADCASE"
  | "B" :: toks ->
    let code = ref (-1) and mail = ref None and words = ref [] and wf = ref false and bad = ref false in
    List.iter (fun tok ->
        let n = String.length tok in
        if n >= 2 && tok.[0] = 'X' then code := int_of_string (String.sub tok 1 (n - 1))
        else if n >= 2 && tok.[0] = 'M' then
          (match String.index_opt tok ':' with
           | Some i -> mail := Some (int_of_string (String.sub tok (i + 1) (n - i - 1)))
           | None -> bad := true)
        else if n >= 1 && tok.[0] = 'S' then words := bytes_of_hex (String.sub tok 1 (n - 1)) :: !words
        else if tok = "WF1" then wf := true
        else if tok = "WF0" then wf := false
        else if tok = "RETURNED" then bad := true) toks;
    if !bad || !code < 0 then "bad"
    else if conn_spec_ok (nat_of_int !code) (match !mail with Some n -> Some (nat_of_int n) | None -> None) (List.rev !words) !wf
    then "ok" else "bad"
  | _ -> "bad"

let () =
  match Sys.argv.(1) with
  | "model" -> main_loop model
  | "spec" -> main_loop (fun fs ->
      let rec split acc = function "|" :: rest -> (List.rev acc, rest) | x :: r -> split (x :: acc) r | [] -> (List.rev acc, []) in
      let (c, o) = split [] fs in spec c o)
  | _ -> prerr_endline "usage"; exit 2

(* model side of the netio engine; mode from argv[1]:
     model : case line -> result line in the harness' format
     spec  : case line TAB c-result  -> "ok" | "bad"     (boolean spec checker on the C observation) *)
open M

let show_writen = function
  | Ok ls -> "OK" ^ String.concat "" (List.map (fun l -> " " ^ hex_of_bytes l) ls)
  | Crash _ -> "CRASH"
  | OutOfFuel -> "OUTOFFUEL"

let model fs = match fs with
  | "aa" :: s0 :: parts -> show_writen (net_writen (bytes_of_hex s0) (List.map bytes_of_hex parts))
  | _ -> "BADCASE"

let pre_c10 s0 parts =
  let b = ints_of_hex s0 in
  let n = List.length b in
  n > 3 && n < 510
  && List.for_all (fun x -> x <> 13 && x <> 10 && x <> 0) b
  && (match b with a :: b :: c :: _ -> List.for_all (fun d -> d >= 48 && d <= 57) [a; b; c] | _ -> false)
  && List.for_all (fun p -> List.for_all (fun x -> x <> 13 && x <> 10 && x <> 0) (ints_of_hex p)) parts

let spec fs obs = match fs, obs with
  | "aa" :: s0 :: parts, _ when not (pre_c10 s0 parts) -> "pre"
  | "aa" :: s0 :: parts, "OK" :: lines ->
      if spec_ok_C10 (bytes_of_hex s0) (List.map bytes_of_hex parts) (List.map bytes_of_hex lines) then "ok" else "bad"
  | "aa" :: _, _ -> "bad"
  | _ -> "BADCASE"

let () =
  match Sys.argv.(1) with
  | "model" -> main_loop model
  | "spec" -> main_loop (fun fs ->
      let rec split acc = function "|" :: rest -> (List.rev acc, rest) | x :: r -> split (x :: acc) r | [] -> (List.rev acc, []) in
      let (c, o) = split [] fs in spec c o)
  | _ -> prerr_endline "usage"; exit 2

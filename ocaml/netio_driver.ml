(* model side of the netio engine; mode from argv[1]:
     model : case line -> result line in the harness' format
     spec  : case line TAB c-result  -> "ok" | "bad"     (boolean spec checker on the C observation) *)
open M

let show_writen = function
  | Ok ls -> "OK" ^ String.concat "" (List.map (fun l -> " " ^ hex_of_bytes l) ls)
  | Crash _ -> "CRASH"
  | OutOfFuel -> "OUTOFFUEL"

let show_item (it, left) =
  let l = string_of_int (int_of_nat left) in
  match it with
  | Line b -> "L" ^ hex_of_bytes b ^ "@" ^ l
  | Einval -> "EINVAL@" ^ l
  | E2big -> "E2BIG@" ^ l
  | Dead -> "DEAD"
  | Stuck -> "STUCK"

let cuts_of_hex h = List.map nat_of_int (ints_of_hex h)
let show_reader stream cuts =
  String.concat "" (List.map (fun x -> " " ^ show_item x) (run_reader stream (cuts_of_hex cuts)))

let model fs = match fs with
  | "aa" :: s0 :: parts -> show_writen (net_writen (bytes_of_hex s0) (List.map bytes_of_hex parts))
  | ["bb"; stream] -> String.trim (show_reader (bytes_of_hex stream) "-")
  | "bb" :: stream :: cuts ->
      let st = bytes_of_hex stream in
      String.trim (String.concat " ||" (List.map (show_reader st) cuts))
  | _ -> "BADCASE"

let pre_c10 s0 parts =
  let b = ints_of_hex s0 in
  let n = List.length b in
  n > 3 && n < 510
  && List.for_all (fun x -> x <> 13 && x <> 10 && x <> 0) b
  && (match b with a :: b :: c :: _ -> List.for_all (fun d -> d >= 48 && d <= 57) [a; b; c] | _ -> false)
  && List.for_all (fun p -> List.for_all (fun x -> x <> 13 && x <> 10 && x <> 0) (ints_of_hex p)) parts

(* parse the harness' reader output back into observations *)
let parse_obs (toks : string list) : (item * nat) list list =
  let parse_tok t =
    if t = "DEAD" then (Dead, O)
    else match String.index_opt t '@' with
      | None -> (Stuck, O)
      | Some i ->
          let a = String.sub t 0 i and l = nat_of_int (int_of_string (String.sub t (i + 1) (String.length t - i - 1))) in
          if a = "EINVAL" then (Einval, l) else if a = "E2BIG" then (E2big, l)
          else if String.length a >= 1 && a.[0] = 'L' then (Line (bytes_of_hex (String.sub a 1 (String.length a - 1))), l)
          else (Stuck, l) in
  let rec go cur acc = function
    | [] -> List.rev (List.rev cur :: acc)
    | "||" :: r -> go [] (List.rev cur :: acc) r
    | t :: r -> go (parse_tok t :: cur) acc r in
  go [] [] toks

let spec_c05 stream obs =
  let st = bytes_of_hex stream in
  let n = nat_of_int (List.length st) in
  let runs = parse_obs obs in
  let bad = ref [] in
  if not (List.for_all (fun o -> shape_ok st n o) runs) then bad := "shape" :: !bad;
  if not (List.for_all (fun o -> resync_ok st n o) runs) then bad := "resync" :: !bad;
  (match runs with
   | a :: rest -> if not (List.for_all (fun b -> sched_ok a b) rest) then bad := "sched" :: !bad
   | [] -> bad := "shape" :: !bad);
  (* for clean streams the item sequence is fixed by the stream alone (theorem C05_schedule_independent_clean) *)
  if clean_stream st then begin
    let want = spec_items st in
    let same o = List.length o = List.length want
                 && List.for_all2 (fun (it, _) w -> match it, w with
                     | Line a, Line b -> a = b | E2big, E2big -> true | Dead, Dead -> true | _ -> false) o want in
    if not (List.for_all same runs) then bad := "clean" :: !bad
  end;
  if !bad = [] then "ok" else "bad:" ^ String.concat "," (List.rev !bad)

let spec fs obs = match fs, obs with
  | "bb" :: stream :: _, _ -> spec_c05 stream obs
  | "aa" :: s0 :: parts, _ when not (pre_c10 s0 parts) -> "pre"
  | "aa" :: s0 :: parts, "OK" :: lines ->
      if spec_ok_C10 (bytes_of_hex s0) (List.map bytes_of_hex parts) (List.map bytes_of_hex lines) then "ok" else "bad"
  | "aa" :: _, _ -> "bad"
  | _ -> "BADCASE"

let () =
  match Sys.argv.(1) with
  | "model" -> main_loop model
  | "spec" -> main_loop (fun fs ->
      let rec split acc = function "|" :: rest -> (List.rev acc, rest) | x :: r -> split (x :: acc) r | [] -> (List.rev acc, []) in
      let (c, o) = split [] fs in spec c o)
  | _ -> prerr_endline "usage"; exit 2

(* model side of the control engine; argv[1] = model | spec (see harness/control_h.c for the case format) *)
open M

let z_of_int i = if i = 0 then Z0 else if i > 0 then Zpos (pos_of_int i) else Zneg (pos_of_int (-i))
let int_of_z = function Z0 -> 0 | Zpos p -> int_of_pos p | Zneg p -> - (int_of_pos p)

let show_bool = function
  | Ok true -> "R 1" | Ok false -> "R 0" | Crash _ -> "CRASH" | OutOfFuel -> "OUTOFFUEL"
let show_z = function
  | Ok z -> "R " ^ string_of_int (int_of_z z) | Crash _ -> "CRASH" | OutOfFuel -> "OUTOFFUEL"

let byte1 s = match bytes_of_hex s with [b] -> b | _ -> failwith "byte"
let len s = List.length (bytes_of_hex s)

let model fs = match fs with
  | ["fd"; buf; d] -> show_bool (finddomain (bytes_of_hex buf) (bytes_of_hex d))
  | ["ff"; buf; d] -> if buf = "-" then "E E0" else show_bool (finddomain (bytes_of_hex buf) (bytes_of_hex d))
  | ["a4"; ip; net; m] when len ip = 16 && len net = 4 -> show_bool (ip4_matchnet (bytes_of_hex ip) (bytes_of_hex net) (byte1 m))
  | ["a6"; ip; net; m] when len ip = 16 && len net = 16 -> show_bool (ip6_matchnet (bytes_of_hex ip) (bytes_of_hex net) (byte1 m))
  | ["b4"; ip; buf] when len ip = 16 -> show_z (check_ip4 (bytes_of_hex ip) (bytes_of_hex buf))
  | ["b6"; ip; buf] when len ip = 16 -> show_z (check_ip6 (bytes_of_hex ip) (bytes_of_hex buf))
  | ["bf"; ip; v4; buf] when len ip = 16 ->
      if buf = "-" then "R 0"
      else show_z ((if int_of_n (byte1 v4) <> 0 then check_ip4 else check_ip6) (bytes_of_hex ip) (bytes_of_hex buf))
  | _ -> "BADCASE"

let expect_bool b = if b then ["R"; "1"] else ["R"; "0"]
let verdict want obs = if want = obs then "ok" else "bad"

let spec fs obs = match fs with
  | ["fd"; buf; d] -> verdict (expect_bool (fd_spec (bytes_of_hex buf) (cstr (bytes_of_hex d)))) obs
  | ["ff"; buf; d] -> if buf = "-" then "pre" else verdict (expect_bool (fd_spec (bytes_of_hex buf) (cstr (bytes_of_hex d)))) obs
  | ["a4"; ip; net; m] ->
      if int_of_n (byte1 m) > 32 then "pre"
      else verdict (expect_bool (in_net4b (bytes_of_hex ip) (bytes_of_hex net) (byte1 m))) obs
  | ["a6"; ip; net; m] ->
      if int_of_n (byte1 m) > 128 then "pre"
      else verdict (expect_bool (in_net6b (bytes_of_hex ip) (bytes_of_hex net) (byte1 m))) obs
  | ["b4"; ip; buf] -> verdict ["R"; string_of_int (int_of_z (ipbl_file_spec (nat_of_int 4) in_net4b (bytes_of_hex ip) (bytes_of_hex buf)))] obs
  | ["b6"; ip; buf] -> verdict ["R"; string_of_int (int_of_z (ipbl_file_spec (nat_of_int 16) in_net6b (bytes_of_hex ip) (bytes_of_hex buf)))] obs
  | ["bf"; ip; v4; buf] ->
      if buf = "-" then "pre" else
      let v4 = int_of_n (byte1 v4) <> 0 in
      verdict ["R"; string_of_int (int_of_z (ipbl_file_spec (nat_of_int (if v4 then 4 else 16)) (if v4 then in_net4b else in_net6b)
                                               (bytes_of_hex ip) (bytes_of_hex buf)))] obs
  | _ -> "BADCASE"

let () =
  match Sys.argv.(1) with
  | "model" -> main_loop model
  | "spec" -> main_loop (fun fs ->
      let rec split acc = function "|" :: rest -> (List.rev acc, rest) | x :: r -> split (x :: acc) r | [] -> (List.rev acc, []) in
      let (c, o) = split [] fs in spec c o)
  | _ -> prerr_endline "usage"; exit 2

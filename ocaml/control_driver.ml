(* model side of the control engine; argv[1] = model | spec (see harness/control_h.c for the case format) *)
open M

let z_of_int i = if i = 0 then Z0 else if i > 0 then Zpos (pos_of_int i) else Zneg (pos_of_int (-i))
let int_of_z = function Z0 -> 0 | Zpos p -> int_of_pos p | Zneg p -> - (int_of_pos p)

let show_bool = function
  | Ok true -> "R 1" | Ok false -> "R 0" | Crash _ -> "CRASH" | OutOfFuel -> "OUTOFFUEL"
let show_z = function
  | Ok z -> "R " ^ string_of_int (int_of_z z) | Crash _ -> "CRASH" | OutOfFuel -> "OUTOFFUEL"

(* decimal text of an N (up to 2^64 and beyond): double-and-add on a little-endian digit list *)
let dec_of_n (x : n) : string =
  let double_add ds carry =
    let rec go ds c = match ds with
      | [] -> if c = 0 then [] else [c]
      | d :: r -> let v = 2 * d + c in (v mod 10) :: go r (v / 10) in
    go ds carry in
  let rec bits p acc = match p with     (* most significant first *)
    | XH -> 1 :: acc
    | XO q -> bits q (0 :: acc)
    | XI q -> bits q (1 :: acc) in
  match x with
  | N0 -> "0"
  | Npos p ->
      let ds = List.fold_left (fun ds b -> double_add ds b) [] (bits p []) in
      String.concat "" (List.rev_map string_of_int ds)

let show_lload = function
  | Ok (LOk (n, buf)) -> "R " ^ string_of_int (int_of_nat n) ^ " " ^ hex_of_bytes buf
  | Ok LErr -> "E EINVAL"
  | Crash _ -> "CRASH" | OutOfFuel -> "OUTOFFUEL"
let show_list = function
  | Ok (LOk es) -> "R " ^ string_of_int (List.length es) ^ String.concat "" (List.map (fun e -> " " ^ hex_of_bytes e) es)
  | Ok LErr -> "E EINVAL"
  | Crash _ -> "CRASH" | OutOfFuel -> "OUTOFFUEL"
let show_int = function
  | Ok (LOk v) -> "R " ^ dec_of_n v
  | Ok LErr -> "E EINVAL"
  | Crash _ -> "CRASH" | OutOfFuel -> "OUTOFFUEL"
let show_oneliner = function
  | Ok (LOk (Some s)) -> "R " ^ string_of_int (List.length s) ^ " " ^ hex_of_bytes s
  | Ok (LOk None) -> "E ENOENT"
  | Ok LErr -> "E EINVAL"
  | Crash _ -> "CRASH" | OutOfFuel -> "OUTOFFUEL"
let default_int = n_of_int 4242

(* the callback family of op c7: reject iff the first byte or the length of the entry occurs in rej *)
let cf_of (rej : string) (s : n list) : bool =
  let r = ints_of_hex rej in
  let first = (match s with [] -> 0 | b :: _ -> int_of_n b) in
  List.exists (fun x -> x = first || x = List.length s) r

let byte1 s = match bytes_of_hex s with [b] -> b | _ -> failwith "byte"
let len s = List.length (bytes_of_hex s)

let model fs = match fs with
  | ["fd"; buf; d] -> show_bool (finddomain (bytes_of_hex buf) (bytes_of_hex d))
  | ["ff"; buf; d] -> if buf = "-" then "E E0" else show_bool (finddomain (bytes_of_hex buf) (bytes_of_hex d))
  | ["ad"; d; e] -> if matchdomain (bytes_of_hex d) (bytes_of_hex e) then "R 1" else "R 0"
  | ["a4"; ip; net; m] when len ip = 16 && len net = 4 -> show_bool (ip4_matchnet (bytes_of_hex ip) (bytes_of_hex net) (byte1 m))
  | ["a6"; ip; net; m] when len ip = 16 && len net = 16 -> show_bool (ip6_matchnet (bytes_of_hex ip) (bytes_of_hex net) (byte1 m))
  | ["b4"; ip; buf] when len ip = 16 -> show_z (check_ip4 (bytes_of_hex ip) (bytes_of_hex buf))
  | ["b6"; ip; buf] when len ip = 16 -> show_z (check_ip6 (bytes_of_hex ip) (bytes_of_hex buf))
  | ["bf"; ip; v4; buf] when len ip = 16 ->
      if buf = "-" then "R 0"
      else show_z ((if int_of_n (byte1 v4) <> 0 then check_ip4 else check_ip6) (bytes_of_hex ip) (bytes_of_hex buf))
  | [("c0" | "c1" | "c2" | "c3") as op; c] ->
      show_lload (lloadfile (nat_of_int (Char.code op.[1] - 48)) (bytes_of_hex c))
  | ["c4"; c] -> show_list (loadlist (bytes_of_hex c))
  | ["c7"; c; rej] ->
      (match loadlist_arr (cf_of rej) (fun _ -> n_of_int 170) (bytes_of_hex c) with
       | Ok LErr -> "E EINVAL"
       | Ok (LOk None) -> "R 0"
       | Ok (LOk (Some b)) ->
           (match read_ptrs b.mem b.ptrs with
            | Ok l -> "R " ^ string_of_int (List.length l) ^
                      String.concat "" (List.map (fun (p, e) -> " " ^ string_of_int (int_of_nat p) ^ " " ^ hex_of_bytes e) l)
            | Crash _ -> "CRASH" | OutOfFuel -> "OUTOFFUEL")
       | Crash _ -> "CRASH" | OutOfFuel -> "OUTOFFUEL")
  | ["c5"; c] -> show_int (loadint (bytes_of_hex c) default_int)
  | ["c6"; c] -> show_oneliner (loadoneliner (bytes_of_hex c))
  | _ -> "BADCASE"

let expect_bool b = if b then ["R"; "1"] else ["R"; "0"]
let verdict want obs = if want = obs then "ok" else "bad"

let spec fs obs = if model fs = "BADCASE" then "pre" else match fs with
  | ["fd"; buf; d] -> verdict (expect_bool (fd_spec (bytes_of_hex buf) (cstr (bytes_of_hex d)))) obs
  | ["ff"; buf; d] -> if buf = "-" then "pre" else verdict (expect_bool (fd_spec (bytes_of_hex buf) (cstr (bytes_of_hex d)))) obs
  | ["ad"; d; e] -> verdict (expect_bool (expr_matchb (cstr (bytes_of_hex d)) (cstr (bytes_of_hex e)))) obs
  | ["a4"; ip; net; m] ->
      if int_of_n (byte1 m) > 32 then "pre"
      else verdict (expect_bool (in_net4b (bytes_of_hex ip) (bytes_of_hex net) (byte1 m))) obs
  | ["a6"; ip; net; m] ->
      if int_of_n (byte1 m) > 128 then "pre"
      else verdict (expect_bool (in_net6b (bytes_of_hex ip) (bytes_of_hex net) (byte1 m))) obs
  | ["b4"; ip; buf] -> verdict ["R"; string_of_int (int_of_z (ipbl_file_spec (nat_of_int 4) in_net4b (bytes_of_hex ip) (bytes_of_hex buf)))] obs
  | ["b6"; ip; buf] -> verdict ["R"; string_of_int (int_of_z (ipbl_file_spec (nat_of_int 16) in_net6b (bytes_of_hex ip) (bytes_of_hex buf)))] obs
  | ["bf"; ip; v4; buf] ->
      if buf = "-" then "pre" else
      let v4 = int_of_n (byte1 v4) <> 0 in
      verdict ["R"; string_of_int (int_of_z (ipbl_file_spec (nat_of_int (if v4 then 4 else 16)) (if v4 then in_net4b else in_net6b)
                                               (bytes_of_hex ip) (bytes_of_hex buf)))] obs
  | ["c3"; c] ->
      (match list_spec (bytes_of_hex c) with
       | None -> verdict ["E"; "EINVAL"] obs
       | Some es ->
           let buf = List.concat (List.map (fun e -> e @ [N0]) es) in
           verdict ["R"; string_of_int (List.length buf); hex_of_bytes buf] obs)
  | ["c4"; c] ->
      (match list_spec (bytes_of_hex c) with
       | None -> verdict ["E"; "EINVAL"] obs
       | Some es -> verdict ("R" :: string_of_int (List.length es) :: List.map hex_of_bytes es) obs)
  | ["c7"; c; rej] ->
      (match list_spec (bytes_of_hex c) with
       | None -> verdict ["E"; "EINVAL"] obs
       | Some es ->
           let keep = List.filter (fun e -> not (cf_of rej e)) es in
           let n = List.length keep in
           let rec lay p = function [] -> [] | e :: r -> string_of_int p :: hex_of_bytes e :: lay (p + List.length e + 1) r in
           verdict ("R" :: string_of_int n :: (if n = 0 then [] else lay (8 * (n + 1)) keep)) obs)
  | ["c5"; c] ->
      (match int_spec (bytes_of_hex c) default_int with
       | None -> verdict ["E"; "EINVAL"] obs
       | Some v -> verdict ["R"; dec_of_n v] obs)
  | ["c0"; c] -> let b = bytes_of_hex c in verdict ["R"; string_of_int (List.length b); hex_of_bytes b] obs
  | ["c1"; c] -> let b = cat (plain_lines (bytes_of_hex c)) in verdict ["R"; string_of_int (List.length b); hex_of_bytes b] obs
  | ["c2"; c] ->
      let b = bytes_of_hex c in
      (match list_spec b with
       | None -> verdict ["E"; "EINVAL"] obs
       | Some [] -> verdict ["R"; "0"; "-"] obs
       | Some es ->
           (match obs with
            | ["R"; n; img] when n = string_of_int (List.length b) ->
                let i = bytes_of_hex img in
                if List.length i = List.length b && pieces i = es then "ok" else "bad"
            | _ -> "bad"))
  | ["c6"; c] ->
      (match oneliner_spec (bytes_of_hex c) with
       | OneNone -> verdict ["E"; "ENOENT"] obs
       | OneError -> verdict ["E"; "EINVAL"] obs
       | OneLine l -> verdict ["R"; string_of_int (List.length l); hex_of_bytes l] obs)
  | _ -> "BADCASE"

let () =
  match Sys.argv.(1) with
  | "model" -> main_loop model
  | "spec" -> main_loop (fun fs ->
      let rec split acc = function "|" :: rest -> (List.rev acc, rest) | x :: r -> split (x :: acc) r | [] -> (List.rev acc, []) in
      let (c, o) = split [] fs in spec c o)
  | _ -> prerr_endline "usage"; exit 2

(* model side of the session engine.
   case:  5e <cfg> <chunk>...      cfg = ascii key=value;...  (same keys as harness/session/runner.py)
   The oracles of Model/Session.v are instantiated here to match the scratch configuration the harness builds:
   rcpthosts = example.org, .sub.example.org; users alice, bob, list in example.org; DNS as harness/session/fakedns.c. *)
open M

let str_of_bytes (l : n list) =
  let b = Buffer.create 256 in List.iter (fun x -> Buffer.add_char b (Char.chr (int_of_n x land 255))) l; Buffer.contents b
let bytes_of_str (s : string) : n list = List.init (String.length s) (fun i -> n_of_int (Char.code s.[i]))

let parse_cfg (s : string) =
  let tbl = Hashtbl.create 8 in
  List.iter (fun kv -> match String.index_opt kv '=' with
      | Some i -> Hashtbl.replace tbl (String.sub kv 0 i) (String.sub kv (i + 1) (String.length kv - i - 1))
      | None -> ()) (String.split_on_char ';' s);
  fun k d -> try Hashtbl.find tbl k with Not_found -> d

let ends_with s suf = let l = String.length s and m = String.length suf in l >= m && String.sub s (l - m) m = suf
let starts_with s p = let l = String.length s and m = String.length p in l >= m && String.sub s 0 m = p

let is_atext c = match c with
  | 'a'..'z' | 'A'..'Z' | '0'..'9' | '!' | '#' | '$' | '%' | '&' | '\'' | '*' | '+' | '-' | '/' | '=' | '?' | '^' | '_' | '`' | '{' | '|' | '}' | '~' | '.' -> true
  | _ -> false
let label_ok l = l <> "" && String.length l <= 63 && String.for_all (function 'a'..'z' | 'A'..'Z' | '0'..'9' | '-' -> true | _ -> false) l
let domain_ok d =
  let ls = String.split_on_char '.' d in
  List.length ls >= 2 && List.for_all label_ok ls
  && (let last = List.nth ls (List.length ls - 1) in String.length last >= 2
      && (match last.[String.length last - 1] with 'a'..'z' | 'A'..'Z' -> true | _ -> false))

let local_literals = ref []
(* a syntactically valid literal that is not the local address has no users.  IPv4: four decimal numbers 0..255 without
   leading zeros; IPv6: the forms the generator uses *)
let valid_v4 (t : string) =
  match String.split_on_char '.' t with
  | [a; b; c; d] -> List.for_all (fun x -> let n = String.length x in n >= 1 && n <= 3 && String.for_all (fun ch -> ch >= '0' && ch <= '9') x
                                               && (n = 1 || x.[0] <> '0') && int_of_string x <= 255) [a; b; c; d]
  | _ -> false
let is_other_literal (dom : string) =
  let n = String.length dom in
  n > 2 && dom.[0] = '[' && dom.[n - 1] = ']' &&
  (valid_v4 (String.sub dom 1 (n - 2)) || List.mem dom ["[ipv6:2001:db8::77]"; "[ipv6:2001:db8::2]"])

let o_helo (arg : n list) : bool =
  let s = str_of_bytes arg in
  let rec trim s = if s <> "" && s.[String.length s - 1] = ' ' then trim (String.sub s 0 (String.length s - 1)) else s in
  let t = trim s in
  t <> "" && not (String.contains t ' ')

(* local parts: a dot-string of atext, or one quoted string of atext / brackets (what the generator uses) *)
let local_ok (l : string) =
  let n = String.length l in
  (l <> "" && String.for_all is_atext l)
  || (n >= 3 && l.[0] = '"' && l.[n - 1] = '"'
      && String.for_all (fun c -> is_atext c || c = '[' || c = ']') (String.sub l 1 (n - 2)))
let o_addr (is_rcpt : bool) (arg : n list) : ap_result =
  let s = str_of_bytes arg in
  let rec skip i = if i < String.length s && s.[i] = ' ' then skip (i + 1) else i in
  let i = skip 0 in
  if i >= String.length s || s.[i] <> '<' then AP_nobracket
  else match String.index_from_opt s i '>' with
    | None -> AP_syntax
    | Some j ->
        (* addrsyntax() lower-cases the whole address before anything else looks at it *)
        let inner = String.lowercase_ascii (String.sub s (i + 1) (j - i - 1)) in
        let more = if j + 1 >= String.length s then None else Some (bytes_of_str (String.sub s (j + 1) (String.length s - j - 1))) in
        if inner = "" then (if is_rcpt then AP_syntax else AP_ok ([], more, RNotLocal))
        else match String.index_opt inner '@' with
          | None -> if is_rcpt && String.lowercase_ascii inner = "postmaster" then AP_ok (bytes_of_str inner, more, RLocal) else AP_syntax
          | Some k ->
              let local = String.sub inner 0 k and dom = String.lowercase_ascii (String.sub inner (k + 1) (String.length inner - k - 1)) in
              if local <> "" && String.for_all is_atext local && is_rcpt && List.mem dom !local_literals then
                AP_ok (bytes_of_str (local ^ "@" ^ dom), more, RLocal)      (* literal of the local IP: accepted for any local part *)
              else if local <> "" && String.for_all is_atext local && is_rcpt && is_other_literal dom then
                AP_nouser
              else
              if not (local_ok local) || not (domain_ok dom) then AP_syntax
              else
                let addr = bytes_of_str (local ^ "@" ^ dom) in
                if dom = "example.org" then
                  (if List.mem local ["alice"; "bob"; "list"] then AP_ok (addr, more, RLocal) else AP_nouser)
                else if ends_with dom ".sub.example.org" then AP_ok (addr, more, RLocal)
                else AP_ok (addr, more, RNotLocal)

let o_ext (more : n list) : ext_result =
  (* a sequence of " SIZE=<digits>" / " BODY=7BIT|8BITMIME" / " AUTH=<xtext>" *)
  let s = str_of_bytes more in
  let n = String.length s in
  let rec go i seen tb bonus dt =
    if i >= n then Ext_ok (n_of_int tb, nat_of_int bonus, dt)
    else if s.[i] <> ' ' then Ext_einval
    else
      let rest = String.sub s (i + 1) (n - i - 1) in
      let up = String.uppercase_ascii rest in
      if starts_with up "SIZE=" then begin
        if List.mem 0 seen then Ext_einval else
        let j = ref 5 in
        while !j < String.length rest && rest.[!j] >= '0' && rest.[!j] <= '9' do incr j done;
        if !j = 5 then Ext_einval
        else let v = (* strtoul saturates; the model only compares the value with limits that are far smaller, so cap it at OCaml's max_int *)
               let d = String.sub rest 5 (!j - 5) in
               let k = ref 0 in while !k < String.length d - 1 && d.[!k] = '0' do incr k done;
               let d = String.sub d !k (String.length d - !k) in
               if String.length d > 18 then max_int else int_of_string d in
          let ni = i + 1 + !j in
          if ni < n && s.[ni] <> ' ' then Ext_einval else go ni (0 :: seen) v (bonus + 26) dt
      end else if starts_with up "BODY=" then begin
        if List.mem 1 seen then Ext_einval else
        let v = String.sub up 5 (String.length up - 5) in
        let l = if starts_with v "7BIT" then 4 else if starts_with v "8BITMIME" then 8 else 0 in
        if l = 0 then Ext_einval
        else let ni = i + 1 + 5 + l in if ni < n && s.[ni] <> ' ' then Ext_einval else go ni (1 :: seen) tb bonus (Some (l = 8))
      end else if starts_with up "AUTH=" then Ext_einval   (* not generated *)
      else Ext_enoexec in
  go 0 [] 0 0 None

(* smtp_auth on the text behind "AUTH ": PLAIN with an initial response is decided here (canonical base64 only is generated;
   the decoder and the exchange forms are property C09); the checkpassword stand-in accepts the password "secret",
   crashes for the user "crash" *)
let b64_decode (t : string) : string option =
  let v c = match c with 'A'..'Z' -> Some (Char.code c - 65) | 'a'..'z' -> Some (Char.code c - 71) | '0'..'9' -> Some (Char.code c + 4)
                       | '+' -> Some 62 | '/' -> Some 63 | _ -> None in
  let n = String.length t in
  if n mod 4 <> 0 then None else
  let buf = Buffer.create n in
  let ok = ref true in
  let i = ref 0 in
  while !ok && !i < n do
    let q = String.sub t !i 4 in
    let pad = if q.[3] = '=' then (if q.[2] = '=' then 2 else 1) else 0 in
    if pad > 0 && !i + 4 <> n then ok := false
    else begin
      let vals = List.init (4 - pad) (fun k -> v q.[k]) in
      if List.exists (fun x -> x = None) vals then ok := false
      else begin
        let vs = List.map (function Some x -> x | None -> 0) vals @ List.init pad (fun _ -> 0) in
        let w = List.fold_left (fun a x -> a * 64 + x) 0 vs in
        Buffer.add_char buf (Char.chr ((w lsr 16) land 255));
        if pad < 2 then Buffer.add_char buf (Char.chr ((w lsr 8) land 255));
        if pad < 1 then Buffer.add_char buf (Char.chr (w land 255))
      end
    end;
    i := !i + 4
  done;
  if !ok then Some (Buffer.contents buf) else None

let o_auth (arg : n list) : auth_result =
  let s = str_of_bytes arg in
  let up = String.uppercase_ascii s in
  let mech m = starts_with up m && (String.length s = String.length m || s.[String.length m] = ' ') in
  if mech "PLAIN" then begin
    if String.length s <= 6 then Auth_multi      (* "AUTH PLAIN" alone: 334, the response comes in the next line *)
    else match b64_decode (String.sub s 6 (String.length s - 6)) with
      | None -> Auth_done (n_of_int 501)
      | Some d ->
          (* authorize-id NUL user NUL password, as auth_plain() walks it *)
          let len = String.length d in
          let cstr i = if i >= len then "" else (match String.index_from_opt d i '\000' with Some j -> String.sub d i (j - i) | None -> String.sub d i (len - i)) in
          let id = String.length (cstr 0) + 1 in
          let user = if len > id then cstr id else "" in
          let pass = if user <> "" && len > id + String.length user + 1 then cstr (id + String.length user + 1) else "" in
          if user = "" || pass = "" then Auth_done (n_of_int 501)
          else if user = "crash" then Auth_done (n_of_int 454)
          else if pass = "secret" then Auth_ok (bytes_of_str user)
          else Auth_done (n_of_int 535)
  end
  else if mech "LOGIN" then Auth_multi
  else Auth_done (n_of_int 504)

(* ---- the Received-SPF field: the extracted model of property C11 (check_host() and spfreceived(), coq/Model/Spf.v) run on the
   zone of harness/session/fakedns.c.  Only TXT matters for the records used there (ip4 / ip6 / all). *)
let fakedns_txt (name : string) : string option =
  match String.lowercase_ascii name with
  | "example.com" -> Some "v=spf1 -all"                                            (* fail *)
  | "example.org" -> Some "v=spf1 ip4:192.0.2.0/24 ip6:2001:db8::/32 -all"         (* pass for the clients of the harness *)
  | "shop.example.net" -> Some "v=spf1 ~all"                                       (* softfail *)
  | "x.example.com" -> Some "v=spf1 ?all"                                          (* neutral (a HELO name: bounces) *)
  | "again.example.net" -> Some "v=spf1 ip4:198.51.100.0/24 ip6:2001:db8:ffff::/48 ~all"   (* no match, then softfail *)
  | _ -> None
let fake_dns : dns =
  { d_txt = (fun n -> match fakedns_txt (str_of_bytes n) with Some t -> TxtRecs [bytes_of_str t] | None -> TxtRecs []);
    d_a = (fun _ -> AList []); d_aaaa = (fun _ -> AList []); d_mx = (fun _ -> MxNoHost); d_name = (fun _ -> NErr EPerm) }
let spf_field (v4 : bool) (helo : n list) (from : n list) : n list =
  let octs = if v4 then [0;0;0;0;0;0;0;0;0;0;255;255;192;0;2;1] else [0x20;0x01;0x0d;0xb8;0;0;0;0;0;0;0;0;0;0;0;1] in
  let x = { s_client = octets_to_N (List.map n_of_int octs); s_iptext = bytes_of_str (if v4 then "192.0.2.1" else "2001:db8::1");
            s_mailfrom = from; s_helostr = helo; s_remotehost = []; s_heloname = bytes_of_str "mail.example.org"; s_now = n_of_int 1000000000 } in
  let dom = if from = [] then helo else
      (let s = str_of_bytes from in match String.index_opt s '@' with Some k -> bytes_of_str (String.sub s (k + 1) (String.length s - k - 1)) | None -> from) in
  match check_host_c fake_dns x dom None None with
  | Ok (rc, g) ->
      let rci = int_of_z rc in
      if rci < 0 then failwith "spf_field: check_host error" else
      (match spfreceived x (z_of_int (rci land 15)) g with Some h -> h | None -> failwith "spf_field: spfreceived")
  | _ -> failwith "spf_field: check_host did not finish"

let make_oracles cfg : oracles =
  let relay = cfg "relay" "none" and ip = cfg "ip" "v4" in
  let plan = List.filter (fun x -> x <> "") (String.split_on_char ',' (cfg "qq" "")) in
  let remoteip = if ip = "v4" then "::ffff:192.0.2.1" else "2001:db8::1" in
  (* the literal of the local address, as text, lower case (addrsyntax lower-cases the address; since fix bb812a0 the
     IPv6 tag is compared case-insensitively, so the IPv6 literal is recognised too - textual form of TCP6LOCALIP only) *)
  local_literals := (if ip = "v4" then ["[192.0.2." ^ cfg "lip" "2" ^ "]"] else ["[ipv6:2001:db8::2]"]);
  { o_helo = o_helo; o_addr = o_addr; o_ext = o_ext;
    o_relay = (match relay with "listed" -> Zpos XH | "none" | "unlisted" -> Z0 | _ -> Zneg XH);
    o_mx = (fun a -> let s = str_of_bytes a in
             let d = match String.index_opt s '@' with Some k -> String.sub s (k + 1) (String.length s - k - 1) | None -> s in
             nat_of_int (if starts_with d "nomx." then 1 else if starts_with d "nullmx." then 2 else 0));
    o_qq = (fun k -> match List.nth_opt plan (int_of_nat k) with
        | None | Some "ok" -> QQ_ok
        | Some "ns" -> QQ_nostart        (* the child is gone when queue_init() looks (forced schedule, harness/session/wraps.c) *)
        | Some "nh" -> QQ_die_hdr        (* queue_init() misses its death: EPIPE at the Received: header *)
        | Some p when starts_with p "exit:" ->
            let c = int_of_string (String.sub p 5 (String.length p - 5)) in if c = 0 then QQ_ok else QQ_exit (nat_of_int c)
        | Some p when starts_with p "ce:" -> QQ_die_write
        | Some p when starts_with p "die:" ->
            if starts_with p "die:a" then (if ends_with p ":sig" then QQ_signal else
                                             let c = int_of_string (List.nth (String.split_on_char ':' p) 3) in
                                             if c = 0 then QQ_ok else QQ_exit (nat_of_int c))
            else if starts_with p "die:b" then QQ_die_early
            else if starts_with p "die:m" && int_of_string (List.nth (String.split_on_char ':' p) 2) <= 150 then QQ_die_early
            else QQ_die_write
        | Some _ -> QQ_ok);
    o_databytes = n_of_int (int_of_string (cfg "databytes" "0"));
    o_liphost = bytes_of_str "mail.example.org";
    o_check2822 = (cfg "check2822" "0" = "1");
    o_authperm = (cfg "auth" "0" = "1");
    o_auth = o_auth;
    (* the trace header is the extracted model of write_received() / spfreceived(SPF_NONE) *)
    o_trace = (fun authname tlsclient helo from esmtp first relayclient ->
        trace_header_with (spf_field (ip = "v4") helo from)
          { t_remotehost = []; t_authhide = false; t_remoteip = bytes_of_str remoteip; t_remoteport = Some (bytes_of_str "1234");
            t_helostr = helo; t_authname = authname; t_tlsclient = tlsclient; t_remoteinfo = None;
            t_heloname = bytes_of_str "mail.example.org"; t_version = bytes_of_str "Qsmtpd 0.39dev";
            t_esmtp = esmtp; t_cipher = None; t_chunked = false; t_first = first; t_date = bytes_of_str (String.make 31 'D') }
          (int_of_n relayclient = 1));
    (* submission mode: TCPLOCALPORT (cfg port) is the regenerated port string; the date is the (masked) one of the Received: line,
       gettimeofday() is wrapped by the harness (harness/session/wraps.c), control/msgidhost of the scratch tree *)
    o_submission = (cfg "port" "25" = str_of_bytes submission_port);
    o_subm_date = bytes_of_str (String.make 31 'D');
    o_subm_stamp = bytes_of_str "1000000000.123456";
    o_msgidhost = bytes_of_str "msgid.example.org";
    (* the certificate stage of is_authenticated(): no TLS in this channel - tls_verify() returns 0 at once (the TLS engine
       overrides o_tls through orc and takes o_tlsverify from the case: cfg ccert) *)
    o_tls = false;
    (* what tls_verify() does behind its guard in the scratch configuration of harness/tlssession/runner.py (TLS 1.3 client):
       no control/tlsclients or no control/clientca.pem: 0; the client did not offer post-handshake authentication:
       SSL_verify_client_post_handshake() fails, tls_out() writes 454 and -EPROTO comes back; otherwise the request goes out
       and tls_check_cert() looks for the certificate before the client's answer can have arrived: 0 *)
    o_tlsverify = (if cfg "tlsclients" "0" <> "1" || cfg "clientca" "0" <> "1" then TV_no
                   else if cfg "pha" "0" <> "1" then TV_err (true, HEPROTO)
                   else TV_no) }

let show_events (evs : event list) : string =
  let closed = ref false in
  let toks = List.filter_map (function
      | Reply c -> Some ("r" ^ string_of_int (int_of_n c))
      | Handoff (e, m) -> None
      | Closed -> closed := true; None
      | EStuck -> Some "STUCK"
      | Note _ -> None) evs in
  let hand = List.filter_map (function Handoff (e, m) -> Some ("Q" ^ hex_of_bytes e ^ "/" ^ hex_of_bytes m) | _ -> None) evs in
  String.concat " " (toks @ hand @ [if !closed then "closed" else "open"])

let model fs = match fs with
  | "5e" :: cfg :: chunks ->
      let cfg = parse_cfg (str_of_bytes (bytes_of_hex cfg)) in
      show_events (run_session (make_oracles cfg) (List.map bytes_of_hex chunks))
  | _ -> "BADCASE"

(* ---- the extracted trace checkers applied to an observation of the IMPLEMENTATION ----
   Only for "simple" cases: every segment is one well-formed command line, or the payload of a DATA that got 354
   (complete lines, ends with the lone dot, no anomalies), and every HELO/EHLO is accepted.  Then the i-th reply
   belongs to the i-th segment and the ghost notes can be reconstructed from command text + reply code:
   a 2xx to MAIL/RCPT means "accepted".  Anything else is left to the model-vs-implementation comparison ("pre"). *)
let upper = String.uppercase_ascii
let is_simple_line (c : string) =
  let n = String.length c in
  n >= 2 && n <= 512 && String.sub c (n - 2) 2 = "\r\n"
  && (let body = String.sub c 0 (n - 2) in
      not (String.contains body '\r') && not (String.contains body '\n')
      && String.for_all (fun ch -> Char.code ch > 0 && Char.code ch < 128) body)
let payload_ok (c : string) =
  (* lines all CRLF terminated, each <= 998, last line is ".", no earlier lone dot *)
  let n = String.length c in
  n >= 3 && String.sub c (n - 3) 3 = ".\r\n" && (n = 3 || (n >= 5 && String.sub c (n - 5) 2 = "\r\n"))
  && (let lines = String.split_on_char '\n' (String.sub c 0 (n - 3)) in
      List.for_all (fun l -> l = "" || (l.[String.length l - 1] = '\r'
                                         && not (String.contains (String.sub l 0 (String.length l - 1)) '\r')
                                         && String.length l <= 999 && l <> ".\r")) lines)

exception Not_simple
let spec_session cfgs chunks obs =
  let cfg = parse_cfg cfgs in
  let o = make_oracles cfg in
  let replies = List.filter_map (fun t -> if String.length t = 4 && t.[0] = 'r' then Some (int_of_string (String.sub t 1 3)) else None) obs in
  let hand = List.filter_map (fun t -> if String.length t > 1 && t.[0] = 'Q' then
                                 (match String.index_opt t '/' with
                                  | Some i -> Some (bytes_of_hex (String.sub t 1 (i - 1)), bytes_of_hex (String.sub t (i + 1) (String.length t - i - 1)))
                                  | None -> None) else None) obs in
  if List.exists (fun t -> t = "CRASH" || t = "TIMEOUT" || (String.length t > 3 && String.sub t 0 3 = "sig")) obs then "bad:crash" else
  try
    let rs = ref (match replies with 220 :: r -> r | _ -> raise Not_simple) in
    let hs = ref hand in
    let next () = match !rs with r :: t -> rs := t; r | [] -> raise Not_simple in
    let evs = ref [Reply (n_of_int 220)] in
    let emit l = evs := !evs @ l in
    let k = ref 0 in
    let limits_bad = ref false in
    let auth_bad = ref false in
    let content_bad = ref false in
    let header_bad = ref false in
    let cur_from = ref [] in       (* sender of the last accepted MAIL FROM: what a From: field added on the submission port carries *)
    let stored = ref 0 in      (* recipients accepted in the open transaction (for "second recipient of a bounce") *)
    let rec go = function
      | [] -> ()
      | c :: rest ->
          if not (is_simple_line c) then raise Not_simple;
          let line = String.sub c 0 (String.length c - 2) in
          let u = upper line in
          let r = next () in
          let rep = Reply (n_of_int r) in
          if starts_with u "HELO " || starts_with u "EHLO " then
            (stored := 0;
             (if r = 250 then emit [Note NBoundary; Note NHelo; Note (NEsmtp (starts_with u "EHLO ")); rep]
              else emit [Note NBoundary; rep]);      (* a refused greeting still drops the transaction (freedata() comes first) *)
             go rest)
          else if starts_with u "MAIL FROM:" then begin
            (* C15_size_parameter: an accepted MAIL FROM has no SIZE parameter above control/databytes *)
            (if r / 100 = 2 && int_of_n o.o_databytes <> 0 then
               match String.rindex_opt line '>' with
               | Some i -> (match o_ext (bytes_of_str (String.sub line (i + 1) (String.length line - i - 1))) with
                            | Ext_ok (tb, _, _) -> if int_of_n tb > int_of_n o.o_databytes then limits_bad := true
                            | _ -> ())
               | None -> ());
            (if r / 100 = 2 then
               (match o_addr false (bytes_of_str (String.sub line 10 (String.length line - 10))) with
                | AP_ok (a, _, _) -> cur_from := a; stored := 0; emit [Note (NMail a); rep]
                | _ -> cur_from := bytes_of_str "?"; stored := 0; emit [Note (NMail (bytes_of_str "?")); rep])
             else emit [rep]); go rest end
          else if starts_with u "RCPT TO:" then begin
            let arg = bytes_of_str (String.sub line 8 (String.length line - 8)) in
            (match o_addr true arg with
             | AP_ok (a, None, cls) ->
                 if r / 100 = 2 && r <> 252 then (incr stored; emit [Note (NRcpt (a, cls)); rep])
                 (* 550 for an address that parses and exists: the second recipient of a bounce - only with an open bounce transaction that
                    already has one; any other 550 (e.g. the closing "too many bad commands") is just a reply *)
                 else if r = 550 && !cur_from = [] && !stored >= 1 then emit [Note NWithdraw; rep]
                 else emit [rep]
             | _ -> if r / 100 = 2 then emit [Note (NRcpt (bytes_of_str "?", RNotLocal)); rep] else emit [rep]);
            go rest end
          else if u = "DATA" then begin
            if r = 354 then begin
              emit [Note (NData (nat_of_int !k)); rep]; incr k; stored := 0;
              (match rest with
               | p :: rest' ->
                   if not (payload_ok p) then raise Not_simple;
                   let r2 = next () in
                   (* the proved verdict checker (C15_verdict_checker_sound) on the data lines the client sent *)
                   let plines = List.map (fun l -> bytes_of_str (String.sub l 0 (String.length l - 1)))
                       (List.filter (fun l -> l <> "") (String.split_on_char '\n' (String.sub p 0 (String.length p - 3)))) in
                   if not (data_verdict_ok (maxbytes o) plines (n_of_int r2)) then limits_bad := true;
                   if r2 = 250 then
                     (match !hs with
                      | (e, m) :: t -> hs := t; let par = { sp_on = o.o_submission; sp_date = o.o_subm_date; sp_from = !cur_from; sp_stamp = o.o_subm_stamp; sp_host = o.o_msgidhost } in
                          if not (handoff_msg_ok par plines m) then content_bad := true
                          (* what stands in front of the data: a block of valid header fields (C02_trace_checker_sound) *)
                          else if not (handoff_hdr_check par plines m) then header_bad := true;
                          emit [Handoff (e, m); Note NBoundary; Reply (n_of_int r2)]
                      | [] -> emit [Note NBoundary; Handoff ([], []); Reply (n_of_int r2)])   (* 250 without a hand-off: rejected by queue_run *)
                   else emit [Note NBoundary; Reply (n_of_int r2)];
                   go rest'
               | [] -> ())
            end else begin
              (* "451 4.3.2 can not connect to queue": queue_init() was reached and failed - that was an invocation too *)
              if r = 451 then incr k;
              emit [rep]; go rest end end
          else if starts_with u "AUTH " then begin
            (* a 235 means "authenticated"; the name is the oracle's (the reply does not carry it) *)
            (if r = 235 then
               (match o_auth (bytes_of_str (String.sub line 5 (String.length line - 5))) with
                | Auth_ok nm when o.o_authperm -> emit [Note (NAuth nm); rep]
                | _ -> auth_bad := true; emit [Note (NAuth (bytes_of_str "?")); rep])   (* 235 without a backend that said yes *)
             else emit [rep]); go rest end
          else if u = "RSET" then (stored := 0; emit (if r = 250 then [Note NBoundary; rep] else [rep]); go rest)
          else if u = "QUIT" then (emit [rep; Closed]; if rest <> [] then raise Not_simple)
          else if u = "NOOP" || starts_with u "VRFY" then (emit [rep]; go rest)
          else raise Not_simple in
    go chunks;
    let bad = ref [] in
    if !hs <> [] then bad := "handoff-without-250" :: !bad;
    if !limits_bad then bad := "limits" :: !bad;
    if !auth_bad then bad := "auth" :: !bad;
    if !content_bad then bad := "message" :: !bad;
    if !header_bad then bad := "header" :: !bad;
    (match trace_run o !evs a_init with None -> bad := "trace" :: !bad | Some _ -> ());
    (match queue_run o !evs QIdle with None -> bad := "queue" :: !bad | Some _ -> ());
    if !bad = [] then "ok" else "bad:" ^ String.concat "," (List.rev !bad)
  with Not_simple -> "pre"

let spec fs obs = match fs with
  | "5e" :: cfg :: chunks -> spec_session (str_of_bytes (bytes_of_hex cfg)) (List.map (fun c -> str_of_bytes (bytes_of_hex c)) chunks) obs
  | _ -> "BADCASE"

let () =
  match Sys.argv.(1) with
  | "model" -> main_loop model
  | "spec" -> main_loop (fun fs ->
      let rec split acc = function "|" :: rest -> (List.rev acc, rest) | x :: r -> split (x :: acc) r | [] -> (List.rev acc, []) in
      let (c, o) = split [] fs in spec c o)
  | _ -> prerr_endline "usage"; exit 2

(* model side of the qrdata engine; mode from argv[1]:
     model : case line -> result line in the harness' format
     spec  : case line | c-result  -> "ok" | "bad" | "pre"   (boolean spec checker on the C observation;
             field 0 of the case selects the property: 06 -> spec_ok_C06, 07 -> spec_ok_C07) *)
open M

let die_name w = match int_of_n w with
  | 1 -> "8bithdr" | 2 -> "ctsyntax" | 3 -> "bempty" | 4 -> "blong" | 5 -> "bspace" | 6 -> "bchar" | k -> "other" ^ string_of_int k

let ext8_of ext = (int_of_string ("0x" ^ ext)) land (int_of_nat eSMTP_8BITMIME) <> 0
let default_helo = "68656c6f2e6578616d706c652e6e6574"

let show = function
  | Ok ((fl, q), run) ->
      let st, fin = (match run with Done (_, st) -> st, "END" | Die (w, st) -> st, "DIE_" ^ die_name w) in
      "F" ^ string_of_int (int_of_nat (flags_val fl))
      ^ String.concat "" (List.rev_map (fun w -> " " ^ hex_of_bytes w) st.out)
      ^ (if q then " Q " else " P ") ^ fin
  | Crash _ -> "CRASH"
  | OutOfFuel -> "TIMEOUT"

let model fs = match fs with
  | _ :: ext :: msg :: rest ->
      let helo = (match rest with h :: _ -> h | [] -> default_helo) in
      show (send_data (bytes_of_hex msg) (bytes_of_hex helo) (ext8_of ext))
  | _ -> "BADCASE"

(* C observation: F<n> <write>... P|Q END|DIE_x   or CRASH / TIMEOUT *)
let parse_obs obs =
  match List.rev obs with
  | fin :: pq :: rest ->
      let ws = (match List.rev rest with _flags :: ws -> ws | [] -> []) in
      Some (List.concat (List.map bytes_of_hex ws), pq, fin)
  | _ -> None

let spec fs obs = match fs with
  | op :: ext :: msg :: _ ->
      (match obs with
       | ["CRASH"] | ["TIMEOUT"] -> if op = "06" then "bad" else "pre"
       | _ ->
         (match parse_obs obs with
          | None -> "BADCASE"
          | Some (stream, pq, fin) ->
              if op = "06" then
                (if spec_ok_C06 (ext8_of ext) stream (fin = "END") then "ok" else "bad")
              else if fin <> "END" then "pre"          (* nothing was delivered: Qremote reported a failure *)
              else
                let helo = (match fs with _ :: _ :: _ :: h :: _ -> h | _ -> default_helo) in
                (match spec_ok_C07 (bytes_of_hex msg) (bytes_of_hex helo) stream (pq = "Q") with
                 | Some true -> "ok" | Some false -> "bad" | None -> "pre")))
  | _ -> "BADCASE"

let () =
  match Sys.argv.(1) with
  | "model" -> main_loop model
  | "spec" -> main_loop (fun fs ->
      let rec split acc = function "|" :: rest -> (List.rev acc, rest) | x :: r -> split (x :: acc) r | [] -> (List.rev acc, []) in
      let (c, o) = split [] fs in spec c o)
  | _ -> prerr_endline "usage"; exit 2

(* model side of the mxconn engine (C20: connect_mx() over the real tryconn()); mode from argv[1]:
     model : case line -> result line in the harness' format (harness/tlssw_h.c, op ca)
     spec  : case fields | C result fields -> ok | bad | pre
   case: ca <route> <nservers> <mxspec> <headtlsa> then per server <flags> <tlsa> <hs> <verify> <npre> <npost> <ntls> <segments>
         mxspec = per entry [named][naddr][connect() outcome per address]
   the spec is the last clause in full (a run that gives up must have tried every candidate); SPEC_STRICT=0 in the
   environment leaves that part out (the runs of the known class F-C20-5 then pass) *)
open M

let one s = match ints_of_hex s with [e] -> e | _ -> failwith "one byte expected"
let rec take k l = if k = 0 then ([], l) else match l with x :: r -> let (a, b) = take (k - 1) r in (x :: a, b) | [] -> failwith "short"
let rec pairs = function
  | u :: r :: rest -> (n_of_int u, z_of_int (r - 1)) :: pairs rest
  | [] -> []
  | _ -> failwith "tlsa"

let rec conns n fs =
  if n = 0 then (if fs = [] then [] else failwith "trailing fields") else
  match fs with
  | flags :: tlsa :: hs :: vfy :: a :: b :: c :: rest ->
    let fl = one flags in
    let (pre, rest) = take (one a) rest in
    let (post, rest) = take (one b) rest in
    let (tls, rest) = take (one c) rest in
    if one hs > 5 then failwith "hs";
    { q_conn = { c_named = fl land 1 <> 0; c_pinfile = fl land 2 <> 0; c_pinload = fl land 4 <> 0;
                 c_tlsa = pairs (ints_of_hex tlsa); c_hs = n_of_int (one hs); c_verify = n_of_int (one vfy);
                 c_pre = List.map bytes_of_hex pre; c_post = List.map bytes_of_hex post; c_tls = List.map bytes_of_hex tls };
      q_silent = fl land 8 <> 0; q_dup2 = fl land 16 <> 0 }
    :: conns (n - 1) rest
  | _ -> failwith "connection fields"

let addr_of flat = List.map n_of_int [0;0;0;0;0;0;0;0;0;0;255;255;192;1;2;flat + 1]

(* entries, oracle, total *)
let parse_mxspec (b : int list) =
  let rec go i flat = function
    | [] -> ([], [])
    | named :: cnt :: rest ->
        if named > 1 || cnt < 1 || i >= 32 || flat + cnt > 200 then failwith "mxspec";
        let (oc, rest) = take cnt rest in
        let e = { prio = n_of_int (10 * (i + 1)); ident = n_of_int (if named = 1 then i + 1 else 0);
                  addrs = List.init cnt (fun j -> addr_of (flat + j)) } in
        let (es, os) = go (i + 1) (flat + cnt) rest in
        (e :: es, List.map n_of_int oc @ os)
    | _ -> failwith "mxspec" in
  go 0 0 b

let input_of = function
  | "ca" :: route :: n :: mxspec :: htlsa :: rest ->
    if one n > 8 then failwith "number of servers";
    let (es, oracle) = parse_mxspec (ints_of_hex mxspec) in
    if es = [] then failwith "no entry";
    let succ = List.length (List.filter (fun o -> int_of_n o = 0) oracle) in
    if succ > one n then failwith "more connections than servers";
    let ht = ints_of_hex htlsa in
    if List.length ht mod 2 <> 0 then failwith "tlsa";
    { m_route = one route land 1 <> 0; m_list = es; m_cs0 = nat_of_int 0; m_oracle = oracle;
      m_headtlsa = pairs ht; m_servers = conns (one n) rest }
  | _ -> failwith "fields"

let mail_count k =
  match fst (connect_phase_c qR_CONN_ERR_REPORTS qR_CONN_DUP2_REPORTS k) with
  | PConnected (_, _, s) -> Some (List.length s.s_rpt)
  | _ -> None

let show_ev mc = function
  | EvTlsa k -> Some (Printf.sprintf "T%d" (int_of_nat k))
  | EvConn k -> Some (Printf.sprintf "C%d" (int_of_nat k))
  | EvCert r -> Some (if r then "K1" else "K0")
  | EvW (t, b) -> Some ((if t then "Wt" else "Wc") ^ hex_of_bytes b)
  | EvR (_, _, _) -> None
  | EvHs (p, h) -> Some (Printf.sprintf "H%d:%d" (int_of_nat p) (int_of_n h))
  | EvVfy v -> Some (Printf.sprintf "V%d" (int_of_n v))
  | EvMail (t, e) -> Some (Printf.sprintf "%s%d:%d" (if t then "Mt" else "Mc") (int_of_n e) (match mc with Some n -> n | None -> -1))

let flat_of_addr a = match List.rev a with x :: _ -> int_of_n x - 1 | [] -> -1

let model fs =
  match (try Some (input_of fs) with Failure _ -> None) with None -> "BADCASE" | Some k ->
  let (r, atts) = run_c k in
  let s = final r in
  let fin = (match r with Exit _ -> "X0" | Ret _ -> "RETURNED" | Stuck _ -> "STUCK") in
  let att = if atts = [] then "ATT-" else "ATT" ^ String.concat "" (List.map (fun (a, _) -> Printf.sprintf "%02x" (flat_of_addr a)) atts) in
  String.concat " " ("B" :: List.filter_map (show_ev (mail_count k)) s.s_tr @ [fin]
                     @ List.map (fun w -> "S" ^ hex_of_bytes w) s.s_rpt @ ["WF1"; att])

let strict = (try Sys.getenv "SPEC_STRICT" <> "0" with Not_found -> true)

let spec c o =
  let k = (try Some (input_of c) with _ -> None) in
  match k, o with
  | None, _ -> "pre"
  | Some k, "B" :: toks ->
    let used = ref false and noconn = ref false and nconn = ref 0 and atts = ref None and bad = ref false in
    let nc = hex_of_bytes sT_RPT_NOCONN in
    List.iter (fun tok ->
        let n = String.length tok in
        if n >= 2 && tok.[0] = 'M' then used := true
        else if n >= 2 && tok.[0] = 'C' then incr nconn
        else if n >= 1 && tok.[0] = 'S' && String.sub tok 1 (n - 1) = nc then noconn := true
        else if n >= 3 && String.sub tok 0 3 = "ATT" then atts := Some (ints_of_hex (String.sub tok 3 (n - 3)))
        else if tok = "RETURNED" || tok = "BADADDR" then bad := true) toks;
    (match !atts with
     | None -> "bad"
     | Some a ->
       if !bad then "bad"
       else if spec_ok_C20_connect strict (nat_of_int (List.length k.m_oracle)) k.m_oracle
                 (List.map nat_of_int a) (nat_of_int !nconn) !used !noconn then "ok" else "bad")
  | Some _, _ -> "bad"

let () =
  match Sys.argv.(1) with
  | "model" -> main_loop model
  | "spec" -> main_loop (fun fs ->
      let rec split acc = function "|" :: rest -> (List.rev acc, rest) | x :: r -> split (x :: acc) r | [] -> (List.rev acc, []) in
      let (c, o) = split [] fs in spec c o)
  | _ -> prerr_endline "usage"; exit 2

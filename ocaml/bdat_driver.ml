(* model side of the bdat engine; mode from argv[1]:
     model : case line -> result line in the harness' format
     spec  : case line | c-result  -> "ok" | "bad" | "pre"   (boolean spec checker on the C observation) *)
open M

let be_int (s : string) : int = List.fold_left (fun a b -> a * 256 + b) 0 (ints_of_hex s)

let show_tx = function
  | Ok ((ws, e), warned) ->
      "OK" ^ String.concat "" (List.map (fun w -> " " ^ hex_of_bytes w) ws)
      ^ (match e with TxDone -> " DONE" | TxAbort -> " ABORT")
      ^ (if warned then " LOG1" else " LOG0")
  | Crash _ -> "CRASH"
  | OutOfFuel -> "OUTOFFUEL"

let nok_of = function [] -> None | n :: _ -> Some (nat_of_int (be_int n))

let model fs = match fs with
  | "aa" :: cs :: msg :: rest -> show_tx (send_bdat (nat_of_int (be_int cs)) (bytes_of_hex msg) (nok_of rest))
  | _ -> "BADCASE"

(* the property quantifies over chunk sizes from the minimum that fits a header (16) *)
let spec fs obs = match fs, obs with
  | "aa" :: cs :: _, _ when be_int cs < 16 -> "pre"
  | "aa" :: cs :: msg :: _, "OK" :: rest ->
      let rec split acc = function
        | [("DONE" | "ABORT") as e; l] -> Some (List.rev acc, e, l)
        | w :: r -> split (w :: acc) r
        | [] -> None in
      (match split [] rest with
       | Some (ws, e, _) when List.for_all (fun w -> w = "-" || (String.length w mod 2 = 0 && String.length w > 0 &&
                                               String.for_all (fun c -> (c >= '0' && c <= '9') || (c >= 'a' && c <= 'f')) w)) ws ->
           if spec_ok_C19_tx (nat_of_int (be_int cs)) (bytes_of_hex msg) (e = "DONE") (List.map bytes_of_hex ws) then "ok" else "bad"
       | _ -> "bad")
  | "aa" :: _ :: _ :: _, _ -> "bad"      (* CRASH, TIMEOUT, NOFINAL, ... *)
  | _ -> "BADCASE"

let () =
  match Sys.argv.(1) with
  | "model" -> main_loop model
  | "spec" -> main_loop (fun fs ->
      let rec split acc = function "|" :: rest -> (List.rev acc, rest) | x :: r -> split (x :: acc) r | [] -> (List.rev acc, []) in
      let (c, o) = split [] fs in spec c o)
  | _ -> prerr_endline "usage"; exit 2

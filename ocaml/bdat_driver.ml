(* model side of the bdat engine; mode from argv[1]:
     model : case line -> result line in the harness' format
     spec  : case line | c-result  -> "ok" | "bad" | "pre"   (boolean spec checker on the C observation) *)
open M

let be_int (s : string) : int = List.fold_left (fun a b -> a * 256 + b) 0 (ints_of_hex s)

let show_tx = function
  | Ok ((ws, e), warned) ->
      "OK" ^ String.concat "" (List.map (fun w -> " " ^ hex_of_bytes w) ws)
      ^ (match e with TxDone -> " DONE" | TxAbort -> " ABORT")
      ^ (if warned then " LOG1" else " LOG0")
  | Crash _ -> "CRASH"
  | OutOfFuel -> "OUTOFFUEL"

let nok_of = function [] -> None | n :: _ -> Some (nat_of_int (be_int n))

(* ---- receiving side ---- *)
let err_name = function E0 -> "0" | EDONE -> "EDONE" | EMSGSIZE -> "EMSGSIZE" | EPIPE -> "EPIPE" | EBADF -> "EBADF" | EIO -> "EIO"
  | EINVAL -> "EINVAL" | E2BIG -> "E2BIG" | ENOSPC -> "ENOSPC" | EFBIG -> "EFBIG" | ENOMEM -> "ENOMEM"
let err_of_name = function "0" -> Some E0 | "EDONE" -> Some EDONE | "EMSGSIZE" -> Some EMSGSIZE | "EPIPE" -> Some EPIPE
  | "EBADF" -> Some EBADF | "EIO" -> Some EIO | "EINVAL" -> Some EINVAL | "E2BIG" -> Some E2BIG | "ENOSPC" -> Some ENOSPC
  | "EFBIG" -> Some EFBIG | "ENOMEM" -> Some ENOMEM | _ -> None

let show_ev = function
  | EvInit -> "I" | EvHdr -> "H" | EvHBadf -> "HBADF" | EvQ b -> "Q" ^ hex_of_bytes b | EvQBadf -> "QBADF" | EvQFail -> "QFAIL"
  | EvReply c -> "N" ^ string_of_int (int_of_nat c) | EvEnv n -> "E" ^ string_of_int (int_of_nat n)
  | EvReset -> "R" | EvFree -> "F" | EvTarpit -> "T" | EvRc e -> "C" ^ err_name e | Ev503 -> "C503"
  | EvBegin p -> "B" ^ string_of_int (int_of_nat p) | EvRsetOk -> "RSET"

let parse_ev (t : string) : ev option =
  let n = String.length t in
  let rest = if n > 0 then String.sub t 1 (n - 1) else "" in
  let is_num s = s <> "" && String.for_all (fun c -> c >= '0' && c <= '9') s in
  match t with
  | "I" -> Some EvInit | "H" -> Some EvHdr | "HBADF" -> Some EvHBadf | "QBADF" -> Some EvQBadf | "QFAIL" -> Some EvQFail
  | "R" -> Some EvReset | "F" -> Some EvFree | "T" -> Some EvTarpit | "C503" -> Some Ev503 | "RSET" -> Some EvRsetOk
  | _ when n > 0 && t.[0] = 'B' && is_num rest -> Some (EvBegin (nat_of_int (int_of_string rest)))
  | _ when n > 0 && t.[0] = 'Q' -> Some (EvQ (bytes_of_hex rest))
  | _ when n > 0 && t.[0] = 'N' && is_num rest -> Some (EvReply (nat_of_int (int_of_string rest)))
  | _ when n > 0 && t.[0] = 'E' && is_num rest -> Some (EvEnv (nat_of_int (int_of_string rest)))
  | _ when n > 0 && t.[0] = 'C' -> (match err_of_name rest with Some e -> Some (EvRc e) | None -> None)
  | _ -> None

(* cfg = q wf wf rf mb mb mb mb; cmds = 5 octets each *)
let rx_qf cfg = (List.hd (ints_of_hex cfg)) land 1 = 1
let rx_case cfg cmds stream cuts =
  let c = Array.of_list (ints_of_hex cfg) in
  let wf = c.(1) * 256 + c.(2) and rf = c.(3) in
  let mb = ((c.(4) * 256 + c.(5)) * 256 + c.(6)) * 256 + c.(7) in
  let config = { c_wfail = (if wf = 0xffff then None else Some (nat_of_int wf, EPIPE));
                 c_maxbytes = nat_of_int mb; c_rs = rX_KIB; c_fix = rX_CR_AFTER_LOOP } in
  let rec cm = function
    | a :: b :: f :: p :: q :: r -> ((nat_of_int (a * 256 + b), (f land 1 = 1)), nat_of_int (p * 256 + q)) :: cm r
    | _ -> [] in
  (config, cm (ints_of_hex cmds), bytes_of_hex stream, List.map nat_of_int (ints_of_hex cuts),
   (if rf = 0xff then None else Some (nat_of_int rf)))

let com_num = function CsRcpt _ -> 64 | CsBdat -> 2048 | CsHelo -> 16

let show_rx = function
  | Ok ((died, s), evs) ->
      "OK" ^ String.concat "" (List.map (fun e -> " " ^ show_ev e) evs) ^ (if died then " DIED" else " END")
      ^ " lastcr=" ^ (if s.r_lastcr then "1" else "0") ^ " bdaterr=" ^ err_name s.r_bdaterr
      ^ " comstate=" ^ string_of_int (com_num s.r_com)
      ^ " rest=" ^ string_of_int (List.length s.r_net.n_ln + List.length s.r_net.n_stream)
  | Crash _ -> "CRASH"
  | OutOfFuel -> "OUTOFFUEL"

(* bd: cfg = wf wf we rf mb(4); script = records op pre(2) len(2) payload *)
let rxs_case cfg script stream cuts =
  let c = Array.of_list (ints_of_hex cfg) in
  let wf = c.(0) * 256 + c.(1) and rf = c.(3) in
  let we = List.nth [EPIPE; ENOSPC; EFBIG; EMSGSIZE; E2BIG; ENOMEM; EIO] c.(2) in
  let mb = ((c.(4) * 256 + c.(5)) * 256 + c.(6)) * 256 + c.(7) in
  let config = { c_wfail = (if wf = 0xffff then None else Some (nat_of_int wf, we));
                 c_maxbytes = nat_of_int mb; c_rs = rX_KIB; c_fix = rX_CR_AFTER_LOOP } in
  let rec take n l = if n = 0 then ([], l) else match l with x :: r -> let (a, b) = take (n - 1) r in (x :: a, b) | [] -> failwith "short" in
  let rec ops = function
    | [] -> []
    | op :: p1 :: p2 :: l1 :: l2 :: r ->
        let (pl, rest) = take (l1 * 256 + l2) r in
        let pre = nat_of_int (p1 * 256 + p2) in
        (match op with
         | 1 -> let up = List.map (fun x -> if x >= 97 && x <= 122 then x - 32 else x) pl in
                (match up with 66 :: 68 :: 65 :: 84 :: _ -> () | _ -> failwith "notbdat");
                OpLine (pre, List.map n_of_int pl)
         | 2 -> OpRset pre
         | 3 -> OpBegin (pre, (match pl with x :: _ -> x land 1 = 1 | [] -> false))
         | _ -> failwith "op") :: ops rest
    | _ -> failwith "short" in
  if c.(2) > 6 then failwith "we";
  (config, ops (ints_of_hex script), bytes_of_hex stream, List.map nat_of_int (ints_of_hex cuts),
   (if rf = 0xff then None else Some (nat_of_int rf)))

let model fs = match fs with
  | "bd" :: cfg :: script :: stream :: rest when String.length cfg = 16 ->
      (try
        let (config, ops, st, cuts, rf) = rxs_case cfg script stream (match rest with c :: _ -> c | [] -> "-") in
        show_rx (rx_script config ops st cuts rf)
      with Failure _ | Invalid_argument _ -> "BADCASE")
  | "aa" :: cs :: msg :: rest -> show_tx (send_bdat (nat_of_int (be_int cs)) (bytes_of_hex msg) (nok_of rest))
  | "bb" :: cfg :: cmds :: stream :: rest when String.length cfg = 16 && List.length (ints_of_hex cmds) mod 5 = 0 ->
      let (config, cm, st, cuts, rf) = rx_case cfg cmds stream (match rest with c :: _ -> c | [] -> "-") in
      show_rx (rx_session config (rx_qf cfg) cm st cuts rf)
  | _ -> "BADCASE"

(* the property quantifies over chunk sizes from the minimum that fits a header (16) *)
let spec fs obs = match fs, obs with
  | _, ["BADCASE"] -> "BADCASE"
  | "aa" :: cs :: _, _ when be_int cs < 16 -> "pre"
  | "aa" :: cs :: msg :: _, "OK" :: rest ->
      let rec split acc = function
        | [("DONE" | "ABORT") as e; l] -> Some (List.rev acc, e, l)
        | w :: r -> split (w :: acc) r
        | [] -> None in
      (match split [] rest with
       | Some (ws, e, _) when List.for_all (fun w -> w = "-" || (String.length w mod 2 = 0 && String.length w > 0 &&
                                               String.for_all (fun c -> (c >= '0' && c <= '9') || (c >= 'a' && c <= 'f')) w)) ws ->
           if spec_ok_C19_tx (nat_of_int (be_int cs)) (bytes_of_hex msg) (e = "DONE") (List.map bytes_of_hex ws) then "ok" else "bad"
       | _ -> "bad")
  | "aa" :: _ :: _ :: _, _ -> "bad"      (* CRASH, TIMEOUT, NOFINAL, ... *)
  | "bb" :: cfg :: cmds :: stream :: rest, "OK" :: obs when String.length cfg = 16 ->
      let (config, cm, st, _, rf) = rx_case cfg cmds stream "-" in
      let rec evs acc = function
        | ("END" | "DIED") :: _ -> Some (List.rev acc)
        | t :: r -> (match parse_ev t with Some e -> evs (e :: acc) r | None -> None)
        | [] -> None in
      (match evs [] obs with
       | Some l -> if spec_ok_C19_rx config (rx_qf cfg) cm st rf l then "ok" else "bad"
       | None -> "bad")
  | "bb" :: _ :: _ :: _ :: _, _ -> "bad"
  | "bd" :: cfg :: script :: stream :: rest, "OK" :: obs when String.length cfg = 16 ->
      (try
        let (config, ops, st, _, rf) = rxs_case cfg script stream "-" in
        let rec evs acc = function
          | ("END" | "DIED") :: _ -> Some (List.rev acc)
          | t :: r -> (match parse_ev t with Some e -> evs (e :: acc) r | None -> None)
          | [] -> None in
        (match evs [] obs with
         | Some l -> if spec_ok_C19_rxs config ops st rf l then "ok" else "bad"
         | None -> "bad")
      with Failure _ | Invalid_argument _ -> "BADCASE")
  | "bd" :: _ :: _ :: _ :: _, _ -> "bad"
  | _ -> "BADCASE"

let () =
  match Sys.argv.(1) with
  | "model" -> main_loop model
  | "spec" -> main_loop (fun fs ->
      let rec split acc = function "|" :: rest -> (List.rev acc, rest) | x :: r -> split (x :: acc) r | [] -> (List.rev acc, []) in
      let (c, o) = split [] fs in spec c o)
  | _ -> prerr_endline "usage"; exit 2

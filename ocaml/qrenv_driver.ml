(* model side of the qrenv engine (C04); mode from argv[1]:
     model : case line -> result line in the harness' format
     spec  : case fields | C result fields -> ok | bad | pre
     class : case line -> names of the known-finding classes the input is in (cross-check of props/C04.py:classify)
   case: c4 <ext> <rhost> <sender> <msg> <n> <rcpt>*n <event>*      (see harness/qrenv_h.c) *)
open M

let event_of_hex s =
  match bytes_of_hex s with
  | [] -> failwith "empty event"
  | k :: rest ->
    (match int_of_n k with
     | 0 -> EvLine rest
     | 1 -> EvInval | 2 -> EvTooLong | 3 -> EvIOErr | 4 -> EvTimeout | 5 -> EvClose
     (* 1500 octets without CRLF, then close / silence: for net_read() this is the closed resp. silent end
        (loop_long() reads on until the stream ends); kinds of their own in the harness because they take
        the loop_long() path of lib/netio.c *)
     | 6 -> EvClose | 7 -> EvTimeout
     | _ -> failwith "event kind")

(* the harness runs the real need_recode()/send_plain(): only messages they pass through unchanged are supported *)
let simple_msg (m : int list) (ext : int) =
  let rec lines acc cur = function
    | [] -> if cur = [] then Some (List.rev acc) else None          (* last line must end in CRLF *)
    | 13 :: 10 :: r -> lines (List.rev cur :: acc) [] r
    | (13 | 10) :: _ -> None
    | x :: r -> lines acc (x :: cur) r in
  match lines [] [] m with
  | None -> false
  | Some ls ->
    List.for_all (fun l -> List.length l <= 900 && (match l with 46 :: _ -> false | _ -> true)
                           && List.for_all (fun b -> b <> 0) l) ls
    && (List.for_all (fun b -> b < 128) m || ext land 8 <> 0)

let rec take k l = if k = 0 then ([], l) else match l with x :: r -> let (a, b) = take (k - 1) r in (x :: a, b) | [] -> failwith "short"

let input_of fs = match fs with
  | "c4" :: ext :: rhost :: sender :: msg :: n :: rest ->
    let ext = (match ints_of_hex ext with [e] -> e | _ -> failwith "ext") in
    let n = (match ints_of_hex n with [e] -> e | _ -> failwith "n") in
    let (rc, evs) = take n rest in
    let m = ints_of_hex msg in
    if not (simple_msg m ext) then None else
    Some { i_ext = n_of_int ext; i_rhost = bytes_of_hex rhost; i_sender = bytes_of_hex sender;
           i_sizestr = List.map (fun c -> n_of_int (Char.code c)) (List.of_seq (String.to_seq (string_of_int (List.length m))));
           i_recodeflag = n_of_int (if List.exists (fun b -> b >= 128) m then 1 else 0);
           i_body = bytes_of_hex msg; i_lastlf = true;
           i_rcpts = List.map bytes_of_hex rc; i_script = List.map event_of_hex evs }
  | _ -> failwith "fields"

let show = function
  | Obs (c, s, n) -> Printf.sprintf "EXIT %d S %s N %s" (int_of_nat c) (hex_of_bytes s) (hex_of_bytes n)
  | ObsUnmodelled _ -> "CRASH"
  | ObsReturned -> "RETURNED"

let model fs = match input_of fs with
  | None -> "UNSUPPORTED-MESSAGE"
  | Some i -> show (qremote_main i)

let obs_of = function
  | [ "EXIT"; c; "S"; s; "N"; n ] -> Some (Obs (nat_of_int (int_of_string c), bytes_of_hex s, bytes_of_hex n))
  | _ -> None

let spec c o = match input_of c with
  | None -> "pre"
  | Some i -> (match obs_of o with
      | Some ob -> if spec_ok_C04 i ob then "ok" else "bad"
      | None -> "bad")

let classes fs = match input_of fs with
  | None -> "-"
  | Some i ->
    let l = List.filter_map (fun (nm, f) -> if f i then Some nm else None)
        [ ("dup_message_report", class_dup); ("merged_exit_report", class_merge); ("rcpt_3xx", class_3xx);
          ("long_command", class_longcmd); ("multiline_354", class_ml354) ] in
    if l = [] then "-" else String.concat "," l

let () =
  match Sys.argv.(1) with
  | "model" -> main_loop model
  | "class" -> main_loop classes
  | "spec" -> main_loop (fun fs ->
      let rec split acc = function "|" :: rest -> (List.rev acc, rest) | x :: r -> split (x :: acc) r | [] -> (List.rev acc, []) in
      let (c, o) = split [] fs in spec c o)
  | _ -> prerr_endline "usage"; exit 2

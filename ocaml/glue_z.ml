(* glue for engines whose model uses Z *)
let z_of_int (i : int) = if i = 0 then Z0 else if i > 0 then Zpos (pos_of_int i) else Zneg (pos_of_int (-i))
let int_of_z = function Z0 -> 0 | Zpos p -> int_of_pos p | Zneg p -> - (int_of_pos p)

(* model side of the b64 engine; mode from argv[1]:
     model : case line -> result line in the harness' format
     spec  : <case fields> | <C result fields>  -> ok | bad | pre
     class : case line -> regular | irregular      (the Coq class predicate, to cross-check props/C09.py:classify) *)
open M

let w_of_hex s = match ints_of_hex s with
  | [a; b; c; d] -> n_of_int ((a lsl 24) lor (b lsl 16) lor (c lsl 8) lor d)
  | _ -> failwith "wraplimit"

let model fs = match fs with
  | ["d1"; inp] ->
      (match b64decode (bytes_of_hex inp) with
       | Ok (Some o) -> "D0 " ^ hex_of_bytes o ^ " z"
       | Ok None -> "D1"
       | Crash _ -> "CRASH"
       | OutOfFuel -> "OUTOFFUEL")
  | ["e1"; inp; w] ->
      (match b64encode (bytes_of_hex inp) (w_of_hex w) with
       | Ok o -> "E0 " ^ hex_of_bytes o ^ " z"
       | Crash _ -> "CRASH"
       | OutOfFuel -> "OUTOFFUEL")
  | _ -> "BADCASE"

(* precondition of the encoder statement: no line wrapping, i.e. wraplimit above the output length *)
let enc_pre inp w =
  let n = List.length (ints_of_hex inp) in
  let w = int_of_n (w_of_hex w) in
  w > 4 * ((n + 2) / 3)

let spec fs obs = match fs, obs with
  | ["d1"; inp], ["D0"; o; "z"] -> if spec_ok_C09_dec (bytes_of_hex inp) (Some (bytes_of_hex o)) then "ok" else "bad"
  | ["d1"; inp], ["D1"] -> if spec_ok_C09_dec (bytes_of_hex inp) None then "ok" else "bad"
  | ["d1"; _], _ -> "bad"
  | ["e1"; inp; w], ["E0"; o; "z"] ->
      if spec_ok_C09_enc (bytes_of_hex inp) (bytes_of_hex o) then "ok" else if enc_pre inp w then "bad" else "pre"
  | ["e1"; inp; w], _ -> if enc_pre inp w then "bad" else "pre"
  | _ -> "BADCASE"

let () =
  match Sys.argv.(1) with
  | "model" -> main_loop model
  | "class" -> main_loop (function ["d1"; inp] -> if pad_regular (bytes_of_hex inp) then "regular" else "irregular" | _ -> "BADCASE")
  | "spec" -> main_loop (fun fs ->
      let rec split acc = function "|" :: rest -> (List.rev acc, rest) | x :: r -> split (x :: acc) r | [] -> (List.rev acc, []) in
      let (c, o) = split [] fs in spec c o)
  | _ -> prerr_endline "usage"; exit 2

(* model side of the auth engine; mode from argv[1]:
     model : case line -> result line in the harness' format
     spec  : <case fields> | <C result fields>  -> ok | bad | pre *)
open M

let parse fs = match fs with
  | "a1" :: flags :: an0 :: linein :: be :: wsched :: reads ->
      let fl = (match ints_of_hex flags with [x] -> x | _ -> failwith "flags") in
      let cfg = { auth_host_set = fl land 1 <> 0; sslauth_on = fl land 2 <> 0; ssl_on = fl land 4 <> 0 } in
      let (mode, v) = (match ints_of_hex be with [a; b] -> (a, b) | _ -> failwith "backend") in
      let rd f = match bytes_of_hex f with
        | x :: rest when int_of_n x = 1 -> RdErr (match rest with e :: _ -> e | [] -> n_of_int 5)
        | _ :: rest -> RdChunk rest
        | [] -> RdChunk [] in
      let s0 = { rds = List.map rd reads; ws = bytes_of_hex wsched; out = []; calls = []; pipes = [] } in
      (cfg, bytes_of_hex an0, bytes_of_hex linein, mode, v, s0, List.length reads)
  | _ -> failwith "case"

let model fs =
  let (cfg, an0, linein, mode, v, s0, nreads) = parse fs in
  match smtp_auth (backend_of (n_of_int mode) (n_of_int v)) cfg an0 linein s0 with
  | Ok ((s, rc), an) ->
      let b = Buffer.create 256 in
      Buffer.add_string b (Printf.sprintf "A %d %s %s" (int_of_z rc) (hex_of_bytes an) (if an = [] then "-" else "z"));
      Buffer.add_string b " C";
      List.iter (fun (u, p) -> Buffer.add_string b (" " ^ hex_of_bytes (u @ [N0]) ^ " " ^ hex_of_bytes (p @ [N0]))) (List.rev s.calls);
      Buffer.add_string b " W";
      List.iter (fun m -> Buffer.add_string b (" " ^ hex_of_bytes m)) (List.rev s.out);
      Buffer.add_string b " P";
      List.iter (fun m -> Buffer.add_string b (" " ^ hex_of_bytes m)) (List.rev s.pipes);
      Buffer.add_string b (Printf.sprintf " R%d" (nreads - List.length s.rds));
      Buffer.contents b
  | Crash _ -> "CRASH"
  | OutOfFuel -> "OUTOFFUEL"

(* the harness' line back into an observation; user/pass fields carry their terminating NUL *)
let parse_obs o =
  let strip_nul h = match List.rev (bytes_of_hex h) with
    | z :: r when int_of_n z = 0 -> List.rev r
    | _ -> failwith "terminator" in
  match o with
  | "A" :: rc :: an :: zf :: "C" :: rest ->
      if zf = "nz" || zf = "dangling" then failwith "authname";
      let rec calls acc = function
        | "W" :: r -> (List.rev acc, r)
        | u :: p :: r -> calls ((strip_nul u, strip_nul p) :: acc) r
        | _ -> failwith "calls" in
      let (cs, rest) = calls [] rest in
      let rec upto tag acc = function
        | x :: r when x = tag -> (List.rev acc, r)
        | x :: r -> upto tag (bytes_of_hex x :: acc) r
        | [] -> failwith "obs" in
      let (ws, rest) = upto "P" [] rest in
      let rec pipes acc = function
        | [x] when String.length x > 0 && x.[0] = 'R' -> (List.rev acc, int_of_string (String.sub x 1 (String.length x - 1)))
        | x :: r -> pipes (bytes_of_hex x :: acc) r
        | [] -> failwith "obs" in
      let (ps, nr) = pipes [] rest in
      { o_rc = z_of_int (int_of_string rc); o_an = bytes_of_hex an; o_calls = cs; o_out = ws; o_pipes = ps; o_nreads = nat_of_int nr }
  | _ -> failwith "obs"

(* contract of net_readline(64, ...): between 1 and 64 octets per call, or -1 with errno set (read_ok in Proofs/AuthProofs.v) *)
let pre_reads s0 = List.for_all (function RdChunk b -> let n = List.length b in n >= 1 && n <= 64 | RdErr e -> int_of_n e <> 0) s0.rds

let spec fs obs =
  let (cfg, an0, linein, mode, v, s0, _) = parse fs in
  if not (pre_reads s0) then "pre" else
  match (try Some (parse_obs obs) with Failure _ -> None) with
  | None -> "bad"
  | Some o -> if spec_ok_C09_auth (n_of_int mode) (n_of_int v) cfg an0 linein s0.rds o then "ok" else "bad"

let () =
  match Sys.argv.(1) with
  | "model" -> main_loop model
  | "spec" -> main_loop (fun fs ->
      let rec split acc = function "|" :: rest -> (List.rev acc, rest) | x :: r -> split (x :: acc) r | [] -> (List.rev acc, []) in
      let (c, o) = split [] fs in spec c o)
  | _ -> prerr_endline "usage"; exit 2

(* model side of the servercert engine (C17, find_servercert).
   case:  ce <localip> <port | -> <mask>...     see harness/servercert_h.c *)
open M

let str_of_bytes (l : n list) =
  let b = Buffer.create 64 in List.iter (fun x -> Buffer.add_char b (Char.chr (int_of_n x land 255))) l; Buffer.contents b
let bytes_of_str (s : string) : n list = List.init (String.length s) (fun i -> n_of_int (Char.code s.[i]))

let oracle ip port mask : n list -> bool =
  let ip = str_of_bytes ip in
  let names = [ (match port with Some p -> "servercert.pem." ^ ip ^ ":" ^ str_of_bytes p | None -> "\001");
                (match port with Some p -> "serverkey.pem." ^ ip ^ ":" ^ str_of_bytes p | None -> "\001");
                "servercert.pem." ^ ip; "serverkey.pem." ^ ip; "servercert.pem"; "serverkey.pem" ] in
  fun name ->
    let s = str_of_bytes name in
    let rec go i = function
      | [] -> false
      | x :: r -> if x = s then (mask lsr i) land 1 = 1 else go (i + 1) r in
    go 0 names

let parse fs = match fs with
  | "ce" :: ip :: port :: masks ->
      let ip = bytes_of_hex ip and port = bytes_of_hex port in
      if List.length ip >= 46 || List.length port > 16 || List.exists (fun x -> int_of_n x = 0) (ip @ port) then None
      else
        let port = if port = [] then None else Some port in
        let ms = List.map (fun m -> match ints_of_hex m with [x] -> x | _ -> raise Exit) masks in
        Some (ip, port, List.map (oracle ip port) ms)
  | _ -> None

let zstr = function Z0 -> "0" | Zpos p -> string_of_int (int_of_pos p) | Zneg p -> "-" ^ string_of_int (int_of_pos p)

let model fs =
  try match parse fs with
    | None -> "BADCASE"
    | Some (ip, port, exs) ->
        (match calls exs ip port sc_init with
         | Ok rs ->
             String.concat " " (List.map (fun (((rc, probes), cn), kn) ->
                 "r" ^ zstr rc ^ ":" ^ String.concat "," (List.map hex_of_bytes probes) ^ ":" ^ hex_of_bytes cn ^ ":" ^ hex_of_bytes kn) rs)
         | Crash _ -> "CRASH"
         | OutOfFuel -> "OUTOFFUEL")
  with Exit -> "BADCASE"

let spec fs obs =
  try match parse fs with
    | None -> "pre"
    | Some (ip, port, exs) ->
        if List.mem "CRASH" obs || List.mem "TIMEOUT" obs then "bad:crash" else
        let o = List.map (fun t ->
            match String.split_on_char ':' t with
            | [r; _; cn; _] when String.length r > 1 && r.[0] = 'r' ->
                let v = int_of_string (String.sub r 1 (String.length r - 1)) in
                ((if v = 0 then Z0 else if v > 0 then Zpos (pos_of_int v) else Zneg (pos_of_int (-v))), bytes_of_hex cn)
            | _ -> raise Exit) obs in
        if spec_ok_servercert exs ip port o then "ok" else "bad:servercert"
  with Exit -> "bad:format"

let () =
  match Sys.argv.(1) with
  | "model" -> main_loop model
  | "spec" -> main_loop (fun fs ->
      let rec split acc = function "|" :: rest -> (List.rev acc, rest) | x :: r -> split (x :: acc) r | [] -> (List.rev acc, []) in
      let (c, o) = split [] fs in spec c o)
  | _ -> prerr_endline "usage"; exit 2

(* model side of the replysites engine (property C10); mode from argv[1]:
     model : case line -> result line in the harness' format
     spec  : case line | c-result  -> "ok" | "bad" | "pre"   (boolean spec checker on the C observation)
   cases:  c1 <function> <param> <element>...    element = 'L' prefix of the literal | 'H' <class letter> raw bytes
           c2 <text of control file nomail>
           c3 <function answering with a fixed literal>
           c4 <heloname> <badcmds, one octet> <line>...     wait_for_quit() reading these command lines
           c5 <scenario> <element>...                       smtp_data() refusing a message: 354, then the error reply of that shape *)
open M

let show = function
  | Ok ls -> "OK" ^ String.concat "" (List.map (fun l -> " " ^ hex_of_bytes l) ls)
  | Crash _ -> "CRASH"
  | OutOfFuel -> "OUTOFFUEL"

let parse_elem (h : string) =
  match bytes_of_hex h with
  | x :: rest when int_of_n x = 76 -> (None, rest)
  | x :: c :: rest when int_of_n x = 72 ->
      (match class_of_letter c with Some cl -> (Some cl, rest) | None -> failwith "class letter")
  | _ -> failwith "element"

let model fs = match fs with
  | "c1" :: func :: _param :: els ->
      (match site_model (bytes_of_hex func) (List.map parse_elem els) with
       | NoShape -> "NOSHAPE"
       | Wrote r -> show r)
  | ["c2"; raw] ->
      (match cb_nomail (bytes_of_hex raw) with
       | Ok (Some ls) -> show (Ok ls)
       | Ok None -> "NOSHAPE"
       | Crash _ -> "CRASH"
       | OutOfFuel -> "OUTOFFUEL")
  | ["c3"; func] ->
      (match literal_model (bytes_of_hex func) with
       | [l] -> "OK " ^ hex_of_bytes l
       | _ -> "NOLITERAL")
  | "c5" :: _param :: els ->
      (match smtp_data_model (List.map parse_elem els) with
       | NoShape -> "NOSHAPE"
       | Wrote r -> show r)
  | "c4" :: helo :: bad :: lines ->
      show (wait_for_quit (bytes_of_hex helo) (List.map bytes_of_hex lines) (nat_of_int (List.hd (ints_of_hex bad))))
  | _ -> "BADCASE"

let file_line_ok raw = List.for_all (fun x -> x <> 0 && x <> 10 && x <> 35) (ints_of_hex raw) && raw <> "-"

let spec fs obs = match fs, obs with
  | _, ["OK"] -> "pre"        (* the call site did not send anything: no reply to judge (a disagreement with the model is reported separately) *)
  | "c1" :: func :: _ :: els, _ ->
      let es = List.map parse_elem els in
      if not (case_pre es) then "pre"
      else if site_model (bytes_of_hex func) es = NoShape then "pre"      (* no generated template has the shape the case names *)
      else (match obs with
            | "OK" :: lines -> if spec_ok_site (bytes_of_hex func) es (List.map bytes_of_hex lines) then "ok" else "bad"
            | _ -> "bad")
  | ["c2"; raw], _ when not (file_line_ok raw) -> "pre"
  | ["c2"; raw], "OK" :: lines -> if spec_ok_nomail (bytes_of_hex raw) (List.map bytes_of_hex lines) then "ok" else "bad"
  | ["c3"; func], "OK" :: lines -> if spec_ok_literal (bytes_of_hex func) (List.map bytes_of_hex lines) then "ok" else "bad"
  | "c5" :: _ :: els, "OK" :: go :: bufs ->
      let es = List.map parse_elem els in
      if smtp_data_model es = NoShape then "pre"
      else if spec_ok_stream (List.map bytes_of_hex (go :: bufs)) && spec_ok_site fN_smtp_data es (List.map bytes_of_hex bufs) then "ok" else "bad"
  | "c4" :: _, "OK" :: bufs -> if spec_ok_stream (List.map bytes_of_hex bufs) then "ok" else "bad"
  | ("c1" | "c2" | "c3" | "c4" | "c5") :: _, _ -> "bad"
  | _ -> "BADCASE"

let () =
  match Sys.argv.(1) with
  | "model" -> main_loop model
  | "spec" -> main_loop (fun fs ->
      let rec split acc = function "|" :: rest -> (List.rev acc, rest) | x :: r -> split (x :: acc) r | [] -> (List.rev acc, []) in
      let (c, o) = split [] fs in spec c o)
  | _ -> prerr_endline "usage"; exit 2

(* model side of the cdb engine (C13); argv[1] = model | spec.  Cases: see harness/cdb_h.c *)
open M

let show_seek = function
  | Ok (SFound off) -> "F " ^ string_of_int (int_of_n off)
  | Ok (SNone e) -> "N " ^ string_of_int (int_of_n e)
  | Crash _ -> "CRASH"
  | OutOfFuel -> "OUTOFFUEL"

let parse_records s =
  let l = ints_of_hex s in
  let rec take k l = if k = 0 then [] else match l with [] -> failwith "short" | x :: r -> x :: take (k - 1) r in
  let rec drop k l = if k = 0 then l else match l with [] -> failwith "short" | _ :: r -> drop (k - 1) r in
  let rec go l acc =
    match l with
    | [] -> List.rev acc
    | kl :: rest ->
        if List.length acc >= 64 then failwith "many";
        let k = take kl rest in
        let rest = drop kl rest in
        (match rest with
         | [] -> failwith "short"
         | vl :: rest -> let v = take vl rest in go (drop vl rest) ((List.map n_of_int k, List.map n_of_int v) :: acc))
  in
  go l []

let model fs = match fs with
  | ["d1"; file; key] -> show_seek (cdb_seekmm (bytes_of_hex file) (bytes_of_hex key))
  | ["d2"; file; dom] ->
      if List.mem 0 (ints_of_hex dom) then "BADCASE" else
      (match vget_dir_real (Some (bytes_of_hex file)) (bytes_of_hex dom) with
       | Ok (VErr rc) -> string_of_int (int_of_z rc) ^ " -"
       | Ok VNone -> "0 -"
       | Ok (VPath p) -> "1 " ^ hex_of_bytes p
       | Crash _ -> "CRASH"
       | OutOfFuel -> "OUTOFFUEL")
  | ["a1"; recs] ->
      (match (try Some (parse_records recs) with Failure _ -> None) with
       | None -> "BADCASE"
       | Some rs ->
           let file = cdb_make rs in
           hex_of_bytes file ^ String.concat "" (List.map (fun (k, _) -> " " ^ show_seek (cdb_seekmm file k)) rs))
  | _ -> "BADCASE"

(* the property on the C observation: no crash (memory safety for every file), no leaked or lost mapping;
   a found offset lies inside the file; every key of a made database is found *)
let spec fs obs =
  if List.mem "LEAK" obs || List.mem "MAPCOUNT" obs || List.mem "CRASH" obs || List.mem "TIMEOUT" obs then "bad" else
  match fs, obs with
  | ["d1"; file; key], ["F"; off] ->
      (* the pointer lies behind a record header and the key, and the record's data ends inside the file *)
      let fb = Array.of_list (ints_of_hex file) in
      let n = Array.length fb in
      let kl = List.length (ints_of_hex key) in
      (match int_of_string_opt off with
       | Some o when o >= 8 + kl && o <= n ->
           let w p = fb.(p) + 256 * fb.(p + 1) + 65536 * fb.(p + 2) + 16777216 * fb.(p + 3) in
           if w (o - kl - 8) = kl && o + w (o - kl - 4) <= n then "ok" else "bad"
       | _ -> "bad")
  | ["d1"; _; _], ["N"; _] -> "ok"
  | ["d2"; _; _], [rc; _] -> (match int_of_string_opt rc with Some _ -> "ok" | None -> "bad")
  | ["a1"; recs], (_ :: looks) ->
      (* every 7 bit key of a made database is found (cdb_hash() sign-extends plain char: other keys need not be) *)
      (match (try Some (parse_records recs) with Failure _ -> None) with
       | None -> "pre"
       | Some rs ->
           let rec go rs looks = match rs, looks with
             | [], [] -> true
             | (k, _) :: rs', tag :: _ :: looks' ->
                 (tag = "F" || List.exists (fun b -> int_of_n b >= 128) k) && go rs' looks'
             | _ -> false in
           if go rs looks then "ok" else "bad")
  | _ -> "pre"

let () =
  match Sys.argv.(1) with
  | "model" -> main_loop model
  | "spec" -> main_loop (fun fs ->
      let rec split acc = function "|" :: rest -> (List.rev acc, rest) | x :: r -> split (x :: acc) r | [] -> (List.rev acc, []) in
      let (c, o) = split [] fs in spec c o)
  | _ -> prerr_endline "usage"; exit 2

(* model side of the vpop engine (C13); mode from argv[1]:
     model : case line -> result line in the harness' format
     spec  : <case fields> | <C result fields>  ->  ok | bad | pre
   case:  c1 <cdb> <domain> <layout> <bounce> <local> <tail>     (see harness/vpop_h.c) *)
open M

exception Bad

let ints s = ints_of_hex s
let bytes_of_ints l = List.map n_of_int l

let rec take k l = if k = 0 then [] else match l with [] -> raise Bad | x :: r -> x :: take (k - 1) r
let rec drop k l = if k = 0 then l else match l with [] -> raise Bad | _ :: r -> drop (k - 1) r

let name_ok n =
  let l = List.length n in
  l > 0 && l <= 255 && n <> [46] && n <> [46; 46] && not (List.mem 47 n) && not (List.mem 0 n)
  && n <> List.map Char.code (List.init 10 (String.get "filterconf"))

let parse_layout (s : string) : (n list * entry) list =
  let rec go l acc ninj =
    match l with
    | [] -> List.rev acc
    | [_] -> raise Bad
    | kind :: nl :: rest ->
        let nm = take nl rest in
        let rest = drop nl rest in
        if not (name_ok nm) then raise Bad;
        let nmb = bytes_of_ints nm in
        if kind = 102 then begin
          match rest with
          | [] -> raise Bad
          | cl :: rest -> let c = take cl rest in go (drop cl rest) ((nmb, EFile (bytes_of_ints c)) :: acc) ninj
        end else if kind = 100 then go rest ((nmb, EDir) :: acc) ninj
        else if kind = 101 then begin
          match rest with
          | [] -> raise Bad
          | e :: rest ->
              if ninj >= 64 then raise Bad;
              (* the harness registers an injection only for a name not seen before *)
              let seen = List.exists (fun (n, _) -> n = nmb) acc in
              go rest ((nmb, EErr (n_of_int e)) :: acc) (if seen then ninj else ninj + 1)
        end else raise Bad
  in
  go (ints s) [] 0

let parse_cdb (s : string) : (n list * domstate) list option =
  if s = "-" then None
  else if s = "65" || s = "45" then Some []
  else begin
    let rec go l acc =
      match l with
      | [] -> List.rev acc
      | [_] -> raise Bad
      | kind :: dl :: rest ->
          if List.length acc >= 64 then raise Bad;
          let d = take dl rest in
          let st = (match kind with 100 | 68 -> DomTree | 109 -> DomMissing | 102 -> DomFile | _ -> raise Bad) in
          go (drop dl rest) ((bytes_of_ints d, st) :: acc)
    in
    Some (go (ints s) [])
  end

let parse_bounce (s : string) : n list option =
  if s = "-" then None
  else match ints s with
    | 98 :: c -> Some (bytes_of_ints c)
    | _ -> raise Bad

type case = { db : (n list * domstate) list option; dom : n list; lay : (n list * entry) list;
              vbfile : n list option; local : n list }

(* c3: lists of <len:1><bytes> *)
let parse_list (s : string) : n list list =
  let rec go l acc = match l with
    | [] -> List.rev acc
    | k :: rest -> let x = take k rest in if List.mem 0 x then raise Bad; go (drop k rest) (List.map n_of_int x :: acc) in
  go (ints s) []

let parse_case fs =
  match fs with
  | ["c3"; cdb; _; lay; bnc; _; "-"] ->
      let lay = parse_layout lay in
      let vbfile = parse_bounce bnc in
      let db = parse_cdb cdb in
      { db; dom = []; lay; vbfile; local = [] }
  | [("c1" | "c2" | "c4") as op; cdb; dom; lay; bnc; loc; tail] ->
      if op = "c2" && tail <> "-" then raise Bad;
      let tail = if op = "c4" then "-" else tail in
      let nonul s = not (List.mem 0 (ints s)) in
      if not (nonul dom && nonul loc && nonul tail) then raise Bad;
      let lay = parse_layout lay in
      let vbfile = parse_bounce bnc in
      let db = parse_cdb cdb in
      { db; dom = bytes_of_hex dom; lay; vbfile; local = bytes_of_hex loc }
  | _ -> raise Bad

let show_probe = function
  | PDir n -> " d:" ^ hex_of_bytes n
  | PFile n -> " f:" ^ hex_of_bytes n

(* c2: the addresses for which the model of addrparse() is claimed: a local part of characters that need no
   quoting, a domain accepted by domainvalid() *)
let simple_local l =
  l <> [] && List.for_all (fun c ->
    (c >= 97 && c <= 122) || (c >= 65 && c <= 90) || (c >= 48 && c <= 57) || c = 46 || c = 33 || (c >= 35 && c <= 39)
    || c = 42 || c = 43 || c = 45 || c = 47 || c = 61 || c = 63 || (c >= 94 && c <= 96) || (c >= 123 && c <= 126)) l
let simple_domain d =
  let alnum c = (c >= 97 && c <= 122) || (c >= 65 && c <= 90) || (c >= 48 && c <= 57) in
  let alpha c = (c >= 97 && c <= 122) || (c >= 65 && c <= 90) in
  let s = String.concat "" (List.map (fun c -> String.make 1 (Char.chr c)) d) in
  let labels = String.split_on_char '.' s in
  d <> [] && List.length d <= 255 && List.for_all (fun c -> alnum c || c = 45 || c = 46) d
  && List.length labels >= 2 && List.for_all (fun l -> String.length l >= 1 && String.length l <= 63) labels
  && (let last = List.nth labels (List.length labels - 1) in String.length last >= 2 && alpha (Char.code last.[String.length last - 1]))

let conf_word o r_ok = if r_ok then (if int_of_n (conf_of o) = 1 then "user" else "none") else "-"

let model_rcpt c =
  if not (simple_local (List.map int_of_n c.local) && simple_domain (List.map int_of_n c.dom)) then "OUTSIDE" else
  let (r, o) = addrparse_rcpt c.db (fs_of_layout c.lay) (vpopbounce_of c.vbfile) c.local c.dom in
  let u = int_of_z o.rc in
  let (rc, reply) = (match r with RAccept -> (0, "-") | RNoUser t -> (-1, hex_of_bytes t) | RError e -> (int_of_z e, "-")) in
  string_of_int rc ^ " " ^ reply ^ " " ^ conf_word o (rc = 0 && u > 0 && u <> 5)
  ^ String.concat "" (List.map (function PDir n -> " d:" ^ hex_of_bytes n | PFile n -> " f:" ^ hex_of_bytes n) o.probes)

(* c3: a sequence of calls on one struct userconf; the paths the harness puts into users/cdb *)
let str s = List.map (fun c -> n_of_int (Char.code c)) (List.init (String.length s) (String.get s))
let path_of = function DomTree -> str "outer/dom/" | DomMissing -> str "outer/missing/" | DomFile -> str "outer/afile/"
let pathfs p = if p = str "outer/dom/" then DomTree else if p = str "outer/afile/" then DomFile else DomMissing
let model_seq c doms locals =
  if List.length doms <> List.length locals || doms = [] || List.length doms > 64 then "BADCASE" else begin
    let fs = fs_of_layout c.lay and vb = vpopbounce_of c.vbfile in
    let (rcs, s) = List.fold_left2 (fun (rcs, s) d l ->
        let v = (match vget_dir c.db d with Inl rc -> VErr rc | Inr None -> VNone | Inr (Some st) -> VPath (path_of st)) in
        let ((o, s'), _) = user_exists_ds s v pathfs fs vb l in
        (string_of_int (int_of_z o.rc) :: rcs, s')) ([], ds_fresh) doms locals in
    String.concat "," (List.rev rcs) ^ " " ^ string_of_int (int_of_nat (held s)) ^ " 0"
  end

(* c4: RCPT TO:<local@[iptext]>; tail = localip NUL iptext; the domain field is liphost *)
let split_nul l = let rec go acc = function [] -> None | 0 :: r -> Some (List.rev acc, r) | x :: r -> go (x :: acc) r in go [] l
let valid_v4 s =
  match List.map int_of_string_opt (String.split_on_char '.' s) with
  | [Some a; Some b; Some c; Some d] ->
      List.for_all (fun x -> x >= 0 && x <= 255) [a; b; c; d]
      && List.for_all (fun p -> p <> "" && (p = "0" || p.[0] <> '0') && String.length p <= 3 && String.for_all (fun ch -> ch >= '0' && ch <= '9') p) (String.split_on_char '.' s)
  | _ -> false
let known_v6 = ["IPv6:::1"; "IPv6:fe80::A"; "IPv6:2001:DB8::1"; "IPv6:2001:db8::1"; "IPv6:::ffff:10.0.0.1"; "IPv6:FE80::a"]
let string_of_ints l = String.concat "" (List.map (fun c -> String.make 1 (Char.chr c)) l)
let parse_literal fs =
  match split_nul (ints (List.nth fs 6)) with
  | Some (localip, iptext) when not (List.mem 0 iptext) && List.length localip < 46 ->
      let t = string_of_ints iptext in
      if valid_v4 t || List.mem t known_v6 then Some (bytes_of_ints localip, bytes_of_ints iptext) else None
  | _ -> None

let model_literal c fs =
  if not (simple_local (List.map int_of_n c.local)) then "OUTSIDE" else
  match parse_literal fs with
  | None -> "OUTSIDE"
  | Some (localip, iptext) ->
      let (r, o) = addrparse_literal localip c.dom c.db (fs_of_layout c.lay) (vpopbounce_of c.vbfile) c.local iptext in
      let u = int_of_z o.rc in
      let (rc, reply) = (match r with RAccept -> (0, "-") | RNoUser t -> (-1, hex_of_bytes t) | RError e -> (int_of_z e, "-")) in
      string_of_int rc ^ " " ^ reply ^ " " ^ conf_word o (rc = 0 && u > 0 && u <> 5)
      ^ String.concat "" (List.map (function PDir n -> " d:" ^ hex_of_bytes n | PFile n -> " f:" ^ hex_of_bytes n) o.probes)

let model fs =
  match (try Some (parse_case fs) with Bad | Failure _ -> None) with
  | None -> "BADCASE"
  | Some c when List.hd fs = "c4" -> model_literal c fs
  | Some c when List.hd fs = "c3" ->
      (match (try Some (parse_list (List.nth fs 2), parse_list (List.nth fs 5)) with Bad | Failure _ -> None) with
       | None -> "BADCASE"
       | Some (ds, ls) -> model_seq c ds ls)
  | Some c when List.hd fs = "c2" -> model_rcpt c
  | Some c ->
      let o = user_exists c.db (fs_of_layout c.lay) (vpopbounce_of c.vbfile) c.dom c.local in
      let r = int_of_z o.rc in
      let conf = if r > 0 && r <> 5 then (if int_of_n (conf_of o) = 1 then "user" else "none") else "-" in
      string_of_int r ^ " " ^ conf ^ String.concat "" (List.map show_probe o.probes)

let parse_probe s =
  if String.length s < 3 || s.[1] <> ':' then raise Bad;
  let h = String.sub s 2 (String.length s - 2) in
  match s.[0] with
  | 'd' -> PDir (bytes_of_hex h)
  | 'f' -> PFile (bytes_of_hex h)
  | _ -> raise Bad

let conf_code = function "none" | "-" -> 0 | "user" -> 1 | "domain" -> 2 | "outside" -> 3 | _ -> 9

let spec_rcpt c obs =
  if not (simple_local (List.map int_of_n c.local) && simple_domain (List.map int_of_n c.dom)) then "pre" else
  match obs with
  | rc :: reply :: conf :: ps ->
      (match int_of_string_opt rc, (try Some (List.map parse_probe ps, bytes_of_hex reply) with Bad | Failure _ -> None) with
       | Some r, Some (pl, rep) ->
           if spec_ok_C13_rcpt c.db c.lay c.vbfile c.dom c.local (z_of_int r) rep (n_of_int (conf_code conf)) pl then "ok" else "bad"
       | _ -> "bad")
  | _ -> "bad"

let spec fs obs =
  match (try Some (parse_case fs) with Bad | Failure _ -> None) with
  | None -> "pre"
  | Some c when List.hd fs = "c4" ->
      (* accepted only when the literal is the local address and the mailbox exists in liphost: the observation is
         checked with the RCPT checker for the domain liphost when the literal matches; otherwise it must be the 550 reply *)
      if not (simple_local (List.map int_of_n c.local)) then "pre" else
      (match parse_literal fs, obs with
       | None, _ -> "pre"
       | Some (localip, iptext), rc :: reply :: conf :: ps ->
           let lower = List.map (fun b -> let x = int_of_n b in if x >= 65 && x <= 90 then n_of_int (x + 32) else b) in
           let ip = lower iptext in
           let tagged = (List.length ip >= 5 && string_of_ints (List.map int_of_n (take 5 ip)) = "ipv6:") in
           let rest = if tagged then drop 5 ip else ip in
           (match int_of_string_opt rc, (try Some (List.map parse_probe ps, bytes_of_hex reply) with Bad | Failure _ -> None) with
            | Some r, Some (pl, rep) ->
                if rest = localip then
                  (if spec_ok_C13_rcpt c.db c.lay c.vbfile c.dom c.local (z_of_int r) rep (n_of_int (conf_code conf)) pl then "ok" else "bad")
                else if r = -1 && pl = [] && String.length reply >= 20 && String.sub reply 0 20 = "35353020352e312e3120" then "ok" else "bad"
            | _ -> "bad")
       | _ -> "bad")
  | Some _ when List.hd fs = "c3" ->
      (* no descriptor may be lost: at most two are referenced by the structure, none after userconf_free() *)
      (match obs with
       | [_; heldn; after] ->
           (match int_of_string_opt heldn, int_of_string_opt after with
            | Some h, Some 0 when h >= 0 && h <= 2 -> "ok"
            | _ -> "bad")
       | ["BADCASE"] -> "pre"
       | _ -> "bad")
  | Some c when List.hd fs = "c2" -> spec_rcpt c obs
  | Some c ->
      match obs with
      | rc :: conf :: ps ->
          (match int_of_string_opt rc with
           | None -> "bad"
           | Some r ->
               let cf = (match conf with "none" | "-" -> 0 | "user" -> 1 | "domain" -> 2 | "outside" -> 3 | _ -> 9) in
               (match (try Some (List.map parse_probe ps) with Bad | Failure _ -> None) with
                | None -> "bad"
                | Some pl ->
                    if spec_ok_C13 c.db c.lay c.vbfile c.dom c.local (z_of_int r) (n_of_int cf) pl then "ok" else "bad"))
      | _ -> "bad"           (* CRASH / TIMEOUT *)

let () =
  match Sys.argv.(1) with
  | "model" -> main_loop model
  | "spec" -> main_loop (fun fs ->
      let rec split acc = function "|" :: rest -> (List.rev acc, rest) | x :: r -> split (x :: acc) r | [] -> (List.rev acc, []) in
      let (c, o) = split [] fs in spec c o)
  | _ -> prerr_endline "usage"; exit 2

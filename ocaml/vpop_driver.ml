(* model side of the vpop engine (C13); mode from argv[1]:
     model : case line -> result line in the harness' format
     spec  : <case fields> | <C result fields>  ->  ok | bad | pre
   case:  c1 <cdb> <domain> <layout> <bounce> <local> <tail>     (see harness/vpop_h.c) *)
open M

exception Bad

let ints s = ints_of_hex s
let bytes_of_ints l = List.map n_of_int l

let rec take k l = if k = 0 then [] else match l with [] -> raise Bad | x :: r -> x :: take (k - 1) r
let rec drop k l = if k = 0 then l else match l with [] -> raise Bad | _ :: r -> drop (k - 1) r

let name_ok n =
  let l = List.length n in
  l > 0 && l <= 255 && n <> [46] && n <> [46; 46] && not (List.mem 47 n) && not (List.mem 0 n)
  && n <> List.map Char.code (List.init 10 (String.get "filterconf"))

let parse_layout (s : string) : (n list * entry) list =
  let rec go l acc ninj =
    match l with
    | [] -> List.rev acc
    | [_] -> raise Bad
    | kind :: nl :: rest ->
        let nm = take nl rest in
        let rest = drop nl rest in
        if not (name_ok nm) then raise Bad;
        let nmb = bytes_of_ints nm in
        if kind = 102 then begin
          match rest with
          | [] -> raise Bad
          | cl :: rest -> let c = take cl rest in go (drop cl rest) ((nmb, EFile (bytes_of_ints c)) :: acc) ninj
        end else if kind = 100 then go rest ((nmb, EDir) :: acc) ninj
        else if kind = 101 then begin
          match rest with
          | [] -> raise Bad
          | e :: rest ->
              if ninj >= 64 then raise Bad;
              (* the harness registers an injection only for a name not seen before *)
              let seen = List.exists (fun (n, _) -> n = nmb) acc in
              go rest ((nmb, EErr (n_of_int e)) :: acc) (if seen then ninj else ninj + 1)
        end else raise Bad
  in
  go (ints s) [] 0

let parse_cdb (s : string) : (n list * domstate) list option =
  if s = "-" then None
  else if s = "65" || s = "45" then Some []
  else begin
    let rec go l acc =
      match l with
      | [] -> List.rev acc
      | [_] -> raise Bad
      | kind :: dl :: rest ->
          if List.length acc >= 64 then raise Bad;
          let d = take dl rest in
          let st = (match kind with 100 | 68 -> DomTree | 109 -> DomMissing | 102 -> DomFile | _ -> raise Bad) in
          go (drop dl rest) ((bytes_of_ints d, st) :: acc)
    in
    Some (go (ints s) [])
  end

let parse_bounce (s : string) : n list option =
  if s = "-" then None
  else match ints s with
    | 98 :: c -> Some (bytes_of_ints c)
    | _ -> raise Bad

type case = { db : (n list * domstate) list option; dom : n list; lay : (n list * entry) list;
              vbfile : n list option; local : n list }

let parse_case fs =
  match fs with
  | ["c1"; cdb; dom; lay; bnc; loc; tail] ->
      let nonul s = not (List.mem 0 (ints s)) in
      if not (nonul dom && nonul loc && nonul tail) then raise Bad;
      let lay = parse_layout lay in
      let vbfile = parse_bounce bnc in
      let db = parse_cdb cdb in
      { db; dom = bytes_of_hex dom; lay; vbfile; local = bytes_of_hex loc }
  | _ -> raise Bad

let show_probe = function
  | PDir n -> " d:" ^ hex_of_bytes n
  | PFile n -> " f:" ^ hex_of_bytes n

let model fs =
  match (try Some (parse_case fs) with Bad | Failure _ -> None) with
  | None -> "BADCASE"
  | Some c ->
      let o = user_exists c.db (fs_of_layout c.lay) (vpopbounce_of c.vbfile) c.dom c.local in
      let r = int_of_z o.rc in
      let conf = if r > 0 && r <> 5 then (if int_of_n (conf_of o) = 1 then "user" else "none") else "-" in
      string_of_int r ^ " " ^ conf ^ String.concat "" (List.map show_probe o.probes)

let parse_probe s =
  if String.length s < 3 || s.[1] <> ':' then raise Bad;
  let h = String.sub s 2 (String.length s - 2) in
  match s.[0] with
  | 'd' -> PDir (bytes_of_hex h)
  | 'f' -> PFile (bytes_of_hex h)
  | _ -> raise Bad

let spec fs obs =
  match (try Some (parse_case fs) with Bad | Failure _ -> None) with
  | None -> "pre"
  | Some c ->
      match obs with
      | rc :: conf :: ps ->
          (match int_of_string_opt rc with
           | None -> "bad"
           | Some r ->
               let cf = (match conf with "none" | "-" -> 0 | "user" -> 1 | "domain" -> 2 | "outside" -> 3 | _ -> 9) in
               (match (try Some (List.map parse_probe ps) with Bad | Failure _ -> None) with
                | None -> "bad"
                | Some pl ->
                    if spec_ok_C13 c.db c.lay c.vbfile c.dom c.local (z_of_int r) (n_of_int cf) pl then "ok" else "bad"))
      | _ -> "bad"           (* CRASH / TIMEOUT *)

let () =
  match Sys.argv.(1) with
  | "model" -> main_loop model
  | "spec" -> main_loop (fun fs ->
      let rec split acc = function "|" :: rest -> (List.rev acc, rest) | x :: r -> split (x :: acc) r | [] -> (List.rev acc, []) in
      let (c, o) = split [] fs in spec c o)
  | _ -> prerr_endline "usage"; exit 2

(* model side of the tlsverify engine (C01: tls_verify / tls_check_cert / is_authenticated).
   case:  7c <init> { <call> <clients> <subject> }...     see harness/tlsverify_h.c *)
open M

let sbyte v = if v < 128 then v else v - 256

let split_clients (l : n list) : n list list =
  let rec go cur acc = function
    | [] -> List.rev (if cur = [] then acc else List.rev cur :: acc)
    | x :: r -> if int_of_n x = 0 then go [] (if cur = [] then acc else List.rev cur :: acc) r else go (x :: cur) acc r in
  go [] [] l

let parse_subject (l : n list) =
  let rec take k l acc = if k = 0 then Some (List.rev acc, l) else match l with [] -> None | x :: r -> take (k - 1) r (x :: acc) in
  let rec go l acc = match l with
    | t :: ln :: r -> (match take (int_of_n ln) r [] with
                       | Some (d, rest) -> go rest ((t, d) :: acc)
                       | None -> List.rev acc)
    | _ -> List.rev acc in
  go l []

let parse_call a cl su =
  match ints_of_hex a with
  | [op; fl; ipbl; lm; len; ca; sid; hs; vr; peer; dup; nw] ->
      let e = { e_tls = fl land 1 = 1; e_auth = fl land 2 = 2;
                e_ipbl = (match ipbl with 0 | 1 -> Z0 | 2 -> z_of_int 1 | _ -> z_of_int (- (int_of_z tV_EDONE)));
                e_list = (match lm with 0 -> LErr (n_of_int len) | 1 -> LNull | _ -> LList (split_clients (bytes_of_hex cl)));
                e_ca = ca <> 0; e_sid = z_of_int (sbyte sid); e_hs = z_of_int (sbyte hs); e_verify = z_of_int vr;
                e_peer = (if peer <> 0 then Some (parse_subject (bytes_of_hex su)) else None);
                e_dup = dup <> 0; e_netw = z_of_int (sbyte nw) } in
      ((match op with 0 -> OpVerify | 1 -> OpIsAuth | 2 -> OpFree | _ -> raise Exit), e)
  | _ -> raise Exit

let parse fs = match fs with
  | "7c" :: init :: rest ->
      (match ints_of_hex init with
       | [rc; v] when v = 0 || v = 1 ->
           let rec go = function
             | [] -> []
             | a :: cl :: su :: r -> parse_call a cl su :: go r
             | _ -> raise Exit in
           Some ({ verified = (v = 1); tlsclient = None; relay = z_of_int rc }, go rest)
       | _ -> None)
  | _ -> None

let letters l = if l = [] then "-" else String.concat "" (List.map (fun x -> String.make 1 (Char.chr (int_of_n x))) l)

let show ((o, st), lg) =
  (match o with Ret r -> "r" ^ string_of_int (int_of_z r) | Die en -> "die" ^ string_of_int (int_of_z en)) ^ "," ^
  string_of_int (int_of_z st.relay) ^ "," ^ (if st.verified then "1" else "0") ^ "," ^
  (match st.tlsclient with None -> "null" | Some b -> hex_of_bytes b) ^ "," ^ letters lg

let model fs =
  try match parse fs with
    | None -> "BADCASE"
    | Some (st, cs) -> String.concat " " (List.map show (run cs st))
  with Exit -> "BADCASE"

let parse_obs t =
  match String.split_on_char ',' t with
  | [r; rc; v; tc; lg] ->
      let out = if String.length r > 3 && String.sub r 0 3 = "die" then Die (z_of_int (int_of_string (String.sub r 3 (String.length r - 3))))
                else if String.length r > 1 && r.[0] = 'r' then Ret (z_of_int (int_of_string (String.sub r 1 (String.length r - 1))))
                else raise Exit in
      { ob_out = out; ob_relay = z_of_int (int_of_string rc);
        ob_verified = (match v with "0" -> false | "1" -> true | _ -> raise Exit);
        ob_tlsclient = (if tc = "null" then None else Some (bytes_of_hex tc));
        ob_log = (if lg = "-" then [] else List.init (String.length lg) (fun i -> n_of_int (Char.code lg.[i]))) }
  | _ -> raise Exit

let spec fs obs =
  try match (try parse fs with Exit -> None) with
    | None -> "pre"
    | Some (st, cs) ->
        if List.mem "CRASH" obs || List.mem "TIMEOUT" obs then "bad:crash"
        else if not (pre_ok cs) then "pre"
        else if spec_ok_C01t cs st (List.map parse_obs obs) then "ok" else "bad:tlsverify"
  with Exit | Failure _ -> "bad:format"

let () =
  match Sys.argv.(1) with
  | "model" -> main_loop model
  | "spec" -> main_loop (fun fs ->
      let rec split acc = function "|" :: rest -> (List.rev acc, rest) | x :: r -> split (x :: acc) r | [] -> (List.rev acc, []) in
      let (c, o) = split [] fs in spec c o)
  | _ -> prerr_endline "usage"; exit 2

"""Generator of SMTP session histories for the `session` engine (whole-program Qsmtpd vs. Model/Session.v).

A case is a configuration plus a list of client segments sent in lock step.  All choices come from the given
random.Random.  The address / command alphabet is the one the oracle instantiation in ocaml/session_driver.ml
understands (see harness/session/runner.py:make_tree for the matching scratch configuration)."""
import runlib as R

LOCAL_OK = [b'alice@example.org', b'bob@example.org', b'list@example.org', b'any@x.sub.example.org']
# address literals: the local IP of the v4 / v6 harness configuration (accepted, written to the envelope with localiphost)
# and a foreign one (no such user)
LITERALS = [b'alice@[192.0.2.2]', b'bob@[IPv6:2001:db8::2]', b'x@[192.0.2.77]', b'x@[IPv6:2001:db8::77]']
LOCAL_NO = [b'nobody@example.org', b'carol@example.org']
REMOTE = [b'x@example.net', b'y@example.com', b'z@mail.example.net']
REMOTE_BAD = [b'x@nomx.example.net', b'x@nullmx.example.net']
SYNTAX = [b'foo', b'a@b', b'@example.org', b'a b@example.org', b'a@-', b'a@example..org']
SENDERS = [b'a@example.net', b'b@example.com', b'alice@example.org', b'']
# upper case anywhere and quoted local parts with brackets: the envelope carries the lower-cased address
MIXED_SENDERS = [b'Alice@Example.ORG', b'B@EXAMPLE.com', b'"Order[Dept]"@Shop.Example.NET', b'"x[Y]z"@EXAMPLE.NET']
MIXED_LOCAL = [b'Alice@Example.Org', b'BOB@example.org', b'List@EXAMPLE.ORG', b'Any@X.Sub.Example.Org']
MIXED_REMOTE = [b'X@Example.NET', b'"Sales[EMEA]"@Mail.Example.COM', b'Y@EXAMPLE.com', b'"q[R]"@Example.Com']


def rcpt(rng, kind=None):
    kind = kind or rng.choice(['ok', 'ok', 'ok', 'no', 'remote', 'remote', 'rbad', 'syntax', 'more', 'nobracket', 'literal'])
    if kind == 'literal': return b'RCPT TO:<' + rng.choice(LITERALS) + b'>\r\n'
    if kind == 'mixed': return b'RCPT TO:<' + rng.choice(MIXED_LOCAL + MIXED_REMOTE) + b'>\r\n'
    if kind == 'ok': return b'RCPT TO:<' + rng.choice(LOCAL_OK) + b'>\r\n'
    if kind == 'no': return b'RCPT TO:<' + rng.choice(LOCAL_NO) + b'>\r\n'
    if kind == 'remote': return b'RCPT TO:<' + rng.choice(REMOTE) + b'>\r\n'
    if kind == 'rbad': return b'RCPT TO:<' + rng.choice(REMOTE_BAD) + b'>\r\n'
    if kind == 'syntax': return b'RCPT TO:<' + rng.choice(SYNTAX) + b'>\r\n'
    if kind == 'more': return b'RCPT TO:<' + rng.choice(LOCAL_OK + REMOTE) + b'> NOTIFY=NEVER\r\n'
    return b'RCPT TO: ' + rng.choice(LOCAL_OK) + b'\r\n'


def mail(rng, kind=None):
    kind = kind or rng.choice(['ok', 'ok', 'ok', 'bounce', 'size', 'bigsize', 'body', 'unknownext', 'badext', 'syntax', 'localno', 'space'])
    s = rng.choice(SENDERS[:3])
    if kind == 'mixed': return b'MAIL FROM:<' + rng.choice(MIXED_SENDERS) + b'>\r\n'
    if kind == 'ok': return b'MAIL FROM:<' + s + b'>\r\n'
    if kind == 'bounce': return b'MAIL FROM:<>\r\n'
    if kind == 'size': return b'MAIL FROM:<' + s + b'> SIZE=' + str(rng.choice([0, 1, 100, 199, 200, 201])).encode() + b'\r\n'
    if kind == 'bigsize': return b'MAIL FROM:<' + s + b'> SIZE=' + str(rng.choice([1001, 5000, 99999999])).encode() + b'\r\n'
    if kind == 'body': return b'MAIL FROM:<' + s + b'> BODY=8BITMIME' + rng.choice([b'', b' SIZE=10']) + b'\r\n'
    if kind == 'unknownext': return b'MAIL FROM:<' + s + b'> FOO=bar\r\n'
    if kind == 'badext': return b'MAIL FROM:<' + s + b'>x\r\n'
    if kind == 'syntax': return b'MAIL FROM:<' + rng.choice(SYNTAX) + b'>\r\n'
    if kind == 'localno': return b'MAIL FROM:<nobody@example.org>\r\n'
    if kind == 'nobracket': return b'MAIL FROM:' + rng.choice([b'', b' ']) + s + b'\r\n'
    return b'MAIL FROM:  <' + s + b'>\r\n'


def body(rng, big=False):
    lines = []
    if rng.random() < 0.5:
        for _ in range(rng.choice([0, 1, 2, 3])):
            lines.append(rng.choice([b'Subject: x', b'Received: from a by b', b'X-Y: z', b'.hidden: 1', b'From: <a@example.net>']))
    if rng.random() < 0.1:
        lines += [b'Received: by hop'] * rng.choice([99, 100, 101, 102])
    if rng.random() < 0.8:
        lines.append(b'')
        for _ in range(rng.choice([0, 1, 2, 5])):
            lines.append(rng.choice([b'hello', b'', b'..', b'.leading', b'...', b'Received: in body', b'x' * rng.choice([1, 60, 150, 400]),
                                     bytes([200, 201]) + b'8bit']))
        if rng.random() < 0.08:
            lines += [b'Received: in body'] * 120
    if big:
        lines += [b'y' * 70] * rng.choice([3, 15])
    out = b''.join(l + b'\r\n' for l in lines)
    r = rng.random()
    if r < 0.06 and out:
        # anomalies: bare LF / bare CR / over-long line inside the payload
        i = rng.randrange(len(out))
        out = out[:i] + rng.choice([b'\n', b'\r', b'a\rb', b'\r.\r\n', b'\n.\n', b'z' * 1100 + b'\r\n']) + out[i:]
    return out + b'.\r\n'


def history(rng):
    chunks = []
    n = rng.choice([2, 4, 6, 8, 12, 20, 30])
    # mostly sensible sessions with disturbances
    state = 0
    for _ in range(n):
        r = rng.random()
        if r < 0.12: chunks.append(rng.choice([b'HELO c.example.net\r\n', b'EHLO c.example.net\r\n', b'EHLO c.example.net\r\n', b'HELO \r\n', b'EHLO a b\r\n', b'helo x\r\n']))
        elif r < 0.30: chunks.append(mail(rng))
        elif r < 0.58: chunks.append(rcpt(rng))
        elif r < 0.74:
            chunks.append(b'DATA\r\n'); chunks.append(body(rng, rng.random() < 0.2))
        elif r < 0.80: chunks.append(b'RSET\r\n')
        elif r < 0.84: chunks.append(b'NOOP\r\n')
        elif r < 0.87: chunks.append(rng.choice([b'VRFY x\r\n', b'AUTH PLAIN\r\n', b'STARTTLS\r\n', b'POST / HTTP/1.0\r\n', b'QUIT\r\n']))
        elif r < 0.93: chunks.append(rng.choice([b'FOO\r\n', b'RCPT\r\n', b'MAIL FROM\r\n', b'DATA x\r\n', b'\r\n', b'QUITX\r\n', b'NOOP\x80\r\n', b'a' * 600 + b'\r\n']))
        elif r < 0.97:
            # pipelined group in one segment
            chunks.append(mail(rng, 'ok') + rcpt(rng, 'ok') + rng.choice([b'', b'DATA\r\n', b'DATA\r\nNOOP\r\n', b'NOOP\r\nRSET\r\n']))
        else: chunks.append(rng.choice([b'foo\rRSET\r\n', b'bad\nNOOP\r\n', b'NO', b'OP\r\n']))
    return chunks


def config(rng):
    cfg = ['relay=' + rng.choice(['none', 'none', 'listed', 'listed', 'unlisted', 'badsize', 'badprefix', 'unreadable']),
           'ip=' + rng.choice(['v4', 'v4', 'v6']),
           'databytes=' + rng.choice(['0', '0', '200', '1000'])]
    plan = [rng.choice(['ok', 'ok', 'ok', 'exit:1', 'exit:10', 'exit:11', 'exit:31', 'exit:40', 'exit:41', 'exit:100', 'die:a:0:sig', 'die:a:0:53',
                        'die:b:0:1', 'die:m:5:sig', 'die:m:150:2', 'ce:1', 'ce:0', 'die:e:1:sig', 'ns', 'nh'])
            for _ in range(6)]
    cfg.append('qq=' + ','.join(plan))
    return ';'.join(cfg)


def case(cfg, chunks):
    return '5e ' + R.hx(cfg) + ' ' + ' '.join(R.hx(c) for c in chunks)


def sensible(rng):
    """a mostly valid session: greeting, transactions, with one disturbance"""
    chunks = [rng.choice([b'HELO c.example.net\r\n', b'EHLO c.example.net\r\n'])]
    for _ in range(rng.choice([1, 2, 3])):
        chunks.append(mail(rng, rng.choice(['ok', 'ok', 'bounce', 'size'])))
        for _ in range(rng.choice([1, 1, 2, 4])):
            chunks.append(rcpt(rng, rng.choice(['ok', 'ok', 'remote', 'no'])))
        if rng.random() < 0.3:
            chunks.insert(rng.randrange(1, len(chunks) + 1), rng.choice([b'RSET\r\n', b'EHLO again.example.net\r\n', b'HELO \r\n', b'NOOP\r\n', b'FOO\r\n']))
        chunks.append(b'DATA\r\n'); chunks.append(body(rng, rng.random() < 0.3))
        if rng.random() < 0.35:
            # carry on as if the transaction were still open (it must not be, whatever the outcome of DATA was)
            chunks.append(rcpt(rng, 'ok')); chunks.append(b'DATA\r\n'); chunks.append(body(rng))
    if rng.random() < 0.5:
        chunks.append(b'QUIT\r\n')
    return chunks


def gen(rng, n):
    out = []
    for i in range(n):
        out.append(case(config(rng), sensible(rng) if rng.random() < 0.5 else history(rng)))
    return out


# ---------------------------------------------------------------- AUTH (configuration auth=1: checkpassword stand-in, password "secret")
import base64
def auth_line(rng, kind):
    def plain(authz, user, pw): return b'AUTH PLAIN ' + base64.b64encode(authz + b'\0' + user + b'\0' + pw) + b'\r\n'
    user = rng.choice([b'alice', b'bob@example.org', b'u'])
    if kind == 'good': return plain(rng.choice([b'', b'', b'admin']), user, b'secret')
    if kind == 'wrongpw': return plain(b'', user, rng.choice([b'Secret', b'secre', b'secret1', b'x']))
    if kind == 'nopw': return rng.choice([plain(b'', user, b''), b'AUTH PLAIN ' + base64.b64encode(b'\0' + user) + b'\r\n',
                                           b'AUTH PLAIN ' + base64.b64encode(user) + b'\r\n', b'AUTH PLAIN ' + base64.b64encode(b'\0\0secret') + b'\r\n'])
    if kind == 'crash': return plain(b'', b'crash', b'secret')
    if kind == 'mech': return rng.choice([b'AUTH FOO\r\n', b'AUTH PLAINX abc\r\n', b'AUTH GSSAPI\r\n', b'AUTH PLAI\r\n'])
    if kind == 'b64': return rng.choice([b'AUTH PLAIN !!!!\r\n', b'AUTH PLAIN AGFsaWNlAHNlY3JldA\r\n'])     # not base64 / not padded
    return b'AUTH\r\n'


def auth_session(rng):
    """histories mixing EHLO/HELO, failed and successful AUTH, RSET and several transactions, aimed at the question
    'is this client entitled to relay now?'"""
    chunks = [rng.choice([b'EHLO c.example.net\r\n', b'EHLO c.example.net\r\n', b'HELO c.example.net\r\n'])]
    authed = False
    for _ in range(rng.choice([1, 2, 3])):
        for _ in range(rng.choice([0, 1, 1, 2])):
            k = rng.choice(['good', 'wrongpw', 'wrongpw', 'nopw', 'crash', 'mech', 'bare'] + (['good'] if not authed else []))
            chunks.append(auth_line(rng, k)); authed = authed or k == 'good'
        if rng.random() < 0.3: chunks.append(rng.choice([b'RSET\r\n', b'EHLO again.example.net\r\n', b'HELO again.example.net\r\n', b'NOOP\r\n']))
        if rng.random() < 0.25:
            # a greeting that is refused (blank inside the argument), then what a client may try next
            chunks.append(rng.choice([b'EHLO client example\r\n', b'HELO client example\r\n', b'EHLO a b\r\n', b'HELO \r\n']))
            if rng.random() < 0.3: chunks.append(b'STARTTLS\r\n')       # the ESMTP flag, not only the command state, guards STARTTLS
            if rng.random() < 0.7: chunks.append(rng.choice([b'RSET\r\n', b'NOOP\r\n']))
            chunks.append(auth_line(rng, rng.choice(['good', 'good', 'wrongpw'])))
        chunks.append(mail(rng, rng.choice(['ok', 'ok', 'bounce'])))
        if rng.random() < 0.15: chunks.append(auth_line(rng, 'good'))           # AUTH inside a transaction: bad sequence
        for _ in range(rng.choice([1, 2, 3])):
            chunks.append(rcpt(rng, rng.choice(['remote', 'remote', 'ok', 'rbad'])))
        chunks.append(b'DATA\r\n'); chunks.append(b'Subject: t\r\n\r\nbody\r\n.\r\n')
    return chunks




# ---------------------------------------------------------------- submission mode (configuration port=587)
# smtp_from demands is_authenticated() (AUTH on this connection or the relay list); smtp_data appends the missing ones of
# Date / From / Message-Id behind the last header line.  The generators aim at the case split of the proof: every subset of
# the three names, any order and case, duplicates (550), near misses that are NOT the field, lines starting with dots
# (not looked at), 8-bit octets in the header (550 here, as in strict mode), empty header, no body, nothing at all.
SUBM_FIELDS = [(b'Date', b'Mon, 1 Jan 2001 00:00:00 +0000'), (b'From', b'<a@example.net>'), (b'Message-Id', b'<1@c.example.net>')]
SUBM_NEAR = [b'Date', b'Dat: x', b'Date : x', b'XDate: y', b' Date: z', b'From', b'Fro: x', b'>From: a', b'Message-Id', b'Message-I: x', b'MessageId: x',
             b'Message-ID ', b'Resent-Date: x', b'Resent-From: <r@example.net>']


def _anycase(rng, name):
    k = rng.random()
    if k < 0.4: return name
    if k < 0.6: return name.upper()
    if k < 0.8: return name.lower()
    return bytes(c ^ 0x20 if chr(c).isalpha() and rng.random() < 0.5 else c for c in name)


def subm_header(rng, hidden=False):
    """header lines (as transmitted).  hidden: allow a line that hides one of the three names behind a needless leading dot
    (known finding F-C02-2: stored as the field, not seen by the header check)"""
    lines = []
    present = [f for f in SUBM_FIELDS if rng.random() < 0.5]
    rng.shuffle(present)
    for name, val in present:
        if rng.random() < 0.15:
            # folded right behind the colon: the first line is exactly the field name
            lines.append(_anycase(rng, name) + b':'); lines.append(rng.choice([b' ', b'\t']) + val)
        else:
            lines.append(_anycase(rng, name) + b':' + rng.choice([b' ', b' ', b'', b'\t']) + val)
    r = rng.random()
    if r < 0.08 and present:
        name, val = rng.choice(present)                      # duplicate: 550 "more than one"
        lines.insert(rng.randrange(len(lines) + 1), _anycase(rng, name) + b': again')
    for _ in range(rng.choice([0, 0, 1, 2, 3])):
        lines.insert(rng.randrange(len(lines) + 1),
                     rng.choice([b'Subject: s', b'Received: from a by b', b'X-Y: z', rng.choice(SUBM_NEAR), rng.choice(SUBM_NEAR),
                                 b'.dotted: 1', b'..', b'...x', b'.Subject: hidden', b'..Date: two dots', b'X-Long: ' + b'h' * rng.choice([989, 990])]))
    if rng.random() < 0.06:
        lines.insert(rng.randrange(len(lines) + 1), rng.choice([b'X-8bit: \xe4\xf6', b'Subject: caf\xe9', b'\xffDate: x']))    # 8-bit in the header: 550
    if rng.random() < 0.08:
        lines.insert(rng.randrange(len(lines) + 1), b'.\xe4 eight bit behind a dot')       # not looked at
    if hidden:
        name, val = rng.choice(SUBM_FIELDS)
        lines.insert(rng.randrange(len(lines) + 1), b'.' + _anycase(rng, name) + b': hidden')
    return lines


def subm_payload(rng, hidden=False, target=None):
    """a DATA payload for the submission port.  target: pad the body so that the server's size counter ends at this value"""
    style = rng.choice(['hdr+body', 'hdr+body', 'hdr+body', 'nobody', 'nohdr', 'empty', 'hdr+emptybody'])
    lines = []
    if style in ('hdr+body', 'nobody', 'hdr+emptybody'):
        lines += subm_header(rng, hidden)
    elif hidden:
        lines.append(b'.From: hidden')
    if style in ('hdr+body', 'nohdr', 'hdr+emptybody'):
        lines.append(b'')
    if style in ('hdr+body', 'nohdr'):
        for _ in range(rng.choice([1, 2, 4])):
            lines.append(rng.choice([b'hello', b'', b'..', b'.x', b'Date: in the body', b'From: in the body', b'Message-Id: in the body',
                                     b'\xe4 8bit body', b'y' * rng.choice([1, 70, 300])]))
    if target is not None:
        size = sum(len(l[1:] if l[:1] == b'.' else l) + 2 for l in lines)
        if b'' not in lines:
            lines.append(b''); size += 2
        if target - size - 2 >= 0 and target - size - 2 <= 990:
            lines.append(b'p' * (target - size - 2))
    return b''.join(l + b'\r\n' for l in lines) + b'.\r\n'


def subm_config(rng, entitled=None, qq=None):
    """cfg string for port 587.  entitled: 'relay' (listed in relayclients), 'auth' (backend configured), None = random incl. neither"""
    entitled = entitled if entitled is not None else rng.choice(['relay', 'auth', 'auth', 'both', 'none'])
    relay = 'listed' if entitled in ('relay', 'both') else rng.choice(['none', 'none', 'unlisted', 'badsize', 'unreadable'] if entitled == 'none' else ['none', 'unlisted'])
    cfg = ['relay=' + relay, 'ip=' + rng.choice(['v4', 'v4', 'v6']), 'port=587', 'auth=' + ('1' if entitled in ('auth', 'both') or rng.random() < 0.3 else '0'),
           'databytes=' + rng.choice(['0', '0', '0', '300', '1000']), 'check2822=' + rng.choice(['0', '0', '0', '1']),
           'qq=' + (qq or ','.join(rng.choice(['ok', 'ok', 'ok', 'ok', 'ok', 'exit:31', 'die:b:0:1', 'die:m:5:sig', 'ce:1']) for _ in range(4)))]
    return ';'.join(cfg), entitled


def subm_session(rng, hidden=False):
    """(cfg, chunks): a session on the submission port: greeting, AUTH or not, one to three transactions"""
    cfg, entitled = subm_config(rng)
    db = int(dict(kv.split('=', 1) for kv in cfg.split(';'))['databytes'])
    chunks = [rng.choice([b'EHLO c.example.net\r\n', b'EHLO c.example.net\r\n', b'HELO c.example.net\r\n'])]
    r = rng.random()
    if entitled in ('auth', 'both') and r < 0.85: chunks.append(auth_line(rng, 'good'))
    elif r < 0.3: chunks.append(auth_line(rng, rng.choice(['wrongpw', 'good', 'mech', 'crash'])))
    for _ in range(rng.choice([1, 1, 2, 3])):
        chunks.append(mail(rng, rng.choice(['ok', 'ok', 'ok', 'bounce', 'size', 'body', 'mixed', 'syntax'])))
        for _ in range(rng.choice([1, 1, 2])):
            chunks.append(rcpt(rng, rng.choice(['ok', 'ok', 'ok', 'remote', 'no'])))
        chunks.append(b'DATA\r\n')
        target = rng.choice([db - 1, db, db, db + 1, db + 2]) if db and rng.random() < 0.5 else None
        chunks.append(subm_payload(rng, hidden and rng.random() < 0.7, target))
        if rng.random() < 0.15: chunks.append(rng.choice([b'RSET\r\n', b'NOOP\r\n', auth_line(rng, 'good')]))
    if rng.random() < 0.3: chunks.append(b'QUIT\r\n')
    return cfg, chunks


def subm_gate_session(rng):
    """(cfg, chunks): aimed at 'is MAIL FROM accepted on port 587?': every kind of relay list, AUTH before / after / failed / none,
    repeated MAIL after a refusal (the cached decision), RSET, HELO/EHLO in between"""
    cfg, entitled = subm_config(rng, qq='ok,ok,ok,ok')
    chunks = [rng.choice([b'EHLO c.example.net\r\n', b'EHLO c.example.net\r\n', b'HELO c.example.net\r\n'])]
    for _ in range(rng.choice([1, 2, 3])):
        for _ in range(rng.choice([0, 0, 1, 2])):
            chunks.append(auth_line(rng, rng.choice(['good', 'good', 'wrongpw', 'nopw', 'crash', 'mech', 'bare'])))
        if rng.random() < 0.25: chunks.append(rng.choice([b'RSET\r\n', b'EHLO again.example.net\r\n', b'HELO again.example.net\r\n', b'NOOP\r\n']))
        chunks.append(mail(rng, rng.choice(['ok', 'ok', 'bounce', 'nobracket', 'syntax', 'space', 'size'])))
        if rng.random() < 0.3: chunks.append(mail(rng, 'ok'))       # again: after a refusal the cached decision answers, after an acceptance 503
        for _ in range(rng.choice([1, 2])):
            chunks.append(rcpt(rng, rng.choice(['ok', 'remote', 'remote', 'no'])))
        chunks.append(b'DATA\r\n'); chunks.append(rng.choice([b'Subject: t\r\n\r\nbody\r\n.\r\n', b'From: <x@example.net>\r\nDate: d\r\n\r\nbody\r\n.\r\n']))
    return cfg, chunks


def data_end_session(rng):
    """C05 at the level of the DATA command: where does the message end?  One or two transactions whose payload is full of
    things that look like the end marker but are not: lines that start with a dot and go on (with a NUL, with text), dots
    in the tail of an over-long line (the part behind the first buffer-full), dots right behind a stray CR or a bare LF,
    each directly behind lines of 0, 1 or 2 octets (what a reader that looks at a stale line would see), followed by lines
    that would be commands if the server had left data mode too early."""
    chunks = [rng.choice([b'EHLO c.example.net\r\n', b'EHLO c.example.net\r\n', b'HELO c.example.net\r\n'])]
    for _ in range(rng.choice([1, 1, 2])):
        chunks += [mail(rng, 'ok'), rcpt(rng, 'ok'), b'DATA\r\n']
        lines = []
        if rng.random() < 0.6:
            lines += [b'Subject: t'] + ([b''] if rng.random() < 0.7 else [])
        wellformed = rng.random() < 0.45
        for _ in range(rng.choice([1, 2, 3, 5])):
            lines.append(rng.choice([b'b', b'b', b'', b'..', b'ab', b'.x', b'x']))           # what stays behind in linein
            if wellformed:
                lines.append(rng.choice([b'.\x00', b'.\x00evil', b'a\x00b', b'.\x00.', b'..', b'. ', b'.\t', b'.' * 3, b'.x' + b'y' * 996, b'.' + b'y' * 998]))
            else:
                k = rng.choice([999, 1000, 1001, 1001, 1002, 1003, 2002, 2003, 3004])
                lines.append(rng.choice([b'X' * k + b'.', b'X' * k + b'.', b'.' + b'X' * k, b'X' * k + b'.\x00', b'X' * (k - 1) + b'\r.', b'.' * k,
                                         b'.\rNOOP', b'.x\ry', b'.\r', b'a\r.', b'.\nNOOP', b'x\n.', b'.\x00\rz', b'X' * k + b'\r\r.']))
            if rng.random() < 0.7:
                lines.append(rng.choice([b'NOOP', b'RSET', b'MAIL FROM:<x@example.net>', b'QUIT', b'NOOP', b'b']))
        payload = b''.join(l + b'\r\n' for l in lines) + b'.\r\n'
        r = rng.random()
        if r < 0.5 or wellformed:
            chunks.append(payload)
        else:
            # cut the payload (never inside the closing dot line), also directly behind a CR
            cuts = sorted(set(rng.randrange(1, len(payload) - 3) for _ in range(rng.choice([1, 2, 4]))))
            last = 0
            for c in cuts + [len(payload)]:
                chunks.append(payload[last:c]); last = c
        chunks.append(rng.choice([b'NOOP\r\n', b'RSET\r\n', b'NOOP\r\n']))
    chunks.append(b'QUIT\r\n')
    return chunks


def bounce_session(rng):
    """C08, last clause: a bounce (empty sender) never gets a second recipient - whoever the client is (authenticated by AUTH,
    relay client by IP, neither), whatever came before (an ordinary transaction with several recipients, RSET, a refused
    recipient in between) and however the recipients are mixed (local, remote)."""
    chunks = [b'EHLO c.example.net\r\n']
    if rng.random() < 0.7:
        chunks.append(auth_line(rng, rng.choice(['good', 'good', 'good', 'wrongpw'])))
    for _ in range(rng.choice([1, 2, 2, 3])):
        bounce = rng.random() < 0.75
        chunks.append(mail(rng, 'bounce' if bounce else 'ok'))
        for _ in range(rng.choice([2, 2, 3, 4])):
            chunks.append(rcpt(rng, rng.choice(['ok', 'ok', 'remote', 'no'])))
            if rng.random() < 0.1: chunks.append(b'NOOP\r\n')
        if rng.random() < 0.8:
            chunks.append(b'DATA\r\n'); chunks.append(b'Subject: t\r\n\r\nbody\r\n.\r\n')
        else:
            chunks.append(b'RSET\r\n')
    chunks.append(b'QUIT\r\n')
    return chunks

(** Bytes, C-string helpers and the result monad shared by all models.
    Definitions only (plus a handful of structural lemmas used everywhere). *)
From Coq Require Export List NArith ZArith Arith Bool Lia.
Export ListNotations.

Definition byte := N.
Definition bytes := list N.

Definition CR : N := 13%N.
Definition LF : N := 10%N.
Definition SP : N := 32%N.
Definition HT : N := 9%N.
Definition DOT : N := 46%N.
Definition DASH : N := 45%N.
Definition CRLF : list N := [CR; LF].

(** Result of running a model of C code.  [Crash] stands for undefined
    behaviour of the C (out-of-bounds access, memcpy with a wrapped length);
    [OutOfFuel] never looks like a normal value. *)
Inductive Cres (A : Type) : Type :=
| Ok (a : A)
| Crash (why : N)
| OutOfFuel.
Arguments Ok {A} a.
Arguments Crash {A} why.
Arguments OutOfFuel {A}.

Definition bind {A B} (m : Cres A) (f : A -> Cres B) : Cres B :=
  match m with
  | Ok a => f a
  | Crash w => Crash w
  | OutOfFuel => OutOfFuel
  end.
Notation "'do' x <- m ; f" := (bind m (fun x => f))
  (at level 200, x pattern, m at level 100, f at level 200).

Definition is_ok {A} (m : Cres A) : bool :=
  match m with Ok _ => true | _ => false end.

(** [sub s off n]: the [n] bytes of [s] starting at [off] (memcpy source). *)
Definition sub {A} (s : list A) (off n : nat) : list A := firstn n (skipn off s).

Definition beqb (a b : N) : bool := N.eqb a b.

Definition is_digit (b : N) : bool := (N.leb 48 b) && (N.leb b 57).
Definition is_upper (b : N) : bool := (N.leb 65 b) && (N.leb b 90).
Definition is_lower (b : N) : bool := (N.leb 97 b) && (N.leb b 122).
Definition is_alpha (b : N) : bool := is_upper b || is_lower b.
Definition is_alnum (b : N) : bool := is_alpha b || is_digit b.
Definition to_lower (b : N) : N := if is_upper b then (b + 32)%N else b.
Definition to_upper (b : N) : N := if is_lower b then (b - 32)%N else b.

Fixpoint bytes_eqb (a b : bytes) : bool :=
  match a, b with
  | [], [] => true
  | x :: a', y :: b' => N.eqb x y && bytes_eqb a' b'
  | _, _ => false
  end.

Definition ends_crlf (l : bytes) : bool :=
  match rev l with
  | 10%N :: 13%N :: _ => true
  | _ => false
  end.

Definition no_crlf_b (l : bytes) : bool :=
  forallb (fun b => negb (N.eqb b 13) && negb (N.eqb b 10)) l.

Definition clean_b (l : bytes) : bool :=
  forallb (fun b => negb (N.eqb b 13) && negb (N.eqb b 10) && negb (N.eqb b 0)) l.

Lemma bytes_eqb_eq a b : bytes_eqb a b = true <-> a = b.
Proof.
  revert b; induction a as [|x a IH]; intros [|y b]; simpl; split; try congruence; auto.
  - intros H. apply andb_true_iff in H as [H1 H2]. apply N.eqb_eq in H1. apply IH in H2. congruence.
  - intros H. inversion H; subst. rewrite N.eqb_refl. simpl. apply IH. reflexivity.
Qed.

Lemma sub_length {A} (s : list A) off n : off + n <= length s -> length (sub s off n) = n.
Proof. intros H. unfold sub. rewrite firstn_length, skipn_length. lia. Qed.

Lemma skipn_skipn' {A} (n m : nat) (l : list A) : skipn n (skipn m l) = skipn (m + n) l.
Proof.
  revert l; induction m as [|m IH]; intros l; simpl; [reflexivity|].
  destruct l as [|x l]; [now rewrite skipn_nil|]. apply IH.
Qed.

Lemma firstn_add' {A} (a b : nat) (l : list A) :
  firstn (a + b) l = firstn a l ++ firstn b (skipn a l).
Proof.
  revert l; induction a as [|a IH]; intros l; simpl; [reflexivity|].
  destruct l as [|x l]; [now rewrite firstn_nil|]. simpl. now rewrite IH.
Qed.

Lemma sub_app_skipn {A} (s : list A) off n :
  sub s off n ++ skipn (off + n) s = skipn off s.
Proof.
  unfold sub. rewrite <- skipn_skipn'. apply firstn_skipn.
Qed.

Lemma Forall_firstn {A} (P : A -> Prop) n (l : list A) : Forall P l -> Forall P (firstn n l).
Proof.
  revert l; induction n as [|n IH]; intros l H; simpl; [constructor|].
  destruct H as [|x l Hx Hl]; constructor; auto.
Qed.

Lemma Forall_skipn {A} (P : A -> Prop) n (l : list A) : Forall P l -> Forall P (skipn n l).
Proof.
  revert l; induction n as [|n IH]; intros l H; simpl; [exact H|].
  destruct H as [|x l Hx Hl]; [constructor|auto].
Qed.

Lemma Forall_sub {A} (P : A -> Prop) (s : list A) off n : Forall P s -> Forall P (sub s off n).
Proof. intros H. unfold sub. now apply Forall_firstn, Forall_skipn. Qed.

(** Types and two small string functions shared by the model of qsmtpd/auth.c
    and the statement of C09 (no proofs). *)
From Qv Require Import Common.Bytes.

(** configuration smtp_auth() looks at: a checkpassword setup was given
    (auth_host != NULL), control/forcesslauth, TLS active (xmitstat.ssl != NULL) *)
Record acfg : Type := { auth_host_set : bool; sslauth_on : bool; ssl_on : bool }.

(** result of one net_readline(64, …) call *)
Inductive rdres : Type := RdChunk (b : bytes) | RdErr (e : N).

(** a C string inside a buffer: the bytes up to the first NUL *)
Fixpoint cstr (b : bytes) : bytes :=
  match b with
  | [] => []
  | c :: b' => if N.eqb c 0 then [] else c :: cstr b'
  end.

(** strncasecmp(text, type, strlen(text)) == 0 and type[strlen(text)] is NUL or blank *)
Definition mech_match (text type : bytes) : bool :=
  let ml := length text in
  bytes_eqb (map to_lower (firstn ml (cstr type))) (map to_lower text)
  && (let c := nth ml type 0%N in N.eqb c 0 || N.eqb c SP).

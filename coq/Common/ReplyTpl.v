(** Reply templates: the data type of the generated table Gen/GenReplies.v
    (one entry per place where Qsmtpd builds a reply).  Types only. *)
From Coq Require Import List NArith.

(** where an embedded string comes from (one constructor per source class of
    tools/translators/replies.py; the meaning of each class is given there
    and, as a predicate on the string, in Spec/ReplySitesSpec.v) *)
Inductive hclass : Type :=
| HAddr | HDomain | HSpfExp | HDnsTxt | HConfText | HCodePrefix | HLineArg
| HHdrName | HB64 | HLibErr | HAuthList | HNumCRLF.

(** one element of the array handed to net_writen / net_write_multiline *)
Inductive elem : Type :=
| Lit (b : list N)
| Hole (c : hclass).

(** one call of a reply that is assembled from several calls: a literal handed to netwrite, or the
    array handed to net_writen / net_write_multiline *)
Inductive piece : Type :=
| PLit (b : list N)
| PWriten (t : list elem)
| PMulti (t : list elem).

(** What send_plain writes ([plain_enc]) is the dot-stuffed, CRLF-normalised message of
    Spec/SmtpDataSpec.v, short of the CRLF that the terminator supplies for an unterminated last
    line; and it is legal SMTP data whenever need_recode says that no recoding is needed. *)
From Qv Require Import Common.Bytes Gen.GenQrdata Model.Mime Model.QrData Model.QrDataL2 Proofs.QrMemLemmas
  Spec.SmtpDataSpec Proofs.QrPlainProofs Proofs.QrNeedRecodeProofs.
Require Import Lia.

(** does the data end in a line end (CR, LF or CRLF)? *)
Fixpoint ends_eol (m : bytes) : bool :=
  match m with
  | [] => false
  | c :: r => match r with [] => is_eol c | _ => ends_eol r end
  end.

(** is a line open (unterminated) after [m], given that one was open before iff [llen] *)
Definition open_line (llen : bool) (m : bytes) : bool :=
  match m with [] => llen | _ => negb (ends_eol m) end.

Lemma plain_enc_cons llen c r :
  plain_enc llen (c :: r) =
  if is_eol c then CR :: LF :: plain_enc false (after_eol c r)
  else if N.eqb c DOT && negb llen then DOT :: DOT :: plain_enc true r
  else c :: plain_enc true r.
Proof.
  unfold is_eol, after_eol. cbn [plain_enc].
  destruct (N.eqb_spec c CR) as [->|Hc]; cbn [orb andb].
  - destruct r as [|c2 r2]; [reflexivity|]. destruct (N.eqb c2 LF); reflexivity.
  - destruct (N.eqb c LF); [|reflexivity]. destruct r; reflexivity.
Qed.

Lemma open_line_eol c r : is_eol c = true -> open_line true (c :: r) = open_line false (after_eol c r) /\
                                              open_line false (c :: r) = open_line false (after_eol c r).
Proof.
  intros He. unfold open_line, after_eol.
  destruct r as [|c2 r2]; cbn [ends_eol]; [rewrite He; auto|].
  destruct (N.eqb c CR && N.eqb c2 LF) eqn:E.
  - apply andb_prop in E as [_ E2]. apply N.eqb_eq in E2. subst c2.
    destruct r2; [cbn; auto|auto].
  - auto.
Qed.

Lemma open_line_other llen c r : is_eol c = false -> open_line llen (c :: r) = open_line true r.
Proof.
  intros He. unfold open_line. destruct r as [|c2 r2]; cbn [ends_eol]; [now rewrite He|reflexivity].
Qed.

Definition rendering (llen : bool) (m : bytes) : bytes :=
  if llen then match split_lines m with [] => CRLF | l :: ls => l ++ CRLF ++ stuff ls end
  else stuff (split_lines m).

Lemma stuff_cons l ls : stuff (l :: ls) = stuff_line l ++ CRLF ++ stuff ls.
Proof. unfold stuff, join_crlf. cbn [map concat]. now rewrite <- app_assoc. Qed.

Lemma plain_enc_spec : forall m llen,
  plain_enc llen m ++ (if open_line llen m then CRLF else []) = rendering llen m.
Proof.
  intros m. remember (length m) as n eqn:En. revert m En.
  induction n as [n IH] using lt_wf_ind. intros m En llen.
  destruct m as [|c r].
  - destruct llen; reflexivity.
  - rewrite plain_enc_cons. unfold rendering. rewrite split_lines_cons.
    destruct (is_eol c) eqn:He.
    + pose proof (after_eol_length c r) as Hal.
      destruct (open_line_eol c r He) as [O1 O2].
      assert (IH' := IH (length (after_eol c r)) ltac:(cbn in En; lia) (after_eol c r) eq_refl false).
      unfold rendering in IH'.
      destruct llen; [rewrite O1|rewrite O2]; rewrite ?stuff_cons; cbn [stuff_line app]; rewrite <- IH'; reflexivity.
    + rewrite (open_line_other llen c r He).
      assert (IH' := IH (length r) ltac:(cbn in En; lia) r eq_refl true). unfold rendering in IH'.
      assert (Hdot : forall l, N.eqb c DOT = true -> stuff_line (c :: l) = DOT :: c :: l).
      { intros l E. cbn [stuff_line]. now rewrite E. }
      assert (Hndot : forall l, N.eqb c DOT = false -> stuff_line (c :: l) = c :: l).
      { intros l E. cbn [stuff_line]. now rewrite E. }
      destruct llen; cbn [negb andb]; rewrite ?Bool.andb_false_r, ?Bool.andb_true_r.
      * (* inside a line *)
        cbn [app]. rewrite IH'. destruct (split_lines r) as [|l ls]; reflexivity.
      * destruct (N.eqb c DOT) eqn:Ed.
        -- apply N.eqb_eq in Ed as Ed'. cbn [app]. rewrite IH'.
           destruct (split_lines r) as [|l ls]; rewrite stuff_cons, Hdot by reflexivity; subst c; reflexivity.
        -- cbn [app]. rewrite IH'.
           destruct (split_lines r) as [|l ls]; rewrite stuff_cons, Hndot by reflexivity; reflexivity.
Qed.

Lemma last_is_lf_cons x l : l <> [] -> last_is_lf (x :: l) = last_is_lf l.
Proof. intros H. apply (last_is_lf_app [x] l H). Qed.

Lemma plain_enc_nonempty llen c r : plain_enc llen (c :: r) <> [].
Proof.
  rewrite plain_enc_cons. destruct (is_eol c); [discriminate|].
  destruct (N.eqb c DOT && negb llen); discriminate.
Qed.

Lemma plain_enc_last : forall m llen, m <> [] -> last_is_lf (plain_enc llen m) = ends_eol m.
Proof.
  intros m. remember (length m) as n eqn:En. revert m En.
  induction n as [n IH] using lt_wf_ind. intros m En llen Hne.
  destruct m as [|c r]; [contradiction|]. rewrite plain_enc_cons.
  destruct (is_eol c) eqn:He.
  - pose proof (after_eol_length c r) as Hal.
    destruct (after_eol c r) as [|c' r'] eqn:Ea.
    + cbn [plain_enc]. unfold after_eol in Ea. destruct r as [|c2 r2].
      * cbn [ends_eol]. rewrite He. reflexivity.
      * destruct (N.eqb c CR && N.eqb c2 LF) eqn:E; [|discriminate]. subst r2.
        apply andb_prop in E as [_ E2]. apply N.eqb_eq in E2. subst c2. reflexivity.
    + rewrite last_is_lf_cons by discriminate. rewrite last_is_lf_cons by apply plain_enc_nonempty.
      rewrite (IH (length (c' :: r'))) by (cbn in En, Hal |- *; lia || reflexivity || discriminate).
      unfold after_eol in Ea. destruct r as [|c2 r2]; [discriminate|].
      destruct (N.eqb c CR && N.eqb c2 LF) eqn:E.
      * subst r2. cbn [ends_eol]. reflexivity.
      * rewrite <- Ea. reflexivity.
  - destruct r as [|c2 r2].
    + cbn [plain_enc ends_eol]. rewrite He.
      assert (HnLF : N.eqb c LF = false).
      { unfold is_eol in He. apply Bool.orb_false_elim in He. tauto. }
      destruct (N.eqb c DOT && negb llen) eqn:Ed.
      * apply andb_prop in Ed as [Ed _]. apply N.eqb_eq in Ed. subst c. reflexivity.
      * unfold last_is_lf. cbn. exact HnLF.
    + assert (Hrec : forall l0, last_is_lf (plain_enc l0 (c2 :: r2)) = ends_eol (c2 :: r2)).
      { intros l0. apply (IH (length (c2 :: r2))); [cbn in En |- *; lia|reflexivity|discriminate]. }
      change (ends_eol (c :: c2 :: r2)) with (ends_eol (c2 :: r2)).
      destruct (N.eqb c DOT && negb llen); rewrite ?last_is_lf_cons; try apply plain_enc_nonempty; try discriminate; apply Hrec.
Qed.

(* ------------------------------------------------------------------ the whole plain transfer *)
Lemma sub_whole (m : bytes) : sub m 0 (length m) = m.
Proof. unfold sub. cbn [skipn]. apply firstn_all. Qed.

Theorem send_data_plain (m helo : bytes) (ext8 : bool) :
  must_recode ext8 m = false ->
  exists fl st, send_data m helo ext8 = Ok (fl, false, Done tt st) /\
                concat (rev (out st)) = plain_wire m.
Proof.
  intros Hno. destruct (need_recode_decides m ext8) as (fl & Enr & _ & _ & Etq).
  rewrite Hno in Etq.
  destruct (send_plain_ok m 0 (length m) ltac:(lia) (mkSt [] true)) as (st1 & Esp & Eout & Hz & Hnz).
  rewrite sub_whole in Eout. cbn [out rev concat app] in Eout.
  exists fl, (wr st1 (if lastlf st1 then TERM_LF else TERM_NOLF)). split.
  - unfold send_data. rewrite Enr. cbn [bind]. rewrite Etq. unfold liftS. rewrite Esp. reflexivity.
  - unfold wr. cbn [out rev]. rewrite concat_app. cbn [concat]. rewrite app_nil_r, Eout.
    unfold plain_wire. change (stuff (split_lines m)) with (rendering false m). rewrite <- (plain_enc_spec m false).
    destruct m as [|c r].
    + rewrite (Hz eq_refl). reflexivity.
    + rewrite Hnz by (cbn; lia). rewrite Eout. rewrite plain_enc_last by discriminate.
      unfold open_line. destruct (ends_eol (c :: r)); cbn [negb].
      * now rewrite app_nil_r.
      * rewrite <- app_assoc. reflexivity.
Qed.

(* ------------------------------------------------------------------ legality of what the plain path sends *)
Lemma Forall_split_lines (P : N -> Prop) : forall m, Forall P m -> Forall (Forall P) (split_lines m).
Proof.
  intros m. remember (length m) as n eqn:En. revert m En.
  induction n as [n IH] using lt_wf_ind. intros m En H.
  destruct m as [|c r]; [constructor|]. rewrite split_lines_cons.
  inversion H as [|? ? Hc Hr]; subst.
  destruct (is_eol c).
  - constructor; [constructor|]. pose proof (after_eol_length c r) as Hal.
    apply (IH (length (after_eol c r))); [cbn; lia|reflexivity|].
    unfold after_eol. destruct r as [|c2 r2]; [constructor|].
    destruct (N.eqb c CR && N.eqb c2 LF); [now inversion Hr|exact Hr].
  - assert (IH' := IH (length r) ltac:(cbn; lia) r eq_refl Hr).
    destruct (split_lines r) as [|l ls]; [repeat constructor; exact Hc|].
    inversion IH'; subst. constructor; [constructor; assumption|assumption].
Qed.

Lemma split_lines_clean : forall m, Forall line_clean (split_lines m).
Proof.
  intros m. remember (length m) as n eqn:En. revert m En.
  induction n as [n IH] using lt_wf_ind. intros m En.
  destruct m as [|c r]; [constructor|]. rewrite split_lines_cons.
  destruct (is_eol c) eqn:He.
  - constructor; [constructor|]. pose proof (after_eol_length c r) as Hal.
    apply (IH (length (after_eol c r))); [cbn in En; lia|reflexivity].
  - assert (IH' := IH (length r) ltac:(cbn in En; lia) r eq_refl).
    assert (Hc : c <> CR /\ c <> LF).
    { unfold is_eol in He. apply Bool.orb_false_elim in He as [H1 H2].
      apply N.eqb_neq in H1, H2. auto. }
    destruct (split_lines r) as [|l ls]; [repeat constructor; tauto|].
    inversion IH'; subst. constructor; [constructor; assumption|assumption].
Qed.

Lemma existsb_false_Forall {A} (f : A -> bool) l : existsb f l = false -> Forall (fun x => f x = false) l.
Proof.
  induction l as [|x l IH]; cbn; [constructor|]. intros H. apply Bool.orb_false_elim in H as [H1 H2].
  constructor; auto.
Qed.

Lemma legal_stuffed (ext8 : bool) (l : bytes) :
  line_clean l -> length l <= MAXLINE -> (ext8 = false -> seven_bit l) -> legal_line ext8 (stuff_line l).
Proof.
  intros Hc Hl H7. unfold legal_line, stuff_line, counted_len.
  destruct l as [|c r]; [repeat split; [constructor|discriminate|cbn; lia|intros; constructor]|].
  destruct (N.eqb_spec c DOT) as [->|Hnd].
  - repeat split.
    + constructor; [split; discriminate|exact Hc].
    + discriminate.
    + cbn. exact Hl.
    + intros E. constructor; [reflexivity|exact (H7 E)].
  - repeat split; auto.
    + intros E. inversion E. contradiction.
    + cbn [unstuff_line]. destruct (N.eqb_spec c DOT); [contradiction|exact Hl].
Qed.

Theorem plain_data_legal (m : bytes) (ext8 : bool) :
  must_recode ext8 m = false -> legal_data ext8 (stuff (split_lines m)).
Proof.
  intros Hno. unfold must_recode in Hno. apply Bool.orb_false_elim in Hno as [H8 Hlong].
  exists (map stuff_line (split_lines m)). split; [reflexivity|].
  apply Forall_map.
  pose proof (split_lines_clean m) as Hclean.
  apply existsb_false_Forall in Hlong.
  assert (H7 : ext8 = false -> Forall seven_bit (split_lines m)).
  { intros ->. cbn [negb andb] in H8. apply existsb_false_Forall in H8.
    apply Forall_split_lines. eapply Forall_impl; [|exact H8].
    intros c Hc. unfold octet_8bit in Hc. apply Bool.orb_false_elim in Hc as [_ Hc].
    apply N.leb_gt in Hc. exact Hc. }
  rewrite Forall_forall in *. intros l Hin. apply legal_stuffed.
  - apply Hclean; exact Hin.
  - specialize (Hlong l Hin). apply Nat.ltb_ge in Hlong. exact Hlong.
  - intros E. apply (H7 E); exact Hin.
Qed.

(* ------------------------------------------------------------------ the boolean checker says what the Prop says *)
Lemma crlf_lines_aux_sound : forall d cur ls, crlf_lines_aux d cur = Some ls -> rev cur ++ d = join_crlf ls.
Proof.
  intros d. remember (length d) as n eqn:En. revert d En.
  induction n as [n IH] using lt_wf_ind. intros d En cur ls H.
  destruct d as [|c r]; cbn [crlf_lines_aux] in H.
  - destruct cur; [|discriminate]. inversion H. reflexivity.
  - destruct r as [|c2 r2]; [discriminate|].
    destruct (N.eqb c CR && N.eqb c2 LF) eqn:E.
    + destruct (crlf_lines_aux r2 []) as [ls'|] eqn:E2; [|discriminate]. inversion H; subst ls.
      apply (IH (length r2)) in E2; [|cbn in En; lia|reflexivity]. cbn [rev app] in E2.
      apply andb_prop in E as [E1 E3]. apply N.eqb_eq in E1, E3. subst c c2.
      unfold join_crlf. cbn [map concat]. fold (join_crlf ls'). rewrite <- E2.
      rewrite <- app_assoc. reflexivity.
    + apply (IH (length (c2 :: r2))) in H; [|cbn in En |- *; lia|reflexivity].
      cbn [rev] in H. rewrite <- app_assoc in H. exact H.
Qed.

Lemma legal_line_b_sound ext8 l : legal_line_b ext8 l = true -> legal_line ext8 l.
Proof.
  unfold legal_line_b, legal_line. intros H.
  apply andb_prop in H as [H H4]. apply andb_prop in H as [H H3]. apply andb_prop in H as [H1 H2].
  repeat split.
  - unfold line_clean_b in H1. rewrite forallb_forall in H1. apply Forall_forall. intros c Hc.
    specialize (H1 c Hc). apply andb_prop in H1 as [A B].
    apply Bool.negb_true_iff in A, B. apply N.eqb_neq in A, B. auto.
  - intros ->. cbn in H2. discriminate.
  - apply Nat.leb_le. exact H3.
  - intros ->. cbn [orb] in H4. unfold seven_bit_b in H4. rewrite forallb_forall in H4.
    apply Forall_forall. intros c Hc. apply N.ltb_lt. apply H4. exact Hc.
Qed.

Theorem legal_data_b_sound ext8 d : legal_data_b ext8 d = true -> legal_data ext8 d.
Proof.
  unfold legal_data_b, crlf_lines. destruct (crlf_lines_aux d []) as [ls|] eqn:E; [|discriminate].
  intros H. exists ls. split.
  - apply crlf_lines_aux_sound in E. exact E.
  - rewrite forallb_forall in H. apply Forall_forall. intros l Hl. apply legal_line_b_sound. apply H. exact Hl.
Qed.

(** vget_dir() on a well-formed users/cdb: the record "!domain-" -> realdomain NUL uid NUL gid NUL path NUL ...
    yields the path without trailing slashes plus one '/'; and user_exists() on the real file. *)
From Qv Require Import Common.Bytes Gen.GenVpop Gen.GenCdb Model.Cdb Model.Vpop Model.VpopFile Spec.CdbSpec Spec.VpopSpec
  Proofs.CdbSafe Proofs.CdbBytes Proofs.CdbLookup Proofs.VpopProofs.

Definition nonul (l : bytes) : Prop := Forall (fun b => (0 < b)%N) l.

(** a path without its trailing slashes *)
Fixpoint rstrip (l : bytes) : bytes :=
  match l with
  | [] => []
  | b :: r => match rstrip r with
              | [] => if (b =? 47)%N then [] else [b]
              | r' => b :: r'
              end
  end.

Lemma rstrip_snoc : forall l c, rstrip (l ++ [c]) = if (c =? 47)%N then rstrip l else l ++ [c].
Proof.
  induction l as [|b l IH]; intros c; simpl; [destruct (c =? 47)%N; reflexivity|].
  rewrite IH. destruct (c =? 47)%N.
  - reflexivity.
  - destruct (l ++ [c]) eqn:E; [destruct l; discriminate|reflexivity].
Qed.

Lemma rstrip_prefix : forall l, firstn (length (rstrip l)) l = rstrip l.
Proof.
  induction l as [|b l IH]; simpl; [reflexivity|].
  destruct (rstrip l) as [|x r] eqn:E.
  - destruct (b =? 47)%N; reflexivity.
  - cbn [length firstn]. f_equal. exact IH.
Qed.

Lemma rstrip_length l : length (rstrip l) <= length l.
Proof.
  induction l as [|b l IH]; simpl; [lia|]. destruct (rstrip l); [destruct (b =? 47)%N; simpl; lia|simpl in *; lia].
Qed.

(** * searching the NUL *)
Lemma nul_index_app : forall x r, nonul x -> nul_index (x ++ 0%N :: r) = Some (length x).
Proof.
  induction x as [|b x IH]; intros r H; simpl; [reflexivity|]. inversion H as [|y z Hb H']; subst.
  destruct (b =? 0)%N eqn:E; [apply N.eqb_eq in E; lia|]. now rewrite IH.
Qed.

Lemma has_skipn f o bs : has f o bs -> exists tl, skipn (N.to_nat o) f = bs ++ tl.
Proof.
  intros [_ E]. unfold sub in E. exists (skipn (length bs) (skipn (N.to_nat o) f)).
  rewrite <- E at 1. symmetry. apply firstn_skipn.
Qed.

Lemma memchr0_has f o x r : has f o (x ++ 0%N :: r) -> nonul x -> memchr0 f o = Some (o + N.of_nat (length x))%N.
Proof.
  intros H NN. unfold memchr0. destruct (has_skipn _ _ _ H) as [tl ->]. rewrite <- app_assoc. cbn [app].
  now rewrite nul_index_app.
Qed.

Lemma has_tail f o a b : has f o (a ++ b) -> has f (o + N.of_nat (length a)) b.
Proof. apply has_app_r. Qed.

(** * the trailing slashes *)
Lemma strip_spec f p path : (1 <= p)%N -> nth (N.to_nat (p - 1)) f 0%N = 0%N -> has f p path ->
  forall len, len <= length path ->
  strip_slashes f (N.of_nat (length f)) p len = Ok (length (rstrip (firstn len path))).
Proof.
  intros P1 PN H. induction len as [|len IH]; intros L.
  - cbn [strip_slashes]. destruct (p + N.of_nat 0 =? 0)%N eqn:E; [apply N.eqb_eq in E; lia|].
    destruct H as [B _]. rewrite rd_ok by lia. cbn [bind]. replace (p + N.of_nat 0 - 1)%N with (p - 1)%N by lia.
    rewrite PN. reflexivity.
  - cbn [strip_slashes]. destruct (p + N.of_nat (S len) =? 0)%N eqn:E; [apply N.eqb_eq in E; lia|].
    destruct (has_nth f p path len H ltac:(lia)) as [A Eb].
    replace (p + N.of_nat (S len) - 1)%N with (p + N.of_nat len)%N by lia.
    rewrite rd_ok by exact A. cbn [bind]. rewrite Eb.
    assert (FS : firstn (S len) path = firstn len path ++ [nth len path 0%N]).
    { clear -L. revert len L. induction path as [|b path IHp]; intros len L; simpl in L; [lia|].
      destruct len as [|len]; [reflexivity|]. cbn [firstn nth app]. f_equal. apply IHp. lia. }
    rewrite FS, rstrip_snoc. unfold CDB_STRIP. destruct (nth len path 0 =? 47)%N.
    + apply IH. lia.
    + rewrite app_length, firstn_length. simpl. f_equal. lia.
Qed.

(** * the record *)
Definition record_value (d u g path rest : bytes) : bytes :=
  d ++ 0%N :: u ++ 0%N :: g ++ 0%N :: path ++ 0%N :: rest.

Theorem parse_record_ok f off d u g path rest edone :
  has f off (record_value d u g path rest) -> nonul d -> nonul u -> nonul g -> nonul path ->
  parse_record f off edone = Ok (VPath (rstrip path ++ [47%N])).
Proof.
  intros H Nd Nu Ng Np. unfold parse_record, record_value in *. unfold CDB_NFIELDS. cbn [fields].
  rewrite (memchr0_has f off d _ H Nd).
  change (d ++ 0%N :: u ++ 0%N :: g ++ 0%N :: path ++ 0%N :: rest) with (d ++ [0%N] ++ (u ++ 0%N :: g ++ 0%N :: path ++ 0%N :: rest)) in H.
  apply has_tail in H. apply has_tail in H. cbn [length] in H.
  replace (off + N.of_nat (length d) + N.of_nat 1)%N with (off + N.of_nat (length d) + 1)%N in H by lia.
  rewrite (memchr0_has f _ u _ H Nu).
  change (u ++ 0%N :: g ++ 0%N :: path ++ 0%N :: rest) with (u ++ [0%N] ++ (g ++ 0%N :: path ++ 0%N :: rest)) in H.
  apply has_tail in H. apply has_tail in H. cbn [length] in H.
  set (p2 := (off + N.of_nat (length d) + 1 + N.of_nat (length u))%N) in *.
  replace (p2 + N.of_nat 1)%N with (p2 + 1)%N in H by lia.
  rewrite (memchr0_has f _ g _ H Ng).
  change (g ++ 0%N :: path ++ 0%N :: rest) with (g ++ [0%N] ++ (path ++ 0%N :: rest)) in H.
  pose proof (has_tail _ _ _ _ H) as HZ. apply has_app_l in HZ.
  apply has_tail in H. apply has_tail in H. cbn [length] in H.
  set (p3 := (p2 + 1 + N.of_nat (length g))%N) in *.
  replace (p3 + N.of_nat 1)%N with (p3 + 1)%N in H by lia.
  rewrite (memchr0_has f _ path _ H Np).
  replace (p3 + 1 + N.of_nat (length path) - (p3 + 1))%N with (N.of_nat (length path)) by lia. rewrite Nat2N.id.
  pose proof (has_app_l _ _ _ _ H) as HP.
  rewrite (strip_spec f (p3 + 1)%N path); [|lia| |exact HP|lia].
  2:{ replace (p3 + 1 - 1)%N with p3 by lia. destruct (has_nth f p3 [0%N] 0 HZ) as [_ E]; [simpl; lia|].
      replace (p3 + N.of_nat 0)%N with p3 in E by lia. exact E. }
  cbn [bind]. rewrite firstn_all. unfold CDB_APPEND.
  assert (X : firstn (length (rstrip path)) (skipn (N.to_nat (p3 + 1)) f) = rstrip path).
  { destruct (has_skipn _ _ _ HP) as [tl ->]. rewrite firstn_app.
    replace (length (rstrip path) - length path) with 0 by (pose proof (rstrip_length path); lia).
    simpl. rewrite app_nil_r. apply rstrip_prefix. }
  rewrite X. reflexivity.
Qed.

(** * vget_dir() on the real file *)
Definition domain_key (domain : bytes) : bytes := 33%N :: domain ++ [45%N].      (* "!" domain "-" *)

Lemma domain_key_ascii domain : ascii_key domain -> ascii_key (domain_key domain).
Proof.
  intros A. unfold domain_key, ascii_key. constructor; [lia|]. apply Forall_app. split; [exact A|].
  constructor; [lia|constructor].
Qed.

Theorem vget_dir_real_found f recs domain d u g path rest :
  cdb_wf f recs -> ascii_key domain -> length domain + 3 < VP_CDBKEY ->
  lookup recs (domain_key domain) = Some (record_value d u g path rest) ->
  nonul d -> nonul u -> nonul g -> nonul path ->
  vget_dir_real (Some f) domain = Ok (VPath (rstrip path ++ [47%N])).
Proof.
  intros W A L Lk Nd Nu Ng Np. unfold vget_dir_real, vget_dir_file.
  replace (VP_CDBKEY <=? length domain + 2 + 1) with false by (symmetry; apply Nat.leb_gt; lia).
  change (VP_KEY_FIRST :: domain ++ [VP_KEY_LAST]) with (domain_key domain).
  pose proof (cdb_lookup_correct f recs (domain_key domain) W (domain_key_ascii _ A)) as C. rewrite Lk in C.
  destruct C as [off [-> [H _]]]. cbn [bind]. now apply parse_record_ok with (d := d) (u := u) (g := g) (rest := rest).
Qed.

Theorem vget_dir_real_absent f recs domain :
  cdb_wf f recs -> ascii_key domain -> lookup recs (domain_key domain) = None ->
  vget_dir_real (Some f) domain = Ok VNone \/ exists rc, (rc < 0)%Z /\ vget_dir_real (Some f) domain = Ok (VErr rc).
Proof.
  intros W A Lk. unfold vget_dir_real, vget_dir_file.
  destruct (VP_CDBKEY <=? length domain + 2 + 1); [right; eexists; split; [|reflexivity]; reflexivity|].
  change (VP_KEY_FIRST :: domain ++ [VP_KEY_LAST]) with (domain_key domain).
  pose proof (cdb_lookup_correct f recs (domain_key domain) W (domain_key_ascii _ A)) as C. rewrite Lk in C.
  rewrite C. cbn [bind]. left. reflexivity.
Qed.

(** * user_exists() on the real file *)
Lemma user_exists_with_tree fs vb local :
  user_exists_with (inr (Some DomTree)) fs vb local = user_exists (Some [([], DomTree)]) fs vb [] local.
Proof. reflexivity. Qed.

Lemma tree_found : domain_found (Some [([], DomTree)]) [].
Proof.
  split; [apply Nat.ltb_lt; reflexivity|]. eexists. split; [reflexivity|]. exists [], []. split; [reflexivity|constructor].
Qed.

Theorem user_exists_file_sound f recs pathfs fs vb domain local d u g path rest :
  cdb_wf f recs -> ascii_key domain -> length domain + 3 < VP_CDBKEY ->
  lookup recs (domain_key domain) = Some (record_value d u g path rest) ->
  nonul d -> nonul u -> nonul g -> nonul path ->
  pathfs (rstrip path ++ [47%N]) = DomTree ->
  exists o, user_exists_file (Some f) pathfs fs vb domain local = Ok o /\
    (0 < rc o -> mailbox fs vb local /\ code_form fs vb local (rc o))%Z /\
    (rc o = 0%Z -> ~ mailbox fs vb local) /\
    (rc o < 0 -> io_error fs vb local)%Z.
Proof.
  intros W A L Lk Nd Nu Ng Np PT. unfold user_exists_file.
  destruct (refused local) eqn:R.
  - eexists. split; [reflexivity|]. apply refused_true in R. simpl. split; [lia|]. split; [|lia]. intros _ [C _]. contradiction.
  - rewrite (vget_dir_real_found f recs domain d u g path rest W A L Lk Nd Nu Ng Np). cbn [bind vg_of]. rewrite PT.
    eexists. split; [reflexivity|]. rewrite user_exists_with_tree. apply (user_exists_sound _ fs vb [] local tree_found).
Qed.

Theorem user_exists_file_safe file pathfs fs vb domain local :
  exists o, user_exists_file file pathfs fs vb domain local = Ok o /\
    confined (probes o) /\
    (forall n, userdir o = Some n -> n = local /\ component local /\ fs local = EDir).
Proof.
  unfold user_exists_file. destruct (refused local).
  - eexists. split; [reflexivity|]. simpl. split; [constructor|discriminate].
  - unfold vget_dir_real. destruct (vget_dir_file_safe VP_CDBKEY VP_KEY_FIRST VP_KEY_LAST (- Z.of_N VP_EFAULT)
      (- Z.of_N VP_ENOMEM) (- Z.of_N VP_EDONE) file domain) as [v ->]. cbn [bind].
    eexists. split; [reflexivity|]. apply user_exists_with_confined.
Qed.

(** user_exists() with an already filled struct userconf: the answer is the one a fresh structure gives, and
    no descriptor is lost (every descriptor opened is either closed or still referenced by the structure). *)
From Qv Require Import Common.Bytes Gen.GenVpop Gen.GenCdb Model.Cdb Model.Vpop Model.VpopFile Model.VpopDs.

(** a stored path is empty or ends with the '/' vget_dir() appends *)
Definition ds_ok (s : dsst) : Prop := d_path s = [] \/ exists x, d_path s = x ++ [CDB_APPEND].
Definition path_ok (v : vres) : Prop := forall p, v = VPath p -> exists x, p = x ++ [CDB_APPEND].

Lemma firstn_snoc {A} (x : list A) (a : A) : firstn (length (x ++ [a]) - 1) (x ++ [a]) = x.
Proof.
  rewrite app_length. simpl. replace (length x + 1 - 1) with (length x) by lia.
  rewrite firstn_app, Nat.sub_diag, firstn_all. simpl. now rewrite app_nil_r.
Qed.

Lemma same_path_eq s p : ds_ok s -> (exists x, p = x ++ [CDB_APPEND]) -> same_path s p = true -> d_path s = p.
Proof.
  intros [E|[y E]] [x ->] H; unfold same_path in H; apply andb_true_iff in H as [HL HE]; apply Nat.eqb_eq in HL.
  - rewrite E in HL. rewrite app_length in HL. simpl in HL. lia.
  - rewrite E in *. apply bytes_eqb_eq in HE. rewrite HL in HE at 1. rewrite !firstn_snoc in HE. now subst.
Qed.

Lemma vget_ds_path s p : ds_ok s -> (exists x, p = x ++ [CDB_APPEND]) -> d_path (fst (vget_ds s p)) = p.
Proof.
  intros O P. unfold vget_ds. destruct (same_path s p) eqn:E; [|reflexivity]. simpl. now apply same_path_eq.
Qed.

Theorem user_exists_ds_outcome s v pathfs fs vb local : ds_ok s -> path_ok v ->
  fst (fst (user_exists_ds s v pathfs fs vb local)) = user_exists_with (vg_of pathfs v) fs vb local.
Proof.
  intros O P. unfold user_exists_ds, user_exists_with. destruct (refused local) eqn:R; [reflexivity|].
  destruct v as [rc| |p]; try reflexivity.
  pose proof (vget_ds_path s p O (P p eq_refl)) as E. destruct (vget_ds s p) as [s1 ev1]. simpl in E. rewrite E.
  cbn [vg_of].
  destruct (dom_errno (pathfs p)) as [e|].
  - destruct (0 <? rc _)%Z; reflexivity.
  - destruct (0 <? rc _)%Z; reflexivity.
Qed.

Fixpoint opens (ev : list fdev) : nat := match ev with [] => 0 | EvOpen :: r => S (opens r) | EvClose :: r => opens r end.
Fixpoint closes (ev : list fdev) : nat := match ev with [] => 0 | EvClose :: r => S (closes r) | EvOpen :: r => closes r end.

Lemma opens_app a b : opens (a ++ b) = opens a + opens b.
Proof. induction a as [|[|] a IH]; simpl; lia. Qed.
Lemma closes_app a b : closes (a ++ b) = closes a + closes b.
Proof. induction a as [|[|] a IH]; simpl; lia. Qed.
Lemma opens_repeat n : opens (repeat EvClose n) = 0.
Proof. induction n; simpl; lia. Qed.
Lemma closes_repeat n : closes (repeat EvClose n) = n.
Proof. induction n; simpl; lia. Qed.

(** every descriptor opened during the call is closed again or referenced by the structure afterwards; the
    structure never references more than two *)
Theorem user_exists_ds_no_leak s v pathfs fs vb local :
  let r := user_exists_ds s v pathfs fs vb local in
  opens (snd r) + held s = closes (snd r) + held (snd (fst r)) /\ held (snd (fst r)) <= 2.
Proof.
  assert (H2 : forall x, held x <= 2) by (intros [p [|] [|]]; unfold held; simpl; lia).
  cbv zeta. split; [|apply H2]. unfold user_exists_ds. destruct (refused local); [simpl; lia|].
  destruct v as [rc| |p]; try (simpl; lia).
  assert (V : opens (snd (vget_ds s p)) + held s = closes (snd (vget_ds s p)) + held (fst (vget_ds s p))
              /\ held (fst (vget_ds s p)) = 0).
  { unfold vget_ds. destruct (same_path s p); simpl; rewrite opens_repeat, closes_repeat; unfold held; simpl; lia. }
  destruct (vget_ds s p) as [s1 ev1]. simpl in V. destruct V as [V V0].
  set (o := user_exists_with (inr (Some (pathfs (d_path s1)))) fs vb local).
  destruct (dom_errno (pathfs (d_path s1))) as [e|].
  - destruct (0 <? rc o)%Z; simpl; unfold held in *; simpl; lia.
  - destruct (0 <? rc o)%Z; cbn [fst snd].
    + rewrite opens_app, closes_app. destruct (userdir o); unfold held in *; simpl; lia.
    + rewrite !opens_app, !closes_app, opens_repeat, closes_repeat. destruct (userdir o); unfold held in *; simpl; lia.
Qed.

Theorem user_exists_ds_ok s v pathfs fs vb local : ds_ok s -> path_ok v ->
  ds_ok (snd (fst (user_exists_ds s v pathfs fs vb local))).
Proof.
  intros O P. unfold user_exists_ds. destruct (refused local); [exact O|].
  destruct v as [rc| |p]; try exact O.
  pose proof (vget_ds_path s p O (P p eq_refl)) as E. destruct (vget_ds s p) as [s1 ev1]. simpl in E.
  assert (O1 : ds_ok s1) by (right; rewrite E; exact (P p eq_refl)).
  destruct (dom_errno (pathfs (d_path s1))); destruct (0 <? rc _)%Z; cbn [fst snd]; try exact O1; try (left; reflexivity).
  all: right; simpl; rewrite E; exact (P p eq_refl).
Qed.

(** Proofs about the literal array model (Model/LoadListArr.v): the in-place
    compact_buffer computes [cat (pieces region)] without leaving the block; the
    counting loop with a check callback blanks exactly the rejected entries;
    data_array + the pointer loop produce a block whose pointers address exactly the
    kept entries, each NUL-terminated inside the block. *)
From Qv Require Import Common.Bytes Gen.GenControl Model.LoadFile Model.LoadListArr Spec.ControlSpec
  Proofs.FindDomainProofs Proofs.LoadFileProofs.

Definition nonul (s : bytes) : Prop := Forall (fun b => b <> 0%N) s.

(** ------------------------------------------------------------ array access *)
Lemma aget_app (pre rest : bytes) :
  aget (pre ++ rest) (length pre) = match rest with b :: _ => Ok b | [] => Crash 30 end.
Proof.
  unfold aget. rewrite nth_error_app2 by lia. rewrite Nat.sub_diag. destruct rest; reflexivity.
Qed.

Lemma aset_app (pre : bytes) (x : N) (rest : bytes) (v : N) :
  aset (pre ++ x :: rest) (length pre) v = Ok (pre ++ v :: rest).
Proof.
  unfold aset. rewrite app_length. cbn [length].
  replace (Nat.ltb (length pre) (length pre + S (length rest))) with true by (symmetry; apply Nat.ltb_lt; lia).
  rewrite firstn_app, firstn_all, Nat.sub_diag. cbn [firstn]. rewrite app_nil_r.
  rewrite skipn_app, skipn_all2 by lia. replace (S (length pre) - length pre) with 1 by lia. reflexivity.
Qed.

Lemma strnlen_at_spec : forall (seg pre rest : bytes) (n : nat),
  nonul seg ->
  (length seg = n \/ (length seg < n /\ exists r, rest = 0%N :: r)) ->
  strnlen_at (pre ++ seg ++ rest) (length pre) n = Ok (length seg).
Proof.
  induction seg as [|b s IH]; intros pre rest n Hnz Hn.
  - cbn [app length]. destruct Hn as [<- | [Hlt (r & ->)]]; [reflexivity|].
    destruct n; [lia|]. cbn [strnlen_at]. rewrite aget_app. reflexivity.
  - inversion Hnz as [|? ? Hb Hs]; subst. destruct n as [|n]; [cbn in Hn; destruct Hn as [?|[? ?]]; lia|].
    cbn [strnlen_at app]. rewrite aget_app. apply N.eqb_neq in Hb. cbn [bind]. rewrite Hb.
    replace (pre ++ b :: s ++ rest) with ((pre ++ [b]) ++ s ++ rest) by (rewrite <- app_assoc; reflexivity).
    replace (S (length pre)) with (length (pre ++ [b])) by (rewrite app_length; cbn [length]; lia).
    rewrite IH; [reflexivity|assumption|]. cbn [length] in Hn. destruct Hn as [Hn|[Hn Hr]]; [left; lia|right; split; [lia|assumption]].
Qed.

Lemma strlen_at_spec : forall (seg pre rest : bytes) (fuel : nat),
  nonul seg -> length seg < fuel ->
  strlen_at fuel (pre ++ seg ++ 0%N :: rest) (length pre) = Ok (length seg).
Proof.
  induction seg as [|b s IH]; intros pre rest fuel Hnz Hf.
  - destruct fuel; [lia|]. cbn [strlen_at app]. rewrite aget_app. reflexivity.
  - inversion Hnz as [|? ? Hb Hs]; subst. destruct fuel as [|fuel]; [lia|].
    cbn [strlen_at app]. rewrite aget_app. apply N.eqb_neq in Hb. cbn [bind]. rewrite Hb.
    replace (pre ++ b :: s ++ 0%N :: rest) with ((pre ++ [b]) ++ s ++ 0%N :: rest) by (rewrite <- app_assoc; reflexivity).
    replace (S (length pre)) with (length (pre ++ [b])) by (rewrite app_length; cbn [length]; lia).
    rewrite IH; [reflexivity|assumption|cbn in Hf; lia].
Qed.

Lemma skip_zeros_stop (fuel : nat) (a : bytes) (j oldlen : nat) :
  oldlen <= j -> skip_zeros (S fuel) a j oldlen = Ok j.
Proof. intros H. cbn [skip_zeros]. replace (Nat.ltb j oldlen) with false by (symmetry; apply Nat.ltb_ge; lia). reflexivity. Qed.

Lemma skip_zeros_spec : forall (z : nat) (pre rest : bytes) (fuel oldlen : nat),
  z < fuel -> length pre + z <= oldlen ->
  (length pre + z = oldlen \/ exists x r, rest = x :: r /\ x <> 0%N) ->
  skip_zeros fuel (pre ++ repeat 0%N z ++ rest) (length pre) oldlen = Ok (length pre + z).
Proof.
  induction z as [|z IH]; intros pre rest fuel oldlen Hf Hle Hstop.
  - destruct fuel; [lia|]. cbn [repeat app skip_zeros]. rewrite Nat.add_0_r in *.
    destruct Hstop as [He|(x & r & -> & Hx)].
    + replace (Nat.ltb (length pre) oldlen) with false by (symmetry; apply Nat.ltb_ge; lia). reflexivity.
    + destruct (Nat.ltb (length pre) oldlen); [|reflexivity].
      rewrite aget_app. cbn [bind]. apply N.eqb_neq in Hx. rewrite Hx. reflexivity.
  - destruct fuel as [|fuel]; [lia|]. cbn [repeat app skip_zeros].
    replace (Nat.ltb (length pre) oldlen) with true by (symmetry; apply Nat.ltb_lt; lia).
    rewrite aget_app. cbn [bind N.eqb].
    replace (pre ++ 0%N :: repeat 0%N z ++ rest) with ((pre ++ [0%N]) ++ repeat 0%N z ++ rest) by (rewrite <- app_assoc; reflexivity).
    replace (S (length pre)) with (length (pre ++ [0%N])) by (rewrite app_length; cbn [length]; lia).
    rewrite IH; rewrite ?app_length; cbn [length]; try lia.
    + f_equal. lia.
    + destruct Hstop as [He|Hx]; [left; lia|right; assumption].
Qed.

(** ------------------------------------------------------------ list decompositions *)
(** the maximal NUL-free prefix *)
Lemma nul_split (l : bytes) : exists seg t, l = seg ++ t /\ nonul seg /\ (t = [] \/ exists r, t = 0%N :: r).
Proof.
  induction l as [|b l IH].
  - exists [], []. repeat split; [constructor|now left].
  - destruct (N.eq_dec b 0) as [->|Hb].
    + exists [], (0%N :: l). repeat split; [constructor|right; eauto].
    + destruct IH as (seg & t & -> & Hs & Ht). exists (b :: seg), t. repeat split; [constructor; assumption|assumption].
Qed.

(** leading zeros *)
Lemma zero_split (l : bytes) : exists z t, l = repeat 0%N z ++ t /\ (t = [] \/ exists x r, t = x :: r /\ x <> 0%N).
Proof.
  induction l as [|b l IH].
  - exists 0, []. split; [reflexivity|now left].
  - destruct (N.eq_dec b 0) as [->|Hb].
    + destruct IH as (z & t & -> & Ht). exists (S z), t. split; [reflexivity|assumption].
    + exists 0, (b :: l). split; [reflexivity|right; eauto].
Qed.

Lemma nonul_is_nul (s : bytes) : nonul s -> Forall (fun b => is_nul b = false) s.
Proof. intros H. eapply Forall_impl; [|exact H]. intros b Hb. now apply N.eqb_neq. Qed.

(** ------------------------------------------------------------ the compaction loop *)
(** the region [firstn n rest] can be walked without leaving [rest] *)
Definition walkable (n : nat) (rest : bytes) : Prop :=
  n = 0 \/ n < length rest \/ (n = length rest /\ exists r0, rest = r0 ++ [0%N]).

Lemma walkable_skip (n c : nat) (rest : bytes) :
  walkable n rest -> c <= n -> walkable (n - c) (skipn c rest).
Proof.
  intros [->|[H|[H (r0 & E)]]] Hc.
  - left. lia.
  - right. left. rewrite skipn_length. lia.
  - destruct (Nat.eq_dec c n) as [->|Hne]; [left; lia|].
    right. right. rewrite skipn_length. split; [lia|].
    subst rest. rewrite app_length in H. cbn in H.
    exists (skipn c r0). rewrite skipn_app. replace (c - length r0) with 0 by lia. reflexivity.
Qed.

Lemma compact_loop_inv : forall (fuel : nat) (D mid rest : bytes) (oldlen : nat),
  let j := length D + length mid in
  (j < oldlen -> exists x r, rest = x :: r /\ x <> 0%N) ->
  walkable (oldlen - j) rest ->
  oldlen - j < fuel ->
  let C := cat (pieces (firstn (oldlen - j) rest)) in
  exists a', compact_loop fuel (D ++ mid ++ rest) j (length D) oldlen = Ok (a', length D + length C) /\
             firstn (length D + length C) a' = D ++ C /\
             length a' = length (D ++ mid ++ rest).
Proof.
  induction fuel as [|fuel IH]; intros D mid rest oldlen j Hnz Hw Hf C; [lia|].
  cbn [compact_loop].
  destruct (Nat.ltb j oldlen) eqn:Ej.
  2:{ apply Nat.ltb_ge in Ej. subst C. replace (oldlen - j) with 0 by lia. cbn [firstn].
      change (cat (pieces [])) with (@nil N). cbn [length]. rewrite Nat.add_0_r, app_nil_r.
      exists (D ++ mid ++ rest). repeat split. rewrite firstn_app, firstn_all, Nat.sub_diag. cbn [firstn]. now rewrite app_nil_r. }
  apply Nat.ltb_lt in Ej. remember (oldlen - j) as n eqn:Hndef.
  destruct (Hnz Ej) as (x0 & r0 & Erest & Hx0).
  (* the first string of the region *)
  destruct (nul_split (firstn n rest)) as (seg & t & Ereg & Hseg & Ht).
  assert (Hsl : length seg <= n).
  { apply (f_equal (@length N)) in Ereg. rewrite firstn_length, app_length in Ereg. lia. }
  assert (Erest' : rest = seg ++ skipn (length seg) rest).
  { rewrite <- (firstn_skipn (length seg) rest) at 1. f_equal.
    apply (f_equal (firstn (length seg))) in Ereg. rewrite firstn_firstn, Nat.min_l in Ereg by lia.
    rewrite Ereg, firstn_app, firstn_all, Nat.sub_diag. cbn [firstn]. now rewrite app_nil_r. }
  assert (Hsegne : seg <> []).
  { intros ->. cbn in Ereg. destruct Ht as [->|(r & ->)].
    - apply (f_equal (@length N)) in Ereg. rewrite firstn_length in Ereg. subst rest. cbn in Ereg. lia.
    - subst rest. destruct n; [lia|]. cbn in Ereg. congruence. }
  (* the byte behind it exists *)
  assert (Hx : exists x rest2, skipn (length seg) rest = x :: rest2 /\ (length seg < n -> x = 0%N)).
  { destruct (skipn (length seg) rest) as [|x rest2] eqn:Es.
    - exfalso. assert (Hl : length rest = length seg) by (rewrite Erest' at 1; rewrite app_length; cbn [length]; lia).
      assert (Hn : n >= length rest) by lia.
      destruct Hw as [Hw|[Hw|[Hw (q & Eq)]]]; try lia.
      rewrite Erest', app_nil_r in Eq. rewrite Eq in Hseg. apply Forall_app in Hseg as [_ Hz].
      inversion Hz; congruence.
    - exists x, rest2. split; [reflexivity|]. intros Hlt.
      destruct Ht as [->|(r & ->)].
      + apply (f_equal (@length N)) in Ereg. rewrite firstn_length, app_nil_r in Ereg.
        assert (length rest > length seg) by (rewrite Erest' at 1; rewrite app_length; cbn [length]; lia). lia.
      + apply (f_equal (skipn (length seg))) in Ereg.
        rewrite skipn_app, skipn_all, Nat.sub_diag in Ereg. cbn [skipn app] in Ereg.
        rewrite skipn_firstn_comm, Es in Ereg. destruct (n - length seg) eqn:En; [lia|]. cbn in Ereg. congruence. }
  destruct Hx as (x & rest2 & Es & Hxz). rewrite Es in Erest'.
  (* strnlen *)
  assert (Hstrn : strnlen_at (D ++ mid ++ rest) j n = Ok (length seg)).
  { rewrite Erest'. replace (D ++ mid ++ seg ++ x :: rest2) with ((D ++ mid) ++ seg ++ x :: rest2) by now rewrite <- app_assoc.
    unfold j. rewrite <- app_length. apply strnlen_at_spec; [assumption|].
    destruct (Nat.eq_dec (length seg) n); [left; assumption|right]. split; [lia|].
    exists rest2. rewrite Hxz by lia. reflexivity. }
  rewrite Hstrn. cbn [bind].
  (* memmove + terminator *)
  assert (Hmv : exists mid2, length mid2 = length mid /\ forall (F : bytes -> Cres (bytes * nat)),
            (do a1 <- (if Nat.eqb j (length D) then Ok (D ++ mid ++ rest) else memmove_at (D ++ mid ++ rest) (length D) j (length seg));
             do a2 <- aset a1 (length D + length seg) 0%N; F a2) = F ((D ++ seg ++ [0%N]) ++ mid2 ++ rest2)).
  { destruct mid as [|m0 mid'].
    - exists []. split; [reflexivity|]. intros F. unfold j. cbn [length]. rewrite Nat.add_0_r, Nat.eqb_refl. cbn [bind app].
      rewrite Erest'. replace (D ++ seg ++ x :: rest2) with ((D ++ seg) ++ x :: rest2) by now rewrite <- app_assoc.
      rewrite <- app_length, aset_app. cbn [bind]. rewrite <- !app_assoc. reflexivity.
    - replace (Nat.eqb j (length D)) with false by (symmetry; apply Nat.eqb_neq; unfold j; cbn [length]; lia).
      set (W := (m0 :: mid') ++ seg).
      assert (HW : exists M', skipn (length seg) W = hd 0%N (skipn (length seg) W) :: M' /\ length M' = length mid').
      { assert (Hl : length (skipn (length seg) W) = S (length mid')) by (rewrite skipn_length; unfold W; rewrite app_length; cbn [length]; lia).
        destruct (skipn (length seg) W) as [|w M']; [discriminate|]. exists M'. split; [reflexivity|]. cbn [length] in Hl. lia. }
      destruct HW as (M' & EM & HM'). set (w := hd 0%N (skipn (length seg) W)) in *.
      exists (M' ++ [x]). split; [rewrite app_length; cbn [length]; lia|]. intros F.
      unfold memmove_at. rewrite Erest'.
      assert (Ea : D ++ (m0 :: mid') ++ seg ++ x :: rest2 = D ++ W ++ x :: rest2) by (unfold W; now rewrite <- app_assoc).
      rewrite Ea.
      replace (Nat.leb (j + length seg) (length (D ++ W ++ x :: rest2))) with true
        by (symmetry; apply Nat.leb_le; unfold j, W; rewrite ?app_length; cbn [length]; rewrite ?app_length; cbn [length]; lia).
      replace (Nat.leb (length D + length seg) (length (D ++ W ++ x :: rest2))) with true
        by (symmetry; apply Nat.leb_le; unfold W; rewrite ?app_length; cbn [length]; rewrite ?app_length; cbn [length]; lia).
      cbn [andb bind].
      (* the three parts of memmove *)
      assert (E1 : firstn (length D) (D ++ W ++ x :: rest2) = D)
        by (rewrite firstn_app, firstn_all, Nat.sub_diag; cbn [firstn]; now rewrite app_nil_r).
      assert (E2 : firstn (length seg) (skipn j (D ++ W ++ x :: rest2)) = seg).
      { unfold j. rewrite skipn_app, skipn_all2 by lia. cbn [app].
        replace (length D + length (m0 :: mid') - length D) with (length (m0 :: mid')) by lia.
        unfold W. rewrite <- app_assoc, skipn_app, skipn_all, Nat.sub_diag. cbn [skipn app].
        rewrite firstn_app, firstn_all, Nat.sub_diag. cbn [firstn]. now rewrite app_nil_r. }
      assert (E3 : skipn (length D + length seg) (D ++ W ++ x :: rest2) = skipn (length seg) W ++ x :: rest2).
      { rewrite skipn_app, skipn_all2 by lia. cbn [app].
        replace (length D + length seg - length D) with (length seg) by lia.
        rewrite skipn_app. replace (length seg - length W) with 0 by (unfold W; rewrite app_length; lia). reflexivity. }
      rewrite E1, E2, E3, EM.
      replace (D ++ seg ++ (w :: M') ++ x :: rest2) with ((D ++ seg) ++ w :: (M' ++ x :: rest2)) by now rewrite <- !app_assoc.
      rewrite <- app_length, aset_app. cbn [bind]. rewrite <- !app_assoc. reflexivity. }
  destruct Hmv as (mid2 & Hm2 & Emv).
  rewrite Emv. clear Emv.
  set (D' := D ++ seg ++ [0%N]).
  assert (HD' : length D' = length D + length seg + 1) by (unfold D'; rewrite !app_length; cbn [length]; lia).
  assert (Hj1 : j + length seg + 1 = length D' + length mid2) by (unfold j; lia).
  assert (Hlen2 : length (D' ++ mid2 ++ rest2) = length (D ++ mid ++ rest)).
  { rewrite Erest'. rewrite !app_length. cbn [length]. rewrite HD'. lia. }
  assert (Hwl : n <= length rest) by (destruct Hw as [?|[?|[? _]]]; lia).
  assert (Hr2l : length rest = length seg + 1 + length rest2) by (rewrite Erest' at 1; rewrite app_length; cbn [length]; lia).
  (* pieces of the region *)
  assert (Hpieces : pieces (firstn n rest) = seg :: pieces (firstn (n - (length seg + 1)) rest2)).
  { rewrite Erest'. rewrite firstn_app, firstn_all2 by lia.
    destruct (Nat.eq_dec (length seg) n) as [En|En].
    - replace (n - length seg) with 0 by lia. replace (n - (length seg + 1)) with 0 by lia. cbn [firstn].
      rewrite app_nil_r, pieces_single by (now apply nonul_is_nul). unfold one.
      destruct seg; [congruence|reflexivity].
    - rewrite Hxz by lia. replace (n - length seg) with (S (n - (length seg + 1))) by lia. cbn [firstn].
      rewrite pieces_app by (now apply nonul_is_nul). unfold one. destruct seg; [congruence|reflexivity]. }
  (* skip the zeros that follow *)
  destruct (Nat.le_gt_cases oldlen (j + length seg + 1)) as [Hend|Hmore].
  - (* the region is used up *)
    rewrite skip_zeros_stop by assumption. cbn [bind].
    assert (Hn0 : n - (length seg + 1) = 0) by lia.
    specialize (IH D' mid2 rest2 oldlen). cbv zeta in IH. rewrite <- Hj1 in IH.
    replace (oldlen - (j + length seg + 1)) with 0 in IH by lia.
    destruct IH as (a' & Ea & Ef & El); [lia|left; reflexivity|lia|].
    cbn [firstn] in Ea, Ef. change (cat (pieces [])) with (@nil N) in Ea, Ef. cbn [length] in Ea, Ef.
    rewrite Nat.add_0_r in Ea, Ef. rewrite app_nil_r in Ef.
    exists a'. subst C. rewrite Hpieces, Hn0. cbn [firstn]. change (pieces []) with (@nil bytes).
    rewrite cat_cons. change (cat []) with (@nil N).
    replace (length D + length (seg ++ [0%N])) with (length D') by (rewrite HD', app_length; cbn [length]; lia).
    replace (S (length D + length seg)) with (length D') by lia.
    split; [exact Ea|]. split; [rewrite Ef; unfold D'; reflexivity|]. rewrite El. exact Hlen2.
  - (* zeros, then the next string *)
    set (n2 := n - (length seg + 1)) in *.
    destruct (zero_split (firstn n2 rest2)) as (z & t2 & Ez & Ht2).
    assert (Hz : z <= n2) by (apply (f_equal (@length N)) in Ez; rewrite firstn_length, app_length, repeat_length in Ez; lia).
    assert (Er2 : rest2 = repeat 0%N z ++ skipn z rest2).
    { rewrite <- (firstn_skipn z rest2) at 1. f_equal.
      apply (f_equal (firstn z)) in Ez. rewrite firstn_firstn, Nat.min_l in Ez by lia.
      rewrite Ez, firstn_app, repeat_length, Nat.sub_diag. cbn [firstn]. rewrite app_nil_r.
      rewrite firstn_all2 by (rewrite repeat_length; lia). reflexivity. }
    set (rest3 := skipn z rest2) in *.
    assert (Et2 : firstn (n2 - z) rest3 = t2).
    { apply (f_equal (skipn z)) in Ez. rewrite skipn_firstn_comm in Ez. fold rest3 in Ez. rewrite Ez.
      rewrite skipn_app, repeat_length, Nat.sub_diag, skipn_all2 by (rewrite repeat_length; lia). reflexivity. }
    assert (Hskip : skip_zeros (S (length (D ++ mid ++ rest))) (D' ++ mid2 ++ rest2) (j + length seg + 1) oldlen
                    = Ok (j + length seg + 1 + z)).
    { rewrite Er2. replace (D' ++ mid2 ++ repeat 0%N z ++ rest3) with ((D' ++ mid2) ++ repeat 0%N z ++ rest3) by now rewrite <- app_assoc.
      rewrite Hj1, <- app_length. apply skip_zeros_spec.
      - rewrite <- Hlen2, Er2, !app_length, repeat_length. lia.
      - rewrite app_length. lia.
      - destruct (Nat.eq_dec z n2) as [->|Hzn]; [left; rewrite app_length; lia|right].
        destruct Ht2 as [->|(y & r & -> & Hy)].
        + exfalso. apply (f_equal (@length N)) in Ez. rewrite firstn_length, app_nil_r, repeat_length in Ez.
          assert (length rest2 >= z) by (rewrite Er2, app_length, repeat_length; lia).
          apply (f_equal (@length N)) in Et2. rewrite firstn_length in Et2. cbn in Et2.
          assert (length rest3 = length rest2 - z) by (unfold rest3; apply skipn_length). lia.
        + destruct rest3 as [|y' r']; [destruct (n2 - z); discriminate|].
          destruct (n2 - z) eqn:En; [lia|]. cbn in Et2. injection Et2 as -> _. eauto. }
    rewrite Hskip. cbn [bind].
    specialize (IH D' (mid2 ++ repeat 0%N z) rest3 oldlen). cbv zeta in IH.
    rewrite app_length, repeat_length in IH.
    replace (length D' + (length mid2 + z)) with (j + length seg + 1 + z) in IH by lia.
    replace (oldlen - (j + length seg + 1 + z)) with (n2 - z) in IH by lia.
    replace (D' ++ (mid2 ++ repeat 0%N z) ++ rest3) with (D' ++ mid2 ++ rest2) in IH
      by (rewrite Er2 at 1; now rewrite <- app_assoc).
    replace (S (length D + length seg)) with (length D') by lia.
    destruct IH as (a' & Ea & Ef & El).
    + intros Hlt. destruct Ht2 as [->|(y & r & -> & Hy)].
      * exfalso. apply (f_equal (@length N)) in Et2. rewrite firstn_length in Et2. cbn in Et2.
        apply (f_equal (@length N)) in Ez. rewrite firstn_length, app_nil_r, repeat_length in Ez.
        assert (length rest3 = length rest2 - z) by (unfold rest3; apply skipn_length). lia.
      * destruct rest3 as [|y' r']; [destruct (n2 - z); discriminate|].
        destruct (n2 - z) eqn:En; [lia|]. cbn in Et2. injection Et2 as -> _. eauto.
    + assert (Hw2 : walkable (n - (length seg + 1 + z)) (skipn (length seg + 1 + z) rest)) by (apply walkable_skip; [assumption|lia]).
      replace (n - (length seg + 1 + z)) with (n2 - z) in Hw2 by lia.
      replace (skipn (length seg + 1 + z) rest) with rest3 in Hw2; [assumption|].
      rewrite Erest' at 1. unfold rest3.
      replace (length seg + 1 + z) with (length seg + (1 + z)) by lia.
      rewrite <- skipn_skipn', skipn_app, skipn_all, Nat.sub_diag. cbn [skipn app]. reflexivity.
    + lia.
    + exists a'. subst C. rewrite Hpieces, cat_cons.
      assert (Hp2 : pieces (firstn n2 rest2) = pieces (firstn (n2 - z) rest3)) by (rewrite Ez, pieces_zeros, Et2; reflexivity).
      rewrite Hp2.
      replace (length D + length (seg ++ 0%N :: cat (pieces (firstn (n2 - z) rest3))))
        with (length D' + length (cat (pieces (firstn (n2 - z) rest3)))) by (rewrite HD', !app_length; cbn [length]; lia).
      split; [exact Ea|]. split.
      * rewrite Ef. unfold D'. rewrite <- !app_assoc. reflexivity.
      * rewrite El. exact Hlen2.
Qed.

Lemma zero_prefix_facts (n : nat) (l : bytes) :
  n <= length l ->
  exists z, z <= n /\ l = repeat 0%N z ++ skipn z l /\
            pieces (firstn n l) = pieces (firstn (n - z) (skipn z l)) /\
            (z < n -> exists x r, skipn z l = x :: r /\ x <> 0%N).
Proof.
  intros Hn. destruct (zero_split (firstn n l)) as (z & t & Ez & Ht).
  assert (Hz : z <= n) by (apply (f_equal (@length N)) in Ez; rewrite firstn_length, app_length, repeat_length in Ez; lia).
  assert (El : l = repeat 0%N z ++ skipn z l).
  { rewrite <- (firstn_skipn z l) at 1. f_equal.
    apply (f_equal (firstn z)) in Ez. rewrite firstn_firstn, Nat.min_l in Ez by lia.
    rewrite Ez, firstn_app, repeat_length, Nat.sub_diag. cbn [firstn]. rewrite app_nil_r.
    rewrite firstn_all2 by (rewrite repeat_length; lia). reflexivity. }
  assert (Et : firstn (n - z) (skipn z l) = t).
  { apply (f_equal (skipn z)) in Ez. rewrite skipn_firstn_comm in Ez. rewrite Ez.
    rewrite skipn_app, repeat_length, Nat.sub_diag, skipn_all2 by (rewrite repeat_length; lia). reflexivity. }
  exists z. repeat split; try assumption.
  - rewrite Ez, pieces_zeros, Et. reflexivity.
  - intros Hlt. destruct Ht as [->|(y & r & -> & Hy)].
    + exfalso. apply (f_equal (@length N)) in Et. rewrite firstn_length, skipn_length in Et. cbn [length] in Et. lia.
    + destruct (skipn z l) as [|y' r']; [destruct (n - z); discriminate|].
      destruct (n - z) eqn:En; [lia|]. cbn in Et. injection Et as -> _. eauto.
Qed.

Theorem compact_buffer_spec (a : bytes) (oldlen : nat) :
  walkable oldlen a -> length a <= oldlen + 1 ->
  let c := cat (pieces (firstn oldlen a)) in
  compact_buffer a oldlen = Ok (length c, c).
Proof.
  intros Hw Hcap c.
  assert (Hol : oldlen <= length a) by (destruct Hw as [?|[?|[? _]]]; lia).
  destruct (zero_prefix_facts oldlen a Hol) as (z & Hz & Ea & Ep & Hnz).
  pose proof (walkable_skip oldlen z a Hw Hz) as Hw2.
  subst c. rewrite Ep.
  remember (skipn z a) as r eqn:Er. clear Er.
  set (c := cat (pieces (firstn (oldlen - z) r))).
  unfold compact_buffer.
  assert (Hs : skip_zeros (S (length a)) a 0 oldlen = Ok z).
  { assert (Hlen : z < S (length a)) by lia. revert Hlen. generalize (S (length a)) as fuel. intros fuel Hlen.
    rewrite Ea. change (repeat 0%N z ++ r) with ([] ++ repeat 0%N z ++ r).
    change 0 with (length (@nil N)). rewrite skip_zeros_spec; [reflexivity| | |]; cbn [length]; try lia.
    destruct (Nat.eq_dec z oldlen); [left; lia|right; apply Hnz; lia]. }
  rewrite Hs. cbn [bind].
  pose proof (compact_loop_inv (S oldlen) [] (repeat 0%N z) r oldlen) as H. cbv zeta in H.
  cbn [length app] in H. rewrite repeat_length in H. cbn [Nat.add] in H.
  rewrite <- Ea in H. fold c in H.
  destruct H as (a' & E & Ef & El); [assumption|assumption|lia|].
  rewrite E. cbn [bind app] in *.
  destruct (Nat.eqb (length c) 0) eqn:E0.
  - apply Nat.eqb_eq in E0. destruct c; [reflexivity|discriminate].
  - destruct (Nat.eqb (length c) (oldlen + 1)) eqn:E1; [|rewrite Ef; reflexivity].
    apply Nat.eqb_eq in E1. rewrite <- Ef at 3. rewrite firstn_all2 by lia. reflexivity.
Qed.

(** ------------------------------------------------------------ lloadfilefd(3) with the in-place compaction *)
Lemma lloadfile3_arr_spec (content : bytes) :
  lloadfile3_arr content =
  Ok (match list_spec content with None => LErr | Some es => LOk (length (cat es), cat es) end).
Proof.
  destruct content as [|c0 c']; [reflexivity|].
  set (c := c0 :: c'). unfold lloadfile3_arr. fold c.
  change (match c with [] => Ok (LOk (0, [])) | _ :: _ => ?x end) with x.
  unfold LOADLIST_MODE. change (ll_scan (S (length c)) 3 [] c) with (scanm 3 [] c).
  pose proof (scan_file 3 (S (length c)) c [] (Nat.lt_succ_diag_r _) eq_refl) as H.
  rewrite <- list_spec_m_true. unfold list_spec_m. change (sb 3) with true in H.
  destruct (all_some (map (line_tail_m true 0) (split_on is_eol c))) as [es0|]; cbn [option_map].
  - destruct H as (img & Es & Ep & El). rewrite Es. cbn [bind rev app].
    rewrite compact_buffer_spec.
    + rewrite <- El, firstn_app, firstn_all, Nat.sub_diag. cbn [firstn]. rewrite app_nil_r, Ep. reflexivity.
    + right. left. rewrite app_length. cbn [length]. lia.
    + rewrite app_length. cbn [length]. lia.
  - rewrite H. reflexivity.
Qed.

(** ------------------------------------------------------------ the counting loop with a callback *)
Section Callback.
  Variable cf : bytes -> bool.

  Definition blank1 (e : bytes) : bytes := if cf e then repeat 0%N (length e) ++ [0%N] else e ++ [0%N].
  Definition blank (es : list bytes) : bytes := concat (map blank1 es).
  Definition keep (es : list bytes) : list bytes := filter (fun e => negb (cf e)) es.

  Lemma cstring_at_spec (pre e rest : bytes) :
    Forall (fun b => b <> 0%N) e -> cstring_at (pre ++ e ++ 0%N :: rest) (length pre) = Ok e.
  Proof.
    intros He. unfold cstring_at. rewrite strlen_at_spec by (auto; rewrite !app_length; cbn [length]; lia).
    cbn [bind]. rewrite skipn_app, skipn_all, Nat.sub_diag. cbn [skipn app].
    rewrite firstn_app, firstn_all, Nat.sub_diag. cbn [firstn]. now rewrite app_nil_r.
  Qed.

  Lemma count_loop_spec : forall (es : list bytes) (pre : bytes) (j : nat) (haserr : bool) (fuel : nat),
    Forall entry_ok es -> length es < fuel ->
    count_loop fuel cf (pre ++ cat es) (length pre) (length pre + length (cat es) - 1) j haserr =
    Ok (pre ++ blank es, j + length (keep es), haserr || existsb cf es).
  Proof.
    induction es as [|e es IH]; intros pre j haserr fuel Hok Hf.
    - destruct fuel; [lia|]. cbn [count_loop]. change (cat []) with (@nil N). cbn [length].
      replace (Nat.ltb (length pre) (length pre + 0 - 1)) with false by (symmetry; apply Nat.ltb_ge; lia).
      unfold blank, keep. cbn. rewrite !app_nil_r, Nat.add_0_r, orb_false_r. reflexivity.
    - destruct fuel as [|fuel]; [cbn in Hf; lia|].
      inversion Hok as [|? ? [Hne Hnz] Hoks]; subst.
      assert (Hl : 1 <= length e) by (destruct e; [congruence|cbn; lia]).
      rewrite cat_cons. cbn [count_loop].
      set (a := pre ++ e ++ 0%N :: cat es).
      replace (Nat.ltb (length pre) (length pre + length (e ++ 0%N :: cat es) - 1)) with true
        by (symmetry; apply Nat.ltb_lt; rewrite app_length; cbn [length]; lia).
      unfold a at 1. rewrite cstring_at_spec by assumption. cbn [bind].
      assert (Hsl : strlen_at (S (length a)) a (length pre) = Ok (length e)).
      { unfold a. apply strlen_at_spec; [assumption|]. rewrite !app_length. cbn [length]. lia. }
      rewrite Hsl. cbn [bind].
      unfold blank, keep. cbn [map concat filter existsb]. unfold blank1 at 1.
      destruct (cf e) eqn:Ecf; cbn [negb].
      + (* rejected: wipe it *)
        unfold memset0_at. unfold a at 1 2 3.
        replace (Nat.leb (length pre + length e) (length (pre ++ e ++ 0%N :: cat es))) with true
          by (symmetry; apply Nat.leb_le; rewrite !app_length; cbn [length]; lia).
        cbn [bind].
        rewrite firstn_app, firstn_all, Nat.sub_diag. cbn [firstn]. rewrite app_nil_r.
        rewrite skipn_app, skipn_all2 by lia. cbn [app].
        replace (length pre + length e - length pre) with (length e) by lia.
        rewrite skipn_app, skipn_all, Nat.sub_diag. cbn [skipn app].
        set (a1 := pre ++ repeat 0%N (length e) ++ 0%N :: cat es).
        assert (Hs2 : strlen_at (S (length a1)) a1 (length pre + length e) = Ok 0).
        { unfold a1. replace (pre ++ repeat 0%N (length e) ++ 0%N :: cat es) with ((pre ++ repeat 0%N (length e)) ++ [] ++ 0%N :: cat es)
            by (now rewrite <- app_assoc).
          replace (length pre + length e) with (length (pre ++ repeat 0%N (length e))) by (rewrite app_length, repeat_length; lia).
          apply strlen_at_spec; [constructor|cbn [length]; lia]. }
        rewrite Hs2. cbn [bind].
        replace a1 with ((pre ++ repeat 0%N (length e) ++ [0%N]) ++ cat es) by (unfold a1; now rewrite <- !app_assoc).
        replace (length pre + length e + 0 + 1) with (length (pre ++ repeat 0%N (length e) ++ [0%N]))
          by (rewrite !app_length, repeat_length; cbn [length]; lia).
        replace (length pre + length (e ++ 0%N :: cat es) - 1)
          with (length (pre ++ repeat 0%N (length e) ++ [0%N]) + length (cat es) - 1)
          by (rewrite !app_length, repeat_length; cbn [length]; lia).
        rewrite IH by (auto; cbn in Hf; lia). rewrite <- !app_assoc, orb_true_r. cbn [orb]. reflexivity.
      + (* accepted *)
        replace a with ((pre ++ e ++ [0%N]) ++ cat es) by (unfold a; now rewrite <- !app_assoc).
        replace (length pre + length e + 1) with (length (pre ++ e ++ [0%N])) by (rewrite !app_length; cbn [length]; lia).
        replace (length pre + length (e ++ 0%N :: cat es) - 1) with (length (pre ++ e ++ [0%N]) + length (cat es) - 1)
          by (rewrite !app_length; cbn [length]; lia).
        rewrite IH by (auto; cbn in Hf; lia). cbn [length orb]. rewrite <- !app_assoc.
        unfold blank, keep. rewrite <- plus_n_Sm. reflexivity.
  Qed.

  Lemma pieces_blank (es : list bytes) : Forall entry_ok es -> pieces (blank es) = keep es.
  Proof.
    induction 1 as [|e es [Hne Hnz] _ IH]; [reflexivity|].
    unfold blank, keep. cbn [map concat filter]. unfold blank1 at 1. fold (blank es) (keep es).
    destruct (cf e); cbn [negb].
    - rewrite <- app_assoc. cbn [app]. rewrite repeat_snoc.
      change (0%N :: repeat 0%N (length e) ++ blank es) with ([] ++ 0%N :: (repeat 0%N (length e) ++ blank es)).
      rewrite pieces_app by constructor. cbn [one is_nil app]. rewrite pieces_zeros. exact IH.
    - rewrite <- app_assoc. cbn [app]. rewrite pieces_app by (now apply nonul_is_nul).
      unfold one. destruct e; [congruence|]. cbn [is_nil app]. now rewrite IH.
  Qed.

  Lemma blank_all_kept (es : list bytes) : existsb cf es = false -> blank es = cat es /\ keep es = es.
  Proof.
    induction es as [|e es IH]; intros H; [split; reflexivity|].
    cbn [existsb] in H. apply orb_false_iff in H as [He Hes]. destruct (IH Hes) as [E1 E2].
    unfold blank, keep, cat in *. cbn [map concat filter]. unfold blank1 at 1. rewrite He. cbn [negb].
    rewrite E1, E2. split; reflexivity.
  Qed.

  Lemma blank_length (es : list bytes) : length (blank es) = length (cat es).
  Proof.
    induction es as [|e es IH]; [reflexivity|]. unfold blank, cat in *. cbn [map concat]. unfold blank1 at 1.
    destruct (cf e); rewrite !app_length, ?repeat_length, IH; reflexivity.
  Qed.

  Lemma blank_ends_nul (es : list bytes) : es <> [] -> exists r0, blank es = r0 ++ [0%N].
  Proof.
    induction es as [|e es IH]; [congruence|]. intros _. unfold blank in *. cbn [map concat].
    destruct es as [|e2 es'].
    - cbn [map concat]. rewrite app_nil_r. unfold blank1. destruct (cf e); eexists; reflexivity.
    - destruct (IH ltac:(discriminate)) as [r0 E]. rewrite E. exists (blank1 e ++ r0). now rewrite app_assoc.
  Qed.

  Lemma keep_ok (es : list bytes) : Forall entry_ok es -> Forall entry_ok (keep es).
  Proof. intros H. apply Forall_forall. intros e He. apply filter_In in He as [Hin _]. rewrite Forall_forall in H. auto. Qed.
End Callback.

(** ------------------------------------------------------------ data_array and the pointer loop *)
Fixpoint offsets (p : nat) (es : list bytes) : list nat :=
  match es with
  | [] => []
  | e :: r => p :: offsets (p + length e + 1) r
  end.

Lemma ptr_loop_spec : forall (es : list bytes) (P tail : bytes),
  Forall entry_ok es ->
  ptr_loop (length es) (P ++ cat es ++ tail) (length P) = Ok (map Some (offsets (length P) es)).
Proof.
  induction es as [|e es IH]; intros P tail Hok; [reflexivity|].
  inversion Hok as [|? ? [Hne Hnz] Hoks]; subst.
  cbn [length ptr_loop offsets map]. rewrite cat_cons, <- app_assoc. cbn [app].
  rewrite strlen_at_spec by (auto; rewrite !app_length; cbn [length]; lia). cbn [bind].
  replace (P ++ e ++ 0%N :: cat es ++ tail) with ((P ++ e ++ [0%N]) ++ cat es ++ tail) by (now rewrite <- !app_assoc).
  replace (length P + length e + 1) with (length (P ++ e ++ [0%N])) by (rewrite !app_length; cbn [length]; lia).
  rewrite IH by assumption. reflexivity.
Qed.

Lemma read_ptrs_spec : forall (es : list bytes) (P tail : bytes),
  Forall entry_ok es ->
  read_ptrs (P ++ cat es ++ tail) (map Some (offsets (length P) es) ++ [None]) = Ok (combine (offsets (length P) es) es).
Proof.
  induction es as [|e es IH]; intros P tail Hok; [reflexivity|].
  inversion Hok as [|? ? [Hne Hnz] Hoks]; subst.
  cbn [offsets map app read_ptrs combine]. rewrite cat_cons, <- app_assoc. cbn [app].
  rewrite cstring_at_spec by assumption. cbn [bind].
  replace (P ++ e ++ 0%N :: cat es ++ tail) with ((P ++ e ++ [0%N]) ++ cat es ++ tail) by (now rewrite <- !app_assoc).
  replace (length P + length e + 1) with (length (P ++ e ++ [0%N])) by (rewrite !app_length; cbn [length]; lia).
  rewrite IH by assumption. reflexivity.
Qed.

Lemma data_array_spec (fill : nat -> N) (j : nat) (buf : bytes) :
  buf <> [] ->
  exists P tail, length P = (j + 1) * PTR_SIZE /\ length tail = j /\
    data_array fill j (length buf) buf (length buf) = Ok (P ++ buf ++ tail).
Proof.
  intros Hne. unfold data_array. set (psize := (j + 1) * PTR_SIZE). set (i := length buf).
  assert (Hi : i <> 0) by (unfold i; destruct buf; [congruence|discriminate]).
  apply Nat.eqb_neq in Hi. rewrite Hi.
  rewrite firstn_all2 by (unfold i; lia).
  set (junk := map fill (seq i (psize + (j + i) - i))).
  assert (Hj : length junk = psize + j) by (unfold junk; rewrite map_length, seq_length; lia).
  unfold memmove_at. rewrite app_length, Hj. fold i.
  replace (Nat.leb (0 + i) (i + (psize + j))) with true by (symmetry; apply Nat.leb_le; lia).
  replace (Nat.leb (psize + i) (i + (psize + j))) with true by (symmetry; apply Nat.leb_le; lia).
  cbn [andb skipn].
  exists (firstn psize (buf ++ junk)), (skipn (psize + i) (buf ++ junk)).
  rewrite firstn_length, skipn_length, app_length, Hj. fold i. repeat split; try lia.
  f_equal. f_equal. f_equal. unfold i. rewrite firstn_app, firstn_all, Nat.sub_diag. cbn [firstn]. now rewrite app_nil_r.
Qed.

(** ------------------------------------------------------------ loadlistfd as a whole *)
(** the block: pointer table area [P] (8 * (n+1) bytes), the kept entries each followed by
    one NUL, directly behind the table and adjacent, then n spare bytes; pointer i
    addresses entry i; the table ends with NULL *)
Definition list_block (es : list bytes) (b : block) : Prop :=
  exists P tail, length P = (length es + 1) * PTR_SIZE /\ length tail = length es /\
    mem b = P ++ cat es ++ tail /\ ptrs b = map Some (offsets (length P) es) ++ [None].

Theorem loadlist_arr_correct (cf : bytes -> bool) (fill : nat -> N) (content : bytes) :
  match list_spec content with
  | None => loadlist_arr cf fill content = Ok LErr
  | Some es =>
      match keep cf es with
      | [] => loadlist_arr cf fill content = Ok (LOk None)
      | kept => exists b, loadlist_arr cf fill content = Ok (LOk (Some b)) /\ list_block kept b
      end
  end.
Proof.
  unfold loadlist_arr. rewrite lloadfile3_arr_spec.
  destruct (lloadfile3 content) as [_ Hok].
  destruct (list_spec content) as [es|]; [|reflexivity]. specialize (Hok es eq_refl). cbn [bind].
  destruct (Nat.eqb (length (cat es)) 0) eqn:E0.
  { apply Nat.eqb_eq in E0. apply cat_nil_inv in E0. subst es. reflexivity. }
  apply Nat.eqb_neq in E0.
  assert (Hes : es <> []) by (intros ->; apply E0; reflexivity).
  pose proof (count_loop_spec cf es [] 0 false (S (length (cat es))) Hok) as Hc.
  cbn [app length Nat.add orb] in Hc. rewrite Hc by (pose proof (cat_length_ge es); lia). clear Hc. cbn [bind].
  destruct (Nat.eqb (length (keep cf es)) 0) eqn:E1.
  { apply Nat.eqb_eq in E1. destruct (keep cf es); [reflexivity|discriminate]. }
  assert (Hc2 : (if existsb cf es then compact_buffer (blank cf es) (length (cat es)) else Ok (length (cat es), blank cf es))
                = Ok (length (cat (keep cf es)), cat (keep cf es))).
  { destruct (existsb cf es) eqn:Ee.
    - rewrite compact_buffer_spec.
      + rewrite <- (blank_length cf es), firstn_all, pieces_blank by assumption. reflexivity.
      + right. right. split; [symmetry; apply blank_length|]. now apply blank_ends_nul.
      + rewrite blank_length. lia.
    - destruct (blank_all_kept cf es Ee) as [-> ->]. reflexivity. }
  rewrite Hc2. clear Hc2. cbn [bind].
  pose proof (keep_ok cf es Hok) as Hkok.
  destruct (keep cf es) as [|k0 ks] eqn:Ek; [discriminate|].
  set (kept := k0 :: ks) in *.
  destruct (data_array_spec fill (length kept) (cat kept)) as (P & tail & HP & Ht & Ed).
  { unfold kept. rewrite cat_cons. destruct k0; discriminate. }
  rewrite Ed. cbn [bind].
  rewrite <- HP. rewrite ptr_loop_spec by assumption. cbn [bind].
  eexists. split; [reflexivity|].
  exists P, tail. cbn [mem ptrs]. auto.
Qed.

Lemma Forall2_weaken {A B} (R S : A -> B -> Prop) (l1 : list A) (l2 : list B) :
  (forall a b, R a b -> S a b) -> Forall2 R l1 l2 -> Forall2 S l1 l2.
Proof. intros H F. induction F; constructor; auto. Qed.

(** what the caller sees through the pointers: exactly the kept entries, each read inside the block *)
Lemma list_block_read (es : list bytes) (b : block) :
  Forall entry_ok es -> list_block es b ->
  exists offs, read_ptrs (mem b) (ptrs b) = Ok (combine offs es) /\ length offs = length es /\
    Forall2 (fun p e => (length es + 1) * PTR_SIZE <= p /\ p + length e < length (mem b) /\
                        sub (mem b) p (length e + 1) = e ++ [0%N]) offs es.
Proof.
  intros Hok (P & tail & HP & Ht & Em & Ep). rewrite Em, Ep.
  exists (offsets (length P) es). split; [now apply read_ptrs_spec|].
  rewrite <- HP. clear HP Em Ep b.
  assert (G : forall es P tail, Forall entry_ok es ->
            length (offsets (length P) es) = length es /\
            Forall2 (fun p e => length P <= p /\ p + length e < length (P ++ cat es ++ tail) /\
                                sub (P ++ cat es ++ tail) p (length e + 1) = e ++ [0%N]) (offsets (length P) es) es).
  { clear. induction es as [|e es IH]; intros P tail Hok; [split; constructor|].
    inversion Hok as [|? ? _ Hoks]; subst. cbn [offsets length].
    specialize (IH (P ++ e ++ [0%N]) tail Hoks).
    replace (length (P ++ e ++ [0%N])) with (length P + length e + 1) in IH by (rewrite !app_length; cbn [length]; lia).
    replace ((P ++ e ++ [0%N]) ++ cat es ++ tail) with (P ++ cat (e :: es) ++ tail) in IH
      by (rewrite cat_cons, <- !app_assoc; reflexivity).
    destruct IH as [IL IF]. split; [lia|]. constructor.
    - split; [lia|]. split.
      + rewrite cat_cons, !app_length. cbn [length]. lia.
      + unfold sub. rewrite skipn_app, skipn_all, Nat.sub_diag. cbn [skipn app].
        rewrite cat_cons. replace (e ++ 0%N :: cat es) with ((e ++ [0%N]) ++ cat es) by (now rewrite <- app_assoc).
        rewrite <- app_assoc, firstn_app.
        replace (length e + 1) with (length (e ++ [0%N])) by (rewrite app_length; cbn [length]; lia).
        rewrite firstn_all, Nat.sub_diag. cbn [firstn]. now rewrite app_nil_r.
    - eapply Forall2_weaken; [|exact IF]. cbv beta. intros p e' [H1 [H2 H3]]. repeat split; try lia; assumption. }
  apply G. assumption.
Qed.

(** C18 proofs, part 4: the model never runs out of fuel, and [run] always ends in exit().
    Every loop iteration consumes at least one byte of the stream it reads from (C05 stream
    lemma); the line buffer never holds more than LINEINBUF - 2 bytes between two reads, so
    a read always makes progress. *)
From Qv Require Import Common.Bytes Gen.GenNetio Gen.GenStarttls Model.NetRead Spec.LineSpec
  Proofs.NetReadProofs Model.TlsClient Proofs.TlsSwitchRead.
Local Open Scope bool_scope.

(* ------------------------------------------------------------------ buffer bound *)
Lemma loop_long_len fuel : forall e hc i e',
  loop_long fuel e hc = (Some i, e') -> length i <= LINEINBUF - 2.
Proof.
  pose proof LB as HLB.
  induction fuel as [|fuel IH]; intros e hc i e' H; cbn [loop_long] in H; [discriminate|].
  destruct (readinput e LINEINBUF) as [[b e1]|] eqn:Er; [|discriminate].
  destruct (readinput_spec _ _ _ _ Er) as (_ & Hlen & _).
  destruct (hc && N.eqb (nth 0 b 0%N) LF) eqn:E1.
  - inversion H; subst. clear -Hlen HLB. destruct b as [|y b']; simpl in *; lia.
  - destruct (find_eol b) as [p valid] eqn:Ef. destruct p as [p|].
    + destruct (negb valid && Nat.eqb p (length b) && N.eqb (nth (p - 1) b 0%N) CR) eqn:E2.
      * eapply IH; eassumption.
      * inversion H; subst. destruct (find_eol_some _ _ _ Ef) as (Hp1 & Hp2). rewrite skipn_length. lia.
    + eapply IH; eassumption.
Qed.

Lemma read_loop2_len fuel : forall buf e it s',
  length buf <= LINEINBUF - 1 ->
  read_loop2 fuel buf e = (it, s') -> length (inn s') <= LINEINBUF - 2.
Proof.
  pose proof LB as HLB.
  induction fuel as [|fuel IH]; intros buf e it s' Hbuf H; cbn [read_loop2] in H.
  { inversion H; subst. simpl. lia. }
  destruct (readinput e (LINEINBUF - length buf)) as [[d e1]|] eqn:Er.
  2:{ inversion H; subst. simpl. lia. }
  destruct (readinput_spec _ _ _ _ Er) as (_ & Hdlen & _).
  assert (Hb' : length (buf ++ d) <= LINEINBUF - 1) by (rewrite app_length; lia).
  set (buf' := buf ++ d) in *.
  destruct (find_eol buf') as [p valid] eqn:Ef.
  set (retry := match p with Some p' => _ | None => false end) in H.
  destruct (if retry then None else p) as [p'|] eqn:Ep.
  - assert (Hp : p = Some p') by (destruct retry; [discriminate|exact Ep]).
    subst p. destruct (find_eol_some _ _ _ Ef) as (Hp1 & Hp2).
    destruct valid.
    + inversion H; subst. cbn [inn]. rewrite skipn_length. lia.
    + destruct (Nat.eqb p' (LINEINBUF - 1) && N.eqb (nth (p' - 1) buf' 0%N) CR).
      * destruct (loop_long (S (length (rest e1))) e1 true) as [[i|] e2] eqn:El; inversion H; subst; cbn [inn].
        -- eapply loop_long_len; eassumption.
        -- simpl. lia.
      * inversion H; subst. cbn [inn]. rewrite skipn_length. lia.
  - destruct (Nat.ltb (length buf') (LINEINBUF - 1)) eqn:Elt.
    + eapply IH; eassumption.
    + destruct (loop_long (S (length (rest e1))) e1 false) as [[i|] e2] eqn:El; inversion H; subst; cbn [inn].
      * eapply loop_long_len; eassumption.
      * simpl. lia.
Qed.

Lemma net_read2_len s it s' :
  length (inn s) <= LINEINBUF - 2 ->
  net_read2 s = (it, s') -> length (inn s') <= LINEINBUF - 2.
Proof.
  pose proof LB as HLB. intros Hl H. unfold net_read2 in H.
  destruct (inn s) as [|x r] eqn:Ei.
  { eapply read_loop2_len; [|eassumption]. simpl. lia. }
  rewrite <- Ei in *. clear x r Ei.
  destruct (find_eol (inn s)) as [p valid] eqn:Ef. destruct p as [p|].
  2:{ eapply read_loop2_len; [|eassumption]. lia. }
  destruct valid.
  - inversion H; subst. cbn [inn]. rewrite skipn_length. lia.
  - destruct (N.eqb (nth (p - 1) (inn s) 0%N) CR && Nat.eqb p (length (inn s))).
    + eapply read_loop2_len; [|eassumption]. lia.
    + inversion H; subst. cbn [inn]. rewrite skipn_length. lia.
Qed.

(* ------------------------------------------------------------------ a read is never stuck *)
Lemma read_loop2_not_stuck fuel : forall buf e s',
  length (rest e) < fuel -> length buf <= LINEINBUF - 2 ->
  read_loop2 fuel buf e <> (RStuck, s').
Proof.
  pose proof LB as HLB.
  induction fuel as [|fuel IH]; intros buf e s' Hf Hbuf H; [lia|]. cbn [read_loop2] in H.
  destruct (readinput e (LINEINBUF - length buf)) as [[d e1]|] eqn:Er; [|discriminate].
  destruct (readinput_spec _ _ _ _ Er) as (Hrest & Hdlen & Hne).
  assert (Hd : d <> []) by (apply Hne; lia).
  assert (Hr1 : length (rest e1) < fuel).
  { apply (f_equal (@length _)) in Hrest. rewrite app_length in Hrest. destruct d; [congruence|simpl in Hrest; lia]. }
  set (buf' := buf ++ d) in *.
  destruct (find_eol buf') as [p valid] eqn:Ef.
  set (retry := match p with Some p' => _ | None => false end) in H.
  destruct (if retry then None else p) as [p'|] eqn:Ep.
  - destruct valid; [discriminate|].
    destruct (Nat.eqb p' (LINEINBUF - 1) && N.eqb (nth (p' - 1) buf' 0%N) CR); [|discriminate].
    destruct (loop_long (S (length (rest e1))) e1 true) as [[i|] e2]; discriminate.
  - destruct (Nat.ltb (length buf') (LINEINBUF - 1)) eqn:Elt.
    + apply Nat.ltb_lt in Elt. apply (IH buf' e1 s' Hr1); [lia|exact H].
    + destruct (loop_long (S (length (rest e1))) e1 false) as [[i|] e2]; discriminate.
Qed.

Lemma net_read2_not_stuck s s' :
  length (inn s) <= LINEINBUF - 2 -> net_read2 s <> (RStuck, s').
Proof.
  intros Hl H. unfold net_read2 in H. pose proof LB as HLB.
  destruct (inn s) as [|x r] eqn:Ei.
  { eapply read_loop2_not_stuck; [| |exact H]; simpl; lia. }
  rewrite <- Ei in *. clear x r Ei.
  destruct (find_eol (inn s)) as [p valid]. destruct p as [p|].
  2:{ eapply read_loop2_not_stuck; [| |exact H]; [lia|exact Hl]. }
  destruct valid; [discriminate|].
  destruct (N.eqb (nth (p - 1) (inn s) 0%N) CR && Nat.eqb p (length (inn s))); [|discriminate].
  eapply read_loop2_not_stuck; [| |exact H]; [lia|exact Hl].
Qed.

(* ------------------------------------------------------------------ the program *)
Definition good (s : st) : Prop := length (s_inn s) <= LINEINBUF - 2.

(** returns in a good state with [P], or exits; never stuck *)
Definition ns {A} (P : A -> st -> Prop) (r : res A) : Prop :=
  match r with
  | Ret a s' => good s' /\ P a s'
  | Exit _ => True
  | Stuck _ => False
  end.

Lemma ns_bind {A B} (m : res A) (f : A -> st -> res B) (P : A -> st -> Prop) (Q : B -> st -> Prop) :
  ns P m -> (forall a s, good s -> P a s -> ns Q (f a s)) -> ns Q (rbind m f).
Proof.
  intros Hm Hf. destruct m as [a s|s|s]; cbn [rbind ns] in *; [|exact I|contradiction].
  destruct Hm as (Hg & Hp). now apply Hf.
Qed.

Lemma ns_weaken {A} (P Q : A -> st -> Prop) (r : res A) :
  ns P r -> (forall a s, good s -> P a s -> Q a s) -> ns Q r.
Proof.
  intros H Hw. destruct r as [a s|s|s]; cbn [ns] in *; [|exact I|contradiction].
  destruct H as (Hg & Hp). split; [exact Hg|now apply Hw].
Qed.

Definition progress (it : ritem) : bool :=
  match it with RLine _ | RInval | R2big => true | _ => false end.

Lemma purge_facts s :
  s_ssl (purge s) = s_ssl s /\ avail (purge s) <= avail s /\ (good s -> good (purge s)).
Proof.
  unfold purge. destruct (ST_PURGES && negb (Bool.eqb (s_innssl s) (s_ssl s))).
  - split; [reflexivity|]. split; [unfold avail, chan; cbn; lia|]. intros _. unfold good. cbn. lia.
  - split; [reflexivity|]. split; [lia|auto].
Qed.

Lemma nread_ns s0 :
  good s0 ->
  ns (fun it s' => s_ssl s' = s_ssl s0 /\ avail s' <= avail s0 /\ (progress it = true -> avail s' < avail s0)) (nread s0).
Proof.
  intros Hg0. pose proof LB as HLB. destruct (purge_facts s0) as (Hps & Hpa & Hpg). specialize (Hpg Hg0).
  unfold nread. set (s := purge s0) in *. assert (Hg : good s) by exact Hpg.
  destruct (net_read2 {| inn := s_inn s; en := chan s |}) as [it r] eqn:En.
  assert (Hl1 : length (inn {| inn := s_inn s; en := chan s |}) <= LINEINBUF - 1) by (unfold good in Hg; simpl; lia).
  destruct (net_read2_spec _ it r Hl1 En) as (Hit & _).
  pose proof (net_read2_len {| inn := s_inn s; en := chan s |} it r Hg En) as Hlen.
  unfold total in Hit. cbn [inn en] in Hit.
  assert (Hav : avail (upd_net s (inn r) (en r)) = length (inn r) + length (rest (en r))).
  { unfold avail, chan, upd_net. destruct (s_ssl s) eqn:E; cbn; rewrite ?E; reflexivity. }
  assert (Hssl : s_ssl (upd_net s (inn r) (en r)) = s_ssl s0) by (rewrite <- Hps; unfold upd_net; destruct (s_ssl s) eqn:E; cbn; congruence).
  assert (Hgood : good (upd_net s (inn r) (en r))) by (unfold good, upd_net; destruct (s_ssl s); cbn; exact Hlen).
  assert (Hav0 : avail s = length (s_inn s ++ rest (chan s))) by (unfold avail; now rewrite app_length).
  destruct it as [l| | | | |]; cbn [ns erase item_ok] in *; unfold total in Hit; cbn [inn en] in Hit.
  - destruct Hit as (Hcut & _). split; [exact Hgood|]. split; [exact Hssl|].
    cbn [log]. change (avail (log _ ?x)) with (avail x). rewrite Hav. rewrite Hav0, Hcut, !app_length in Hpa. simpl in Hpa. split; [lia|intros _; lia].
  - destruct Hit as (j & Hj & Hcut). split; [exact Hgood|]. split; [exact Hssl|].
    change (avail (log _ ?x)) with (avail x). rewrite Hav. rewrite Hav0, Hcut, !app_length in Hpa.
    destruct j; [congruence|]. simpl in Hpa. split; [lia|intros _; lia].
  - destruct Hit as (j & Hj & Hcut). split; [exact Hgood|]. split; [exact Hssl|].
    change (avail (log _ ?x)) with (avail x). rewrite Hav. rewrite Hav0, Hcut, !app_length in Hpa.
    destruct j; [congruence|]. simpl in Hpa. split; [lia|intros _; lia].
  - destruct (net_read2_reset _ _ En) as (Hi0 & Hr0). split; [exact Hgood|]. split; [exact Hssl|].
    change (avail (log _ ?x)) with (avail x). rewrite Hav, Hi0, Hr0. simpl. split; [lia|discriminate].
  - exact I.
  - exact (net_read2_not_stuck {| inn := s_inn s; en := chan s |} r Hg En).
Qed.

Definition get_ns (s : st) (v : Z) (s' : st) : Prop :=
  s_ssl s' = s_ssl s /\ avail s' <= avail s /\ ((0 <=? v)%Z = true -> avail s' < avail s).

Lemma netget0_ns s : good s -> ns (get_ns s) (netget0 s).
Proof.
  intros Hg. unfold netget0. eapply ns_bind; [apply nread_ns; exact Hg|].
  intros it s1 Hg1 (Hssl & Hle & Hlt).
  assert (Hneg : forall e, (0 <=? neg e)%Z = false -> forall s2, good s2 -> s_ssl s2 = s_ssl s -> avail s2 <= avail s ->
            ns (get_ns s) (Ret (neg e) s2)).
  { intros e He s2 Hg2 Hs2 Hl2. split; [exact Hg2|]. split; [exact Hs2|]. split; [exact Hl2|].
    intros H. rewrite He in H. discriminate. }
  destruct it as [l| | | | |]; try (apply Hneg; [reflexivity|exact Hg1|exact Hssl|exact Hle]).
  destruct (netget_code l) as [c|] eqn:Ec.
  - split; [exact Hg1|]. split; [exact Hssl|]. split; [exact Hle|]. intros _. now apply Hlt.
  - apply Hneg; [reflexivity|exact Hg1|exact Hssl|exact Hle].
Qed.

(* ------------------------------------------------------------------ the loops *)
Definition same_chan (s s' : st) : Prop := s_ssl s' = s_ssl s.

Lemma ehlo_loop_ns fuel : forall sc ret err s,
  (0 <=? sc)%Z = true -> good s -> avail s < fuel -> ns (fun _ _ => True) (ehlo_loop fuel sc ret err s).
Proof.
  induction fuel as [|fuel IH]; intros sc ret err s Hsc Hg Hf; [lia|]. cbn [ehlo_loop].
  destruct (dash3 s); [|split; [exact Hg|exact I]].
  eapply ns_bind; [apply netget0_ns; exact Hg|].
  intros t s1 Hg1 (_ & Hle & Hlt).
  destruct (negb (Z.eqb sc t)) eqn:Ene.
  - destruct (t <? 0)%Z eqn:Et; [split; [exact Hg1|exact I]|].
    apply IH; [exact Hsc|exact Hg1|]. apply Z.ltb_ge in Et. assert (avail s1 < avail s) by (apply Hlt; now apply Z.leb_le). lia.
  - apply negb_false_iff, Z.eqb_eq in Ene. subst t. specialize (Hlt Hsc).
    destruct (Z.eqb sc ST_EHLO_OK && negb err).
    + destruct (check_ext (ext_arg (s_linein s1)) <? 0)%Z; apply IH; try assumption; lia.
    + apply IH; try assumption; lia.
Qed.

Lemma helo_loop_ns fuel : forall sc err s,
  good s -> avail s < fuel -> ns (fun _ _ => True) (helo_loop fuel sc err s).
Proof.
  induction fuel as [|fuel IH]; intros sc err s Hg Hf; [lia|]. cbn [helo_loop].
  destruct (dash3 s); [|split; [exact Hg|exact I]].
  eapply ns_bind; [apply netget0_ns; exact Hg|].
  intros t s1 Hg1 (_ & Hle & Hlt).
  destruct (t <? 0)%Z eqn:Et; [split; [exact Hg1|exact I]|].
  apply IH; [exact Hg1|]. apply Z.ltb_ge in Et. assert (avail s1 < avail s) by (apply Hlt; now apply Z.leb_le). lia.
Qed.

Lemma good_nwrite b s : good s -> good (nwrite b s).
Proof. intros H. exact H. Qed.

Lemma greeting_ns s : good s -> ns (fun _ _ => True) (greeting s).
Proof.
  intros Hg. unfold greeting.
  eapply ns_bind; [apply netget0_ns; apply good_nwrite; exact Hg|].
  intros sc s1 Hg1 _.
  destruct (sc <? 0)%Z eqn:Esc; [split; [exact Hg1|exact I]|].
  assert (Hsc : (0 <=? sc)%Z = true) by (apply Z.leb_le; apply Z.ltb_ge in Esc; exact Esc).
  eapply ns_bind; [apply (ehlo_loop_ns _ sc 0%N false s1 Hsc Hg1); lia|].
  intros r s2 Hg2 _.
  destruct r as [t|[ret err]]; [split; [exact Hg2|exact I]|].
  destruct err; [split; [exact Hg2|exact I]|].
  destruct (Z.eqb sc ST_EHLO_OK); [split; [exact Hg2|exact I]|].
  eapply ns_bind; [apply netget0_ns; apply good_nwrite; exact Hg2|].
  intros sh s4 Hg4 _.
  destruct (sh <? 0)%Z; [split; [exact Hg4|exact I]|].
  eapply ns_bind; [apply (helo_loop_ns _ sh false s4 Hg4); lia|].
  intros r2 s5 Hg5 _.
  destruct r2 as [t|err2]; [split; [exact Hg5|exact I]|].
  destruct (negb err2 && Z.eqb sh ST_EHLO_OK); [split; [exact Hg5|exact I]|].
  destruct (negb err2 && (ST_HELO_FAIL_LO <=? sh)%Z && (sh <=? ST_HELO_FAIL_HI)%Z); split; try exact Hg5; exact I.
Qed.

Lemma quit_loop_ns fuel : forall s, good s -> avail s < fuel -> ns (fun _ _ => True) (quit_loop fuel s).
Proof.
  induction fuel as [|fuel IH]; intros s Hg Hf; [lia|]. cbn [quit_loop].
  eapply ns_bind; [apply nread_ns; exact Hg|].
  intros it s1 Hg1 (_ & Hle & Hlt).
  destruct it as [l| | | | |]; try (split; [exact Hg1|exact I]).
  destruct (Nat.leb 4 (length l) && N.eqb (nth 3 l 0%N) DASH); [|split; [exact Hg1|exact I]].
  apply IH; [exact Hg1|]. specialize (Hlt eq_refl). change (avail (set_linein l s1)) with (avail s1). lia.
Qed.

Lemma quitmsg_ns s : good s -> ns (fun _ _ => True) (quitmsg s).
Proof.
  intros Hg. unfold quitmsg.
  eapply ns_bind; [apply quit_loop_ns; [apply good_nwrite; exact Hg|lia]|].
  intros u s1 Hg1 _. destruct ST_QUITMSG_RESETS_ROUTE; split; try exact Hg1; exact I.
Qed.

(** exit() or stuck, never a return: *)
Definition exits {A} (r : res A) : Prop := match r with Exit _ => True | _ => False end.

Lemma shutdown_clean_exits {A} s : good s -> exits (@shutdown_clean A s).
Proof.
  intros Hg. unfold shutdown_clean. destruct (s_sock s); [|exact I].
  pose proof (quitmsg_ns s Hg) as H. destruct (quitmsg s); cbn [ns] in H; [exact I|exact I|contradiction].
Qed.

Lemma exits_ns {A} (P : A -> st -> Prop) (r : res A) : exits r -> ns P r.
Proof. destruct r; cbn; intros H; [contradiction|exact I|contradiction]. Qed.

Lemma quitmsg_if_net_ns err s : good s -> ns (fun _ _ => True) (quitmsg_if_net err s).
Proof.
  intros Hg. unfold quitmsg_if_net. destruct (closes_socket err); [|now apply quitmsg_ns].
  split; [exact Hg|exact I].
Qed.

Lemma tls_reply_loop_ns fuel : forall i s,
  good s -> avail s < fuel -> ns (fun _ _ => True) (tls_reply_loop fuel i s).
Proof.
  induction fuel as [|fuel IH]; intros i s Hg Hf; [lia|]. cbn [tls_reply_loop].
  destruct ((0 <? i)%Z && dash3 s) eqn:Ec; [|split; [exact Hg|exact I]].
  apply andb_true_iff in Ec as [Ei _]. apply Z.ltb_lt in Ei.
  eapply ns_bind; [apply netget0_ns; exact Hg|].
  intros t s1 Hg1 (_ & Hle & Hlt).
  destruct (negb (Z.eqb i t)) eqn:Ene; [split; [exact Hg1|exact I]|].
  apply negb_false_iff, Z.eqb_eq in Ene. subst t.
  apply IH; [exact Hg1|]. assert (avail s1 < avail s) by (apply Hlt; apply Z.leb_le; lia). lia.
Qed.

Lemma tls_init_ns c tlsa s : good s -> ns (fun _ _ => True) (tls_init c tlsa s).
Proof.
  intros Hg. unfold tls_init.
  destruct (pinned c && negb (c_pinload c)); [split; [exact Hg|exact I]|].
  destruct (if Nat.eqb (count_usable tlsa) 0 then Some 0 else dane_add tlsa (count_usable tlsa)) as [usable|];
    [|split; [exact Hg|exact I]].
  eapply ns_bind; [apply netget0_ns; exact Hg|].
  intros i0 s1 Hg1 _.
  eapply ns_bind; [apply (tls_reply_loop_ns _ i0 s1 Hg1); lia|].
  intros i s2 Hg2 _.
  destruct (negb (Z.eqb i ST_STARTTLS_OK)); [split; [exact Hg2|exact I]|].
  assert (Hg3 : good (set_clr (s_inn s2) {| cur := []; future := c_post c |} s2)) by exact Hg2.
  destruct (negb (N.eqb (c_hs c) 0)); [split; [exact Hg3|exact I]|].
  destruct (pinned c || Nat.ltb 0 usable); [|split; [exact Hg3|exact I]].
  destruct (negb (N.eqb (c_verify c) 0)); split; try exact Hg3; exact I.
Qed.

Lemma banner_loop_ns fuel : forall sc fe s,
  good s -> avail s < fuel -> ns (fun _ _ => True) (banner_loop fuel sc fe s).
Proof.
  induction fuel as [|fuel IH]; intros sc fe s Hg Hf; [lia|]. cbn [banner_loop].
  destruct (dash3 s); [|split; [exact Hg|exact I]].
  eapply ns_bind; [apply netget0_ns; exact Hg|].
  intros t s1 Hg1 (_ & Hle & Hlt).
  destruct (Z.eqb t (neg ST_ECONNRESET)); [split; [exact Hg1|exact I]|].
  destruct (0 <? t)%Z eqn:Et; [|split; [exact Hg1|exact I]].
  apply IH; [exact Hg1|]. apply Z.ltb_lt in Et. assert (avail s1 < avail s) by (apply Hlt; apply Z.leb_le; lia). lia.
Qed.

Lemma next_ns (m : res unit) : ns (fun _ _ => True) m -> ns (fun (_ : option Z) _ => True) (rdo (_, s') <- m; Ret None s').
Proof. intros H. eapply ns_bind; [exact H|]. intros u s' Hg _. split; [exact Hg|exact I]. Qed.

Lemma conn_iter_ns k c tlsa s : good s -> ns (fun _ _ => True) (conn_iter k c tlsa s).
Proof.
  intros Hg. unfold conn_iter.
  assert (Hg0 : good (log (EvConn k) (open_conn c s))) by exact Hg.
  eapply ns_bind; [apply netget0_ns; exact Hg0|].
  intros sc0 s1 Hg1 _.
  destruct ((sc0 <? 0)%Z && Z.eqb sc0 (neg ST_ECONNRESET)); [split; [exact Hg1|exact I]|].
  destruct ((sc0 <? 0)%Z && Z.eqb sc0 (neg ST_EINVAL)); [apply next_ns; now apply quitmsg_ns|].
  destruct (sc0 <? 0)%Z; [exact I|].
  eapply ns_bind; [apply (banner_loop_ns _ sc0 false s1 Hg1); lia|].
  intros [sc flagerr] s2 Hg2 _.
  destruct (Z.eqb sc (neg ST_ECONNRESET)); [split; [exact Hg2|exact I]|].
  destruct (negb (Z.eqb sc ST_GREETING_OK) || flagerr); [apply next_ns; now apply quitmsg_if_net_ns|].
  eapply ns_bind; [apply greeting_ns; exact Hg2|].
  intros g s3 Hg3 _.
  destruct (g <? 0)%Z; [apply next_ns; now apply quitmsg_if_net_ns|].
  destruct (negb (N.eqb (N.land (Z.to_N g) ST_ESMTP_STARTTLS) 0)).
  - eapply ns_bind; [apply tls_init_ns; exact Hg3|].
    intros r s4 Hg4 _.
    destruct (r <? 0)%Z; [apply exits_ns; now apply shutdown_clean_exits|].
    destruct (negb (Z.eqb r 0)); [apply next_ns; now apply quitmsg_if_net_ns|].
    eapply ns_bind; [apply greeting_ns; exact Hg4|].
    intros g2 s5 Hg5 _.
    destruct (g2 <? 0)%Z; [apply next_ns; now apply quitmsg_if_net_ns|].
    split; [exact Hg5|exact I].
  - destruct (s_xtls s3); [apply next_ns; now apply quitmsg_ns|].
    destruct (Nat.ltb 0 (length tlsa)); [apply next_ns; now apply quitmsg_ns|].
    split; [exact Hg3|exact I].
Qed.

Lemma connect_mx_ns all : forall todo k s, good s -> ns (fun _ _ => True) (connect_mx all k todo s).
Proof.
  induction todo as [|c todo IH]; intros k s Hg; cbn [connect_mx].
  - split; [|exact I]. destruct (asks_tlsa all); exact Hg.
  - eapply ns_bind; [apply conn_iter_ns; destruct (asks_tlsa all); exact Hg|].
    intros r s1 Hg1 _. destruct r; [split; [exact Hg1|exact I]|now apply IH].
Qed.

(** the model of main() always ends in exit(): it never runs out of fuel *)
Theorem run_exits k : exits (run k).
Proof.
  unfold run. pose proof LB as HLB.
  assert (Hg0 : good (init_st k)) by (unfold good; cbn; lia).
  pose proof (connect_mx_ns (k_conns k) (k_conns k) 0 (init_st k) Hg0) as H.
  destruct (connect_mx (k_conns k) 0 (k_conns k) (init_st k)) as [r s|s|s]; cbn [rbind ns] in *; [|exact I|contradiction].
  destruct H as (Hg & _). destruct r as [[c g]|]; [|exact I].
  destruct (ST_PINNED_NEEDS_TLS && negb (s_ssl s) && pinned c); apply shutdown_clean_exits; exact Hg.
Qed.
